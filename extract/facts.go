package main

import (
	"bytes"
	"fmt"
	"go/ast"
	"go/constant"
	"go/printer"
	"go/token"
	"path/filepath"
	"sort"
	"strconv"
	"strings"
)

func exprString(fset *token.FileSet, x ast.Node) string {
	var b bytes.Buffer
	_ = printer.Fprint(&b, fset, x)
	return strings.Join(strings.Fields(b.String()), " ")
}

func leanStrList(xs []string) string {
	var q []string
	for _, x := range xs {
		q = append(q, strconv.Quote(x))
	}
	return "[" + strings.Join(q, ", ") + "]"
}

func findFunc(p *pkg, name string, recv string) (*ast.FuncDecl, *token.FileSet) {
	for _, n := range p.sortedFiles() {
		for _, d := range p.files[n].Decls {
			fd, ok := d.(*ast.FuncDecl)
			if !ok || fd.Name.Name != name {
				continue
			}
			if recv == "" && fd.Recv == nil {
				return fd, p.fset
			}
			if recv != "" && fd.Recv != nil && strings.Contains(exprString(p.fset, fd.Recv.List[0].Type), recv) {
				return fd, p.fset
			}
		}
	}
	return nil, p.fset
}

func isCall(x ast.Node, pkgName, fn string) bool {
	ce, ok := x.(*ast.CallExpr)
	if !ok {
		return false
	}
	return isSel(ce.Fun, pkgName, fn)
}

func isSel(x ast.Expr, pkgName, fn string) bool {
	se, ok := x.(*ast.SelectorExpr)
	if !ok {
		return false
	}
	id, ok := se.X.(*ast.Ident)
	return ok && id.Name == pkgName && se.Sel.Name == fn
}

// ---------------------------------------------------------------- compression

func factsCompression(repo string) {
	p := loadPkg(filepath.Join(repo, "compression"))
	e := p.env(nil)
	emit("-- compression/compression_detect.go")
	for _, n := range []string{"bzip2Magic", "gzipMagic", "xzMagic", "zstdMagic"} {
		emit("def %s? : Option (List UInt8) := %s", n, e.bytesFact(n))
	}
	emit("def zstdMagicSkippableStart? : Option Nat := %s", e.natFact("zstdMagicSkippableStart"))
	emit("def zstdMagicSkippableMask? : Option Nat := %s", e.natFact("zstdMagicSkippableMask"))
	for _, n := range []string{"None", "Bzip2", "Gzip", "Xz", "Zstd"} {
		emit("def compression%s? : Option Nat := %s", n, e.natFact(n))
	}
	// Detect: the order list and the matcher table
	order := "none"
	table := "none"
	if fd, _ := findFunc(p, "Detect", ""); fd != nil {
		ast.Inspect(fd.Body, func(n ast.Node) bool {
			switch v := n.(type) {
			case *ast.RangeStmt:
				if cl, ok := v.X.(*ast.CompositeLit); ok {
					var vals []string
					good := true
					for _, el := range cl.Elts {
						c := e.eval(el, 0)
						u, ok := constant.Uint64Val(c)
						if c.Kind() != constant.Int || !ok {
							good = false
						}
						vals = append(vals, strconv.FormatUint(u, 10))
					}
					if good {
						order = "some [" + strings.Join(vals, ", ") + "]"
					}
				}
			case *ast.CompositeLit:
				if _, ok := v.Type.(*ast.MapType); ok {
					var rows []string
					good := true
					for _, el := range v.Elts {
						kv, ok := el.(*ast.KeyValueExpr)
						if !ok {
							good = false
							continue
						}
						k := e.eval(kv.Key, 0)
						ku, ok := constant.Uint64Val(k)
						if k.Kind() != constant.Int || !ok {
							good = false
							continue
						}
						ce, ok := kv.Value.(*ast.CallExpr)
						if !ok {
							good = false
							continue
						}
						fn := exprString(p.fset, ce.Fun)
						switch {
						case fn == "magicNumberMatcher" && len(ce.Args) == 1:
							id, ok := ce.Args[0].(*ast.Ident)
							if !ok {
								good = false
								continue
							}
							b := e.bytesFact(id.Name)
							if b == "none" {
								good = false
								continue
							}
							rows = append(rows, "("+strconv.FormatUint(ku, 10)+", some "+strings.TrimPrefix(b, "some ")+")")
						case fn == "zstdMatcher":
							rows = append(rows, "("+strconv.FormatUint(ku, 10)+", none)")
						default:
							good = false
						}
					}
					if good {
						table = "some [" + strings.Join(rows, ", ") + "]"
					}
				}
			}
			return true
		})
	}
	emit("/-- order in which `Detect` tries the formats -/")
	emit("def detectOrder? : Option (List Nat) := %s", order)
	emit("/-- `Detect`'s matcher table: format ↦ magic prefix (`none` = the zstd matcher) -/")
	emit("def detectTable? : Option (List (Nat × Option (List UInt8))) := %s", table)
	emit("")
}

// ---------------------------------------------------------------- unshare

func factsUnshare(repo string) {
	p := loadPkg(filepath.Join(repo, "internal", "unshare"))
	var names []string
	// collect unix.* names used as map keys
	var mapLit *ast.CompositeLit
	for _, n := range p.sortedFiles() {
		for _, d := range p.files[n].Decls {
			gd, ok := d.(*ast.GenDecl)
			if !ok || gd.Tok != token.VAR {
				continue
			}
			for _, s := range gd.Specs {
				vs := s.(*ast.ValueSpec)
				for j, id := range vs.Names {
					if id.Name == "reversibleSetnsFlags" && j < len(vs.Values) {
						if cl, ok := vs.Values[j].(*ast.CompositeLit); ok {
							mapLit = cl
						}
					}
				}
			}
		}
	}
	if mapLit != nil {
		for _, el := range mapLit.Elts {
			if kv, ok := el.(*ast.KeyValueExpr); ok {
				if se, ok := kv.Key.(*ast.SelectorExpr); ok {
					names = append(names, se.Sel.Name)
				}
			}
		}
	}
	uc := unixConsts(repo, append(names, "CLONE_FS", "CLONE_NEWNS", "CLONE_NEWUSER", "CLONE_NEWIPC", "CLONE_FILES", "CLONE_SYSVSEM"))
	emit("-- internal/unshare/unshare_linux.go")
	rev := "none"
	if mapLit != nil {
		var vals []string
		good := true
		for _, n := range names {
			c, ok := uc["unix."+n]
			if !ok {
				good = false
				continue
			}
			u, _ := constant.Uint64Val(c)
			vals = append(vals, strconv.FormatUint(u, 10))
		}
		if good && len(vals) == len(mapLit.Elts) {
			rev = "some [" + strings.Join(vals, ", ") + "]"
		}
	}
	emit("/-- keys of `reversibleSetnsFlags` (numeric values from golang.org/x/sys/unix) -/")
	emit("def reversibleFlags? : Option (List Nat) := %s", rev)
	for _, n := range []string{"CLONE_FS", "CLONE_NEWNS"} {
		if c, ok := uc["unix."+n]; ok {
			u, _ := constant.Uint64Val(c)
			emit("def %s? : Option Nat := some %d", strings.ToLower(strings.ReplaceAll(n, "CLONE_", "clone")), u)
		} else {
			emit("def %s? : Option Nat := none", strings.ToLower(strings.ReplaceAll(n, "CLONE_", "clone")))
		}
	}

	// structural facts about Go()
	lockFirst, unlockGuarded, initLocks := false, true, false
	isRevAssignOK := true
	unlockCount := 0
	setnsFailClears := false
	if fd, _ := findFunc(p, "init", ""); fd != nil {
		ast.Inspect(fd.Body, func(n ast.Node) bool {
			if isCall(n, "runtime", "LockOSThread") {
				initLocks = true
			}
			return true
		})
	}
	if fd, _ := findFunc(p, "Go", ""); fd != nil {
		// the goroutine
		ast.Inspect(fd.Body, func(n ast.Node) bool {
			gs, ok := n.(*ast.GoStmt)
			if !ok {
				return true
			}
			fl, ok := gs.Call.Fun.(*ast.FuncLit)
			if !ok || len(fl.Body.List) == 0 {
				return true
			}
			if es, ok := fl.Body.List[0].(*ast.ExprStmt); ok && isCall(es.X, "runtime", "LockOSThread") {
				lockFirst = true
			}
			return true
		})
		// the flag that guards the unlocks: the one variable defined as `<masked flags> == 0` (whatever it is called)
		guard := "isReversible"
		ast.Inspect(fd.Body, func(n ast.Node) bool {
			if as, ok := n.(*ast.AssignStmt); ok && as.Tok == token.DEFINE && len(as.Lhs) == 1 && len(as.Rhs) == 1 {
				if be, ok := as.Rhs[0].(*ast.BinaryExpr); ok && be.Op == token.EQL {
					if bl, ok := be.Y.(*ast.BasicLit); ok && bl.Value == "0" {
						if id, ok := as.Lhs[0].(*ast.Ident); ok {
							guard = id.Name
						}
					}
				}
			}
			return true
		})
		// every UnlockOSThread directly guarded by `if <guard>`
		var stack []ast.Node
		ast.Inspect(fd.Body, func(n ast.Node) bool {
			if n == nil {
				stack = stack[:len(stack)-1]
				return true
			}
			if isCall(n, "runtime", "UnlockOSThread") {
				unlockCount++
				ok := false
				for i := len(stack) - 1; i >= 0; i-- {
					if is, isIf := stack[i].(*ast.IfStmt); isIf {
						if id, isId := is.Cond.(*ast.Ident); isId && id.Name == guard && is.Else == nil {
							ok = true
						}
						break
					}
					if _, isFn := stack[i].(*ast.FuncLit); isFn && i < len(stack)-2 {
						// crossing a function literal is fine as long as an `if isReversible` is met first
						continue
					}
				}
				if !ok {
					unlockGuarded = false
				}
			}
			if as, ok := n.(*ast.AssignStmt); ok {
				for i, l := range as.Lhs {
					if id, ok := l.(*ast.Ident); ok && id.Name == guard && i < len(as.Rhs) {
						r := exprString(p.fset, as.Rhs[i])
						switch {
						case as.Tok == token.DEFINE && strings.HasSuffix(r, " == 0"):
						case as.Tok == token.ASSIGN && r == "false":
							setnsFailClears = true
						default:
							isRevAssignOK = false
						}
					}
				}
			}
			stack = append(stack, n)
			return true
		})
	}
	// every `started <- err` is immediately followed by `return`; fn() is called after close(started) only
	sendsReturn, sends := true, 0
	fnAfterClose := false
	if fd, _ := findFunc(p, "Go", ""); fd != nil {
		ast.Inspect(fd.Body, func(n ast.Node) bool {
			bs, ok := n.(*ast.BlockStmt)
			if !ok {
				return true
			}
			closed := false
			for i, st := range bs.List {
				if ss, ok := st.(*ast.SendStmt); ok {
					if id, ok := ss.Chan.(*ast.Ident); ok && id.Name == "started" {
						sends++
						if i+1 >= len(bs.List) {
							sendsReturn = false
						} else if _, ok := bs.List[i+1].(*ast.ReturnStmt); !ok {
							sendsReturn = false
						}
					}
				}
				if es, ok := st.(*ast.ExprStmt); ok {
					if ce, ok := es.X.(*ast.CallExpr); ok {
						if id, ok := ce.Fun.(*ast.Ident); ok && id.Name == "close" && len(ce.Args) == 1 && exprString(p.fset, ce.Args[0]) == "started" {
							closed = true
						}
					}
				}
				if is, ok := st.(*ast.IfStmt); ok && closed && exprString(p.fset, is.Cond) == "fn != nil" {
					fnAfterClose = true
				}
			}
			return true
		})
	}
	emit("/-- in `unshare.Go` every `started <- err` is directly followed by `return`, and `fn` is called only after `close(started)` in the same block -/")
	emit("def goFailureReturns : Bool := %s", boolLean(sendsReturn && sends >= 2 && fnAfterClose))
	emit("/-- `runtime.LockOSThread()` is the first statement of the goroutine started by `unshare.Go` -/")
	emit("def goLocksFirst : Bool := %s", boolLean(lockFirst))
	emit("/-- every `runtime.UnlockOSThread()` in `unshare.Go` sits directly under `if isReversible` -/")
	emit("def unlockOnlyIfReversible : Bool := %s", boolLean(unlockGuarded && unlockCount >= 1))
	emit("/-- `isReversible` is defined as `maskedFlags == 0` and only ever re-assigned to `false` -/")
	emit("def isReversibleMonotone : Bool := %s", boolLean(isRevAssignOK && setnsFailClears))
	emit("/-- package `unshare` locks the startup thread in `init` -/")
	emit("def startupThreadLocked : Bool := %s", boolLean(initLocks))
	emit("")
}

// ---------------------------------------------------------------- chrootarchive

func factsChroot(repo string) {
	p := loadPkg(filepath.Join(repo, "chrootarchive"))
	uc := unixConsts(repo, []string{"CLONE_FS", "CLONE_NEWNS", "CLONE_NEWUSER", "CLONE_NEWIPC", "CLONE_FILES", "CLONE_NEWUTS", "CLONE_NEWNET", "CLONE_NEWPID", "CLONE_NEWCGROUP", "CLONE_NEWTIME"})
	e := p.env(uc)
	emit("-- chrootarchive")
	flags := "none"
	switchInSetup := false
	unshareCalls := 0
	if fd, _ := findFunc(p, "goInChroot", ""); fd != nil {
		le := e.withLocals(fd.Body)
		ast.Inspect(fd.Body, func(n ast.Node) bool {
			if ce, ok := n.(*ast.CallExpr); ok && isSel(ce.Fun, "unshare", "Go") {
				unshareCalls++
			}
			if ce, ok := n.(*ast.CallExpr); ok && isSel(ce.Fun, "unshare", "Go") && len(ce.Args) == 3 {
				c := le.eval(ce.Args[0], 0)
				if u, ok := constant.Uint64Val(c); ok && c.Kind() == constant.Int {
					flags = "some " + strconv.FormatUint(u, 10)
				}
				if fl, ok := ce.Args[1].(*ast.FuncLit); ok {
					sawSlave := false
					// the call has to be made on every path: a top-level statement of the set-up function, either
					// `if err := mount.MakeRSlave("/"); err != nil { return … }` or a plain call
					for _, st := range fl.Body.List {
						switch v := st.(type) {
						case *ast.IfStmt:
							if as, ok := v.Init.(*ast.AssignStmt); ok && len(as.Rhs) == 1 && isCall(as.Rhs[0], "mount", "MakeRSlave") {
								sawSlave = true
							}
						case *ast.ExprStmt:
							if isCall(v.X, "mount", "MakeRSlave") {
								sawSlave = true
							}
						}
					}
					ast.Inspect(fl.Body, func(m ast.Node) bool {
						if rs, ok := m.(*ast.ReturnStmt); ok && len(rs.Results) == 1 && isCall(rs.Results[0], "mounttree", "SwitchRoot") && sawSlave {
							if id, ok := rs.Results[0].(*ast.CallExpr).Args[0].(*ast.Ident); ok && id.Name == "path" {
								switchInSetup = true
							}
						}
						return true
					})
				}
				// the third argument must be fn itself
				if id, ok := ce.Args[2].(*ast.Ident); !ok || id.Name != "fn" {
					switchInSetup = false
				}
			}
			return true
		})
	}
	if unshareCalls != 1 {
		// more than one way into the jail (a fast path, a fallback): the flag word is not *the* flag word
		flags = "none"
	}
	emit("/-- the flag word `goInChroot` passes to `unshare.Go` — `none` unless there is exactly one such call -/")
	emit("def goInChrootFlags? : Option Nat := %s", flags)
	emit("/-- `goInChroot`'s setup function is MakeRSlave(\"/\") then `return mounttree.SwitchRoot(path)`, and `fn` is run unchanged -/")
	emit("def switchRootInSetup : Bool := %s", boolLean(switchInSetup))

	// extractor / packer / umask only inside goInChroot's function argument
	inside, outside := 0, 0
	umaskInside, umaskOutside := 0, 0
	for _, fn := range p.sortedFiles() {
		f := p.files[fn]
		// positions covered by arguments of goInChroot(...) calls
		type span struct{ lo, hi token.Pos }
		var spans []span
		ast.Inspect(f, func(n ast.Node) bool {
			if ce, ok := n.(*ast.CallExpr); ok {
				if id, ok := ce.Fun.(*ast.Ident); ok && id.Name == "goInChroot" && len(ce.Args) == 2 {
					spans = append(spans, span{ce.Args[1].Pos(), ce.Args[1].End()})
				}
			}
			return true
		})
		in := func(pos token.Pos) bool {
			for _, s := range spans {
				if pos >= s.lo && pos < s.hi {
					return true
				}
			}
			return false
		}
		ast.Inspect(f, func(n ast.Node) bool {
			se, ok := n.(*ast.SelectorExpr)
			if !ok {
				return true
			}
			id, ok := se.X.(*ast.Ident)
			if !ok {
				return true
			}
			switch {
			case id.Name == "archive" && (se.Sel.Name == "Unpack" || se.Sel.Name == "UnpackLayer" || se.Sel.Name == "Untar" || se.Sel.Name == "UntarUncompressed" || se.Sel.Name == "ApplyLayer" || se.Sel.Name == "ApplyUncompressedLayer" || se.Sel.Name == "TarWithOptions" || se.Sel.Name == "Tar"),
				id.Name == "tb" && se.Sel.Name == "Do":
				if in(se.Pos()) {
					inside++
				} else {
					outside++
				}
			case id.Name == "unix" && se.Sel.Name == "Umask":
				if in(se.Pos()) {
					umaskInside++
				} else {
					umaskOutside++
				}
			}
			return true
		})
	}
	emit("/-- in package chrootarchive every use of archive.Unpack / UnpackLayer / Untar* / Apply*Layer / Tar* / tb.Do lies inside the function argument of a goInChroot call (counts: inside, outside) -/")
	emit("def extractorUses : Nat × Nat := (%d, %d)", inside, outside)
	emit("def umaskUses : Nat × Nat := (%d, %d)", umaskInside, umaskOutside)

	// calls that change a thread's (or the process's) root or working directory: only inside the set-up function
	// handed to unshare.Go, i.e. on a thread that has its own file-system attributes
	jailOutside := 0
	for _, fn := range p.sortedFiles() {
		f := p.files[fn]
		type span struct{ lo, hi token.Pos }
		var spans []span
		ast.Inspect(f, func(n ast.Node) bool {
			if ce, ok := n.(*ast.CallExpr); ok && isSel(ce.Fun, "unshare", "Go") {
				for _, a := range ce.Args {
					if fl, ok := a.(*ast.FuncLit); ok {
						spans = append(spans, span{fl.Pos(), fl.End()})
					}
				}
			}
			return true
		})
		ast.Inspect(f, func(n ast.Node) bool {
			ce, ok := n.(*ast.CallExpr)
			if !ok {
				return true
			}
			se, ok := ce.Fun.(*ast.SelectorExpr)
			if !ok {
				return true
			}
			switch se.Sel.Name {
			case "Chroot", "Chdir", "Fchdir", "PivotRoot", "SwitchRoot":
				in := false
				for _, sp := range spans {
					if ce.Pos() >= sp.lo && ce.Pos() < sp.hi {
						in = true
					}
				}
				if !in {
					jailOutside++
				}
			}
			return true
		})
	}
	emit("/-- calls of Chroot / Chdir / Fchdir / PivotRoot / SwitchRoot in package chrootarchive that lie outside a function literal handed to unshare.Go -/")
	emit("def jailCallsOutsideUnshare : Nat := %d", jailOutside)
	emit("")
}

// ---------------------------------------------------------------- copy

func condLean(fset *token.FileSet, x ast.Expr) (string, bool) {
	switch v := x.(type) {
	case *ast.ParenExpr:
		s, ok := condLean(fset, v.X)
		return "(" + s + ")", ok
	case *ast.BinaryExpr:
		a, ok1 := condLean(fset, v.X)
		b, ok2 := condLean(fset, v.Y)
		switch v.Op {
		case token.LAND:
			return "(" + a + " && " + b + ")", ok1 && ok2
		case token.LOR:
			return "(" + a + " || " + b + ")", ok1 && ok2
		}
		return "", false
	case *ast.UnaryExpr:
		if v.Op == token.NOT {
			a, ok := condLean(fset, v.X)
			return "(!" + a + ")", ok
		}
		return "", false
	}
	switch exprString(fset, x) {
	case "dstInfo.Exists":
		return "dstExists", true
	case "dstInfo.IsDir":
		return "dstIsDir", true
	case "srcInfo.IsDir":
		return "srcIsDir", true
	case "assertsDirectory(dstInfo.Path)":
		return "dstAsserts", true
	}
	return "", false
}

func factsCopy(p *pkg) {
	emit("-- copy.go: PrepareArchiveCopy's switch as a decision function")
	emit("/-- outcome codes: 0 = extract into dstInfo.Path unchanged; 1 = ErrCannotCopyDir; 2 = extract into the destination's parent, entries rebased srcBase→dstBase; 3 = ErrDirNotExists; 9 = not recognised -/")
	fd, fset := findFunc(p, "PrepareArchiveCopy", "")
	var sw *ast.SwitchStmt
	if fd != nil {
		ast.Inspect(fd.Body, func(n ast.Node) bool {
			if s, ok := n.(*ast.SwitchStmt); ok && s.Tag == nil && sw == nil {
				sw = s
			}
			return true
		})
	}
	if sw == nil {
		emit("def prepareDecision? : Option (Bool → Bool → Bool → Bool → Nat) := none")
		emit("")
		return
	}
	outcome := func(body []ast.Stmt) int {
		res := 9
		for _, st := range body {
			rs, ok := st.(*ast.ReturnStmt)
			if !ok || len(rs.Results) != 3 {
				continue
			}
			r0 := exprString(fset, rs.Results[0])
			r1 := exprString(fset, rs.Results[1])
			r2 := exprString(fset, rs.Results[2])
			switch {
			case r0 == "dstInfo.Path" && r1 == "io.NopCloser(srcContent)" && r2 == "nil":
				res = 0
			case r0 == `""` && r2 == "ErrCannotCopyDir":
				res = 1
			case r0 == "dstDir" && r1 == "RebaseArchiveEntries(srcContent, srcBase, dstBase)" && r2 == "nil":
				res = 2
			case r0 == `""` && r2 == "ErrDirNotExists":
				res = 3
			}
		}
		return res
	}
	var sb strings.Builder
	ok := true
	closed := false
	for _, c := range sw.Body.List {
		cc := c.(*ast.CaseClause)
		if cc.List == nil {
			sb.WriteString(strconv.Itoa(outcome(cc.Body)))
			closed = true
			break
		}
		if len(cc.List) != 1 {
			ok = false
			break
		}
		cond, good := condLean(fset, cc.List[0])
		if !good {
			ok = false
			break
		}
		sb.WriteString("if " + cond + " then " + strconv.Itoa(outcome(cc.Body)) + " else ")
	}
	if !ok || !closed {
		emit("def prepareDecision? : Option (Bool → Bool → Bool → Bool → Nat) := none")
	} else {
		emit("def prepareDecision? : Option (Bool → Bool → Bool → Bool → Nat) := some fun dstExists dstIsDir srcIsDir dstAsserts => %s", sb.String())
	}
	emit("")
}

// ---------------------------------------------------------------- archive.go / changes

func rangeExprs(fset *token.FileSet, body ast.Node) []string {
	// a ranged expression that was merely given a local name counts as the expression itself
	defs := map[string]ast.Expr{}
	count := map[string]int{}
	ast.Inspect(body, func(n ast.Node) bool {
		if as, ok := n.(*ast.AssignStmt); ok && len(as.Lhs) == len(as.Rhs) {
			for i, l := range as.Lhs {
				if id, ok := l.(*ast.Ident); ok {
					count[id.Name]++
					if as.Tok == token.DEFINE {
						defs[id.Name] = as.Rhs[i]
					}
				}
			}
		}
		return true
	})
	var xs []string
	ast.Inspect(body, func(n ast.Node) bool {
		if rs, ok := n.(*ast.RangeStmt); ok {
			x := rs.X
			if id, ok := x.(*ast.Ident); ok && count[id.Name] == 1 {
				if d, ok := defs[id.Name]; ok {
					x = d
				}
			}
			xs = append(xs, exprString(fset, x))
		}
		return true
	})
	return xs
}

// pipeWriterName: the name given to the write end in `r, w := io.Pipe()` inside fd ("" if there is none)
func pipeWriterName(fd *ast.FuncDecl) string {
	name := ""
	ast.Inspect(fd.Body, func(n ast.Node) bool {
		if as, ok := n.(*ast.AssignStmt); ok && len(as.Lhs) == 2 && len(as.Rhs) == 1 && isCall(as.Rhs[0], "io", "Pipe") {
			if id, ok := as.Lhs[1].(*ast.Ident); ok {
				name = id.Name
			}
		}
		return true
	})
	return name
}

func countCalls(body ast.Node, pkgName, fn string) int {
	c := 0
	ast.Inspect(body, func(n ast.Node) bool {
		if isCall(n, pkgName, fn) {
			c++
		}
		return true
	})
	return c
}

func factsArchive(p *pkg) {
	emit("-- archive.go / changes.go: sources of nondeterminism in the producers")
	var ranges []string
	clock := 0
	for _, fn := range []struct{ name, recv string }{{"Do", "Tarballer"}, {"addTarFile", "tarAppender"}, {"FileInfoHeader", ""}, {"ReadSecurityXattrToTarHeader", ""}, {"canonicalTarName", ""}} {
		fd, fset := findFunc(p, fn.name, fn.recv)
		if fd == nil {
			ranges = append(ranges, "<missing "+fn.name+">")
			continue
		}
		ranges = append(ranges, rangeExprs(fset, fd.Body)...)
		clock += countCalls(fd.Body, "time", "Now") + countCalls(fd.Body, "rand", "Int") + countCalls(fd.Body, "rand", "Intn")
	}
	emit("/-- every `range` expression in Tarballer.Do, addTarFile, FileInfoHeader, ReadSecurityXattrToTarHeader, canonicalTarName -/")
	emit("def packRangeExprs : List String := %s", leanStrList(ranges))
	emit("def packClockCalls : Nat := %d", clock)
	exRanges := []string{"<missing>"}
	exClock := 0
	if fd, fset := findFunc(p, "ExportChanges", ""); fd != nil {
		exRanges = rangeExprs(fset, fd.Body)
		exClock = countCalls(fd.Body, "time", "Now")
	}
	emit("def exportRangeExprs : List String := %s", leanStrList(exRanges))
	emit("def exportClockCalls : Nat := %d", exClock)
	// statDifferent: the selector names it mentions
	var fields []string
	if fd, _ := findFunc(p, "statDifferent", ""); fd != nil {
		seen := map[string]bool{}
		ast.Inspect(fd.Body, func(n ast.Node) bool {
			if se, ok := n.(*ast.SelectorExpr); ok {
				if id, ok := se.X.(*ast.Ident); ok && (strings.HasPrefix(id.Name, "old") || strings.HasPrefix(id.Name, "new")) {
					k := se.Sel.Name
					if k != "Sys" && !seen[k] {
						seen[k] = true
						fields = append(fields, k)
					}
				}
			}
			return true
		})
		sort.Strings(fields)
	}
	emit("/-- stat fields `statDifferent` looks at -/")
	emit("def statDifferentFields : List String := %s", leanStrList(fields))
	emit("")
}

// ---------------------------------------------------------------- stream producers (C17)

// callsMatching reports whether stmt is an expression/if/assign statement whose text contains one of the markers.
func stmtMentions(fset *token.FileSet, st ast.Stmt, markers []string) bool {
	txt := exprString(fset, st)
	for _, m := range markers {
		if strings.Contains(txt, m) {
			return true
		}
	}
	return false
}

// everyReturnAfterClose: in the function literal started with `go`, every `return` statement is
// directly preceded (same block) by a statement mentioning one of the close markers, and the body's
// last statement mentions one too (unless it is a return).
func everyReturnAfterClose(fset *token.FileSet, body *ast.BlockStmt, markers []string) bool {
	ok := true
	var check func(b *ast.BlockStmt)
	check = func(b *ast.BlockStmt) {
		for i, st := range b.List {
			if _, isRet := st.(*ast.ReturnStmt); isRet {
				if i == 0 || !stmtMentions(fset, b.List[i-1], markers) {
					ok = false
				}
			}
		}
	}
	ast.Inspect(body, func(n ast.Node) bool {
		if _, isLit := n.(*ast.FuncLit); isLit && n != ast.Node(nil) {
			// nested function literals (modify helpers, deferred closures) have their own returns
			if n.(*ast.FuncLit).Body != body {
				return false
			}
		}
		if b, isB := n.(*ast.BlockStmt); isB {
			check(b)
		}
		return true
	})
	if len(body.List) == 0 {
		return false
	}
	last := body.List[len(body.List)-1]
	if _, isRet := last.(*ast.ReturnStmt); !isRet && !stmtMentions(fset, last, markers) {
		// a `for { ... }` loop that can only be left through return is fine
		if _, isFor := last.(*ast.ForStmt); !isFor {
			ok = false
		}
	}
	return ok
}

func goroutineBody(fd *ast.FuncDecl) *ast.BlockStmt {
	var body *ast.BlockStmt
	ast.Inspect(fd.Body, func(n ast.Node) bool {
		if gs, ok := n.(*ast.GoStmt); ok && body == nil {
			if fl, ok := gs.Call.Fun.(*ast.FuncLit); ok {
				body = fl.Body
			}
		}
		return true
	})
	return body
}

func factsStreams(repo string, arch *pkg) {
	emit("-- stream producers: every exit path closes the pipe")
	// Tarballer.Do: first statement after ta setup is a defer of a func literal that closes all three without returning early
	doOK := false
	if fd, fset := findFunc(arch, "Do", "Tarballer"); fd != nil {
		for _, st := range fd.Body.List {
			ds, ok := st.(*ast.DeferStmt)
			if !ok {
				continue
			}
			fl, ok := ds.Call.Fun.(*ast.FuncLit)
			if !ok {
				break
			}
			txt := exprString(fset, fl.Body)
			rets := 0
			ast.Inspect(fl.Body, func(n ast.Node) bool {
				if _, ok := n.(*ast.ReturnStmt); ok {
					rets++
				}
				return true
			})
			doOK = rets == 0 && strings.Contains(txt, "ta.TarWriter.Close()") && strings.Contains(txt, "t.compressWriter.Close()") && strings.Contains(txt, "t.pipeWriter.Close()")
			break
		}
	}
	emit("/-- Tarballer.Do defers one closure that closes the tar writer, the compressor and the pipe, with no early return -/")
	emit("def doClosesAll : Bool := %s", boolLean(doOK))
	check := func(name, fn string, markers []string) {
		okv := false
		if fd, fset := findFunc(arch, fn, ""); fd != nil {
			if w := pipeWriterName(fd); w != "" {
				markers = []string{w + ".Close()", w + ".CloseWithError("} // whatever the write end is called
			}
			if b := goroutineBody(fd); b != nil {
				okv = everyReturnAfterClose(fset, b, markers)
			}
		}
		emit("def %s : Bool := %s", name, boolLean(okv))
	}
	emit("/-- in the goroutine of each producer every `return` directly follows a Close/CloseWithError of the pipe writer, and so does the end of the body -/")
	check("exportClosesAlways", "ExportChanges", []string{"writer.Close()"})
	check("rebaseClosesAlways", "RebaseArchiveEntries", []string{"w.Close()", "w.CloseWithError("})
	check("replaceClosesAlways", "ReplaceFileTarWrapper", []string{"pipeWriter.Close()", "pipeWriter.CloseWithError("})
	comp := loadPkg(filepath.Join(repo, "compression"))
	cmdOK := false
	if fd, fset := findFunc(comp, "cmdStream", ""); fd != nil {
		if b := goroutineBody(fd); b != nil {
			txt := exprString(fset, b)
			cmdOK = strings.Contains(txt, "writer.CloseWithError(") && strings.Contains(txt, "writer.Close()") && strings.HasSuffix(strings.TrimSpace(strings.TrimSuffix(strings.TrimSpace(txt), "}")), "close(done)")
		}
	}
	emit("/-- cmdStream's waiter closes the pipe with the helper's error or cleanly, then signals done -/")
	emit("def cmdStreamClosesAlways : Bool := %s", boolLean(cmdOK))
	// CopyFileWithTar: named result `err`, deferred collection of the producer's error
	named := false
	if fd, fset := findFunc(arch, "CopyFileWithTar", "Archiver"); fd != nil && fd.Type.Results != nil {
		for _, f := range fd.Type.Results.List {
			for _, n := range f.Names {
				if n.Name == "err" {
					named = true
				}
			}
		}
		txt := exprString(fset, fd.Body)
		named = named && strings.Contains(txt, "er := <-errC; err == nil && er != nil") && strings.Contains(txt, "r.CloseWithError(err)") && strings.Contains(txt, "defer w.Close()")
	}
	emit("/-- CopyFileWithTar returns through a named result that the deferred read of errC can set; it closes both pipe ends on failure -/")
	emit("def copyFileJoinsErrors : Bool := %s", boolLean(named))
	emit("")
}

// ---------------------------------------------------------------- shared state

func factsShared(repo string) {
	emit("-- package-level variables (shared mutable state candidates) per package")
	var all []string
	for _, d := range []string{".", "chrootarchive", "compression", "tarheader", "internal/unshare", "internal/mounttree"} {
		p := loadPkg(filepath.Join(repo, d))
		for _, fn := range p.sortedFiles() {
			for _, dd := range p.files[fn].Decls {
				gd, ok := dd.(*ast.GenDecl)
				if !ok || gd.Tok != token.VAR {
					continue
				}
				for _, s := range gd.Specs {
					for _, id := range s.(*ast.ValueSpec).Names {
						if id.Name != "_" {
							all = append(all, d+":"+id.Name)
						}
					}
				}
			}
		}
	}
	sort.Strings(all)
	emit("def packageVars : List String := %s", leanStrList(all))
	// assignments to package-level vars outside init / declarations
	emit("")
}

// ---------------------------------------------------------------- buffer pool protocol

// poolEventsOf lists, in evaluation order, the pool events of one expression or simple statement:
// "get" = <pool>.Get(), "put" = <pool>.Put(..), "use" = a call that is handed the dereferenced buffer.
func poolEventsOf(n ast.Node, pool string) []string {
	var evs []string
	if n == nil {
		return nil
	}
	ast.Inspect(n, func(x ast.Node) bool {
		if _, ok := x.(*ast.FuncLit); ok {
			return false
		}
		ce, ok := x.(*ast.CallExpr)
		if !ok {
			return true
		}
		switch {
		case isSel(ce.Fun, pool, "Get"):
			evs = append(evs, "get")
		case isSel(ce.Fun, pool, "Put"):
			evs = append(evs, "put")
		default:
			for _, a := range ce.Args {
				if st, ok := a.(*ast.StarExpr); ok {
					if _, ok := st.X.(*ast.Ident); ok {
						evs = append(evs, "use")
					}
				}
			}
		}
		return true
	})
	return evs
}

// poolPaths enumerates the control-flow paths of a loop-free function body and the pool events along
// each, deferred calls included (run at every return, last registered first).  A construct it does
// not understand contributes the event "unknown:<kind>", which no legal schedule contains.
func poolPaths(body *ast.BlockStmt, pool string) [][]string {
	type state struct {
		evs    []string
		defers [][]string
	}
	var done [][]string
	finish := func(s state) {
		evs := append([]string{}, s.evs...)
		for i := len(s.defers) - 1; i >= 0; i-- {
			evs = append(evs, s.defers[i]...)
		}
		done = append(done, evs)
	}
	var runBlock func(sts []ast.Stmt, in []state) []state
	runBlock = func(sts []ast.Stmt, in []state) []state {
		cur := in
		for _, st := range sts {
			var next []state
			for _, s := range cur {
				s := state{append([]string{}, s.evs...), append([][]string{}, s.defers...)}
				switch v := st.(type) {
				case *ast.ReturnStmt:
					s.evs = append(s.evs, poolEventsOf(v, pool)...)
					finish(s)
				case *ast.DeferStmt:
					if fl, ok := v.Call.Fun.(*ast.FuncLit); ok {
						s.defers = append(s.defers, poolEventsOf(fl.Body, pool))
					} else {
						s.defers = append(s.defers, poolEventsOf(v.Call, pool))
					}
					next = append(next, s)
				case *ast.IfStmt:
					s.evs = append(s.evs, poolEventsOf(v.Init, pool)...)
					s.evs = append(s.evs, poolEventsOf(v.Cond, pool)...)
					next = append(next, runBlock(v.Body.List, []state{s})...)
					switch e := v.Else.(type) {
					case nil:
						next = append(next, s)
					case *ast.BlockStmt:
						next = append(next, runBlock(e.List, []state{s})...)
					default:
						next = append(next, runBlock([]ast.Stmt{e}, []state{s})...)
					}
				case *ast.BlockStmt:
					next = append(next, runBlock(v.List, []state{s})...)
				case *ast.AssignStmt, *ast.ExprStmt, *ast.DeclStmt, *ast.IncDecStmt, *ast.EmptyStmt:
					s.evs = append(s.evs, poolEventsOf(v, pool)...)
					next = append(next, s)
				default:
					s.evs = append(s.evs, fmt.Sprintf("unknown:%T", st))
					next = append(next, s)
				}
			}
			cur = next
		}
		return cur
	}
	for _, s := range runBlock(body.List, []state{{}}) {
		finish(s) // fell off the end
	}
	return done
}

func factsPool(p *pkg) {
	emit("-- copy.go: the buffer pool protocol of every function that takes a buffer from a package-level sync.Pool,")
	emit("-- as pool events along each control-flow path (deferred calls included)")
	pools := map[string]bool{}
	for _, fn := range p.sortedFiles() {
		for _, dd := range p.files[fn].Decls {
			gd, ok := dd.(*ast.GenDecl)
			if !ok || gd.Tok != token.VAR {
				continue
			}
			for _, s := range gd.Specs {
				vs := s.(*ast.ValueSpec)
				for i, id := range vs.Names {
					txt := ""
					if i < len(vs.Values) {
						txt = exprString(p.fset, vs.Values[i])
					}
					if vs.Type != nil {
						txt += " " + exprString(p.fset, vs.Type)
					}
					if strings.Contains(txt, "sync.Pool") {
						pools[id.Name] = true
					}
				}
			}
		}
	}
	var rows []string
	for _, fn := range p.sortedFiles() {
		if strings.HasSuffix(fn, "_test.go") || strings.HasPrefix(filepath.Base(fn), "verif_") {
			continue
		}
		for _, dd := range p.files[fn].Decls {
			fd, ok := dd.(*ast.FuncDecl)
			if !ok || fd.Body == nil {
				continue
			}
			for pool := range pools {
				touches := false
				for _, ev := range poolEventsOf(fd.Body, pool) {
					touches = touches || ev == "get" || ev == "put"
				}
				if !touches {
					continue
				}
				var ps []string
				for _, path := range poolPaths(fd.Body, pool) {
					ps = append(ps, leanStrList(path))
				}
				sort.Strings(ps)
				rows = append(rows, fmt.Sprintf("(%s, [%s])", strconv.Quote(fd.Name.Name), strings.Join(ps, ", ")))
			}
		}
	}
	sort.Strings(rows)
	emit("def poolPaths : List (String × List (List String)) := [%s]", strings.Join(rows, ", "))
	emit("")
}

// ---------------------------------------------------------------- the jailed body is single-threaded

// factsJailBody: chrootarchive runs archive.Unpack, archive.UnpackLayer and (*Tarballer).Do on a thread whose
// root was switched; the jail is per thread, so nothing reachable from them may hand work to another
// goroutine (it would run on a thread with the host's root).  Name-based call graph inside package archive
// (an over-approximation: a call `x.f(..)` or `f(..)` reaches every function or method named f of the package).
func factsJailBody(p *pkg) {
	decls := map[string][]*ast.FuncDecl{}
	for _, fn := range p.sortedFiles() {
		for _, d := range p.files[fn].Decls {
			if fd, ok := d.(*ast.FuncDecl); ok && fd.Body != nil {
				decls[fd.Name.Name] = append(decls[fd.Name.Name], fd)
			}
		}
	}
	seen := map[string]bool{}
	var gos []string
	var visit func(name string)
	visit = func(name string) {
		if seen[name] {
			return
		}
		seen[name] = true
		for _, fd := range decls[name] {
			ast.Inspect(fd.Body, func(n ast.Node) bool {
				switch v := n.(type) {
				case *ast.GoStmt:
					gos = append(gos, name)
				case *ast.CallExpr:
					switch f := v.Fun.(type) {
					case *ast.Ident:
						visit(f.Name)
					case *ast.SelectorExpr:
						visit(f.Sel.Name)
					}
				}
				return true
			})
		}
	}
	for _, r := range []string{"Unpack", "UnpackLayer", "Do"} {
		visit(r)
	}
	sort.Strings(gos)
	emit("-- archive: what runs inside the jail (Unpack, UnpackLayer, Tarballer.Do and everything they reach in the package)")
	emit("/-- functions reachable from the jailed bodies that contain a `go` statement (the jail is per thread) -/")
	emit("def jailBodyGoStmts : List String := %s", leanStrList(gos))
	emit("def jailBodyRootsFound : Bool := %s", boolLean(len(decls["Unpack"]) > 0 && len(decls["UnpackLayer"]) > 0 && len(decls["Do"]) > 0))
	emit("")
}

// ---------------------------------------------------------------- Unpack: replace / merge / skip / refuse

// unpackCondLean renders the conditions of Unpack's "something is already at the path" block over four
// booleans; anything it does not recognise makes the whole fact `none`.
func unpackCondLean(fset *token.FileSet, x ast.Expr) (string, bool) {
	switch v := x.(type) {
	case *ast.ParenExpr:
		s, ok := unpackCondLean(fset, v.X)
		return "(" + s + ")", ok
	case *ast.BinaryExpr:
		switch v.Op {
		case token.LAND, token.LOR:
			a, ok1 := unpackCondLean(fset, v.X)
			b, ok2 := unpackCondLean(fset, v.Y)
			op := " && "
			if v.Op == token.LOR {
				op = " || "
			}
			return "(" + a + op + b + ")", ok1 && ok2
		}
	case *ast.UnaryExpr:
		if v.Op == token.NOT {
			a, ok := unpackCondLean(fset, v.X)
			return "(!" + a + ")", ok
		}
	}
	switch exprString(fset, x) {
	case "options.NoOverwriteDirNonDir":
		return "noOverwrite", true
	case "fi.IsDir()":
		return "isDir", true
	case "hdr.Typeflag == tar.TypeDir":
		return "entIsDir", true
	case "hdr.Typeflag != tar.TypeDir":
		return "(!entIsDir)", true
	case `rel == "."`:
		return "isSelf", true
	}
	return "", false
}

// factsUnpackDecision: the if-chain inside `if fi, err := os.Lstat(path); err == nil { … }` of Unpack as a
// decision function: 1 = return an error, 2 = continue (skip the entry), 3 = os.RemoveAll(path) first, 0 = fall through.
func factsUnpackDecision(p *pkg) {
	emit("-- archive.go Unpack: what happens when something is already at the entry's path")
	emit("/-- 1 = conflict error, 2 = skip the entry, 3 = remove what is there first, 0 = merge (nothing removed); in source order -/")
	none := func() {
		emit("def unpackDecision? : Option (Bool → Bool → Bool → Bool → Nat) := none")
		emit("")
	}
	fd, fset := findFunc(p, "Unpack", "")
	if fd == nil {
		none()
		return
	}
	var blk *ast.BlockStmt
	ast.Inspect(fd.Body, func(n ast.Node) bool {
		is, ok := n.(*ast.IfStmt)
		if !ok || is.Init == nil || blk != nil {
			return true
		}
		if exprString(fset, is.Init) == "fi, err := os.Lstat(path)" && exprString(fset, is.Cond) == "err == nil" && is.Else == nil {
			blk = is.Body
		}
		return true
	})
	if blk == nil {
		none()
		return
	}
	var sb strings.Builder
	for _, st := range blk.List {
		is, ok := st.(*ast.IfStmt)
		if !ok || is.Init != nil || is.Else != nil || len(is.Body.List) != 1 {
			none()
			return
		}
		cond, good := unpackCondLean(fset, is.Cond)
		if !good {
			none()
			return
		}
		act := 0
		switch b := is.Body.List[0].(type) {
		case *ast.ReturnStmt:
			if len(b.Results) == 1 && strings.HasPrefix(exprString(fset, b.Results[0]), "fmt.Errorf(") {
				act = 1
			}
		case *ast.BranchStmt:
			if b.Tok == token.CONTINUE {
				act = 2
			}
		case *ast.IfStmt:
			// if err := os.RemoveAll(path); err != nil { return err }
			if b.Init != nil && exprString(fset, b.Init) == "err := os.RemoveAll(path)" && exprString(fset, b.Cond) == "err != nil" {
				act = 3
			}
		}
		if act == 0 {
			none()
			return
		}
		sb.WriteString("if " + cond + " then " + strconv.Itoa(act) + " else ")
	}
	sb.WriteString("0")
	emit("def unpackDecision? : Option (Bool → Bool → Bool → Bool → Nat) := some fun noOverwrite isDir entIsDir isSelf => %s", sb.String())
	emit("")
}

// factsUnpackLayerDecision: the same block in UnpackLayer — `if fi, err := os.Lstat(path); err == nil { if C { if R { return … }
// if err := os.RemoveAll(path) … } }` — as a function of (what is there is a directory, the entry is a directory, the
// entry names the destination itself): 1 = refuse, 3 = remove what is there first, 0 = merge.
func factsUnpackLayerDecision(p *pkg) {
	emit("-- diff.go UnpackLayer: what happens when something is already at the entry's path")
	none := func() {
		emit("def unpackLayerDecision? : Option (Bool → Bool → Bool → Nat) := none")
		emit("")
	}
	fd, fset := findFunc(p, "UnpackLayer", "")
	if fd == nil {
		none()
		return
	}
	var blk *ast.BlockStmt
	ast.Inspect(fd.Body, func(n ast.Node) bool {
		is, ok := n.(*ast.IfStmt)
		if !ok || is.Init == nil || blk != nil {
			return true
		}
		if exprString(fset, is.Init) == "fi, err := os.Lstat(path)" && exprString(fset, is.Cond) == "err == nil" && is.Else == nil {
			blk = is.Body
		}
		return true
	})
	if blk == nil || len(blk.List) != 1 {
		none()
		return
	}
	outer, ok := blk.List[0].(*ast.IfStmt)
	if !ok || outer.Init != nil || outer.Else != nil {
		none()
		return
	}
	cond, good := unpackCondLean(fset, outer.Cond)
	if !good {
		none()
		return
	}
	inner := "3"
	sawRemove := false
	for _, st := range outer.Body.List {
		is, ok := st.(*ast.IfStmt)
		if !ok || is.Else != nil {
			none()
			return
		}
		if is.Init != nil {
			if exprString(fset, is.Init) == "err := os.RemoveAll(path)" && exprString(fset, is.Cond) == "err != nil" && !sawRemove {
				sawRemove = true
				continue
			}
			none()
			return
		}
		// a refusal before the removal
		c2, g2 := unpackCondLean(fset, is.Cond)
		rs, isRet := is.Body.List[0].(*ast.ReturnStmt)
		if !g2 || sawRemove || len(is.Body.List) != 1 || !isRet || len(rs.Results) != 2 || !strings.HasPrefix(exprString(fset, rs.Results[1]), "fmt.Errorf(") {
			none()
			return
		}
		inner = "(if " + c2 + " then 1 else " + inner + ")"
	}
	if !sawRemove {
		none()
		return
	}
	emit("def unpackLayerDecision? : Option (Bool → Bool → Bool → Nat) := some fun isDir entIsDir isSelf => if %s then %s else 0", cond, inner)
	emit("")
}

// ---------------------------------------------------------------- order of effects

// callOrder lists, by source position, the first occurrence of each of the named calls inside fd.
func callOrder(fset *token.FileSet, fd *ast.FuncDecl, names map[string]string) []string {
	type hit struct {
		pos  token.Pos
		name string
	}
	first := map[string]token.Pos{}
	ast.Inspect(fd.Body, func(n ast.Node) bool {
		ce, ok := n.(*ast.CallExpr)
		if !ok {
			return true
		}
		key := exprString(fset, ce.Fun)
		if label, ok := names[key]; ok {
			if _, seen := first[label]; !seen {
				first[label] = ce.Pos()
			}
		}
		return true
	})
	var hs []hit
	for l, p := range first {
		hs = append(hs, hit{p, l})
	}
	sort.Slice(hs, func(i, j int) bool { return hs[i].pos < hs[j].pos })
	var out []string
	for _, h := range hs {
		out = append(out, h.name)
	}
	return out
}

// factsOrder: (1) the metadata phase of createTarFile: owner, then extended attributes, then mode, then
// times — the order in which the kernel's side effects of chown (clearing set-id bits and capabilities) are
// repaired by the calls that follow; (2) in the loops of Unpack and UnpackLayer the breakout decision comes
// before the first call that touches the file system for the entry.
func factsOrder(p *pkg) {
	emit("-- archive.go / diff.go: order of effects")
	if fd, fset := findFunc(p, "createTarFile", ""); fd != nil {
		ord := callOrder(fset, fd, map[string]string{"os.Lchown": "chown", "lsetxattr": "xattr", "handleLChmod": "chmod", "chtimes": "times", "lchtimes": "times"})
		emit("/-- first occurrence, in source order, of the metadata calls of createTarFile -/")
		emit("def createMetaOrder : List String := %s", leanStrList(ord))
	} else {
		emit("def createMetaOrder : List String := []")
	}
	for _, fn := range []string{"Unpack", "UnpackLayer"} {
		fd, fset := findFunc(p, fn, "")
		var ord []string
		if fd != nil {
			ord = callOrder(fset, fd, map[string]string{"breakoutError": "guard", "createImpliedDirectories": "implied", "os.Lstat": "lstat",
				"os.RemoveAll": "remove", "createTarFile": "create", "remapIDs": "remap"})
		}
		emit("/-- first occurrence, in source order, of the guard and of the calls that touch the file system in %s -/", fn)
		emit("def %sOrder : List String := %s", lowerFirst(fn), leanStrList(ord))
	}
	emit("")
}

// ---------------------------------------------------------------- internal/mounttree: SwitchRoot

// factsSwitchRoot: what makes the new root a jail — exactly one pivot_root, of (path, pivotDir); the old root is
// made private *recursively* before it is detached (so the detach does not propagate to the host's mounts);
// and the order bind → pivot → chdir → private → detach.
func factsSwitchRoot(repo string) {
	p := loadPkg(filepath.Join(repo, "internal", "mounttree"))
	uc := unixConsts(repo, []string{"MS_PRIVATE", "MS_REC", "MS_SLAVE", "MS_SHARED", "MNT_DETACH"})
	e := p.env(uc)
	emit("-- internal/mounttree: SwitchRoot")
	var pivots []string
	privRec := false
	var order []string
	if fd, fset := findFunc(p, "SwitchRoot", ""); fd != nil {
		le := e.withLocals(fd.Body)
		order = callOrder(fset, fd, map[string]string{"mount.Mount": "bind", "os.MkdirTemp": "mkdtemp", "unix.PivotRoot": "pivot",
			"unix.Chdir": "chdir", "unix.Mount": "private", "unix.Unmount": "detach"})
		_ = le
	}
	for _, fn := range p.sortedFiles() {
		f := p.files[fn]
		ast.Inspect(f, func(n ast.Node) bool {
			ce, ok := n.(*ast.CallExpr)
			if !ok {
				return true
			}
			if isSel(ce.Fun, "unix", "PivotRoot") {
				var as []string
				for _, a := range ce.Args {
					as = append(as, exprString(p.fset, a))
				}
				pivots = append(pivots, strings.Join(as, ", "))
			}
			if isSel(ce.Fun, "unix", "Mount") && len(ce.Args) == 5 {
				// flags in terms of x/sys/unix constants
				c := e.eval(ce.Args[3], 0)
				if u, ok := constant.Uint64Val(c); ok && c.Kind() == constant.Int {
					pv, _ := constant.Uint64Val(uc["unix.MS_PRIVATE"])
					rc, _ := constant.Uint64Val(uc["unix.MS_REC"])
					if pv != 0 && rc != 0 && u&pv != 0 && u&rc != 0 {
						privRec = true
					}
				}
			}
			return true
		})
	}
	sort.Strings(pivots)
	emit("/-- the argument lists of every pivot_root call of the package -/")
	emit("def switchRootPivots : List String := %s", leanStrList(pivots))
	emit("/-- the old root is remounted MS_PRIVATE|MS_REC before it is detached -/")
	emit("def switchRootPrivateRec : Bool := %s", boolLean(privRec))
	emit("def switchRootOrder : List String := %s", leanStrList(order))
	emit("")
}
