// Fact extractor: parses /repo's working tree (go/ast, linux/amd64 file set, tag verif off)
// and prints lean/GA/Generated/Facts.lean on stdout.  Facts are deliberately coarse:
// constants, tables, flag sets, decision tables and a few structural booleans.  A fact that
// cannot be extracted is emitted as `none`/`false`, so the theorems that need it stop checking.
package main

import (
	"flag"
	"fmt"
	"go/ast"
	"go/build"
	"go/constant"
	"go/parser"
	"go/token"
	"os"
	"os/exec"
	"path/filepath"
	"sort"
	"strconv"
	"strings"
)

type pkg struct {
	dir   string
	fset  *token.FileSet
	files map[string]*ast.File // base name -> file
}

func loadPkg(dir string) *pkg {
	p := &pkg{dir: dir, fset: token.NewFileSet(), files: map[string]*ast.File{}}
	ctx := build.Default
	ctx.GOOS, ctx.GOARCH = "linux", "amd64"
	ctx.CgoEnabled = true
	ents, err := os.ReadDir(dir)
	if err != nil {
		return p
	}
	for _, e := range ents {
		n := e.Name()
		if e.IsDir() || !strings.HasSuffix(n, ".go") || strings.HasSuffix(n, "_test.go") {
			continue
		}
		if ok, _ := ctx.MatchFile(dir, n); !ok {
			continue
		}
		f, err := parser.ParseFile(p.fset, filepath.Join(dir, n), nil, parser.ParseComments)
		if err != nil {
			continue
		}
		p.files[n] = f
	}
	return p
}

func (p *pkg) sortedFiles() []string {
	var ns []string
	for n := range p.files {
		ns = append(ns, n)
	}
	sort.Strings(ns)
	return ns
}

// constant evaluation over package-level const/var initialisers (BasicLit, Ident, +, |, &^, <<, -, unary)
type env struct {
	decls map[string]ast.Expr
	ext   map[string]constant.Value // qualified names, e.g. unix.CLONE_FS
	iota  map[string]int
}

func (p *pkg) env(ext map[string]constant.Value) *env {
	e := &env{decls: map[string]ast.Expr{}, ext: ext, iota: map[string]int{}}
	for _, n := range p.sortedFiles() {
		for _, d := range p.files[n].Decls {
			gd, ok := d.(*ast.GenDecl)
			if !ok || (gd.Tok != token.CONST && gd.Tok != token.VAR) {
				continue
			}
			for i, s := range gd.Specs {
				vs := s.(*ast.ValueSpec)
				for j, id := range vs.Names {
					if j < len(vs.Values) {
						e.decls[id.Name] = vs.Values[j]
						e.iota[id.Name] = i
					}
				}
			}
		}
	}
	return e
}

// withLocals returns an environment that also knows the constants and once-assigned variables declared inside
// body (`const k = …`, `var k = …`, `k := …`), so that naming a sub-expression does not hide its value.
func (e *env) withLocals(body ast.Node) *env {
	ne := &env{decls: map[string]ast.Expr{}, ext: e.ext, iota: e.iota}
	for k, v := range e.decls {
		ne.decls[k] = v
	}
	count := map[string]int{}
	ast.Inspect(body, func(n ast.Node) bool {
		switch v := n.(type) {
		case *ast.DeclStmt:
			if gd, ok := v.Decl.(*ast.GenDecl); ok && (gd.Tok == token.CONST || gd.Tok == token.VAR) {
				for _, s := range gd.Specs {
					vs := s.(*ast.ValueSpec)
					for j, id := range vs.Names {
						if j < len(vs.Values) {
							ne.decls[id.Name] = vs.Values[j]
							count[id.Name]++
						}
					}
				}
			}
		case *ast.AssignStmt:
			for j, l := range v.Lhs {
				if id, ok := l.(*ast.Ident); ok && len(v.Lhs) == len(v.Rhs) {
					if v.Tok == token.DEFINE {
						ne.decls[id.Name] = v.Rhs[j]
					}
					count[id.Name]++
				}
			}
		}
		return true
	})
	for k, c := range count {
		if c > 1 {
			delete(ne.decls, k) // re-assigned: not a name for one value
		}
	}
	return ne
}

func (e *env) eval(x ast.Expr, depth int) constant.Value {
	if depth > 50 || x == nil {
		return constant.MakeUnknown()
	}
	switch v := x.(type) {
	case *ast.BasicLit:
		return constant.MakeFromLiteral(v.Value, v.Kind, 0)
	case *ast.ParenExpr:
		return e.eval(v.X, depth+1)
	case *ast.Ident:
		if d, ok := e.decls[v.Name]; ok {
			return e.eval(d, depth+1)
		}
		return constant.MakeUnknown()
	case *ast.SelectorExpr:
		if id, ok := v.X.(*ast.Ident); ok {
			if c, ok := e.ext[id.Name+"."+v.Sel.Name]; ok {
				return c
			}
		}
		return constant.MakeUnknown()
	case *ast.UnaryExpr:
		a := e.eval(v.X, depth+1)
		if a.Kind() == constant.Unknown {
			return a
		}
		return constant.UnaryOp(v.Op, a, 0)
	case *ast.BinaryExpr:
		a, b := e.eval(v.X, depth+1), e.eval(v.Y, depth+1)
		if a.Kind() == constant.Unknown || b.Kind() == constant.Unknown {
			return constant.MakeUnknown()
		}
		if v.Op == token.SHL || v.Op == token.SHR {
			s, ok := constant.Uint64Val(b)
			if !ok {
				return constant.MakeUnknown()
			}
			return constant.Shift(a, v.Op, uint(s))
		}
		return constant.BinaryOp(a, v.Op, b)
	case *ast.CallExpr: // conversions like Compression(1), int64(x)
		if len(v.Args) == 1 {
			return e.eval(v.Args[0], depth+1)
		}
	}
	return constant.MakeUnknown()
}

func leanBytes(s string) string {
	var parts []string
	for i := 0; i < len(s); i++ {
		parts = append(parts, strconv.Itoa(int(s[i])))
	}
	return "[" + strings.Join(parts, ", ") + "]"
}

func (e *env) strFact(name string) string {
	d, ok := e.decls[name]
	if !ok {
		return "none"
	}
	c := e.eval(d, 0)
	if c.Kind() != constant.String {
		return "none"
	}
	return "some " + leanBytes(constant.StringVal(c))
}

func (e *env) natFact(name string) string {
	d, ok := e.decls[name]
	if !ok {
		return "none"
	}
	c := e.eval(d, 0)
	if c.Kind() != constant.Int {
		return "none"
	}
	v, ok := constant.Uint64Val(c)
	if !ok {
		return "none"
	}
	return "some " + strconv.FormatUint(v, 10)
}

// byte slice literal []byte{0x42, ...}
func (e *env) bytesFact(name string) string {
	d, ok := e.decls[name]
	if !ok {
		return "none"
	}
	cl, ok := d.(*ast.CompositeLit)
	if !ok {
		return "none"
	}
	var parts []string
	for _, el := range cl.Elts {
		c := e.eval(el, 0)
		v, ok := constant.Uint64Val(c)
		if c.Kind() != constant.Int || !ok || v > 255 {
			return "none"
		}
		parts = append(parts, strconv.FormatUint(v, 10))
	}
	return "some [" + strings.Join(parts, ", ") + "]"
}

var out strings.Builder

func emit(format string, a ...any) { fmt.Fprintf(&out, format+"\n", a...) }

func boolLean(b bool) string {
	if b {
		return "true"
	}
	return "false"
}

func main() {
	repo := flag.String("repo", "/repo", "repository root")
	flag.Parse()
	emit("/- GENERATED by /verif/extract from %s's working tree on every check. Do not edit. -/", "/repo")
	emit("import GA.Go.Str")
	emit("namespace GA.Facts")
	emit("")
	arch := loadPkg(*repo)
	aenv := arch.env(nil)
	emit("-- whiteouts.go / archive.go constants")
	for _, n := range []string{"WhiteoutPrefix", "WhiteoutMetaPrefix", "WhiteoutLinkDir", "WhiteoutOpaqueDir", "paxSchilyXattr"} {
		emit("def %s? : Option GA.Str := %s", lowerFirst(n), aenv.strFact(n))
	}
	emit("def impliedDirectoryMode? : Option Nat := %s", aenv.natFact("ImpliedDirectoryMode"))
	emit("")
	factsCompression(*repo)
	factsUnshare(*repo)
	factsChroot(*repo)
	factsCopy(arch)
	factsPool(arch)
	factsArchive(arch)
	factsStreams(*repo, arch)
	factsShared(*repo)
	factsJailBody(arch)
	factsUnpackDecision(arch)
	factsUnpackLayerDecision(arch)
	factsOrder(arch)
	factsSwitchRoot(*repo)
	emit("")
	emit("end GA.Facts")
	fmt.Print(out.String())
}

func lowerFirst(s string) string { return strings.ToLower(s[:1]) + s[1:] }

// ---------------------------------------------------------------- x/sys/unix constants

func unixConsts(repo string, names []string) map[string]constant.Value {
	res := map[string]constant.Value{}
	cmd := exec.Command("go", "list", "-m", "-f", "{{.Dir}}", "golang.org/x/sys")
	cmd.Dir = repo
	cmd.Env = append(os.Environ(), "GOFLAGS=-mod=mod", "GOPROXY=off", "GOSUMDB=off", "GOTOOLCHAIN=local")
	b, err := cmd.Output()
	if err != nil {
		return res
	}
	dir := filepath.Join(strings.TrimSpace(string(b)), "unix")
	fset := token.NewFileSet()
	want := map[string]bool{}
	for _, n := range names {
		want[n] = true
	}
	for _, fn := range []string{"zerrors_linux.go", "zerrors_linux_amd64.go"} {
		f, err := parser.ParseFile(fset, filepath.Join(dir, fn), nil, 0)
		if err != nil {
			continue
		}
		for _, d := range f.Decls {
			gd, ok := d.(*ast.GenDecl)
			if !ok || gd.Tok != token.CONST {
				continue
			}
			for _, s := range gd.Specs {
				vs := s.(*ast.ValueSpec)
				for j, id := range vs.Names {
					if want[id.Name] && j < len(vs.Values) {
						if bl, ok := vs.Values[j].(*ast.BasicLit); ok {
							res["unix."+id.Name] = constant.MakeFromLiteral(bl.Value, bl.Kind, 0)
						}
					}
				}
			}
		}
	}
	return res
}
