#!/bin/sh
# Builds the framework from files on disk only (offline): the Lean project (model, proofs, driver)
# and warms the Go build cache for the extractor and the harness.
set -e
cd "$(dirname "$0")"
export GOFLAGS=-mod=mod GOPROXY=off GOSUMDB=off GOTOOLCHAIN=local
mkdir -p .work/bin lean/GA/Generated
cp /repo/go.sum harness/go.sum
(cd extract && go build -o ../.work/bin/extract .)
.work/bin/extract -repo /repo > lean/GA/Generated/Facts.lean.tmp && mv lean/GA/Generated/Facts.lean.tmp lean/GA/Generated/Facts.lean
(cd lean && lake build GA driver)
(cd harness && go build -tags verif -o ../.work/bin/harness .)
echo setup ok
