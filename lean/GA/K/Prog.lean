import GA.K.Sys
/-
  Programs over the system-call layer: a free monad.  Every mechanism model in GA/M is a `Prog`,
  so a theorem proved by induction over `Prog` holds for all of them at once.
-/
namespace GA

inductive Prog (α : Type) where
  | ret : α → Prog α
  | call : Sys → (Res → Prog α) → Prog α

namespace Prog

def bind {α β : Type} : Prog α → (α → Prog β) → Prog β
  | .ret a, f => f a
  | .call s k, f => .call s (fun r => (k r).bind f)

instance : Monad Prog where
  pure := .ret
  bind := Prog.bind

/-- run a program; the world carries the thread's root and umask -/
def run {α : Type} : Prog α → World → α × World
  | .ret a, w => (a, w)
  | .call s k, w => ((k (step w s).1).run (step w s).2)

/-- run with a fault oracle: the `n`-th system call (counting from `i`) may be refused with an
    errno instead of being executed -/
def runF {α : Type} (faults : Nat → Option Errno) : Nat → Prog α → World → α × World
  | _, .ret a, w => (a, w)
  | i, .call s k, w =>
    match faults i with
    | some e => (k (.err e)).runF faults (i + 1) w
    | none => (k (step w s).1).runF faults (i + 1) (step w s).2

/-- did any call of the run report that it would never return? -/
def blocks {α : Type} : Prog α → World → Bool
  | .ret _, _ => false
  | .call s k, w =>
    match (step w s).1 with
    | .blocked => true
    | r => (k r).blocks (step w s).2

end Prog

def sys (s : Sys) : Prog Res := .call s .ret

/-! ### read-only programs
  The producers (tar, export) only ever look at the filesystem.  They are written over the
  read-only subset of the system calls, so that theorems about "any read-only program" apply to
  them by construction. -/

inductive RSys where
  | lstat (p : Str)
  | stat (p : Str)
  | readlink (p : Str)
  | getxattr (p : Str) (k : Str)
  | readFile (p : Str)
  | listTree (p : Str)

def RSys.toSys : RSys → Sys
  | .lstat p => .lstat p
  | .stat p => .stat p
  | .readlink p => .readlink p
  | .getxattr p k => .getxattr p k
  | .readFile p => .readFile p
  | .listTree p => .listTree p

inductive RProg (α : Type) where
  | ret : α → RProg α
  | call : RSys → (Res → RProg α) → RProg α

namespace RProg

def bind {α β : Type} : RProg α → (α → RProg β) → RProg β
  | .ret a, f => f a
  | .call s k, f => .call s (fun r => (k r).bind f)

instance : Monad RProg where
  pure := .ret
  bind := RProg.bind

/-- embedding into general programs -/
def toProg {α : Type} : RProg α → Prog α
  | .ret a => .ret a
  | .call s k => .call s.toSys (fun r => (k r).toProg)

end RProg

def rsys (s : RSys) : RProg Res := .call s .ret

end GA
