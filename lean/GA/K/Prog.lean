import GA.K.Sys
/-
  Programs over the system-call layer: a free monad.  Every mechanism model in GA/M is a `Prog`,
  so a theorem proved by induction over `Prog` holds for all of them at once.
-/
namespace GA

inductive Prog (α : Type) where
  | ret : α → Prog α
  | call : Sys → (Res → Prog α) → Prog α

namespace Prog

def bind {α β : Type} : Prog α → (α → Prog β) → Prog β
  | .ret a, f => f a
  | .call s k, f => .call s (fun r => (k r).bind f)

instance : Monad Prog where
  pure := .ret
  bind := Prog.bind

/-- run a program; the world carries the thread's root and umask -/
def run {α : Type} : Prog α → World → α × World
  | .ret a, w => (a, w)
  | .call s k, w => ((k (step w s).1).run (step w s).2)

/-- run with a fault oracle: the `n`-th system call (counting from `i`) may be refused with an
    errno instead of being executed -/
def runF {α : Type} (faults : Nat → Option Errno) : Nat → Prog α → World → α × World
  | _, .ret a, w => (a, w)
  | i, .call s k, w =>
    match faults i with
    | some e => (k (.err e)).runF faults (i + 1) w
    | none => (k (step w s).1).runF faults (i + 1) (step w s).2

/-- did any call of the run report that it would never return? -/
def blocks {α : Type} : Prog α → World → Bool
  | .ret _, _ => false
  | .call s k, w =>
    match (step w s).1 with
    | .blocked => true
    | r => (k r).blocks (step w s).2

end Prog

def sys (s : Sys) : Prog Res := .call s .ret

end GA
