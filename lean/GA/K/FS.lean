import GA.Go.Path
/-
  Layer K, part 1: the filesystem model.
  names : association list  absolute component path ↦ inode number   (hard links = two names, one inode)
  inode : a function (never enumerated; every traversal goes through `names`)
  Modelled, not verified; validated against the kernel by the correspondence streams.
-/
namespace GA

abbrev Path := List Str
abbrev Ino := Nat

inductive Kind where
  | dir | reg | sym | chr | blk | fifo
deriving DecidableEq, Repr, Inhabited

structure Inode where
  kind : Kind
  perm : Nat                       -- 12 bits: rwxrwxrwx + suid 04000, sgid 02000, sticky 01000
  uid : Nat
  gid : Nat
  mtime : Option Int               -- seconds; `none` = set implicitly by the kernel, not compared
  data : List UInt8 := []
  target : Str := []
  rdev : Nat × Nat := (0, 0)
  xattrs : List (Str × List UInt8) := []
deriving DecidableEq, Inhabited

structure FS where
  names : List (Path × Ino)
  inode : Ino → Option Inode
  next : Ino

inductive Errno where
  | ENOENT | ENOTDIR | EEXIST | EISDIR | ELOOP | EPERM | ENOSPC | EXDEV | EBUSY | ENOTEMPTY
  | EINVAL | ENOTSUP | ENODATA | EIO
deriving DecidableEq, Repr, Inhabited

def under (r p : Path) : Bool := r.isPrefixOf p

namespace FS

def lookup (fs : FS) (p : Path) : Option Ino :=
  (fs.names.find? (fun e => e.1 == p)).map (·.2)

def get (fs : FS) (p : Path) : Option Inode := (fs.lookup p).bind fs.inode

def isDir (fs : FS) (p : Path) : Bool :=
  match fs.get p with
  | some n => n.kind == .dir
  | none => false

def setInode (fs : FS) (i : Ino) (n : Inode) : FS :=
  { fs with inode := fun j => if j = i then some n else fs.inode j }

def modInode (fs : FS) (i : Ino) (f : Inode → Inode) : FS :=
  match fs.inode i with
  | some n => fs.setInode i (f n)
  | none => fs

/-- creating or removing a name changes the parent directory's mtime implicitly -/
def touchParent (fs : FS) (p : Path) : FS :=
  match fs.lookup p.dropLast with
  | some i => fs.modInode i (fun n => { n with mtime := none })
  | none => fs

/-- allocate a fresh inode and give it the name `p` -/
def create (fs : FS) (p : Path) (n : Inode) : FS :=
  let fs1 : FS := { names := fs.names ++ [(p, fs.next)],
                    inode := fun j => if j = fs.next then some n else fs.inode j,
                    next := fs.next + 1 }
  fs1.touchParent p

def addName (fs : FS) (p : Path) (i : Ino) : FS :=
  ({ fs with names := fs.names ++ [(p, i)] } : FS).touchParent p

/-- remove `q` and every name beneath it -/
def removeSubtree (fs : FS) (q : Path) : FS :=
  ({ fs with names := fs.names.filter (fun e => !(under q e.1)) } : FS).touchParent q

/-- remove every name strictly beneath `q` -/
def removeBelow (fs : FS) (q : Path) : FS :=
  match fs.lookup q with
  | some i =>
    ({ fs with names := fs.names.filter (fun e => !(under q e.1) || e.1 == q) } : FS).modInode i
      (fun n => { n with mtime := none })
  | none => fs

def nlink (fs : FS) (i : Ino) : Nat := (fs.names.filter (fun e => e.2 == i)).length

/-- names of the direct children of `p` -/
def children (fs : FS) (p : Path) : List Str :=
  fs.names.filterMap (fun e =>
    if e.1.length == p.length + 1 && under p e.1 then e.1.getLast? else none)

def empty : FS :=
  { names := [([], 0)],
    inode := fun j => if j = 0 then some { kind := .dir, perm := 0o755, uid := 0, gid := 0, mtime := some 0 } else none,
    next := 1 }

end FS

/-- byte-wise lexicographic order on strings (Go's `<` on strings) -/
def strLt : Str → Str → Bool
  | [], [] => false
  | [], _ :: _ => true
  | _ :: _, [] => false
  | a :: as, b :: bs => if a < b then true else if b < a then false else strLt as bs

def insertSorted (x : Str) : List Str → List Str
  | [] => [x]
  | y :: ys => if strLt x y then x :: y :: ys else y :: insertSorted x ys

def sortStrs (xs : List Str) : List Str := xs.foldr insertSorted []

end GA
