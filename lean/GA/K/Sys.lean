import GA.K.FS
/-
  Layer K, part 2: path resolution with a thread root, and the system calls the library issues.
  `World.root` is the calling thread's root directory (`/` normally, the jail directory after
  `goInChroot`); it can only be narrowed (`Sys.chroot`).  The working directory is the root
  (the harness and SwitchRoot both `chdir("/")`).
-/
namespace GA

structure World where
  fs : FS
  root : Path := []
  umask : Nat := 0o022

inductive WRes where
  | ok (p : Path)
  | err (e : Errno)
deriving DecidableEq, Inhabited

/-- path components with "" and "." dropped (".." kept) -/
def pathComps (s : Str) : List Str := (splitSlash s).filter (fun c => c ≠ [] ∧ c ≠ dot)

/-- trailing "/" or "/." : the path must name a directory and the last component is followed -/
def mustDir (s : Str) : Bool :=
  match (splitSlash s).getLast? with
  | some c => (c = [] ∨ c = dot) ∧ (pathComps s) ≠ []
  | none => false

/-- Linux path resolution. `links` = remaining symlink budget (40); `fuel` bounds the recursion. -/
def walk (fs : FS) (root : Path) : Nat → Nat → Path → List Str → Bool → WRes
  | _, _, cur, [], _ => .ok cur
  | 0, _, _, _ :: _, _ => .err .ELOOP
  | fuel+1, links, cur, c :: rest, fl =>
    if !fs.isDir cur then (if (fs.get cur).isSome then .err .ENOTDIR else .err .ENOENT)
    else if c = dotdot then
      walk fs root fuel links (if cur = root then cur else cur.dropLast) rest fl
    else
      let nxt := cur ++ [c]
      match fs.get nxt with
      | none => if rest.isEmpty then .ok nxt else .err .ENOENT
      | some n =>
        if n.kind == .sym && (!rest.isEmpty || fl) then
          if n.target = [] then .err .ENOENT
          else if links = 0 then .err .ELOOP
          else
            walk fs root fuel (links - 1) (if isAbs n.target then root else cur)
              (pathComps n.target ++ rest) fl
        else walk fs root fuel links nxt rest fl

def walkFuel : Nat := 4096

/-- resolve a path string as the kernel would for the calling thread -/
def resolve (w : World) (s : Str) (follow : Bool) : WRes :=
  if s = [] then .err .ENOENT
  else
    let md := mustDir s
    match walk w.fs w.root walkFuel 40 w.root (pathComps s) (follow || md) with
    | .err e => .err e
    | .ok p =>
      if md then
        match w.fs.get p with
        | some n => if n.kind == .dir then .ok p else .err .ENOTDIR
        | none => .ok p
      else .ok p

/-- resolution for the name-creating calls (mkdir, mknod, symlink, link's new name): the final
    component is never followed, not even with a trailing slash -/
def resolveC (w : World) (s : Str) : WRes :=
  if s = [] then .err .ENOENT
  else walk w.fs w.root walkFuel 40 w.root (pathComps s) false

structure StatInfo where
  kind : Kind
  perm : Nat
  uid : Nat
  gid : Nat
  ino : Ino
  nlink : Nat
  size : Nat
  rdev : Nat × Nat
  mtime : Option Int
deriving DecidableEq, Inhabited

inductive Sys where
  | lstat (p : Str)
  | stat (p : Str)
  | mkdir (p : Str) (perm : Nat)
  | mkdirAll (p : Str) (perm : Nat)
  | createWrite (p : Str) (perm : Nat) (data : List UInt8)
  | readFile (p : Str)
  | link (old new : Str)
  | symlink (target p : Str)
  | mknod (p : Str) (k : Kind) (perm : Nat) (rdev : Nat × Nat)
  | chown (p : Str) (uid gid : Nat) (follow : Bool)
  | chmod (p : Str) (perm : Nat)
  | setxattr (p : Str) (k : Str) (v : List UInt8) (follow : Bool)
  | getxattr (p : Str) (k : Str)
  | utimes (p : Str) (mtime : Option Int) (follow : Bool)
  | readlink (p : Str)
  | removeAll (p : Str)
  | listTree (p : Str)
  | mkdtemp (dir pfx : Str)
  | setUmask (m : Nat)
  | chroot (p : Str)

inductive Res where
  | ok
  | err (e : Errno)
  | stat (s : StatInfo)
  | data (d : List UInt8)
  | str (s : Str)
  | tree (es : List (Str × Kind × Nat))   -- path string, kind, depth below the walk root
  | blocked                     -- the call never returns (open of a fifo without a peer)
deriving Inhabited

def statOf (fs : FS) (i : Ino) (n : Inode) : StatInfo :=
  { kind := n.kind, perm := n.perm, uid := n.uid, gid := n.gid, ino := i, nlink := fs.nlink i,
    size := (match n.kind with | .reg => n.data.length | .sym => n.target.length | _ => 0),
    rdev := n.rdev, mtime := n.mtime }

def capKey : Str := b!"security.capability"
def opaqueKey : Str := b!"trusted.overlay.opaque"

def dropCap (xs : List (Str × List UInt8)) : List (Str × List UInt8) := xs.filter (fun e => e.1 ≠ capKey)

/-- kernel side effects of chown on the mode and capabilities of a non-directory -/
def chownInode (n : Inode) (uid gid : Nat) : Inode :=
  if n.kind == .dir then { n with uid := uid, gid := gid }
  else
    let p1 := n.perm &&& (0o7777 - 0o4000)
    let p2 := if n.perm &&& 0o010 ≠ 0 then p1 &&& (0o7777 - 0o2000) else p1
    { n with uid := uid, gid := gid, perm := p2, xattrs := dropCap n.xattrs }

def setX (xs : List (Str × List UInt8)) (k : Str) (v : List UInt8) : List (Str × List UInt8) :=
  xs.filter (fun e => e.1 ≠ k) ++ [(k, v)]

/-- owner group and set-gid inheritance from the parent directory -/
def inheritFrom (fs : FS) (parent : Path) (isDir : Bool) (perm : Nat) : Nat × Nat :=
  match fs.get parent with
  | some pn => if pn.perm &&& 0o2000 ≠ 0 then (pn.gid, if isDir then perm ||| 0o2000 else perm) else (0, perm)
  | none => (0, perm)

/-- what a parent of `p` being a non-directory means for `os.RemoveAll`: it opens the parent
    directory of `p` (`splitPath`; for the cleaned paths the library passes this is `Dir(p)`) for
    reading — an open of a fifo without a writer never returns -/
def removeAllNotDir (w : World) (p : Str) : Res :=
  match resolve w (dir p) true with
  | .ok q =>
    match w.fs.get q with
    | some n => if n.kind == .fifo then .blocked else .err .ENOTDIR
    | none => .err .ENOTDIR
  | .err _ => .err .ENOTDIR

/-- pre-order listing as `filepath.WalkDir` produces it (children sorted by name);
    `fuel` bounds the depth -/
def listFrom (fs : FS) : Nat → Nat → Path → Str → List (Str × Kind × Nat)
  | 0, _, _, _ => []
  | fuel+1, depth, p, s =>
    match fs.get p with
    | none => []
    | some n =>
      if n.kind == .dir then
        (s, n.kind, depth) :: (sortStrs (fs.children p)).flatMap (fun c => listFrom fs fuel (depth + 1) (p ++ [c]) (join s c))
      else [(s, n.kind, depth)]

def isErr : Res → Bool
  | .err _ => true
  | .blocked => true
  | _ => false

/-- lstat / stat -/
def statRes (w : World) (p : Str) (follow : Bool) : Res :=
  match resolve w p follow with
  | .err e => .err e
  | .ok q => match w.fs.lookup q with
    | none => .err .ENOENT
    | some i => match w.fs.inode i with
      | none => .err .ENOENT
      | some n => .stat (statOf w.fs i n)

/-- mkdir(2) -/
def mkdirOne (w : World) (p : Str) (perm : Nat) : Res × World :=
  match resolveC w p with
  | .err e => (.err e, w)
  | .ok q =>
    if (w.fs.lookup q).isSome then (.err .EEXIST, w)
    else if !w.fs.isDir q.dropLast then (.err .ENOENT, w)
    else
      let pm := perm &&& 0o1777 &&& (0o7777 - w.umask)
      let (g, pm') := inheritFrom w.fs q.dropLast true pm
      (.ok, { w with fs := w.fs.create q ({ kind := .dir, perm := pm', uid := 0, gid := g, mtime := none } : Inode) })

/-- `os.MkdirAll(path, perm)` (Go standard library): Stat; on failure make the parent first, then
    Mkdir; a Mkdir error is forgiven when Lstat then shows a directory.  `fuel` ≥ number of path bytes. -/
def mkdirAllK : Nat → World → Str → Nat → Res × World
  | 0, w, _, _ => (.err .ELOOP, w)
  | fuel+1, w, path, perm =>
    match statRes w path true with
    | .stat s => if s.kind == .dir then (.ok, w) else (.err .ENOTDIR, w)
    | _ =>
      let parent := (splitLast (stripTrailingSlashes path)).1
      let pr : Res × World := if parent.length > 0 ∧ parent ≠ path then mkdirAllK fuel w parent perm else (.ok, w)
      if isErr pr.1 then pr
      else
        let m := mkdirOne pr.2 path perm
        if isErr m.1 then
          match statRes m.2 path false with
          | .stat s => if s.kind == .dir then (.ok, m.2) else m
          | _ => m
        else (.ok, m.2)

def step (w : World) : Sys → Res × World
  | .lstat p => (statRes w p false, w)
  | .stat p => (statRes w p true, w)
  | .mkdir p perm => mkdirOne w p perm
  | .mkdirAll p perm => mkdirAllK (p.length + 1) w p perm
  | .createWrite p perm data =>
    match resolve w p true with
    | .err e => (.err e, w)
    | .ok q =>
      match w.fs.lookup q with
      | some i =>
        match w.fs.inode i with
        | some n =>
          if n.kind == .dir then (.err .EISDIR, w)
          else if n.kind == .fifo then (.blocked, w)
          else if n.kind != .reg then (.ok, w)     -- device node: bytes go to the device
          else
            let n' : Inode := { n with data := data ++ n.data.drop data.length,
                                       mtime := if data = [] then n.mtime else none,
                                       xattrs := if data = [] then n.xattrs else dropCap n.xattrs }
            (.ok, { w with fs := w.fs.setInode i n' })
        | none => (.err .ENOENT, w)
      | none =>
        if !w.fs.isDir q.dropLast then (.err .ENOENT, w)
        else
          let pm := perm &&& 0o7777 &&& (0o7777 - w.umask)
          let (g, _) := inheritFrom w.fs q.dropLast false pm
          (.ok, { w with fs := w.fs.create q ({ kind := .reg, perm := pm, uid := 0, gid := g, mtime := none, data := data } : Inode) })
  | .readFile p =>
    match resolve w p true with
    | .err e => (.err e, w)
    | .ok q => match w.fs.get q with
      | none => (.err .ENOENT, w)
      | some n =>
        if n.kind == .fifo then (.blocked, w)
        else if n.kind == .dir then (.err .EISDIR, w)
        else (.data n.data, w)
  | .link old new =>
    match resolve w old false, resolveC w new with
    | .err e, _ => (.err e, w)
    | _, .err e => (.err e, w)
    | .ok qo, .ok qn =>
      match w.fs.lookup qo with
      | none => (.err .ENOENT, w)
      | some i =>
        if w.fs.isDir qo then (.err .EPERM, w)
        else if (w.fs.lookup qn).isSome then (.err .EEXIST, w)
        else if !w.fs.isDir qn.dropLast then (.err .ENOENT, w)
        else (.ok, { w with fs := w.fs.addName qn i })
  | .symlink target p =>
    match resolveC w p with
    | .err e => (.err e, w)
    | .ok q =>
      if (w.fs.lookup q).isSome then (.err .EEXIST, w)
      else if !w.fs.isDir q.dropLast then (.err .ENOENT, w)
      else if target = [] then (.err .ENOENT, w)
      else
        let (g, _) := inheritFrom w.fs q.dropLast false 0
        (.ok, { w with fs := w.fs.create q ({ kind := .sym, perm := 0o777, uid := 0, gid := g, mtime := none, target := target } : Inode) })
  | .mknod p k perm rdev =>
    match resolveC w p with
    | .err e => (.err e, w)
    | .ok q =>
      if (w.fs.lookup q).isSome then (.err .EEXIST, w)
      else if !w.fs.isDir q.dropLast then (.err .ENOENT, w)
      else
        let pm := perm &&& 0o7777 &&& (0o7777 - w.umask)
        let (g, _) := inheritFrom w.fs q.dropLast false pm
        let n' : Inode := { kind := k, perm := pm, uid := 0, gid := g, mtime := none,
                            rdev := if k == .fifo then (0, 0) else rdev }
        (.ok, { w with fs := w.fs.create q n' })
  | .chown p uid gid follow =>
    match resolve w p follow with
    | .err e => (.err e, w)
    | .ok q => match w.fs.lookup q with
      | none => (.err .ENOENT, w)
      | some i => (.ok, { w with fs := w.fs.modInode i (fun n => chownInode n uid gid) })
  | .chmod p perm =>
    match resolve w p true with
    | .err e => (.err e, w)
    | .ok q => match w.fs.lookup q with
      | none => (.err .ENOENT, w)
      | some i => (.ok, { w with fs := w.fs.modInode i (fun n => { n with perm := perm &&& 0o7777 }) })
  | .setxattr p k v follow =>
    match resolve w p follow with
    | .err e => (.err e, w)
    | .ok q => match w.fs.lookup q with
      | none => (.err .ENOENT, w)
      | some i => match w.fs.inode i with
        | none => (.err .ENOENT, w)
        | some n =>
          if hasPrefix k b!"user." && n.kind != .reg && n.kind != .dir then (.err .EPERM, w)
          else (.ok, { w with fs := w.fs.setInode i ({ n with xattrs := setX n.xattrs k v } : Inode) })
  | .getxattr p k =>
    match resolve w p false with
    | .err e => (.err e, w)
    | .ok q => match w.fs.get q with
      | none => (.err .ENOENT, w)
      | some n => match n.xattrs.find? (fun e => e.1 = k) with
        | some e => (.data e.2, w)
        | none => (.err .ENODATA, w)
  | .utimes p mtime follow =>
    match resolve w p follow with
    | .err e => (.err e, w)
    | .ok q => match w.fs.lookup q with
      | none => (.err .ENOENT, w)
      | some i => match mtime with
        | none => (.ok, w)
        | some t => (.ok, { w with fs := w.fs.modInode i (fun n => { n with mtime := some t }) })
  | .readlink p =>
    match resolve w p false with
    | .err e => (.err e, w)
    | .ok q => match w.fs.get q with
      | none => (.err .ENOENT, w)
      | some n => if n.kind == .sym then (.str n.target, w) else (.err .EINVAL, w)
  | .removeAll p =>
    if p = [] then (.ok, w)
    else match resolve w p false with
    | .err .ENOENT => (.ok, w)
    | .err .ENOTDIR => (removeAllNotDir w p, w)
    | .err e => (.err e, w)
    | .ok q =>
      if (w.fs.get q).isNone then (.ok, w)
      else if q = w.root then (.err .EBUSY, { w with fs := w.fs.removeBelow q })
      else (.ok, { w with fs := w.fs.removeSubtree q })
  | .listTree p =>
    match resolve w p false with
    | .err e => (.err e, w)
    | .ok q => match w.fs.get q with
      | none => (.err .ENOENT, w)
      | some _ => (.tree (listFrom w.fs 64 0 q p), w)
  | .mkdtemp dir pfx =>
    let name := join dir (pfx ++ b!"0000000000")
    match resolve w name false with
    | .err e => (.err e, w)
    | .ok q =>
      if (w.fs.lookup q).isSome then (.err .EEXIST, w)
      else if !w.fs.isDir q.dropLast then (.err .ENOENT, w)
      else
        let pm := 0o700 &&& (0o7777 - w.umask)
        let (g, pm') := inheritFrom w.fs q.dropLast true pm
        (.str name, { w with fs := w.fs.create q ({ kind := .dir, perm := pm', uid := 0, gid := g, mtime := none } : Inode) })
  | .setUmask m => (.ok, { w with umask := m &&& 0o777 })
  | .chroot p =>
    match resolve w p true with
    | .err e => (.err e, w)
    | .ok q => match w.fs.lookup q with
      | none => (.err .ENOENT, w)
      | some i =>
        if !w.fs.isDir q then (.err .ENOTDIR, w)
        else (.ok, { w with root := q, fs := w.fs.modInode i (fun n => { n with mtime := none }) })

end GA
