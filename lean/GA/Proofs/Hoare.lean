import GA.Proofs.LexProg
/-
  A small Hoare logic over `Prog`: `Triple P p Q` — from every world satisfying `P`, the run of `p`
  ends in a result and a world satisfying `Q`.
-/
namespace GA

def Triple {α : Type} (P : World → Prop) (p : Prog α) (Q : α → World → Prop) : Prop :=
  ∀ w, P w → Q (p.run w).1 (p.run w).2

theorem Prog.run_bind {α β : Type} (m : Prog α) (f : α → Prog β) (w : World) :
    (m.bind f).run w = (f (m.run w).1).run (m.run w).2 := by
  induction m generalizing w with
  | ret a => rfl
  | call s k ih => simp only [Prog.bind, Prog.run]; exact ih _ _

theorem Triple.bind {α β : Type} {P : World → Prop} {Q : α → World → Prop} {R : β → World → Prop}
    (m : Prog α) (f : α → Prog β) (hm : Triple P m Q) (hf : ∀ a, Triple (Q a) (f a) R) :
    Triple P (m >>= f) R := by
  intro w hw
  show R ((m.bind f).run w).1 ((m.bind f).run w).2
  rw [Prog.run_bind]
  exact hf _ _ (hm w hw)

theorem Triple.pure {α : Type} {P : World → Prop} {Q : α → World → Prop} (a : α) (h : ∀ w, P w → Q a w) :
    Triple P (pure a : Prog α) Q := fun w hw => h w hw

theorem Triple.sys {P : World → Prop} {Q : Res → World → Prop} (s : Sys)
    (h : ∀ w, P w → Q (step w s).1 (step w s).2) : Triple P (sys s) Q := fun w hw => h w hw

theorem Triple.conseq {α : Type} {P P' : World → Prop} {Q Q' : α → World → Prop} (p : Prog α)
    (h : Triple P p Q) (hp : ∀ w, P' w → P w) (hq : ∀ a w, Q a w → Q' a w) : Triple P' p Q' :=
  fun w hw => hq _ _ (h w (hp w hw))

end GA
