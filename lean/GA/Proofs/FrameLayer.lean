import GA.Proofs.FrameUnpack
import GA.Proofs.LexLayer
/-
  Layer apply and the frame: every mutating call of `unpackLayerP` names the path of an entry, the source
  of a hard-link entry, the target of a whiteout, the directory of an opaque marker, the staging directory
  — or something beneath one of these, or a directory on the way that it found missing.
-/
namespace GA

/-- what one layer entry names -/
def touchedOf (dest : Str) (e : Entry) : List Path :=
  let n := clean e.name
  let p := join dest n
  let b := base p
  [pathComps p] ++
  (if e.typ = .link then [pathComps (join dest e.linkname)] else []) ++
  (if hasPrefix n whMetaPrefix && hasPrefix n whLinkDir && e.typ == .reg
    then [pathComps (join (join dest tmpName) (base n))] else []) ++
  (if b = whOpaqueDir then [pathComps (dir p)]
   else if hasPrefix b whPrefix then [pathComps (join (dir p) (b.drop whPrefix.length))] else [])

/-- what a layer names: the staging directory and what its entries name -/
def touchedL (dest : Str) (es : List Entry) : List Path :=
  pathComps (join dest tmpName) :: es.flatMap (touchedOf dest)

structure FStOK (T : List Path) (dest : Str) (st : LState) : Prop where
  dirs : ∀ e ∈ st.dirs, FArg T (join dest e.name)
  tmp : st.tmp = [] ∨ st.tmp = join dest tmpName
  staged : ∀ x ∈ st.staged, x.2.typ = .reg

/-- the part of the state's invariant that does not speak about the frame -/
structure FSt0 (dest : Str) (st : LState) : Prop where
  tmp : st.tmp = [] ∨ st.tmp = join dest tmpName
  staged : ∀ x ∈ st.staged, x.2.typ = .reg

theorem FStOK.to0 {T : List Path} {dest : Str} {st : LState} (h : FStOK T dest st) : FSt0 dest st := ⟨h.tmp, h.staged⟩

theorem farg_of_mem {T : List Path} {s : Str} (hs : CleanAbs s) (h : pathComps s ∈ T) : FArg T s :=
  ⟨cov_self h, hs.no_dotdot⟩

theorem fr_layerFinish0 (dp : Path) (T : List Path) (fs0 : FS) (dest : Str) (st : LState) (out : Out) (hd : CleanAbs dest)
    (htmp : pathComps (join dest tmpName) ∈ T) (hst : FSt0 dest st) :
    FrSem dp T fs0 (fun _ => True) (layerFinish dest st out) := by
  unfold layerFinish
  refine bindF dp T fs0 (Q := fun _ => True) _ _ ?_ (fun _ _ => frSem_pure dp T fs0 _ _ trivial)
  split
  · rename_i hne
    rcases hst.tmp with h | h
    · exact absurd h hne
    · rw [h]
      exact fr_info dp T fs0 (.removeAll _) (farg_of_mem (join_cleanAbs dest _ hd) htmp)
  · exact frSem_pure dp T fs0 _ _ trivial

theorem fr_layerFinish (dp : Path) (T : List Path) (fs0 : FS) (dest : Str) (st : LState) (out : Out) (hd : CleanAbs dest)
    (htmp : pathComps (join dest tmpName) ∈ T) (hst : FStOK T dest st) :
    FrSem dp T fs0 (fun _ => True) (layerFinish dest st out) :=
  fr_layerFinish0 dp T fs0 dest st out hd htmp hst.to0

theorem fr_stage0 (dp : Path) (T : List Path) (fs0 : FS) (dest : Str) (o : Opts) (e : Entry) (st : LState)
    (hd : CleanAbs dest) (htmp : pathComps (join dest tmpName) ∈ T)
    (hstg : (hasPrefix (clean e.name) whMetaPrefix && hasPrefix (clean e.name) whLinkDir && e.typ == .reg) = true →
      pathComps (join (join dest tmpName) (base (clean e.name))) ∈ T)
    (hst : FSt0 dest st) :
    FrSem dp T fs0 (fun r => ∀ st', r = .ok st' → FSt0 dest st' ∧ st'.dirs = st.dirs) (stageP dest o e st (clean e.name)) := by
  unfold stageP
  split
  · rename_i hcond
    have htyp : e.typ = .reg := by
      simp only [Bool.and_eq_true, beq_iff_eq] at hcond
      exact hcond.2
    have htc : CleanAbs (join dest tmpName) := join_cleanAbs dest _ hd
    simp only
    refine bindF dp T fs0 (Q := fun mk => ∀ t, mk = .str t → t = join dest tmpName) _ _ ?_ ?_
    · split
      · refine frSem_sys dp T fs0 (.mkdtemp _ _) ?_ _ ?_
        · exact (show CArg T (join dest tmpName) from (farg_of_mem htc htmp).toC)
        · intro w _ _ t ht
          exact mkdtemp_result w _ _ t ht
      · rename_i hne
        apply frSem_pure
        intro t ht
        injection ht with ht
        rcases hst.tmp with h | h
        · exact absurd h hne
        · rw [← ht]; exact h
    · intro mk hmk
      split
      · rename_i t
        have ht := hmk t rfl
        subst ht
        have hpath : FArg T (join (join dest tmpName) (base (clean e.name))) :=
          farg_of_mem (join_cleanAbs _ _ htc) (hstg hcond)
        refine bindF dp T fs0 _ _ (fr_createTarFile dp T fs0 _ dest e o hpath hd
          (by intro h; rw [htyp] at h; cases h) (by rw [htyp]; simp)) ?_
        intro out _
        split
        · split
          · refine bindF dp T fs0 _ _ (fr_info dp T fs0 (.removeAll _) (farg_of_mem htc htmp)) ?_
            intro _ _
            apply frSem_pure; intro st' h; cases h
          · apply frSem_pure; intro st' h; cases h
        · apply frSem_pure
          intro st' h
          injection h with h
          subst h
          refine ⟨⟨Or.inr rfl, ?_⟩, rfl⟩
          intro y hy
          rcases List.mem_cons.mp hy with rfl | hy
          · exact htyp
          · exact hst.staged y (List.mem_filter.mp hy).1
      · apply frSem_pure; intro st' h; cases h
  · apply frSem_pure
    intro st' h
    injection h with h
    subst h
    exact ⟨hst, rfl⟩

theorem fr_stage (dp : Path) (T : List Path) (fs0 : FS) (dest : Str) (o : Opts) (e : Entry) (st : LState)
    (hd : CleanAbs dest) (htmp : pathComps (join dest tmpName) ∈ T)
    (hstg : (hasPrefix (clean e.name) whMetaPrefix && hasPrefix (clean e.name) whLinkDir && e.typ == .reg) = true →
      pathComps (join (join dest tmpName) (base (clean e.name))) ∈ T)
    (hst : FStOK T dest st) :
    FrSem dp T fs0 (fun r => ∀ st', r = .ok st' → FStOK T dest st') (stageP dest o e st (clean e.name)) :=
  FrSem.mono dp T fs0 (fun _ h st' hr => ⟨by rw [(h st' hr).2]; exact hst.dirs, (h st' hr).1.tmp, (h st' hr).1.staged⟩) _
    (fr_stage0 dp T fs0 dest o e st hd htmp hstg hst.to0)

theorem fr_resolveSrc0 (dp : Path) (T : List Path) (fs0 : FS) (dest : Str) (st : LState) (e : Entry) (hst : FSt0 dest st) :
    FrSem dp T fs0 (fun r => ∀ src, r = .ok src → src.typ = .reg ∨ src = e) (resolveSrcP st e) := by
  unfold resolveSrcP
  split
  · simp only
    split
    · apply frSem_pure; intro src h; cases h
    · rename_i se hf
      have hse : se.typ = .reg := hst.staged _ (List.mem_of_find?_eq_some hf)
      refine bindF dp T fs0 _ _ (fr_info dp T fs0 (.readFile _) trivial) ?_
      intro d _
      split
      · apply frSem_pure
        intro src h
        injection h with h
        rw [← h]; exact Or.inl hse
      · apply frSem_pure; intro src h; cases h
  · apply frSem_pure
    intro src h
    injection h with h
    exact Or.inr h.symm

theorem fr_resolveSrc (dp : Path) (T : List Path) (fs0 : FS) (dest : Str) (st : LState) (e : Entry) (hst : FStOK T dest st) :
    FrSem dp T fs0 (fun r => ∀ src, r = .ok src → src.typ = .reg ∨ src = e) (resolveSrcP st e) :=
  fr_resolveSrc0 dp T fs0 dest st e hst.to0

theorem fr_opaqueWalk (dp : Path) (T : List Path) (fs0 : FS) (dirS : Str) (unpacked : List Str)
    (hdr : pathComps dirS ∈ T) :
    ∀ (items : List (Str × Kind × Nat)) (skip : Option Nat),
      (∀ it ∈ items, CleanAbs it.1 ∧ pathComps dirS <+: pathComps it.1 ∧ (it.1 ≠ dirS → pathComps it.1 ≠ pathComps dirS)) →
      FrSem dp T fs0 (fun _ => True) (opaqueWalkP dirS unpacked items skip)
  | [], _, _ => frSem_pure dp T fs0 _ _ trivial
  | (q, k, d) :: rest, skip, h => by
    have hrest : ∀ sk, FrSem dp T fs0 (fun _ => True) (opaqueWalkP dirS unpacked rest sk) :=
      fun sk => fr_opaqueWalk dp T fs0 dirS unpacked hdr rest sk (fun it hit => h it (by simp [hit]))
    have hq := h (q, k, d) (by simp)
    have tailcase : FrSem dp T fs0 (fun _ => True)
        (if q = dirS then opaqueWalkP dirS unpacked rest none
         else if unpacked.contains q = true then opaqueWalkP dirS unpacked rest none
         else do
           let r ← sys (Sys.removeAll q)
           if isErr r = true then pure r else opaqueWalkP dirS unpacked rest (some d)) := by
      by_cases h2 : q = dirS
      · rw [if_pos h2]; exact hrest _
      · rw [if_neg h2]
        by_cases h3 : unpacked.contains q = true
        · rw [if_pos h3]; exact hrest _
        · rw [if_neg h3]
          have hfa : FArg T q := ⟨⟨_, hdr, hq.2.1⟩, hq.1.no_dotdot⟩
          refine bindF dp T fs0 _ _ (fr_info dp T fs0 (.removeAll q) hfa) ?_
          intro r _
          split
          · exact frSem_pure dp T fs0 _ _ trivial
          · exact hrest _
    simp only [opaqueWalkP]
    cases skip with
    | none =>
      simp only [Bool.false_eq_true, if_false]
      exact tailcase
    | some sd =>
      simp only
      by_cases h1 : decide (d > sd) = true
      · rw [if_pos h1]; exact hrest _
      · rw [if_neg h1]; exact tailcase

theorem fr_whiteoutRemove (dp : Path) (T : List Path) (fs0 : FS) (orig : Str) (hl : FArg T orig) :
    FrSem dp T fs0 (fun _ => True) (whiteoutRemoveP orig) := by
  unfold whiteoutRemoveP
  refine ⟨trivial, fun w _ _ => ?_⟩
  by_cases h : notDirRes (step w (Sys.stat (dir orig))).1 = true
  · simp only [h, if_true]; exact trivial
  · simp only [h, if_false]
    exact ⟨hl, fun _ _ _ => trivial⟩

theorem touchedOf_sub {dest : Str} {es : List Entry} {e : Entry} (h : e ∈ es) {x : Path} (hx : x ∈ touchedOf dest e) :
    x ∈ touchedL dest es := by
  unfold touchedL
  exact List.mem_cons_of_mem _ (List.mem_flatMap.mpr ⟨e, h, hx⟩)

/-- **the loop of `UnpackLayer` touches only what the layer names** (no symbolic-link entries) -/
theorem fr_layerLoop (dp : Path) (T : List Path) (fs0 : FS) (dest : Str) (o : Opts) (hd : CleanAbs dest)
    (htmp : pathComps (join dest tmpName) ∈ T) :
    ∀ (es : List Entry) (st : LState), (∀ e ∈ es, e.typ ≠ .sym) → (∀ e ∈ es, ∀ x ∈ touchedOf dest e, x ∈ T) →
      FStOK T dest st → FrSem dp T fs0 (fun _ => True) (layerLoop dest o es st)
  | [], st, _, _, hst => by
    simp only [layerLoop]
    refine bindF dp T fs0 _ _ (fr_dirTimes dp T fs0 dest _ (fun e he => hst.dirs e (by simpa using he))) ?_
    intro r _
    exact fr_layerFinish dp T fs0 dest st r hd htmp hst
  | e :: es, st0, hsym, hT, hst0 => by
    have hes : e.typ ≠ .sym := hsym e (by simp)
    have hTe : ∀ x ∈ touchedOf dest e, x ∈ T := hT e (by simp)
    have hrec : ∀ st', FStOK T dest st' → FrSem dp T fs0 (fun _ => True) (layerLoop dest o es st') :=
      fun st' h' => fr_layerLoop dp T fs0 dest o hd htmp es st' (fun x hx => hsym x (by simp [hx]))
        (fun x hx => hT x (by simp [hx])) h'
    have hst1 : FStOK T dest { st0 with size := st0.size + e.size } := ⟨hst0.dirs, hst0.tmp, hst0.staged⟩
    have hTp : pathComps (join dest (clean e.name)) ∈ T := hTe _ (by simp [touchedOf])
    simp only [layerLoop]
    split
    · exact hrec _ hst1
    refine bindF dp T fs0 _ _ (fr_stage dp T fs0 dest o e _ hd htmp
      (fun hc => hTe _ (by simp only [touchedOf]; rw [if_pos hc]; simp)) hst1) ?_
    intro stR hstR
    split
    · exact fr_layerFinish dp T fs0 dest _ _ hd htmp hst1
    · rename_i st
      have hst : FStOK T dest st := hstR st rfl
      have hfin : ∀ out, FrSem dp T fs0 (fun _ => True) (layerFinish dest st out) :=
        fun out => fr_layerFinish dp T fs0 dest st out hd htmp hst
      split
      · exact hrec st hst
      · split
        · exact hfin _
        · rename_i p hg
          obtain ⟨hpe, hpc, _⟩ := guardName_ok dest (clean e.name) p hd hg
          have hp : FArg T p := by rw [hpe]; exact farg_of_mem (hpe ▸ hpc) hTp
          refine bindF dp T fs0 _ _ (fr_impliedDirs dp T fs0 dest e.name o hd hTp) ?_
          intro i _
          split
          · exact hfin _
          · split
            · rename_i hwh
              have hdrc := dir_cleanAbs hpc
              split
              · exact hfin _
              · split
                · rename_i hop
                  have hTd : pathComps (dir p) ∈ T := by
                    apply hTe
                    simp only [touchedOf]
                    rw [← hpe, if_pos hop]
                    simp
                  refine bindF dp T fs0 _ _ (fr_info dp T fs0 (.lstat (dir p)) trivial) ?_
                  intro l _
                  split
                  · exact hfin _
                  · refine bindF dp T fs0 (Q := fun t => ∀ items, t = .tree items → ∀ it ∈ items,
                        CleanAbs it.1 ∧ pathComps (dir p) <+: pathComps it.1 ∧ (it.1 ≠ dir p → pathComps it.1 ≠ pathComps (dir p))) _ _ ?_ ?_
                    · exact frSem_sys dp T fs0 (.listTree (dir p)) trivial _
                        (fun w hw _ items hit => listTree_items dp w hw (dir p) hdrc.1 items hit)
                    · intro t ht
                      split
                      · rename_i items
                        refine bindF dp T fs0 _ _ (fr_opaqueWalk dp T fs0 (dir p) st.unpacked hTd items none (ht items rfl)) ?_
                        intro wr _
                        split
                        · exact hfin _
                        · exact hrec st hst
                      · exact hrec st hst
                      · exact hfin _
                · rename_i hnop
                  have horigc : CleanAbs (join (dir p) ((base p).drop whPrefix.length)) := join_cleanAbs _ _ hdrc.1
                  have hTo : pathComps (join (dir p) ((base p).drop whPrefix.length)) ∈ T := by
                    apply hTe
                    simp only [touchedOf]
                    rw [← hpe, if_neg hnop, if_pos hwh]
                    simp
                  split
                  · exact hfin _
                  · split
                    · exact hfin _
                    · refine bindF dp T fs0 _ _ (fr_whiteoutRemove dp T fs0 _ (farg_of_mem horigc hTo)) ?_
                      intro r _
                      split
                      · exact hfin _
                      · split
                        · exact hfin _
                        · exact hrec st hst
            · refine bindF dp T fs0 _ _ (fr_info dp T fs0 (.lstat p) trivial) ?_
              intro l _
              have tail : FrSem dp T fs0 (fun _ => True) (do
                  let srcR ← resolveSrcP st e
                  match srcR with
                    | Except.error out => layerFinish dest st out
                    | Except.ok src =>
                      match remapE o src with
                      | none => layerFinish dest st Out.err
                      | some src' => do
                        let out ← createTarFileP p dest src' o
                        if (out != Out.ok) = true then layerFinish dest st out
                          else
                            layerLoop dest o es
                              { st with dirs := (if e.typ == .dir then { e with name := clean e.name } :: st.dirs else st.dirs),
                                        unpacked := p :: st.unpacked }) := by
                refine bindF dp T fs0 _ _ (fr_resolveSrc dp T fs0 dest st e hst) ?_
                intro srcR hsrc
                split
                · exact hfin _
                · rename_i src
                  have hsrc' := hsrc src rfl
                  split
                  · exact hfin _
                  · rename_i src' hrm
                    have hty : src'.typ = src.typ := remapE_typ o src src' hrm
                    have hln : src'.linkname = src.linkname := by
                      unfold remapE at hrm
                      cases hh : toHostPair o src.uid src.gid with
                      | none => rw [hh] at hrm; cases hrm
                      | some pr => rw [hh] at hrm; simp at hrm; rw [← hrm]
                    have hlink : src'.typ = .link → pathComps (join dest src'.linkname) ∈ T := by
                      intro hl
                      rcases hsrc' with h | h
                      · rw [hty, h] at hl; cases hl
                      · subst h
                        rw [hln]
                        apply hTe
                        simp only [touchedOf]
                        rw [hty] at hl
                        simp [hl]
                    have hns : src'.typ ≠ .sym := by
                      rw [hty]
                      rcases hsrc' with h | h
                      · rw [h]; simp
                      · rw [h]; exact hes
                    refine bindF dp T fs0 _ _ (fr_createTarFile dp T fs0 p dest src' o hp hd hlink hns) ?_
                    intro out _
                    split
                    · exact hfin _
                    · apply hrec
                      refine ⟨?_, hst.tmp, hst.staged⟩
                      intro x hx
                      simp only at hx
                      split at hx
                      · rcases List.mem_cons.mp hx with rfl | hx
                        · simp only; rw [← hpe]; exact hp
                        · exact hst.dirs x hx
                      · exact hst.dirs x hx
              have afterRm : ∀ (rmP : Prog Res), FrSem dp T fs0 (fun _ => True) rmP →
                  FrSem dp T fs0 (fun _ => True) (rmP >>= fun rm => if isErr rm = true then layerFinish dest st Out.err else (do
                  let srcR ← resolveSrcP st e
                  match srcR with
                    | Except.error out => layerFinish dest st out
                    | Except.ok src =>
                      match remapE o src with
                      | none => layerFinish dest st Out.err
                      | some src' => do
                        let out ← createTarFileP p dest src' o
                        if (out != Out.ok) = true then layerFinish dest st out
                          else
                            layerLoop dest o es
                              { st with dirs := (if e.typ == .dir then { e with name := clean e.name } :: st.dirs else st.dirs),
                                        unpacked := p :: st.unpacked })) := by
                intro rmP hrm
                refine bindF dp T fs0 _ _ hrm ?_
                intro rm _
                split
                · exact hfin _
                · exact tail
              cases l with
              | stat s =>
                simp only
                by_cases hguard : ((!(s.kind == Kind.dir) || e.typ != Typ.dir) && decide (p = clean dest) && e.typ != Typ.dir) = true
                · rw [if_pos hguard]; exact hfin _
                · rw [if_neg hguard]
                  apply afterRm
                  by_cases hneed : (!(s.kind == Kind.dir) || e.typ != Typ.dir) = true
                  · rw [if_pos hneed]
                    exact fr_info dp T fs0 (.removeAll p) hp
                  · rw [if_neg hneed]; exact frSem_pure dp T fs0 _ _ trivial
              | _ =>
                simp only [Bool.false_and, Bool.false_eq_true, if_false]
                apply afterRm
                exact frSem_pure dp T fs0 _ _ trivial

/-- `archive.ApplyLayer` (plain) into an absolute destination touches only what the layer names -/
theorem fr_applyLayer (fs0 : FS) (dest : Str) (o : Opts) (es : List Entry) (oldUmask : Nat) (habs : isAbs dest = true)
    (hsym : ∀ e ∈ es, e.typ ≠ .sym) :
    FrSem (pathComps (clean dest)) (touchedL (clean dest) es) fs0 (fun _ => True) (applyLayerP dest o es oldUmask) := by
  unfold applyLayerP unpackLayerP
  refine bindF _ _ _ _ _ (fr_info _ _ _ (.setUmask 0) trivial) ?_
  intro _ _
  refine bindF _ _ _ (Q := fun _ => True) _ _ ?_ ?_
  · exact fr_layerLoop _ _ fs0 (clean dest) o (clean_cleanAbs dest habs) (by simp [touchedL]) es {} hsym
      (fun e he x hx => touchedOf_sub he hx) ⟨by simp, Or.inl rfl, by simp⟩
  · intro r _
    refine bindF _ _ _ _ _ (fr_info _ _ _ (.setUmask oldUmask) trivial) ?_
    intro _ _
    exact frSem_pure _ _ _ _ _ trivial

end GA
