import GA.Proofs.LayerRun
import GA.Proofs.UnpackLast
import GA.Props.C06
import GA.Props.C06b
/-
  What single iterations of `UnpackLayer` establish, and how the end of the loop (deferred directory times,
  removal of the staging directory, the umask wrapper of `ApplyLayer`) relates to the fold of iterations.
-/
namespace GA
open GA.C06

/-- an iteration that stops the loop does so with an error, never with the success value -/
theorem layerIter_error_ne_ok (dest : Str) (o : Opts) (e : Entry) (st0 : LState) :
    (layerIterP dest o e st0).All (fun r => ∀ out st', r = .error (out, st') → out ≠ .ok) := by
  have hok : ∀ st : LState, ∀ out st', (Except.ok st : Except (Out × LState) LState) = .error (out, st') → out ≠ .ok := by
    intro _ _ _ h; cases h
  have herr : ∀ (x : Out) (st : LState), x ≠ .ok →
      ∀ out st', (Except.error (x, st) : Except (Out × LState) LState) = .error (out, st') → out ≠ .ok := by
    intro x st hx out st' h; cases h; exact hx
  simp only [layerIterP, layerTailP]
  split
  · exact hok _
  refine All_bind _ _ (stageP_all dest o e _ (clean e.name)) ?_
  intro stR hstR
  cases stR with
  | error out => exact herr _ _ hstR
  | ok st =>
    simp only
    repeat' first
      | exact hok _
      | exact herr _ _ (by decide)
      | exact herr _ _ (guardName_error_ne_ok _ _ _ ‹guardName _ _ = Except.error _›)
      | exact herr _ _ (by have h := ‹(_ != Out.ok) = true›; simpa using h)
      | exact herr _ _ hsrc
      | (refine All_bind _ _ (resolveSrcP_all _ e) ?_; intro srcR hsrc; cases srcR <;> simp only)
      | (apply All_bind_any; intro _)
      | split

theorem layerRun_error_ne_ok (dest : Str) (o : Opts) : ∀ (es : List Entry) (st : LState) (w : World) (out : Out)
    (st' : LState) (w' : World), layerRun dest o es st w = (.error (out, st'), w') → out ≠ .ok
  | [], st, w, out, st', w', h => by simp only [layerRun] at h; cases h
  | e :: es, st, w, out, st', w', h => by
    simp only [layerRun] at h
    have ha := Prog.All.run _ w (layerIter_error_ne_ok dest o e st)
    cases hr : (layerIterP dest o e st).run w with
    | mk r w1 =>
      rw [hr] at h ha
      cases r with
      | error x =>
        simp only at h
        injection h with h1 h2
        injection h1 with h1
        subst h1
        exact ha _ _ rfl
      | ok s1 => exact layerRun_error_ne_ok dest o es s1 w1 out st' w' h

/-- the clean-up at the end reports the outcome it was given … -/
theorem layerFinish_out (dest : Str) (st : LState) (out : Out) (w : World) :
    ((layerFinish dest st out).run w).1.1 = out := by
  unfold layerFinish
  rw [Prog.bind_eq, Prog.run_bind]
  rfl

/-- … and adds no name (it removes the staging directory, if one was made) -/
theorem layerFinish_names (dp : Path) (dest : Str) (st : LState) (out : Out) (w : World) (hw : LW dp w)
    (hst : LStOK dp dest st) (q : Path) (hq : w.fs.lookup q = none) :
    ((layerFinish dest st out).run w).2.fs.lookup q = none := by
  unfold layerFinish
  rw [Prog.bind_eq, Prog.run_bind]
  simp only [Prog.run, pure]
  split
  · rename_i hne
    rcases hst.tmp with h | ⟨hc, x, hx⟩
    · exact absurd h hne
    · have hl : LexArg dp st.tmp := lexArg_of hc (by rw [hx]; exact List.prefix_append _ _)
      have hs : pathComps st.tmp ≠ dp := by
        rw [hx]; intro e
        have := congrArg List.length e
        simp at this
      have hp := (removeAll_post dp w hw st.tmp hl hs).2 q
      show ((sys (Sys.removeAll st.tmp)).run w).2.fs.lookup q = none
      cases hlk : ((sys (Sys.removeAll st.tmp)).run w).2.fs.lookup q with
      | none => rfl
      | some i =>
        have := hp i hlk
        rw [hq] at this; cases this
  · exact hq

/-- the end of the loop (deferred directory times, clean-up) adds no name -/
theorem layerEnd_names (dp : Path) (dest : Str) (o : Opts) (hd : CleanAbs dest) (hdp : pathComps dest = dp)
    (st : LState) (w : World) (hw : LW dp w) (hst : LStOK dp dest st) (q : Path) (hq : w.fs.lookup q = none) :
    ((layerLoop dest o [] st).run w).2.fs.lookup q = none := by
  simp only [layerLoop]
  rw [Prog.bind_eq, Prog.run_bind]
  have hl := lex_dirTimes dp dest st.dirs.reverse (fun e he => hst.dirs e (by simpa using he))
  have hw1 := (LexSem.run dp _ _ w hl hw).2.1
  have hk := KeepsNames.run _ w (keeps_dirTimes dest st.dirs.reverse) q
  exact layerFinish_names dp dest st _ _ hw1 hst q (by rw [hk]; exact hq)

/-- the end of the loop leaves alone an object that is not a directory and whose only name is neither at,
    beneath nor above the staging directory -/
theorem layerEnd_quiet (dp : Path) (dest : Str) (o : Opts) (hd : CleanAbs dest) (hdp : pathComps dest = dp)
    (st : LState) (w : World) (hw : LW dp w) (hl : LStOK dp dest st) (hf : FSt0 dest st)
    (i : Ino) (n : Inode) (P : Path) (hlk : w.fs.lookup P = some i) (hi : w.fs.inode i = some n) (hk : n.kind ≠ .dir)
    (huniq : ∀ q, w.fs.lookup q = some i → q = P)
    (hc : ¬ Cov [pathComps (join dest tmpName)] P) (ha : ¬ Anc [pathComps (join dest tmpName)] P) :
    ((layerLoop dest o [] st).run w).2.fs.lookup P = some i ∧ ((layerLoop dest o [] st).run w).2.fs.inode i = some n := by
  simp only [layerLoop]
  rw [Prog.bind_eq, Prog.run_bind]
  have hds : DirsOK dp dest st.dirs.reverse := fun e he => hl.dirs e (by simpa using he)
  have hdt := dirTimes_nondir dp dest st.dirs.reverse w hw hds
  have hk1 := KeepsNames.run _ w (keeps_dirTimes dest st.dirs.reverse)
  generalize (dirTimesP dest st.dirs.reverse).run w = r1 at hdt hk1 ⊢
  obtain ⟨r, w1⟩ := r1
  simp only at hdt hk1 ⊢
  have hfr := (FrSem.run dp [pathComps (join dest tmpName)] w1.fs hdt.1.inv.fresh _ _ _ w1
    (lex_layerFinish dp dest st r hl) (fr_layerFinish0 dp _ w1.fs dest st r hd (by simp) hf) hdt.1 (Framed.refl _ _)).1
  have hl1 : w1.fs.lookup P = some i := by rw [hk1]; exact hlk
  have hq : QuietI [pathComps (join dest tmpName)] w1.fs i :=
    ⟨⟨⟨P, hl1⟩, fun p hp => by rw [huniq p (by rw [← hk1]; exact hp)]; exact hc⟩,
      fun p hp => by rw [huniq p (by rw [← hk1]; exact hp)]; exact ha⟩
  exact ⟨hfr.names_keep P i hl1 hc, by rw [hfr.inode_quiet i hq]; exact hdt.2 i n hi hk⟩

/-- the staging directory is the destination's child of that name -/
theorem tmp_comps (dest : Str) (hd : CleanAbs dest) : pathComps (join dest tmpName) = pathComps dest ++ [tmpName] := by
  obtain ⟨cs, hcs, rfl, hsc⟩ := hd.comps
  have hj : join (47 :: joinSlash cs) tmpName = 47 :: joinSlash (cs ++ [tmpName]) :=
    join_snoc cs tmpName hcs tmpName_norm
  have hcs' : ∀ x ∈ cs ++ [tmpName], Norm x := by
    intro x hx
    rcases List.mem_append.mp hx with hx | hx
    · exact hcs x hx
    · simp at hx; rw [hx]; exact tmpName_norm
  rw [hj, pathComps_cleanAbs _ hcs', hsc]

/-- a path strictly beneath the destination that does not lie at or beneath the staging directory is not above it either -/
theorem not_anc_tmp (dest : Str) (hd : CleanAbs dest) (P : Path) (hin : pathComps dest <+: P) (hne : P ≠ pathComps dest)
    (hc : ¬ Cov [pathComps (join dest tmpName)] P) : ¬ Anc [pathComps (join dest tmpName)] P := by
  rintro ⟨t, ht, hp⟩
  simp only [List.mem_singleton] at ht
  subst ht
  rw [tmp_comps dest hd] at hp
  obtain ⟨s, rfl⟩ := hin
  have hs : s <+: [tmpName] := by
    have := hp
    rwa [List.prefix_append_right_inj] at this
  cases s with
  | nil => exact hne (by simp)
  | cons x xs =>
    have hlen := hs.length_le
    have hxs : xs = [] := by
      cases xs with
      | nil => rfl
      | cons _ _ => simp at hlen
    subst hxs
    have hx : x = tmpName := by
      obtain ⟨r, hr⟩ := hs
      simp at hr
      exact hr.1
    subst hx
    exact hc ⟨pathComps (join dest tmpName), by simp, by rw [tmp_comps dest hd]; exact List.prefix_refl _⟩

/-- the clean-up leaves alone an object whose only name is neither at, beneath nor above the staging directory -/
theorem layerFinish_quiet (dp : Path) (dest : Str) (hd : CleanAbs dest)
    (st : LState) (out : Out) (w : World) (hw : LW dp w) (hl : LStOK dp dest st) (hf : FSt0 dest st)
    (i : Ino) (n : Inode) (P : Path) (hlk : w.fs.lookup P = some i) (hi : w.fs.inode i = some n)
    (huniq : ∀ q, w.fs.lookup q = some i → q = P)
    (hc : ¬ Cov [pathComps (join dest tmpName)] P) (ha : ¬ Anc [pathComps (join dest tmpName)] P) :
    ((layerFinish dest st out).run w).2.fs.lookup P = some i ∧ ((layerFinish dest st out).run w).2.fs.inode i = some n := by
  have hfr := (FrSem.run dp [pathComps (join dest tmpName)] w.fs hw.inv.fresh _ _ _ w
    (lex_layerFinish dp dest st out hl) (fr_layerFinish0 dp _ w.fs dest st out hd (by simp) hf) hw (Framed.refl _ _)).1
  have hq : QuietI [pathComps (join dest tmpName)] w.fs i :=
    ⟨⟨⟨P, hlk⟩, fun p hp => by rw [huniq p hp]; exact hc⟩, fun p hp => by rw [huniq p hp]; exact ha⟩
  exact ⟨hfr.names_keep P i hlk hc, by rw [hfr.inode_quiet i hq]; exact hi⟩

/-- `ApplyLayer` is `UnpackLayer` run with umask 0 -/
theorem applyLayer_run (dest : Str) (o : Opts) (es : List Entry) (um : Nat) (w : World) :
    ((applyLayerP dest o es um).run w).1 = ((unpackLayerP (clean dest) o es).run (step w (.setUmask 0)).2).1 ∧
    ((applyLayerP dest o es um).run w).2.fs = ((unpackLayerP (clean dest) o es).run (step w (.setUmask 0)).2).2.fs := by
  unfold applyLayerP
  rw [run_sys_bind, Prog.bind_eq, Prog.run_bind]
  exact ⟨rfl, rfl⟩

/-- **one iteration for a whiteout entry**: when it goes on to the next entry, nothing is left at or beneath
    the path the whiteout names -/
theorem iter_whiteout_post (dp : Path) (dest : Str) (o : Opts) (hd : CleanAbs dest) (hdp : pathComps dest = dp)
    (e : Entry) (st : LState) (w : World) (hw : LW dp w)
    (hx : e.typ ≠ .xglobal) (hmeta : hasPrefix (clean e.name) whMetaPrefix = false)
    (hwh : hasPrefix (base (join dest (clean e.name))) whPrefix = true)
    (hnop : base (join dest (clean e.name)) ≠ whOpaqueDir)
    (st' : LState) (w' : World) (hrun : (layerIterP dest o e st).run w = (.ok st', w')) :
    ∀ q, under (pathComps (join (dir (join dest (clean e.name)))
        ((base (join dest (clean e.name))).drop whPrefix.length))) q = true → w'.fs.lookup q = none := by
  have hxg : (e.typ == Typ.xglobal) = false := by
    cases h : e.typ <;> first | rfl | exact absurd h hx
  simp only [layerIterP, hxg, Bool.false_eq_true, if_false, stageP, hmeta, Bool.false_and] at hrun
  rw [Prog.bind_eq, Prog.run_bind] at hrun
  simp only [Prog.run, pure] at hrun
  cases hg : guardName dest (clean e.name) with
  | error out => rw [hg] at hrun; simp only [Prog.run, pure] at hrun; cases hrun
  | ok p =>
    rw [hg] at hrun
    simp only at hrun
    obtain ⟨hpe, hpc, hpin⟩ := guardName_ok dest (clean e.name) p hd hg
    rw [hdp] at hpin
    have hin' : dp <+: pathComps (join dest (clean e.name)) := by rw [← hpe]; exact hpin
    rw [← hpe]
    rw [← hpe] at hwh hnop
    rw [Prog.bind_eq, Prog.run_bind] at hrun
    have hI := LexSem.run dp _ _ w (lex_impliedDirs dp dest e.name o hd hdp hin') hw
    generalize hi1 : (impliedDirsP dest (clean e.name) o).run w = r1 at hrun hI
    obtain ⟨i1, w1⟩ := r1
    simp only at hrun hI
    have hw1 : LW dp w1 := hI.2.1
    by_cases hie : isErr i1 = true
    · simp only [hie, if_true, Prog.run, pure] at hrun; cases hrun
    · simp only [hie, Bool.false_eq_true, if_false, hwh, if_true] at hrun
      have hdrc := dir_cleanAbs hpc
      by_cases hwd : isWithin dest (dir p) = true
      · simp only [hwd, Bool.not_true, Bool.false_eq_true, if_false, hnop] at hrun
        have horigc : CleanAbs (join (dir p) ((base p).drop whPrefix.length)) := join_cleanAbs _ _ hdrc.1
        by_cases hwo : isWithin dest (join (dir p) ((base p).drop whPrefix.length)) = true
        · simp only [hwo, Bool.not_true, Bool.false_eq_true, if_false] at hrun
          by_cases hnd : join (dir p) ((base p).drop whPrefix.length) = clean dest
          · simp only [hnd, if_true, Prog.run, pure] at hrun; cases hrun
          · simp only [hnd, if_false] at hrun
            have hoin : dp <+: pathComps (join (dir p) ((base p).drop whPrefix.length)) := by
              rw [← hdp]; exact within_of_isWithin hd horigc hwo
            have hstrict : pathComps (join (dir p) ((base p).drop whPrefix.length)) ≠ dp := by
              intro e'
              apply hnd
              rw [clean_of_cleanAbs dest hd]
              exact cleanAbs_eq_of_comps horigc hd (by rw [e', hdp])
            have hpost := (whiteout_removes_and_creates_nothing dp w1 _ hw1 (lexArg_of horigc hoin) hstrict).1
            rw [Prog.bind_eq, Prog.run_bind] at hrun
            generalize hwr : (whiteoutRemoveP (join (dir p) ((base p).drop whPrefix.length))).run w1 = r2 at hrun hpost
            obtain ⟨r, w2⟩ := r2
            simp only at hrun hpost
            cases r with
            | none => simp only [Prog.run, pure] at hrun; cases hrun
            | some rr =>
              simp only at hrun
              by_cases hre : isErr rr = true
              · simp only [hre, if_true, Prog.run, pure] at hrun; cases hrun
              · simp only [hre, Bool.false_eq_true, if_false, Prog.run, pure] at hrun
                injection hrun with _ h2
                subst h2
                exact hpost rr rfl (by simpa using hre)
        · simp only [hwo, Bool.not_false, if_true, Prog.run, pure] at hrun; cases hrun
      · simp only [hwd, Bool.not_false, if_true, Prog.run, pure] at hrun; cases hrun

end GA
