import GA.Proofs.LayerIter
import GA.Proofs.FrameLayer
/-
  One iteration of the loop of `UnpackLayer` and the two invariants: every call of an iteration is lexically
  good, and it touches only what its own entry names (and the staging directory).  Then the fold of
  iterations (`layerRun`) keeps the lexical invariant, the state invariants, and the composed frame.
-/
namespace GA

/-- the state an iteration ends in, whichever way it ends -/
def resSt : Except (Out × LState) LState → LState
  | .ok st => st
  | .error (_, st) => st

/-- what one iteration may touch: the staging directory and what its entry names -/
def touchedI (dest : Str) (e : Entry) : List Path := pathComps (join dest tmpName) :: touchedOf dest e

theorem lex_layerTail (dp : Path) (dest : Str) (o : Opts) (hd : CleanAbs dest) (hdp : pathComps dest = dp)
    (e : Entry) (st : LState) (p : Str) (hes : e.typ ≠ .sym) (hst : LStOK dp dest st) (hp : LexArg dp p)
    (hpe : p = join dest (clean e.name)) :
    LexSem dp (fun r => LStOK dp dest (resSt r)) (layerTailP dest o e st p) := by
  unfold layerTailP
  refine bindL dp _ _ (lex_resolveSrc dp dest st e hst hes) ?_
  intro srcR hsrc
  split
  · exact lexSem_pure dp _ _ hst
  · rename_i src
    have hsrct : src.typ ≠ .sym := hsrc src rfl
    split
    · exact lexSem_pure dp _ _ hst
    · rename_i src' hrm
      have hty : src'.typ = src.typ := remapE_typ o src src' hrm
      refine bindL dp _ _ (lex_createTarFile dp p dest src' o hp hd hdp (by rw [hty]; exact hsrct)) ?_
      intro out _
      split
      · exact lexSem_pure dp _ _ hst
      · apply lexSem_pure
        refine ⟨?_, hst.tmp, hst.staged⟩
        intro x hx
        simp only [resSt] at hx
        split at hx
        · rcases List.mem_cons.mp hx with rfl | hx
          · simp only; rw [← hpe]; exact hp
          · exact hst.dirs x hx
        · exact hst.dirs x hx

/-- **one iteration of `UnpackLayer` issues only good calls** (no symbolic-link entry) and keeps the state invariant -/
theorem lex_iterL (dp : Path) (dest : Str) (o : Opts) (hd : CleanAbs dest) (hdp : pathComps dest = dp)
    (e : Entry) (st0 : LState) (hes : e.typ ≠ .sym) (hst0 : LStOK dp dest st0) :
    LexSem dp (fun r => LStOK dp dest (resSt r)) (layerIterP dest o e st0) := by
  have hst1 : LStOK dp dest { st0 with size := st0.size + e.size } := ⟨hst0.dirs, hst0.tmp, hst0.staged⟩
  simp only [layerIterP]
  split
  · exact lexSem_pure dp _ _ hst1
  refine bindL dp _ _ (lex_stage dp dest o e _ (clean e.name) hd hdp hst1) ?_
  intro stR hstR
  split
  · exact lexSem_pure dp _ _ hst1
  · rename_i st
    have hst : LStOK dp dest st := hstR st rfl
    have hfin : ∀ out, LexSem dp (fun r => LStOK dp dest (resSt r)) (pure (Except.error (out, st))) :=
      fun out => lexSem_pure dp _ _ hst
    have hgo : LexSem dp (fun r => LStOK dp dest (resSt r)) (pure (Except.ok st)) := lexSem_pure dp _ _ hst
    split
    · exact hgo
    · split
      · exact hfin _
      · rename_i p hg
        obtain ⟨hpe, hpc, hpin⟩ := guardName_ok dest (clean e.name) p hd hg
        rw [hdp] at hpin
        have hp : LexArg dp p := lexArg_of hpc hpin
        have hin' : dp <+: pathComps (join dest (clean e.name)) := by rw [← hpe]; exact hpin
        refine bindL dp _ _ (lex_impliedDirs dp dest e.name o hd hdp hin') ?_
        intro i _
        split
        · exact hfin _
        · split
          · -- whiteout or opaque marker
            have hdrc := dir_cleanAbs hpc
            split
            · exact hfin _
            · rename_i hwdr
              have hwdr' : isWithin dest (dir p) = true := by simpa using hwdr
              have hdrin : dp <+: pathComps (dir p) := by rw [← hdp]; exact within_of_isWithin hd hdrc.1 hwdr'
              split
              · refine bindL dp _ _ (lex_info dp (.lstat (dir p)) trivial) ?_
                intro l _
                split
                · exact hfin _
                · refine bindL dp (Q := fun t => ∀ items, t = .tree items → ∀ it ∈ items,
                      CleanAbs it.1 ∧ pathComps (dir p) <+: pathComps it.1 ∧ (it.1 ≠ dir p → pathComps it.1 ≠ pathComps (dir p))) _ _ ?_ ?_
                  · exact lexSem_sys dp (.listTree (dir p)) (good_lex (s := .listTree (dir p)) trivial) _
                      (fun w hw items hit => listTree_items dp w hw (dir p) hdrc.1 items hit)
                  · intro t ht
                    split
                    · rename_i items
                      refine bindL dp _ _ (lex_opaqueWalk dp (dir p) st.unpacked hdrin items none (ht items rfl)) ?_
                      intro wr _
                      split
                      · exact hfin _
                      · exact hgo
                    · exact hgo
                    · exact hfin _
              · have horigc : CleanAbs (join (dir p) ((base p).drop whPrefix.length)) := join_cleanAbs _ _ hdrc.1
                split
                · exact hfin _
                · rename_i hwo
                  have hwo' : isWithin dest (join (dir p) ((base p).drop whPrefix.length)) = true := by simpa using hwo
                  split
                  · exact hfin _
                  · rename_i hnd
                    have hoin : dp <+: pathComps (join (dir p) ((base p).drop whPrefix.length)) := by
                      rw [← hdp]; exact within_of_isWithin hd horigc hwo'
                    have hstrict : pathComps (join (dir p) ((base p).drop whPrefix.length)) ≠ dp := by
                      intro e'
                      apply hnd
                      rw [clean_of_cleanAbs dest hd]
                      exact cleanAbs_eq_of_comps horigc hd (by rw [e', hdp])
                    refine bindL dp _ _ (lex_whiteoutRemove dp _ (lexArg_of horigc hoin) hstrict) ?_
                    intro r _
                    split
                    · exact hfin _
                    · split
                      · exact hfin _
                      · exact hgo
          · -- an ordinary entry
            refine bindL dp (Q := fun l => pathComps p = dp → ∀ s, l = .stat s → s.kind = .dir) _ _ ?_ ?_
            · exact lexSem_sys dp (.lstat p) (good_lex (s := .lstat p) trivial) _ (fun w hw hpd s hs => by
                simp only [step] at hs
                exact (stat_above dp w hw p false hpc.ne_nil hpc.no_dotdot (by rw [hpd]; exact List.prefix_refl _)).1 s hs)
            · intro l hl
              by_cases hguard : (needRmL l e && decide (p = clean dest) && e.typ != Typ.dir) = true
              · rw [if_pos hguard]; exact hfin _
              · rw [if_neg hguard]
                refine bindL dp (Q := fun _ => True) _ _ ?_ ?_
                · by_cases hneed : needRmL l e = true
                  · rw [if_pos hneed]
                    have hstrict : pathComps p ≠ dp := by
                      intro hpd
                      have hpeq : p = clean dest := by
                        rw [clean_of_cleanAbs dest hd]
                        exact cleanAbs_eq_of_comps hpc hd (by rw [hpd, hdp])
                      apply hguard
                      unfold needRmL at hneed
                      cases l with
                      | stat s =>
                        have hk := hl hpd s rfl
                        simp only [hk] at hneed
                        simp only [needRmL, hk, hpeq]
                        simp at hneed ⊢
                        exact hneed
                      | _ => simp at hneed
                    exact lex_info dp (.removeAll p) ⟨hp, hstrict⟩
                  · rw [if_neg hneed]; exact lexSem_pure dp _ _ trivial
                · intro rm _
                  split
                  · exact hfin _
                  · exact lex_layerTail dp dest o hd hdp e st p hes hst hp hpe

theorem fr_layerTail (dp : Path) (T : List Path) (fs0 : FS) (dest : Str) (o : Opts) (hd : CleanAbs dest)
    (e : Entry) (st : LState) (p : Str) (hes : e.typ ≠ .sym) (hst : FSt0 dest st) (hp : FArg T p)
    (hTl : e.typ = .link → pathComps (join dest e.linkname) ∈ T) :
    FrSem dp T fs0 (fun r => FSt0 dest (resSt r)) (layerTailP dest o e st p) := by
  unfold layerTailP
  refine bindF dp T fs0 _ _ (fr_resolveSrc0 dp T fs0 dest st e hst) ?_
  intro srcR hsrc
  split
  · exact frSem_pure dp T fs0 _ _ hst
  · rename_i src
    have hsrc' := hsrc src rfl
    split
    · exact frSem_pure dp T fs0 _ _ hst
    · rename_i src' hrm
      have hty : src'.typ = src.typ := remapE_typ o src src' hrm
      have hln : src'.linkname = src.linkname := by
        unfold remapE at hrm
        cases hh : toHostPair o src.uid src.gid with
        | none => rw [hh] at hrm; cases hrm
        | some pr => rw [hh] at hrm; simp at hrm; rw [← hrm]
      have hlink : src'.typ = .link → pathComps (join dest src'.linkname) ∈ T := by
        intro hl
        rcases hsrc' with h | h
        · rw [hty, h] at hl; cases hl
        · subst h
          rw [hln]
          rw [hty] at hl
          exact hTl hl
      have hns : src'.typ ≠ .sym := by
        rw [hty]
        rcases hsrc' with h | h
        · rw [h]; simp
        · rw [h]; exact hes
      refine bindF dp T fs0 _ _ (fr_createTarFile dp T fs0 p dest src' o hp hd hlink hns) ?_
      intro out _
      split
      · exact frSem_pure dp T fs0 _ _ hst
      · exact frSem_pure dp T fs0 _ _ ⟨hst.tmp, hst.staged⟩

/-- **one iteration of `UnpackLayer` touches only what its entry names**, and the staging directory -/
theorem fr_iterL (dp : Path) (T : List Path) (fs0 : FS) (dest : Str) (o : Opts) (hd : CleanAbs dest)
    (e : Entry) (st0 : LState) (hes : e.typ ≠ .sym) (htmp : pathComps (join dest tmpName) ∈ T)
    (hTe : ∀ x ∈ touchedOf dest e, x ∈ T) (hst0 : FSt0 dest st0) :
    FrSem dp T fs0 (fun r => FSt0 dest (resSt r)) (layerIterP dest o e st0) := by
  have hst1 : FSt0 dest { st0 with size := st0.size + e.size } := ⟨hst0.tmp, hst0.staged⟩
  have hTp : pathComps (join dest (clean e.name)) ∈ T := hTe _ (by simp [touchedOf])
  simp only [layerIterP]
  split
  · exact frSem_pure dp T fs0 _ _ hst1
  refine bindF dp T fs0 _ _ (fr_stage0 dp T fs0 dest o e _ hd htmp
    (fun hc => hTe _ (by simp only [touchedOf]; rw [if_pos hc]; simp)) hst1) ?_
  intro stR hstR
  split
  · exact frSem_pure dp T fs0 _ _ hst1
  · rename_i st
    have hst : FSt0 dest st := (hstR st rfl).1
    have hfin : ∀ out, FrSem dp T fs0 (fun r => FSt0 dest (resSt r)) (pure (Except.error (out, st))) :=
      fun out => frSem_pure dp T fs0 _ _ hst
    have hgo : FrSem dp T fs0 (fun r => FSt0 dest (resSt r)) (pure (Except.ok st)) := frSem_pure dp T fs0 _ _ hst
    split
    · exact hgo
    · split
      · exact hfin _
      · rename_i p hg
        obtain ⟨hpe, hpc, _⟩ := guardName_ok dest (clean e.name) p hd hg
        have hp : FArg T p := by rw [hpe]; exact farg_of_mem (hpe ▸ hpc) hTp
        refine bindF dp T fs0 _ _ (fr_impliedDirs dp T fs0 dest e.name o hd hTp) ?_
        intro i _
        split
        · exact hfin _
        · split
          · rename_i hwh
            have hdrc := dir_cleanAbs hpc
            split
            · exact hfin _
            · split
              · rename_i hop
                have hTd : pathComps (dir p) ∈ T := by
                  apply hTe
                  simp only [touchedOf]
                  rw [← hpe, if_pos hop]
                  simp
                refine bindF dp T fs0 _ _ (fr_info dp T fs0 (.lstat (dir p)) trivial) ?_
                intro l _
                split
                · exact hfin _
                · refine bindF dp T fs0 (Q := fun t => ∀ items, t = .tree items → ∀ it ∈ items,
                      CleanAbs it.1 ∧ pathComps (dir p) <+: pathComps it.1 ∧ (it.1 ≠ dir p → pathComps it.1 ≠ pathComps (dir p))) _ _ ?_ ?_
                  · exact frSem_sys dp T fs0 (.listTree (dir p)) trivial _
                      (fun w hw _ items hit => listTree_items dp w hw (dir p) hdrc.1 items hit)
                  · intro t ht
                    split
                    · rename_i items
                      refine bindF dp T fs0 _ _ (fr_opaqueWalk dp T fs0 (dir p) st.unpacked hTd items none (ht items rfl)) ?_
                      intro wr _
                      split
                      · exact hfin _
                      · exact hgo
                    · exact hgo
                    · exact hfin _
              · rename_i hnop
                have horigc : CleanAbs (join (dir p) ((base p).drop whPrefix.length)) := join_cleanAbs _ _ hdrc.1
                have hTo : pathComps (join (dir p) ((base p).drop whPrefix.length)) ∈ T := by
                  apply hTe
                  simp only [touchedOf]
                  rw [← hpe, if_neg hnop, if_pos hwh]
                  simp
                split
                · exact hfin _
                · split
                  · exact hfin _
                  · refine bindF dp T fs0 _ _ (fr_whiteoutRemove dp T fs0 _ (farg_of_mem horigc hTo)) ?_
                    intro r _
                    split
                    · exact hfin _
                    · split
                      · exact hfin _
                      · exact hgo
          · refine bindF dp T fs0 _ _ (fr_info dp T fs0 (.lstat p) trivial) ?_
            intro l _
            split
            · exact hfin _
            · refine bindF dp T fs0 (Q := fun _ => True) _ _ ?_ ?_
              · split
                · exact fr_info dp T fs0 (.removeAll p) hp
                · exact frSem_pure dp T fs0 _ _ trivial
              · intro rm _
                split
                · exact hfin _
                · exact fr_layerTail dp T fs0 dest o hd e st p hes hst hp
                    (fun hl => hTe _ (by simp [touchedOf, hl]))

/-- what the entries of a layer name, iteration by iteration -/
def touchedIs (dest : Str) (es : List Entry) : List Path := es.flatMap (touchedI dest)

theorem touchedIs_cons (dest : Str) (e : Entry) (es : List Entry) :
    touchedIs dest (e :: es) = touchedI dest e ++ touchedIs dest es := by
  simp [touchedIs]

/-- **the fold of iterations keeps the lexical invariant, the state invariants, and the composed frame** -/
theorem layerRun_frame (dp : Path) (dest : Str) (o : Opts) (hd : CleanAbs dest) (hdp : pathComps dest = dp) :
    ∀ (es : List Entry) (st : LState) (w : World), (∀ e ∈ es, e.typ ≠ .sym) → LW dp w →
    LStOK dp dest st → FSt0 dest st →
    Framed (touchedIs dest es) w.fs (layerRun dest o es st w).2.fs ∧ LW dp (layerRun dest o es st w).2 ∧
      LStOK dp dest (resSt (layerRun dest o es st w).1) ∧ FSt0 dest (resSt (layerRun dest o es st w).1)
  | [], st, w, _, hw, hl, hf => ⟨Framed.refl _ _, hw, hl, hf⟩
  | e :: es, st, w, hsym, hw, hls, hfs => by
    have hes : e.typ ≠ .sym := hsym e (by simp)
    have hl := lex_iterL dp dest o hd hdp e st hes hls
    have hf := fr_iterL dp (touchedI dest e) w.fs dest o hd e st hes (by simp [touchedI])
      (fun x hx => by simp [touchedI, hx]) hfs
    have h1 := FrSem.run dp (touchedI dest e) w.fs hw.inv.fresh _ _ _ w hl hf hw (Framed.refl _ _)
    have h2 := LexSem.run dp _ _ w hl hw
    simp only [layerRun]
    cases h : (layerIterP dest o e st).run w with
    | mk r w' =>
      rw [h] at h1 h2
      cases r with
      | error x =>
        simp only
        rw [touchedIs_cons]
        exact ⟨Framed.comp h1.1 (Framed.refl (touchedIs dest es) w'.fs), h2.2.1, h2.2.2, h1.2⟩
      | ok st' =>
        simp only
        have ih := layerRun_frame dp dest o hd hdp es st' w' (fun x hx => hsym x (by simp [hx])) h2.2.1 h2.2.2 h1.2
        rw [touchedIs_cons]
        exact ⟨Framed.comp h1.1 ih.1, ih.2⟩

end GA
