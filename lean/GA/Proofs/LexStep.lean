import GA.Proofs.Lexical
import GA.Proofs.PathLemmas
/-
  Invariants of a symlink-free world under the file-system primitives: no symbolic link appears
  unless one is created, and the destination stays a directory.
-/
namespace GA

/-- every inode reachable in `fs'` has the kind of an inode reachable in `fs`, or a kind in `K` -/
def KindsFrom (K : Kind → Prop) (fs fs' : FS) : Prop :=
  ∀ p n', fs'.get p = some n' → K n'.kind ∨ ∃ p0 n, fs.get p0 = some n ∧ n'.kind = n.kind

theorem KindsFrom.refl (K : Kind → Prop) (fs : FS) : KindsFrom K fs fs :=
  fun p n' h => Or.inr ⟨p, n', h, rfl⟩

theorem KindsFrom.trans {K : Kind → Prop} {a b c : FS} (h1 : KindsFrom K a b) (h2 : KindsFrom K b c) : KindsFrom K a c := by
  intro p n' h
  rcases h2 p n' h with hk | ⟨p0, n, hn, he⟩
  · exact Or.inl hk
  · rcases h1 p0 n hn with hk | ⟨p1, m, hm, he'⟩
    · exact Or.inl (by rw [he]; exact hk)
    · exact Or.inr ⟨p1, m, hm, by rw [he, he']⟩

theorem NoSym.of_kindsFrom {fs fs' : FS} (h : NoSym fs) (hk : KindsFrom (· ≠ .sym) fs fs') : NoSym fs' := by
  intro p n' hp
  rcases hk p n' hp with hk | ⟨p0, n, hn, he⟩
  · exact hk
  · rw [he]; exact h p0 n hn

theorem prefix_antisymm {a b : List Str} (h1 : a <+: b) (h2 : b <+: a) : a = b :=
  List.IsPrefix.eq_of_length h1 (Nat.le_antisymm h1.length_le h2.length_le)

theorem get_def (fs : FS) (p : Path) : fs.get p = (fs.lookup p).bind fs.inode := rfl

theorem kindsFrom_modInode (K : Kind → Prop) (fs : FS) (i : Ino) (f : Inode → Inode)
    (hf : ∀ n, (f n).kind = n.kind) : KindsFrom K fs (fs.modInode i f) := by
  intro p n' h
  right
  rw [get_def, lookup_modInode] at h
  cases hl : fs.lookup p with
  | none => rw [hl] at h; cases h
  | some j =>
    rw [hl] at h
    simp only [Option.bind_some] at h
    unfold FS.modInode at h
    split at h
    · rename_i n hn
      simp only [FS.setInode] at h
      split at h
      · rename_i hji
        cases h
        exact ⟨p, n, by rw [get_def, hl]; simp [hji, hn], hf n⟩
      · exact ⟨p, n', by rw [get_def, hl]; exact h, rfl⟩
    · exact ⟨p, n', by rw [get_def, hl]; exact h, rfl⟩

theorem kindsFrom_setInode (K : Kind → Prop) (fs : FS) (i : Ino) (n m : Inode) (hi : fs.inode i = some n)
    (hk : m.kind = n.kind) (q : Path) (hq : fs.lookup q = some i) : KindsFrom K fs (fs.setInode i m) := by
  intro p n' h
  right
  rw [get_def, lookup_setInode] at h
  cases hl : fs.lookup p with
  | none => rw [hl] at h; cases h
  | some j =>
    rw [hl] at h
    simp only [Option.bind_some, FS.setInode] at h
    split at h
    · cases h
      exact ⟨q, n, by rw [get_def, hq]; exact hi, hk⟩
    · exact ⟨p, n', by rw [get_def, hl]; exact h, rfl⟩

theorem kindsFrom_touchParent (K : Kind → Prop) (fs : FS) (q : Path) : KindsFrom K fs (fs.touchParent q) := by
  unfold FS.touchParent
  split
  · exact kindsFrom_modInode K fs _ _ (fun _ => rfl)
  · exact KindsFrom.refl K fs

theorem kindsFrom_create (K : Kind → Prop) (fs : FS) (q : Path) (m : Inode) (hn : fs.lookup q = none)
    (hf : NextFresh fs) (hm : K m.kind) : KindsFrom K fs (fs.create q m) := by
  unfold FS.create
  refine KindsFrom.trans ?_ (kindsFrom_touchParent K _ q)
  intro p n' h
  rw [get_def] at h
  have hl := lookup_append_new fs q fs.next hn p
  change (({ fs with names := fs.names ++ [(q, fs.next)] } : FS).lookup p).bind _ = some n' at h
  rw [hl] at h
  split at h
  · simp at h
    left; rw [← h]; exact hm
  · cases hp : fs.lookup p with
    | none => rw [hp] at h; cases h
    | some j =>
      rw [hp] at h
      simp only [Option.bind_some] at h
      have hj : j ≠ fs.next := Nat.ne_of_lt (hf p j hp)
      simp only [hj, if_false] at h
      exact Or.inr ⟨p, n', by rw [get_def, hp]; exact h, rfl⟩

theorem kindsFrom_addName (K : Kind → Prop) (fs : FS) (q qo : Path) (i : Ino) (hn : fs.lookup q = none)
    (ho : fs.lookup qo = some i) : KindsFrom K fs (fs.addName q i) := by
  unfold FS.addName
  refine KindsFrom.trans ?_ (kindsFrom_touchParent K _ q)
  intro p n' h
  right
  rw [get_def, lookup_append_new fs q i hn p] at h
  split at h
  · exact ⟨qo, n', by rw [get_def, ho]; exact h, rfl⟩
  · exact ⟨p, n', h, rfl⟩

theorem kindsFrom_filter (K : Kind → Prop) (fs : FS) (keep : Path → Bool) :
    KindsFrom K fs ({ fs with names := fs.names.filter (fun e => keep e.1) } : FS) := by
  intro p n' h
  right
  rw [get_def, lookup_filterNames] at h
  split at h
  · exact ⟨p, n', h, rfl⟩
  · cases h

theorem kindsFrom_removeSubtree (K : Kind → Prop) (fs : FS) (q : Path) : KindsFrom K fs (fs.removeSubtree q) := by
  unfold FS.removeSubtree
  exact KindsFrom.trans (kindsFrom_filter K fs (fun p => !(under q p))) (kindsFrom_touchParent K _ q)

theorem kindsFrom_removeBelow (K : Kind → Prop) (fs : FS) (q : Path) : KindsFrom K fs (fs.removeBelow q) := by
  unfold FS.removeBelow
  split
  · exact KindsFrom.trans (kindsFrom_filter K fs (fun p => !(under q p) || p == q)) (kindsFrom_modInode K _ _ _ (fun _ => rfl))
  · exact KindsFrom.refl K fs

/-! ### the destination stays a directory -/

/-- `dp` names a directory in `fs'` whenever it does in `fs` -/
def DirKept (dp : Path) (fs fs' : FS) : Prop := fs.isDir dp = true → fs'.isDir dp = true

theorem isDir_iff (fs : FS) (p : Path) : fs.isDir p = true ↔ ∃ n, fs.get p = some n ∧ n.kind = .dir := by
  unfold FS.isDir
  cases fs.get p with
  | none => simp
  | some n => simp

theorem dirKept_modInode (dp : Path) (fs : FS) (i : Ino) (f : Inode → Inode) (hf : ∀ n, (f n).kind = n.kind) :
    DirKept dp fs (fs.modInode i f) := by
  intro h
  rw [isDir_iff] at h ⊢
  obtain ⟨n, hn, hk⟩ := h
  rw [get_def] at hn
  cases hl : fs.lookup dp with
  | none => rw [hl] at hn; cases hn
  | some j =>
    rw [hl] at hn
    simp only [Option.bind_some] at hn
    rw [get_def, lookup_modInode, hl]
    simp only [Option.bind_some]
    unfold FS.modInode
    split
    · rename_i m hm
      simp only [FS.setInode]
      split
      · rename_i hji
        subst hji
        rw [hn] at hm; cases hm
        exact ⟨f n, rfl, by rw [hf, hk]⟩
      · exact ⟨n, hn, hk⟩
    · exact ⟨n, hn, hk⟩

theorem dirKept_setInode (dp : Path) (fs : FS) (i : Ino) (n m : Inode) (hi : fs.inode i = some n) (hk : m.kind = n.kind) :
    DirKept dp fs (fs.setInode i m) := by
  intro h
  rw [isDir_iff] at h ⊢
  obtain ⟨n0, hn, hk0⟩ := h
  rw [get_def] at hn
  cases hl : fs.lookup dp with
  | none => rw [hl] at hn; cases hn
  | some j =>
    rw [hl] at hn
    simp only [Option.bind_some] at hn
    rw [get_def, lookup_setInode, hl]
    simp only [Option.bind_some, FS.setInode]
    split
    · rename_i hji
      subst hji
      rw [hi] at hn; cases hn
      exact ⟨m, rfl, by rw [hk, hk0]⟩
    · exact ⟨n0, hn, hk0⟩

theorem dirKept_touchParent (dp : Path) (fs : FS) (q : Path) : DirKept dp fs (fs.touchParent q) := by
  unfold FS.touchParent
  split
  · exact dirKept_modInode dp fs _ _ (fun _ => rfl)
  · exact fun h => h

theorem DirKept.trans {dp : Path} {a b c : FS} (h1 : DirKept dp a b) (h2 : DirKept dp b c) : DirKept dp a c :=
  fun h => h2 (h1 h)

theorem dirKept_create (dp : Path) (fs : FS) (q : Path) (m : Inode) (hn : fs.lookup q = none) (hf : NextFresh fs) :
    DirKept dp fs (fs.create q m) := by
  unfold FS.create
  refine DirKept.trans ?_ (dirKept_touchParent dp _ q)
  intro h
  rw [isDir_iff] at h ⊢
  obtain ⟨n, hg, hk⟩ := h
  rw [get_def] at hg
  cases hl : fs.lookup dp with
  | none => rw [hl] at hg; cases hg
  | some j =>
    rw [hl] at hg
    simp only [Option.bind_some] at hg
    have hne : dp ≠ q := by intro e; rw [e, hn] at hl; cases hl
    refine ⟨n, ?_, hk⟩
    rw [get_def]
    change (({ fs with names := fs.names ++ [(q, fs.next)] } : FS).lookup dp).bind _ = some n
    rw [lookup_append_new fs q fs.next hn dp, if_neg hne, hl]
    simp only [Option.bind_some]
    have hj : j ≠ fs.next := Nat.ne_of_lt (hf dp j hl)
    simp only [hj, if_false]
    exact hg

theorem dirKept_addName (dp : Path) (fs : FS) (q : Path) (i : Ino) (hn : fs.lookup q = none) :
    DirKept dp fs (fs.addName q i) := by
  unfold FS.addName
  refine DirKept.trans ?_ (dirKept_touchParent dp _ q)
  intro h
  rw [isDir_iff] at h ⊢
  obtain ⟨n, hg, hk⟩ := h
  refine ⟨n, ?_, hk⟩
  rw [get_def] at hg ⊢
  have hne : dp ≠ q := by
    intro e; rw [e, hn] at hg; cases hg
  rw [lookup_append_new fs q i hn dp, if_neg hne]
  exact hg

theorem dirKept_filter (dp : Path) (fs : FS) (keep : Path → Bool) (hk : keep dp = true) :
    DirKept dp fs ({ fs with names := fs.names.filter (fun e => keep e.1) } : FS) := by
  intro h
  rw [isDir_iff] at h ⊢
  obtain ⟨n, hg, hkd⟩ := h
  refine ⟨n, ?_, hkd⟩
  rw [get_def, lookup_filterNames, if_pos hk]
  exact hg

/-- removing something strictly beneath `dp` -/
theorem dirKept_removeSubtree (dp : Path) (fs : FS) (q : Path) (hu : under dp q = true) (hne : q ≠ dp) :
    DirKept dp fs (fs.removeSubtree q) := by
  unfold FS.removeSubtree
  refine DirKept.trans (dirKept_filter dp fs (fun p => !(under q p)) ?_) (dirKept_touchParent dp _ q)
  -- dp is not beneath q
  simp only [Bool.not_eq_true']
  cases hq : under q dp with
  | false => rfl
  | true =>
    exfalso
    simp only [under, List.isPrefixOf_iff_prefix] at hu hq
    exact hne (prefix_antisymm hq hu)

theorem dirKept_removeBelow (dp : Path) (fs : FS) (q : Path) (hu : under dp q = true) :
    DirKept dp fs (fs.removeBelow q) := by
  unfold FS.removeBelow
  split
  · refine DirKept.trans (dirKept_filter dp fs (fun p => !(under q p) || p == q) ?_) (dirKept_modInode dp _ _ _ (fun _ => rfl))
    by_cases he : dp = q
    · simp [he]
    · have : under q dp = false := by
        cases hq : under q dp with
        | false => rfl
        | true =>
          exfalso
          simp only [under, List.isPrefixOf_iff_prefix] at hu hq
          exact he (prefix_antisymm hu hq)
      simp [this]
  · exact fun h => h

/-! ### every component of every name is an ordinary name (no "", ".", "..", no "/") -/

def NameWF (fs : FS) : Prop := ∀ p i, fs.lookup p = some i → ∀ c ∈ p, Norm c

theorem NameWF.modInode {fs : FS} (h : NameWF fs) (i : Ino) (f : Inode → Inode) : NameWF (fs.modInode i f) := by
  intro p j hp; rw [lookup_modInode] at hp; exact h p j hp

theorem NameWF.setInode {fs : FS} (h : NameWF fs) (i : Ino) (n : Inode) : NameWF (fs.setInode i n) :=
  fun p j hp => h p j hp

theorem NameWF.touchParent {fs : FS} (h : NameWF fs) (q : Path) : NameWF (fs.touchParent q) := by
  unfold FS.touchParent; split
  · exact h.modInode _ _
  · exact h

theorem NameWF.create {fs : FS} (h : NameWF fs) (q : Path) (n : Inode) (hn : fs.lookup q = none)
    (hq : ∀ c ∈ q, Norm c) : NameWF (fs.create q n) := by
  unfold FS.create
  apply NameWF.touchParent
  intro p j hp
  have hp' : ({ fs with names := fs.names ++ [(q, fs.next)] } : FS).lookup p = some j := hp
  rw [lookup_append_new fs q fs.next hn p] at hp'
  split at hp'
  · rename_i e; rw [e]; exact hq
  · exact h p j hp'

theorem NameWF.addName {fs : FS} (h : NameWF fs) (q : Path) (i : Ino) (hn : fs.lookup q = none)
    (hq : ∀ c ∈ q, Norm c) : NameWF (fs.addName q i) := by
  unfold FS.addName
  apply NameWF.touchParent
  intro p j hp
  rw [lookup_append_new fs q i hn p] at hp
  split at hp
  · rename_i e; rw [e]; exact hq
  · exact h p j hp

theorem NameWF.filter {fs : FS} (h : NameWF fs) (keep : Path → Bool) :
    NameWF ({ fs with names := fs.names.filter (fun e => keep e.1) } : FS) := by
  intro p j hp
  rw [lookup_filterNames] at hp
  split at hp
  · exact h p j hp
  · cases hp

theorem NameWF.removeSubtree {fs : FS} (h : NameWF fs) (q : Path) : NameWF (fs.removeSubtree q) := by
  unfold FS.removeSubtree
  exact (h.filter (fun p => !(under q p))).touchParent q

theorem NameWF.removeBelow {fs : FS} (h : NameWF fs) (q : Path) : NameWF (fs.removeBelow q) := by
  unfold FS.removeBelow; split
  · exact (h.filter (fun p => !(under q p) || p == q)).modInode _ _
  · exact h

theorem pathComps_norm (s : Str) (hdd : dotdot ∉ pathComps s) : ∀ c ∈ pathComps s, Norm c := by
  intro c hc
  have hc' := hc
  unfold pathComps at hc
  simp only [List.mem_filter, decide_eq_true_eq] at hc
  exact ⟨hc.2.1, hc.2.2, fun e => hdd (by rw [← e]; exact hc'), splitSlash_elems_noSlash s c hc.1⟩

/-! ### the name space is a tree: every name has an inode, and its parent is a directory -/

structure TreeWF (fs : FS) : Prop where
  has_inode : ∀ p i, fs.lookup p = some i → (fs.inode i).isSome = true
  parent_dir : ∀ p i, fs.lookup p = some i → p ≠ [] → fs.isDir p.dropLast = true

theorem inode_isSome_modInode (fs : FS) (i j : Ino) (f : Inode → Inode) (h : (fs.inode j).isSome = true) :
    ((fs.modInode i f).inode j).isSome = true := by
  unfold FS.modInode
  split
  · simp only [FS.setInode]
    split
    · rfl
    · exact h
  · exact h

theorem TreeWF.modInode {fs : FS} (h : TreeWF fs) (i : Ino) (f : Inode → Inode) (hf : ∀ n, (f n).kind = n.kind) :
    TreeWF (fs.modInode i f) :=
  ⟨fun p j hp => by rw [lookup_modInode] at hp; exact inode_isSome_modInode fs i j f (h.has_inode p j hp),
   fun p j hp hne => by rw [lookup_modInode] at hp; exact dirKept_modInode _ fs i f hf (h.parent_dir p j hp hne)⟩

theorem TreeWF.setInode {fs : FS} (h : TreeWF fs) (i : Ino) (n m : Inode) (hi : fs.inode i = some n) (hk : m.kind = n.kind) :
    TreeWF (fs.setInode i m) :=
  ⟨fun p j hp => by
      have := h.has_inode p j hp
      simp only [FS.setInode]
      split
      · rfl
      · exact this,
   fun p j hp hne => dirKept_setInode _ fs i n m hi hk (h.parent_dir p j hp hne)⟩

theorem TreeWF.touchParent {fs : FS} (h : TreeWF fs) (q : Path) : TreeWF (fs.touchParent q) := by
  unfold FS.touchParent
  split
  · exact h.modInode _ _ (fun _ => rfl)
  · exact h

theorem TreeWF.create {fs : FS} (h : TreeWF fs) (q : Path) (n : Inode) (hn : fs.lookup q = none) (hf : NextFresh fs)
    (hpd : fs.isDir q.dropLast = true) : TreeWF (fs.create q n) := by
  have hdk : ∀ d, fs.isDir d = true → (fs.create q n).isDir d = true := fun d hd => dirKept_create d fs q n hn hf hd
  unfold FS.create at hdk ⊢
  apply TreeWF.touchParent
  constructor
  · intro p j hp
    have hp' : ({ fs with names := fs.names ++ [(q, fs.next)] } : FS).lookup p = some j := hp
    rw [lookup_append_new fs q fs.next hn p] at hp'
    split at hp'
    · cases hp'; simp
    · have := h.has_inode p j hp'
      have hj : j ≠ fs.next := Nat.ne_of_lt (hf p j hp')
      simp only [hj, if_false]
      exact this
  · intro p j hp hne
    have hp' : ({ fs with names := fs.names ++ [(q, fs.next)] } : FS).lookup p = some j := hp
    rw [lookup_append_new fs q fs.next hn p] at hp'
    -- isDir of the parent in the un-touched structure
    have key : ∀ d, fs.isDir d = true →
        ({ names := fs.names ++ [(q, fs.next)], inode := fun j => if j = fs.next then some n else fs.inode j,
           next := fs.next + 1 } : FS).isDir d = true := by
      intro d hd
      rw [isDir_iff] at hd ⊢
      obtain ⟨m, hg, hk⟩ := hd
      rw [get_def] at hg
      cases hl : fs.lookup d with
      | none => rw [hl] at hg; cases hg
      | some k =>
        rw [hl] at hg
        simp only [Option.bind_some] at hg
        have hne' : d ≠ q := by intro e; rw [e, hn] at hl; cases hl
        refine ⟨m, ?_, hk⟩
        rw [get_def]
        change (({ fs with names := fs.names ++ [(q, fs.next)] } : FS).lookup d).bind _ = some m
        rw [lookup_append_new fs q fs.next hn d, if_neg hne', hl]
        simp only [Option.bind_some]
        have hk' : k ≠ fs.next := Nat.ne_of_lt (hf d k hl)
        simp only [hk', if_false]
        exact hg
    split at hp'
    · rename_i e; rw [e]; exact key _ hpd
    · exact key _ (h.parent_dir p j hp' hne)

theorem TreeWF.addName {fs : FS} (h : TreeWF fs) (q qo : Path) (i : Ino) (hn : fs.lookup q = none)
    (ho : fs.lookup qo = some i) (hpd : fs.isDir q.dropLast = true) : TreeWF (fs.addName q i) := by
  unfold FS.addName
  apply TreeWF.touchParent
  have key : ∀ d, fs.isDir d = true → ({ fs with names := fs.names ++ [(q, i)] } : FS).isDir d = true := by
    intro d hd
    rw [isDir_iff] at hd ⊢
    obtain ⟨m, hg, hk⟩ := hd
    refine ⟨m, ?_, hk⟩
    rw [get_def] at hg ⊢
    have hne' : d ≠ q := by intro e; rw [e, hn] at hg; cases hg
    rw [lookup_append_new fs q i hn d, if_neg hne']
    exact hg
  constructor
  · intro p j hp
    rw [lookup_append_new fs q i hn p] at hp
    split at hp
    · cases hp; exact h.has_inode qo _ ho
    · exact h.has_inode p j hp
  · intro p j hp hne
    rw [lookup_append_new fs q i hn p] at hp
    split at hp
    · rename_i e; rw [e]; exact key _ hpd
    · exact key _ (h.parent_dir p j hp hne)

theorem under_dropLast_of_under {q p : Path} (h : under q p.dropLast = true) : under q p = true := by
  simp only [under, List.isPrefixOf_iff_prefix] at h ⊢
  exact h.trans (List.dropLast_prefix p)

theorem TreeWF.filter {fs : FS} (h : TreeWF fs) (keep : Path → Bool)
    (hk : ∀ p, keep p = true → p ≠ [] → keep p.dropLast = true) :
    TreeWF ({ fs with names := fs.names.filter (fun e => keep e.1) } : FS) := by
  constructor
  · intro p j hp
    rw [lookup_filterNames] at hp
    split at hp
    · exact h.has_inode p j hp
    · cases hp
  · intro p j hp hne
    rw [lookup_filterNames] at hp
    split at hp
    · rename_i hkp
      exact dirKept_filter _ fs keep (hk p hkp hne) (h.parent_dir p j hp hne)
    · cases hp

theorem TreeWF.removeSubtree {fs : FS} (h : TreeWF fs) (q : Path) : TreeWF (fs.removeSubtree q) := by
  unfold FS.removeSubtree
  refine (h.filter (fun p => !(under q p)) ?_).touchParent q
  intro p hp _
  simp only [Bool.not_eq_true'] at hp ⊢
  cases hu : under q p.dropLast with
  | false => rfl
  | true => rw [under_dropLast_of_under hu] at hp; cases hp

theorem TreeWF.removeBelow {fs : FS} (h : TreeWF fs) (q : Path) : TreeWF (fs.removeBelow q) := by
  unfold FS.removeBelow
  split
  · refine (h.filter (fun p => !(under q p) || p == q) ?_).modInode _ _ (fun _ => rfl)
    intro p hp hne
    simp only [Bool.or_eq_true, Bool.not_eq_true', beq_iff_eq] at hp ⊢
    rcases hp with hp | hp
    · left
      cases hu : under q p.dropLast with
      | false => rfl
      | true => rw [under_dropLast_of_under hu] at hp; cases hp
    · -- p = q: its parent is not beneath q
      subst hp
      left
      cases hu : under p p.dropLast with
      | false => rfl
      | true =>
        exfalso
        simp only [under, List.isPrefixOf_iff_prefix] at hu
        have := hu.length_le
        cases p with
        | nil => exact hne rfl
        | cons a as => simp at this; omega
  · exact h

/-- in a tree, nothing exists beneath a missing name -/
theorem TreeWF.absent_below {fs : FS} (h : TreeWF fs) (pre : Path) (hp : fs.lookup pre = none) :
    ∀ (n : Nat) (ext : Path), ext.length = n → fs.lookup (pre ++ ext) = none := by
  intro n
  induction n with
  | zero =>
    intro ext he
    have : ext = [] := List.length_eq_zero_iff.mp he
    subst this; simpa using hp
  | succ n ih =>
    intro ext he
    rcases List.eq_nil_or_concat ext with h0 | ⟨ini, c, hc⟩
    · subst h0; simp at he
    · have hc' : ext = ini ++ [c] := by simpa using hc
      subst hc'
      have hlen : ini.length = n := by simp at he; exact he
      cases hl : fs.lookup (pre ++ (ini ++ [c])) with
      | none => rfl
      | some i =>
        exfalso
        have hne : pre ++ (ini ++ [c]) ≠ [] := by simp
        have hd := h.parent_dir _ i hl hne
        have hdl : (pre ++ (ini ++ [c])).dropLast = pre ++ ini := by
          rw [← List.append_assoc, List.dropLast_concat]
        rw [hdl, isDir_iff] at hd
        obtain ⟨m, hg, _⟩ := hd
        rw [get_def, ih ini hlen] at hg
        cases hg


/-! ### a directory has exactly one name
  (link(2) refuses directories; the invariant lets a statement about "the directory at p" speak about its inode) -/

def DirOne (fs : FS) : Prop :=
  ∀ p q i n, fs.lookup p = some i → fs.lookup q = some i → fs.inode i = some n → n.kind = .dir → p = q

/-- fewer (or the same) names, and every inode keeps its kind -/
theorem DirOne.of_sub {fs fs' : FS} (h : DirOne fs) (hl : ∀ p i, fs'.lookup p = some i → fs.lookup p = some i)
    (hk : ∀ i n', fs'.inode i = some n' → ∃ n, fs.inode i = some n ∧ n.kind = n'.kind) : DirOne fs' := by
  intro p q i n' hp hq hi hd
  obtain ⟨n, hn, hkk⟩ := hk i n' hi
  exact h p q i n (hl p i hp) (hl q i hq) hn (by rw [hkk]; exact hd)

theorem DirOne.setInode {fs : FS} (h : DirOne fs) (i : Ino) (n m : Inode) (hi : fs.inode i = some n) (hk : m.kind = n.kind) :
    DirOne (fs.setInode i m) := by
  refine h.of_sub (fun _ _ hp => hp) ?_
  intro j n' hj
  simp only [FS.setInode] at hj
  split at hj
  · rename_i e; subst e; cases hj; exact ⟨n, hi, hk.symm⟩
  · exact ⟨n', hj, rfl⟩

theorem DirOne.modInode {fs : FS} (h : DirOne fs) (i : Ino) (f : Inode → Inode) (hf : ∀ n, (f n).kind = n.kind) :
    DirOne (fs.modInode i f) := by
  unfold FS.modInode
  split
  · rename_i n hn; exact h.setInode i n (f n) hn (hf n)
  · exact h

theorem DirOne.touchParent {fs : FS} (h : DirOne fs) (q : Path) : DirOne (fs.touchParent q) := by
  unfold FS.touchParent
  split
  · exact h.modInode _ _ (fun _ => rfl)
  · exact h

theorem DirOne.filter {fs : FS} (h : DirOne fs) (keep : Path → Bool) :
    DirOne ({ fs with names := fs.names.filter (fun e => keep e.1) } : FS) := by
  refine h.of_sub ?_ (fun i n' hi => ⟨n', hi, rfl⟩)
  intro p i hp
  rw [lookup_filterNames] at hp
  split at hp
  · exact hp
  · cases hp

theorem DirOne.removeSubtree {fs : FS} (h : DirOne fs) (q : Path) : DirOne (fs.removeSubtree q) := by
  unfold FS.removeSubtree
  exact (h.filter (fun x => !(under q x))).touchParent q

theorem DirOne.removeBelow {fs : FS} (h : DirOne fs) (q : Path) : DirOne (fs.removeBelow q) := by
  unfold FS.removeBelow
  split
  · exact (h.filter (fun x => !(under q x) || x == q)).modInode _ _ (fun _ => rfl)
  · exact h

theorem DirOne.create {fs : FS} (h : DirOne fs) (q : Path) (n : Inode) (hn : fs.lookup q = none) (hf : NextFresh fs) :
    DirOne (fs.create q n) := by
  unfold FS.create
  simp only
  apply DirOne.touchParent
  intro p p' i m hp hp' hi hd
  replace hp : (if p = q then some fs.next else fs.lookup p) = some i := by
    rw [← lookup_append_new fs q fs.next hn p]; exact hp
  replace hp' : (if p' = q then some fs.next else fs.lookup p') = some i := by
    rw [← lookup_append_new fs q fs.next hn p']; exact hp'
  by_cases e1 : p = q
  · by_cases e2 : p' = q
    · rw [e1, e2]
    · exfalso
      rw [if_pos e1] at hp; rw [if_neg e2] at hp'
      cases hp
      exact absurd (hf p' _ hp') (Nat.lt_irrefl _)
  · by_cases e2 : p' = q
    · exfalso
      rw [if_neg e1] at hp; rw [if_pos e2] at hp'
      cases hp'
      exact absurd (hf p _ hp) (Nat.lt_irrefl _)
    · rw [if_neg e1] at hp; rw [if_neg e2] at hp'
      have hne : i ≠ fs.next := Nat.ne_of_lt (hf p i hp)
      simp only [hne, if_false] at hi
      exact h p p' i m hp hp' hi hd

theorem DirOne.addName {fs : FS} (h : DirOne fs) (q : Path) (i : Ino) (hn : fs.lookup q = none)
    (hnd : ∀ n, fs.inode i = some n → n.kind ≠ .dir) : DirOne (fs.addName q i) := by
  unfold FS.addName
  apply DirOne.touchParent
  intro p p' j m hp hp' hj hd
  have hl : ∀ r, ({ fs with names := fs.names ++ [(q, i)] } : FS).lookup r = if r = q then some i else fs.lookup r :=
    fun r => lookup_append_new fs q i hn r
  rw [hl] at hp hp'
  have hji : j ≠ i := fun e => hnd m (e ▸ hj) hd
  by_cases e1 : p = q
  · rw [if_pos e1] at hp; cases hp; exact absurd rfl hji
  · by_cases e2 : p' = q
    · rw [if_pos e2] at hp'; cases hp'; exact absurd rfl hji
    · rw [if_neg e1] at hp; rw [if_neg e2] at hp'
      exact h p p' j m hp hp' hj hd

end GA
