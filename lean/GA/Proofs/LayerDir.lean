import GA.Proofs.LayerReg
import GA.Proofs.UnpackDir
/-
  Directory entries in whole layers: what one directory iteration of `UnpackLayer` leaves behind, and what the
  fold adds to the deferred directory list.
-/
namespace GA

/-- **one directory iteration of a layer**: if the loop goes on after a directory entry whose name is not
    reserved, not a whiteout and not the destination itself, the entry's path names a directory with the
    entry's mode and owner (and time, for now), and the entry — under its cleaned name — is the newest element
    of the deferred list -/
theorem iterL_dir_post (dp : Path) (dest : Str) (o : Opts) (hd : CleanAbs dest) (hdp : pathComps dest = dp)
    (e : Entry) (st : LState) (w : World) (hw : LW dp w) (hdir : e.typ = .dir)
    (hmeta : hasPrefix (clean e.name) whMetaPrefix = false)
    (hnwh : hasPrefix (base (join dest (clean e.name))) whPrefix = false)
    (hne : pathComps (join dest (clean e.name)) ≠ dp)
    (st' : LState) (w' : World) (hrun : (layerIterP dest o e st).run w = (.ok st', w')) :
    dp <+: pathComps (join dest (clean e.name)) ∧
    LW dp w' ∧ st'.dirs = { e with name := clean e.name } :: st.dirs ∧ ∃ e' i n, remapE o e = some e' ∧
      w'.fs.lookup (pathComps (join dest (clean e.name))) = some i ∧
      w'.fs.inode i = some n ∧ DirFinal e' o n := by
  simp only [layerIterP, hdir, stageP, hmeta, Bool.false_and, show (Typ.dir == Typ.xglobal) = false from rfl,
    Bool.false_eq_true, if_false] at hrun
  rw [Prog.bind_eq, Prog.run_bind] at hrun
  simp only [Prog.run, pure] at hrun
  cases hg : guardName dest (clean e.name) with
  | error out => rw [hg] at hrun; simp only [Prog.run, pure] at hrun; cases hrun
  | ok p =>
    rw [hg] at hrun
    simp only at hrun
    obtain ⟨hpe, hpc, hpin⟩ := guardName_ok dest (clean e.name) p hd hg
    rw [hdp] at hpin
    have hp : LexArg dp p := lexArg_of hpc hpin
    have hin' : dp <+: pathComps (join dest (clean e.name)) := by rw [← hpe]; exact hpin
    have hpne : pathComps p ≠ dp := by rw [hpe]; exact hne
    rw [← hpe]
    rw [← hpe] at hnwh
    rw [Prog.bind_eq, Prog.run_bind] at hrun
    have hI := LexSem.run dp _ _ w (lex_impliedDirs dp dest e.name o hd hdp hin') hw
    generalize hi1 : (impliedDirsP dest (clean e.name) o).run w = r1 at hrun hI
    obtain ⟨i1, w1⟩ := r1
    simp only at hrun hI
    have hw1 : LW dp w1 := hI.2.1
    by_cases hie : isErr i1 = true
    · simp only [hie, if_true, Prog.run, pure] at hrun; cases hrun
    · simp only [hie, Bool.false_eq_true, if_false, hnwh] at hrun
      rw [run_sys_bind, lstat_world] at hrun
      generalize hL : (step w1 (Sys.lstat p)).1 = L at hrun
      simp only [show (Typ.dir != Typ.dir) = false from rfl, Bool.and_false, Bool.false_eq_true, if_false] at hrun
      rw [Prog.bind_eq, Prog.run_bind] at hrun
      have hmid : ∃ rm w2, (if needRmL L e = true then sys (Sys.removeAll p) else Prog.ret Res.ok).run w1 = (rm, w2) ∧
          LW dp w2 := by
        by_cases ha3 : needRmL L e = true
        · simp only [ha3, if_true]
          exact ⟨_, _, rfl, (step_good dp w1 (.removeAll p) hw1 (good_lex (s := .removeAll p) ⟨hp, hpne⟩)).2⟩
        · simp only [ha3, Bool.false_eq_true, if_false]
          exact ⟨.ok, w1, rfl, hw1⟩
      obtain ⟨rm, w2, hrm, hw2⟩ := hmid
      rw [hrm] at hrun
      simp only at hrun
      by_cases hre : isErr rm = true
      · simp only [hre, if_true, Prog.run, pure] at hrun; cases hrun
      · simp only [hre, Bool.false_eq_true, if_false] at hrun
        simp only [layerTailP, resolveSrcP, hdir, show (Typ.dir == Typ.link) = false from rfl, Bool.false_and,
          Bool.false_eq_true, if_false] at hrun
        rw [Prog.bind_eq, Prog.run_bind] at hrun
        simp only [Prog.run, pure] at hrun
        cases hrem : remapE o e with
        | none => rw [hrem] at hrun; simp only [Prog.run, pure] at hrun; cases hrun
        | some e' =>
          rw [hrem] at hrun
          simp only at hrun
          have hty : e'.typ = .dir := by rw [remapE_typ o e e' hrem]; exact hdir
          rw [Prog.bind_eq, Prog.run_bind] at hrun
          have hdd : (Typ.dir == Typ.dir) = true := rfl
          simp only [hdd, if_true] at hrun
          by_cases hout : ((createTarFileP p dest e' o).run w2).1 = .ok
          · simp only [hout, show (Out.ok != Out.ok) = false from rfl, Bool.false_eq_true, if_false, Prog.run, pure] at hrun
            injection hrun with h1 h2
            injection h1 with h1
            subst h2
            obtain ⟨hw3, i, n, hl, hi, hfin⟩ := createTarFile_dir_any dp p dest e' o hp hty w2 hw2 hout
            exact ⟨hpin, hw3, by subst h1; simp [hdir], e', i, n, rfl, hl, hi, hfin⟩
          · exfalso
            cases hout' : ((createTarFileP p dest e' o).run w2).1 with
            | ok => exact hout hout'
            | err => simp only [hout', show (Out.err != Out.ok) = true from rfl, if_true, Prog.run, pure] at hrun; cases hrun
            | breakout => simp only [hout', show (Out.breakout != Out.ok) = true from rfl, if_true, Prog.run, pure] at hrun; cases hrun

/-! ### what the fold adds to the deferred list -/

theorem iterL_dirs_shape (dest : Str) (o : Opts) (e : Entry) (st0 : LState) :
    (layerIterP dest o e st0).All (fun r => ∀ st', r = .ok st' →
      st'.dirs = st0.dirs ∨ ∃ x, st'.dirs = x :: st0.dirs ∧ x.name = clean e.name ∧ x.mtime = e.mtime) := by
  have hsame : ∀ st : LState, st.dirs = st0.dirs → ∀ st', (Except.ok st : Except (Out × LState) LState) = .ok st' →
      st'.dirs = st0.dirs ∨ ∃ x, st'.dirs = x :: st0.dirs ∧ x.name = clean e.name ∧ x.mtime = e.mtime := by
    intro st h st' h'; cases h'; exact Or.inl h
  have herr : ∀ (x : Out × LState) st', (Except.error x : Except (Out × LState) LState) = .ok st' →
      st'.dirs = st0.dirs ∨ ∃ x, st'.dirs = x :: st0.dirs ∧ x.name = clean e.name ∧ x.mtime = e.mtime := by
    intro _ st' h; cases h
  simp only [layerIterP, layerTailP]
  split
  · exact hsame _ rfl
  refine allB _ _ (P := fun (r : Except Out LState) => ∀ st, r = .ok st → st.dirs = st0.dirs) ?_ ?_
  · -- staging keeps the list
    unfold stageP
    split
    · refine allB _ _ (Prog.All.trivial _) ?_
      intro mk _
      split
      · refine allB _ _ (Prog.All.trivial _) ?_
        intro out _
        split
        · split
          · refine allB _ _ (Prog.All.trivial _) ?_
            intro _ _ st h; cases h
          · intro st h; cases h
        · intro st h; cases h; rfl
      · intro st h; cases h
    · intro st h; cases h; rfl
  · intro stR hstR
    cases stR with
    | error out => exact herr _
    | ok st =>
      have hst : st.dirs = st0.dirs := hstR st rfl
      simp only
      repeat' first
        | exact hsame _ hst
        | exact herr _
        | (refine allB _ _ (Prog.All.trivial _) ?_; intro _ _)
        | exact (fun st' hst' => by
            cases hst'; refine Or.inr ⟨{ e with name := clean e.name }, ?_, rfl, rfl⟩
            show _ :: st.dirs = _ :: st0.dirs
            rw [hst])
        | exact (fun st' hst' => by cases hst'; exact Or.inl hst)
        | split

/-- the deferred list after the fold: the old list with, in front of it, entries named and timed like entries
    of the layer -/
theorem layerRun_dirs_shape (dest : Str) (o : Opts) : ∀ (es : List Entry) (st : LState) (w : World) (st' : LState)
    (w' : World), layerRun dest o es st w = (.ok st', w') →
    ∃ news, st'.dirs = news ++ st.dirs ∧ ∀ x ∈ news, ∃ e ∈ es, x.name = clean e.name
  | [], st, w, st', w', h => by
    simp only [layerRun] at h
    injection h with h1 _
    injection h1 with h1
    exact ⟨[], by simp [h1], by simp⟩
  | e :: es, st, w, st', w', h => by
    simp only [layerRun] at h
    have ha := Prog.All.run _ w (iterL_dirs_shape dest o e st)
    cases hr : (layerIterP dest o e st).run w with
    | mk r w1 =>
      rw [hr] at h ha
      cases r with
      | error x => simp only at h; cases h
      | ok s1 =>
        simp only at h
        obtain ⟨news, hn, hall⟩ := layerRun_dirs_shape dest o es s1 w1 st' w' h
        rcases ha s1 rfl with h1 | ⟨x, h1, hx, _⟩
        · exact ⟨news, by rw [hn, h1], fun y hy => by
            obtain ⟨e', he', hy'⟩ := hall y hy; exact ⟨e', by simp [he'], hy'⟩⟩
        · refine ⟨news ++ [x], by rw [hn, h1]; simp, ?_⟩
          intro y hy
          rcases List.mem_append.mp hy with hy | hy
          · obtain ⟨e', he', hy'⟩ := hall y hy; exact ⟨e', by simp [he'], hy'⟩
          · simp only [List.mem_singleton] at hy; subst hy; exact ⟨e, by simp, hx⟩


/-- an iteration never forgets a path it has unpacked -/
theorem iterL_unpacked_mono (dest : Str) (o : Opts) (e : Entry) (st0 : LState) :
    (layerIterP dest o e st0).All (fun r => ∀ st', r = .ok st' → ∀ s ∈ st0.unpacked, s ∈ st'.unpacked) := by
  have hsame : ∀ st : LState, st.unpacked = st0.unpacked → ∀ st', (Except.ok st : Except (Out × LState) LState) = .ok st' →
      ∀ s ∈ st0.unpacked, s ∈ st'.unpacked := by
    intro st h st' h' s hs; cases h'; rw [h]; exact hs
  have herr : ∀ (x : Out × LState) st', (Except.error x : Except (Out × LState) LState) = .ok st' →
      ∀ s ∈ st0.unpacked, s ∈ st'.unpacked := by
    intro _ st' h; cases h
  simp only [layerIterP, layerTailP]
  split
  · exact hsame _ rfl
  refine allB _ _ (P := fun (r : Except Out LState) => ∀ st, r = .ok st → st.unpacked = st0.unpacked) ?_ ?_
  · unfold stageP
    split
    · refine allB _ _ (Prog.All.trivial _) ?_
      intro mk _
      split
      · refine allB _ _ (Prog.All.trivial _) ?_
        intro out _
        split
        · split
          · refine allB _ _ (Prog.All.trivial _) ?_
            intro _ _ st h; cases h
          · intro st h; cases h
        · intro st h; cases h; rfl
      · intro st h; cases h
    · intro st h; cases h; rfl
  · intro stR hstR
    cases stR with
    | error out => exact herr _
    | ok st =>
      have hst : st.unpacked = st0.unpacked := hstR st rfl
      simp only
      repeat' first
        | exact hsame _ hst
        | exact herr _
        | (refine allB _ _ (Prog.All.trivial _) ?_; intro _ _)
        | exact (fun st' hst' s hs => by
            cases hst'
            show s ∈ _ :: st.unpacked
            rw [hst]; exact List.mem_cons_of_mem _ hs)
        | split

theorem layerRun_unpacked_mono (dest : Str) (o : Opts) : ∀ (es : List Entry) (st : LState) (w : World) (st' : LState)
    (w' : World), layerRun dest o es st w = (.ok st', w') → ∀ s ∈ st.unpacked, s ∈ st'.unpacked
  | [], st, w, st', w', h => by
    simp only [layerRun] at h
    injection h with h1 _
    injection h1 with h1
    subst h1
    exact fun s hs => hs
  | e :: es, st, w, st', w', h => by
    simp only [layerRun] at h
    have ha := Prog.All.run _ w (iterL_unpacked_mono dest o e st)
    cases hr : (layerIterP dest o e st).run w with
    | mk r w1 =>
      rw [hr] at h ha
      cases r with
      | error x => simp only at h; cases h
      | ok s1 =>
        simp only at h
        intro s hs
        exact layerRun_unpacked_mono dest o es s1 w1 st' w' h s (ha s1 rfl s hs)

end GA
