import GA.Proofs.UnpackIter
/-
  One iteration of the loop of `UnpackLayer` as a program of its own: `.error (out, st)` = the loop ends now
  with `layerFinish dest st out`; `.ok st'` = it goes on with the next entry in state `st'`.
-/
namespace GA

/-- does the object found at the entry's path have to go first?  (anything but a directory under a directory entry) -/
def needRmL (l : Res) (e : Entry) : Bool :=
  match l with
  | .stat s => !(s.kind == .dir) || e.typ != .dir
  | _ => false

/-- the end of an iteration for an ordinary entry: resolve a staged hard-link source, translate the owner, create -/
def layerTailP (dest : Str) (o : Opts) (e : Entry) (st : LState) (p : Str) : Prog (Except (Out × LState) LState) := do
  let srcR ← resolveSrcP st e
  match srcR with
  | .error out => return .error (out, st)
  | .ok src =>
    match remapE o src with
    | none => return .error (.err, st)
    | some src' =>
      let out ← createTarFileP p dest src' o
      if out != .ok then return .error (out, st)
      else
        let st' : LState := { st with dirs := (if e.typ == .dir then { e with name := clean e.name } :: st.dirs else st.dirs),
                                      unpacked := p :: st.unpacked }
        return .ok st'

def layerIterP (dest : Str) (o : Opts) (e : Entry) (st0 : LState) : Prog (Except (Out × LState) LState) := do
    let st := { st0 with size := st0.size + e.size }
    if e.typ == .xglobal then return .ok st
    else
    let n := clean e.name
    let stR ← stageP dest o e st n
    match stR with
    | .error out => return .error (out, st)
    | .ok st =>
    if hasPrefix n whMetaPrefix && n ≠ whOpaqueDir then return .ok st
    else match guardName dest n with
    | .error out => return .error (out, st)
    | .ok p =>
      let i ← impliedDirsP dest n o
      if isErr i then return .error (.err, st)
      else
      let b := base p
      if hasPrefix b whPrefix then
        let dr := dir p
        if !isWithin dest dr then return .error (.breakout, st)
        else if b = whOpaqueDir then do
          let l ← sys (.lstat dr)
          if isErr l then return .error (.err, st)
          else
            let t ← sys (.listTree dr)
            match t with
            | .tree items =>
              let w ← opaqueWalkP dr st.unpacked items none
              if isErr w then return .error (.err, st) else return .ok st
            | .err .ENOENT => return .ok st
            | _ => return .error (.err, st)
        else do
          let orig := join dr (b.drop whPrefix.length)
          if !isWithin dest orig then return .error (.breakout, st)
          else if orig = clean dest then return .error (.err, st)
          else
            let r ← whiteoutRemoveP orig
            match r with
            | none => return .error (.err, st)
            | some r => if isErr r then return .error (.err, st) else return .ok st
      else do
        let l ← sys (.lstat p)
        if needRmL l e && p = clean dest && e.typ != .dir then return .error (.err, st)
        else
        let rm ← (if needRmL l e then sys (.removeAll p) else pure .ok)
        if isErr rm then return .error (.err, st)
        else layerTailP dest o e st p

def layerK (dest : Str) (o : Opts) (es : List Entry) : Except (Out × LState) LState → Prog (Out × Nat)
  | .error (out, st) => layerFinish dest st out
  | .ok st => layerLoop dest o es st

theorem layerLoop_cons (dest : Str) (o : Opts) (e : Entry) (es : List Entry) (st0 : LState) :
    layerLoop dest o (e :: es) st0 = (layerIterP dest o e st0).bind (layerK dest o es) := by
  rw [layerLoop]
  unfold layerIterP layerTailP needRmL
  simp only [Prog.bind_eq]
  simp only [Prog.pure_eq]
  by_cases hx : (e.typ == Typ.xglobal) = true
  · rw [if_pos hx, if_pos hx]; rfl
  · rw [if_neg hx, if_neg hx, Prog.bind_assoc]
    congr 1; funext stR
    cases stR with
    | error out => rfl
    | ok st =>
      dsimp only
      by_cases hA : (hasPrefix (clean e.name) whMetaPrefix && decide (clean e.name ≠ whOpaqueDir)) = true
      · rw [if_pos hA, if_pos hA]; rfl
      · rw [if_neg hA, if_neg hA]
        cases hg : guardName dest (clean e.name) with
        | error out => rfl
        | ok p =>
          dsimp only
          rw [Prog.bind_assoc]
          congr 1; funext i
          by_cases hB : isErr i = true
          · rw [if_pos hB, if_pos hB]; rfl
          · rw [if_neg hB, if_neg hB]
            by_cases hC : hasPrefix (base p) whPrefix = true
            · rw [if_pos hC, if_pos hC]
              split
              · rfl
              · split
                · simp only [Prog.bind_assoc]
                  congr 1; funext l
                  split
                  · rfl
                  · simp only [Prog.bind_assoc]
                    congr 1; funext t
                    cases t with
                    | tree items =>
                      simp only [Prog.bind_assoc]
                      congr 1; funext w
                      split <;> rfl
                    | err en => cases en <;> rfl
                    | _ => rfl
                · split
                  · rfl
                  · split
                    · rfl
                    · simp only [Prog.bind_assoc]
                      congr 1; funext r
                      cases r with
                      | none => rfl
                      | some rr =>
                        dsimp only
                        split <;> rfl
            · rw [if_neg hC, if_neg hC]
              simp only [Prog.bind_assoc]
              congr 1; funext l
              cases l
              all_goals
                dsimp only
                split
                · rfl
                · simp only [Prog.bind_assoc]
                  congr 1; funext rm
                  split
                  · rfl
                  · simp only [Prog.bind_assoc]
                    congr 1; funext srcR
                    cases srcR with
                    | error out => rfl
                    | ok src =>
                      simp only
                      cases hr : remapE o src with
                      | none => rfl
                      | some src' =>
                        simp only [Prog.bind_assoc]
                        congr 1; funext out
                        split <;> rfl


/-- the loop of `UnpackLayer` as a fold of iterations over worlds -/
def layerRun (dest : Str) (o : Opts) : List Entry → LState → World → Except (Out × LState) LState × World
  | [], st, w => (.ok st, w)
  | e :: es, st, w =>
    match (layerIterP dest o e st).run w with
    | (.error x, w') => (.error x, w')
    | (.ok st', w') => layerRun dest o es st' w'

/-- `UnpackLayer` = the fold of its iterations; then the deferred directory times and the clean-up of the
    staging directory — or, when an iteration stopped the loop, the clean-up alone -/
theorem layerLoop_run (dest : Str) (o : Opts) : ∀ (es : List Entry) (st : LState) (w : World),
    (layerLoop dest o es st).run w =
      match layerRun dest o es st w with
      | (.error (out, st'), w') => (layerFinish dest st' out).run w'
      | (.ok st', w') => (layerLoop dest o [] st').run w'
  | [], st, w => by simp only [layerRun]
  | e :: es, st, w => by
    rw [layerLoop_cons, Prog.run_bind]
    simp only [layerRun]
    cases h : (layerIterP dest o e st).run w with
    | mk r w' =>
      cases r with
      | error x => obtain ⟨out, st'⟩ := x; simp only [layerK]
      | ok st' => simp only [layerK]; exact layerLoop_run dest o es st' w'

theorem layerRun_append (dest : Str) (o : Opts) : ∀ (pre rest : List Entry) (st : LState) (w : World),
    layerRun dest o (pre ++ rest) st w =
      match layerRun dest o pre st w with
      | (.error x, w') => (.error x, w')
      | (.ok st', w') => layerRun dest o rest st' w'
  | [], rest, st, w => by simp only [List.nil_append, layerRun]
  | e :: pre, rest, st, w => by
    simp only [List.cons_append, layerRun]
    cases h : (layerIterP dest o e st).run w with
    | mk r w' =>
      cases r with
      | error x => rfl
      | ok st' => simp only; exact layerRun_append dest o pre rest st' w'

end GA
