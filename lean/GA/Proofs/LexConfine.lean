import GA.Proofs.LexStep
/-
  Every system call whose path arguments lie lexically beneath the destination is confined to the
  destination, in a world without symbolic links (thread root "/").
-/
namespace GA

/-- a path string whose components (".", "" dropped) start with `dp` and contain no ".." -/
def LexArg (dp : Path) (p : Str) : Prop := dp <+: pathComps p ∧ dotdot ∉ pathComps p

structure LInv (dp : Path) (w : World) : Prop where
  root : w.root = []
  nosym : NoSym w.fs
  fresh : NextFresh w.fs
  dest : w.fs.isDir dp = true
  names : NameWF w.fs
  tree : TreeWF w.fs
  dirone : DirOne w.fs

def LStepOK (dp : Path) (w w' : World) : Prop := Confined dp w.fs w'.fs ∧ LInv dp w'

theorem LStepOK.same (dp : Path) (w : World) (h : LInv dp w) : LStepOK dp w w := ⟨Confined.refl _ _, h⟩

theorem LStepOK.trans {dp : Path} {a b c : World} (h1 : LStepOK dp a b) (h2 : LStepOK dp b c) : LStepOK dp a c :=
  ⟨Confined.trans h1.1 h2.1, h2.2⟩

theorem LInv.dest_some {dp : Path} {w : World} (h : LInv dp w) : (w.fs.lookup dp).isSome = true := by
  have := (isDir_iff w.fs dp).mp h.dest
  obtain ⟨n, hn, _⟩ := this
  rw [get_def] at hn
  cases hl : w.fs.lookup dp with
  | none => rw [hl] at hn; cases hn
  | some i => rfl

theorem LInv.under_of_resolve {dp : Path} {w : World} (h : LInv dp w) {p : Str} (hp : LexArg dp p) {fl : Bool} {q : Path}
    (hq : resolve w p fl = .ok q) : q = pathComps p ∧ under dp q = true := by
  have e := resolve_lexical w h.root h.nosym p fl q hp.2 hq
  refine ⟨e, ?_⟩
  rw [e]; simp only [under, List.isPrefixOf_iff_prefix]; exact hp.1

theorem LInv.under_of_resolveC {dp : Path} {w : World} (h : LInv dp w) {p : Str} (hp : LexArg dp p) {q : Path}
    (hq : resolveC w p = .ok q) : q = pathComps p ∧ under dp q = true := by
  have e := resolveC_lexical w h.root h.nosym p q hp.2 hq
  refine ⟨e, ?_⟩
  rw [e]; simp only [under, List.isPrefixOf_iff_prefix]; exact hp.1

theorem LexArg.norm {dp : Path} {p : Str} (hp : LexArg dp p) : ∀ c ∈ pathComps p, Norm c := pathComps_norm p hp.2

/-- a path beneath `dp` that does not exist is not `dp` itself, so its parent is beneath `dp` too -/
theorem LInv.parent_under {dp : Path} {w : World} (h : LInv dp w) {q : Path} (hu : under dp q = true)
    (hn : w.fs.lookup q = none) : under dp q.dropLast = true := by
  have hne : q ≠ dp := by
    intro e; subst e
    have := h.dest_some
    rw [hn] at this; cases this
  exact under_dropLast hu hne

theorem LStepOK.create (dp : Path) (w : World) (h : LInv dp w) (q : Path) (n : Inode)
    (hu : under dp q = true) (hn : w.fs.lookup q = none) (hk : n.kind ≠ .sym) (hq : ∀ c ∈ q, Norm c)
    (hpd : w.fs.isDir q.dropLast = true) :
    LStepOK dp w { w with fs := w.fs.create q n } :=
  ⟨create_confined dp w.fs q n hn hu (h.parent_under hu hn) h.fresh,
   ⟨h.root, h.nosym.of_kindsFrom (kindsFrom_create _ w.fs q n hn h.fresh hk), h.fresh.create q n hn,
    dirKept_create dp w.fs q n hn h.fresh h.dest, h.names.create q n hn hq, h.tree.create q n hn h.fresh hpd, h.dirone.create q n hn h.fresh⟩⟩

theorem LStepOK.modInode (dp : Path) (w : World) (h : LInv dp w) (q : Path) (i : Ino) (f : Inode → Inode)
    (hu : under dp q = true) (hq : w.fs.lookup q = some i) (hf : ∀ n, (f n).kind = n.kind) :
    LStepOK dp w { w with fs := w.fs.modInode i f } :=
  ⟨modInode_confined dp w.fs i f q hq hu,
   ⟨h.root, h.nosym.of_kindsFrom (kindsFrom_modInode _ w.fs i f hf), h.fresh.modInode i f,
    dirKept_modInode dp w.fs i f hf h.dest, h.names.modInode i f, h.tree.modInode i f hf, h.dirone.modInode i f hf⟩⟩

theorem LStepOK.setInode (dp : Path) (w : World) (h : LInv dp w) (q : Path) (i : Ino) (n m : Inode)
    (hu : under dp q = true) (hq : w.fs.lookup q = some i) (hi : w.fs.inode i = some n) (hk : m.kind = n.kind) :
    LStepOK dp w { w with fs := w.fs.setInode i m } :=
  ⟨setInode_confined dp w.fs i m q hq hu,
   ⟨h.root, h.nosym.of_kindsFrom (kindsFrom_setInode _ w.fs i n m hi hk q hq), h.fresh.setInode i m,
    dirKept_setInode dp w.fs i n m hi hk h.dest, h.names.setInode i m, h.tree.setInode i n m hi hk, h.dirone.setInode i n m hi hk⟩⟩

theorem mkdirOne_lex (dp : Path) (w : World) (p : Str) (perm : Nat) (h : LInv dp w) (hp : LexArg dp p) :
    LStepOK dp w (mkdirOne w p perm).2 := by
  unfold mkdirOne
  split
  · exact LStepOK.same dp w h
  · rename_i q hq
    split
    · exact LStepOK.same dp w h
    · rename_i hex
      split
      · exact LStepOK.same dp w h
      · rename_i hpd
        exact LStepOK.create dp w h q _ (h.under_of_resolveC hp hq).2 (isSome_false_none hex) (by simp)
          (by rw [(h.under_of_resolveC hp hq).1]; exact hp.norm) (by simpa using hpd)

/-- the path arguments of a mutating call lie lexically beneath `dp`; no symbolic link is created, the
    thread root is not changed, and nothing is removed at `dp` itself -/
def SysLex (dp : Path) : Sys → Prop
  | .lstat _ | .stat _ | .readFile _ | .getxattr _ _ | .readlink _ | .listTree _ | .setUmask _ => True
  | .mkdir p _ => LexArg dp p
  | .mkdirAll _ _ => False                 -- handled separately (`mkdirAll_lex`)
  | .createWrite p _ _ => LexArg dp p
  | .link old new => LexArg dp old ∧ LexArg dp new
  | .symlink _ _ => False
  | .mknod p k _ _ => LexArg dp p ∧ k ≠ .sym
  | .chown p _ _ _ => LexArg dp p
  | .chmod p _ => LexArg dp p
  | .setxattr p _ _ _ => LexArg dp p
  | .utimes p _ _ => LexArg dp p
  | .removeAll p => LexArg dp p ∧ pathComps p ≠ dp
  | .mkdtemp dir pfx => LexArg dp (join dir (pfx ++ b!"0000000000"))
  | .chroot _ => False

set_option maxHeartbeats 1000000 in
/-- **a lexically confined system call is physically confined** (no symbolic links, thread root "/") -/
theorem step_lex (dp : Path) (w : World) (s : Sys) (h : LInv dp w) (hs : SysLex dp s) :
    LStepOK dp w (step w s).2 := by
  cases s with
  | lstat p => simp only [step]; exact LStepOK.same dp w h
  | stat p => simp only [step]; exact LStepOK.same dp w h
  | readFile p =>
    simp only [step]
    repeat' split
    all_goals exact LStepOK.same dp w h
  | getxattr p k =>
    simp only [step]
    repeat' split
    all_goals exact LStepOK.same dp w h
  | readlink p =>
    simp only [step]
    repeat' split
    all_goals exact LStepOK.same dp w h
  | listTree p =>
    simp only [step]
    repeat' split
    all_goals exact LStepOK.same dp w h
  | setUmask m =>
    simp only [step]
    exact ⟨Confined.refl _ _, ⟨h.root, h.nosym, h.fresh, h.dest, h.names, h.tree, h.dirone⟩⟩
  | mkdir p perm =>
    simp only [step]
    exact mkdirOne_lex dp w p perm h hs
  | mkdirAll p perm => exact absurd hs id
  | symlink target p => exact absurd hs id
  | chroot p => exact absurd hs id
  | mknod p k perm rdev =>
    simp only [step]
    split
    · exact LStepOK.same dp w h
    · rename_i q hq
      split
      · exact LStepOK.same dp w h
      · rename_i hex
        split
        · exact LStepOK.same dp w h
        · rename_i hpd
          exact LStepOK.create dp w h q _ (h.under_of_resolveC hs.1 hq).2 (isSome_false_none hex) hs.2
            (by rw [(h.under_of_resolveC hs.1 hq).1]; exact hs.1.norm) (by simpa using hpd)
  | mkdtemp dir pfx =>
    simp only [step]
    split
    · exact LStepOK.same dp w h
    · rename_i q hq
      split
      · exact LStepOK.same dp w h
      · rename_i hex
        split
        · exact LStepOK.same dp w h
        · rename_i hpd
          exact LStepOK.create dp w h q _ (h.under_of_resolve hs hq).2 (isSome_false_none hex) (by simp)
            (by rw [(h.under_of_resolve hs hq).1]; exact hs.norm) (by simpa using hpd)
  | createWrite p perm data =>
    simp only [step]
    split
    · exact LStepOK.same dp w h
    · rename_i q hq
      have hu := (h.under_of_resolve hs hq).2
      split
      · rename_i i hi
        split
        · rename_i n hn
          split
          · exact LStepOK.same dp w h
          · split
            · exact LStepOK.same dp w h
            · split
              · exact LStepOK.same dp w h
              · exact LStepOK.setInode dp w h q i n _ hu hi hn rfl
        · exact LStepOK.same dp w h
      · rename_i hnone
        split
        · exact LStepOK.same dp w h
        · rename_i hpd
          exact LStepOK.create dp w h q _ hu hnone (by simp)
            (by rw [(h.under_of_resolve hs hq).1]; exact hs.norm) (by simpa using hpd)
  | link old new =>
    simp only [step]
    split
    · exact LStepOK.same dp w h
    · exact LStepOK.same dp w h
    · rename_i qo qn hqo hqn
      split
      · exact LStepOK.same dp w h
      · rename_i i hi
        split
        · exact LStepOK.same dp w h
        · rename_i hisdir
          have hnotdir : ∀ n, w.fs.inode i = some n → n.kind ≠ .dir := by
            intro n hn hk
            apply hisdir
            rw [isDir_iff]
            exact ⟨n, by rw [get_def, hi]; exact hn, hk⟩
          split
          · exact LStepOK.same dp w h
          · rename_i hex
            split
            · exact LStepOK.same dp w h
            · rename_i hpd
              have hun := (h.under_of_resolveC hs.2 hqn).2
              have huo := (h.under_of_resolve hs.1 hqo).2
              have hnone := isSome_false_none hex
              exact ⟨addName_confined dp w.fs qn qo i hnone hun (h.parent_under hun hnone) hi huo,
                ⟨h.root, h.nosym.of_kindsFrom (kindsFrom_addName _ w.fs qn qo i hnone hi),
                 h.fresh.addName qn qo i hnone hi, dirKept_addName dp w.fs qn i hnone h.dest,
                 h.names.addName qn i hnone (by rw [(h.under_of_resolveC hs.2 hqn).1]; exact hs.2.norm),
                 h.tree.addName qn qo i hnone hi (by simpa using hpd), h.dirone.addName qn i hnone hnotdir⟩⟩
  | chown p uid gid follow =>
    simp only [step]
    split
    · exact LStepOK.same dp w h
    · rename_i q hq
      split
      · exact LStepOK.same dp w h
      · rename_i i hi
        refine LStepOK.modInode dp w h q i _ (h.under_of_resolve hs hq).2 hi ?_
        intro n; unfold chownInode; split <;> rfl
  | chmod p perm =>
    simp only [step]
    split
    · exact LStepOK.same dp w h
    · rename_i q hq
      split
      · exact LStepOK.same dp w h
      · rename_i i hi
        exact LStepOK.modInode dp w h q i _ (h.under_of_resolve hs hq).2 hi (fun _ => rfl)
  | setxattr p k v follow =>
    simp only [step]
    split
    · exact LStepOK.same dp w h
    · rename_i q hq
      split
      · exact LStepOK.same dp w h
      · rename_i i hi
        split
        · exact LStepOK.same dp w h
        · rename_i n hn
          split
          · exact LStepOK.same dp w h
          · exact LStepOK.setInode dp w h q i n _ (h.under_of_resolve hs hq).2 hi hn rfl
  | utimes p mtime follow =>
    simp only [step]
    split
    · exact LStepOK.same dp w h
    · rename_i q hq
      split
      · exact LStepOK.same dp w h
      · rename_i i hi
        split
        · exact LStepOK.same dp w h
        · exact LStepOK.modInode dp w h q i _ (h.under_of_resolve hs hq).2 hi (fun _ => rfl)
  | removeAll p =>
    simp only [step]
    split
    · exact LStepOK.same dp w h
    · split
      · exact LStepOK.same dp w h
      · exact LStepOK.same dp w h
      · exact LStepOK.same dp w h
      · rename_i q hq
        obtain ⟨he, hu⟩ := h.under_of_resolve hs.1 hq
        have hne : q ≠ dp := by rw [he]; exact hs.2
        split
        · exact LStepOK.same dp w h
        · split
          · -- q = w.root = []: then dp = [] = q, excluded
            rename_i heq
            exfalso
            rw [h.root] at heq
            subst heq
            simp only [under, List.isPrefixOf_iff_prefix, List.prefix_nil] at hu
            exact hne hu.symm
          · exact ⟨removeSubtree_confined dp w.fs q hu (under_dropLast hu hne),
              ⟨h.root, h.nosym.of_kindsFrom (kindsFrom_removeSubtree _ w.fs q), h.fresh.removeSubtree q,
               dirKept_removeSubtree dp w.fs q hu hne h.dest, h.names.removeSubtree q, h.tree.removeSubtree q, h.dirone.removeSubtree q⟩⟩

end GA
