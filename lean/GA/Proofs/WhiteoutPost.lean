import GA.Proofs.LexLayer
import GA.Proofs.Hoare
/-
  What a whiteout's removal leaves behind: the target and everything beneath it are gone, and no name
  has appeared anywhere.
-/
namespace GA

/-- without symbolic links and "..", a walk that ends in "no such file" met a missing name on the way -/
theorem walk_enoent (fs : FS) (root : Path) (hns : NoSym fs) :
    ∀ (fuel links : Nat) (cur : Path) (cs : List Str) (fl : Bool),
      dotdot ∉ cs → walk fs root fuel links cur cs fl = .err .ENOENT →
      ∃ pre, pre <+: cs ∧ fs.get (cur ++ pre) = none := by
  intro fuel
  induction fuel with
  | zero =>
    intro links cur cs fl _ h
    cases cs with
    | nil => simp [walk] at h
    | cons c rest => simp [walk] at h
  | succ fuel ih =>
    intro links cur cs fl hdd h
    cases cs with
    | nil => simp [walk] at h
    | cons c rest =>
      simp only [walk] at h
      have hc : c ≠ dotdot := fun e => hdd (by simp [e])
      have hrest : dotdot ∉ rest := fun e => hdd (by simp [e])
      by_cases hd : (!fs.isDir cur) = true
      · rw [if_pos hd] at h
        by_cases hg : (fs.get cur).isSome = true
        · rw [if_pos hg] at h; cases h
        · refine ⟨[], List.nil_prefix, ?_⟩
          simp only [List.append_nil]
          cases hgc : fs.get cur with
          | none => rfl
          | some n => rw [hgc] at hg; simp at hg
      · rw [if_neg hd, if_neg hc] at h
        cases hn : fs.get (cur ++ [c]) with
        | none =>
          exact ⟨[c], by simp, hn⟩
        | some n =>
          rw [hn] at h
          have hk : n.kind ≠ .sym := hns _ n hn
          have hk' : (n.kind == Kind.sym) = false := by simpa using hk
          simp only [hk', Bool.false_and, Bool.false_eq_true, if_false] at h
          obtain ⟨pre, hpre, hg⟩ := ih links (cur ++ [c]) rest fl hrest h
          refine ⟨c :: pre, by simpa using hpre, ?_⟩
          simpa using hg

theorem get_none_lookup_none {fs : FS} (h : TreeWF fs) {p : Path} (hg : fs.get p = none) : fs.lookup p = none := by
  cases hl : fs.lookup p with
  | none => rfl
  | some i =>
    have := h.has_inode p i hl
    rw [get_def, hl] at hg
    simp only [Option.bind_some] at hg
    rw [hg] at this; cases this

theorem lookup_removeSubtree (fs : FS) (q p : Path) :
    (fs.removeSubtree q).lookup p = if under q p = true then none else fs.lookup p := by
  have h1 := lookup_filterNames fs (fun x => !(under q x)) p
  unfold FS.removeSubtree FS.touchParent
  split
  · rw [lookup_modInode, h1]
    cases under q p <;> simp
  · rw [h1]
    cases under q p <;> simp

/-- `os.RemoveAll` of a path lexically beneath the destination, in a symlink-free tree: if it reports
    success nothing is left at or beneath the path; whatever it reports, no name has been added -/
theorem removeAll_post (dp : Path) (w : World) (hw : LW dp w) (p : Str) (hp : LexArg dp p) (hs : pathComps p ≠ dp) :
    (isErr (step w (.removeAll p)).1 = false →
      ∀ q, under (pathComps p) q = true → (step w (.removeAll p)).2.fs.lookup q = none) ∧
    (∀ q i, (step w (.removeAll p)).2.fs.lookup q = some i → w.fs.lookup q = some i) := by
  have htree := hw.inv.tree
  have absent : w.fs.lookup (pathComps p) = none → ∀ q, under (pathComps p) q = true → w.fs.lookup q = none := by
    intro hnone q hq
    simp only [under, List.isPrefixOf_iff_prefix] at hq
    obtain ⟨ext, rfl⟩ := hq
    exact htree.absent_below _ hnone _ ext rfl
  simp only [step]
  by_cases hp0 : p = []
  · simp only [hp0, if_true]
    refine ⟨fun _ q hq => ?_, fun _ _ h => h⟩
    -- the empty string has no components: then dp = [] = pathComps p, excluded
    exfalso
    apply hs
    have : pathComps ([] : Str) = [] := by simp [pathComps, splitSlash]
    rw [hp0, this]
    have := hp.1
    rw [hp0, ‹pathComps ([] : Str) = []›] at this
    exact (List.prefix_nil.mp this).symm
  · simp only [hp0, if_false]
    cases hr : resolve w p false with
    | err e =>
      cases e with
      | ENOENT =>
        simp only
        refine ⟨fun _ q hq => ?_, fun _ _ h => h⟩
        -- a name on the way is missing, hence everything at and beneath the path
        unfold resolve at hr
        rw [if_neg hp0, hw.inv.root] at hr
        simp only at hr
        cases hwk : walk w.fs [] walkFuel 40 [] (pathComps p) (false || mustDir p) with
        | err e2 =>
          rw [hwk] at hr
          injection hr with hr
          subst hr
          obtain ⟨pre, hpre, hg⟩ := walk_enoent w.fs [] hw.inv.nosym _ _ _ _ _ hp.2 hwk
          simp only [List.nil_append] at hg
          have hln := get_none_lookup_none htree hg
          simp only [under, List.isPrefixOf_iff_prefix] at hq
          obtain ⟨ext1, rfl⟩ := hq
          obtain ⟨ext0, he0⟩ := hpre
          have : pathComps p ++ ext1 = pre ++ (ext0 ++ ext1) := by rw [← he0, List.append_assoc]
          rw [this]
          exact htree.absent_below _ hln _ _ rfl
        | ok q0 =>
          rw [hwk] at hr
          simp only at hr
          split at hr
          · split at hr
            · split at hr <;> cases hr
            · cases hr
          · cases hr
      | ENOTDIR =>
        simp only
        refine ⟨fun h => ?_, fun _ _ h => h⟩
        exfalso
        unfold removeAllNotDir at h
        split at h
        · split at h
          · split at h <;> simp [isErr] at h
          · simp [isErr] at h
        · simp [isErr] at h
      | _ => exact ⟨fun h => by simp [isErr] at h, fun _ _ h => h⟩
    | ok q0 =>
      have hq0 := resolve_lexical w hw.inv.root hw.inv.nosym p false q0 hp.2 hr
      subst hq0
      simp only
      by_cases hgn : (w.fs.get (pathComps p)).isNone = true
      · rw [if_pos hgn]
        refine ⟨fun _ q hq => ?_, fun _ _ h => h⟩
        have hg : w.fs.get (pathComps p) = none := by
          cases hgg : w.fs.get (pathComps p) with
          | none => rfl
          | some n => rw [hgg] at hgn; simp at hgn
        exact absent (get_none_lookup_none htree hg) q hq
      · rw [if_neg hgn]
        have hne : pathComps p ≠ w.root := by
          rw [hw.inv.root]
          intro e
          apply hs
          have := hp.1
          rw [e] at this
          rw [e]; exact (List.prefix_nil.mp this).symm
        rw [if_neg hne]
        simp only
        constructor
        · intro _ q hq
          rw [lookup_removeSubtree, if_pos hq]
        · intro q i hl
          rw [lookup_removeSubtree] at hl
          split at hl
          · cases hl
          · exact hl

end GA
