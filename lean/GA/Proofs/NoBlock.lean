import GA.Proofs.UnpackNode
/-
  Blocking opens.  In the kernel model three calls can fail to return: `os.RemoveAll` (when the unlink fails
  with ENOTDIR it opens the parent, which may be a fifo), the open-for-write of `createTarFile` (an existing
  fifo) and a read of a fifo.  `NB p`: the program never issues one of the three — then it cannot block in
  any world.  For the others the world matters; `blocks_bind` lets a proof walk a program state by state.
-/
namespace GA

def NBSys : Sys → Prop
  | .createWrite _ _ _ | .removeAll _ | .readFile _ => False
  | _ => True

theorem mkdirOne_nb (w : World) (p : Str) (perm : Nat) : (mkdirOne w p perm).1 ≠ .blocked := by
  unfold mkdirOne
  split
  · intro h; cases h
  · split
    · intro h; cases h
    · split
      · intro h; cases h
      · intro h; cases h

theorem statRes_nb (w : World) (p : Str) (fl : Bool) : statRes w p fl ≠ .blocked := by
  unfold statRes
  split
  · intro h; cases h
  · split
    · intro h; cases h
    · split <;> intro h <;> cases h

theorem mkdirAllK_nb : ∀ (fuel : Nat) (w : World) (p : Str) (perm : Nat), (mkdirAllK fuel w p perm).1 ≠ .blocked
  | 0, _, _, _ => by simp [mkdirAllK]
  | fuel+1, w, p, perm => by
    simp only [mkdirAllK]
    repeat' split
    all_goals first
      | exact mkdirAllK_nb fuel w _ perm
      | exact mkdirOne_nb _ _ _
      | (intro h; cases h)
      | simp

theorem step_nb (w : World) (s : Sys) (h : NBSys s) : (step w s).1 ≠ .blocked := by
  cases s with
  | lstat p => simp only [step]; exact statRes_nb w p false
  | stat p => simp only [step]; exact statRes_nb w p true
  | mkdir p perm => simp only [step]; exact mkdirOne_nb w p perm
  | mkdirAll p perm => simp only [step]; exact mkdirAllK_nb _ w p perm
  | createWrite p perm d => exact h.elim
  | readFile p => exact h.elim
  | removeAll p => exact h.elim
  | link old new =>
    simp only [step]
    repeat' split
    all_goals (intro h'; cases h')
  | symlink t p =>
    simp only [step]
    repeat' split
    all_goals (intro h'; cases h')
  | mknod p k perm rdev =>
    simp only [step]
    repeat' split
    all_goals (intro h'; cases h')
  | chown p u g fl =>
    simp only [step]
    repeat' split
    all_goals (intro h'; cases h')
  | chmod p perm =>
    simp only [step]
    repeat' split
    all_goals (intro h'; cases h')
  | setxattr p k v fl =>
    simp only [step]
    repeat' split
    all_goals (intro h'; cases h')
  | getxattr p k =>
    simp only [step]
    repeat' split
    all_goals (intro h'; cases h')
  | utimes p t fl =>
    simp only [step]
    repeat' split
    all_goals (intro h'; cases h')
  | readlink p =>
    simp only [step]
    repeat' split
    all_goals (intro h'; cases h')
  | listTree p =>
    simp only [step]
    repeat' split
    all_goals (intro h'; cases h')
  | mkdtemp d pfx =>
    simp only [step]
    repeat' split
    all_goals (intro h'; cases h')
  | setUmask m => simp only [step]; intro h'; cases h'
  | chroot p =>
    simp only [step]
    repeat' split
    all_goals (intro h'; cases h')

def NB {α : Type} : Prog α → Prop
  | .ret _ => True
  | .call s k => NBSys s ∧ ∀ r, NB (k r)

theorem NB.blocks {α : Type} : ∀ (p : Prog α) (w : World), NB p → p.blocks w = false
  | .ret _, _, _ => rfl
  | .call s k, w, h => by
    simp only [Prog.blocks]
    have hs := step_nb w s h.1
    split
    · rename_i hb; exact absurd hb hs
    · exact NB.blocks (k _) _ (h.2 _)

theorem NB.bind {α β : Type} : ∀ (m : Prog α) (f : α → Prog β), NB m → (∀ a, NB (f a)) → NB (m.bind f)
  | .ret a, f, _, hf => hf a
  | .call s k, f, hm, hf => ⟨hm.1, fun r => NB.bind (k r) f (hm.2 r) hf⟩

theorem nbB {α β : Type} (m : Prog α) (f : α → Prog β) (hm : NB m) (hf : ∀ a, NB (f a)) : NB (m >>= f) :=
  NB.bind m f hm hf

theorem nb_pure {α : Type} (a : α) : NB (pure a : Prog α) := trivial
theorem nb_sys (s : Sys) (h : NBSys s) : NB (sys s) := ⟨h, fun _ => trivial⟩

def isBlockedR : Res → Bool
  | .blocked => true
  | _ => false

theorem blocks_call {α : Type} (s : Sys) (k : Res → Prog α) (w : World) :
    (Prog.call s k).blocks w = (isBlockedR (step w s).1 || (k (step w s).1).blocks (step w s).2) := by
  simp only [Prog.blocks]
  cases (step w s).1 <;> simp [isBlockedR]

/-- a program blocks when its first part does, or the rest does from where the first part ended -/
theorem blocks_bind {α β : Type} : ∀ (m : Prog α) (f : α → Prog β) (w : World),
    (m.bind f).blocks w = (m.blocks w || (f (m.run w).1).blocks (m.run w).2)
  | .ret a, f, w => by simp [Prog.bind, Prog.blocks, Prog.run]
  | .call s k, f, w => by
    simp only [Prog.bind, Prog.run]
    rw [blocks_call, blocks_call, blocks_bind (k (step w s).1) f (step w s).2, Bool.or_assoc]

theorem blocks_sys_bind {β : Type} (s : Sys) (f : Res → Prog β) (w : World) :
    (sys s >>= f).blocks w = (isBlockedR (step w s).1 || (f (step w s).1).blocks (step w s).2) := by
  show (Prog.call s (fun r => (Prog.ret r).bind f)).blocks w = _
  rw [blocks_call]
  rfl

theorem isBlockedR_false_of_ne {r : Res} (h : r ≠ .blocked) : isBlockedR r = false := by
  cases r <;> simp [isBlockedR] at h ⊢

end GA
