import GA.Proofs.PathLemmas
/-
  `Dir`, `Base` and `Join` on cleaned absolute paths, component-wise.
-/
namespace GA

theorem joinSlash_snoc : ∀ (cs : List Str) (c : Str), cs ≠ [] → joinSlash (cs ++ [c]) = joinSlash cs ++ 47 :: c
  | [], _, h => absurd rfl h
  | [a], c, _ => by simp [joinSlash]
  | a :: b :: rest, c, _ => by
    simp only [List.cons_append, joinSlash]
    rw [show b :: (rest ++ [c]) = (b :: rest) ++ [c] by rfl, joinSlash_snoc (b :: rest) c (by simp)]
    simp [List.append_assoc]

/-- the string of a cleaned absolute path with a further component -/
theorem cleanAbs_snoc (cs : List Str) (c : Str) :
    (47 : UInt8) :: joinSlash (cs ++ [c]) = (if cs = [] then [47] else 47 :: joinSlash cs ++ [47]) ++ c := by
  by_cases h : cs = []
  · subst h; simp [joinSlash]
  · simp [h, joinSlash_snoc cs c h, List.append_assoc]

theorem takeWhile_append_stop {α} (p : α → Bool) (a : List α) (x : α) (rest : List α)
    (ha : ∀ y ∈ a, p y = true) (hx : p x = false) : (a ++ x :: rest).takeWhile p = a := by
  induction a with
  | nil => simp [List.takeWhile, hx]
  | cons y ys ih => simp [List.takeWhile, ha y (by simp), ih (fun z hz => ha z (by simp [hz]))]

theorem dropWhile_append_stop {α} (p : α → Bool) (a : List α) (x : α) (rest : List α)
    (ha : ∀ y ∈ a, p y = true) (hx : p x = false) : (a ++ x :: rest).dropWhile p = x :: rest := by
  induction a with
  | nil => simp [List.dropWhile, hx]
  | cons y ys ih => simp [List.dropWhile, ha y (by simp), ih (fun z hz => ha z (by simp [hz]))]

/-- `filepath.Split` of "<prefix ending in '/'>" ++ c for a separator-free c -/
theorem splitLast_snoc (pre c : Str) (hc : NoSlash c) : splitLast (pre ++ [47] ++ c) = (pre ++ [47], c) := by
  unfold splitLast
  have hrev : (pre ++ [47] ++ c).reverse = c.reverse ++ 47 :: pre.reverse := by simp
  rw [hrev]
  have hall : ∀ y ∈ c.reverse, (fun x : UInt8 => decide (x ≠ 47)) y = true := by
    intro y hy; simp at hy ⊢; intro e; subst e; exact hc hy
  rw [takeWhile_append_stop _ _ _ _ hall (by simp), dropWhile_append_stop _ _ _ _ hall (by simp)]
  simp

theorem cleanComps_trailing (cs : List Str) (h : ∀ c ∈ cs, Norm c) (hne : cs ≠ []) :
    clean (47 :: joinSlash cs ++ [47]) = 47 :: joinSlash cs := by
  have habs : isAbs (47 :: joinSlash cs ++ [47]) = true := by simp [isAbs]
  rw [(clean_abs_form _ habs).1]
  congr 1
  have := cleanComps_join cs h []
  rw [this]
  simp [splitSlash, cleanStep_skip_empty]

/-- **`Dir` and `Base` of a cleaned absolute path** -/
theorem dir_base_snoc (cs : List Str) (c : Str) (h : ∀ x ∈ cs, Norm x) (hc : Norm c) :
    dir (47 :: joinSlash (cs ++ [c])) = 47 :: joinSlash cs ∧ base (47 :: joinSlash (cs ++ [c])) = c := by
  have hs : (47 : UInt8) :: joinSlash (cs ++ [c]) = (if cs = [] then [] else 47 :: joinSlash cs) ++ [47] ++ c := by
    rw [cleanAbs_snoc]; by_cases h0 : cs = [] <;> simp [h0]
  constructor
  · unfold dir
    rw [hs, splitLast_snoc _ c hc.noSlash]
    by_cases h0 : cs = []
    · subst h0; simp [joinSlash, clean, isAbs, cleanComps, splitSlash, cleanStep_skip_empty]
    · simp only [h0, if_false]
      exact cleanComps_trailing cs h h0
  · unfold base
    have hne : (47 : UInt8) :: joinSlash (cs ++ [c]) ≠ [] := by simp
    simp only [hne, if_false]
    have hstrip : stripTrailingSlashes (47 :: joinSlash (cs ++ [c])) = 47 :: joinSlash (cs ++ [c]) := by
      unfold stripTrailingSlashes
      rw [hs]
      have hcne : c ≠ [] := hc.1
      obtain ⟨l, ini, hl⟩ : ∃ l ini, c = ini ++ [l] := by
        rcases List.eq_nil_or_concat c with h1 | ⟨ini, l, h1⟩
        · exact absurd h1 hcne
        · exact ⟨l, ini, by simpa using h1⟩
      have hl47 : l ≠ 47 := by
        intro e; subst e; apply hc.noSlash; rw [hl]; simp
      rw [hl]
      simp [List.dropWhile, hl47]
    rw [hstrip, hs, splitLast_snoc _ c hc.noSlash]
    simp [hc.1]

/-- `Join` of a cleaned absolute path with one normal component appends it -/
theorem join_snoc (cs : List Str) (c : Str) (h : ∀ x ∈ cs, Norm x) (hc : Norm c) :
    join (47 :: joinSlash cs) c = 47 :: joinSlash (cs ++ [c]) := by
  unfold join
  simp only [ne_eq, List.cons_ne_nil, not_false_eq_true, if_true]
  have habs : isAbs ((47 :: joinSlash cs) ++ 47 :: c) = true := by simp [isAbs]
  rw [(clean_abs_form _ habs).1, cleanComps_join cs h c, splitSlash_noSlash c hc.noSlash]
  simp [cleanStep, hc.1, hc.2.1, hc.2.2.1]

end GA
