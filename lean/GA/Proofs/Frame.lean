import GA.Proofs.LexProg
/-
  The frame of an extraction.  `T` is the set of paths an archive names (entry paths and hard-link
  sources).  A path is *covered* when it is one of them or lies beneath one; it is an *ancestor* when one
  of them lies at or beneath it.  `Framed T fs0 fs`: relative to the file system `fs0` the extraction
  started from, every uncovered name still binds the inode it bound, an inode all of whose names were
  uncovered has exactly the names it had and the record it had — except that the modification time of a
  directory on the way to a named path may have been set by the kernel.
-/
namespace GA

def Cov (T : List Path) (p : Path) : Prop := ∃ t ∈ T, t <+: p
def Anc (T : List Path) (p : Path) : Prop := ∃ t ∈ T, p <+: t
def CovAnc (T : List Path) (p : Path) : Prop := Cov T p ∨ Anc T p

theorem Cov.append {T : List Path} {p : Path} (h : Cov T p) (s : Path) : Cov T (p ++ s) := by
  obtain ⟨t, ht, hp⟩ := h
  exact ⟨t, ht, hp.trans (List.prefix_append _ _)⟩

theorem Cov.of_prefix {T : List Path} {p q : Path} (h : Cov T p) (hpq : p <+: q) : Cov T q := by
  obtain ⟨t, ht, hp⟩ := h
  exact ⟨t, ht, hp.trans hpq⟩

theorem Cov.of_under {T : List Path} {p q : Path} (h : Cov T p) (hpq : under p q = true) : Cov T q := by
  simp only [under, List.isPrefixOf_iff_prefix] at hpq
  exact h.of_prefix hpq

theorem CovAnc.of_prefix {T : List Path} {p q : Path} (h : CovAnc T q) (hpq : p <+: q) : CovAnc T p := by
  rcases h with ⟨t, ht, h⟩ | ⟨t, ht, h⟩
  · rcases List.prefix_or_prefix_of_prefix h hpq with h1 | h1
    · exact Or.inl ⟨t, ht, h1⟩
    · exact Or.inr ⟨t, ht, h1⟩
  · exact Or.inr ⟨t, ht, hpq.trans h⟩

theorem CovAnc.dropLast {T : List Path} {q : Path} (h : CovAnc T q) : CovAnc T q.dropLast :=
  h.of_prefix (List.dropLast_prefix q)

/-- the inode had a name when the extraction started and none of its names was covered -/
def OutI (T : List Path) (fs0 : FS) (i : Ino) : Prop :=
  (∃ p, fs0.lookup p = some i) ∧ ∀ p, fs0.lookup p = some i → ¬ Cov T p

/-- … and none of its names was an ancestor of a named path either -/
def QuietI (T : List Path) (fs0 : FS) (i : Ino) : Prop :=
  OutI T fs0 i ∧ ∀ p, fs0.lookup p = some i → ¬ Anc T p

def eraseM (n : Inode) : Inode := { n with mtime := none }

structure Framed (T : List Path) (fs0 fs : FS) : Prop where
  next_le : fs0.next ≤ fs.next
  names_keep : ∀ p i, fs0.lookup p = some i → ¬ Cov T p → fs.lookup p = some i
  no_capture : ∀ i, OutI T fs0 i → ∀ p, fs.lookup p = some i → fs0.lookup p = some i
  inode_out : ∀ i, OutI T fs0 i → (fs.inode i).map eraseM = (fs0.inode i).map eraseM
  inode_quiet : ∀ i, QuietI T fs0 i → fs.inode i = fs0.inode i
  /-- nothing appears out of nowhere: a name that did not exist at the start and is neither covered nor on
      the way to a named path does not exist now -/
  absent_keep : ∀ p, fs0.lookup p = none → ¬ CovAnc T p → fs.lookup p = none

theorem Framed.refl (T : List Path) (fs : FS) : Framed T fs fs :=
  ⟨Nat.le_refl _, fun _ _ h _ => h, fun _ _ _ h => h, fun _ _ => rfl, fun _ _ => rfl, fun _ h _ => h⟩

/-- an inode reached through a covered name, or through a name that did not exist at the start, is not
    one of the inodes the frame speaks about -/
theorem Framed.not_out {T : List Path} {fs0 fs : FS} (h : Framed T fs0 fs) {q : Path} {j : Ino}
    (hq : fs.lookup q = some j) (hc : Cov T q ∨ fs0.lookup q = none) : ¬ OutI T fs0 j := by
  intro ho
  have h0 := h.no_capture j ho q hq
  rcases hc with hc | hc
  · exact ho.2 q h0 hc
  · rw [hc] at h0; cases h0

theorem inode_setInode_ne (fs : FS) (i j : Ino) (n : Inode) (h : j ≠ i) : (fs.setInode i n).inode j = fs.inode j := by
  simp [FS.setInode, h]

theorem next_setInode (fs : FS) (i : Ino) (n : Inode) : (fs.setInode i n).next = fs.next := rfl

/-- changing an inode that is not one of the framed ones -/
theorem Framed.modOther {T : List Path} {fs0 fs : FS} (h : Framed T fs0 fs) (j : Ino) (f : Inode → Inode)
    (hj : ¬ OutI T fs0 j) : Framed T fs0 (fs.modInode j f) := by
  refine ⟨by rw [next_modInode]; exact h.next_le, ?_, ?_, ?_, ?_, ?_⟩
  · intro p i hp hc; rw [lookup_modInode]; exact h.names_keep p i hp hc
  · intro i hi p hp; rw [lookup_modInode] at hp; exact h.no_capture i hi p hp
  · intro i hi
    have : i ≠ j := fun e => hj (e ▸ hi)
    rw [inode_modInode_ne fs j i f this]; exact h.inode_out i hi
  · intro i hi
    have : i ≠ j := fun e => hj (e ▸ hi.1)
    rw [inode_modInode_ne fs j i f this]; exact h.inode_quiet i hi
  · intro p hp hc; rw [lookup_modInode]; exact h.absent_keep p hp hc

theorem Framed.setOther {T : List Path} {fs0 fs : FS} (h : Framed T fs0 fs) (j : Ino) (n : Inode)
    (hj : ¬ OutI T fs0 j) : Framed T fs0 (fs.setInode j n) := by
  refine ⟨h.next_le, h.names_keep, h.no_capture, ?_, ?_, h.absent_keep⟩
  · intro i hi
    have : i ≠ j := fun e => hj (e ▸ hi)
    rw [inode_setInode_ne fs j i n this]; exact h.inode_out i hi
  · intro i hi
    have : i ≠ j := fun e => hj (e ▸ hi.1)
    rw [inode_setInode_ne fs j i n this]; exact h.inode_quiet i hi

/-- the implicit mtime update of a directory at or above a named path -/
theorem Framed.touch {T : List Path} {fs0 fs : FS} (h : Framed T fs0 fs) (q : Path) (hq : CovAnc T q.dropLast) :
    Framed T fs0 (fs.touchParent q) := by
  unfold FS.touchParent
  split
  · rename_i j hj
    by_cases ho : OutI T fs0 j
    · have h0 := h.no_capture j ho _ hj
      refine ⟨by rw [next_modInode]; exact h.next_le, ?_, ?_, ?_, ?_,
        fun p hp hc => by rw [lookup_modInode]; exact h.absent_keep p hp hc⟩
      · intro p i hp hc; rw [lookup_modInode]; exact h.names_keep p i hp hc
      · intro i hi p hp; rw [lookup_modInode] at hp; exact h.no_capture i hi p hp
      · intro i hi
        by_cases e : i = j
        · subst e
          rw [← h.inode_out i hi]
          unfold FS.modInode
          cases hn : fs.inode i with
          | none => simp [hn]
          | some n => simp [FS.setInode, eraseM]
        · rw [inode_modInode_ne fs j i _ e]; exact h.inode_out i hi
      · intro i hi
        have : i ≠ j := by
          intro e; subst e
          rcases hq with hq | hq
          · exact ho.2 _ h0 hq
          · exact hi.2 _ h0 hq
        rw [inode_modInode_ne fs j i _ this]; exact h.inode_quiet i hi
    · exact h.modOther j _ ho
  · exact h

theorem Framed.create {T : List Path} {fs0 fs : FS} (h : Framed T fs0 fs) (h0 : NextFresh fs0) (q : Path) (n : Inode)
    (hn : fs.lookup q = none) (hq : CovAnc T q) : Framed T fs0 (fs.create q n) := by
  unfold FS.create
  simp only
  refine Framed.touch ?_ q hq.dropLast
  have hlt : ∀ i, OutI T fs0 i → i ≠ fs.next := by
    intro i hi
    obtain ⟨⟨p, hp⟩, _⟩ := hi
    exact Nat.ne_of_lt (Nat.lt_of_lt_of_le (h0 p i hp) h.next_le)
  refine ⟨Nat.le_succ_of_le h.next_le, ?_, ?_, ?_, ?_, ?_⟩
  rotate_right
  · intro p hp hc
    show ({ fs with names := fs.names ++ [(q, fs.next)] } : FS).lookup p = none
    rw [lookup_append_new fs q fs.next hn p]
    have : p ≠ q := by intro e; subst e; exact hc hq
    simp [this, h.absent_keep p hp hc]
  · intro p i hp hc
    show ({ fs with names := fs.names ++ [(q, fs.next)] } : FS).lookup p = some i
    rw [lookup_append_new fs q fs.next hn p]
    have hk := h.names_keep p i hp hc
    have : p ≠ q := by intro e; subst e; rw [hn] at hk; cases hk
    simp [this, hk]
  · intro i hi p hp
    have hp' : ({ fs with names := fs.names ++ [(q, fs.next)] } : FS).lookup p = some i := hp
    rw [lookup_append_new fs q fs.next hn p] at hp'
    split at hp'
    · exfalso; injection hp' with e; exact hlt i hi e.symm
    · exact h.no_capture i hi p hp'
  · intro i hi
    have := hlt i hi
    simp only [this, if_false]
    exact h.inode_out i hi
  · intro i hi
    have := hlt i hi.1
    simp only [this, if_false]
    exact h.inode_quiet i hi

theorem Framed.addName {T : List Path} {fs0 fs : FS} (h : Framed T fs0 fs) (q qo : Path) (j : Ino)
    (hn : fs.lookup q = none) (ho : fs.lookup qo = some j) (hc : Cov T qo ∨ fs0.lookup qo = none)
    (hq : CovAnc T q) : Framed T fs0 (fs.addName q j) := by
  unfold FS.addName
  refine Framed.touch ?_ q hq.dropLast
  have hj := h.not_out ho hc
  refine ⟨h.next_le, ?_, ?_, h.inode_out, h.inode_quiet, ?_⟩
  rotate_right
  · intro p hp hcp
    rw [lookup_append_new fs q j hn p]
    have : p ≠ q := by intro e; subst e; exact hcp hq
    simp [this, h.absent_keep p hp hcp]
  · intro p i hp hcp
    rw [lookup_append_new fs q j hn p]
    have hk := h.names_keep p i hp hcp
    have : p ≠ q := by intro e; subst e; rw [hn] at hk; cases hk
    simp [this, hk]
  · intro i hi p hp
    rw [lookup_append_new fs q j hn p] at hp
    split at hp
    · exfalso; injection hp with e; exact hj (e ▸ hi)
    · exact h.no_capture i hi p hp

theorem Framed.filter {T : List Path} {fs0 fs : FS} (h : Framed T fs0 fs) (keep : Path → Bool)
    (hk : ∀ p, ¬ Cov T p → keep p = true) :
    Framed T fs0 ({ fs with names := fs.names.filter (fun e => keep e.1) } : FS) := by
  refine ⟨h.next_le, ?_, ?_, h.inode_out, h.inode_quiet, ?_⟩
  rotate_right
  · intro p hp hc
    rw [lookup_filterNames]
    split
    · exact h.absent_keep p hp hc
    · rfl
  · intro p i hp hc
    rw [lookup_filterNames, hk p hc]
    exact h.names_keep p i hp hc
  · intro i hi p hp
    rw [lookup_filterNames] at hp
    split at hp
    · exact h.no_capture i hi p hp
    · cases hp

theorem cov_dropLast {T : List Path} {q : Path} (h : Cov T q) : CovAnc T q.dropLast := CovAnc.dropLast (Or.inl h)

theorem Framed.removeSubtree {T : List Path} {fs0 fs : FS} (h : Framed T fs0 fs) (q : Path) (hq : Cov T q) :
    Framed T fs0 (fs.removeSubtree q) := by
  unfold FS.removeSubtree
  refine Framed.touch (h.filter (fun p => !(under q p)) ?_) q (cov_dropLast hq)
  intro p hp
  cases hu : under q p with
  | false => rfl
  | true => exact absurd (hq.of_under hu) hp

/-- when the root of the name space is covered there is nothing the frame speaks about -/
theorem Framed.all_covered {T : List Path} {fs0 fs : FS} (hc : Cov T []) (hn : fs0.next ≤ fs.next) : Framed T fs0 fs := by
  have hno : ∀ i, ¬ OutI T fs0 i := by
    intro i hi
    obtain ⟨⟨p, hp⟩, hall⟩ := hi
    exact hall p hp (hc.of_prefix (List.nil_prefix))
  exact ⟨hn, fun p i _ hcp => absurd (hc.of_prefix List.nil_prefix) hcp, fun i hi => absurd hi (hno i),
    fun i hi => absurd hi (hno i), fun i hi => absurd hi.1 (hno i),
    fun p _ hcp => absurd (Or.inl (hc.of_prefix List.nil_prefix)) hcp⟩

theorem cov_append {T1 T2 : List Path} {p : Path} : Cov (T1 ++ T2) p ↔ Cov T1 p ∨ Cov T2 p := by
  constructor
  · rintro ⟨t, ht, hp⟩
    rcases List.mem_append.mp ht with h | h
    · exact Or.inl ⟨t, h, hp⟩
    · exact Or.inr ⟨t, h, hp⟩
  · rintro (⟨t, ht, hp⟩ | ⟨t, ht, hp⟩)
    · exact ⟨t, List.mem_append_left _ ht, hp⟩
    · exact ⟨t, List.mem_append_right _ ht, hp⟩

theorem anc_append {T1 T2 : List Path} {p : Path} : Anc (T1 ++ T2) p ↔ Anc T1 p ∨ Anc T2 p := by
  constructor
  · rintro ⟨t, ht, hp⟩
    rcases List.mem_append.mp ht with h | h
    · exact Or.inl ⟨t, h, hp⟩
    · exact Or.inr ⟨t, h, hp⟩
  · rintro (⟨t, ht, hp⟩ | ⟨t, ht, hp⟩)
    · exact ⟨t, List.mem_append_left _ ht, hp⟩
    · exact ⟨t, List.mem_append_right _ ht, hp⟩

/-- frames compose: one extraction after another leaves alone what neither of them names -/
theorem Framed.comp {T1 T2 : List Path} {a b c : FS} (h1 : Framed T1 a b) (h2 : Framed T2 b c) :
    Framed (T1 ++ T2) a c := by
  have key : ∀ i, OutI (T1 ++ T2) a i → OutI T1 a i ∧ OutI T2 b i := by
    intro i hi
    have ho1 : OutI T1 a i := ⟨hi.1, fun p hp hc => hi.2 p hp (cov_append.mpr (Or.inl hc))⟩
    obtain ⟨p0, hp0⟩ := hi.1
    refine ⟨ho1, ⟨p0, h1.names_keep p0 i hp0 (ho1.2 p0 hp0)⟩, ?_⟩
    intro p hp hc
    exact hi.2 p (h1.no_capture i ho1 p hp) (cov_append.mpr (Or.inr hc))
  refine ⟨Nat.le_trans h1.next_le h2.next_le, ?_, ?_, ?_, ?_, ?_⟩
  rotate_right
  · intro p hp hc
    have hc1 : ¬ CovAnc T1 p := fun h => hc (h.elim (fun h => Or.inl (cov_append.mpr (Or.inl h)))
      (fun h => Or.inr (anc_append.mpr (Or.inl h))))
    have hc2 : ¬ CovAnc T2 p := fun h => hc (h.elim (fun h => Or.inl (cov_append.mpr (Or.inr h)))
      (fun h => Or.inr (anc_append.mpr (Or.inr h))))
    exact h2.absent_keep p (h1.absent_keep p hp hc1) hc2
  · intro p i hp hc
    have hc1 : ¬ Cov T1 p := fun h => hc (cov_append.mpr (Or.inl h))
    have hc2 : ¬ Cov T2 p := fun h => hc (cov_append.mpr (Or.inr h))
    exact h2.names_keep p i (h1.names_keep p i hp hc1) hc2
  · intro i hi p hp
    obtain ⟨ho1, ho2⟩ := key i hi
    exact h1.no_capture i ho1 p (h2.no_capture i ho2 p hp)
  · intro i hi
    obtain ⟨ho1, ho2⟩ := key i hi
    rw [h2.inode_out i ho2, h1.inode_out i ho1]
  · intro i hi
    obtain ⟨ho1, ho2⟩ := key i hi.1
    have hq1 : QuietI T1 a i := ⟨ho1, fun p hp hc => hi.2 p hp (anc_append.mpr (Or.inl hc))⟩
    have hq2 : QuietI T2 b i := ⟨ho2, fun p hp hc => hi.2 p (h1.no_capture i ho1 p hp) (anc_append.mpr (Or.inr hc))⟩
    rw [h2.inode_quiet i hq2, h1.inode_quiet i hq1]

theorem next_removeBelow (fs : FS) (q : Path) : (fs.removeBelow q).next = fs.next := by
  unfold FS.removeBelow
  split
  · rw [next_modInode]
  · rfl

end GA
