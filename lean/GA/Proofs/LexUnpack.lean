import GA.Proofs.LexJoin
/-
  The plain extractor (`unpackP`, default whiteout format, no symbolic-link entries) issues only good
  calls: every mutating call names a path lexically beneath the destination.
-/
namespace GA

theorem good_lex {dp : Path} {s : Sys} (h : SysLex dp s) : SysGood dp s := Or.inl h

theorem lexArg_of {dp : Path} {p : Str} (hp : CleanAbs p) (h : dp <+: pathComps p) : LexArg dp p := ⟨h, hp.no_dotdot⟩

/-- informational calls -/
theorem lex_info (dp : Path) (s : Sys) (h : SysLex dp s) : LexSem dp (fun _ => True) (sys s) :=
  lexSem_sys dp s (good_lex h) _ (fun _ _ => trivial)

theorem lexSem_true {α : Type} (dp : Path) {Q : α → Prop} (p : Prog α) (h : LexSem dp Q p) : LexSem dp (fun _ => True) p :=
  LexSem.mono dp (fun _ _ => trivial) p h

theorem lex_setPermissions (dp : Path) (p : Str) (mode : Nat) (owner : Option (Nat × Nat)) (hp : LexArg dp p) :
    LexSem dp (fun _ => True) (setPermissionsP p mode owner) := by
  unfold setPermissionsP
  refine bindL dp _ _ (lex_info dp (.stat p) trivial) ?_
  intro r _
  split
  · refine bindL dp (Q := fun _ => True) _ _ ?_ ?_
    · split
      · exact lex_info dp _ hp
      · exact lexSem_pure dp _ _ trivial
    · intro c _
      split
      · exact lexSem_pure dp _ _ trivial
      · split
        · exact lexSem_pure dp _ _ trivial
        · split
          · exact lexSem_pure dp _ _ trivial
          · exact lex_info dp _ hp
  · exact lexSem_pure dp _ _ trivial

theorem lex_setAll (dp : Path) (mode : Nat) (owner : Option (Nat × Nat)) : ∀ (ps : List Str),
    (∀ p ∈ ps, LexArg dp p) → LexSem dp (fun _ => True) (setAll mode owner ps)
  | [], _ => lexSem_pure dp _ _ trivial
  | p :: ps, h => by
    simp only [setAll]
    refine bindL dp _ _ (lex_setPermissions dp p mode owner (h p (by simp))) ?_
    intro r _
    split
    · exact lexSem_pure dp _ _ trivial
    · exact lex_setAll dp mode owner ps (fun q hq => h q (by simp [hq]))

/-- a path at or above the destination is never reported missing; one beneath it is a good argument -/
def Placed (dp : Path) (d : Str) : Prop := CleanAbs d ∧ (dp <+: pathComps d ∨ pathComps d <+: dp)

theorem stat_missing_lex (dp : Path) (d : Str) (hd : Placed dp d) (fl : Bool) (w : World) (hw : LW dp w) :
    isENOENT (statRes w d fl) = true → LexArg dp d := by
  intro he
  rcases hd.2 with h | h
  · exact lexArg_of hd.1 h
  · have := (stat_above dp w hw d fl hd.1.ne_nil hd.1.no_dotdot h).2
    rw [this] at he; cases he

theorem lex_missingOf (dp : Path) : ∀ (ds : List Str), (∀ d ∈ ds, Placed dp d) →
    LexSem dp (fun ms => ∀ m ∈ ms, LexArg dp m) (missingOf ds)
  | [], _ => lexSem_pure dp _ _ (by simp)
  | d :: ds, h => by
    simp only [missingOf]
    refine bindL dp (Q := fun r => isENOENT r = true → LexArg dp d) _ _ ?_ ?_
    · exact lexSem_sys dp (.stat d) (good_lex (s := .stat d) trivial) _ (fun w hw => by
        simp only [step]; exact stat_missing_lex dp d (h d (by simp)) true w hw)
    · intro r hr
      refine bindL dp _ _ (lex_missingOf dp ds (fun x hx => h x (by simp [hx]))) ?_
      intro rest hrest
      apply lexSem_pure
      intro m hm
      split at hm
      · rcases List.mem_cons.mp hm with rfl | hm
        · exact hr (by assumption)
        · exact hrest m hm
      · exact hrest m hm

theorem lex_mkdirAllAndChown (dp : Path) (path0 : Str) (mode : Nat) (owner : Option (Nat × Nat)) (hp : Placed dp path0) :
    LexSem dp (fun _ => True) (mkdirAllAndChownP path0 mode owner) := by
  unfold mkdirAllAndChownP
  have hcl : clean path0 = path0 := clean_of_cleanAbs _ hp.1
  simp only [hcl]
  refine bindL dp (Q := fun r => isENOENT r = true → LexArg dp path0) _ _ ?_ ?_
  · exact lexSem_sys dp (.stat path0) (good_lex (s := .stat path0) trivial) _ (fun w hw => by
      simp only [step]; exact stat_missing_lex dp path0 hp true w hw)
  · intro r hr
    split
    · split <;> exact lexSem_pure dp _ _ trivial
    · have hanc : ∀ d ∈ ancestorsOf path0.length path0, Placed dp d := by
        intro d hd
        have := ancestorsOf_spec _ _ hp.1 d hd
        refine ⟨this.1, ?_⟩
        rcases hp.2 with h | h
        · exact List.prefix_or_prefix_of_prefix h this.2
        · exact Or.inr (this.2.trans h)
      refine bindL dp _ _ (lex_missingOf dp _ hanc) ?_
      intro missing hmiss
      refine bindL dp (Q := fun _ => True) _ _ ?_ ?_
      · exact lexSem_sys dp _ (Or.inr ⟨path0, mode, rfl, hp.1.no_dotdot, hp.2⟩) _ (fun _ _ => trivial)
      · intro m _
        split
        · exact lexSem_pure dp _ _ trivial
        · apply lex_setAll
          intro p hpm
          rcases List.mem_append.mp hpm with h1 | h1
          · split at h1
            · rw [List.mem_singleton] at h1; rw [h1]; exact hr (by assumption)
            · cases h1
          · exact hmiss p h1

/-- what an accepted name guard says about the entry's path -/
theorem guardName_ok (dest n p : Str) (hd : CleanAbs dest) (h : guardName dest n = .ok p) :
    p = join dest n ∧ CleanAbs p ∧ pathComps dest <+: pathComps p := by
  have hp : CleanAbs (join dest n) := join_cleanAbs dest n hd
  unfold guardName at h
  simp only at h
  split at h
  · cases h
  · rename_i r hr
    split at h
    · cases h
    · rename_i hne
      injection h with h
      subst h
      refine ⟨rfl, hp, ?_⟩
      have hw : isWithin dest (join dest n) = true := by
        unfold isWithin
        rw [hr]
        simp only [not_or] at hne
        simp [hne.1, hne.2]
      obtain ⟨cd, hcd, rfl⟩ := hd
      obtain ⟨cp, hcp, hpe⟩ := hp
      rw [hpe] at hw ⊢
      rw [pathComps_cleanAbs cd hcd, pathComps_cleanAbs cp hcp]
      exact (isWithin_iff cd cp hcd hcp).mp hw

theorem lex_impliedDirs (dp : Path) (dest x : Str) (o : Opts) (hd : CleanAbs dest) (hdp : pathComps dest = dp)
    (hin : dp <+: pathComps (join dest (clean x))) :
    LexSem dp (fun _ => True) (impliedDirsP dest (clean x) o) := by
  unfold impliedDirsP
  split
  · exact lexSem_pure dp _ _ trivial
  · have hc := implied_parent_comparable dest x hd
    have hplaced : Placed dp (join dest (dir (clean x))) := by
      refine ⟨hc.1, ?_⟩
      rcases hc.2.2 with h | h
      · exact List.prefix_or_prefix_of_prefix hin h
      · exact Or.inl (hin.trans h)
    refine bindL dp _ _ (lex_info dp (.lstat _) trivial) ?_
    intro r _
    split
    · exact lex_mkdirAllAndChown dp _ _ _ hplaced
    · exact lexSem_pure dp _ _ trivial

theorem lex_setXattrs (dp : Path) (path : Str) (best : Bool) (hp : LexArg dp path) :
    ∀ (xs : List (Str × List UInt8)), LexSem dp (fun _ => True) (setXattrsP path best xs)
  | [] => lexSem_pure dp _ _ trivial
  | (k, v) :: rest => by
    simp only [setXattrsP]
    refine bindL dp _ _ (lex_info dp (.setxattr path k v false) hp) ?_
    intro r _
    split
    · exact lexSem_pure dp _ _ trivial
    · exact lex_setXattrs dp path best hp rest

theorem lex_applyMeta (dp : Path) (path : Str) (e : Entry) (o : Opts) (hp : LexArg dp path) :
    LexSem dp (fun _ => True) (applyMetaP path e o) := by
  unfold applyMetaP
  refine bindL dp (Q := fun _ => True) _ _ ?_ ?_
  · split
    · exact lexSem_pure dp _ _ trivial
    · exact lex_info dp (.chown path _ _ false) hp
  · intro c _
    split
    · exact lexSem_pure dp _ _ trivial
    · refine bindL dp _ _ (lex_setXattrs dp path _ hp _) ?_
      intro x _
      split
      · exact lexSem_pure dp _ _ trivial
      · refine bindL dp (Q := fun _ => True) _ _ ?_ ?_
        · split
          · refine bindL dp _ _ (lex_info dp (.lstat path) trivial) ?_
            intro l _
            split
            · exact lex_info dp (.chmod path _) hp
            · exact lexSem_pure dp _ _ trivial
          · split
            · exact lex_info dp (.chmod path _) hp
            · exact lexSem_pure dp _ _ trivial
        · intro m _
          split
          · exact lexSem_pure dp _ _ trivial
          · refine bindL dp (Q := fun _ => True) _ _ ?_ ?_
            · split
              · refine bindL dp _ _ (lex_info dp (.lstat path) trivial) ?_
                intro l _
                split
                · exact lex_info dp (.utimes path _ true) hp
                · exact lexSem_pure dp _ _ trivial
              · split
                · exact lex_info dp (.utimes path _ true) hp
                · exact lex_info dp (.utimes path _ false) hp
            · intro u _
              split
              · exact lexSem_pure dp _ _ trivial
              · exact lexSem_pure dp _ _ trivial

theorem kindOfTyp_ne_sym (t : Typ) : kindOfTyp t ≠ .sym := by cases t <;> simp [kindOfTyp]

theorem lex_createTarFile (dp : Path) (path xd : Str) (e : Entry) (o : Opts) (hp : LexArg dp path)
    (hxd : CleanAbs xd) (hdp : pathComps xd = dp) (hsym : e.typ ≠ .sym) :
    LexSem dp (fun _ => True) (createTarFileP path xd e o) := by
  unfold createTarFileP
  split
  · -- dir
    refine bindL dp _ _ (lex_info dp (.lstat path) trivial) ?_
    intro l _
    split
    · exact lex_applyMeta dp path e o hp
    · refine bindL dp _ _ (lex_info dp (.mkdir path _) hp) ?_
      intro r _
      split
      · exact lexSem_pure dp _ _ trivial
      · exact lex_applyMeta dp path e o hp
  · -- reg
    refine bindL dp _ _ (lex_info dp (.createWrite path _ _) hp) ?_
    intro r _
    split
    · exact lexSem_pure dp _ _ trivial
    · split
      · exact lexSem_pure dp _ _ trivial
      · exact lex_applyMeta dp path e o hp
  · -- blk
    split
    · exact lexSem_pure dp _ _ trivial
    · refine bindL dp _ _ (lex_info dp (.mknod path _ _ _) ⟨hp, kindOfTyp_ne_sym _⟩) ?_
      intro r _
      split
      · exact lexSem_pure dp _ _ trivial
      · exact lex_applyMeta dp path e o hp
  · -- chr
    split
    · exact lexSem_pure dp _ _ trivial
    · refine bindL dp _ _ (lex_info dp (.mknod path _ _ _) ⟨hp, kindOfTyp_ne_sym _⟩) ?_
      intro r _
      split
      · exact lexSem_pure dp _ _ trivial
      · exact lex_applyMeta dp path e o hp
  · -- fifo
    refine bindL dp _ _ (lex_info dp (.mknod path .fifo _ _) ⟨hp, by simp⟩) ?_
    intro r _
    split
    · split <;> exact lexSem_pure dp _ _ trivial
    · exact lex_applyMeta dp path e o hp
  · -- hard link: the target passed the guard
    simp only
    split
    · exact lexSem_pure dp _ _ trivial
    · rename_i hw
      have hw' : isWithin xd (join xd e.linkname) = true := by simpa using hw
      have ht : CleanAbs (join xd e.linkname) := join_cleanAbs xd _ hxd
      have hlex : LexArg dp (join xd e.linkname) := by
        refine lexArg_of ht ?_
        obtain ⟨cd, hcd, rfl⟩ := hxd
        obtain ⟨ct, hct, hte⟩ := ht
        rw [hte] at hw' ⊢
        rw [← hdp, pathComps_cleanAbs cd hcd, pathComps_cleanAbs ct hct]
        exact (isWithin_iff cd ct hcd hct).mp hw'
      refine bindL dp _ _ (lex_info dp (.link _ path) ⟨hlex, hp⟩) ?_
      intro r _
      split
      · exact lexSem_pure dp _ _ trivial
      · exact lex_applyMeta dp path e o hp
  · -- symbolic link: excluded
    rename_i hs
    exact absurd hs hsym
  · exact lexSem_pure dp _ _ trivial
  · exact lexSem_pure dp _ _ trivial

theorem lex_dirTimes (dp : Path) (dest : Str) : ∀ (es : List Entry), (∀ e ∈ es, LexArg dp (join dest e.name)) →
    LexSem dp (fun _ => True) (dirTimesP dest es)
  | [], _ => lexSem_pure dp _ _ trivial
  | e :: es, h => by
    simp only [dirTimesP]
    refine bindL dp _ _ (lex_info dp (.lstat _) trivial) ?_
    intro l _
    split
    · exact lex_dirTimes dp dest es (fun x hx => h x (by simp [hx]))
    · refine bindL dp _ _ (lex_info dp (.utimes _ _ true) (h e (by simp))) ?_
      intro r _
      split
      · exact lexSem_pure dp _ _ trivial
      · exact lex_dirTimes dp dest es (fun x hx => h x (by simp [hx]))

theorem remapE_typ (o : Opts) (e e' : Entry) (h : remapE o e = some e') : e'.typ = e.typ := by
  unfold remapE at h
  cases hh : toHostPair o e.uid e.gid with
  | none => rw [hh] at h; cases h
  | some pr => rw [hh] at h; simp at h; rw [← h]

theorem cleanAbs_eq_of_comps {a b : Str} (ha : CleanAbs a) (hb : CleanAbs b) (h : pathComps a = pathComps b) : a = b := by
  obtain ⟨ca, hca, rfl⟩ := ha
  obtain ⟨cb, hcb, rfl⟩ := hb
  rw [pathComps_cleanAbs ca hca, pathComps_cleanAbs cb hcb] at h
  rw [h]

/-- **the loop of `Unpack` issues only good calls** (default whiteout format, no symbolic-link entries) -/
theorem lex_unpackLoop (dp : Path) (dest : Str) (o : Opts) (hd : CleanAbs dest) (hdp : pathComps dest = dp)
    (hov : o.overlay = false) : ∀ (es dirs : List Entry), (∀ e ∈ es, e.typ ≠ .sym) →
    (∀ e ∈ dirs, LexArg dp (join dest e.name)) → LexSem dp (fun _ => True) (unpackLoop dest o es dirs)
  | [], dirs, _, hdirs => by
    simp only [unpackLoop]
    exact lex_dirTimes dp dest _ (fun e he => hdirs e (by simpa using he))
  | e :: es, dirs, hsym, hdirs => by
    have hrec : ∀ dirs', (∀ x ∈ dirs', LexArg dp (join dest x.name)) →
        LexSem dp (fun _ => True) (unpackLoop dest o es dirs') :=
      fun dirs' h' => lex_unpackLoop dp dest o hd hdp hov es dirs' (fun x hx => hsym x (by simp [hx])) h'
    have hes : e.typ ≠ .sym := hsym e (by simp)
    simp only [unpackLoop]
    split
    · exact hrec dirs hdirs
    · split
      · exact hrec dirs hdirs
      · split
        · exact lexSem_pure dp _ _ trivial
        · rename_i p hg
          obtain ⟨hpe, hpc, hpin⟩ := guardName_ok dest (clean e.name) p hd hg
          rw [hdp] at hpin
          have hp : LexArg dp p := lexArg_of hpc hpin
          have hin' : dp <+: pathComps (join dest (clean e.name)) := by rw [← hpe]; exact hpin
          refine bindL dp _ _ (lex_impliedDirs dp dest e.name o hd hdp hin') ?_
          intro i _
          split
          · exact lexSem_pure dp _ _ trivial
          · -- lstat of the entry's path: at the destination itself it reports a directory
            refine bindL dp (Q := fun l => pathComps p = dp → ∀ s, l = .stat s → s.kind = .dir) _ _ ?_ ?_
            · exact lexSem_sys dp (.lstat p) (good_lex (s := .lstat p) trivial) _ (fun w hw hpd s hs => by
                simp only [step] at hs
                exact (stat_above dp w hw p false hpc.ne_nil hpc.no_dotdot (by rw [hpd]; exact List.prefix_refl _)).1 s hs)
            · intro l hl
              split
              · exact lexSem_pure dp _ _ trivial
              · split
                · exact hrec dirs hdirs
                · -- act is 0 or 3
                  refine bindL dp (Q := fun _ => True) _ _ ?_ ?_
                  · split
                    · rename_i hact
                      -- removal: never of the destination itself
                      have hstrict : pathComps p ≠ dp := by
                        intro hpd
                        have hpeq : p = dest := cleanAbs_eq_of_comps hpc hd (by rw [hpd, hdp])
                        have hself : (p == clean dest) = true := by
                          rw [clean_of_cleanAbs dest hd, hpeq]; simp
                        unfold actOf at hact
                        cases l with
                        | stat s =>
                          have hk := hl hpd s rfl
                          simp only [hk, hself] at hact
                          simp at hact
                          split at hact <;> simp at hact
                        | _ => simp at hact
                      exact lex_info dp (.removeAll p) ⟨hp, hstrict⟩
                    · exact lexSem_pure dp _ _ trivial
                  · intro rm _
                    split
                    · exact lexSem_pure dp _ _ trivial
                    · split
                      · exact lexSem_pure dp _ _ trivial
                      · rename_i e' he'
                        have hty : e'.typ = e.typ := remapE_typ o e e' he'
                        simp only [hov, Bool.false_eq_true, if_false]
                        refine bindL dp (Q := fun c => c = some true) _ _ (lexSem_pure dp _ _ rfl) ?_
                        intro conv hconv
                        subst hconv
                        simp only
                        refine bindL dp _ _ (lex_createTarFile dp p dest e' o hp hd hdp (by rw [hty]; exact hes)) ?_
                        intro out _
                        split
                        · exact lexSem_pure dp _ _ trivial
                        · apply hrec
                          intro x hx
                          split at hx
                          · rcases List.mem_cons.mp hx with rfl | hx
                            · simp only; rw [← hpe]; exact hp
                            · exact hdirs x hx
                          · exact hdirs x hx

/-- `archive.Untar` into an absolute destination: every call is good -/
theorem lex_untar (dest : Str) (o : Opts) (es : List Entry) (habs : isAbs dest = true) (hov : o.overlay = false)
    (hsym : ∀ e ∈ es, e.typ ≠ .sym) :
    LexSem (pathComps (clean dest)) (fun _ => True) (untarP dest o es) := by
  unfold untarP unpackP
  exact lex_unpackLoop _ (clean dest) o (clean_cleanAbs dest habs) rfl hov es [] hsym (by simp)

end GA
