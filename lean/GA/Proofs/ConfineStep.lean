import GA.Proofs.Confine
/-
  Every system call of layer K, issued by a thread whose root lies under `r`, leaves the
  filesystem `Confined r`; hence so does every program (`run_confined`, by induction on `Prog`),
  with or without injected faults.
-/
namespace GA

theorem walk_under (fs : FS) (root : Path) : ∀ (fuel links : Nat) (cur : Path) (rest : List Str) (fl : Bool) (q : Path),
    under root cur = true → walk fs root fuel links cur rest fl = .ok q → under root q = true := by
  intro fuel
  induction fuel with
  | zero =>
    intro links cur rest fl q h
    cases rest with
    | nil => simp [walk]; intro h'; subst h'; exact h
    | cons c rest => simp [walk]
  | succ n ih =>
    intro links cur rest fl q h
    cases rest with
    | nil => simp [walk]; intro h'; subst h'; exact h
    | cons c rest =>
      simp only [walk]
      split
      · split <;> simp
      · split
        · split
          · exact ih _ _ _ _ _ h
          · rename_i hne; exact ih _ _ _ _ _ (under_dropLast h hne)
        · split
          · split
            · intro h'; simp at h'; subst h'; exact under_append _ _ _ h
            · simp
          · split
            · split
              · simp
              · split
                · simp
                · split
                  · exact ih _ _ _ _ _ (under_refl root)
                  · exact ih _ _ _ _ _ h
            · exact ih _ _ _ _ _ (under_append _ _ _ h)

theorem resolve_under (w : World) (s : Str) (fl : Bool) (q : Path) (h : resolve w s fl = .ok q) :
    under w.root q = true := by
  unfold resolve at h
  split at h
  · cases h
  · simp only at h
    split at h
    · cases h
    · rename_i p hp
      have hu := walk_under _ _ _ _ _ _ _ _ (under_refl w.root) hp
      split at h
      · split at h
        · split at h
          · cases h; exact hu
          · cases h
        · cases h; exact hu
      · cases h; exact hu

theorem resolveC_under (w : World) (s : Str) (q : Path) (h : resolveC w s = .ok q) :
    under w.root q = true := by
  unfold resolveC at h
  split at h
  · cases h
  · exact walk_under _ _ _ _ _ _ _ _ (under_refl w.root) h

structure Inv (r : Path) (w : World) : Prop where
  root_under : under r w.root = true
  root_exists : (w.fs.lookup w.root).isSome = true
  next_fresh : NextFresh w.fs

theorem NextFresh.modInode {fs : FS} (h : NextFresh fs) (i : Ino) (f : Inode → Inode) :
    NextFresh (fs.modInode i f) := by
  intro p j hp
  rw [lookup_modInode] at hp
  rw [next_modInode]
  exact h p j hp

theorem NextFresh.touchParent {fs : FS} (h : NextFresh fs) (q : Path) : NextFresh (fs.touchParent q) := by
  unfold FS.touchParent; split
  · exact h.modInode _ _
  · exact h

theorem NextFresh.setInode {fs : FS} (h : NextFresh fs) (i : Ino) (n : Inode) :
    NextFresh (fs.setInode i n) := fun p j hp => h p j hp

theorem NextFresh.create {fs : FS} (h : NextFresh fs) (q : Path) (n : Inode) (hn : fs.lookup q = none) :
    NextFresh (fs.create q n) := by
  unfold FS.create
  apply NextFresh.touchParent
  intro p j hp
  have hp' : ({ fs with names := fs.names ++ [(q, fs.next)] } : FS).lookup p = some j := hp
  rw [lookup_append_new fs q fs.next hn p] at hp'
  show j < fs.next + 1
  split at hp'
  · cases hp'; exact Nat.lt_succ_self _
  · exact Nat.lt_succ_of_lt (h p j hp')

theorem NextFresh.addName {fs : FS} (h : NextFresh fs) (q qo : Path) (i : Ino) (hn : fs.lookup q = none)
    (ho : fs.lookup qo = some i) : NextFresh (fs.addName q i) := by
  unfold FS.addName
  apply NextFresh.touchParent
  intro p j hp
  rw [lookup_append_new fs q i hn p] at hp
  split at hp
  · cases hp; exact h qo _ ho
  · exact h p j hp

theorem NextFresh.filter {fs : FS} (h : NextFresh fs) (keep : Path → Bool) :
    NextFresh ({ fs with names := fs.names.filter (fun e => keep e.1) } : FS) := by
  intro p j hp
  have : ((fs.names.filter (fun e => keep e.1)).find? (fun e => e.1 == p)).map (·.2) = some j := hp
  rw [lookup_filter] at this
  split at this
  · exact h p j this
  · cases this

theorem NextFresh.removeSubtree {fs : FS} (h : NextFresh fs) (q : Path) : NextFresh (fs.removeSubtree q) := by
  unfold FS.removeSubtree
  exact (h.filter (fun p => !(under q p))).touchParent q

theorem NextFresh.removeBelow {fs : FS} (h : NextFresh fs) (q : Path) : NextFresh (fs.removeBelow q) := by
  unfold FS.removeBelow; split
  · exact (h.filter (fun p => !(under q p) || p == q)).modInode _ _
  · exact h

/-- the root's own name survives a step -/
def RootKept (root : Path) (fs fs' : FS) : Prop := (fs.lookup root).isSome = true → (fs'.lookup root).isSome = true

theorem rootKept_modInode (root : Path) (fs : FS) (i : Ino) (f : Inode → Inode) : RootKept root fs (fs.modInode i f) := by
  intro h; rw [lookup_modInode]; exact h

theorem rootKept_touchParent (root : Path) (fs : FS) (q : Path) : RootKept root fs (fs.touchParent q) := by
  unfold FS.touchParent; split
  · exact rootKept_modInode root fs _ _
  · exact id

theorem rootKept_create (root : Path) (fs : FS) (q : Path) (n : Inode) (hn : fs.lookup q = none) :
    RootKept root fs (fs.create q n) := by
  intro h
  unfold FS.create
  apply rootKept_touchParent
  show (({ fs with names := fs.names ++ [(q, fs.next)] } : FS).lookup root).isSome = true
  rw [lookup_append_new fs q fs.next hn root]
  split
  · rfl
  · exact h

theorem rootKept_addName (root : Path) (fs : FS) (q : Path) (i : Ino) (hn : fs.lookup q = none) :
    RootKept root fs (fs.addName q i) := by
  intro h
  unfold FS.addName
  apply rootKept_touchParent
  rw [lookup_append_new fs q i hn root]
  split
  · rfl
  · exact h

theorem rootKept_removeSubtree (root : Path) (fs : FS) (q : Path) (hu : under root q = true) (hne : q ≠ root) :
    RootKept root fs (fs.removeSubtree q) := by
  intro h
  unfold FS.removeSubtree
  apply rootKept_touchParent
  have hl := lookup_filterNames fs (fun p => !(under q p)) root
  have : under q root = false := by
    cases hq : under q root with
    | false => rfl
    | true =>
      exfalso
      simp only [under, List.isPrefixOf_iff_prefix] at hu hq
      have hlen1 := hq.length_le
      have hlen2 := hu.length_le
      exact hne (hq.eq_of_length_le hlen2)
  simp only [this, Bool.not_false, if_true] at hl
  rw [hl]; exact h

theorem rootKept_removeBelow (root : Path) (fs : FS) : RootKept root fs (fs.removeBelow root) := by
  intro h
  unfold FS.removeBelow
  split
  · rw [lookup_modInode]
    have hl := lookup_filterNames fs (fun p => !(under root p) || p == root) root
    simp only [beq_self_eq_true, Bool.or_true, if_true] at hl
    rw [hl]; exact h
  · exact h


def StepOK (r : Path) (w w' : World) : Prop := Confined r w.fs w'.fs ∧ Inv r w'

theorem StepOK.same (r : Path) (w : World) (h : Inv r w) : StepOK r w w := ⟨Confined.refl _ _, h⟩

theorem StepOK.mk (r : Path) (w : World) (fs' : FS) (h : Inv r w) (hc : Confined r w.fs fs')
    (hn : NextFresh fs') (hk : RootKept w.root w.fs fs') : StepOK r w { w with fs := fs' } :=
  ⟨hc, ⟨h.root_under, hk h.root_exists, hn⟩⟩

theorem Inv.under_of_resolve {r : Path} {w : World} (h : Inv r w) {s : Str} {fl : Bool} {q : Path}
    (hq : resolve w s fl = .ok q) : under r q = true := under_trans h.root_under (resolve_under w s fl q hq)

theorem Inv.under_of_resolveC {r : Path} {w : World} (h : Inv r w) {s : Str} {q : Path}
    (hq : resolveC w s = .ok q) : under r q = true := under_trans h.root_under (resolveC_under w s q hq)

theorem Inv.parent_under {r : Path} {w : World} (h : Inv r w) {q : Path} (hu : under w.root q = true)
    (hn : w.fs.lookup q = none) : under r q.dropLast = true := by
  have hne : q ≠ w.root := by
    intro e; subst e
    have := h.root_exists
    rw [hn] at this; cases this
  exact under_trans h.root_under (under_dropLast hu hne)

theorem isSome_false_none {α} {o : Option α} (h : ¬ o.isSome = true) : o = none := by
  cases o <;> simp_all

/-- creating a fresh object at a resolved, not yet existing, inside path -/
theorem StepOK.create (r : Path) (w : World) (h : Inv r w) (q : Path) (n : Inode)
    (hu : under w.root q = true) (hn : w.fs.lookup q = none) :
    StepOK r w { w with fs := w.fs.create q n } :=
  StepOK.mk r w _ h
    (create_confined r w.fs q n hn (under_trans h.root_under hu) (h.parent_under hu hn) h.next_fresh)
    (h.next_fresh.create q n hn) (rootKept_create w.root w.fs q n hn)

theorem StepOK.modInode (r : Path) (w : World) (h : Inv r w) (q : Path) (i : Ino) (f : Inode → Inode)
    (hu : under w.root q = true) (hq : w.fs.lookup q = some i) :
    StepOK r w { w with fs := w.fs.modInode i f } :=
  StepOK.mk r w _ h (modInode_confined r w.fs i f q hq (under_trans h.root_under hu))
    (h.next_fresh.modInode i f) (rootKept_modInode w.root w.fs i f)

theorem StepOK.setInode (r : Path) (w : World) (h : Inv r w) (q : Path) (i : Ino) (n : Inode)
    (hu : under w.root q = true) (hq : w.fs.lookup q = some i) :
    StepOK r w { w with fs := w.fs.setInode i n } :=
  StepOK.mk r w _ h (setInode_confined r w.fs i n q hq (under_trans h.root_under hu))
    (h.next_fresh.setInode i n) (fun hh => hh)

theorem StepOK.trans {r : Path} {w w1 w2 : World} (h1 : StepOK r w w1) (h2 : StepOK r w1 w2) : StepOK r w w2 :=
  ⟨Confined.trans h1.1 h2.1, h2.2⟩

theorem mkdirOne_ok (r : Path) (w : World) (p : Str) (perm : Nat) (h : Inv r w) : StepOK r w (mkdirOne w p perm).2 := by
  unfold mkdirOne
  split
  · exact StepOK.same r w h
  · rename_i q hq
    split
    · exact StepOK.same r w h
    · rename_i hex
      split
      · exact StepOK.same r w h
      · exact StepOK.create r w h q _ (resolveC_under w p q hq) (isSome_false_none hex)

theorem mkdirAllK_ok (r : Path) : ∀ (fuel : Nat) (w : World) (p : Str) (perm : Nat), Inv r w →
    StepOK r w (mkdirAllK fuel w p perm).2 := by
  intro fuel
  induction fuel with
  | zero => intro w p perm h; exact StepOK.same r w h
  | succ n ih =>
    intro w p perm h
    simp only [mkdirAllK]
    split
    · split <;> exact StepOK.same r w h
    · -- parent first
      have hpar : StepOK r w (if (splitLast (stripTrailingSlashes p)).1.length > 0 ∧ (splitLast (stripTrailingSlashes p)).1 ≠ p
          then mkdirAllK n w (splitLast (stripTrailingSlashes p)).1 perm else (Res.ok, w)).2 := by
        split
        · exact ih w _ perm h
        · exact StepOK.same r w h
      generalize (if (splitLast (stripTrailingSlashes p)).1.length > 0 ∧ (splitLast (stripTrailingSlashes p)).1 ≠ p
          then mkdirAllK n w (splitLast (stripTrailingSlashes p)).1 perm else (Res.ok, w)) = pr at hpar ⊢
      split
      · exact hpar
      · have hm := mkdirOne_ok r pr.2 p perm hpar.2
        have := StepOK.trans hpar hm
        split
        · split
          · split <;> exact this
          · exact this
        · exact this

set_option maxHeartbeats 1000000 in
/-- **every system call is confined to the thread's root** -/
theorem step_confined (r : Path) (w : World) (s : Sys) (h : Inv r w) : StepOK r w (step w s).2 := by
  cases s with
  | lstat p => simp only [step]; exact StepOK.same r w h
  | stat p => simp only [step]; exact StepOK.same r w h
  | readFile p =>
    simp only [step]
    repeat' split
    all_goals exact StepOK.same r w h
  | getxattr p k =>
    simp only [step]
    repeat' split
    all_goals exact StepOK.same r w h
  | readlink p =>
    simp only [step]
    repeat' split
    all_goals exact StepOK.same r w h
  | listTree p =>
    simp only [step]
    repeat' split
    all_goals exact StepOK.same r w h
  | setUmask m =>
    simp only [step]
    exact ⟨Confined.refl _ _, ⟨h.root_under, h.root_exists, h.next_fresh⟩⟩
  | mkdir p perm =>
    simp only [step]
    exact mkdirOne_ok r w p perm h
  | mkdirAll p perm =>
    simp only [step]
    exact mkdirAllK_ok r _ w p perm h
  | symlink target p =>
    simp only [step]
    split
    · exact StepOK.same r w h
    · rename_i q hq
      split
      · exact StepOK.same r w h
      · rename_i hex
        split
        · exact StepOK.same r w h
        · split
          · exact StepOK.same r w h
          · exact StepOK.create r w h q _ (resolveC_under w p q hq) (isSome_false_none hex)
  | mknod p k perm rdev =>
    simp only [step]
    split
    · exact StepOK.same r w h
    · rename_i q hq
      split
      · exact StepOK.same r w h
      · rename_i hex
        split
        · exact StepOK.same r w h
        · exact StepOK.create r w h q _ (resolveC_under w p q hq) (isSome_false_none hex)
  | mkdtemp dir pfx =>
    simp only [step]
    split
    · exact StepOK.same r w h
    · rename_i q hq
      split
      · exact StepOK.same r w h
      · rename_i hex
        split
        · exact StepOK.same r w h
        · exact StepOK.create r w h q _ (resolve_under w _ false q hq) (isSome_false_none hex)
  | createWrite p perm data =>
    simp only [step]
    split
    · exact StepOK.same r w h
    · rename_i q hq
      have hu := resolve_under w p true q hq
      split
      · rename_i i hi
        split
        · split
          · exact StepOK.same r w h
          · split
            · exact StepOK.same r w h
            · split
              · exact StepOK.same r w h
              · exact StepOK.setInode r w h q i _ hu hi
        · exact StepOK.same r w h
      · rename_i hnone
        split
        · exact StepOK.same r w h
        · exact StepOK.create r w h q _ hu hnone
  | link old new =>
    simp only [step]
    split
    · exact StepOK.same r w h
    · exact StepOK.same r w h
    · rename_i qo qn hqo hqn
      split
      · exact StepOK.same r w h
      · rename_i i hi
        split
        · exact StepOK.same r w h
        · split
          · exact StepOK.same r w h
          · rename_i hex
            split
            · exact StepOK.same r w h
            · have hun := resolveC_under w new qn hqn
              have huo := resolve_under w old false qo hqo
              have hnone := isSome_false_none hex
              exact StepOK.mk r w _ h
                (addName_confined r w.fs qn qo i hnone (under_trans h.root_under hun)
                  (h.parent_under hun hnone) hi (under_trans h.root_under huo))
                (h.next_fresh.addName qn qo i hnone hi) (rootKept_addName w.root w.fs qn i hnone)
  | chown p uid gid follow =>
    simp only [step]
    split
    · exact StepOK.same r w h
    · rename_i q hq
      split
      · exact StepOK.same r w h
      · rename_i i hi
        exact StepOK.modInode r w h q i _ (resolve_under w p follow q hq) hi
  | chmod p perm =>
    simp only [step]
    split
    · exact StepOK.same r w h
    · rename_i q hq
      split
      · exact StepOK.same r w h
      · rename_i i hi
        exact StepOK.modInode r w h q i _ (resolve_under w p true q hq) hi
  | setxattr p k v follow =>
    simp only [step]
    split
    · exact StepOK.same r w h
    · rename_i q hq
      split
      · exact StepOK.same r w h
      · rename_i i hi
        split
        · exact StepOK.same r w h
        · split
          · exact StepOK.same r w h
          · exact StepOK.setInode r w h q i _ (resolve_under w p follow q hq) hi
  | utimes p mtime follow =>
    simp only [step]
    split
    · exact StepOK.same r w h
    · rename_i q hq
      split
      · exact StepOK.same r w h
      · rename_i i hi
        split
        · exact StepOK.same r w h
        · exact StepOK.modInode r w h q i _ (resolve_under w p follow q hq) hi
  | removeAll p =>
    simp only [step]
    split
    · exact StepOK.same r w h
    · split
      · exact StepOK.same r w h
      · exact StepOK.same r w h
      · exact StepOK.same r w h
      · rename_i q hq
        have hu := resolve_under w p false q hq
        split
        · exact StepOK.same r w h
        · split
          · rename_i heq
            subst heq
            exact StepOK.mk r w _ h (removeBelow_confined r w.fs w.root h.root_under)
              (h.next_fresh.removeBelow w.root) (rootKept_removeBelow w.root w.fs)
          · rename_i hne
            exact StepOK.mk r w _ h
              (removeSubtree_confined r w.fs q (under_trans h.root_under hu)
                (under_trans h.root_under (under_dropLast hu hne)))
              (h.next_fresh.removeSubtree q) (rootKept_removeSubtree w.root w.fs q hu hne)
  | chroot p =>
    simp only [step]
    split
    · exact StepOK.same r w h
    · rename_i q hq
      have hu := resolve_under w p true q hq
      split
      · exact StepOK.same r w h
      · rename_i i hi
        split
        · exact StepOK.same r w h
        · refine ⟨modInode_confined r w.fs i _ q hi (under_trans h.root_under hu), ?_⟩
          refine ⟨under_trans h.root_under hu, ?_, h.next_fresh.modInode i _⟩
          show ((w.fs.modInode i _).lookup q).isSome = true
          rw [lookup_modInode, hi]; rfl

/-- **every program is confined to the thread's root** (by induction on the program) -/
theorem run_confined {α : Type} (r : Path) : ∀ (p : Prog α) (w : World), Inv r w →
    Confined r w.fs (p.run w).2.fs ∧ Inv r (p.run w).2 := by
  intro p
  induction p with
  | ret a => intro w h; exact ⟨Confined.refl _ _, h⟩
  | call s k ih =>
    intro w h
    simp only [Prog.run]
    have hs := step_confined r w s h
    have := ih (step w s).1 (step w s).2 hs.2
    exact ⟨Confined.trans hs.1 this.1, this.2⟩

/-- … also when any subset of its system calls is refused instead of executed -/
theorem runF_confined {α : Type} (r : Path) (faults : Nat → Option Errno) : ∀ (p : Prog α) (n : Nat) (w : World),
    Inv r w → Confined r w.fs (p.runF faults n w).2.fs ∧ Inv r (p.runF faults n w).2 := by
  intro p
  induction p with
  | ret a => intro n w h; exact ⟨Confined.refl _ _, h⟩
  | call s k ih =>
    intro n w h
    simp only [Prog.runF]
    split
    · exact ih _ (n + 1) w h
    · have hs := step_confined r w s h
      have := ih (step w s).1 (n + 1) (step w s).2 hs.2
      exact ⟨Confined.trans hs.1 this.1, this.2⟩

end GA
