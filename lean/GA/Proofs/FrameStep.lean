import GA.Proofs.Frame
/-
  One system call and the frame: in a world without symbolic links (thread root "/") a call whose
  mutating path arguments are covered by the archive's names keeps the frame.
-/
namespace GA

/-- a path string without ".." whose components are covered -/
def FArg (T : List Path) (p : Str) : Prop := Cov T (pathComps p) ∧ dotdot ∉ pathComps p

/-- … covered or on the way to a covered path (creation of a missing directory) -/
def CArg (T : List Path) (p : Str) : Prop := CovAnc T (pathComps p) ∧ dotdot ∉ pathComps p

/-- … covered, or a name that did not exist when the extraction started (metadata of a directory the
    extraction itself made) -/
def MArg (T : List Path) (fs0 : FS) (p : Str) : Prop :=
  (Cov T (pathComps p) ∨ fs0.lookup (pathComps p) = none) ∧ dotdot ∉ pathComps p

def SysFr (T : List Path) (fs0 : FS) : Sys → Prop
  | .lstat _ | .stat _ | .readFile _ | .getxattr _ _ | .readlink _ | .listTree _ | .setUmask _ => True
  | .mkdir p _ => CArg T p
  | .mkdirAll p _ => CArg T p
  | .createWrite p _ _ => FArg T p
  | .link old new => MArg T fs0 old ∧ CArg T new
  | .symlink _ _ => False
  | .mknod p _ _ _ => CArg T p
  | .chown p _ _ _ => MArg T fs0 p
  | .chmod p _ => MArg T fs0 p
  | .setxattr p _ _ _ => MArg T fs0 p
  | .utimes p _ _ => MArg T fs0 p
  | .removeAll p => FArg T p
  | .mkdtemp dir pfx => CArg T (join dir (pfx ++ b!"0000000000"))
  | .chroot _ => False

theorem FArg.toC {T : List Path} {p : Str} (h : FArg T p) : CArg T p := ⟨Or.inl h.1, h.2⟩
theorem FArg.toM {T : List Path} {fs0 : FS} {p : Str} (h : FArg T p) : MArg T fs0 p := ⟨Or.inl h.1, h.2⟩

theorem mkdirOne_frame (T : List Path) (fs0 : FS) (h0 : NextFresh fs0) (w : World) (hr : w.root = []) (hns : NoSym w.fs)
    (p : Str) (perm : Nat) (hf : Framed T fs0 w.fs) (hp : CArg T p) : Framed T fs0 (mkdirOne w p perm).2.fs := by
  unfold mkdirOne
  split
  · exact hf
  · rename_i q hq
    have e := resolveC_lexical w hr hns p q hp.2 hq
    split
    · exact hf
    · rename_i hex
      split
      · exact hf
      · exact hf.create h0 q _ (isSome_false_none hex) (by rw [e]; exact hp.1)

set_option maxHeartbeats 1000000 in
/-- **a call whose mutating arguments are covered keeps the frame** (no symbolic links, thread root "/");
    `mkdirAll` is `mkdirAllK_frame` below -/
theorem step_frame (T : List Path) (fs0 : FS) (h0 : NextFresh fs0) (w : World) (hr : w.root = []) (hns : NoSym w.fs)
    (s : Sys) (hf : Framed T fs0 w.fs) (hs : SysFr T fs0 s) (hnm : ∀ p perm, s ≠ .mkdirAll p perm) :
    Framed T fs0 (step w s).2.fs := by
  cases s with
  | lstat p => simp only [step]; exact hf
  | stat p => simp only [step]; exact hf
  | readFile p => simp only [step]; repeat' split
                  all_goals exact hf
  | getxattr p k => simp only [step]; repeat' split
                    all_goals exact hf
  | readlink p => simp only [step]; repeat' split
                  all_goals exact hf
  | listTree p => simp only [step]; repeat' split
                  all_goals exact hf
  | setUmask m => simp only [step]; exact hf
  | mkdir p perm => simp only [step]; exact mkdirOne_frame T fs0 h0 w hr hns p perm hf hs
  | mkdirAll p perm => exact absurd rfl (hnm p perm)
  | symlink target p => exact absurd hs id
  | chroot p => exact absurd hs id
  | mkdtemp d pfx =>
    simp only [step]
    split
    · exact hf
    · rename_i q hq
      have e := resolve_lexical w hr hns _ false q hs.2 hq
      split
      · exact hf
      · rename_i hex
        split
        · exact hf
        · exact hf.create h0 q _ (isSome_false_none hex) (by rw [e]; exact hs.1)
  | mknod p k perm rdev =>
    simp only [step]
    split
    · exact hf
    · rename_i q hq
      have e := resolveC_lexical w hr hns p q hs.2 hq
      split
      · exact hf
      · rename_i hex
        split
        · exact hf
        · exact hf.create h0 q _ (isSome_false_none hex) (by rw [e]; exact hs.1)
  | createWrite p perm data =>
    simp only [step]
    split
    · exact hf
    · rename_i q hq
      have e := resolve_lexical w hr hns p true q hs.2 hq
      split
      · rename_i i hi
        split
        · split
          · exact hf
          · split
            · exact hf
            · split
              · exact hf
              · exact hf.setOther i _ (hf.not_out hi (Or.inl (by rw [e]; exact hs.1)))
        · exact hf
      · rename_i hnone
        split
        · exact hf
        · exact hf.create h0 q _ hnone (by rw [e]; exact Or.inl hs.1)
  | link old new =>
    simp only [step]
    split
    · exact hf
    · exact hf
    · rename_i qo qn hqo hqn
      have eo := resolve_lexical w hr hns old false qo hs.1.2 hqo
      have en := resolveC_lexical w hr hns new qn hs.2.2 hqn
      split
      · exact hf
      · rename_i i hi
        split
        · exact hf
        · split
          · exact hf
          · rename_i hex
            split
            · exact hf
            · exact hf.addName qn qo i (isSome_false_none hex) hi (by rw [eo]; exact hs.1.1)
                (by rw [en]; exact hs.2.1)
  | chown p uid gid follow =>
    simp only [step]
    split
    · exact hf
    · rename_i q hq
      have e := resolve_lexical w hr hns p follow q hs.2 hq
      split
      · exact hf
      · rename_i i hi
        exact hf.modOther i _ (hf.not_out hi (by rw [e]; exact hs.1))
  | chmod p perm =>
    simp only [step]
    split
    · exact hf
    · rename_i q hq
      have e := resolve_lexical w hr hns p true q hs.2 hq
      split
      · exact hf
      · rename_i i hi
        exact hf.modOther i _ (hf.not_out hi (by rw [e]; exact hs.1))
  | setxattr p k v follow =>
    simp only [step]
    split
    · exact hf
    · rename_i q hq
      have e := resolve_lexical w hr hns p follow q hs.2 hq
      split
      · exact hf
      · rename_i i hi
        split
        · exact hf
        · split
          · exact hf
          · exact hf.setOther i _ (hf.not_out hi (by rw [e]; exact hs.1))
  | utimes p mtime follow =>
    simp only [step]
    split
    · exact hf
    · rename_i q hq
      have e := resolve_lexical w hr hns p follow q hs.2 hq
      split
      · exact hf
      · rename_i i hi
        split
        · exact hf
        · exact hf.modOther i _ (hf.not_out hi (by rw [e]; exact hs.1))
  | removeAll p =>
    simp only [step]
    split
    · exact hf
    · split
      · exact hf
      · exact hf
      · exact hf
      · rename_i q hq
        have e := resolve_lexical w hr hns p false q hs.2 hq
        have hc : Cov T q := by rw [e]; exact hs.1
        split
        · exact hf
        · split
          · rename_i heq
            rw [hr] at heq
            subst heq
            exact Framed.all_covered hc (by rw [next_removeBelow]; exact hf.next_le)
          · exact hf.removeSubtree q hc

end GA

namespace GA

/-- `os.MkdirAll` of a path at, above or beneath the destination that is covered or on the way to a covered
    path: only missing directories are made -/
theorem mkdirAllK_frame (dp : Path) (T : List Path) (fs0 : FS) (h0 : NextFresh fs0) :
    ∀ (fuel : Nat) (w : World) (p : Str) (perm : Nat),
    LInv dp w → ChainNames dp w.fs → dotdot ∉ pathComps p → (dp <+: pathComps p ∨ pathComps p <+: dp) →
    Framed T fs0 w.fs → CovAnc T (pathComps p) → Framed T fs0 (mkdirAllK fuel w p perm).2.fs := by
  intro fuel
  induction fuel with
  | zero => intro w p perm _ _ _ _ hf _; exact hf
  | succ n ih =>
    intro w p perm h hc hdd hcmp hf hca
    simp only [mkdirAllK]
    split
    · split <;> exact hf
    · have hpp := parent_comps_prefix p
      have hpdd : dotdot ∉ pathComps (splitLast (stripTrailingSlashes p)).1 := not_mem_of_prefix hpp _ hdd
      have hpcmp : dp <+: pathComps (splitLast (stripTrailingSlashes p)).1 ∨
          pathComps (splitLast (stripTrailingSlashes p)).1 <+: dp := by
        rcases hcmp with hcmp | hcmp
        · exact List.prefix_or_prefix_of_prefix hcmp hpp
        · exact Or.inr (hpp.trans hcmp)
      have hpar : (LStepOK dp w (if (splitLast (stripTrailingSlashes p)).1.length > 0 ∧ (splitLast (stripTrailingSlashes p)).1 ≠ p
          then mkdirAllK n w (splitLast (stripTrailingSlashes p)).1 perm else (Res.ok, w)).2 ∧
          ChainNames dp (if (splitLast (stripTrailingSlashes p)).1.length > 0 ∧ (splitLast (stripTrailingSlashes p)).1 ≠ p
          then mkdirAllK n w (splitLast (stripTrailingSlashes p)).1 perm else (Res.ok, w)).2.fs) ∧
          Framed T fs0 (if (splitLast (stripTrailingSlashes p)).1.length > 0 ∧ (splitLast (stripTrailingSlashes p)).1 ≠ p
          then mkdirAllK n w (splitLast (stripTrailingSlashes p)).1 perm else (Res.ok, w)).2.fs := by
        split
        · exact ⟨mkdirAllK_lex dp n w _ perm h hc hpdd hpcmp, ih w _ perm h hc hpdd hpcmp hf (hca.of_prefix hpp)⟩
        · exact ⟨⟨LStepOK.same dp w h, hc⟩, hf⟩
      generalize (if (splitLast (stripTrailingSlashes p)).1.length > 0 ∧ (splitLast (stripTrailingSlashes p)).1 ≠ p
          then mkdirAllK n w (splitLast (stripTrailingSlashes p)).1 perm else (Res.ok, w)) = pr at hpar ⊢
      split
      · exact hpar.2
      · have hm : Framed T fs0 (mkdirOne pr.2 p perm).2.fs :=
          mkdirOne_frame T fs0 h0 pr.2 hpar.1.1.2.root hpar.1.1.2.nosym p perm hpar.2 ⟨hca, hdd⟩
        split
        · split
          · split <;> exact hm
          · exact hm
        · exact hm

/-- a good call that is also covered keeps the frame -/
theorem step_good_frame (dp : Path) (T : List Path) (fs0 : FS) (h0 : NextFresh fs0) (w : World) (s : Sys)
    (h : LW dp w) (hg : SysGood dp s) (hf : Framed T fs0 w.fs) (hs : SysFr T fs0 s) : Framed T fs0 (step w s).2.fs := by
  by_cases hm : ∃ p perm, s = .mkdirAll p perm
  · obtain ⟨p, perm, rfl⟩ := hm
    rcases hg with hg | ⟨p', perm', e, hdd, hcmp⟩
    · exact absurd hg id
    · injection e with e1 e2
      subst e1
      simp only [step]
      exact mkdirAllK_frame dp T fs0 h0 _ w p perm h.inv h.chainNames hdd hcmp hf hs.1
  · exact step_frame T fs0 h0 w h.inv.root h.inv.nosym s hf hs (fun p perm e => hm ⟨p, perm, e⟩)

end GA
