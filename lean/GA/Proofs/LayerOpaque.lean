import GA.Proofs.LayerPost
/-
  The opaque-marker walk never removes what the layer itself has provided — as long as every directory between
  the marker's directory and the provided path was provided too (finding D7 is the case in which one is not).
-/
namespace GA

/-- `RemoveAll(q)` leaves every name alone that is not at or beneath `q` -/
theorem removeAll_keeps_other (dp : Path) (w : World) (hw : LW dp w) (q : Str) (hq : LexArg dp q)
    (hs : pathComps q ≠ dp) (P : Path) (i : Ino) (hl : w.fs.lookup P = some i) (hnp : ¬ pathComps q <+: P) :
    LW dp (step w (.removeAll q)).2 ∧ (step w (.removeAll q)).2.fs.lookup P = some i := by
  have hg : SysGood dp (.removeAll q) := good_lex (s := .removeAll q) ⟨hq, hs⟩
  have hfr := step_good_frame dp [pathComps q] w.fs hw.inv.fresh w (.removeAll q) hw hg (Framed.refl _ _)
    (show FArg [pathComps q] q from ⟨⟨_, by simp, List.prefix_refl _⟩, hq.2⟩)
  refine ⟨(step_good dp w (.removeAll q) hw hg).2, hfr.names_keep P i hl ?_⟩
  rintro ⟨t, ht, hp⟩
  simp only [List.mem_singleton] at ht
  subst ht
  exact hnp hp

/-- the walk keeps `P` when every visited path at or above `P` (other than the marker's directory) is one the
    layer has unpacked -/
theorem opaqueWalk_keeps (dp : Path) (dirS : Str) (unpacked : List Str) (hdr : dp <+: pathComps dirS)
    (P : Path) (i : Ino)
    (hsafe : ∀ s, CleanAbs s → pathComps dirS <+: pathComps s → s ≠ dirS → pathComps s <+: P → unpacked.contains s = true) :
    ∀ (items : List (Str × Kind × Nat)) (skip : Option Nat) (w : World),
      (∀ it ∈ items, CleanAbs it.1 ∧ pathComps dirS <+: pathComps it.1 ∧ (it.1 ≠ dirS → pathComps it.1 ≠ pathComps dirS)) →
      LW dp w → w.fs.lookup P = some i →
      LW dp ((opaqueWalkP dirS unpacked items skip).run w).2 ∧
        ((opaqueWalkP dirS unpacked items skip).run w).2.fs.lookup P = some i
  | [], _, w, _, hw, hl => ⟨hw, hl⟩
  | (q, k, d) :: rest, skip, w, h, hw, hl => by
    have hrest : ∀ sk w', LW dp w' → w'.fs.lookup P = some i →
        LW dp ((opaqueWalkP dirS unpacked rest sk).run w').2 ∧
          ((opaqueWalkP dirS unpacked rest sk).run w').2.fs.lookup P = some i :=
      fun sk w' hw' hl' => opaqueWalk_keeps dp dirS unpacked hdr P i hsafe rest sk w' (fun it hit => h it (by simp [hit])) hw' hl'
    have hq := h (q, k, d) (by simp)
    have tailcase : LW dp ((if q = dirS then opaqueWalkP dirS unpacked rest none
         else if unpacked.contains q = true then opaqueWalkP dirS unpacked rest none
         else do
           let r ← sys (Sys.removeAll q)
           if isErr r = true then pure r else opaqueWalkP dirS unpacked rest (some d)).run w).2 ∧
        ((if q = dirS then opaqueWalkP dirS unpacked rest none
         else if unpacked.contains q = true then opaqueWalkP dirS unpacked rest none
         else do
           let r ← sys (Sys.removeAll q)
           if isErr r = true then pure r else opaqueWalkP dirS unpacked rest (some d)).run w).2.fs.lookup P = some i := by
      by_cases h2 : q = dirS
      · rw [if_pos h2]; exact hrest _ w hw hl
      · rw [if_neg h2]
        by_cases h3 : unpacked.contains q = true
        · rw [if_pos h3]; exact hrest _ w hw hl
        · rw [if_neg h3]
          have hlex : LexArg dp q := lexArg_of hq.1 (hdr.trans hq.2.1)
          have hstrict : pathComps q ≠ dp := by
            intro e
            apply hq.2.2 h2
            have hh1 : pathComps dirS <+: dp := by rw [← e]; exact hq.2.1
            show pathComps q = pathComps dirS
            rw [e]
            exact (prefix_antisymm hdr hh1)
          have hnp : ¬ pathComps q <+: P := fun hp => h3 (hsafe q hq.1 hq.2.1 h2 hp)
          obtain ⟨hw1, hl1⟩ := removeAll_keeps_other dp w hw q hlex hstrict P i hl hnp
          rw [run_sys_bind]
          split
          · exact ⟨hw1, hl1⟩
          · exact hrest _ _ hw1 hl1
    simp only [opaqueWalkP]
    cases skip with
    | none =>
      simp only [Bool.false_eq_true, if_false]
      exact tailcase
    | some sd =>
      simp only
      by_cases h1 : decide (d > sd) = true
      · rw [if_pos h1]; exact hrest _ w hw hl
      · rw [if_neg h1]; exact tailcase

end GA

namespace GA

theorem listTree_world (w : World) (p : Str) : (step w (.listTree p)).2 = w := by
  simp only [step]
  repeat' split
  all_goals rfl

/-- **one iteration for an opaque marker keeps what the layer has provided**: a name `P` that exists when the
    marker is processed still names the same object afterwards when every path from (below) the marker's directory
    down to `P` is one this layer has unpacked — the marker's own name is not at or above `P` -/
theorem iter_opaque_keeps (dp : Path) (dest : Str) (o : Opts) (hd : CleanAbs dest) (hdp : pathComps dest = dp)
    (e : Entry) (st : LState) (w : World) (hw : LW dp w)
    (hx : e.typ ≠ .xglobal)
    (hstage : (hasPrefix (clean e.name) whMetaPrefix && hasPrefix (clean e.name) whLinkDir && e.typ == .reg) = false)
    (hskip : (hasPrefix (clean e.name) whMetaPrefix && decide (clean e.name ≠ whOpaqueDir)) = false)
    (hop : base (join dest (clean e.name)) = whOpaqueDir)
    (P : Path) (i : Ino) (hl : w.fs.lookup P = some i)
    (hself : ¬ pathComps (join dest (clean e.name)) <+: P)
    (hsafe : ∀ s, CleanAbs s → pathComps (dir (join dest (clean e.name))) <+: pathComps s →
      s ≠ dir (join dest (clean e.name)) → pathComps s <+: P → st.unpacked.contains s = true)
    (st' : LState) (w' : World) (hrun : (layerIterP dest o e st).run w = (.ok st', w')) :
    LW dp w' ∧ w'.fs.lookup P = some i := by
  have hxg : (e.typ == Typ.xglobal) = false := by
    cases h : e.typ <;> first | rfl | exact absurd h hx
  simp only [layerIterP, hxg, Bool.false_eq_true, if_false, stageP, hstage, hskip] at hrun
  rw [Prog.bind_eq, Prog.run_bind] at hrun
  simp only [Prog.run, pure] at hrun
  cases hg : guardName dest (clean e.name) with
  | error out => rw [hg] at hrun; simp only [Prog.run, pure] at hrun; cases hrun
  | ok p =>
    rw [hg] at hrun
    simp only at hrun
    obtain ⟨hpe, hpc, hpin⟩ := guardName_ok dest (clean e.name) p hd hg
    rw [hdp] at hpin
    have hin' : dp <+: pathComps (join dest (clean e.name)) := by rw [← hpe]; exact hpin
    rw [← hpe] at hop hself hsafe
    rw [Prog.bind_eq, Prog.run_bind] at hrun
    -- implied parents: created, never removed
    have hlI := lex_impliedDirs dp dest e.name o hd hdp hin'
    have hfI := fr_impliedDirs dp [pathComps p] w.fs dest e.name o hd (by rw [hpe]; simp)
    have hI := LexSem.run dp _ _ w hlI hw
    have hF := FrSem.run dp [pathComps p] w.fs hw.inv.fresh _ _ _ w hlI hfI hw (Framed.refl _ _)
    generalize hi1 : (impliedDirsP dest (clean e.name) o).run w = r1 at hrun hI hF
    obtain ⟨i1, w1⟩ := r1
    simp only at hrun hI hF
    have hw1 : LW dp w1 := hI.2.1
    have hl1 : w1.fs.lookup P = some i := hF.1.names_keep P i hl (by
      rintro ⟨t, ht, hp⟩
      simp only [List.mem_singleton] at ht
      subst ht
      exact hself hp)
    by_cases hie : isErr i1 = true
    · simp only [hie, if_true, Prog.run, pure] at hrun; cases hrun
    · have hwp : hasPrefix (base p) whPrefix = true := by rw [hop]; decide
      simp only [hie, Bool.false_eq_true, if_false, hwp, if_true, hop,
        show hasPrefix whOpaqueDir whPrefix = true from by decide] at hrun
      have hdrc := dir_cleanAbs hpc
      by_cases hwd : isWithin dest (dir p) = true
      · simp only [hwd, Bool.not_true, Bool.false_eq_true, if_false] at hrun
        have hdrin : dp <+: pathComps (dir p) := by rw [← hdp]; exact within_of_isWithin hd hdrc.1 hwd
        rw [run_sys_bind, lstat_world] at hrun
        by_cases hle : isErr (step w1 (Sys.lstat (dir p))).1 = true
        · simp only [hle, if_true, Prog.run, pure] at hrun; cases hrun
        · simp only [hle, Bool.false_eq_true, if_false] at hrun
          rw [run_sys_bind, listTree_world] at hrun
          have hitems := listTree_items dp w1 hw1 (dir p) hdrc.1
          cases ht : (step w1 (Sys.listTree (dir p))).1 with
          | tree items =>
            rw [ht] at hrun
            simp only at hrun
            rw [Prog.bind_eq, Prog.run_bind] at hrun
            have hk := opaqueWalk_keeps dp (dir p) st.unpacked hdrin P i hsafe items none w1 (hitems items ht) hw1 hl1
            generalize (opaqueWalkP (dir p) st.unpacked items none).run w1 = r2 at hrun hk
            obtain ⟨r, w2⟩ := r2
            simp only at hrun hk
            by_cases hre : isErr r = true
            · simp only [hre, if_true, Prog.run, pure] at hrun; cases hrun
            · simp only [hre, Bool.false_eq_true, if_false, Prog.run, pure] at hrun
              injection hrun with _ h2
              subst h2
              exact hk
          | err en =>
            rw [ht] at hrun
            cases en <;> simp only [Prog.run, pure] at hrun <;> first
              | (injection hrun with _ h2; subst h2; exact ⟨hw1, hl1⟩)
              | cases hrun
          | _ =>
            rw [ht] at hrun
            simp only [Prog.run, pure] at hrun
            cases hrun
      · simp only [hwd, Bool.not_false, if_true, Prog.run, pure] at hrun; cases hrun


/-- the object `i` is reachable as `P` and only as `P`, and is what `n0` describes but for its modification time -/
def Kept (P : Path) (i : Ino) (n0 : Inode) (w : World) : Prop :=
  w.fs.lookup P = some i ∧ (∀ q, w.fs.lookup q = some i → q = P) ∧ (w.fs.inode i).map eraseM = some (eraseM n0)

/-- a step that keeps the frame of names that do not cover `P` keeps the object at `P` -/
theorem Kept.framed {T : List Path} {w w' : World} {P : Path} {i : Ino} {n0 : Inode} (hk : Kept P i n0 w)
    (hf : Framed T w.fs w'.fs) (hnc : ¬ Cov T P) : Kept P i n0 w' := by
  have hout : OutI T w.fs i := ⟨⟨P, hk.1⟩, fun p hp => by rw [hk.2.1 p hp]; exact hnc⟩
  exact ⟨hf.names_keep P i hk.1 hnc, fun q hq => hk.2.1 q (hf.no_capture i hout q hq),
    by rw [hf.inode_out i hout]; exact hk.2.2⟩

theorem removeAll_kept (dp : Path) (w : World) (hw : LW dp w) (q : Str) (hq : LexArg dp q)
    (hs : pathComps q ≠ dp) (P : Path) (i : Ino) (n0 : Inode) (hl : Kept P i n0 w) (hnp : ¬ pathComps q <+: P) :
    LW dp (step w (.removeAll q)).2 ∧ Kept P i n0 (step w (.removeAll q)).2 := by
  have hg : SysGood dp (.removeAll q) := good_lex (s := .removeAll q) ⟨hq, hs⟩
  have hfr := step_good_frame dp [pathComps q] w.fs hw.inv.fresh w (.removeAll q) hw hg (Framed.refl _ _)
    (show FArg [pathComps q] q from ⟨⟨_, by simp, List.prefix_refl _⟩, hq.2⟩)
  refine ⟨(step_good dp w (.removeAll q) hw hg).2, hl.framed hfr ?_⟩
  rintro ⟨t, ht, hp⟩
  simp only [List.mem_singleton] at ht
  subst ht
  exact hnp hp

/-- the walk keeps `P` when every visited path at or above `P` (other than the marker's directory) is one the
    layer has unpacked -/
theorem opaqueWalk_kept (dp : Path) (dirS : Str) (unpacked : List Str) (hdr : dp <+: pathComps dirS)
    (P : Path) (i : Ino) (n0 : Inode)
    (hsafe : ∀ s, CleanAbs s → pathComps dirS <+: pathComps s → s ≠ dirS → pathComps s <+: P → unpacked.contains s = true) :
    ∀ (items : List (Str × Kind × Nat)) (skip : Option Nat) (w : World),
      (∀ it ∈ items, CleanAbs it.1 ∧ pathComps dirS <+: pathComps it.1 ∧ (it.1 ≠ dirS → pathComps it.1 ≠ pathComps dirS)) →
      LW dp w → Kept P i n0 w →
      LW dp ((opaqueWalkP dirS unpacked items skip).run w).2 ∧
        Kept P i n0 ((opaqueWalkP dirS unpacked items skip).run w).2
  | [], _, w, _, hw, hl => ⟨hw, hl⟩
  | (q, k, d) :: rest, skip, w, h, hw, hl => by
    have hrest : ∀ sk w', LW dp w' → Kept P i n0 w' →
        LW dp ((opaqueWalkP dirS unpacked rest sk).run w').2 ∧
          Kept P i n0 ((opaqueWalkP dirS unpacked rest sk).run w').2 :=
      fun sk w' hw' hl' => opaqueWalk_kept dp dirS unpacked hdr P i n0 hsafe rest sk w' (fun it hit => h it (by simp [hit])) hw' hl'
    have hq := h (q, k, d) (by simp)
    have tailcase : LW dp ((if q = dirS then opaqueWalkP dirS unpacked rest none
         else if unpacked.contains q = true then opaqueWalkP dirS unpacked rest none
         else do
           let r ← sys (Sys.removeAll q)
           if isErr r = true then pure r else opaqueWalkP dirS unpacked rest (some d)).run w).2 ∧
        Kept P i n0 ((if q = dirS then opaqueWalkP dirS unpacked rest none
         else if unpacked.contains q = true then opaqueWalkP dirS unpacked rest none
         else do
           let r ← sys (Sys.removeAll q)
           if isErr r = true then pure r else opaqueWalkP dirS unpacked rest (some d)).run w).2 := by
      by_cases h2 : q = dirS
      · rw [if_pos h2]; exact hrest _ w hw hl
      · rw [if_neg h2]
        by_cases h3 : unpacked.contains q = true
        · rw [if_pos h3]; exact hrest _ w hw hl
        · rw [if_neg h3]
          have hlex : LexArg dp q := lexArg_of hq.1 (hdr.trans hq.2.1)
          have hstrict : pathComps q ≠ dp := by
            intro e
            apply hq.2.2 h2
            have hh1 : pathComps dirS <+: dp := by rw [← e]; exact hq.2.1
            show pathComps q = pathComps dirS
            rw [e]
            exact (prefix_antisymm hdr hh1)
          have hnp : ¬ pathComps q <+: P := fun hp => h3 (hsafe q hq.1 hq.2.1 h2 hp)
          obtain ⟨hw1, hl1⟩ := removeAll_kept dp w hw q hlex hstrict P i n0 hl hnp
          rw [run_sys_bind]
          split
          · exact ⟨hw1, hl1⟩
          · exact hrest _ _ hw1 hl1
    simp only [opaqueWalkP]
    cases skip with
    | none =>
      simp only [Bool.false_eq_true, if_false]
      exact tailcase
    | some sd =>
      simp only
      by_cases h1 : decide (d > sd) = true
      · rw [if_pos h1]; exact hrest _ w hw hl
      · rw [if_neg h1]; exact tailcase


/-- **one iteration for an opaque marker keeps what the layer has provided**: a name `P` that exists when the
    marker is processed still names the same object afterwards when every path from (below) the marker's directory
    down to `P` is one this layer has unpacked — the marker's own name is not at or above `P` -/
theorem iter_opaque_kept (dp : Path) (dest : Str) (o : Opts) (hd : CleanAbs dest) (hdp : pathComps dest = dp)
    (e : Entry) (st : LState) (w : World) (hw : LW dp w)
    (hx : e.typ ≠ .xglobal)
    (hstage : (hasPrefix (clean e.name) whMetaPrefix && hasPrefix (clean e.name) whLinkDir && e.typ == .reg) = false)
    (hskip : (hasPrefix (clean e.name) whMetaPrefix && decide (clean e.name ≠ whOpaqueDir)) = false)
    (hop : base (join dest (clean e.name)) = whOpaqueDir)
    (P : Path) (i : Ino) (n0 : Inode) (hl : Kept P i n0 w)
    (hself : ¬ pathComps (join dest (clean e.name)) <+: P)
    (hsafe : ∀ s, CleanAbs s → pathComps (dir (join dest (clean e.name))) <+: pathComps s →
      s ≠ dir (join dest (clean e.name)) → pathComps s <+: P → st.unpacked.contains s = true)
    (st' : LState) (w' : World) (hrun : (layerIterP dest o e st).run w = (.ok st', w')) :
    LW dp w' ∧ Kept P i n0 w' := by
  have hxg : (e.typ == Typ.xglobal) = false := by
    cases h : e.typ <;> first | rfl | exact absurd h hx
  simp only [layerIterP, hxg, Bool.false_eq_true, if_false, stageP, hstage, hskip] at hrun
  rw [Prog.bind_eq, Prog.run_bind] at hrun
  simp only [Prog.run, pure] at hrun
  cases hg : guardName dest (clean e.name) with
  | error out => rw [hg] at hrun; simp only [Prog.run, pure] at hrun; cases hrun
  | ok p =>
    rw [hg] at hrun
    simp only at hrun
    obtain ⟨hpe, hpc, hpin⟩ := guardName_ok dest (clean e.name) p hd hg
    rw [hdp] at hpin
    have hin' : dp <+: pathComps (join dest (clean e.name)) := by rw [← hpe]; exact hpin
    rw [← hpe] at hop hself hsafe
    rw [Prog.bind_eq, Prog.run_bind] at hrun
    -- implied parents: created, never removed
    have hlI := lex_impliedDirs dp dest e.name o hd hdp hin'
    have hfI := fr_impliedDirs dp [pathComps p] w.fs dest e.name o hd (by rw [hpe]; simp)
    have hI := LexSem.run dp _ _ w hlI hw
    have hF := FrSem.run dp [pathComps p] w.fs hw.inv.fresh _ _ _ w hlI hfI hw (Framed.refl _ _)
    generalize hi1 : (impliedDirsP dest (clean e.name) o).run w = r1 at hrun hI hF
    obtain ⟨i1, w1⟩ := r1
    simp only at hrun hI hF
    have hw1 : LW dp w1 := hI.2.1
    have hl1 : Kept P i n0 w1 := hl.framed hF.1 (by
      rintro ⟨t, ht, hp⟩
      simp only [List.mem_singleton] at ht
      subst ht
      exact hself hp)
    by_cases hie : isErr i1 = true
    · simp only [hie, if_true, Prog.run, pure] at hrun; cases hrun
    · have hwp : hasPrefix (base p) whPrefix = true := by rw [hop]; decide
      simp only [hie, Bool.false_eq_true, if_false, hwp, if_true, hop,
        show hasPrefix whOpaqueDir whPrefix = true from by decide] at hrun
      have hdrc := dir_cleanAbs hpc
      by_cases hwd : isWithin dest (dir p) = true
      · simp only [hwd, Bool.not_true, Bool.false_eq_true, if_false] at hrun
        have hdrin : dp <+: pathComps (dir p) := by rw [← hdp]; exact within_of_isWithin hd hdrc.1 hwd
        rw [run_sys_bind, lstat_world] at hrun
        by_cases hle : isErr (step w1 (Sys.lstat (dir p))).1 = true
        · simp only [hle, if_true, Prog.run, pure] at hrun; cases hrun
        · simp only [hle, Bool.false_eq_true, if_false] at hrun
          rw [run_sys_bind, listTree_world] at hrun
          have hitems := listTree_items dp w1 hw1 (dir p) hdrc.1
          cases ht : (step w1 (Sys.listTree (dir p))).1 with
          | tree items =>
            rw [ht] at hrun
            simp only at hrun
            rw [Prog.bind_eq, Prog.run_bind] at hrun
            have hk := opaqueWalk_kept dp (dir p) st.unpacked hdrin P i n0 hsafe items none w1 (hitems items ht) hw1 hl1
            generalize (opaqueWalkP (dir p) st.unpacked items none).run w1 = r2 at hrun hk
            obtain ⟨r, w2⟩ := r2
            simp only at hrun hk
            by_cases hre : isErr r = true
            · simp only [hre, if_true, Prog.run, pure] at hrun; cases hrun
            · simp only [hre, Bool.false_eq_true, if_false, Prog.run, pure] at hrun
              injection hrun with _ h2
              subst h2
              exact hk
          | err en =>
            rw [ht] at hrun
            cases en <;> simp only [Prog.run, pure] at hrun <;> first
              | (injection hrun with _ h2; subst h2; exact ⟨hw1, hl1⟩)
              | cases hrun
          | _ =>
            rw [ht] at hrun
            simp only [Prog.run, pure] at hrun
            cases hrun
      · simp only [hwd, Bool.not_false, if_true, Prog.run, pure] at hrun; cases hrun

end GA
