import GA.Proofs.ConfineStep
/-
  Noninterference for read-only programs: a thread whose root lies under `r` computes a function
  of the part of the filesystem under `r` only.  `InsideEq r fs₁ fs₂`: the same names under `r`
  (as a list), and for every inode named under `r` the same inode and the same link count.
-/
namespace GA

def insideNames (r : Path) (fs : FS) : List (Path × Ino) := fs.names.filter (fun e => under r e.1)

structure InsideEq (r : Path) (fs1 fs2 : FS) : Prop where
  names : insideNames r fs1 = insideNames r fs2
  inode : ∀ p i, under r p = true → fs1.lookup p = some i → fs1.inode i = fs2.inode i
  nlink : ∀ p i, under r p = true → fs1.lookup p = some i → fs1.nlink i = fs2.nlink i

theorem lookup_inside (r : Path) (fs : FS) (p : Path) (h : under r p = true) :
    fs.lookup p = ((insideNames r fs).find? (fun e => e.1 == p)).map (·.2) := by
  have := lookup_filter fs.names (fun q => under r q) p
  simp only [h, if_true] at this
  exact this.symm

theorem InsideEq.lookup_eq {r : Path} {fs1 fs2 : FS} (h : InsideEq r fs1 fs2) (p : Path)
    (hp : under r p = true) : fs1.lookup p = fs2.lookup p := by
  rw [lookup_inside r fs1 p hp, lookup_inside r fs2 p hp, h.names]

theorem InsideEq.get_eq {r : Path} {fs1 fs2 : FS} (h : InsideEq r fs1 fs2) (p : Path)
    (hp : under r p = true) : fs1.get p = fs2.get p := by
  unfold FS.get
  rw [← h.lookup_eq p hp]
  cases hl : fs1.lookup p with
  | none => rfl
  | some i => simp [h.inode p i hp hl]

theorem InsideEq.isDir_eq {r : Path} {fs1 fs2 : FS} (h : InsideEq r fs1 fs2) (p : Path)
    (hp : under r p = true) : fs1.isDir p = fs2.isDir p := by
  unfold FS.isDir; rw [h.get_eq p hp]

theorem filterMap_inside {β} (r : Path) (names : List (Path × Ino)) (f : Path × Ino → Option β)
    (hf : ∀ e, under r e.1 = false → f e = none) :
    names.filterMap f = (names.filter (fun e => under r e.1)).filterMap f := by
  induction names with
  | nil => rfl
  | cons e es ih =>
    by_cases hu : under r e.1 = true
    · simp [List.filter, hu, List.filterMap_cons, ih]
    · have hu' : under r e.1 = false := by simpa using hu
      simp [List.filter, hu', List.filterMap_cons, hf e hu', ih]

theorem InsideEq.children_eq {r : Path} {fs1 fs2 : FS} (h : InsideEq r fs1 fs2) (p : Path)
    (hp : under r p = true) : fs1.children p = fs2.children p := by
  unfold FS.children
  have hf : ∀ e : Path × Ino, under r e.1 = false →
      (if e.1.length == p.length + 1 && under p e.1 then e.1.getLast? else none) = none := by
    intro e he
    cases hpe : under p e.1 with
    | false => simp
    | true => have := under_trans hp hpe; rw [he] at this; cases this
  rw [filterMap_inside r fs1.names _ hf, filterMap_inside r fs2.names _ hf]
  have := h.names
  unfold insideNames at this
  rw [this]

theorem InsideEq.walk_eq {r : Path} {fs1 fs2 : FS} (h : InsideEq r fs1 fs2) (root : Path)
    (hr : under r root = true) : ∀ (fuel links : Nat) (cur : Path) (rest : List Str) (fl : Bool),
    under root cur = true → walk fs1 root fuel links cur rest fl = walk fs2 root fuel links cur rest fl := by
  intro fuel
  induction fuel with
  | zero => intro links cur rest fl _; cases rest <;> simp [walk]
  | succ n ih =>
    intro links cur rest fl hc
    cases rest with
    | nil => simp [walk]
    | cons c rest =>
      have hcr : under r cur = true := under_trans hr hc
      simp only [walk]
      rw [h.isDir_eq cur hcr, h.get_eq cur hcr, h.get_eq (cur ++ [c]) (under_append r cur c hcr)]
      split
      · rfl
      · split
        · split
          · exact ih _ _ _ _ hc
          · rename_i hne; exact ih _ _ _ _ (under_dropLast hc hne)
        · split
          · rfl
          · split
            · split
              · rfl
              · split
                · rfl
                · split
                  · exact ih _ _ _ _ (under_refl root)
                  · exact ih _ _ _ _ hc
            · exact ih _ _ _ _ (under_append _ _ _ hc)

structure WorldEq (r : Path) (w1 w2 : World) : Prop where
  fs : InsideEq r w1.fs w2.fs
  root : w1.root = w2.root
  umask : w1.umask = w2.umask
  rootIn : under r w1.root = true

theorem WorldEq.resolve_eq {r : Path} {w1 w2 : World} (h : WorldEq r w1 w2) (s : Str) (fl : Bool) :
    resolve w1 s fl = resolve w2 s fl := by
  unfold resolve
  rw [← h.root]
  split
  · rfl
  · simp only
    rw [h.fs.walk_eq w1.root h.rootIn _ _ _ _ _ (under_refl _)]
    split
    · rfl
    · rename_i p hp
      have hu : under r p = true := under_trans h.rootIn (walk_under _ _ _ _ _ _ _ _ (under_refl _) hp)
      rw [h.fs.get_eq p hu]

theorem WorldEq.resolve_under {r : Path} {w1 w2 : World} (h : WorldEq r w1 w2) {s : Str} {fl : Bool} {q : Path}
    (hq : resolve w1 s fl = .ok q) : under r q = true :=
  under_trans h.rootIn (GA.resolve_under w1 s fl q hq)

theorem statOf_eq {r : Path} {w1 w2 : World} (h : WorldEq r w1 w2) (q : Path) (i : Ino) (n : Inode)
    (hq : under r q = true) (hi : w1.fs.lookup q = some i) : statOf w1.fs i n = statOf w2.fs i n := by
  unfold statOf
  rw [h.fs.nlink q i hq hi]

theorem flatMap_ext {α β} (f g : α → List β) : ∀ (l : List α), (∀ x ∈ l, f x = g x) → l.flatMap f = l.flatMap g
  | [], _ => rfl
  | a :: l, h => by
    simp only [List.flatMap_cons]
    rw [h a (by simp), flatMap_ext f g l (fun x hx => h x (by simp [hx]))]

theorem listFrom_eq {r : Path} {fs1 fs2 : FS} (h : InsideEq r fs1 fs2) : ∀ (fuel depth : Nat) (p : Path) (s : Str),
    under r p = true → listFrom fs1 fuel depth p s = listFrom fs2 fuel depth p s := by
  intro fuel
  induction fuel with
  | zero => intro _ _ _ _; rfl
  | succ n ih =>
    intro depth p s hp
    simp only [listFrom]
    rw [h.get_eq p hp, h.children_eq p hp]
    split
    · rfl
    · split
      · congr 1
        apply flatMap_ext
        intro c _
        exact ih _ _ _ (under_append r p c hp)
      · rfl

/-- **a read-only system call returns the same result in two worlds that agree inside the root**,
    and changes neither -/
theorem rstep_eq {r : Path} {w1 w2 : World} (h : WorldEq r w1 w2) (s : RSys) :
    (step w1 s.toSys).1 = (step w2 s.toSys).1 ∧ (step w1 s.toSys).2 = w1 ∧ (step w2 s.toSys).2 = w2 := by
  cases s with
  | lstat p =>
    simp only [RSys.toSys, step, statRes]
    rw [← h.resolve_eq p false]
    cases hres : resolve w1 p false with
    | err e => simp
    | ok q =>
      have hu := h.resolve_under hres
      simp only
      rw [← h.fs.lookup_eq q hu]
      cases hl : w1.fs.lookup q with
      | none => simp
      | some i =>
        simp only
        rw [← h.fs.inode q i hu hl]
        cases hn : w1.fs.inode i with
        | none => simp
        | some n => simp [statOf_eq h q i n hu hl]
  | stat p =>
    simp only [RSys.toSys, step, statRes]
    rw [← h.resolve_eq p true]
    cases hres : resolve w1 p true with
    | err e => simp
    | ok q =>
      have hu := h.resolve_under hres
      simp only
      rw [← h.fs.lookup_eq q hu]
      cases hl : w1.fs.lookup q with
      | none => simp
      | some i =>
        simp only
        rw [← h.fs.inode q i hu hl]
        cases hn : w1.fs.inode i with
        | none => simp
        | some n => simp [statOf_eq h q i n hu hl]
  | readlink p =>
    simp only [RSys.toSys, step]
    rw [← h.resolve_eq p false]
    cases hres : resolve w1 p false with
    | err e => simp
    | ok q =>
      have hu := h.resolve_under hres
      simp only
      rw [← h.fs.get_eq q hu]
      cases w1.fs.get q with
      | none => simp
      | some n => simp only; split <;> simp
  | getxattr p k =>
    simp only [RSys.toSys, step]
    rw [← h.resolve_eq p false]
    cases hres : resolve w1 p false with
    | err e => simp
    | ok q =>
      have hu := h.resolve_under hres
      simp only
      rw [← h.fs.get_eq q hu]
      cases w1.fs.get q with
      | none => simp
      | some n => simp only; split <;> simp
  | readFile p =>
    simp only [RSys.toSys, step]
    rw [← h.resolve_eq p true]
    cases hres : resolve w1 p true with
    | err e => simp
    | ok q =>
      have hu := h.resolve_under hres
      simp only
      rw [← h.fs.get_eq q hu]
      cases w1.fs.get q with
      | none => simp
      | some n => simp only; split <;> (try split) <;> simp
  | listTree p =>
    simp only [RSys.toSys, step]
    rw [← h.resolve_eq p false]
    cases hres : resolve w1 p false with
    | err e => simp
    | ok q =>
      have hu := h.resolve_under hres
      simp only
      rw [← h.fs.get_eq q hu]
      cases w1.fs.get q with
      | none => simp
      | some n => simp [listFrom_eq h.fs _ _ q p hu]

/-- **every read-only program computes the same value in two worlds that agree inside the root** -/
theorem rprog_inside_determined {α : Type} {r : Path} : ∀ (p : RProg α) (w1 w2 : World), WorldEq r w1 w2 →
    (p.toProg.run w1).1 = (p.toProg.run w2).1 ∧ (p.toProg.run w1).2 = w1 ∧ (p.toProg.run w2).2 = w2 := by
  intro p
  induction p with
  | ret a => intro w1 w2 _; exact ⟨rfl, rfl, rfl⟩
  | call s k ih =>
    intro w1 w2 h
    simp only [RProg.toProg, Prog.run]
    obtain ⟨e1, e2, e3⟩ := rstep_eq h s
    rw [e1, e2, e3]
    exact ih _ w1 w2 h

end GA
