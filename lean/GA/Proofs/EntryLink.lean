import GA.Proofs.EntryMerge
/-
  A hard-link entry: on success the entry's path and the link target name the same inode.
-/
namespace GA

/-- two paths name one inode -/
def Shared (dp : Path) (a b : Str) (w : World) : Prop :=
  LW dp w ∧ ∃ i, w.fs.lookup (pathComps a) = some i ∧ w.fs.lookup (pathComps b) = some i

theorem addName_lookup (fs : FS) (q : Path) (i : Ino) (hn : fs.lookup q = none) (p : Path) :
    (fs.addName q i).lookup p = if p = q then some i else fs.lookup p := by
  unfold FS.addName FS.touchParent
  split
  · rw [lookup_modInode]; exact lookup_append_new fs q i hn p
  · exact lookup_append_new fs q i hn p

/-- `link(2)` on two lexical paths: success means the new name now shares the old name's inode -/
theorem link_effect (dp : Path) (old new : Str) (ho : LexArg dp old) (hn : LexArg dp new) :
    Triple (fun w => LW dp w) (sys (.link old new))
      (fun r w' => isErr r = false → Shared dp new old w') := by
  apply Triple.sys
  intro w hw hr
  have hgood := step_good dp w (.link old new) hw (good_lex (s := .link old new) ⟨ho, hn⟩)
  cases hro : resolve w old false with
  | err e =>
    have : step w (.link old new) = (.err e, w) := by simp only [step, hro]
    rw [this] at hr; simp [isErr] at hr
  | ok qo =>
    cases hrn : resolveC w new with
    | err e =>
      have : step w (.link old new) = (.err e, w) := by simp only [step, hro, hrn]
      rw [this] at hr; simp [isErr] at hr
    | ok qn =>
      have hqo := resolve_lexical w hw.inv.root hw.inv.nosym old false qo ho.2 hro
      have hqn := resolveC_lexical w hw.inv.root hw.inv.nosym new qn hn.2 hrn
      subst hqo; subst hqn
      cases hl : w.fs.lookup (pathComps old) with
      | none =>
        have : step w (.link old new) = (.err .ENOENT, w) := by simp only [step, hro, hrn, hl]
        rw [this] at hr; simp [isErr] at hr
      | some i =>
        by_cases hd : w.fs.isDir (pathComps old) = true
        · have : step w (.link old new) = (.err .EPERM, w) := by simp only [step, hro, hrn, hl, hd, if_true]
          rw [this] at hr; simp [isErr] at hr
        · by_cases hex : (w.fs.lookup (pathComps new)).isSome = true
          · have : step w (.link old new) = (.err .EEXIST, w) := by
              simp only [step, hro, hrn, hl, hd, hex, Bool.false_eq_true, if_false, if_true]
            rw [this] at hr; simp [isErr] at hr
          · by_cases hpd : (!w.fs.isDir (pathComps new).dropLast) = true
            · have : step w (.link old new) = (.err .ENOENT, w) := by
                simp only [step, hro, hrn, hl, hd, hex, hpd, Bool.false_eq_true, if_false, if_true]
              rw [this] at hr; simp [isErr] at hr
            · have hst : step w (.link old new) = (.ok, { w with fs := w.fs.addName (pathComps new) i }) := by
                simp only [step, hro, hrn, hl, hd, hex, hpd, Bool.false_eq_true, if_false]
              rw [hst] at hgood ⊢
              have hnone := isSome_false_none hex
              have hne : pathComps old ≠ pathComps new := by
                intro e; rw [e, hnone] at hl; cases hl
              refine ⟨hgood.2, i, ?_, ?_⟩
              · simp only; rw [addName_lookup _ _ _ hnone, if_pos rfl]
              · simp only; rw [addName_lookup _ _ _ hnone, if_neg hne]; exact hl

/-- metadata calls never change which inode a path names -/
theorem shared_kept_step (dp : Path) (a b : Str) (s : Sys) (hs : SysLex dp s)
    (hkeep : ∀ w, LW dp w → ∀ p, (step w s).2.fs.lookup p = w.fs.lookup p) :
    Triple (Shared dp a b) (sys s) (fun _ w' => Shared dp a b w') := by
  apply Triple.sys
  intro w ⟨hw, i, ha, hb⟩
  have hgood := step_good dp w s hw (good_lex hs)
  exact ⟨hgood.2, i, by rw [hkeep w hw]; exact ha, by rw [hkeep w hw]; exact hb⟩

theorem lookup_kept_chown (w : World) (p : Str) (u g : Nat) (fl : Bool) (q : Path) :
    (step w (.chown p u g fl)).2.fs.lookup q = w.fs.lookup q := by
  simp only [step]
  split
  · rfl
  · split
    · rfl
    · simp only; rw [lookup_modInode]

theorem lookup_kept_chmod (w : World) (p : Str) (m : Nat) (q : Path) :
    (step w (.chmod p m)).2.fs.lookup q = w.fs.lookup q := by
  simp only [step]
  split
  · rfl
  · split
    · rfl
    · simp only; rw [lookup_modInode]

theorem lookup_kept_utimes (w : World) (p : Str) (t : Option Int) (fl : Bool) (q : Path) :
    (step w (.utimes p t fl)).2.fs.lookup q = w.fs.lookup q := by
  simp only [step]
  split
  · rfl
  · split
    · rfl
    · split
      · rfl
      · simp only; rw [lookup_modInode]

theorem lookup_kept_setxattr (w : World) (p k : Str) (v : List UInt8) (fl : Bool) (q : Path) :
    (step w (.setxattr p k v fl)).2.fs.lookup q = w.fs.lookup q := by
  simp only [step]
  split
  · rfl
  · split
    · rfl
    · split
      · rfl
      · split
        · rfl
        · rfl

theorem lookup_kept_lstat (w : World) (p : Str) (q : Path) : (step w (.lstat p)).2.fs.lookup q = w.fs.lookup q := by
  simp only [step]

theorem setXattrs_shared (dp : Path) (a b path : Str) (hp : LexArg dp path) (best : Bool) :
    ∀ (xs : List (Str × List UInt8)), Triple (Shared dp a b) (setXattrsP path best xs) (fun _ w' => Shared dp a b w')
  | [] => Triple.pure _ (fun _ h => h)
  | (k, v) :: rest => by
    simp only [setXattrsP]
    refine Triple.bind _ _ (shared_kept_step dp a b (.setxattr path k v false) hp
      (fun w _ q => lookup_kept_setxattr w path k v false q)) ?_
    intro r
    split
    · exact Triple.pure _ (fun _ h => h)
    · exact setXattrs_shared dp a b path hp best rest

/-- the metadata phase keeps the sharing, whatever the entry's type -/
theorem applyMeta_shared (dp : Path) (a b path : Str) (e : Entry) (o : Opts) (hp : LexArg dp path) :
    Triple (Shared dp a b) (applyMetaP path e o) (fun _ w' => Shared dp a b w') := by
  have keepS : ∀ (s : Sys), SysLex dp s → (∀ w, LW dp w → ∀ p, (step w s).2.fs.lookup p = w.fs.lookup p) →
      ∀ {β : Type} (f : Res → Prog β) (Q : β → World → Prop), (∀ r, Triple (Shared dp a b) (f r) Q) →
      Triple (Shared dp a b) (sys s >>= f) Q :=
    fun s hs hk _ f Q hf => Triple.bind _ _ (shared_kept_step dp a b s hs hk) hf
  have pureS : ∀ {β : Type} (x : β), Triple (Shared dp a b) (pure x : Prog β) (fun _ w' => Shared dp a b w') :=
    fun x => Triple.pure x (fun _ h => h)
  unfold applyMetaP
  refine Triple.bind (Q := fun _ w' => Shared dp a b w') _ _ ?_ ?_
  · split
    · exact pureS _
    · exact shared_kept_step dp a b _ hp (fun w _ q => lookup_kept_chown w path _ _ false q)
  · intro c
    split
    · exact pureS _
    · refine Triple.bind _ _ (setXattrs_shared dp a b path hp _ _) ?_
      intro x
      split
      · exact pureS _
      · refine Triple.bind (Q := fun _ w' => Shared dp a b w') _ _ ?_ ?_
        · split
          · refine Triple.bind _ _ (shared_kept_step dp a b (.lstat path) trivial (fun w _ q => lookup_kept_lstat w path q)) ?_
            intro l
            split
            · exact shared_kept_step dp a b _ hp (fun w _ q => lookup_kept_chmod w path _ q)
            · exact pureS _
          · split
            · exact shared_kept_step dp a b _ hp (fun w _ q => lookup_kept_chmod w path _ q)
            · exact pureS _
        · intro m
          split
          · exact pureS _
          · refine Triple.bind (Q := fun _ w' => Shared dp a b w') _ _ ?_ ?_
            · split
              · refine Triple.bind _ _ (shared_kept_step dp a b (.lstat path) trivial (fun w _ q => lookup_kept_lstat w path q)) ?_
                intro l
                split
                · exact shared_kept_step dp a b _ hp (fun w _ q => lookup_kept_utimes w path _ true q)
                · exact pureS _
              · split
                · exact shared_kept_step dp a b _ hp (fun w _ q => lookup_kept_utimes w path _ true q)
                · exact shared_kept_step dp a b _ hp (fun w _ q => lookup_kept_utimes w path _ false q)
            · intro u
              split
              · exact pureS _
              · exact pureS _

/-- **a hard-link entry shares an inode with its target**: when `createTarFile` reports success for a
    `TypeLink` entry, the entry's path and `Join(extractDir, Linkname)` name the same inode -/
theorem createTarFile_link_shares (dp : Path) (path xd : Str) (e : Entry) (o : Opts) (hp : LexArg dp path)
    (hxd : CleanAbs xd) (hdp : pathComps xd = dp) (hlink : e.typ = .link) :
    Triple (fun w => LW dp w) (createTarFileP path xd e o)
      (fun out w' => out = .ok → Shared dp path (join xd e.linkname) w') := by
  unfold createTarFileP
  simp only [hlink]
  by_cases hw : isWithin xd (join xd e.linkname) = true
  · simp only [hw, Bool.not_true, Bool.false_eq_true, if_false]
    have ht : CleanAbs (join xd e.linkname) := join_cleanAbs xd _ hxd
    have hlex : LexArg dp (join xd e.linkname) := by
      refine lexArg_of ht ?_
      obtain ⟨cd, hcd, rfl⟩ := hxd
      obtain ⟨ct, hct, hte⟩ := ht
      rw [hte] at hw ⊢
      rw [← hdp, pathComps_cleanAbs cd hcd, pathComps_cleanAbs ct hct]
      exact (isWithin_iff cd ct hcd hct).mp hw
    refine Triple.bind _ _ (link_effect dp _ path hlex hp) ?_
    intro r
    by_cases hr : isErr r = true
    · simp only [hr, if_true]
      exact Triple.pure _ (fun _ _ h => by cases h)
    · have hr' : isErr r = false := by simpa using hr
      simp only [hr', Bool.false_eq_true, if_false]
      exact Triple.conseq _ (applyMeta_shared dp path (join xd e.linkname) path e o hp) (fun w h => h trivial)
        (fun _ _ h _ => h)
  · have hw' : isWithin xd (join xd e.linkname) = false := by simpa using hw
    simp only [hw', Bool.not_false, if_true]
    exact Triple.pure _ (fun _ _ h => by cases h)

end GA
