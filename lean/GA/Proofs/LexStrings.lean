import GA.Proofs.LexProg
import GA.Proofs.DirBase
import GA.M.Unpack
/-
  Cleaned absolute path strings and what the kernel model makes of them in a symlink-free world.
-/
namespace GA

theorem pathComps_cleanAbs (cs : List Str) (h : ∀ c ∈ cs, Norm c) : pathComps (47 :: joinSlash cs) = cs := by
  unfold pathComps
  rw [splitSlash_cleanAbs cs h]
  by_cases hcs : cs = []
  · subst hcs; simp
  · simp only [hcs, if_false]
    rw [List.filter_cons]
    simp only [ne_eq, not_true_eq_false, false_and, decide_false, Bool.false_eq_true, if_false]
    rw [List.filter_eq_self]
    intro c hc
    have := h c hc
    simp [this.1, this.2.1]

theorem CleanAbs.comps {p : Str} (h : CleanAbs p) : ∃ cs, (∀ c ∈ cs, Norm c) ∧ p = 47 :: joinSlash cs ∧ pathComps p = cs := by
  obtain ⟨cs, hcs, rfl⟩ := h
  exact ⟨cs, hcs, rfl, pathComps_cleanAbs cs hcs⟩

theorem CleanAbs.no_dotdot {p : Str} (h : CleanAbs p) : dotdot ∉ pathComps p := by
  obtain ⟨cs, hcs, _, hp⟩ := h.comps
  rw [hp]
  intro hm
  exact (hcs _ hm).2.2.1 rfl

theorem CleanAbs.ne_nil {p : Str} (h : CleanAbs p) : p ≠ [] := by
  obtain ⟨cs, _, rfl⟩ := h; simp

theorem CleanAbs.pathComps_eq_compsOf {p : Str} (h : CleanAbs p) : pathComps p = compsOf p := by
  obtain ⟨cs, hcs, rfl⟩ := h
  rw [pathComps_cleanAbs cs hcs, compsOf_cleanAbs cs hcs]

/-- `Dir` of a cleaned absolute path drops the last component -/
theorem dir_cleanAbs {p : Str} (h : CleanAbs p) : CleanAbs (dir p) ∧ pathComps (dir p) = (pathComps p).dropLast := by
  obtain ⟨cs, hcs, rfl⟩ := h
  rcases List.eq_nil_or_concat cs with h0 | ⟨ini, l, h1⟩
  · subst h0
    have : dir (47 :: joinSlash []) = [47] := by
      simp [dir, splitLast, joinSlash, clean, isAbs, cleanComps, splitSlash, cleanStep_skip_empty]
    rw [this]
    refine ⟨⟨[], by simp, by simp [joinSlash]⟩, ?_⟩
    have e : ([47] : Str) = 47 :: joinSlash [] := by simp [joinSlash]
    rw [e, pathComps_cleanAbs [] (by simp)]; simp
  · have h1' : cs = ini ++ [l] := by simpa using h1
    subst h1'
    have hini : ∀ x ∈ ini, Norm x := fun x hx => hcs x (by simp [hx])
    have hl : Norm l := hcs l (by simp)
    rw [(dir_base_snoc ini l hini hl).1]
    refine ⟨⟨ini, hini, rfl⟩, ?_⟩
    rw [pathComps_cleanAbs ini hini, pathComps_cleanAbs _ hcs]
    simp

/-- every ancestor `mkdirAllAndChownP` looks at is a cleaned absolute path naming an ancestor -/
theorem ancestorsOf_spec : ∀ (fuel : Nat) (p : Str), CleanAbs p → ∀ a ∈ ancestorsOf fuel p,
    CleanAbs a ∧ pathComps a <+: pathComps p
  | 0, _, _, a, ha => by simp [ancestorsOf] at ha
  | fuel+1, p, hp, a, ha => by
    simp only [ancestorsOf] at ha
    split at ha
    · cases ha
    · have hd := dir_cleanAbs hp
      rcases List.mem_cons.mp ha with rfl | ha
      · exact ⟨hd.1, by rw [hd.2]; exact List.dropLast_prefix _⟩
      · have := ancestorsOf_spec fuel (dir p) hd.1 a ha
        exact ⟨this.1, this.2.trans (by rw [hd.2]; exact List.dropLast_prefix _)⟩

/-! ### what `stat` says about the destination and its ancestors -/

/-- along a chain of directories, without symbolic links, the walk succeeds or runs out of fuel -/
theorem walk_chain (fs : FS) (root : Path) (hns : NoSym fs) :
    ∀ (fuel links : Nat) (cs : List Str) (cur : Path) (fl : Bool),
      dotdot ∉ cs → (∀ k, k ≤ cs.length → fs.isDir (cur ++ cs.take k) = true) →
      walk fs root fuel links cur cs fl = .ok (cur ++ cs) ∨ walk fs root fuel links cur cs fl = .err .ELOOP := by
  intro fuel
  induction fuel with
  | zero =>
    intro links cs cur fl _ _
    cases cs with
    | nil => left; simp [walk]
    | cons c rest => right; simp [walk]
  | succ fuel ih =>
    intro links cs cur fl hdd hdirs
    cases cs with
    | nil => left; simp [walk]
    | cons c rest =>
      simp only [walk]
      have hcur : fs.isDir cur = true := by simpa using hdirs 0 (by simp)
      have hc : c ≠ dotdot := fun e => hdd (by simp [e])
      have hrest : dotdot ∉ rest := fun e => hdd (by simp [e])
      simp only [hcur, Bool.not_true, Bool.false_eq_true, if_false, hc]
      have hnxt : fs.isDir (cur ++ [c]) = true := by simpa using hdirs 1 (by simp)
      obtain ⟨n, hn, hk⟩ := (isDir_iff fs _).mp hnxt
      rw [hn]
      have hk' : (n.kind == Kind.sym) = false := by simp [hk]
      simp only [hk', Bool.false_and, Bool.false_eq_true, if_false]
      have := ih links rest (cur ++ [c]) fl hrest (by
        intro k hk
        have := hdirs (k + 1) (by simp; omega)
        simpa using this)
      simpa using this

/-- `stat`/`lstat` of a path that names the destination or one of its ancestors: a directory, or
    the symlink budget error — never "does not exist" -/
theorem stat_above (dp : Path) (w : World) (h : LW dp w) (d : Str) (fl : Bool) (hne : d ≠ [])
    (hdd : dotdot ∉ pathComps d) (hab : pathComps d <+: dp) :
    (∀ s, statRes w d fl = .stat s → s.kind = .dir) ∧ isENOENT (statRes w d fl) = false := by
  have hdirs : ∀ k, k ≤ (pathComps d).length → w.fs.isDir ([] ++ (pathComps d).take k) = true := by
    intro k _
    simp only [List.nil_append]
    exact h.isDir_prefix ((List.take_prefix k _).trans hab)
  have hw := walk_chain w.fs [] h.inv.nosym walkFuel 40 (pathComps d) [] (fl || mustDir d) hdd hdirs
  have hfin : w.fs.isDir (pathComps d) = true := h.isDir_prefix hab
  obtain ⟨n, hn, hk⟩ := (isDir_iff _ _).mp hfin
  have hres : resolve w d fl = .ok (pathComps d) ∨ resolve w d fl = .err .ELOOP := by
    unfold resolve
    rw [if_neg hne, h.inv.root]
    simp only
    rcases hw with hw | hw
    · rw [hw]
      left
      simp only [List.nil_append, hn, hk]
      split <;> simp
    · rw [hw]; right; rfl
  rw [get_def] at hn
  cases hl : w.fs.lookup (pathComps d) with
  | none => rw [hl] at hn; cases hn
  | some i =>
    rw [hl] at hn
    simp only [Option.bind_some] at hn
    unfold statRes
    rcases hres with hres | hres
    · rw [hres]
      simp only [hl, hn]
      refine ⟨fun s hs => ?_, rfl⟩
      injection hs with hs
      rw [← hs]; exact hk
    · rw [hres]
      exact ⟨fun s hs => (by cases hs), rfl⟩

end GA
