import GA.K.Prog
/-
  Generic confinement: whatever program runs with thread root `r`, the filesystem outside `r`
  is untouched.  `Confined` has three clauses (names outside are the same; inodes all of whose
  names were outside are unchanged; no such inode acquires a name inside) — together they are
  transitive, which is what the induction over `Prog` needs.
-/
namespace GA

def OutsideOnly (r : Path) (fs : FS) (i : Ino) : Prop :=
  (∃ p, fs.lookup p = some i) ∧ ∀ p, fs.lookup p = some i → under r p = false

structure Confined (r : Path) (fs fs' : FS) : Prop where
  names_out : ∀ p, under r p = false → fs'.lookup p = fs.lookup p
  inode_out : ∀ i, OutsideOnly r fs i → fs'.inode i = fs.inode i
  no_capture : ∀ i, OutsideOnly r fs i → ∀ p, fs'.lookup p = some i → under r p = false

theorem Confined.refl (r : Path) (fs : FS) : Confined r fs fs :=
  ⟨fun _ _ => rfl, fun _ _ => rfl, fun _ h p hp => h.2 p hp⟩

theorem OutsideOnly.step {r : Path} {fs fs' : FS} (h : Confined r fs fs') {i : Ino}
    (ho : OutsideOnly r fs i) : OutsideOnly r fs' i := by
  obtain ⟨⟨p, hp⟩, hall⟩ := ho
  refine ⟨⟨p, ?_⟩, h.no_capture i ⟨⟨p, hp⟩, hall⟩⟩
  rw [h.names_out p (hall p hp)]; exact hp

theorem Confined.trans {r : Path} {a b c : FS} (h₁ : Confined r a b) (h₂ : Confined r b c) :
    Confined r a c := by
  refine ⟨?_, ?_, ?_⟩
  · intro p hp; rw [h₂.names_out p hp, h₁.names_out p hp]
  · intro i hi; rw [h₂.inode_out i (hi.step h₁), h₁.inode_out i hi]
  · intro i hi; exact h₂.no_capture i (hi.step h₁)

theorem under_trans {r q p : Path} (h1 : under r q = true) (h2 : under q p = true) : under r p = true := by
  simp only [under, List.isPrefixOf_iff_prefix] at *
  exact List.IsPrefix.trans h1 h2

theorem under_refl (r : Path) : under r r = true := by simp [under]

theorem under_append (r q : Path) (c : Str) (h : under r q = true) : under r (q ++ [c]) = true := by
  simp only [under, List.isPrefixOf_iff_prefix] at *
  exact List.IsPrefix.trans h (List.prefix_append _ _)

theorem under_dropLast {r q : Path} (h : under r q = true) (hne : q ≠ r) : under r q.dropLast = true := by
  simp only [under, List.isPrefixOf_iff_prefix] at h ⊢
  obtain ⟨t, rfl⟩ := h
  rcases List.eq_nil_or_concat t with rfl | ⟨xs, x, rfl⟩
  · simp at hne
  · rw [List.concat_eq_append, ← List.append_assoc, List.dropLast_concat]
    exact List.prefix_append _ _

/-! ### lookup lemmas -/

theorem lookup_inode_irrel (fs : FS) (f : Ino → Option Inode) (n : Ino) (p : Path) :
    ({ fs with inode := f, next := n } : FS).lookup p = fs.lookup p := rfl

theorem lookup_setInode (fs : FS) (i : Ino) (n : Inode) (p : Path) :
    (fs.setInode i n).lookup p = fs.lookup p := rfl

theorem lookup_modInode (fs : FS) (i : Ino) (f : Inode → Inode) (p : Path) :
    (fs.modInode i f).lookup p = fs.lookup p := by
  unfold FS.modInode; split <;> rfl

theorem next_modInode (fs : FS) (i : Ino) (f : Inode → Inode) : (fs.modInode i f).next = fs.next := by
  unfold FS.modInode; split <;> rfl

theorem inode_modInode_ne (fs : FS) (i j : Ino) (f : Inode → Inode) (h : j ≠ i) :
    (fs.modInode i f).inode j = fs.inode j := by
  unfold FS.modInode; split
  · simp [FS.setInode, h]
  · rfl

theorem lookup_append_new (fs : FS) (q : Path) (i : Ino) (hn : fs.lookup q = none) (p : Path) :
    ({ fs with names := fs.names ++ [(q, i)] } : FS).lookup p =
      if p = q then some i else fs.lookup p := by
  unfold FS.lookup at *
  simp only [List.find?_append]
  by_cases hp : p = q
  · subst hp
    simp only [Option.map_eq_none_iff] at hn
    simp [hn]
  · cases h : List.find? (fun e => e.1 == p) fs.names with
    | some x => simp [h, hp]
    | none =>
      have : (q == p) = false := by simpa using fun e => hp e.symm
      simp [h, hp, List.find?, this]

theorem lookup_filter (names : List (Path × Ino)) (keep : Path → Bool) (p : Path) :
    ((names.filter (fun e => keep e.1)).find? (fun e => e.1 == p)).map (·.2) =
      if keep p then (names.find? (fun e => e.1 == p)).map (·.2) else none := by
  induction names with
  | nil => simp
  | cons e es ih =>
    by_cases hk : keep e.1 = true
    · simp only [List.filter, hk]
      by_cases hep : (e.1 == p) = true
      · have : e.1 = p := by simpa using hep
        subst this; simp [List.find?, hk]
      · simp only [List.find?, hep]; exact ih
    · have hk' : keep e.1 = false := by simpa using hk
      simp only [List.filter, hk']
      rw [ih]
      by_cases hep : (e.1 == p) = true
      · have : e.1 = p := by simpa using hep
        subst this; simp [hk']
      · simp [List.find?, hep]

theorem lookup_filterNames (fs : FS) (keep : Path → Bool) (p : Path) :
    ({ fs with names := fs.names.filter (fun e => keep e.1) } : FS).lookup p =
      if keep p then fs.lookup p else none := lookup_filter fs.names keep p

/-! ### effect lemmas -/

/-- changing an inode that has a name inside `r` -/
theorem modInode_confined (r : Path) (fs : FS) (i : Ino) (f : Inode → Inode) (q : Path)
    (hq : fs.lookup q = some i) (hu : under r q = true) : Confined r fs (fs.modInode i f) := by
  refine ⟨fun p _ => lookup_modInode fs i f p, ?_, ?_⟩
  · intro j hj
    have : j ≠ i := by
      intro e; subst e
      have := hj.2 q hq
      rw [hu] at this; cases this
    exact inode_modInode_ne fs i j f this
  · intro j hj p hp
    rw [lookup_modInode] at hp
    exact hj.2 p hp

theorem setInode_confined (r : Path) (fs : FS) (i : Ino) (n : Inode) (q : Path)
    (hq : fs.lookup q = some i) (hu : under r q = true) : Confined r fs (fs.setInode i n) := by
  refine ⟨fun p _ => rfl, ?_, fun j hj p hp => hj.2 p hp⟩
  intro j hj
  have : j ≠ i := by
    intro e; subst e
    have := hj.2 q hq
    rw [hu] at this; cases this
  simp [FS.setInode, this]

/-- touching the parent of an inside path other than the root -/
theorem touchParent_confined (r : Path) (fs : FS) (q : Path) (hu : under r q.dropLast = true) :
    Confined r fs (fs.touchParent q) := by
  unfold FS.touchParent
  split
  · rename_i i hi
    exact modInode_confined r fs i _ q.dropLast hi hu
  · exact Confined.refl r fs

def NextFresh (fs : FS) : Prop := ∀ p i, fs.lookup p = some i → i < fs.next

/-- allocating a fresh inode under a new inside name -/
theorem create_confined (r : Path) (fs : FS) (q : Path) (n : Inode) (hn : fs.lookup q = none)
    (hu : under r q = true) (hp : under r q.dropLast = true) (hf : NextFresh fs) :
    Confined r fs (fs.create q n) := by
  unfold FS.create
  simp only
  refine Confined.trans ?_ (touchParent_confined r _ q hp)
  refine ⟨?_, ?_, ?_⟩
  · intro p hpo
    show ({ fs with names := fs.names ++ [(q, fs.next)] } : FS).lookup p = fs.lookup p
    rw [lookup_append_new fs q fs.next hn p]
    have : p ≠ q := by intro e; subst e; rw [hu] at hpo; cases hpo
    simp [this]
  · intro j hj
    obtain ⟨⟨p, hpj⟩, _⟩ := hj
    have : j ≠ fs.next := Nat.ne_of_lt (hf p j hpj)
    simp [this]
  · intro j hj p hpj
    have hpj' : ({ fs with names := fs.names ++ [(q, fs.next)] } : FS).lookup p = some j := hpj
    rw [lookup_append_new fs q fs.next hn p] at hpj'
    split at hpj'
    · obtain ⟨⟨p0, hp0⟩, _⟩ := hj
      have hj' : j = fs.next := by cases hpj'; rfl
      have hlt : j < fs.next := hf p0 j hp0
      rw [hj'] at hlt
      exact absurd hlt (Nat.lt_irrefl _)
    · exact hj.2 p hpj'

/-- a new inside name for an inode that already has an inside name -/
theorem addName_confined (r : Path) (fs : FS) (q qo : Path) (i : Ino) (hn : fs.lookup q = none)
    (hu : under r q = true) (hp : under r q.dropLast = true)
    (ho : fs.lookup qo = some i) (huo : under r qo = true) :
    Confined r fs (fs.addName q i) := by
  unfold FS.addName
  refine Confined.trans ?_ (touchParent_confined r _ q hp)
  refine ⟨?_, fun _ _ => rfl, ?_⟩
  · intro p hpo
    rw [lookup_append_new fs q i hn p]
    have : p ≠ q := by intro e; subst e; rw [hu] at hpo; cases hpo
    simp [this]
  · intro j hj p hpj
    rw [lookup_append_new fs q i hn p] at hpj
    split at hpj
    · have : j = i := by cases hpj; rfl
      subst this
      have := hj.2 qo ho
      rw [huo] at this; cases this
    · exact hj.2 p hpj

theorem filter_confined (r : Path) (fs : FS) (keep : Path → Bool)
    (hk : ∀ p, under r p = false → keep p = true) :
    Confined r fs ({ fs with names := fs.names.filter (fun e => keep e.1) } : FS) := by
  refine ⟨?_, fun _ _ => rfl, ?_⟩
  · intro p hp
    show ((fs.names.filter (fun e => keep e.1)).find? (fun e => e.1 == p)).map (·.2) = _
    rw [lookup_filter, hk p hp]; rfl
  · intro j hj p hpj
    have : ((fs.names.filter (fun e => keep e.1)).find? (fun e => e.1 == p)).map (·.2) = some j := hpj
    rw [lookup_filter] at this
    split at this
    · exact hj.2 p this
    · cases this

theorem removeSubtree_confined (r : Path) (fs : FS) (q : Path) (hu : under r q = true)
    (hp : under r q.dropLast = true) : Confined r fs (fs.removeSubtree q) := by
  unfold FS.removeSubtree
  refine Confined.trans (filter_confined r fs (fun p => !(under q p)) ?_) (touchParent_confined r _ q hp)
  intro p hpo
  cases h : under q p with
  | false => rfl
  | true => have := under_trans hu h; rw [hpo] at this; cases this

theorem removeBelow_confined (r : Path) (fs : FS) (q : Path) (hu : under r q = true) :
    Confined r fs (fs.removeBelow q) := by
  unfold FS.removeBelow
  split
  · rename_i i hi
    refine Confined.trans (filter_confined r fs (fun p => !(under q p) || p == q) ?_) ?_
    · intro p hpo
      cases h : under q p with
      | false => rfl
      | true => have := under_trans hu h; rw [hpo] at this; cases this
    · refine modInode_confined r _ i _ q ?_ hu
      have := lookup_filter fs.names (fun p => !(under q p) || p == q) q
      simp only [beq_self_eq_true, Bool.or_true, if_true] at this
      exact this.trans hi
  · exact Confined.refl r fs

end GA
