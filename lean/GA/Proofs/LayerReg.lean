import GA.Proofs.LayerPost
/-
  One iteration of `UnpackLayer` for a regular-file entry that is neither reserved nor a whiteout: the same
  postcondition as in plain extraction (`iter_reg_post`).
-/
namespace GA

theorem needRmL_reg_stat (s : StatInfo) (e : Entry) (hreg : e.typ = .reg) : needRmL (.stat s) e = true := by
  simp [needRmL, hreg]

/-- **one regular-file iteration of a layer**: if the loop goes on after a regular-file entry whose name is not
    reserved, not a whiteout and not the destination itself, the entry's path names a regular file with exactly
    the entry's content, mode, clamped time and owner, and that inode has no other name -/
theorem iterL_reg_post (dp : Path) (dest : Str) (o : Opts) (hd : CleanAbs dest) (hdp : pathComps dest = dp)
    (e : Entry) (st : LState) (w : World) (hw : LW dp w) (hreg : e.typ = .reg)
    (hmeta : hasPrefix (clean e.name) whMetaPrefix = false)
    (hnwh : hasPrefix (base (join dest (clean e.name))) whPrefix = false)
    (hne : pathComps (join dest (clean e.name)) ≠ dp)
    (st' : LState) (w' : World) (hrun : (layerIterP dest o e st).run w = (.ok st', w')) :
    (st'.dirs = st.dirs ∧ st'.unpacked = join dest (clean e.name) :: st.unpacked) ∧ LW dp w' ∧ ∃ e' i n, remapE o e = some e' ∧
      w'.fs.lookup (pathComps (join dest (clean e.name))) = some i ∧
      (∀ q, w'.fs.lookup q = some i → q = pathComps (join dest (clean e.name))) ∧
      w'.fs.inode i = some n ∧ RegFinal e' o n := by
  simp only [layerIterP, hreg, stageP, hmeta, Bool.false_and] at hrun
  simp only [show (Typ.reg == Typ.xglobal) = false from rfl, Bool.false_eq_true, if_false] at hrun
  rw [Prog.bind_eq, Prog.run_bind] at hrun
  simp only [Prog.run, pure] at hrun
  cases hg : guardName dest (clean e.name) with
  | error out => rw [hg] at hrun; simp only [Prog.run, pure] at hrun; cases hrun
  | ok p =>
    rw [hg] at hrun
    simp only at hrun
    obtain ⟨hpe, hpc, hpin⟩ := guardName_ok dest (clean e.name) p hd hg
    rw [hdp] at hpin
    have hp : LexArg dp p := lexArg_of hpc hpin
    have hin' : dp <+: pathComps (join dest (clean e.name)) := by rw [← hpe]; exact hpin
    have hpne : pathComps p ≠ dp := by rw [hpe]; exact hne
    have hpnd : p ≠ clean dest := by
      intro h; apply hpne; rw [h, clean_of_cleanAbs dest hd, hdp]
    rw [← hpe]
    rw [← hpe] at hnwh
    rw [Prog.bind_eq, Prog.run_bind] at hrun
    have hI := LexSem.run dp _ _ w (lex_impliedDirs dp dest e.name o hd hdp hin') hw
    generalize hi1 : (impliedDirsP dest (clean e.name) o).run w = r1 at hrun hI
    obtain ⟨i1, w1⟩ := r1
    simp only at hrun hI
    have hw1 : LW dp w1 := hI.2.1
    by_cases hie : isErr i1 = true
    · simp only [hie, if_true, Prog.run, pure] at hrun; cases hrun
    · simp only [hie, Bool.false_eq_true, if_false, hnwh] at hrun
      rw [run_sys_bind, lstat_world] at hrun
      generalize hL : (step w1 (Sys.lstat p)).1 = L at hrun
      simp only [hpnd, decide_false, Bool.and_false, Bool.false_and, Bool.false_eq_true, if_false] at hrun
      rw [Prog.bind_eq, Prog.run_bind] at hrun
      have hmid : ∃ rm w2, (if needRmL L e = true then sys (Sys.removeAll p) else Prog.ret Res.ok).run w1 = (rm, w2) ∧
          LW dp w2 ∧ (isErr rm = false → w2.fs.lookup (pathComps p) = none ∨ ∃ er, resolve w2 p true = .err er) := by
        by_cases ha3 : needRmL L e = true
        · simp only [ha3, if_true]
          refine ⟨(step w1 (.removeAll p)).1, (step w1 (.removeAll p)).2, rfl, ?_, ?_⟩
          · exact (step_good dp w1 (.removeAll p) hw1 (good_lex (s := .removeAll p) ⟨hp, hpne⟩)).2
          · intro hok
            left
            exact (removeAll_post dp w1 hw1 p hp hpne).1 hok _ (under_self _)
        · simp only [ha3, Bool.false_eq_true, if_false]
          refine ⟨.ok, w1, rfl, hw1, fun _ => ?_⟩
          apply lstat_nostat dp w1 hw1 p hp
          intro s hs
          rw [hL] at hs
          subst hs
          exact ha3 (needRmL_reg_stat s e hreg)
      obtain ⟨rm, w2, hrm, hw2, hnone⟩ := hmid
      rw [hrm] at hrun
      simp only at hrun
      by_cases hre : isErr rm = true
      · simp only [hre, if_true, Prog.run, pure] at hrun; cases hrun
      · simp only [hre, Bool.false_eq_true, if_false] at hrun
        simp only [layerTailP, resolveSrcP, hreg, show (Typ.reg == Typ.link) = false from rfl, Bool.false_and,
          Bool.false_eq_true, if_false] at hrun
        rw [Prog.bind_eq, Prog.run_bind] at hrun
        simp only [Prog.run, pure] at hrun
        cases hrem : remapE o e with
        | none => rw [hrem] at hrun; simp only [Prog.run, pure] at hrun; cases hrun
        | some e' =>
          rw [hrem] at hrun
          simp only at hrun
          have hty : e'.typ = .reg := by rw [remapE_typ o e e' hrem]; exact hreg
          rw [Prog.bind_eq, Prog.run_bind] at hrun
          have hreg_dir : (Typ.reg == Typ.dir) = false := rfl
          simp only [hreg_dir, Bool.false_eq_true, if_false] at hrun
          by_cases hout : ((createTarFileP p dest e' o).run w2).1 = .ok
          · simp only [hout, show (Out.ok != Out.ok) = false from rfl, Bool.false_eq_true, if_false, Prog.run, pure] at hrun
            injection hrun with h1 h2
            injection h1 with h1
            subst h2
            refine ⟨⟨by rw [← h1], by rw [← h1]⟩, ?_⟩
            rcases hnone (by simpa using hre) with hn | ⟨er, her⟩
            · have hT := createTarFile_reg_exact dp p dest e' o hp hty w2 ⟨hw2, hn⟩ hout
              obtain ⟨⟨hw3, i, n, hl, hi, hfin⟩, _⟩ := hT
              have hnames := createTarFile_reg_names dp p dest e' o hp hty w2 hw2 hn hout
              refine ⟨hw3, e', i, n, rfl, hl, ?_, hi, hfin⟩
              intro q hq
              have hi' : i = w2.fs.next := by
                have := hnames (pathComps p)
                rw [if_pos rfl, hl] at this
                exact Option.some.inj this
              rw [hnames q] at hq
              by_cases hqp : q = pathComps p
              · exact hqp
              · rw [if_neg hqp] at hq
                have := hw2.inv.fresh q i hq
                rw [hi'] at this
                exact absurd this (Nat.lt_irrefl _)
            · exfalso
              rw [createTarFile_reg_unresolved p dest e' o hty w2 er her] at hout
              cases hout
          · exfalso
            cases hout' : ((createTarFileP p dest e' o).run w2).1 with
            | ok => exact hout hout'
            | err => simp only [hout', show (Out.err != Out.ok) = true from rfl, if_true, Prog.run, pure] at hrun; cases hrun
            | breakout => simp only [hout', show (Out.breakout != Out.ok) = true from rfl, if_true, Prog.run, pure] at hrun; cases hrun

end GA
