import GA.Proofs.LexStrings
import GA.Proofs.Within
/-
  `Join(dest, Dir(n))` and `Join(dest, n)` for a cleaned name `n`: the component lists are
  prefix-comparable (the parent names an ancestor of the entry's path, or the same path).
-/
namespace GA

def Live (c : Str) : Prop := c ≠ [] ∧ c ≠ dot

/-- apply a (reversed) relative clean stack to a rooted stack -/
def applyStack (S T : List Str) : List Str := T.reverse.foldl (cleanStep true) S

theorem applyStack_cons (S T : List Str) (t : Str) : applyStack S (t :: T) = cleanStep true (applyStack S T) t := by
  simp [applyStack, List.foldl_append]

theorem cleanStep_live_push (r : Bool) (stk : List Str) (c : Str) (h : Live c) (hd : c ≠ dotdot) :
    cleanStep r stk c = c :: stk := by
  unfold cleanStep; simp [h.1, h.2, hd]

theorem applyStack_step (S T : List Str) (c : Str) (hT : ∀ x ∈ T, Live x) :
    applyStack S (cleanStep false T c) = cleanStep true (applyStack S T) c ∧ ∀ x ∈ cleanStep false T c, Live x := by
  by_cases h0 : c = [] ∨ c = dot
  · have e1 : cleanStep false T c = T := by unfold cleanStep; simp [h0]
    have e2 : cleanStep true (applyStack S T) c = applyStack S T := by unfold cleanStep; simp [h0]
    rw [e1, e2]; exact ⟨rfl, hT⟩
  · have hlive : Live c := by
      unfold Live
      constructor
      · intro e; exact h0 (Or.inl e)
      · intro e; exact h0 (Or.inr e)
    by_cases hdd : c = dotdot
    · subst hdd
      cases T with
      | nil =>
        have e1 : cleanStep false [] dotdot = [dotdot] := by simp [cleanStep, dotdot, dot]
        rw [e1, applyStack_cons]
        exact ⟨rfl, by intro x hx; simp at hx; subst hx; simp [Live, dotdot, dot]⟩
      | cons t rest =>
        by_cases ht : t = dotdot
        · have e1 : cleanStep false (t :: rest) dotdot = dotdot :: t :: rest := by subst ht; simp [cleanStep, dotdot, dot]
          rw [e1, applyStack_cons]
          refine ⟨rfl, ?_⟩
          intro x hx
          rcases List.mem_cons.mp hx with rfl | hx
          · simp [Live, dotdot, dot]
          · exact hT x hx
        · have ht' : ¬ t = [46, 46] := ht
          have e1 : cleanStep false (t :: rest) dotdot = rest := by simp [cleanStep, ht', dotdot, dot]
          rw [e1, applyStack_cons, cleanStep_live_push true _ t (hT t (by simp)) ht]
          refine ⟨?_, fun x hx => hT x (by simp [hx])⟩
          simp [cleanStep, ht', dotdot, dot]
    · rw [cleanStep_live_push false T c hlive hdd, applyStack_cons]
      refine ⟨rfl, ?_⟩
      intro x hx
      rcases List.mem_cons.mp hx with rfl | hx
      · exact hlive
      · exact hT x hx

theorem applyStack_fold (S : List Str) : ∀ (cs T : List Str), (∀ x ∈ T, Live x) →
    applyStack S (cs.foldl (cleanStep false) T) = cs.foldl (cleanStep true) (applyStack S T)
  | [], T, _ => rfl
  | c :: cs, T, hT => by
    simp only [List.foldl_cons]
    have := applyStack_step S T c hT
    rw [applyStack_fold S cs _ this.2, this.1]

/-- **K1**: folding the components of the cleaned relative string equals folding the raw components -/
theorem fold_cleanComps_rel (S : List Str) (a : Str) (hrel : isAbs a = false) :
    (cleanComps a).foldl (cleanStep true) S = (splitSlash a).foldl (cleanStep true) S := by
  unfold cleanComps
  rw [hrel]
  have := applyStack_fold S (splitSlash a) [] (by simp)
  simpa [applyStack] using this

theorem nonrooted_elems : ∀ (cs T : List Str), (∀ x ∈ T, x ≠ [] ∧ NoSlash x) → (∀ c ∈ cs, NoSlash c) →
    ∀ x ∈ cs.foldl (cleanStep false) T, x ≠ [] ∧ NoSlash x
  | [], T, hT, _ => hT
  | c :: cs, T, hT, hcs => by
    simp only [List.foldl_cons]
    apply nonrooted_elems cs _ _ (fun x hx => hcs x (by simp [hx]))
    intro x hx
    unfold cleanStep at hx
    split at hx
    · exact hT x hx
    · split at hx
      · cases T with
        | nil => simp at hx; subst hx; simp [dotdot, NoSlash]
        | cons t rest =>
          simp only at hx
          split at hx
          · rcases List.mem_cons.mp hx with rfl | hx
            · simp [dotdot, NoSlash]
            · exact hT x hx
          · exact hT x (by simp [hx])
      · rename_i h1 _
        rcases List.mem_cons.mp hx with rfl | hx
        · exact ⟨fun e => h1 (Or.inl e), hcs _ (by simp)⟩
        · exact hT x hx

/-- folding the components of `clean a` over a rooted stack, for a relative `a` -/
theorem fold_clean_rel (S : List Str) (a : Str) (hrel : isAbs a = false) :
    (splitSlash (clean a)).foldl (cleanStep true) S = (splitSlash a).foldl (cleanStep true) S := by
  have hdot : (splitSlash dot).foldl (cleanStep true) S = S := by
    simp [dot, splitSlash, consHead, cleanStep]
  unfold clean
  by_cases ha : a = []
  · subst ha
    simp only [if_true]
    rw [hdot]; simp [splitSlash, cleanStep]
  · simp only [ha, if_false, hrel, Bool.false_eq_true]
    have helems : ∀ x ∈ cleanComps a, x ≠ [] ∧ NoSlash x := by
      intro x hx
      unfold cleanComps at hx
      rw [hrel] at hx
      exact nonrooted_elems (splitSlash a) [] (by simp) (splitSlash_elems_noSlash a) x (by simpa using hx)
    by_cases hout : joinSlash (cleanComps a) = []
    · simp only [hout, if_true]
      have hnil : cleanComps a = [] := joinSlash_eq_nil _ (fun c hc => (helems c hc).1) hout
      rw [hdot, ← fold_cleanComps_rel S a hrel, hnil]; rfl
    · simp only [hout, if_false]
      have hne : cleanComps a ≠ [] := by intro e; rw [e] at hout; exact hout rfl
      rw [splitSlash_joinSlash _ hne (fun c hc => (helems c hc).2)]
      exact fold_cleanComps_rel S a hrel

theorem reverse_tail_prefix {α} (l : List α) : l.tail.reverse <+: l.reverse := by
  cases l with
  | nil => simp
  | cons x xs => simp

theorem cleanStep_comparable (S : List Str) (b : Str) (hS : ∀ x ∈ S, Norm x) :
    (cleanStep true S b).reverse <+: S.reverse ∨ S.reverse <+: (cleanStep true S b).reverse := by
  unfold cleanStep
  split
  · left; exact List.prefix_refl _
  · split
    · cases S with
      | nil => left; simp
      | cons t rest =>
        have : t ≠ dotdot := (hS t (by simp)).2.2.1
        simp only [this, if_false]
        left; simp
    · right; simp

end GA

namespace GA

/-- components of `Join(dest, y)` for a cleaned absolute `dest`: fold the components of `y` over the stack -/
theorem pathComps_join (cs : List Str) (hcs : ∀ c ∈ cs, Norm c) (y : Str) :
    CleanAbs (join (47 :: joinSlash cs) y) ∧
    pathComps (join (47 :: joinSlash cs) y) = ((splitSlash y).foldl (cleanStep true) cs.reverse).reverse ∧
    (∀ x ∈ (splitSlash y).foldl (cleanStep true) cs.reverse, Norm x) := by
  have hnorm : ∀ x ∈ (splitSlash y).foldl (cleanStep true) cs.reverse, Norm x :=
    foldl_cleanStep_norm _ _ (splitSlash_elems_noSlash y) (by simpa using hcs)
  have hj : join (47 :: joinSlash cs) y = clean ((47 :: joinSlash cs) ++ 47 :: y) := by
    unfold join; simp
  have habs : isAbs ((47 :: joinSlash cs) ++ 47 :: y) = true := by simp [isAbs]
  have hform := clean_abs_form _ habs
  rw [cleanComps_join cs hcs y] at hform
  refine ⟨by rw [hj]; exact clean_cleanAbs _ habs, ?_, hnorm⟩
  rw [hj, hform.1]
  exact pathComps_cleanAbs _ (by simpa using hnorm)

theorem fold_cleanAbs (S : List Str) (ys : List Str) (hys : ∀ c ∈ ys, Norm c) :
    (splitSlash (47 :: joinSlash ys)).foldl (cleanStep true) S = ys.reverse ++ S := by
  rw [splitSlash_cleanAbs ys hys]
  by_cases h0 : ys = []
  · subst h0; simp [cleanStep_skip_empty]
  · simp only [h0, if_false, List.foldl_cons, cleanStep_skip_empty]
    exact foldl_norm true ys S hys

theorem joinSlash_head (c : Str) (rest : List Str) (hc : c ≠ []) : (joinSlash (c :: rest)).head? = c.head? := by
  cases rest with
  | nil => rfl
  | cons y ys =>
    simp only [joinSlash]
    cases c with
    | nil => exact absurd rfl hc
    | cons a as => rfl

theorem isAbs_clean_rel (x : Str) (h : isAbs x = false) : isAbs (clean x) = false := by
  unfold clean
  by_cases hx : x = []
  · simp [hx, isAbs, dot]
  · simp only [hx, if_false, h, Bool.false_eq_true]
    have helems : ∀ c ∈ cleanComps x, c ≠ [] ∧ NoSlash c := by
      intro c hc
      unfold cleanComps at hc
      rw [h] at hc
      exact nonrooted_elems (splitSlash x) [] (by simp) (splitSlash_elems_noSlash x) c (by simpa using hc)
    split
    · simp [isAbs, dot]
    · cases hcc : cleanComps x with
      | nil => simp [joinSlash, isAbs]
      | cons c rest =>
        have hc := helems c (by rw [hcc]; simp)
        unfold isAbs
        rw [joinSlash_head c rest hc.1]
        cases c with
        | nil => exact absurd rfl hc.1
        | cons a as =>
          simp only [List.head?_cons]
          have : a ≠ 47 := by
            intro e; apply hc.2; rw [e]; simp
          simp [this]

theorem splitLast_snd_noSlash (s : Str) : NoSlash (splitLast s).2 := by
  unfold splitLast NoSlash
  simp only [List.mem_reverse]
  intro hm
  have key : ∀ (l : List UInt8), (47 : UInt8) ∉ l.takeWhile (fun x => decide (x ≠ 47)) := by
    intro l
    induction l with
    | nil => simp
    | cons y ys ih =>
      simp only [List.takeWhile_cons]
      split
      · rename_i hy
        intro hmem
        rcases List.mem_cons.mp hmem with e | hmem
        · subst e; simp at hy
        · exact ih hmem
      · simp
  exact key _ hm

/-- **the implied parent names an ancestor of the entry's path, or the path itself** -/
theorem implied_parent_comparable (dest x : Str) (hd : CleanAbs dest) :
    CleanAbs (join dest (dir (clean x))) ∧ CleanAbs (join dest (clean x)) ∧
    (pathComps (join dest (dir (clean x))) <+: pathComps (join dest (clean x)) ∨
     pathComps (join dest (clean x)) <+: pathComps (join dest (dir (clean x)))) := by
  obtain ⟨cs, hcs, rfl⟩ := hd
  have hP := pathComps_join cs hcs (clean x)
  have hQ := pathComps_join cs hcs (dir (clean x))
  refine ⟨hQ.1, hP.1, ?_⟩
  rw [hP.2.1, hQ.2.1]
  by_cases habs : isAbs x = true
  · -- an absolute name: all components are normal, the parent drops the last one
    obtain ⟨ns, hns, hn, _⟩ := (clean_cleanAbs x habs).comps
    have hdir := dir_cleanAbs (clean_cleanAbs x habs)
    obtain ⟨ds, hds, hdn, hdc⟩ := hdir.1.comps
    have hrel : ds = ns.dropLast := by
      have := hdir.2
      rw [hdc, hn, pathComps_cleanAbs ns hns] at this
      exact this
    rw [hdn, fold_cleanAbs _ ds hds, hn, fold_cleanAbs _ ns hns]
    left
    simp only [List.reverse_append, List.reverse_reverse]
    rw [hrel]
    exact (List.prefix_append_right_inj cs).mpr (List.dropLast_prefix ns)
  · have hrel : isAbs x = false := by simpa using habs
    have hnrel := isAbs_clean_rel x hrel
    -- n = a ++ b with a empty or ending in "/", b without "/"
    have hab := splitLast_append (clean x)
    have hform := splitLast_fst_dirForm (clean x)
    have hb := splitLast_snd_noSlash (clean x)
    have harel : isAbs (splitLast (clean x)).1 = false := by
      cases ha : (splitLast (clean x)).1 with
      | nil => simp [isAbs]
      | cons c rest =>
        have : (clean x).head? = some c := by rw [← hab, ha]; rfl
        unfold isAbs at hnrel ⊢
        rw [this] at hnrel
        simpa using hnrel
    have hQfold : (splitSlash (dir (clean x))).foldl (cleanStep true) cs.reverse =
        (splitSlash (splitLast (clean x)).1).foldl (cleanStep true) cs.reverse := by
      unfold dir
      exact fold_clean_rel _ _ harel
    have hPfold : (splitSlash (clean x)).foldl (cleanStep true) cs.reverse =
        cleanStep true ((splitSlash (splitLast (clean x)).1).foldl (cleanStep true) cs.reverse) (splitLast (clean x)).2 := by
      conv => lhs; rw [← hab]
      rcases hform with h0 | ⟨a', ha'⟩
      · rw [h0]
        simp only [List.nil_append, splitSlash_noSlash _ hb, List.foldl_cons, List.foldl_nil]
        simp [splitSlash, cleanStep_skip_empty]
      · rw [ha', List.append_assoc, List.singleton_append, splitSlash_append_slash,
          splitSlash_noSlash _ hb, List.foldl_append]
        have : splitSlash (a' ++ [47]) = splitSlash a' ++ [[]] := by
          have := splitSlash_append_slash a' []
          simpa [splitSlash] using this
        rw [this, List.foldl_append]
        simp [cleanStep_skip_empty]
    rw [hPfold, hQfold]
    have hS : ∀ z ∈ (splitSlash (splitLast (clean x)).1).foldl (cleanStep true) cs.reverse, Norm z :=
      foldl_cleanStep_norm _ _ (splitSlash_elems_noSlash _) (by simpa using hcs)
    rcases cleanStep_comparable _ (splitLast (clean x)).2 hS with h | h
    · right; exact h
    · left; exact h

end GA
