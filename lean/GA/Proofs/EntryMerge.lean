import GA.Proofs.EntryPost
/-
  A directory entry onto an existing directory: only that directory's own inode changes — no name
  appears or disappears anywhere, no other inode is touched.
-/
namespace GA

/-- between `w0` and `w` only inode `i` may differ -/
def Frame (i : Ino) (w0 w : World) : Prop :=
  (∀ p, w.fs.lookup p = w0.fs.lookup p) ∧ (∀ j, j ≠ i → w.fs.inode j = w0.fs.inode j)

theorem Frame.refl (i : Ino) (w : World) : Frame i w w := ⟨fun _ => rfl, fun _ _ => rfl⟩

theorem Frame.trans {i : Ino} {a b c : World} (h1 : Frame i a b) (h2 : Frame i b c) : Frame i a c :=
  ⟨fun p => (h2.1 p).trans (h1.1 p), fun j hj => (h2.2 j hj).trans (h1.2 j hj)⟩

theorem frame_modInode (i : Ino) (w : World) (f : Inode → Inode) : Frame i w { w with fs := w.fs.modInode i f } :=
  ⟨fun p => lookup_modInode w.fs i f p, fun j hj => inode_modInode_ne w.fs i j f hj⟩

theorem frame_setInode (i : Ino) (w : World) (n : Inode) : Frame i w { w with fs := w.fs.setInode i n } :=
  ⟨fun _ => rfl, fun j hj => by simp [FS.setInode, hj]⟩

/-- the object at `path` is inode `i`, satisfies `R`, and nothing but `i` changed since `w0` -/
def ObjF (dp : Path) (path : Str) (i : Ino) (w0 : World) (R : Inode → Prop) (w : World) : Prop :=
  LW dp w ∧ w.fs.lookup (pathComps path) = some i ∧ (∃ n, w.fs.inode i = some n ∧ R n) ∧ Frame i w0 w

theorem ObjF.mono {dp : Path} {path : Str} {i : Ino} {w0 : World} {R R' : Inode → Prop} {w : World}
    (h : ObjF dp path i w0 R w) (hr : ∀ n, R n → R' n) : ObjF dp path i w0 R' w := by
  obtain ⟨hw, hl, ⟨n, hi, hn⟩, hf⟩ := h
  exact ⟨hw, hl, ⟨n, hi, hr n hn⟩, hf⟩

/-- one metadata call on the object: either nothing happened, or inode `i` went through `f` -/
theorem modF (dp : Path) (path : Str) (i : Ino) (w0 : World) (s : Sys) (hs : SysLex dp s) (f : Inode → Inode)
    (R : Inode → Prop) (w : World) (h : ObjF dp path i w0 R w)
    (hstep : step w s = (.ok, { w with fs := w.fs.modInode i f }) ∨ ((step w s).2 = w ∧ isErr (step w s).1 = true)) :
    (isErr (step w s).1 = true → ObjF dp path i w0 R (step w s).2) ∧
    (isErr (step w s).1 = false → ObjF dp path i w0 (fun n' => ∃ n, R n ∧ n' = f n) (step w s).2) := by
  obtain ⟨hw, hl, ⟨n, hi, hn⟩, hf⟩ := h
  have hgood := step_good dp w s hw (good_lex hs)
  rcases hstep with he | ⟨he, herr⟩
  · rw [he]
    refine ⟨fun h => by simp [isErr] at h, fun _ => ?_⟩
    rw [he] at hgood
    exact ⟨hgood.2, by simp only; rw [lookup_modInode]; exact hl, ⟨f n, inode_modInode_self w.fs i f n hi, n, hn, rfl⟩,
      hf.trans (frame_modInode i w f)⟩
  · refine ⟨fun _ => ?_, fun h => by rw [herr] at h; cases h⟩
    rw [he]; exact ⟨hw, hl, ⟨n, hi, hn⟩, hf⟩

theorem step_path_mod (dp : Path) (path : Str) (hp : LexArg dp path) (w : World) (hw : LW dp w) (i : Ino)
    (hl : w.fs.lookup (pathComps path) = some i) (fl : Bool) {α : Type} (k : Path → α) (e : Errno → α)
    (res : α) (hres : res = match resolve w path fl with | .err x => e x | .ok q => k q) :
    res = k (pathComps path) ∨ ∃ x, res = e x := by
  cases hr : resolve w path fl with
  | err x => right; exact ⟨x, by rw [hres, hr]⟩
  | ok q =>
    left
    have := resolve_lexical w hw.inv.root hw.inv.nosym path fl q hp.2 hr
    rw [hres, hr, this]

theorem chownF (dp : Path) (path : Str) (hp : LexArg dp path) (i : Ino) (w0 : World) (u g : Nat) (fl : Bool) (R : Inode → Prop) :
    Triple (ObjF dp path i w0 R) (sys (.chown path u g fl))
      (fun r w' => (isErr r = true → ObjF dp path i w0 R w') ∧
        (isErr r = false → ObjF dp path i w0 (fun n' => ∃ n, R n ∧ n' = chownInode n u g) w')) := by
  apply Triple.sys
  intro w h
  refine modF dp path i w0 (.chown path u g fl) hp (fun n => chownInode n u g) R w h ?_
  simp only [step]
  cases hr : resolve w path fl with
  | err e => right; exact ⟨rfl, rfl⟩
  | ok q =>
    have := resolve_lexical w h.1.inv.root h.1.inv.nosym path fl q hp.2 hr
    subst this
    simp only [h.2.1]
    left; trivial

theorem chmodF (dp : Path) (path : Str) (hp : LexArg dp path) (i : Ino) (w0 : World) (perm : Nat) (R : Inode → Prop) :
    Triple (ObjF dp path i w0 R) (sys (.chmod path perm))
      (fun r w' => (isErr r = true → ObjF dp path i w0 R w') ∧
        (isErr r = false → ObjF dp path i w0 (fun n' => ∃ n, R n ∧ n' = { n with perm := perm &&& 0o7777 }) w')) := by
  apply Triple.sys
  intro w h
  refine modF dp path i w0 (.chmod path perm) hp (fun n => { n with perm := perm &&& 0o7777 }) R w h ?_
  simp only [step]
  cases hr : resolve w path true with
  | err e => right; exact ⟨rfl, rfl⟩
  | ok q =>
    have := resolve_lexical w h.1.inv.root h.1.inv.nosym path true q hp.2 hr
    subst this
    simp only [h.2.1]
    left; trivial

theorem utimesF (dp : Path) (path : Str) (hp : LexArg dp path) (i : Ino) (w0 : World) (t : Int) (fl : Bool) (R : Inode → Prop) :
    Triple (ObjF dp path i w0 R) (sys (.utimes path (some t) fl))
      (fun r w' => (isErr r = true → ObjF dp path i w0 R w') ∧
        (isErr r = false → ObjF dp path i w0 (fun n' => ∃ n, R n ∧ n' = { n with mtime := some t }) w')) := by
  apply Triple.sys
  intro w h
  refine modF dp path i w0 (.utimes path (some t) fl) hp (fun n => { n with mtime := some t }) R w h ?_
  simp only [step]
  cases hr : resolve w path fl with
  | err e => right; exact ⟨rfl, rfl⟩
  | ok q =>
    have := resolve_lexical w h.1.inv.root h.1.inv.nosym path fl q hp.2 hr
    subst this
    simp only [h.2.1]
    left; trivial

theorem setxattrF (dp : Path) (path : Str) (hp : LexArg dp path) (i : Ino) (w0 : World) (k : Str) (v : List UInt8) (fl : Bool)
    (R : Inode → Prop) (hR : ∀ n xs, R n → R { n with xattrs := xs }) :
    Triple (ObjF dp path i w0 R) (sys (.setxattr path k v fl)) (fun _ w' => ObjF dp path i w0 R w') := by
  apply Triple.sys
  intro w h
  obtain ⟨hw, hl, ⟨n, hi, hn⟩, hf⟩ := h
  have hgood := step_good dp w (.setxattr path k v fl) hw (good_lex (s := .setxattr path k v fl) hp)
  cases hr : resolve w path fl with
  | err e =>
    have : step w (.setxattr path k v fl) = (.err e, w) := by simp only [step, hr]
    rw [this]; exact ⟨hw, hl, ⟨n, hi, hn⟩, hf⟩
  | ok q' =>
    have hq := resolve_lexical w hw.inv.root hw.inv.nosym path fl q' hp.2 hr
    subst hq
    by_cases hc : (hasPrefix k b!"user." && n.kind != .reg && n.kind != .dir) = true
    · have : step w (.setxattr path k v fl) = (.err .EPERM, w) := by simp only [step, hr, hl, hi, hc, if_true]
      rw [this]; exact ⟨hw, hl, ⟨n, hi, hn⟩, hf⟩
    · have : step w (.setxattr path k v fl) =
          (.ok, { w with fs := w.fs.setInode i ({ n with xattrs := setX n.xattrs k v } : Inode) }) := by
        simp only [step, hr, hl, hi, hc, Bool.false_eq_true, if_false]
      rw [this] at hgood ⊢
      refine ⟨hgood.2, hl, ⟨({ n with xattrs := setX n.xattrs k v } : Inode), ?_, hR n (setX n.xattrs k v) hn⟩,
        hf.trans (frame_setInode i w _)⟩
      show (w.fs.setInode i _).inode i = _
      simp [FS.setInode]

theorem setXattrsF (dp : Path) (path : Str) (hp : LexArg dp path) (i : Ino) (w0 : World) (best : Bool) (R : Inode → Prop)
    (hR : ∀ n xs, R n → R { n with xattrs := xs }) :
    ∀ (xs : List (Str × List UInt8)), Triple (ObjF dp path i w0 R) (setXattrsP path best xs) (fun _ w' => ObjF dp path i w0 R w')
  | [] => Triple.pure _ (fun _ h => h)
  | (k, v) :: rest => by
    simp only [setXattrsP]
    refine Triple.bind _ _ (setxattrF dp path hp i w0 k v false R hR) ?_
    intro r
    split
    · exact Triple.pure _ (fun _ h => h)
    · exact setXattrsF dp path hp i w0 best R hR rest

/-- what a directory entry's metadata phase leaves at the directory -/
def DirFinal (e : Entry) (o : Opts) (n : Inode) : Prop :=
  n.kind = .dir ∧ n.perm = e.mode &&& 0o7777 ∧ n.mtime = some (boundTime e.mtime) ∧
  (o.noLchown = false → (n.uid, n.gid) = o.chownOpts.getD (e.uid, e.gid))

theorem applyMeta_dirF (dp : Path) (path : Str) (e : Entry) (o : Opts) (hp : LexArg dp path) (hdir : e.typ = .dir)
    (i : Ino) (w0 : World) :
    Triple (ObjF dp path i w0 (fun n => n.kind = .dir)) (applyMetaP path e o)
      (fun out w' => out = .ok → ObjF dp path i w0 (DirFinal e o) w') := by
  unfold applyMetaP
  refine Triple.bind (Q := fun c w' => isErr c = false →
      ObjF dp path i w0 (fun n => n.kind = .dir ∧
        (o.noLchown = false → (n.uid, n.gid) = o.chownOpts.getD (e.uid, e.gid))) w') _ _ ?_ ?_
  · by_cases hno : o.noLchown = true
    · simp only [hno, if_true]
      exact Triple.pure _ (fun w h _ => h.mono (fun n hn => ⟨hn, fun h' => by cases h'⟩))
    · have hno' : o.noLchown = false := by simpa using hno
      simp only [hno', Bool.false_eq_true, if_false]
      refine Triple.conseq _ (chownF dp path hp i w0 _ _ false _) (fun _ h => h) ?_
      intro c w' hq hc
      refine (hq.2 hc).mono ?_
      rintro n' ⟨n, hn, rfl⟩
      have hk := chownInode_keeps n (o.chownOpts.getD (e.uid, e.gid)).1 (o.chownOpts.getD (e.uid, e.gid)).2
      exact ⟨by rw [hk.1]; exact hn, fun _ => by rw [hk.2.2.1, hk.2.2.2]⟩
  · intro c
    by_cases hc : isErr c = true
    · simp only [hc, if_true]
      exact Triple.pure _ (fun _ _ h => by cases h)
    · have hc' : isErr c = false := by simpa using hc
      simp only [hc', Bool.false_eq_true, if_false]
      refine Triple.bind (Q := fun _ w' => ObjF dp path i w0 (fun n => n.kind = .dir ∧
          (o.noLchown = false → (n.uid, n.gid) = o.chownOpts.getD (e.uid, e.gid))) w') _ _ ?_ ?_
      · exact Triple.conseq _ (setXattrsF dp path hp i w0 _ _ (fun n xs h => h) e.xattrs) (fun w h => h trivial) (fun _ _ h => h)
      · intro x
        by_cases hx : isErr x = true
        · simp only [hx, if_true]
          exact Triple.pure _ (fun _ _ h => by cases h)
        · have hx' : isErr x = false := by simpa using hx
          simp only [hx', Bool.false_eq_true, if_false, hdir]
          refine Triple.bind (Q := fun m w' => isErr m = false → ObjF dp path i w0 (fun n => n.kind = .dir ∧
              (o.noLchown = false → (n.uid, n.gid) = o.chownOpts.getD (e.uid, e.gid)) ∧ n.perm = e.mode &&& 0o7777) w') _ _ ?_ ?_
          · simp only [show (Typ.dir == Typ.link) = false from rfl, Bool.false_eq_true, if_false,
              show (Typ.dir != Typ.sym) = true from rfl, if_true]
            refine Triple.conseq _ (chmodF dp path hp i w0 e.mode _) (fun _ h => h) ?_
            intro m w' hq hm
            refine (hq.2 hm).mono ?_
            rintro n' ⟨n, hn, rfl⟩
            exact ⟨hn.1, hn.2, rfl⟩
          · intro m
            by_cases hm : isErr m = true
            · simp only [hm, if_true]
              exact Triple.pure _ (fun _ _ h => by cases h)
            · have hm' : isErr m = false := by simpa using hm
              simp only [hm', Bool.false_eq_true, if_false]
              refine Triple.bind (Q := fun u w' => isErr u = false → ObjF dp path i w0 (DirFinal e o) w') _ _ ?_ ?_
              · simp only [show (Typ.dir == Typ.link) = false from rfl, Bool.false_eq_true, if_false,
                  show (Typ.dir != Typ.sym) = true from rfl, if_true]
                refine Triple.conseq _ (utimesF dp path hp i w0 (boundTime e.mtime) true _) (fun w h => h trivial) ?_
                intro u w' hq hu
                refine (hq.2 hu).mono ?_
                rintro n' ⟨n, hn, rfl⟩
                exact ⟨hn.1, hn.2.2, rfl, hn.2.1⟩
              · intro u
                by_cases hu : isErr u = true
                · simp only [hu, if_true]
                  exact Triple.pure _ (fun _ _ h => by cases h)
                · have hu' : isErr u = false := by simpa using hu
                  simp only [hu', Bool.false_eq_true, if_false]
                  exact Triple.pure _ (fun _ h _ => h trivial)

theorem mkdir_existing (dp : Path) (path : Str) (hp : LexArg dp path) (w : World) (hw : LW dp w) (i : Ino)
    (hl : w.fs.lookup (pathComps path) = some i) (perm : Nat) :
    isErr (step w (.mkdir path perm)).1 = true ∧ (step w (.mkdir path perm)).2 = w := by
  simp only [step, mkdirOne]
  cases hr : resolveC w path with
  | err e => exact ⟨rfl, rfl⟩
  | ok q =>
    have := resolveC_lexical w hw.inv.root hw.inv.nosym path q hp.2 hr
    subst this
    simp [hl, isErr]

/-- **a directory entry onto an existing directory merges**: on success only that directory's own inode
    has changed, to the entry's mode, time and owner -/
theorem createTarFile_dir_merges (dp : Path) (path xd : Str) (e : Entry) (o : Opts) (hp : LexArg dp path)
    (hdir : e.typ = .dir) (i : Ino) (w0 : World) :
    Triple (ObjF dp path i w0 (fun n => n.kind = .dir)) (createTarFileP path xd e o)
      (fun out w' => out = .ok → ObjF dp path i w0 (DirFinal e o) w') := by
  unfold createTarFileP
  simp only [hdir]
  refine Triple.bind (Q := fun _ w' => ObjF dp path i w0 (fun n => n.kind = .dir) w') _ _ ?_ ?_
  · apply Triple.sys
    intro w h
    simp only [step]; exact h
  · intro l
    split
    · exact applyMeta_dirF dp path e o hp hdir i w0
    · refine Triple.bind (Q := fun r _ => isErr r = true) _ _ ?_ ?_
      · apply Triple.sys
        intro w h
        exact (mkdir_existing dp path hp w h.1 i h.2.1 e.mode).1
      · intro r w hr
        simp only [hr, if_true]
        intro h; cases h

end GA
