import GA.Proofs.UnpackRun
import GA.Proofs.EntryLink
import GA.Proofs.RAll
/-
  Ingredients of "the last entry wins" for whole archives: programs that never change which inode a path
  names; the deferred directory-time pass changes nothing but the times of directories; what one
  regular-file iteration leaves behind, including that the new inode has exactly one name.
-/
namespace GA

/-! ### programs that keep every name -/

def KeepsNames {α : Type} : Prog α → Prop
  | .ret _ => True
  | .call s k => (∀ w q, (step w s).2.fs.lookup q = w.fs.lookup q) ∧ ∀ r, KeepsNames (k r)

theorem KeepsNames.run {α : Type} : ∀ (p : Prog α) (w : World), KeepsNames p → ∀ q, (p.run w).2.fs.lookup q = w.fs.lookup q
  | .ret _, _, _, _ => rfl
  | .call s k, w, h, q => by
    simp only [Prog.run]
    rw [KeepsNames.run (k (step w s).1) (step w s).2 (h.2 _) q, h.1 w q]

theorem KeepsNames.bind {α β : Type} : ∀ (m : Prog α) (f : α → Prog β), KeepsNames m → (∀ a, KeepsNames (f a)) →
    KeepsNames (m.bind f)
  | .ret a, f, _, hf => hf a
  | .call s k, f, hm, hf => ⟨hm.1, fun r => KeepsNames.bind (k r) f (hm.2 r) hf⟩

theorem keepsB {α β : Type} (m : Prog α) (f : α → Prog β) (hm : KeepsNames m) (hf : ∀ a, KeepsNames (f a)) :
    KeepsNames (m >>= f) := KeepsNames.bind m f hm hf

theorem keeps_pure {α : Type} (a : α) : KeepsNames (pure a : Prog α) := trivial

theorem keeps_sys (s : Sys) (h : ∀ w q, (step w s).2.fs.lookup q = w.fs.lookup q) : KeepsNames (sys s) :=
  ⟨h, fun _ => trivial⟩

theorem keeps_setXattrs (path : Str) (best : Bool) : ∀ (xs : List (Str × List UInt8)), KeepsNames (setXattrsP path best xs)
  | [] => keeps_pure _
  | (k, v) :: rest => by
    simp only [setXattrsP]
    refine keepsB _ _ (keeps_sys _ (fun w q => lookup_kept_setxattr w path k v false q)) ?_
    intro r
    split
    · exact keeps_pure _
    · exact keeps_setXattrs path best rest

/-- the metadata phase of `createTarFile` never changes which inode a path names -/
theorem keeps_applyMeta (path : Str) (e : Entry) (o : Opts) : KeepsNames (applyMetaP path e o) := by
  unfold applyMetaP
  refine keepsB _ _ ?_ ?_
  · split
    · exact keeps_pure _
    · exact keeps_sys _ (fun w q => lookup_kept_chown w path _ _ false q)
  · intro c
    split
    · exact keeps_pure _
    · refine keepsB _ _ (keeps_setXattrs path _ _) ?_
      intro x
      split
      · exact keeps_pure _
      · refine keepsB _ _ ?_ ?_
        · split
          · refine keepsB _ _ (keeps_sys _ (fun w q => lookup_kept_lstat w path q)) ?_
            intro l
            split
            · exact keeps_sys _ (fun w q => lookup_kept_chmod w path _ q)
            · exact keeps_pure _
          · split
            · exact keeps_sys _ (fun w q => lookup_kept_chmod w path _ q)
            · exact keeps_pure _
        · intro m
          split
          · exact keeps_pure _
          · refine keepsB _ _ ?_ ?_
            · split
              · refine keepsB _ _ (keeps_sys _ (fun w q => lookup_kept_lstat w path q)) ?_
                intro l
                split
                · exact keeps_sys _ (fun w q => lookup_kept_utimes w path _ true q)
                · exact keeps_pure _
              · split
                · exact keeps_sys _ (fun w q => lookup_kept_utimes w path _ true q)
                · exact keeps_sys _ (fun w q => lookup_kept_utimes w path _ false q)
            · intro u
              split
              · exact keeps_pure _
              · exact keeps_pure _

theorem keeps_dirTimes (dest : Str) : ∀ (ds : List Entry), KeepsNames (dirTimesP dest ds)
  | [] => keeps_pure _
  | d :: ds => by
    simp only [dirTimesP]
    refine keepsB _ _ (keeps_sys _ (fun w q => lookup_kept_lstat w _ q)) ?_
    intro l
    split
    · exact keeps_dirTimes dest ds
    · refine keepsB _ _ (keeps_sys _ (fun w q => lookup_kept_utimes w _ _ true q)) ?_
      intro r
      split
      · exact keeps_pure _
      · exact keeps_dirTimes dest ds

/-! ### without symbolic links the "follow the last component" flag is immaterial -/

theorem walk_flag_irrelevant (fs : FS) (root : Path) (hns : NoSym fs) :
    ∀ (fuel links : Nat) (cur : Path) (cs : List Str) (fl fl' : Bool),
      walk fs root fuel links cur cs fl = walk fs root fuel links cur cs fl' := by
  intro fuel
  induction fuel with
  | zero =>
    intro links cur cs fl fl'
    cases cs with
    | nil => simp only [walk]
    | cons c rest => simp only [walk]
  | succ fuel ih =>
    intro links cur cs fl fl'
    cases cs with
    | nil => simp only [walk]
    | cons c rest =>
      simp only [walk]
      split
      · rfl
      · split
        · exact ih _ _ _ _ _
        · cases hg : fs.get (cur ++ [c]) with
          | none => rfl
          | some n =>
            have hk : (n.kind == Kind.sym) = false := by simpa using hns _ n hg
            simp only [hk, Bool.false_and, Bool.false_eq_true, if_false]
            exact ih _ _ _ _ _

theorem resolve_flag_irrelevant (w : World) (hns : NoSym w.fs) (s : Str) (fl fl' : Bool) :
    resolve w s fl = resolve w s fl' := by
  unfold resolve
  simp only
  rw [walk_flag_irrelevant w.fs w.root hns walkFuel 40 w.root (pathComps s) (fl || mustDir s) (fl' || mustDir s)]

/-! ### the deferred directory times touch directories only -/

/-- `utimes` after an `lstat` of the same path that did not report a non-directory: every inode that is not
    a directory is left exactly as it was -/
theorem utimes_after_lstat (dp : Path) (w : World) (hw : LW dp w) (path : Str) (hp : LexArg dp path) (t : Int)
    (hl : notDirRes (step w (.lstat path)).1 = false) (i : Ino) (n : Inode) (hi : w.fs.inode i = some n)
    (hk : n.kind ≠ .dir) : (step w (.utimes path (some t) true)).2.fs.inode i = some n := by
  simp only [step] at hl ⊢
  cases hr : resolve w path true with
  | err e => simp only; exact hi
  | ok q =>
    have hq := resolve_lexical w hw.inv.root hw.inv.nosym path true q hp.2 hr
    subst hq
    simp only
    cases hlk : w.fs.lookup (pathComps path) with
    | none => simp only; exact hi
    | some j =>
      simp only
      by_cases hji : i = j
      · -- the path names this inode: the `lstat` would have said "not a directory"
        exfalso
        subst hji
        unfold statRes at hl
        cases hr2 : resolve w path false with
        | err e =>
          -- cannot happen: the two resolutions differ only at a final symbolic link
          rw [resolve_flag_irrelevant w hw.inv.nosym path false true, hr] at hr2
          cases hr2
        | ok q2 =>
          have hq2 := resolve_lexical w hw.inv.root hw.inv.nosym path false q2 hp.2 hr2
          subst hq2
          rw [hr2] at hl
          simp only [hlk, hi] at hl
          simp only [notDirRes, statOf] at hl
          exact hk (by simpa using hl)
      · rw [inode_modInode_ne _ _ _ _ hji]; exact hi


theorem run_sys_bind {β : Type} (s : Sys) (f : Res → Prog β) (w : World) :
    (sys s >>= f).run w = (f (step w s).1).run (step w s).2 := rfl

theorem lstat_world (w : World) (p : Str) : (step w (.lstat p)).2 = w := by simp only [step]

/-- the deferred directory-time pass keeps the invariant and leaves every inode that is not a directory
    exactly as it was (since fix D25 it looks before it touches) -/
theorem dirTimes_nondir (dp : Path) (dest : Str) : ∀ (ds : List Entry) (w : World), LW dp w → DirsOK dp dest ds →
    LW dp ((dirTimesP dest ds).run w).2 ∧
    ∀ i n, w.fs.inode i = some n → n.kind ≠ .dir → ((dirTimesP dest ds).run w).2.fs.inode i = some n
  | [], w, hw, _ => ⟨hw, fun _ _ h _ => h⟩
  | d :: ds, w, hw, hds => by
    have hp : LexArg dp (join dest d.name) := hds d (by simp)
    have hrest : DirsOK dp dest ds := fun x hx => hds x (by simp [hx])
    simp only [dirTimesP]
    rw [run_sys_bind, lstat_world]
    split
    · exact dirTimes_nondir dp dest ds w hw hrest
    · rename_i hl
      rw [run_sys_bind]
      have hgood := step_good dp w (.utimes (join dest d.name) (some (boundTime d.mtime)) true) hw
        (good_lex (s := .utimes (join dest d.name) (some (boundTime d.mtime)) true) hp)
      have hkeep : ∀ i n, w.fs.inode i = some n → n.kind ≠ .dir →
          (step w (.utimes (join dest d.name) (some (boundTime d.mtime)) true)).2.fs.inode i = some n :=
        fun i n hi hk => utimes_after_lstat dp w hw _ hp _ (by simpa using hl) i n hi hk
      split
      · exact ⟨hgood.2, hkeep⟩
      · have ih := dirTimes_nondir dp dest ds _ hgood.2 hrest
        exact ⟨ih.1, fun i n hi hk => ih.2 i n (hkeep i n hi hk) hk⟩


/-! ### a regular-file entry at a fresh path: the new inode has exactly that one name -/

theorem create_lookup (fs : FS) (q : Path) (n : Inode) (hn : fs.lookup q = none) (r : Path) :
    (fs.create q n).lookup r = if r = q then some fs.next else fs.lookup r := by
  rw [create_eq]
  have hl1 : (fs.appendNew q n).lookup r = if r = q then some fs.next else fs.lookup r :=
    lookup_append_new fs q fs.next hn r
  unfold FS.touchParent
  split
  · rw [lookup_modInode]; exact hl1
  · exact hl1

theorem createWrite_names (dp : Path) (path : Str) (hp : LexArg dp path) (mode : Nat) (body : List UInt8) (w : World)
    (hw : LW dp w) (hnone : w.fs.lookup (pathComps path) = none)
    (hr : isErr (step w (.createWrite path mode body)).1 = false) (r : Path) :
    (step w (.createWrite path mode body)).2.fs.lookup r =
      if r = pathComps path then some w.fs.next else w.fs.lookup r := by
  cases hres : resolve w path true with
  | err e =>
    have : step w (.createWrite path mode body) = (.err e, w) := by simp only [step, hres]
    rw [this] at hr; simp [isErr] at hr
  | ok q =>
    have hq := resolve_lexical w hw.inv.root hw.inv.nosym path true q hp.2 hres
    subst hq
    by_cases hdir : (!w.fs.isDir (pathComps path).dropLast) = true
    · have : step w (.createWrite path mode body) = (.err .ENOENT, w) := by
        simp only [step, hres, hnone, hdir, if_true]
      rw [this] at hr; simp [isErr] at hr
    · have hst : ∃ n0 : Inode,
          step w (.createWrite path mode body) = (.ok, { w with fs := w.fs.create (pathComps path) n0 }) := by
        simp only [step, hres, hnone, hdir, Bool.false_eq_true, if_false]
        exact ⟨_, rfl⟩
      obtain ⟨n0, hst⟩ := hst
      rw [hst]
      exact create_lookup w.fs (pathComps path) n0 hnone r

/-- after a successful regular-file `createTarFile` at a fresh path the names are the old ones plus the
    path, bound to the inode number that was next -/
theorem createTarFile_reg_names (dp : Path) (path xd : Str) (e : Entry) (o : Opts) (hp : LexArg dp path)
    (hreg : e.typ = .reg) (w : World) (hw : LW dp w) (hnone : w.fs.lookup (pathComps path) = none)
    (hok : ((createTarFileP path xd e o).run w).1 = .ok) (r : Path) :
    ((createTarFileP path xd e o).run w).2.fs.lookup r =
      if r = pathComps path then some w.fs.next else w.fs.lookup r := by
  unfold createTarFileP at hok ⊢
  simp only [hreg] at hok ⊢
  rw [run_sys_bind] at hok ⊢
  by_cases hr : isErr (step w (.createWrite path e.mode e.body)).1 = true
  · simp only [hr, if_true] at hok
    cases hok
  · have hr' : isErr (step w (.createWrite path e.mode e.body)).1 = false := by simpa using hr
    simp only [hr', Bool.false_eq_true, if_false] at hok ⊢
    by_cases hsz : e.body.length < e.size
    · simp only [hsz, if_true] at hok
      cases hok
    · simp only [hsz, if_false]
      rw [KeepsNames.run _ _ (keeps_applyMeta path e o) r]
      exact createWrite_names dp path hp e.mode e.body w hw hnone hr' r


theorem under_self (p : Path) : under p p = true := by simp [under]

/-- `lstat` did not find an object: then the path has no name, or no resolution of it can succeed -/
theorem lstat_nostat (dp : Path) (w : World) (hw : LW dp w) (p : Str) (hp : LexArg dp p)
    (hl : ∀ s, (step w (.lstat p)).1 ≠ .stat s) :
    w.fs.lookup (pathComps p) = none ∨ ∃ e, resolve w p true = .err e := by
  simp only [step] at hl
  unfold statRes at hl
  cases hr : resolve w p false with
  | err e => right; exact ⟨e, by rw [resolve_flag_irrelevant w hw.inv.nosym p true false]; exact hr⟩
  | ok q =>
    have hq := resolve_lexical w hw.inv.root hw.inv.nosym p false q hp.2 hr
    subst hq
    rw [hr] at hl
    simp only at hl
    cases hlk : w.fs.lookup (pathComps p) with
    | none => left; rfl
    | some i =>
      exfalso
      rw [hlk] at hl
      simp only at hl
      have := hw.inv.tree.has_inode _ i hlk
      cases hi : w.fs.inode i with
      | none => rw [hi] at this; cases this
      | some n => rw [hi] at hl; exact hl _ rfl


theorem actOf_two (o : Opts) (l : Res) (e : Entry) (self : Bool) (h : actOf o l e self = 2) : self = true := by
  unfold actOf at h
  split at h
  · simp only at h
    split at h
    · cases h
    · split at h
      · cases h
      · split at h
        · rename_i hc; simp at hc; exact hc.2
        · split at h <;> cases h
  · cases h

theorem actOf_reg_stat (o : Opts) (s : StatInfo) (e : Entry) (self : Bool) (hreg : e.typ = .reg) :
    actOf o (.stat s) e self = 1 ∨ actOf o (.stat s) e self = 2 ∨ actOf o (.stat s) e self = 3 := by
  unfold actOf
  simp only [hreg]
  split
  · left; rfl
  · split
    · left; rfl
    · split
      · right; left; rfl
      · split
        · right; right; rfl
        · rename_i h; simp at h

/-- a regular-file `createTarFile` whose path cannot be resolved fails -/
theorem createTarFile_reg_unresolved (path xd : Str) (e : Entry) (o : Opts) (hreg : e.typ = .reg) (w : World) (er : Errno)
    (hres : resolve w path true = .err er) : ((createTarFileP path xd e o).run w).1 = .err := by
  unfold createTarFileP
  simp only [hreg]
  rw [run_sys_bind]
  have : step w (.createWrite path e.mode e.body) = (.err er, w) := by simp only [step, hres]
  rw [this]
  simp only [isErr, if_true]
  rfl

/-- **one regular-file iteration**: if the loop goes on after a regular-file entry that is not excluded and
    does not name the destination itself, the entry's path names a regular file with exactly the entry's
    content, mode, clamped time and owner, that inode has no other name, and the deferred list is unchanged -/
theorem iter_reg_post (dp : Path) (dest : Str) (o : Opts) (hd : CleanAbs dest) (hdp : pathComps dest = dp)
    (hov : o.overlay = false) (e : Entry) (dirs : List Entry) (w : World) (hw : LW dp w) (hreg : e.typ = .reg)
    (hnx : o.excludes.any (fun x => hasPrefix (clean e.name) x) = false)
    (hne : pathComps (join dest (clean e.name)) ≠ dp)
    (d' : List Entry) (w' : World) (hrun : (unpackIterP dest o e dirs).run w = (.ok d', w')) :
    d' = dirs ∧ LW dp w' ∧ ∃ e' i n, remapE o e = some e' ∧
      w'.fs.lookup (pathComps (join dest (clean e.name))) = some i ∧
      (∀ q, w'.fs.lookup q = some i → q = pathComps (join dest (clean e.name))) ∧
      w'.fs.inode i = some n ∧ RegFinal e' o n := by
  simp only [unpackIterP, hreg, hnx] at hrun
  simp only [show (Typ.reg == Typ.xglobal) = false from rfl, Bool.false_eq_true, if_false] at hrun
  cases hg : guardName dest (clean e.name) with
  | error out => rw [hg] at hrun; simp only [Prog.run, pure] at hrun; cases hrun
  | ok p =>
    rw [hg] at hrun
    simp only at hrun
    obtain ⟨hpe, hpc, hpin⟩ := guardName_ok dest (clean e.name) p hd hg
    rw [hdp] at hpin
    have hp : LexArg dp p := lexArg_of hpc hpin
    have hin' : dp <+: pathComps (join dest (clean e.name)) := by rw [← hpe]; exact hpin
    have hpne : pathComps p ≠ dp := by rw [hpe]; exact hne
    rw [← hpe]
    -- implied parents
    rw [Prog.bind_eq, Prog.run_bind] at hrun
    have hI := LexSem.run dp _ _ w (lex_impliedDirs dp dest e.name o hd hdp hin') hw
    generalize hi1 : (impliedDirsP dest (clean e.name) o).run w = r1 at hrun hI
    obtain ⟨i1, w1⟩ := r1
    simp only at hrun hI
    have hw1 : LW dp w1 := hI.2.1
    by_cases hie : isErr i1 = true
    · simp only [hie, if_true, Prog.run, pure] at hrun; cases hrun
    · simp only [hie, Bool.false_eq_true, if_false] at hrun
      rw [run_sys_bind, lstat_world] at hrun
      generalize hL : (step w1 (Sys.lstat p)).1 = L at hrun
      by_cases ha1 : actOf o L e (p == clean dest) = 1
      · simp only [ha1, if_true, Prog.run, pure] at hrun; cases hrun
      · simp only [ha1, if_false] at hrun
        by_cases ha2 : actOf o L e (p == clean dest) = 2
        · exfalso
          have hself := actOf_two o L e _ ha2
          have hpeq : p = dest := by
            rw [clean_of_cleanAbs dest hd] at hself
            simpa using hself
          exact hpne (by rw [hpeq, hdp])
        · simp only [ha2, if_false] at hrun
          rw [Prog.bind_eq, Prog.run_bind] at hrun
          -- the world in which the file is created: nothing is at the path, or the path cannot be resolved
          have hmid : ∃ rm w2, (if actOf o L e (p == clean dest) = 3 then sys (Sys.removeAll p) else pure Res.ok).run w1 = (rm, w2) ∧
              LW dp w2 ∧ (isErr rm = false → w2.fs.lookup (pathComps p) = none ∨ ∃ er, resolve w2 p true = .err er) := by
            by_cases ha3 : actOf o L e (p == clean dest) = 3
            · simp only [ha3, if_true]
              refine ⟨(step w1 (.removeAll p)).1, (step w1 (.removeAll p)).2, rfl, ?_, ?_⟩
              · exact (step_good dp w1 (.removeAll p) hw1 (good_lex (s := .removeAll p) ⟨hp, hpne⟩)).2
              · intro hok
                left
                exact (removeAll_post dp w1 hw1 p hp hpne).1 hok _ (under_self _)
            · simp only [ha3, if_false]
              refine ⟨.ok, w1, rfl, hw1, fun _ => ?_⟩
              apply lstat_nostat dp w1 hw1 p hp
              intro st hst
              rw [hL] at hst
              subst hst
              rcases actOf_reg_stat o st e (p == clean dest) hreg with h | h | h
              · exact ha1 h
              · exact ha2 h
              · exact ha3 h
          obtain ⟨rm, w2, hrm, hw2, hnone⟩ := hmid
          rw [hrm] at hrun
          simp only at hrun
          by_cases hre : isErr rm = true
          · simp only [hre, if_true, Prog.run, pure] at hrun; cases hrun
          · simp only [hre, Bool.false_eq_true, if_false] at hrun
            cases hrem : remapE o e with
            | none => rw [hrem] at hrun; simp only [Prog.run, pure] at hrun; cases hrun
            | some e' =>
              rw [hrem] at hrun
              simp only [hov, Bool.false_eq_true, if_false] at hrun
              have hty : e'.typ = .reg := by rw [remapE_typ o e e' hrem]; exact hreg
              rw [Prog.bind_eq, Prog.run_bind] at hrun
              simp only [Prog.run, pure] at hrun
              rw [Prog.bind_eq, Prog.run_bind] at hrun
              have hreg_dir : (Typ.reg == Typ.dir) = false := rfl
              simp only [hreg_dir, Bool.false_eq_true, if_false] at hrun
              by_cases hout : ((createTarFileP p dest e' o).run w2).1 = .ok
              · simp only [hout, show (Out.ok != Out.ok) = false from rfl, Bool.false_eq_true, if_false, Prog.run] at hrun
                injection hrun with h1 h2
                injection h1 with h1
                subst h2
                refine ⟨h1.symm, ?_⟩
                rcases hnone (by simpa using hre) with hn | ⟨er, her⟩
                · have hT := createTarFile_reg_exact dp p dest e' o hp hty w2 ⟨hw2, hn⟩ hout
                  obtain ⟨⟨hw3, i, n, hl, hi, hfin⟩, _⟩ := hT
                  have hnames := createTarFile_reg_names dp p dest e' o hp hty w2 hw2 hn hout
                  refine ⟨hw3, e', i, n, rfl, hl, ?_, hi, hfin⟩
                  intro q hq
                  have hi' : i = w2.fs.next := by
                    have := hnames (pathComps p)
                    rw [if_pos rfl, hl] at this
                    exact Option.some.inj this
                  rw [hnames q] at hq
                  by_cases hqp : q = pathComps p
                  · exact hqp
                  · rw [if_neg hqp] at hq
                    have := hw2.inv.fresh q i hq
                    rw [hi'] at this
                    exact absurd this (Nat.lt_irrefl _)
                · exfalso
                  rw [createTarFile_reg_unresolved p dest e' o hty w2 er her] at hout
                  cases hout
              · exfalso
                cases hout' : ((createTarFileP p dest e' o).run w2).1 with
                | ok => exact hout hout'
                | err => simp only [hout', show (Out.err != Out.ok) = true from rfl, if_true, Prog.run] at hrun; cases hrun
                | breakout => simp only [hout', show (Out.breakout != Out.ok) = true from rfl, if_true, Prog.run] at hrun; cases hrun


/-! ### the fold over a concatenation, and: an iteration that stops the loop never reports success -/

theorem loopRun_append (dest : Str) (o : Opts) : ∀ (pre rest dirs : List Entry) (w : World),
    loopRun dest o (pre ++ rest) dirs w =
      match loopRun dest o pre dirs w with
      | (.error out, w') => (.error out, w')
      | (.ok d, w') => loopRun dest o rest d w'
  | [], rest, dirs, w => by simp only [List.nil_append, loopRun]
  | e :: pre, rest, dirs, w => by
    simp only [List.cons_append, loopRun]
    cases h : (unpackIterP dest o e dirs).run w with
    | mk r w' =>
      cases r with
      | error out => rfl
      | ok d => simp only; exact loopRun_append dest o pre rest d w'

theorem guardName_error (dest n : Str) (out : Out) (h : guardName dest n = .error out) : out ≠ .ok := by
  unfold guardName at h
  simp only at h
  split at h
  · cases h; intro e; cases e
  · split at h
    · cases h; intro e; cases e
    · cases h

theorem allB {α β : Type} {P : α → Prop} {Q : β → Prop} (m : Prog α) (f : α → Prog β)
    (hm : m.All P) (hf : ∀ a, P a → (f a).All Q) : (m >>= f).All Q := Prog.All.bind m f hm hf

theorem iter_error_ne_ok (dest : Str) (o : Opts) (e : Entry) (dirs : List Entry) :
    (unpackIterP dest o e dirs).All (fun r => ∀ out, r = .error out → out ≠ .ok) := by
  have hok : ∀ d : List Entry, ∀ out, (Except.ok d : Except Out (List Entry)) = .error out → out ≠ .ok := by
    intro d out h; cases h
  have herr : ∀ out, (Except.error Out.err : Except Out (List Entry)) = .error out → out ≠ .ok := by
    intro out h; cases h; intro e; cases e
  simp only [unpackIterP]
  split
  · exact hok _
  · split
    · exact hok _
    · split
      · rename_i out hg
        intro out' h; cases h
        exact guardName_error _ _ _ hg
      · refine allB _ _ (Prog.All.trivial _) ?_
        intro i _
        split
        · exact herr
        · refine allB _ _ (Prog.All.trivial _) ?_
          intro l _
          split
          · exact herr
          · split
            · exact hok _
            · refine allB _ _ (Prog.All.trivial _) ?_
              intro rm _
              split
              · exact herr
              · split
                · exact herr
                · refine allB _ _ (Prog.All.trivial _) ?_
                  intro conv _
                  split
                  · exact herr
                  · exact hok _
                  · refine allB _ _ (Prog.All.trivial _) ?_
                    intro out _
                    split
                    · rename_i hne
                      intro out' h; cases h
                      intro e; subst e; simp at hne
                    · exact hok _

/-- when the fold stops early the outcome it carries is never success -/
theorem loopRun_error_ne_ok (dest : Str) (o : Opts) : ∀ (es dirs : List Entry) (w : World) (out : Out) (w' : World),
    loopRun dest o es dirs w = (.error out, w') → out ≠ .ok
  | [], dirs, w, out, w', h => by simp only [loopRun] at h; cases h
  | e :: es, dirs, w, out, w', h => by
    simp only [loopRun] at h
    have ha := Prog.All.run _ w (iter_error_ne_ok dest o e dirs)
    cases hr : (unpackIterP dest o e dirs).run w with
    | mk r w1 =>
      rw [hr] at h ha
      cases r with
      | error o1 =>
        simp only at h
        injection h with h1 h2
        injection h1 with h1
        subst h1
        exact ha _ rfl
      | ok d => exact loopRun_error_ne_ok dest o es d w1 out w' h

end GA
