import GA.Proofs.Hoare
import GA.Proofs.LexUnpack
/-
  What `createTarFile` leaves at the entry's path: the effect of each metadata call on the object,
  in a symlink-free world, and their composition for a regular-file entry.
-/
namespace GA

/-- the object at `path` exists and satisfies `R` -/
def Obj (dp : Path) (path : Str) (R : Inode → Prop) (w : World) : Prop :=
  LW dp w ∧ ∃ i n, w.fs.lookup (pathComps path) = some i ∧ w.fs.inode i = some n ∧ R n

theorem inode_modInode_self (fs : FS) (i : Ino) (f : Inode → Inode) (n : Inode) (h : fs.inode i = some n) :
    (fs.modInode i f).inode i = some (f n) := by
  unfold FS.modInode
  rw [h]
  simp [FS.setInode]

theorem Obj.mono {dp : Path} {path : Str} {R R' : Inode → Prop} {w : World} (h : Obj dp path R w)
    (hr : ∀ n, R n → R' n) : Obj dp path R' w := by
  obtain ⟨hw, i, n, hl, hi, hn⟩ := h
  exact ⟨hw, i, n, hl, hi, hr n hn⟩

/-- a call that modifies the inode the path names, through `f`, when it succeeds -/
theorem mod_effect (dp : Path) (path : Str) (hp : LexArg dp path) (s : Sys) (hs : SysLex dp s) (f : Inode → Inode)
    (R : Inode → Prop) (w : World) (h : Obj dp path R w)
    (hstep : ∀ q i, w.fs.lookup q = some i → q = pathComps path →
      (step w s = (.ok, { w with fs := w.fs.modInode i f })) ∨ ((step w s).2 = w ∧ isErr (step w s).1 = true))
    (hother : (∀ q, q = pathComps path → w.fs.lookup q = none → False) → True) :
    (isErr (step w s).1 = true → Obj dp path R (step w s).2) ∧
    (isErr (step w s).1 = false → Obj dp path (fun n' => ∃ n, R n ∧ n' = f n) (step w s).2) := by
  obtain ⟨hw, i, n, hl, hi, hn⟩ := h
  have hgood := step_good dp w s hw (good_lex hs)
  rcases hstep (pathComps path) i hl rfl with he | ⟨he, herr⟩
  · rw [he]
    refine ⟨fun h => by simp [isErr] at h, fun _ => ?_⟩
    rw [he] at hgood
    exact ⟨hgood.2, i, f n, by simp only; rw [lookup_modInode]; exact hl, inode_modInode_self w.fs i f n hi, n, hn, rfl⟩
  · refine ⟨fun _ => ?_, fun h => by rw [herr] at h; cases h⟩
    rw [he]; exact ⟨hw, i, n, hl, hi, hn⟩

theorem chown_effect (dp : Path) (path : Str) (hp : LexArg dp path) (u g : Nat) (fl : Bool) (R : Inode → Prop) :
    Triple (Obj dp path R) (sys (.chown path u g fl))
      (fun r w' => (isErr r = true → Obj dp path R w') ∧
        (isErr r = false → Obj dp path (fun n' => ∃ n, R n ∧ n' = chownInode n u g) w')) := by
  apply Triple.sys
  intro w h
  refine mod_effect dp path hp (.chown path u g fl) hp (fun n => chownInode n u g) R w h ?_ (fun _ => trivial)
  intro q i hl hq
  simp only [step]
  cases hr : resolve w path fl with
  | err e => right; exact ⟨rfl, rfl⟩
  | ok q' =>
    have e := resolve_lexical w h.1.inv.root h.1.inv.nosym path fl q' hp.2 hr
    have : q' = q := by rw [e, hq]
    subst this
    simp only [hl]
    left; trivial

theorem chmod_effect (dp : Path) (path : Str) (hp : LexArg dp path) (perm : Nat) (R : Inode → Prop) :
    Triple (Obj dp path R) (sys (.chmod path perm))
      (fun r w' => (isErr r = true → Obj dp path R w') ∧
        (isErr r = false → Obj dp path (fun n' => ∃ n, R n ∧ n' = { n with perm := perm &&& 0o7777 }) w')) := by
  apply Triple.sys
  intro w h
  refine mod_effect dp path hp (.chmod path perm) hp (fun n => { n with perm := perm &&& 0o7777 }) R w h ?_ (fun _ => trivial)
  intro q i hl hq
  simp only [step]
  cases hr : resolve w path true with
  | err e => right; exact ⟨rfl, rfl⟩
  | ok q' =>
    have e := resolve_lexical w h.1.inv.root h.1.inv.nosym path true q' hp.2 hr
    have : q' = q := by rw [e, hq]
    subst this
    simp only [hl]
    left; trivial

theorem utimes_effect (dp : Path) (path : Str) (hp : LexArg dp path) (t : Int) (fl : Bool) (R : Inode → Prop) :
    Triple (Obj dp path R) (sys (.utimes path (some t) fl))
      (fun r w' => (isErr r = true → Obj dp path R w') ∧
        (isErr r = false → Obj dp path (fun n' => ∃ n, R n ∧ n' = { n with mtime := some t }) w')) := by
  apply Triple.sys
  intro w h
  refine mod_effect dp path hp (.utimes path (some t) fl) hp (fun n => { n with mtime := some t }) R w h ?_ (fun _ => trivial)
  intro q i hl hq
  simp only [step]
  cases hr : resolve w path fl with
  | err e => right; exact ⟨rfl, rfl⟩
  | ok q' =>
    have e := resolve_lexical w h.1.inv.root h.1.inv.nosym path fl q' hp.2 hr
    have : q' = q := by rw [e, hq]
    subst this
    simp only [hl]
    left; trivial

/-- setting an extended attribute changes nothing but the attributes -/
theorem setxattr_effect (dp : Path) (path : Str) (hp : LexArg dp path) (k : Str) (v : List UInt8) (fl : Bool)
    (R : Inode → Prop) (hR : ∀ n xs, R n → R { n with xattrs := xs }) :
    Triple (Obj dp path R) (sys (.setxattr path k v fl)) (fun _ w' => Obj dp path R w') := by
  apply Triple.sys
  intro w h
  obtain ⟨hw, i, n, hl, hi, hn⟩ := h
  have hgood := step_good dp w (.setxattr path k v fl) hw (good_lex (s := .setxattr path k v fl) hp)
  cases hr : resolve w path fl with
  | err e =>
    have : step w (.setxattr path k v fl) = (.err e, w) := by simp only [step, hr]
    rw [this]; exact ⟨hw, i, n, hl, hi, hn⟩
  | ok q' =>
    have hq := resolve_lexical w hw.inv.root hw.inv.nosym path fl q' hp.2 hr
    subst hq
    by_cases hc : (hasPrefix k b!"user." && n.kind != .reg && n.kind != .dir) = true
    · have : step w (.setxattr path k v fl) = (.err .EPERM, w) := by simp only [step, hr, hl, hi, hc, if_true]
      rw [this]; exact ⟨hw, i, n, hl, hi, hn⟩
    · have : step w (.setxattr path k v fl) =
          (.ok, { w with fs := w.fs.setInode i ({ n with xattrs := setX n.xattrs k v } : Inode) }) := by
        simp only [step, hr, hl, hi, hc, Bool.false_eq_true, if_false]
      rw [this] at hgood ⊢
      refine ⟨hgood.2, i, ({ n with xattrs := setX n.xattrs k v } : Inode), hl, ?_, hR n (setX n.xattrs k v) hn⟩
      show (w.fs.setInode i _).inode i = _
      simp [FS.setInode]

theorem chownInode_keeps (n : Inode) (u g : Nat) :
    (chownInode n u g).kind = n.kind ∧ (chownInode n u g).data = n.data ∧ (chownInode n u g).uid = u ∧
    (chownInode n u g).gid = g := by
  unfold chownInode; split <;> exact ⟨rfl, rfl, rfl, rfl⟩

theorem setXattrs_keeps (dp : Path) (path : Str) (hp : LexArg dp path) (best : Bool) (R : Inode → Prop)
    (hR : ∀ n xs, R n → R { n with xattrs := xs }) :
    ∀ (xs : List (Str × List UInt8)), Triple (Obj dp path R) (setXattrsP path best xs) (fun _ w' => Obj dp path R w')
  | [] => Triple.pure _ (fun _ h => h)
  | (k, v) :: rest => by
    simp only [setXattrsP]
    refine Triple.bind _ _ (setxattr_effect dp path hp k v false R hR) ?_
    intro r
    split
    · exact Triple.pure _ (fun _ h => h)
    · exact setXattrs_keeps dp path hp best R hR rest

/-- what a regular-file entry's metadata phase leaves at the path -/
def RegFinal (e : Entry) (o : Opts) (n : Inode) : Prop :=
  n.kind = .reg ∧ n.data = e.body ∧ n.perm = e.mode &&& 0o7777 ∧ n.mtime = some (boundTime e.mtime) ∧
  (o.noLchown = false → (n.uid, n.gid) = o.chownOpts.getD (e.uid, e.gid))

theorem applyMeta_reg (dp : Path) (path : Str) (e : Entry) (o : Opts) (hp : LexArg dp path) (hreg : e.typ = .reg) :
    Triple (Obj dp path (fun n => n.kind = .reg ∧ n.data = e.body)) (applyMetaP path e o)
      (fun out w' => out = .ok → Obj dp path (RegFinal e o) w') := by
  unfold applyMetaP
  -- ownership
  refine Triple.bind (Q := fun c w' => isErr c = false →
      Obj dp path (fun n => n.kind = .reg ∧ n.data = e.body ∧
        (o.noLchown = false → (n.uid, n.gid) = o.chownOpts.getD (e.uid, e.gid))) w') _ _ ?_ ?_
  · by_cases hno : o.noLchown = true
    · simp only [hno, if_true]
      exact Triple.pure _ (fun w h _ => h.mono (fun n hn => ⟨hn.1, hn.2, fun h' => by cases h'⟩))
    · have hno' : o.noLchown = false := by simpa using hno
      simp only [hno', Bool.false_eq_true, if_false]
      refine Triple.conseq _ (chown_effect dp path hp _ _ false _) (fun _ h => h) ?_
      intro c w' hq hc
      refine (hq.2 hc).mono ?_
      rintro n' ⟨n, hn, rfl⟩
      have hk := chownInode_keeps n (o.chownOpts.getD (e.uid, e.gid)).1 (o.chownOpts.getD (e.uid, e.gid)).2
      exact ⟨by rw [hk.1]; exact hn.1, by rw [hk.2.1]; exact hn.2, fun _ => by rw [hk.2.2.1, hk.2.2.2]⟩
  · intro c
    by_cases hc : isErr c = true
    · simp only [hc, if_true]
      exact Triple.pure _ (fun _ _ h => by cases h)
    · have hc' : isErr c = false := by simpa using hc
      simp only [hc', Bool.false_eq_true, if_false]
      -- extended attributes leave everything else alone
      refine Triple.bind (Q := fun _ w' => Obj dp path (fun n => n.kind = .reg ∧ n.data = e.body ∧
          (o.noLchown = false → (n.uid, n.gid) = o.chownOpts.getD (e.uid, e.gid))) w') _ _ ?_ ?_
      · exact Triple.conseq _ (setXattrs_keeps dp path hp _ _ (fun n xs h => h) e.xattrs) (fun w h => h trivial) (fun _ _ h => h)
      · intro x
        by_cases hx : isErr x = true
        · simp only [hx, if_true]
          exact Triple.pure _ (fun _ _ h => by cases h)
        · have hx' : isErr x = false := by simpa using hx
          simp only [hx', Bool.false_eq_true, if_false, hreg]
          -- mode, after the ownership change
          refine Triple.bind (Q := fun m w' => isErr m = false → Obj dp path (fun n => n.kind = .reg ∧ n.data = e.body ∧
              (o.noLchown = false → (n.uid, n.gid) = o.chownOpts.getD (e.uid, e.gid)) ∧ n.perm = e.mode &&& 0o7777) w') _ _ ?_ ?_
          · simp only [show (Typ.reg == Typ.link) = false from rfl, Bool.false_eq_true, if_false,
              show (Typ.reg != Typ.sym) = true from rfl, if_true]
            refine Triple.conseq _ (chmod_effect dp path hp e.mode _) (fun _ h => h) ?_
            intro m w' hq hm
            refine (hq.2 hm).mono ?_
            rintro n' ⟨n, hn, rfl⟩
            exact ⟨hn.1, hn.2.1, hn.2.2, rfl⟩
          · intro m
            by_cases hm : isErr m = true
            · simp only [hm, if_true]
              exact Triple.pure _ (fun _ _ h => by cases h)
            · have hm' : isErr m = false := by simpa using hm
              simp only [hm', Bool.false_eq_true, if_false]
              refine Triple.bind (Q := fun u w' => isErr u = false → Obj dp path (RegFinal e o) w') _ _ ?_ ?_
              · simp only [show (Typ.reg == Typ.link) = false from rfl, Bool.false_eq_true, if_false,
                  show (Typ.reg != Typ.sym) = true from rfl, if_true]
                refine Triple.conseq _ (utimes_effect dp path hp (boundTime e.mtime) true _) (fun w h => h trivial) ?_
                intro u w' hq hu
                refine (hq.2 hu).mono ?_
                rintro n' ⟨n, hn, rfl⟩
                exact ⟨hn.1, hn.2.1, hn.2.2.2, rfl, hn.2.2.1⟩
              · intro u
                by_cases hu : isErr u = true
                · simp only [hu, if_true]
                  exact Triple.pure _ (fun _ _ h => by cases h)
                · have hu' : isErr u = false := by simpa using hu
                  simp only [hu', Bool.false_eq_true, if_false]
                  exact Triple.pure _ (fun _ h _ => h trivial)

/-- what the metadata phase leaves, for an entry that is neither a hard link nor a symbolic link: the facts `R0`
    about the object's nature (kind, content, device number) survive, and mode, time and owner are the entry's -/
def PlainFinal (R0 : Inode → Prop) (e : Entry) (o : Opts) (n : Inode) : Prop :=
  R0 n ∧ n.perm = e.mode &&& 0o7777 ∧ n.mtime = some (boundTime e.mtime) ∧
  (o.noLchown = false → (n.uid, n.gid) = o.chownOpts.getD (e.uid, e.gid))

theorem applyMeta_plain (dp : Path) (path : Str) (e : Entry) (o : Opts) (hp : LexArg dp path)
    (hnl : (e.typ == .link) = false) (hns : (e.typ != .sym) = true) (R0 : Inode → Prop)
    (hc0 : ∀ n u g, R0 n → R0 (chownInode n u g)) (hm0 : ∀ n p, R0 n → R0 { n with perm := p })
    (ht0 : ∀ n t, R0 n → R0 { n with mtime := t }) (hx0 : ∀ n xs, R0 n → R0 { n with xattrs := xs }) :
    Triple (Obj dp path R0) (applyMetaP path e o)
      (fun out w' => out = .ok → Obj dp path (PlainFinal R0 e o) w') := by
  unfold applyMetaP
  -- ownership
  refine Triple.bind (Q := fun c w' => isErr c = false →
      Obj dp path (fun n => R0 n ∧
        (o.noLchown = false → (n.uid, n.gid) = o.chownOpts.getD (e.uid, e.gid))) w') _ _ ?_ ?_
  · by_cases hno : o.noLchown = true
    · simp only [hno, if_true]
      exact Triple.pure _ (fun w h _ => h.mono (fun n hn => ⟨hn, fun h' => by cases h'⟩))
    · have hno' : o.noLchown = false := by simpa using hno
      simp only [hno', Bool.false_eq_true, if_false]
      refine Triple.conseq _ (chown_effect dp path hp _ _ false _) (fun _ h => h) ?_
      intro c w' hq hc
      refine (hq.2 hc).mono ?_
      rintro n' ⟨n, hn, rfl⟩
      have hk := chownInode_keeps n (o.chownOpts.getD (e.uid, e.gid)).1 (o.chownOpts.getD (e.uid, e.gid)).2
      exact ⟨hc0 n _ _ hn, fun _ => by rw [hk.2.2.1, hk.2.2.2]⟩
  · intro c
    by_cases hc : isErr c = true
    · simp only [hc, if_true]
      exact Triple.pure _ (fun _ _ h => by cases h)
    · have hc' : isErr c = false := by simpa using hc
      simp only [hc', Bool.false_eq_true, if_false]
      -- extended attributes leave everything else alone
      refine Triple.bind (Q := fun _ w' => Obj dp path (fun n => R0 n ∧
          (o.noLchown = false → (n.uid, n.gid) = o.chownOpts.getD (e.uid, e.gid))) w') _ _ ?_ ?_
      · exact Triple.conseq _ (setXattrs_keeps dp path hp _ _ (fun n xs h => ⟨hx0 n xs h.1, h.2⟩) e.xattrs) (fun w h => h trivial) (fun _ _ h => h)
      · intro x
        by_cases hx : isErr x = true
        · simp only [hx, if_true]
          exact Triple.pure _ (fun _ _ h => by cases h)
        · have hx' : isErr x = false := by simpa using hx
          simp only [hx', Bool.false_eq_true, if_false, hnl, hns, if_true]
          -- mode, after the ownership change
          refine Triple.bind (Q := fun m w' => isErr m = false → Obj dp path (fun n => R0 n ∧
              (o.noLchown = false → (n.uid, n.gid) = o.chownOpts.getD (e.uid, e.gid)) ∧ n.perm = e.mode &&& 0o7777) w') _ _ ?_ ?_
          · refine Triple.conseq _ (chmod_effect dp path hp e.mode _) (fun _ h => h) ?_
            intro m w' hq hm
            refine (hq.2 hm).mono ?_
            rintro n' ⟨n, hn, rfl⟩
            exact ⟨hm0 n _ hn.1, hn.2, rfl⟩
          · intro m
            by_cases hm : isErr m = true
            · simp only [hm, if_true]
              exact Triple.pure _ (fun _ _ h => by cases h)
            · have hm' : isErr m = false := by simpa using hm
              simp only [hm', Bool.false_eq_true, if_false]
              refine Triple.bind (Q := fun u w' => isErr u = false → Obj dp path (PlainFinal R0 e o) w') _ _ ?_ ?_
              · refine Triple.conseq _ (utimes_effect dp path hp (boundTime e.mtime) true _) (fun w h => h trivial) ?_
                intro u w' hq hu
                refine (hq.2 hu).mono ?_
                rintro n' ⟨n, hn, rfl⟩
                exact ⟨ht0 n _ hn.1, hn.2.2, rfl, hn.2.1⟩
              · intro u
                by_cases hu : isErr u = true
                · simp only [hu, if_true]
                  exact Triple.pure _ (fun _ _ h => by cases h)
                · have hu' : isErr u = false := by simpa using hu
                  simp only [hu', Bool.false_eq_true, if_false]
                  exact Triple.pure _ (fun _ h _ => h trivial)

theorem dropLast_ne_self (q : Path) (h : q ≠ []) : q.dropLast ≠ q := by
  intro e
  have := congrArg List.length e
  simp at this
  cases q with
  | nil => exact h rfl
  | cons a as => simp at this

/-- the name list and inode table after allocating a fresh inode for `q` (before the parent is touched) -/
def FS.appendNew (fs : FS) (q : Path) (n : Inode) : FS :=
  { names := fs.names ++ [(q, fs.next)], inode := fun j => if j = fs.next then some n else fs.inode j, next := fs.next + 1 }

theorem create_eq (fs : FS) (q : Path) (n : Inode) : fs.create q n = (fs.appendNew q n).touchParent q := rfl

/-- a freshly created object: its name resolves to the fresh inode, which holds what was written -/
theorem create_get (fs : FS) (q : Path) (n : Inode) (hn : fs.lookup q = none) (hf : NextFresh fs) (hq : q ≠ []) :
    (fs.create q n).lookup q = some fs.next ∧ (fs.create q n).inode fs.next = some n := by
  rw [create_eq]
  have hl1 : ∀ p, (fs.appendNew q n).lookup p = if p = q then some fs.next else fs.lookup p :=
    fun p => lookup_append_new fs q fs.next hn p
  have hi1 : (fs.appendNew q n).inode fs.next = some n := by simp [FS.appendNew]
  unfold FS.touchParent
  cases hp : (fs.appendNew q n).lookup q.dropLast with
  | none => simp only; exact ⟨by rw [hl1, if_pos rfl], hi1⟩
  | some j =>
    simp only
    refine ⟨by rw [lookup_modInode, hl1, if_pos rfl], ?_⟩
    have hj : j ≠ fs.next := by
      rw [hl1, if_neg (dropLast_ne_self q hq)] at hp
      exact Nat.ne_of_lt (hf _ j hp)
    rw [inode_modInode_ne _ _ _ _ (fun e => hj e.symm)]
    exact hi1

theorem createWrite_new (dp : Path) (path : Str) (hp : LexArg dp path) (mode : Nat) (body : List UInt8) :
    Triple (fun w => LW dp w ∧ w.fs.lookup (pathComps path) = none) (sys (.createWrite path mode body))
      (fun r w' => isErr r = false → Obj dp path (fun n => n.kind = .reg ∧ n.data = body) w') := by
  apply Triple.sys
  intro w ⟨hw, hnone⟩ hr
  have hgood := step_good dp w (.createWrite path mode body) hw (good_lex (s := .createWrite path mode body) hp)
  have hqne : pathComps path ≠ [] := by
    intro e
    have := hw.inv.dest_some
    have hdp : dp = [] := by
      have := hp.1; rw [e] at this; exact List.prefix_nil.mp this
    rw [hdp, ← e, hnone] at this; cases this
  cases hres : resolve w path true with
  | err e =>
    have : step w (.createWrite path mode body) = (.err e, w) := by simp only [step, hres]
    rw [this] at hr; simp [isErr] at hr
  | ok q =>
    have hq := resolve_lexical w hw.inv.root hw.inv.nosym path true q hp.2 hres
    subst hq
    by_cases hdir : (!w.fs.isDir (pathComps path).dropLast) = true
    · have : step w (.createWrite path mode body) = (.err .ENOENT, w) := by
        simp only [step, hres, hnone, hdir, if_true]
      rw [this] at hr; simp [isErr] at hr
    · have hst : ∃ n0 : Inode, n0.kind = .reg ∧ n0.data = body ∧
          step w (.createWrite path mode body) = (.ok, { w with fs := w.fs.create (pathComps path) n0 }) := by
        simp only [step, hres, hnone, hdir, Bool.false_eq_true, if_false]
        exact ⟨_, rfl, rfl, rfl⟩
      obtain ⟨n0, hk, hd0, hst⟩ := hst
      rw [hst] at hgood ⊢
      have := create_get w.fs (pathComps path) n0 hnone hw.inv.fresh hqne
      exact ⟨hgood.2, w.fs.next, n0, this.1, this.2, hk, hd0⟩

/-- **a regular-file entry written to a fresh path**: when `createTarFile` reports success, the path
    names a regular file with exactly the entry's content, mode, (clamped) modification time and — unless
    `NoLchown` — owner; the declared size is not larger than the content -/
theorem createTarFile_reg_exact (dp : Path) (path xd : Str) (e : Entry) (o : Opts) (hp : LexArg dp path)
    (hreg : e.typ = .reg) :
    Triple (fun w => LW dp w ∧ w.fs.lookup (pathComps path) = none) (createTarFileP path xd e o)
      (fun out w' => out = .ok → Obj dp path (RegFinal e o) w' ∧ e.size ≤ e.body.length) := by
  unfold createTarFileP
  simp only [hreg]
  refine Triple.bind _ _ (createWrite_new dp path hp e.mode e.body) ?_
  intro r
  by_cases hr : isErr r = true
  · simp only [hr, if_true]
    exact Triple.pure _ (fun _ _ h => by cases h)
  · have hr' : isErr r = false := by simpa using hr
    simp only [hr', Bool.false_eq_true, if_false]
    by_cases hsz : e.body.length < e.size
    · simp only [hsz, if_true]
      exact Triple.pure _ (fun _ _ h => by cases h)
    · simp only [hsz, Bool.false_eq_true, if_false]
      refine Triple.conseq _ (applyMeta_reg dp path e o hp hreg) (fun w h => h trivial) ?_
      intro out w' h hok
      exact ⟨h hok, by omega⟩

end GA
