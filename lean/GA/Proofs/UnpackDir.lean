import GA.Proofs.UnpackLast
import GA.Proofs.EntryMerge
/-
  Directory entries in whole archives: what one directory iteration leaves behind (merge onto an existing
  directory, or a fresh directory after whatever was there has been removed), and what the deferred
  directory-time pass does to one directory.
-/
namespace GA

/-- a successful `mkdir` made a directory at the path (it was absent: `mkdir` refuses an existing name) -/
theorem mkdir_fresh (dp : Path) (path : Str) (hp : LexArg dp path) (mode : Nat) (w : World) (hw : LW dp w)
    (hr : isErr (step w (.mkdir path mode)).1 = false) :
    ∃ i, ObjF dp path i (step w (.mkdir path mode)).2 (fun n => n.kind = .dir) (step w (.mkdir path mode)).2 := by
  have hgood := step_good dp w (.mkdir path mode) hw (good_lex (s := .mkdir path mode) hp)
  cases hres : resolveC w path with
  | err e =>
    have : step w (.mkdir path mode) = (.err e, w) := by simp only [step, mkdirOne, hres]
    rw [this] at hr; simp [isErr] at hr
  | ok q =>
    have hq := resolveC_lexical w hw.inv.root hw.inv.nosym path q hp.2 hres
    subst hq
    by_cases hex : (w.fs.lookup (pathComps path)).isSome = true
    · have : step w (.mkdir path mode) = (.err .EEXIST, w) := by simp only [step, mkdirOne, hres, hex, if_true]
      rw [this] at hr; simp [isErr] at hr
    · have hex' : (w.fs.lookup (pathComps path)).isSome = false := by simpa using hex
      by_cases hdir : (!w.fs.isDir (pathComps path).dropLast) = true
      · have : step w (.mkdir path mode) = (.err .ENOENT, w) := by
          simp only [step, mkdirOne, hres, hex', hdir, Bool.false_eq_true, if_false, if_true]
        rw [this] at hr; simp [isErr] at hr
      · have hst : ∃ n0 : Inode, n0.kind = .dir ∧
            step w (.mkdir path mode) = (.ok, { w with fs := w.fs.create (pathComps path) n0 }) := by
          simp only [step, mkdirOne, hres, hex', hdir, Bool.false_eq_true, if_false]
          exact ⟨_, rfl, rfl⟩
        obtain ⟨n0, hk0, hst⟩ := hst
        have hnone : w.fs.lookup (pathComps path) = none := by
          cases h : w.fs.lookup (pathComps path) with
          | none => rfl
          | some j => rw [h] at hex'; simp at hex'
        have hqne : pathComps path ≠ [] := by
          intro e
          have := hw.inv.dest_some
          have hdp : dp = [] := by
            have := hp.1; rw [e] at this; exact List.prefix_nil.mp this
          rw [hdp, ← e, hnone] at this; cases this
        rw [hst] at hgood ⊢
        have hcg := create_get w.fs (pathComps path) n0 hnone hw.inv.fresh hqne
        exact ⟨w.fs.next, hgood.2, hcg.1, ⟨n0, hcg.2, hk0⟩, Frame.refl _ _⟩

/-- `lstat` reported a directory: the path names a directory inode -/
theorem lstat_isDir (dp : Path) (w : World) (hw : LW dp w) (p : Str) (hp : LexArg dp p)
    (h : isDirRes (step w (.lstat p)).1 = true) :
    ∃ i n, w.fs.lookup (pathComps p) = some i ∧ w.fs.inode i = some n ∧ n.kind = .dir := by
  simp only [step] at h
  unfold statRes at h
  cases hr : resolve w p false with
  | err e => rw [hr] at h; simp [isDirRes] at h
  | ok q =>
    have hq := resolve_lexical w hw.inv.root hw.inv.nosym p false q hp.2 hr
    subst hq
    rw [hr] at h
    simp only at h
    cases hl : w.fs.lookup (pathComps p) with
    | none => rw [hl] at h; simp [isDirRes] at h
    | some i =>
      rw [hl] at h
      simp only at h
      cases hi : w.fs.inode i with
      | none => rw [hi] at h; simp [isDirRes] at h
      | some n =>
        rw [hi] at h
        simp only [isDirRes, statOf] at h
        exact ⟨i, n, rfl, hi, by simpa using h⟩

/-- **a directory entry, whatever is at the path**: when `createTarFile` reports success for a directory entry,
    the path names a directory with the entry's mode, time and owner (merged onto the directory that was
    there, or made afresh) -/
theorem createTarFile_dir_any (dp : Path) (path xd : Str) (e : Entry) (o : Opts) (hp : LexArg dp path)
    (hdir : e.typ = .dir) (w : World) (hw : LW dp w) (hok : ((createTarFileP path xd e o).run w).1 = .ok) :
    LW dp ((createTarFileP path xd e o).run w).2 ∧
    ∃ i n, ((createTarFileP path xd e o).run w).2.fs.lookup (pathComps path) = some i ∧
      ((createTarFileP path xd e o).run w).2.fs.inode i = some n ∧ DirFinal e o n := by
  by_cases hd : isDirRes (step w (.lstat path)).1 = true
  · obtain ⟨i, n, hl, hi, hk⟩ := lstat_isDir dp w hw path hp hd
    have := createTarFile_dir_merges dp path xd e o hp hdir i w w ⟨hw, hl, ⟨n, hi, hk⟩, Frame.refl i w⟩ hok
    obtain ⟨hw', hl', ⟨n', hn', hf⟩, _⟩ := this
    exact ⟨hw', i, n', hl', hn', hf⟩
  · unfold createTarFileP at hok ⊢
    simp only [hdir] at hok ⊢
    rw [run_sys_bind, lstat_world] at hok ⊢
    simp only [hd, Bool.false_eq_true, if_false] at hok ⊢
    rw [run_sys_bind] at hok ⊢
    by_cases hr : isErr (step w (.mkdir path e.mode)).1 = true
    · simp only [hr, if_true] at hok; cases hok
    · have hr' : isErr (step w (.mkdir path e.mode)).1 = false := by simpa using hr
      simp only [hr', Bool.false_eq_true, if_false] at hok ⊢
      obtain ⟨i, hobj⟩ := mkdir_fresh dp path hp e.mode w hw hr'
      have := applyMeta_dirF dp path e o hp hdir i _ _ hobj hok
      obtain ⟨hw', hl', ⟨n', hn', hf⟩, _⟩ := this
      exact ⟨hw', i, n', hl', hn', hf⟩

theorem remapE_fields (o : Opts) (e e' : Entry) (h : remapE o e = some e') :
    e'.typ = e.typ ∧ e'.mode = e.mode ∧ e'.mtime = e.mtime ∧ e'.body = e.body ∧ e'.name = e.name := by
  unfold remapE at h
  cases hh : toHostPair o e.uid e.gid with
  | none => rw [hh] at h; cases h
  | some pr => rw [hh] at h; simp at h; rw [← h]; exact ⟨rfl, rfl, rfl, rfl, rfl⟩

/-- **one directory iteration**: if the loop goes on after a directory entry that is not excluded and does not
    name the destination itself, the entry's path names a directory with the entry's mode and owner (and
    time, for now), and the entry — under its cleaned name — is the newest element of the deferred list -/
theorem iter_dir_post (dp : Path) (dest : Str) (o : Opts) (hd : CleanAbs dest) (hdp : pathComps dest = dp)
    (hov : o.overlay = false) (e : Entry) (dirs : List Entry) (w : World) (hw : LW dp w) (hdir : e.typ = .dir)
    (hnx : o.excludes.any (fun x => hasPrefix (clean e.name) x) = false)
    (hne : pathComps (join dest (clean e.name)) ≠ dp)
    (d' : List Entry) (w' : World) (hrun : (unpackIterP dest o e dirs).run w = (.ok d', w')) :
    LW dp w' ∧ ∃ e' i n, remapE o e = some e' ∧ d' = { e' with name := clean e.name } :: dirs ∧
      w'.fs.lookup (pathComps (join dest (clean e.name))) = some i ∧
      w'.fs.inode i = some n ∧ DirFinal e' o n := by
  simp only [unpackIterP, hdir, hnx] at hrun
  simp only [show (Typ.dir == Typ.xglobal) = false from rfl, Bool.false_eq_true, if_false] at hrun
  cases hg : guardName dest (clean e.name) with
  | error out => rw [hg] at hrun; simp only [Prog.run, pure] at hrun; cases hrun
  | ok p =>
    rw [hg] at hrun
    simp only at hrun
    obtain ⟨hpe, hpc, hpin⟩ := guardName_ok dest (clean e.name) p hd hg
    rw [hdp] at hpin
    have hp : LexArg dp p := lexArg_of hpc hpin
    have hin' : dp <+: pathComps (join dest (clean e.name)) := by rw [← hpe]; exact hpin
    have hpne : pathComps p ≠ dp := by rw [hpe]; exact hne
    rw [← hpe]
    rw [Prog.bind_eq, Prog.run_bind] at hrun
    have hI := LexSem.run dp _ _ w (lex_impliedDirs dp dest e.name o hd hdp hin') hw
    generalize hi1 : (impliedDirsP dest (clean e.name) o).run w = r1 at hrun hI
    obtain ⟨i1, w1⟩ := r1
    simp only at hrun hI
    have hw1 : LW dp w1 := hI.2.1
    by_cases hie : isErr i1 = true
    · simp only [hie, if_true, Prog.run, pure] at hrun; cases hrun
    · simp only [hie, Bool.false_eq_true, if_false] at hrun
      rw [run_sys_bind, lstat_world] at hrun
      generalize hL : (step w1 (Sys.lstat p)).1 = L at hrun
      by_cases ha1 : actOf o L e (p == clean dest) = 1
      · simp only [ha1, if_true, Prog.run, pure] at hrun; cases hrun
      · simp only [ha1, if_false] at hrun
        by_cases ha2 : actOf o L e (p == clean dest) = 2
        · exfalso
          have hself := actOf_two o L e _ ha2
          have hpeq : p = dest := by
            rw [clean_of_cleanAbs dest hd] at hself
            simpa using hself
          exact hpne (by rw [hpeq, hdp])
        · simp only [ha2, if_false] at hrun
          rw [Prog.bind_eq, Prog.run_bind] at hrun
          have hmid : ∃ rm w2, (if actOf o L e (p == clean dest) = 3 then sys (Sys.removeAll p) else pure Res.ok).run w1 = (rm, w2) ∧
              LW dp w2 := by
            by_cases ha3 : actOf o L e (p == clean dest) = 3
            · simp only [ha3, if_true]
              exact ⟨_, _, rfl, (step_good dp w1 (.removeAll p) hw1 (good_lex (s := .removeAll p) ⟨hp, hpne⟩)).2⟩
            · simp only [ha3, if_false]
              exact ⟨.ok, w1, rfl, hw1⟩
          obtain ⟨rm, w2, hrm, hw2⟩ := hmid
          rw [hrm] at hrun
          simp only at hrun
          by_cases hre : isErr rm = true
          · simp only [hre, if_true, Prog.run, pure] at hrun; cases hrun
          · simp only [hre, Bool.false_eq_true, if_false] at hrun
            cases hrem : remapE o e with
            | none => rw [hrem] at hrun; simp only [Prog.run, pure] at hrun; cases hrun
            | some e' =>
              rw [hrem] at hrun
              simp only [hov, Bool.false_eq_true, if_false] at hrun
              have hty : e'.typ = .dir := by rw [remapE_typ o e e' hrem]; exact hdir
              rw [Prog.bind_eq, Prog.run_bind] at hrun
              simp only [Prog.run, pure] at hrun
              rw [Prog.bind_eq, Prog.run_bind] at hrun
              have hdd : (Typ.dir == Typ.dir) = true := rfl
              simp only [hdd, if_true] at hrun
              by_cases hout : ((createTarFileP p dest e' o).run w2).1 = .ok
              · simp only [hout, show (Out.ok != Out.ok) = false from rfl, Bool.false_eq_true, if_false, Prog.run] at hrun
                injection hrun with h1 h2
                injection h1 with h1
                subst h2
                obtain ⟨hw3, i, n, hl, hi, hfin⟩ := createTarFile_dir_any dp p dest e' o hp hty w2 hw2 hout
                exact ⟨hw3, e', i, n, rfl, h1.symm, hl, hi, hfin⟩
              · exfalso
                cases hout' : ((createTarFileP p dest e' o).run w2).1 with
                | ok => exact hout hout'
                | err => simp only [hout', show (Out.err != Out.ok) = true from rfl, if_true, Prog.run] at hrun; cases hrun
                | breakout => simp only [hout', show (Out.breakout != Out.ok) = true from rfl, if_true, Prog.run] at hrun; cases hrun


/-! ### the deferred directory-time pass, seen from one directory -/

/-- `utimes` changes nothing but a modification time -/
theorem utimes_erase (w : World) (p : Str) (t : Option Int) (fl : Bool) (j : Ino) :
    ((step w (.utimes p t fl)).2.fs.inode j).map eraseM = (w.fs.inode j).map eraseM := by
  simp only [step]
  split
  · rfl
  · split
    · rfl
    · rename_i i _
      split
      · rfl
      · simp only
        by_cases hji : j = i
        · subst hji
          unfold FS.modInode
          cases hn : w.fs.inode j with
          | none => simp [hn]
          | some n => simp [FS.setInode, eraseM]
        · rw [inode_modInode_ne _ _ _ _ hji]

/-- the pass changes modification times only, and keeps the invariant -/
theorem dirTimes_erase (dp : Path) (dest : Str) : ∀ (ds : List Entry) (w : World), LW dp w → DirsOK dp dest ds →
    LW dp ((dirTimesP dest ds).run w).2 ∧
    ∀ j, (((dirTimesP dest ds).run w).2.fs.inode j).map eraseM = (w.fs.inode j).map eraseM
  | [], w, hw, _ => ⟨hw, fun _ => rfl⟩
  | d :: ds, w, hw, hds => by
    have hp : LexArg dp (join dest d.name) := hds d (by simp)
    have hrest : DirsOK dp dest ds := fun x hx => hds x (by simp [hx])
    simp only [dirTimesP]
    rw [run_sys_bind, lstat_world]
    split
    · exact dirTimes_erase dp dest ds w hw hrest
    · rw [run_sys_bind]
      have hgood := step_good dp w (.utimes (join dest d.name) (some (boundTime d.mtime)) true) hw
        (good_lex (s := .utimes (join dest d.name) (some (boundTime d.mtime)) true) hp)
      split
      · exact ⟨hgood.2, fun j => utimes_erase w _ _ true j⟩
      · have ih := dirTimes_erase dp dest ds _ hgood.2 hrest
        exact ⟨ih.1, fun j => by rw [ih.2 j, utimes_erase w _ _ true j]⟩

/-- `utimes` on another path leaves a directory's inode alone (a directory has one name) -/
theorem utimes_other (dp : Path) (w : World) (hw : LW dp w) (path : Str) (hp : LexArg dp path) (t : Option Int) (fl : Bool)
    (P : Path) (i : Ino) (n : Inode) (hl : w.fs.lookup P = some i) (hi : w.fs.inode i = some n) (hk : n.kind = .dir)
    (hne : pathComps path ≠ P) : (step w (.utimes path t fl)).2.fs.inode i = some n := by
  simp only [step]
  cases hr : resolve w path fl with
  | err e => simp only; exact hi
  | ok q =>
    have hq := resolve_lexical w hw.inv.root hw.inv.nosym path fl q hp.2 hr
    subst hq
    simp only
    cases hlk : w.fs.lookup (pathComps path) with
    | none => simp only; exact hi
    | some j =>
      simp only
      cases t with
      | none => simp only; exact hi
      | some tt =>
        simp only
        have hji : i ≠ j := by
          intro e
          subst e
          exact hne (hw.inv.dirone _ _ i n hlk hl hi hk)
        rw [inode_modInode_ne _ _ _ _ hji]; exact hi

/-- entries that name other paths leave the directory at `P` exactly as it was -/
theorem dirTimes_avoid (dp : Path) (dest : Str) (P : Path) (i : Ino) (n : Inode) (hk : n.kind = .dir) :
    ∀ (ds : List Entry) (w : World), LW dp w → DirsOK dp dest ds →
    (∀ d ∈ ds, pathComps (join dest d.name) ≠ P) → w.fs.lookup P = some i → w.fs.inode i = some n →
    ((dirTimesP dest ds).run w).2.fs.inode i = some n
  | [], _, _, _, _, _, hi => hi
  | d :: ds, w, hw, hds, hav, hl, hi => by
    have hp : LexArg dp (join dest d.name) := hds d (by simp)
    have hrest : DirsOK dp dest ds := fun x hx => hds x (by simp [hx])
    have havr : ∀ x ∈ ds, pathComps (join dest x.name) ≠ P := fun x hx => hav x (by simp [hx])
    simp only [dirTimesP]
    rw [run_sys_bind, lstat_world]
    split
    · exact dirTimes_avoid dp dest P i n hk ds w hw hrest havr hl hi
    · rw [run_sys_bind]
      have hgood := step_good dp w (.utimes (join dest d.name) (some (boundTime d.mtime)) true) hw
        (good_lex (s := .utimes (join dest d.name) (some (boundTime d.mtime)) true) hp)
      have hi' := utimes_other dp w hw _ hp (some (boundTime d.mtime)) true P i n hl hi hk (hav d (by simp))
      split
      · exact hi'
      · exact dirTimes_avoid dp dest P i n hk ds _ hgood.2 hrest havr
          (by rw [lookup_kept_utimes]; exact hl) hi'

/-- the entry for `P`, followed by entries for other paths: if the pass succeeds the directory carries that
    entry's (clamped) time and is otherwise what it was -/
theorem dirTimes_hit (dp : Path) (dest : Str) (P : Path) (i : Ino) (n : Inode) (hk : n.kind = .dir)
    (d : Entry) (ds : List Entry) (w : World) (hw : LW dp w) (hds : DirsOK dp dest (d :: ds))
    (hd : pathComps (join dest d.name) = P) (hav : ∀ x ∈ ds, pathComps (join dest x.name) ≠ P)
    (hl : w.fs.lookup P = some i) (hi : w.fs.inode i = some n)
    (hok : ((dirTimesP dest (d :: ds)).run w).1 = .ok) :
    ((dirTimesP dest (d :: ds)).run w).2.fs.inode i = some { n with mtime := some (boundTime d.mtime) } := by
  have hp : LexArg dp (join dest d.name) := hds d (by simp)
  have hrest : DirsOK dp dest ds := fun x hx => hds x (by simp [hx])
  simp only [dirTimesP] at hok ⊢
  rw [run_sys_bind, lstat_world] at hok ⊢
  have hlst : notDirRes (step w (.lstat (join dest d.name))).1 = false := by
    simp only [step]
    unfold statRes
    cases hr : resolve w (join dest d.name) false with
    | err e => simp [notDirRes]
    | ok q =>
      have hq := resolve_lexical w hw.inv.root hw.inv.nosym _ false q hp.2 hr
      subst hq
      simp only [hd, hl, hi, notDirRes, statOf, hk]
      simp
  simp only [hlst, Bool.false_eq_true, if_false] at hok ⊢
  rw [run_sys_bind] at hok ⊢
  have hgood := step_good dp w (.utimes (join dest d.name) (some (boundTime d.mtime)) true) hw
    (good_lex (s := .utimes (join dest d.name) (some (boundTime d.mtime)) true) hp)
  by_cases he : isErr (step w (.utimes (join dest d.name) (some (boundTime d.mtime)) true)).1 = true
  · simp only [he, if_true] at hok; cases hok
  · have he' : isErr (step w (.utimes (join dest d.name) (some (boundTime d.mtime)) true)).1 = false := by simpa using he
    simp only [he', Bool.false_eq_true, if_false] at hok ⊢
    -- the call succeeded: it went through inode i
    have hstep : (step w (.utimes (join dest d.name) (some (boundTime d.mtime)) true)).2.fs.inode i =
        some { n with mtime := some (boundTime d.mtime) } := by
      simp only [step] at he' ⊢
      cases hr : resolve w (join dest d.name) true with
      | err e => rw [hr] at he'; simp [isErr] at he'
      | ok q =>
        have hq := resolve_lexical w hw.inv.root hw.inv.nosym _ true q hp.2 hr
        subst hq
        simp only [hd, hl]
        exact inode_modInode_self w.fs i _ n hi
    exact dirTimes_avoid dp dest P i _ (by simpa using hk) ds _ hgood.2 hrest hav
      (by rw [lookup_kept_utimes]; exact hl) hstep

theorem dirTimes_cons_run (dest : Str) (d : Entry) (l : List Entry) (w : World) :
    (dirTimesP dest (d :: l)).run w =
      if notDirRes (step w (.lstat (join dest d.name))).1 = true then (dirTimesP dest l).run w
      else if isErr (step w (.utimes (join dest d.name) (some (boundTime d.mtime)) true)).1 = true
        then (.err, (step w (.utimes (join dest d.name) (some (boundTime d.mtime)) true)).2)
        else (dirTimesP dest l).run (step w (.utimes (join dest d.name) (some (boundTime d.mtime)) true)).2 := by
  simp only [dirTimesP]
  rw [run_sys_bind, lstat_world]
  split
  · rfl
  · rw [run_sys_bind]
    split
    · rfl
    · rfl

/-- the pass over a concatenation: when it succeeds, the first part succeeded and the second ran after it -/
theorem dirTimes_append (dest : Str) : ∀ (a b : List Entry) (w : World),
    ((dirTimesP dest (a ++ b)).run w).1 = .ok →
    ((dirTimesP dest a).run w).1 = .ok ∧
      (dirTimesP dest (a ++ b)).run w = (dirTimesP dest b).run ((dirTimesP dest a).run w).2
  | [], b, w, _ => ⟨rfl, rfl⟩
  | d :: a, b, w, h => by
    rw [List.cons_append] at h ⊢
    rw [dirTimes_cons_run dest d (a ++ b) w] at h ⊢
    rw [dirTimes_cons_run dest d a w]
    by_cases hc : notDirRes (step w (.lstat (join dest d.name))).1 = true
    · simp only [hc, if_true] at h ⊢
      exact dirTimes_append dest a b w h
    · simp only [hc, if_false] at h ⊢
      by_cases he : isErr (step w (.utimes (join dest d.name) (some (boundTime d.mtime)) true)).1 = true
      · simp only [he, if_true] at h; cases h
      · simp only [he, if_false] at h ⊢
        exact dirTimes_append dest a b _ h

/-! ### what the fold adds to the deferred list -/

theorem iter_dirs_shape (dest : Str) (o : Opts) (e : Entry) (dirs : List Entry) :
    (unpackIterP dest o e dirs).All (fun r => ∀ d', r = .ok d' → d' = dirs ∨ ∃ x, d' = x :: dirs ∧ x.name = clean e.name) := by
  have hsame : ∀ d', (Except.ok dirs : Except Out (List Entry)) = .ok d' → d' = dirs ∨ ∃ x, d' = x :: dirs ∧ x.name = clean e.name := by
    intro d' h; cases h; exact Or.inl rfl
  have herr : ∀ (out : Out) d', (Except.error out : Except Out (List Entry)) = .ok d' →
      d' = dirs ∨ ∃ x, d' = x :: dirs ∧ x.name = clean e.name := by
    intro _ d' h; cases h
  simp only [unpackIterP]
  split
  · exact hsame
  · split
    · exact hsame
    · split
      · exact herr _
      · refine allB _ _ (Prog.All.trivial _) ?_
        intro i _
        split
        · exact herr _
        · refine allB _ _ (Prog.All.trivial _) ?_
          intro l _
          split
          · exact herr _
          · split
            · exact hsame
            · refine allB _ _ (Prog.All.trivial _) ?_
              intro rm _
              split
              · exact herr _
              · split
                · exact herr _
                · refine allB _ _ (Prog.All.trivial _) ?_
                  intro conv _
                  split
                  · exact herr _
                  · exact hsame
                  · refine allB _ _ (Prog.All.trivial _) ?_
                    intro out _
                    split
                    · exact herr _
                    · intro d' hd'
                      cases hd'
                      split
                      · exact Or.inr ⟨_, rfl, rfl⟩
                      · exact Or.inl rfl

/-- the deferred list after the fold: the old list with, in front of it, entries named like entries of the archive -/
theorem loopRun_dirs_shape (dest : Str) (o : Opts) : ∀ (es dirs : List Entry) (w : World) (d : List Entry) (w' : World),
    loopRun dest o es dirs w = (.ok d, w') →
    ∃ news, d = news ++ dirs ∧ ∀ x ∈ news, ∃ e ∈ es, x.name = clean e.name
  | [], dirs, w, d, w', h => by
    simp only [loopRun] at h
    injection h with h1 _
    injection h1 with h1
    exact ⟨[], by simp [h1], by simp⟩
  | e :: es, dirs, w, d, w', h => by
    simp only [loopRun] at h
    have ha := Prog.All.run _ w (iter_dirs_shape dest o e dirs)
    cases hr : (unpackIterP dest o e dirs).run w with
    | mk r w1 =>
      rw [hr] at h ha
      cases r with
      | error out => simp only at h; cases h
      | ok d1 =>
        simp only at h
        obtain ⟨news, hd, hn⟩ := loopRun_dirs_shape dest o es d1 w1 d w' h
        rcases ha d1 rfl with h1 | ⟨x, h1, hx⟩
        · exact ⟨news, by rw [hd, h1], fun y hy => by
            obtain ⟨e', he', hy'⟩ := hn y hy
            exact ⟨e', by simp [he'], hy'⟩⟩
        · refine ⟨news ++ [x], by rw [hd, h1]; simp, fun y hy => ?_⟩
          rcases List.mem_append.mp hy with hy | hy
          · obtain ⟨e', he', hy'⟩ := hn y hy
            exact ⟨e', by simp [he'], hy'⟩
          · rw [List.mem_singleton] at hy
            exact ⟨e, by simp, by rw [hy]; exact hx⟩

end GA
