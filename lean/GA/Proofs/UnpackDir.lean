import GA.Proofs.UnpackLast
import GA.Proofs.EntryMerge
/-
  Directory entries in whole archives: what one directory iteration leaves behind (merge onto an existing
  directory, or a fresh directory after whatever was there has been removed), and what the deferred
  directory-time pass does to one directory.
-/
namespace GA

/-- a successful `mkdir` made a directory at the path (it was absent: `mkdir` refuses an existing name) -/
theorem mkdir_fresh (dp : Path) (path : Str) (hp : LexArg dp path) (mode : Nat) (w : World) (hw : LW dp w)
    (hr : isErr (step w (.mkdir path mode)).1 = false) :
    ∃ i, ObjF dp path i (step w (.mkdir path mode)).2 (fun n => n.kind = .dir) (step w (.mkdir path mode)).2 := by
  have hgood := step_good dp w (.mkdir path mode) hw (good_lex (s := .mkdir path mode) hp)
  cases hres : resolveC w path with
  | err e =>
    have : step w (.mkdir path mode) = (.err e, w) := by simp only [step, mkdirOne, hres]
    rw [this] at hr; simp [isErr] at hr
  | ok q =>
    have hq := resolveC_lexical w hw.inv.root hw.inv.nosym path q hp.2 hres
    subst hq
    by_cases hex : (w.fs.lookup (pathComps path)).isSome = true
    · have : step w (.mkdir path mode) = (.err .EEXIST, w) := by simp only [step, mkdirOne, hres, hex, if_true]
      rw [this] at hr; simp [isErr] at hr
    · have hex' : (w.fs.lookup (pathComps path)).isSome = false := by simpa using hex
      by_cases hdir : (!w.fs.isDir (pathComps path).dropLast) = true
      · have : step w (.mkdir path mode) = (.err .ENOENT, w) := by
          simp only [step, mkdirOne, hres, hex', hdir, Bool.false_eq_true, if_false, if_true]
        rw [this] at hr; simp [isErr] at hr
      · have hst : ∃ n0 : Inode, n0.kind = .dir ∧
            step w (.mkdir path mode) = (.ok, { w with fs := w.fs.create (pathComps path) n0 }) := by
          simp only [step, mkdirOne, hres, hex', hdir, Bool.false_eq_true, if_false]
          exact ⟨_, rfl, rfl⟩
        obtain ⟨n0, hk0, hst⟩ := hst
        have hnone : w.fs.lookup (pathComps path) = none := by
          cases h : w.fs.lookup (pathComps path) with
          | none => rfl
          | some j => rw [h] at hex'; simp at hex'
        have hqne : pathComps path ≠ [] := by
          intro e
          have := hw.inv.dest_some
          have hdp : dp = [] := by
            have := hp.1; rw [e] at this; exact List.prefix_nil.mp this
          rw [hdp, ← e, hnone] at this; cases this
        rw [hst] at hgood ⊢
        have hcg := create_get w.fs (pathComps path) n0 hnone hw.inv.fresh hqne
        exact ⟨w.fs.next, hgood.2, hcg.1, ⟨n0, hcg.2, hk0⟩, Frame.refl _ _⟩

/-- `lstat` reported a directory: the path names a directory inode -/
theorem lstat_isDir (dp : Path) (w : World) (hw : LW dp w) (p : Str) (hp : LexArg dp p)
    (h : isDirRes (step w (.lstat p)).1 = true) :
    ∃ i n, w.fs.lookup (pathComps p) = some i ∧ w.fs.inode i = some n ∧ n.kind = .dir := by
  simp only [step] at h
  unfold statRes at h
  cases hr : resolve w p false with
  | err e => rw [hr] at h; simp [isDirRes] at h
  | ok q =>
    have hq := resolve_lexical w hw.inv.root hw.inv.nosym p false q hp.2 hr
    subst hq
    rw [hr] at h
    simp only at h
    cases hl : w.fs.lookup (pathComps p) with
    | none => rw [hl] at h; simp [isDirRes] at h
    | some i =>
      rw [hl] at h
      simp only at h
      cases hi : w.fs.inode i with
      | none => rw [hi] at h; simp [isDirRes] at h
      | some n =>
        rw [hi] at h
        simp only [isDirRes, statOf] at h
        exact ⟨i, n, rfl, hi, by simpa using h⟩

/-- **a directory entry, whatever is at the path**: when `createTarFile` reports success for a directory entry,
    the path names a directory with the entry's mode, time and owner (merged onto the directory that was
    there, or made afresh) -/
theorem createTarFile_dir_any (dp : Path) (path xd : Str) (e : Entry) (o : Opts) (hp : LexArg dp path)
    (hdir : e.typ = .dir) (w : World) (hw : LW dp w) (hok : ((createTarFileP path xd e o).run w).1 = .ok) :
    LW dp ((createTarFileP path xd e o).run w).2 ∧
    ∃ i n, ((createTarFileP path xd e o).run w).2.fs.lookup (pathComps path) = some i ∧
      ((createTarFileP path xd e o).run w).2.fs.inode i = some n ∧ DirFinal e o n := by
  by_cases hd : isDirRes (step w (.lstat path)).1 = true
  · obtain ⟨i, n, hl, hi, hk⟩ := lstat_isDir dp w hw path hp hd
    have := createTarFile_dir_merges dp path xd e o hp hdir i w w ⟨hw, hl, ⟨n, hi, hk⟩, Frame.refl i w⟩ hok
    obtain ⟨hw', hl', ⟨n', hn', hf⟩, _⟩ := this
    exact ⟨hw', i, n', hl', hn', hf⟩
  · unfold createTarFileP at hok ⊢
    simp only [hdir] at hok ⊢
    rw [run_sys_bind, lstat_world] at hok ⊢
    simp only [hd, Bool.false_eq_true, if_false] at hok ⊢
    rw [run_sys_bind] at hok ⊢
    by_cases hr : isErr (step w (.mkdir path e.mode)).1 = true
    · simp only [hr, if_true] at hok; cases hok
    · have hr' : isErr (step w (.mkdir path e.mode)).1 = false := by simpa using hr
      simp only [hr', Bool.false_eq_true, if_false] at hok ⊢
      obtain ⟨i, hobj⟩ := mkdir_fresh dp path hp e.mode w hw hr'
      have := applyMeta_dirF dp path e o hp hdir i _ _ hobj hok
      obtain ⟨hw', hl', ⟨n', hn', hf⟩, _⟩ := this
      exact ⟨hw', i, n', hl', hn', hf⟩

theorem remapE_fields (o : Opts) (e e' : Entry) (h : remapE o e = some e') :
    e'.typ = e.typ ∧ e'.mode = e.mode ∧ e'.mtime = e.mtime ∧ e'.body = e.body ∧ e'.name = e.name := by
  unfold remapE at h
  cases hh : toHostPair o e.uid e.gid with
  | none => rw [hh] at h; cases h
  | some pr => rw [hh] at h; simp at h; rw [← h]; exact ⟨rfl, rfl, rfl, rfl, rfl⟩

/-- **one directory iteration**: if the loop goes on after a directory entry that is not excluded and does not
    name the destination itself, the entry's path names a directory with the entry's mode and owner (and
    time, for now), and the entry — under its cleaned name — is the newest element of the deferred list -/
theorem iter_dir_post (dp : Path) (dest : Str) (o : Opts) (hd : CleanAbs dest) (hdp : pathComps dest = dp)
    (hov : o.overlay = false) (e : Entry) (dirs : List Entry) (w : World) (hw : LW dp w) (hdir : e.typ = .dir)
    (hnx : o.excludes.any (fun x => hasPrefix (clean e.name) x) = false)
    (hne : pathComps (join dest (clean e.name)) ≠ dp)
    (d' : List Entry) (w' : World) (hrun : (unpackIterP dest o e dirs).run w = (.ok d', w')) :
    LW dp w' ∧ ∃ e' i n, remapE o e = some e' ∧ d' = { e' with name := clean e.name } :: dirs ∧
      w'.fs.lookup (pathComps (join dest (clean e.name))) = some i ∧
      w'.fs.inode i = some n ∧ DirFinal e' o n := by
  simp only [unpackIterP, hdir, hnx] at hrun
  simp only [show (Typ.dir == Typ.xglobal) = false from rfl, Bool.false_eq_true, if_false] at hrun
  cases hg : guardName dest (clean e.name) with
  | error out => rw [hg] at hrun; simp only [Prog.run, pure] at hrun; cases hrun
  | ok p =>
    rw [hg] at hrun
    simp only at hrun
    obtain ⟨hpe, hpc, hpin⟩ := guardName_ok dest (clean e.name) p hd hg
    rw [hdp] at hpin
    have hp : LexArg dp p := lexArg_of hpc hpin
    have hin' : dp <+: pathComps (join dest (clean e.name)) := by rw [← hpe]; exact hpin
    have hpne : pathComps p ≠ dp := by rw [hpe]; exact hne
    rw [← hpe]
    rw [Prog.bind_eq, Prog.run_bind] at hrun
    have hI := LexSem.run dp _ _ w (lex_impliedDirs dp dest e.name o hd hdp hin') hw
    generalize hi1 : (impliedDirsP dest (clean e.name) o).run w = r1 at hrun hI
    obtain ⟨i1, w1⟩ := r1
    simp only at hrun hI
    have hw1 : LW dp w1 := hI.2.1
    by_cases hie : isErr i1 = true
    · simp only [hie, if_true, Prog.run, pure] at hrun; cases hrun
    · simp only [hie, Bool.false_eq_true, if_false] at hrun
      rw [run_sys_bind, lstat_world] at hrun
      generalize hL : (step w1 (Sys.lstat p)).1 = L at hrun
      by_cases ha1 : actOf o L e (p == clean dest) = 1
      · simp only [ha1, if_true, Prog.run, pure] at hrun; cases hrun
      · simp only [ha1, if_false] at hrun
        by_cases ha2 : actOf o L e (p == clean dest) = 2
        · exfalso
          have hself := actOf_two o L e _ ha2
          have hpeq : p = dest := by
            rw [clean_of_cleanAbs dest hd] at hself
            simpa using hself
          exact hpne (by rw [hpeq, hdp])
        · simp only [ha2, if_false] at hrun
          rw [Prog.bind_eq, Prog.run_bind] at hrun
          have hmid : ∃ rm w2, (if actOf o L e (p == clean dest) = 3 then sys (Sys.removeAll p) else pure Res.ok).run w1 = (rm, w2) ∧
              LW dp w2 := by
            by_cases ha3 : actOf o L e (p == clean dest) = 3
            · simp only [ha3, if_true]
              exact ⟨_, _, rfl, (step_good dp w1 (.removeAll p) hw1 (good_lex (s := .removeAll p) ⟨hp, hpne⟩)).2⟩
            · simp only [ha3, if_false]
              exact ⟨.ok, w1, rfl, hw1⟩
          obtain ⟨rm, w2, hrm, hw2⟩ := hmid
          rw [hrm] at hrun
          simp only at hrun
          by_cases hre : isErr rm = true
          · simp only [hre, if_true, Prog.run, pure] at hrun; cases hrun
          · simp only [hre, Bool.false_eq_true, if_false] at hrun
            cases hrem : remapE o e with
            | none => rw [hrem] at hrun; simp only [Prog.run, pure] at hrun; cases hrun
            | some e' =>
              rw [hrem] at hrun
              simp only [hov, Bool.false_eq_true, if_false] at hrun
              have hty : e'.typ = .dir := by rw [remapE_typ o e e' hrem]; exact hdir
              rw [Prog.bind_eq, Prog.run_bind] at hrun
              simp only [Prog.run, pure] at hrun
              rw [Prog.bind_eq, Prog.run_bind] at hrun
              have hdd : (Typ.dir == Typ.dir) = true := rfl
              simp only [hdd, if_true] at hrun
              by_cases hout : ((createTarFileP p dest e' o).run w2).1 = .ok
              · simp only [hout, show (Out.ok != Out.ok) = false from rfl, Bool.false_eq_true, if_false, Prog.run] at hrun
                injection hrun with h1 h2
                injection h1 with h1
                subst h2
                obtain ⟨hw3, i, n, hl, hi, hfin⟩ := createTarFile_dir_any dp p dest e' o hp hty w2 hw2 hout
                exact ⟨hw3, e', i, n, rfl, h1.symm, hl, hi, hfin⟩
              · exfalso
                cases hout' : ((createTarFileP p dest e' o).run w2).1 with
                | ok => exact hout hout'
                | err => simp only [hout', show (Out.err != Out.ok) = true from rfl, if_true, Prog.run] at hrun; cases hrun
                | breakout => simp only [hout', show (Out.breakout != Out.ok) = true from rfl, if_true, Prog.run] at hrun; cases hrun

end GA
