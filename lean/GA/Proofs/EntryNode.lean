import GA.Proofs.EntryPost
/-
  Device and fifo entries at a fresh path.
-/
namespace GA

theorem mknod_new (dp : Path) (path : Str) (hp : LexArg dp path) (k : Kind) (hk : k ≠ .sym) (mode : Nat) (rdev : Nat × Nat) :
    Triple (fun w => LW dp w ∧ w.fs.lookup (pathComps path) = none) (sys (.mknod path k mode rdev))
      (fun r w' => isErr r = false →
        Obj dp path (fun n => n.kind = k ∧ n.rdev = (if k == .fifo then (0, 0) else rdev) ∧ n.data = []) w') := by
  apply Triple.sys
  intro w ⟨hw, hnone⟩ hr
  have hgood := step_good dp w (.mknod path k mode rdev) hw (good_lex (s := .mknod path k mode rdev) ⟨hp, hk⟩)
  have hqne : pathComps path ≠ [] := by
    intro e
    have := hw.inv.dest_some
    have hdp : dp = [] := by
      have := hp.1; rw [e] at this; exact List.prefix_nil.mp this
    rw [hdp, ← e, hnone] at this; cases this
  cases hres : resolveC w path with
  | err e =>
    have : step w (.mknod path k mode rdev) = (.err e, w) := by simp only [step, hres]
    rw [this] at hr; simp [isErr] at hr
  | ok q =>
    have hq := resolveC_lexical w hw.inv.root hw.inv.nosym path q hp.2 hres
    subst hq
    have hex : (w.fs.lookup (pathComps path)).isSome = false := by rw [hnone]; rfl
    by_cases hdir : (!w.fs.isDir (pathComps path).dropLast) = true
    · have : step w (.mknod path k mode rdev) = (.err .ENOENT, w) := by
        simp only [step, hres, hex, hdir, Bool.false_eq_true, if_false, if_true]
      rw [this] at hr; simp [isErr] at hr
    · have hst : ∃ n0 : Inode, n0.kind = k ∧ n0.rdev = (if k == .fifo then (0, 0) else rdev) ∧ n0.data = [] ∧
          step w (.mknod path k mode rdev) = (.ok, { w with fs := w.fs.create (pathComps path) n0 }) := by
        simp only [step, hres, hex, hdir, Bool.false_eq_true, if_false]
        exact ⟨_, rfl, rfl, rfl, rfl⟩
      obtain ⟨n0, hk0, hr0, hd0, hst⟩ := hst
      rw [hst] at hgood ⊢
      have := create_get w.fs (pathComps path) n0 hnone hw.inv.fresh hqne
      exact ⟨hgood.2, w.fs.next, n0, this.1, this.2, hk0, hr0, hd0⟩

theorem chownInode_keeps_rdev (n : Inode) (u g : Nat) : (chownInode n u g).rdev = n.rdev := by
  unfold chownInode; split <;> rfl

/-- **a device entry written to a fresh path** (outside a user namespace): on success the path names a
    node of the entry's type with the entry's device number, mode, time and owner -/
theorem createTarFile_dev_exact (dp : Path) (path xd : Str) (e : Entry) (o : Opts) (hp : LexArg dp path)
    (hdev : e.typ = .chr ∨ e.typ = .blk) (huns : o.inUserNS = false) :
    Triple (fun w => LW dp w ∧ w.fs.lookup (pathComps path) = none) (createTarFileP path xd e o)
      (fun out w' => out = .ok → Obj dp path
        (PlainFinal (fun n => n.kind = kindOfTyp e.typ ∧ n.rdev = (e.devmajor, e.devminor)) e o) w') := by
  have hkf : (kindOfTyp e.typ == Kind.fifo) = false := by rcases hdev with h | h <;> rw [h] <;> rfl
  have hnl : (e.typ == .link) = false := by rcases hdev with h | h <;> rw [h] <;> rfl
  have hns : (e.typ != .sym) = true := by rcases hdev with h | h <;> rw [h] <;> rfl
  have body : Triple (fun w => LW dp w ∧ w.fs.lookup (pathComps path) = none)
      (do
        let r ← sys (.mknod path (kindOfTyp e.typ) e.mode (e.devmajor, e.devminor))
        if isErr r then return .err
        applyMetaP path e o)
      (fun out w' => out = .ok → Obj dp path
        (PlainFinal (fun n => n.kind = kindOfTyp e.typ ∧ n.rdev = (e.devmajor, e.devminor)) e o) w') := by
    refine Triple.bind _ _ (mknod_new dp path hp (kindOfTyp e.typ) (kindOfTyp_ne_sym _) e.mode (e.devmajor, e.devminor)) ?_
    intro r
    by_cases hr : isErr r = true
    · simp only [hr, if_true]
      exact Triple.pure _ (fun _ _ h => by cases h)
    · have hr' : isErr r = false := by simpa using hr
      simp only [hr', Bool.false_eq_true, if_false]
      refine Triple.conseq _ (applyMeta_plain dp path e o hp hnl hns
        (fun n => n.kind = kindOfTyp e.typ ∧ n.rdev = (e.devmajor, e.devminor))
        (fun n u g h => ⟨by rw [(chownInode_keeps n u g).1]; exact h.1, by rw [chownInode_keeps_rdev]; exact h.2⟩)
        (fun n p h => h) (fun n t h => h) (fun n xs h => h))
        (fun w h => (h trivial).mono (fun n hn => ⟨hn.1, by rw [hn.2.1, hkf]; simp⟩)) (fun _ _ h => h)
  unfold createTarFileP
  rcases hdev with h | h
  · simp only [h, huns, Bool.false_eq_true, if_false] at body ⊢
    exact body
  · simp only [h, huns, Bool.false_eq_true, if_false] at body ⊢
    exact body

end GA
