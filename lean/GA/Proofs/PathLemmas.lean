import GA.Go.Path
/-
  Lemmas about the filepath model: string ⇄ component bridge, the shape of cleaned
  absolute paths, and the characterisation of `isWithin` (the guard of the `fix:` commits)
  as component-wise containment.
-/
namespace GA

/-- a path component: non-empty, not "." or "..", no separator -/
def Norm (c : Str) : Prop := c ≠ [] ∧ c ≠ dot ∧ c ≠ dotdot ∧ (47 : UInt8) ∉ c

def NoSlash (c : Str) : Prop := (47 : UInt8) ∉ c

/-- cleaned absolute path: "/" followed by normal components joined by "/" -/
def CleanAbs (s : Str) : Prop := ∃ cs : List Str, (∀ c ∈ cs, Norm c) ∧ s = 47 :: joinSlash cs

/-- the components of a path string (empty elements dropped) -/
def compsOf (s : Str) : List Str := (splitSlash s).filter (· ≠ [])

theorem splitSlash_ne_nil (s : Str) : splitSlash s ≠ [] := by
  cases s with
  | nil => simp [splitSlash]
  | cons c cs =>
    simp only [splitSlash]
    split
    · simp
    · cases splitSlash cs <;> simp [consHead]

theorem consHead_append (c : UInt8) (x y : List Str) (hx : x ≠ []) :
    consHead c (x ++ y) = consHead c x ++ y := by
  cases x with
  | nil => exact absurd rfl hx
  | cons h t => simp [consHead]

theorem splitSlash_append_slash (a b : Str) :
    splitSlash (a ++ 47 :: b) = splitSlash a ++ splitSlash b := by
  induction a with
  | nil => simp [splitSlash]
  | cons c cs ih =>
    simp only [List.cons_append, splitSlash]
    split
    · rw [ih]; simp
    · rw [ih, consHead_append _ _ _ (splitSlash_ne_nil cs)]

theorem splitSlash_noSlash (c : Str) (h : NoSlash c) : splitSlash c = [c] := by
  induction c with
  | nil => rfl
  | cons x xs ih =>
    have hx : x ≠ 47 := by intro e; apply h; simp [e]
    have hxs : NoSlash xs := by intro hm; apply h; simp [hm]
    simp [splitSlash, hx, ih hxs, consHead]

theorem splitSlash_joinSlash : ∀ (cs : List Str), cs ≠ [] → (∀ c ∈ cs, NoSlash c) →
    splitSlash (joinSlash cs) = cs
  | [], h, _ => absurd rfl h
  | [x], _, hn => by simpa [joinSlash] using splitSlash_noSlash x (hn x (by simp))
  | x :: y :: xs, _, hn => by
    simp only [joinSlash]
    rw [splitSlash_append_slash, splitSlash_noSlash x (hn x (by simp)),
      splitSlash_joinSlash (y :: xs) (by simp) (fun c hc => hn c (by simp [hc]))]
    simp

theorem splitSlash_elems_noSlash : ∀ (s : Str), ∀ c ∈ splitSlash s, NoSlash c
  | [], c, hc => by simp [splitSlash] at hc; subst hc; simp [NoSlash]
  | x :: xs, c, hc => by
    simp only [splitSlash] at hc
    split at hc
    · simp at hc
      rcases hc with rfl | hc
      · simp [NoSlash]
      · exact splitSlash_elems_noSlash xs c hc
    · rename_i hx
      have ih := splitSlash_elems_noSlash xs
      cases hs : splitSlash xs with
      | nil => simp [hs, consHead] at hc; subst hc; simp [NoSlash, hx]; exact fun e => hx e.symm
      | cons h t =>
        simp [hs, consHead] at hc
        rcases hc with rfl | hc
        · have := ih h (by simp [hs])
          simp only [NoSlash, List.mem_cons, not_or] at this ⊢
          exact ⟨fun e => hx e.symm, this⟩
        · exact ih c (by simp [hs, hc])

theorem Norm.noSlash {c : Str} (h : Norm c) : NoSlash c := h.2.2.2

/-- cleaning pushes normal components unchanged -/
theorem foldl_norm (r : Bool) : ∀ (cs : List Str) (stk : List Str), (∀ c ∈ cs, Norm c) →
    cs.foldl (cleanStep r) stk = cs.reverse ++ stk
  | [], stk, _ => by simp
  | c :: cs, stk, h => by
    have hc := h c (by simp)
    have : cleanStep r stk c = c :: stk := by
      unfold cleanStep; simp [hc.1, hc.2.1, hc.2.2.1]
    simp only [List.foldl_cons, this]
    rw [foldl_norm r cs (c :: stk) (fun x hx => h x (by simp [hx]))]
    simp

/-- a rooted clean keeps the stack normal -/
theorem cleanStep_norm (stk : List Str) (c : Str) (hc : NoSlash c) (h : ∀ x ∈ stk, Norm x) :
    ∀ x ∈ cleanStep true stk c, Norm x := by
  unfold cleanStep
  split
  · exact h
  · split
    · cases stk with
      | nil => simp
      | cons t rest =>
        have ht := (h t (by simp)).2.2.1
        simp [ht]
        intro x hx; exact h x (by simp [hx])
    · rename_i h1 h2
      intro x hx
      simp at hx
      rcases hx with rfl | hx
      · exact ⟨by simpa using (not_or.mp h1).1, by simpa using (not_or.mp h1).2, h2, hc⟩
      · exact h x hx

theorem foldl_cleanStep_norm : ∀ (cs : List Str) (stk : List Str), (∀ c ∈ cs, NoSlash c) →
    (∀ x ∈ stk, Norm x) → ∀ x ∈ cs.foldl (cleanStep true) stk, Norm x
  | [], stk, _, h => by simpa using h
  | c :: cs, stk, hn, h => by
    simp only [List.foldl_cons]
    exact foldl_cleanStep_norm cs _ (fun x hx => hn x (by simp [hx]))
      (cleanStep_norm stk c (hn c (by simp)) h)

theorem isAbs_cons (s : Str) : isAbs (47 :: s) = true := by simp [isAbs]

theorem isAbs_ne_nil {s : Str} (h : isAbs s = true) : s ≠ [] := by
  intro e; subst e; simp [isAbs] at h

/-- `Clean` of an absolute string is "/" + normal components -/
theorem clean_abs_form (s : Str) (h : isAbs s = true) :
    clean s = 47 :: joinSlash (cleanComps s) ∧ ∀ c ∈ cleanComps s, Norm c := by
  constructor
  · unfold clean; simp [isAbs_ne_nil h, h]
  · intro c hc
    unfold cleanComps at hc
    rw [h] at hc
    simp only [List.mem_reverse] at hc
    exact foldl_cleanStep_norm _ [] (splitSlash_elems_noSlash s) (by simp) c hc

theorem clean_cleanAbs (s : Str) (h : isAbs s = true) : CleanAbs (clean s) :=
  ⟨cleanComps s, (clean_abs_form s h).2, (clean_abs_form s h).1⟩

/-- splitting a cleaned absolute path -/
theorem splitSlash_cleanAbs (cs : List Str) (h : ∀ c ∈ cs, Norm c) :
    splitSlash (47 :: joinSlash cs) = [] :: (if cs = [] then [[]] else cs) := by
  by_cases hcs : cs = []
  · subst hcs; simp [splitSlash, joinSlash]
  · simp only [splitSlash, hcs, if_false, if_true]
    rw [splitSlash_joinSlash cs hcs (fun c hc => (h c hc).noSlash)]

theorem compsOf_cleanAbs (cs : List Str) (h : ∀ c ∈ cs, Norm c) :
    compsOf (47 :: joinSlash cs) = cs := by
  unfold compsOf
  rw [splitSlash_cleanAbs cs h]
  by_cases hcs : cs = []
  · subst hcs; simp
  · simp only [hcs, if_false]
    rw [List.filter_cons]
    simp
    intro c hc; exact (h c hc).1

theorem cleanStep_skip_empty (r : Bool) (stk : List Str) : cleanStep r stk [] = stk := by
  simp [cleanStep]

/-- the component stack after cleaning `d ++ "/" ++ x` for a cleaned absolute `d` -/
theorem cleanComps_join (cs : List Str) (h : ∀ c ∈ cs, Norm c) (x : Str) :
    cleanComps ((47 :: joinSlash cs) ++ 47 :: x) =
      ((splitSlash x).foldl (cleanStep true) cs.reverse).reverse := by
  unfold cleanComps
  have habs : isAbs ((47 :: joinSlash cs) ++ 47 :: x) = true := by simp [isAbs]
  rw [habs, splitSlash_append_slash, splitSlash_cleanAbs cs h, List.foldl_append]
  congr 2
  by_cases hcs : cs = []
  · subst hcs; simp [cleanStep_skip_empty]
  · simp only [hcs, if_false, List.foldl_cons, cleanStep_skip_empty]
    rw [foldl_norm true cs [] h]; simp

/-- `Join(d, x)` for a cleaned absolute `d` is again cleaned absolute -/
theorem join_cleanAbs (d x : Str) (hd : CleanAbs d) : CleanAbs (join d x) := by
  obtain ⟨cs, hcs, rfl⟩ := hd
  unfold join
  simp only [ne_eq, List.cons_ne_nil, not_false_eq_true, if_true, reduceCtorEq]
  exact clean_cleanAbs _ (by simp [isAbs])

theorem clean_of_cleanAbs (s : Str) (h : CleanAbs s) : clean s = s := by
  obtain ⟨cs, hcs, rfl⟩ := h
  have habs : isAbs (47 :: joinSlash cs) = true := by simp [isAbs]
  rw [(clean_abs_form _ habs).1]
  congr 1
  unfold cleanComps
  rw [habs, splitSlash_cleanAbs cs hcs]
  by_cases h0 : cs = []
  · subst h0; simp [cleanStep_skip_empty, joinSlash]
  · simp only [h0, if_false, List.foldl_cons, cleanStep_skip_empty]
    rw [foldl_norm true cs [] hcs]; simp

theorem dropWhile_nil_all {α} (p : α → Bool) : ∀ (l : List α), l.dropWhile p = [] → ∀ x ∈ l, p x = true
  | [], _, x, hx => by simp at hx
  | a :: l, h, x, hx => by
    rw [List.dropWhile_cons] at h
    split at h
    · rename_i hp
      simp at hx
      rcases hx with rfl | hx
      · exact hp
      · exact dropWhile_nil_all p l h x hx
    · cases h

end GA
