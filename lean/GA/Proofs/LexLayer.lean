import GA.Proofs.LexUnpack
/-
  Layer apply (`unpackLayerP`) in a symlink-free world: whiteouts, opaque markers with their walk, the
  staging area — every mutating call is lexically beneath the destination.
-/
namespace GA

/-! ### the listing `filepath.WalkDir` produces -/

theorem mem_insertSorted (x : Str) : ∀ (l : List Str) (y : Str), y ∈ insertSorted x l → y = x ∨ y ∈ l
  | [], y, h => by simp [insertSorted] at h; exact Or.inl h
  | a :: as, y, h => by
    simp only [insertSorted] at h
    split at h
    · rcases List.mem_cons.mp h with rfl | h
      · exact Or.inl rfl
      · exact Or.inr h
    · rcases List.mem_cons.mp h with rfl | h
      · exact Or.inr (by simp)
      · rcases mem_insertSorted x as y h with h | h
        · exact Or.inl h
        · exact Or.inr (by simp [h])

theorem mem_sortStrs : ∀ (l : List Str) (y : Str), y ∈ sortStrs l → y ∈ l
  | [], y, h => by simp [sortStrs] at h
  | a :: as, y, h => by
    simp only [sortStrs, List.foldr_cons] at h
    rcases mem_insertSorted a _ y h with rfl | h
    · simp
    · exact List.mem_cons_of_mem _ (mem_sortStrs as y h)

theorem lookup_isSome_of_mem (fs : FS) (e : Path × Ino) (h : e ∈ fs.names) : (fs.lookup e.1).isSome = true := by
  unfold FS.lookup
  cases hf : List.find? (fun x => x.1 == e.1) fs.names with
  | some x => rfl
  | none =>
    rw [List.find?_eq_none] at hf
    exact absurd (by simp) (hf e h)

theorem children_norm (fs : FS) (hwf : NameWF fs) (p : Path) (c : Str) (h : c ∈ fs.children p) : Norm c := by
  unfold FS.children at h
  simp only [List.mem_filterMap] at h
  obtain ⟨e, he, hc⟩ := h
  split at hc
  · have hs := lookup_isSome_of_mem fs e he
    cases hl : fs.lookup e.1 with
    | none => rw [hl] at hs; cases hs
    | some i =>
      have := hwf e.1 i hl
      cases hgl : e.1.getLast? with
      | none => rw [hgl] at hc; cases hc
      | some x =>
        rw [hgl] at hc
        injection hc with hc
        subst hc
        exact this x (List.mem_of_getLast? hgl)
  · cases hc

/-- every item of the listing is a cleaned absolute path at or beneath the listed directory; only the
    first names the directory itself -/
theorem listFrom_items (fs : FS) (hwf : NameWF fs) : ∀ (fuel depth : Nat) (p : Path) (s : Str),
    CleanAbs s → pathComps s = p → ∀ it ∈ listFrom fs fuel depth p s,
      CleanAbs it.1 ∧ p <+: pathComps it.1 ∧ (it.1 ≠ s → pathComps it.1 ≠ p)
  | 0, _, _, _, _, _, it, h => by simp [listFrom] at h
  | fuel+1, depth, p, s, hs, hp, it, h => by
    simp only [listFrom] at h
    split at h
    · cases h
    · split at h
      · rcases List.mem_cons.mp h with rfl | h
        · exact ⟨hs, by rw [hp]; exact List.prefix_refl _, fun hne => absurd rfl hne⟩
        · simp only [List.mem_flatMap] at h
          obtain ⟨c, hc, hit⟩ := h
          have hcn : Norm c := children_norm fs hwf p c (mem_sortStrs _ c hc)
          obtain ⟨cs, hcs, hse, hsc⟩ := hs.comps
          have hj : join s c = 47 :: joinSlash (cs ++ [c]) := by rw [hse]; exact join_snoc cs c hcs hcn
          have hcs' : ∀ x ∈ cs ++ [c], Norm x := by
            intro x hx
            rcases List.mem_append.mp hx with hx | hx
            · exact hcs x hx
            · simp at hx; rw [hx]; exact hcn
          have hjc : CleanAbs (join s c) := ⟨cs ++ [c], hcs', hj⟩
          have hjp : pathComps (join s c) = p ++ [c] := by
            rw [hj, pathComps_cleanAbs _ hcs', ← hp, hsc]
          have := listFrom_items fs hwf fuel (depth + 1) (p ++ [c]) (join s c) hjc hjp it hit
          refine ⟨this.1, (List.prefix_append p [c]).trans this.2.1, fun _ hpe => ?_⟩
          have hl := this.2.1.length_le
          rw [hpe] at hl
          simp at hl
          omega
      · rw [List.mem_singleton] at h
        rw [h]
        exact ⟨hs, by rw [hp]; exact List.prefix_refl _, fun hne => absurd rfl hne⟩

/-! ### `Base` and the staging directory -/

theorem base_shape (s : Str) : base s = dot ∨ base s = slashStr ∨ NoSlash (base s) := by
  unfold base
  split
  · exact Or.inl rfl
  · simp only
    split
    · exact Or.inr (Or.inl rfl)
    · exact Or.inr (Or.inr (splitLast_snd_noSlash _))

/-- joining a one-component string (or "/", ".") to a path beneath the destination stays at or beneath
    the destination's level of that path's parent -/
theorem join_one_within (dp : Path) (t b : Str) (x : Str) (ht : CleanAbs t) (htc : pathComps t = dp ++ [x])
    (hb : b = dot ∨ b = slashStr ∨ NoSlash b) :
    CleanAbs (join t b) ∧ dp <+: pathComps (join t b) := by
  obtain ⟨cs, hcs, rfl, hsc⟩ := ht.comps
  have hJ := pathComps_join cs hcs b
  refine ⟨hJ.1, ?_⟩
  rw [hJ.2.1]
  have hcsdp : cs = dp ++ [x] := by rw [← hsc]; exact htc
  have hfold : (splitSlash b).foldl (cleanStep true) cs.reverse = cleanStep true cs.reverse b ∨
      (splitSlash b).foldl (cleanStep true) cs.reverse = cs.reverse := by
    rcases hb with rfl | rfl | hb
    · right; simp [dot, splitSlash, consHead, cleanStep]
    · right; simp [slashStr, splitSlash, cleanStep]
    · left; rw [splitSlash_noSlash b hb]; rfl
  rcases hfold with hf | hf
  · rw [hf]
    unfold cleanStep
    split
    · rw [List.reverse_reverse, hcsdp]; exact List.prefix_append _ _
    · split
      · rw [hcsdp]
        simp only [List.reverse_append, List.reverse_cons, List.reverse_nil, List.nil_append, List.singleton_append]
        have hxn : x ≠ dotdot := by
          have := hcs x (by rw [hcsdp]; simp)
          exact this.2.2.1
        simp only [hxn, if_false, List.reverse_reverse]
        exact List.prefix_refl _
      · rw [List.reverse_cons, List.reverse_reverse, hcsdp, List.append_assoc]
        exact List.prefix_append _ _
  · rw [hf, List.reverse_reverse, hcsdp]; exact List.prefix_append _ _

/-! ### the state the layer loop carries -/

def tmpName : Str := b!"dockerplnk" ++ b!"0000000000"

theorem tmpName_norm : Norm tmpName := by
  simp [Norm, tmpName, dot, dotdot]

structure LStOK (dp : Path) (dest : Str) (st : LState) : Prop where
  dirs : ∀ e ∈ st.dirs, LexArg dp (join dest e.name)
  tmp : st.tmp = [] ∨ (CleanAbs st.tmp ∧ ∃ x, pathComps st.tmp = dp ++ [x])
  staged : ∀ x ∈ st.staged, x.2.typ ≠ .sym

theorem lex_layerFinish (dp : Path) (dest : Str) (st : LState) (out : Out) (hst : LStOK dp dest st) :
    LexSem dp (fun _ => True) (layerFinish dest st out) := by
  unfold layerFinish
  refine bindL dp (Q := fun _ => True) _ _ ?_ (fun _ _ => lexSem_pure dp _ _ trivial)
  split
  · rename_i hne
    rcases hst.tmp with h | ⟨hc, x, hx⟩
    · exact absurd h hne
    · refine lex_info dp (.removeAll st.tmp) ⟨lexArg_of hc (by rw [hx]; exact List.prefix_append _ _), ?_⟩
      rw [hx]
      intro e
      have := congrArg List.length e
      simp at this
  · exact lexSem_pure dp _ _ trivial

theorem mkdtemp_result (w : World) (dir pfx : Str) (t : Str) (h : (step w (.mkdtemp dir pfx)).1 = .str t) :
    t = join dir (pfx ++ b!"0000000000") := by
  simp only [step] at h
  split at h
  · cases h
  · split at h
    · cases h
    · split at h
      · cases h
      · injection h with h; exact h.symm

theorem lex_stage (dp : Path) (dest : Str) (o : Opts) (e : Entry) (st : LState) (n : Str)
    (hd : CleanAbs dest) (hdp : pathComps dest = dp) (hst : LStOK dp dest st) :
    LexSem dp (fun r => ∀ st', r = .ok st' → LStOK dp dest st') (stageP dest o e st n) := by
  unfold stageP
  split
  · rename_i hcond
    have htyp : e.typ ≠ .sym := by
      intro he
      simp [he] at hcond
    simp only
    -- the staging directory: made now, or the one made before
    refine bindL dp (Q := fun mk => ∀ t, mk = .str t → CleanAbs t ∧ ∃ x, pathComps t = dp ++ [x]) _ _ ?_ ?_
    · split
      · -- mkdtemp(dest, "dockerplnk")
        obtain ⟨cs, hcs, rfl, hsc⟩ := hd.comps
        have hj : join (47 :: joinSlash cs) tmpName = 47 :: joinSlash (cs ++ [tmpName]) :=
          join_snoc cs tmpName hcs tmpName_norm
        have hcs' : ∀ x ∈ cs ++ [tmpName], Norm x := by
          intro x hx
          rcases List.mem_append.mp hx with hx | hx
          · exact hcs x hx
          · simp at hx; rw [hx]; exact tmpName_norm
        have hc : CleanAbs (join (47 :: joinSlash cs) tmpName) := ⟨_, hcs', hj⟩
        have hpc : pathComps (join (47 :: joinSlash cs) tmpName) = dp ++ [tmpName] := by
          rw [hj, pathComps_cleanAbs _ hcs', ← hdp, hsc]
        refine lexSem_sys dp (.mkdtemp _ _) (good_lex (s := .mkdtemp _ _) ?_) _ ?_
        · exact (show LexArg dp (join (47 :: joinSlash cs) tmpName) from
            lexArg_of hc (by rw [hpc]; exact List.prefix_append _ _))
        · intro w _ t ht
          have := mkdtemp_result w _ _ t ht
          rw [this]
          exact (show CleanAbs (join (47 :: joinSlash cs) tmpName) ∧ ∃ x, pathComps (join (47 :: joinSlash cs) tmpName) = dp ++ [x] from
            ⟨hc, tmpName, hpc⟩)
      · rename_i hne
        apply lexSem_pure
        intro t ht
        injection ht with ht
        rcases hst.tmp with h | h
        · exact absurd h hne
        · rw [← ht]; exact h
    · intro mk hmk
      split
      · rename_i t
        obtain ⟨htc, x, hx⟩ := hmk t rfl
        have hjw := join_one_within dp t (base n) x htc hx (base_shape n)
        refine bindL dp _ _ (lex_createTarFile dp (join t (base n)) dest e o (lexArg_of hjw.1 hjw.2) hd hdp htyp) ?_
        intro out _
        split
        · split
          · refine bindL dp _ _ (lex_info dp (.removeAll t) ⟨lexArg_of htc (by rw [hx]; exact List.prefix_append _ _), ?_⟩) ?_
            · rw [hx]
              intro e'
              have := congrArg List.length e'
              simp at this
            · intro _ _
              apply lexSem_pure; intro st' h; cases h
          · apply lexSem_pure; intro st' h; cases h
        · apply lexSem_pure
          intro st' h
          injection h with h
          subst h
          refine ⟨hst.dirs, Or.inr ⟨htc, x, hx⟩, ?_⟩
          intro y hy
          rcases List.mem_cons.mp hy with rfl | hy
          · exact htyp
          · exact hst.staged y (List.mem_filter.mp hy).1
      · apply lexSem_pure; intro st' h; cases h
  · apply lexSem_pure
    intro st' h
    injection h with h
    subst h
    exact hst

theorem lex_resolveSrc (dp : Path) (dest : Str) (st : LState) (e : Entry) (hst : LStOK dp dest st) (he : e.typ ≠ .sym) :
    LexSem dp (fun r => ∀ src, r = .ok src → src.typ ≠ .sym) (resolveSrcP st e) := by
  unfold resolveSrcP
  split
  · simp only
    split
    · apply lexSem_pure; intro src h; cases h
    · rename_i se hf
      have hse : se.typ ≠ .sym := hst.staged _ (List.mem_of_find?_eq_some hf)
      refine bindL dp _ _ (lex_info dp (.readFile _) trivial) ?_
      intro d _
      split
      · apply lexSem_pure
        intro src h
        injection h with h
        rw [← h]; exact hse
      · apply lexSem_pure; intro src h; cases h
  · apply lexSem_pure
    intro src h
    injection h with h
    rw [← h]; exact he

theorem lex_opaqueWalk (dp : Path) (dirS : Str) (unpacked : List Str) (hdr : dp <+: pathComps dirS) :
    ∀ (items : List (Str × Kind × Nat)) (skip : Option Nat),
      (∀ it ∈ items, CleanAbs it.1 ∧ pathComps dirS <+: pathComps it.1 ∧ (it.1 ≠ dirS → pathComps it.1 ≠ pathComps dirS)) →
      LexSem dp (fun _ => True) (opaqueWalkP dirS unpacked items skip)
  | [], _, _ => lexSem_pure dp _ _ trivial
  | (q, k, d) :: rest, skip, h => by
    have hrest : ∀ sk, LexSem dp (fun _ => True) (opaqueWalkP dirS unpacked rest sk) :=
      fun sk => lex_opaqueWalk dp dirS unpacked hdr rest sk (fun it hit => h it (by simp [hit]))
    have hq := h (q, k, d) (by simp)
    have tailcase : LexSem dp (fun _ => True)
        (if q = dirS then opaqueWalkP dirS unpacked rest none
         else if unpacked.contains q = true then opaqueWalkP dirS unpacked rest none
         else do
           let r ← sys (Sys.removeAll q)
           if isErr r = true then pure r else opaqueWalkP dirS unpacked rest (some d)) := by
      by_cases h2 : q = dirS
      · rw [if_pos h2]; exact hrest _
      · rw [if_neg h2]
        by_cases h3 : unpacked.contains q = true
        · rw [if_pos h3]; exact hrest _
        · rw [if_neg h3]
          have hlex : LexArg dp q := lexArg_of hq.1 (hdr.trans hq.2.1)
          have hstrict : pathComps q ≠ dp := by
            intro e
            apply hq.2.2 h2
            have hh1 : pathComps dirS <+: dp := by rw [← e]; exact hq.2.1
            show pathComps q = pathComps dirS
            rw [e]
            exact (prefix_antisymm hdr hh1)
          refine bindL dp _ _ (lex_info dp (.removeAll q) ⟨hlex, hstrict⟩) ?_
          intro r _
          split
          · exact lexSem_pure dp _ _ trivial
          · exact hrest _
    simp only [opaqueWalkP]
    cases skip with
    | none =>
      simp only [Bool.false_eq_true, if_false]
      exact tailcase
    | some sd =>
      simp only
      by_cases h1 : decide (d > sd) = true
      · rw [if_pos h1]; exact hrest _
      · rw [if_neg h1]; exact tailcase

theorem listTree_items (dp : Path) (w : World) (hw : LW dp w) (dr : Str) (hdr : CleanAbs dr)
    (items : List (Str × Kind × Nat)) (h : (step w (.listTree dr)).1 = .tree items) :
    ∀ it ∈ items, CleanAbs it.1 ∧ pathComps dr <+: pathComps it.1 ∧ (it.1 ≠ dr → pathComps it.1 ≠ pathComps dr) := by
  simp only [step] at h
  split at h
  · cases h
  · rename_i q hq
    have hqe : q = pathComps dr := resolve_lexical w hw.inv.root hw.inv.nosym dr false q hdr.no_dotdot hq
    split at h
    · cases h
    · injection h with h
      subst h
      rw [hqe]
      exact listFrom_items w.fs hw.inv.names 64 0 (pathComps dr) dr hdr rfl

theorem lex_whiteoutRemove (dp : Path) (orig : Str) (hl : LexArg dp orig) (hs : pathComps orig ≠ dp) :
    LexSem dp (fun _ => True) (whiteoutRemoveP orig) := by
  unfold whiteoutRemoveP
  refine ⟨good_lex (s := .stat _) trivial, fun w _ => ?_⟩
  by_cases h : notDirRes (step w (Sys.stat (dir orig))).1 = true
  · simp only [h, if_true]; exact trivial
  · simp only [h, if_false]
    exact ⟨good_lex (s := .removeAll _) ⟨hl, hs⟩, fun _ _ => trivial⟩

theorem within_of_isWithin {d t : Str} (hd : CleanAbs d) (ht : CleanAbs t) (h : isWithin d t = true) :
    pathComps d <+: pathComps t := by
  obtain ⟨cd, hcd, rfl⟩ := hd
  obtain ⟨ct, hct, rfl⟩ := ht
  rw [pathComps_cleanAbs cd hcd, pathComps_cleanAbs ct hct]
  exact (isWithin_iff cd ct hcd hct).mp h

/-- **the loop of `UnpackLayer` issues only good calls** (no symbolic-link entries) -/
theorem lex_layerLoop (dp : Path) (dest : Str) (o : Opts) (hd : CleanAbs dest) (hdp : pathComps dest = dp) :
    ∀ (es : List Entry) (st : LState), (∀ e ∈ es, e.typ ≠ .sym) → LStOK dp dest st →
      LexSem dp (fun _ => True) (layerLoop dest o es st)
  | [], st, _, hst => by
    simp only [layerLoop]
    refine bindL dp _ _ (lex_dirTimes dp dest _ (fun e he => hst.dirs e (by simpa using he))) ?_
    intro r _
    exact lex_layerFinish dp dest st r hst
  | e :: es, st0, hsym, hst0 => by
    have hes : e.typ ≠ .sym := hsym e (by simp)
    have hrec : ∀ st', LStOK dp dest st' → LexSem dp (fun _ => True) (layerLoop dest o es st') :=
      fun st' h' => lex_layerLoop dp dest o hd hdp es st' (fun x hx => hsym x (by simp [hx])) h'
    have hst1 : LStOK dp dest { st0 with size := st0.size + e.size } := ⟨hst0.dirs, hst0.tmp, hst0.staged⟩
    simp only [layerLoop]
    split
    · exact hrec _ hst1
    refine bindL dp _ _ (lex_stage dp dest o e _ (clean e.name) hd hdp hst1) ?_
    intro stR hstR
    split
    · exact lex_layerFinish dp dest _ _ hst1
    · rename_i st
      have hst : LStOK dp dest st := hstR st rfl
      have hfin : ∀ out, LexSem dp (fun _ => True) (layerFinish dest st out) := fun out => lex_layerFinish dp dest st out hst
      split
      · exact hrec st hst
      · split
        · exact hfin _
        · rename_i p hg
          obtain ⟨hpe, hpc, hpin⟩ := guardName_ok dest (clean e.name) p hd hg
          rw [hdp] at hpin
          have hp : LexArg dp p := lexArg_of hpc hpin
          have hin' : dp <+: pathComps (join dest (clean e.name)) := by rw [← hpe]; exact hpin
          refine bindL dp _ _ (lex_impliedDirs dp dest e.name o hd hdp hin') ?_
          intro i _
          split
          · exact hfin _
          · split
            · -- whiteout or opaque marker
              have hdrc := dir_cleanAbs hpc
              split
              · exact hfin _
              · rename_i hwdr
                have hwdr' : isWithin dest (dir p) = true := by simpa using hwdr
                have hdrin : dp <+: pathComps (dir p) := by rw [← hdp]; exact within_of_isWithin hd hdrc.1 hwdr'
                split
                · -- opaque: list the directory, remove what this layer did not unpack
                  refine bindL dp _ _ (lex_info dp (.lstat (dir p)) trivial) ?_
                  intro l _
                  split
                  · exact hfin _
                  · refine bindL dp (Q := fun t => ∀ items, t = .tree items → ∀ it ∈ items,
                        CleanAbs it.1 ∧ pathComps (dir p) <+: pathComps it.1 ∧ (it.1 ≠ dir p → pathComps it.1 ≠ pathComps (dir p))) _ _ ?_ ?_
                    · exact lexSem_sys dp (.listTree (dir p)) (good_lex (s := .listTree (dir p)) trivial) _
                        (fun w hw items hit => listTree_items dp w hw (dir p) hdrc.1 items hit)
                    · intro t ht
                      split
                      · rename_i items
                        refine bindL dp _ _ (lex_opaqueWalk dp (dir p) st.unpacked hdrin items none (ht items rfl)) ?_
                        intro wr _
                        split
                        · exact hfin _
                        · exact hrec st hst
                      · exact hrec st hst
                      · exact hfin _
                · -- plain whiteout
                  have horigc : CleanAbs (join (dir p) ((base p).drop whPrefix.length)) := join_cleanAbs _ _ hdrc.1
                  split
                  · exact hfin _
                  · rename_i hwo
                    have hwo' : isWithin dest (join (dir p) ((base p).drop whPrefix.length)) = true := by simpa using hwo
                    split
                    · exact hfin _
                    · rename_i hnd
                      have hoin : dp <+: pathComps (join (dir p) ((base p).drop whPrefix.length)) := by
                        rw [← hdp]; exact within_of_isWithin hd horigc hwo'
                      have hstrict : pathComps (join (dir p) ((base p).drop whPrefix.length)) ≠ dp := by
                        intro e'
                        apply hnd
                        rw [clean_of_cleanAbs dest hd]
                        exact cleanAbs_eq_of_comps horigc hd (by rw [e', hdp])
                      refine bindL dp _ _ (lex_whiteoutRemove dp _ (lexArg_of horigc hoin) hstrict) ?_
                      intro r _
                      split
                      · exact hfin _
                      · split
                        · exact hfin _
                        · exact hrec st hst
            · -- an ordinary entry
              refine bindL dp (Q := fun l => pathComps p = dp → ∀ s, l = .stat s → s.kind = .dir) _ _ ?_ ?_
              · exact lexSem_sys dp (.lstat p) (good_lex (s := .lstat p) trivial) _ (fun w hw hpd s hs => by
                  simp only [step] at hs
                  exact (stat_above dp w hw p false hpc.ne_nil hpc.no_dotdot (by rw [hpd]; exact List.prefix_refl _)).1 s hs)
              · intro l hl
                -- everything after the removal decision
                have tail : LexSem dp (fun _ => True) (do
                    let srcR ← resolveSrcP st e
                    match srcR with
                      | Except.error out => layerFinish dest st out
                      | Except.ok src =>
                        match remapE o src with
                        | none => layerFinish dest st Out.err
                        | some src' => do
                          let out ← createTarFileP p dest src' o
                          if (out != Out.ok) = true then layerFinish dest st out
                            else
                              layerLoop dest o es
                                { st with dirs := (if e.typ == .dir then { e with name := clean e.name } :: st.dirs else st.dirs),
                                          unpacked := p :: st.unpacked }) := by
                  refine bindL dp _ _ (lex_resolveSrc dp dest st e hst hes) ?_
                  intro srcR hsrc
                  split
                  · exact hfin _
                  · rename_i src
                    have hsrct : src.typ ≠ .sym := hsrc src rfl
                    split
                    · exact hfin _
                    · rename_i src' hrm
                      have hty : src'.typ = src.typ := remapE_typ o src src' hrm
                      refine bindL dp _ _ (lex_createTarFile dp p dest src' o hp hd hdp (by rw [hty]; exact hsrct)) ?_
                      intro out _
                      split
                      · exact hfin _
                      · apply hrec
                        refine ⟨?_, hst.tmp, hst.staged⟩
                        intro x hx
                        simp only at hx
                        split at hx
                        · rcases List.mem_cons.mp hx with rfl | hx
                          · simp only; rw [← hpe]; exact hp
                          · exact hst.dirs x hx
                        · exact hst.dirs x hx
                have afterRm : ∀ (rmP : Prog Res), LexSem dp (fun _ => True) rmP →
                    LexSem dp (fun _ => True) (rmP >>= fun rm => if isErr rm = true then layerFinish dest st Out.err else (do
                    let srcR ← resolveSrcP st e
                    match srcR with
                      | Except.error out => layerFinish dest st out
                      | Except.ok src =>
                        match remapE o src with
                        | none => layerFinish dest st Out.err
                        | some src' => do
                          let out ← createTarFileP p dest src' o
                          if (out != Out.ok) = true then layerFinish dest st out
                            else
                              layerLoop dest o es
                                { st with dirs := (if e.typ == .dir then { e with name := clean e.name } :: st.dirs else st.dirs),
                                          unpacked := p :: st.unpacked })) := by
                  intro rmP hrm
                  refine bindL dp _ _ hrm ?_
                  intro rm _
                  split
                  · exact hfin _
                  · exact tail
                cases l with
                | stat s =>
                  simp only
                  by_cases hguard : ((!(s.kind == Kind.dir) || e.typ != Typ.dir) && decide (p = clean dest) && e.typ != Typ.dir) = true
                  · rw [if_pos hguard]; exact hfin _
                  · rw [if_neg hguard]
                    apply afterRm
                    by_cases hneed : (!(s.kind == Kind.dir) || e.typ != Typ.dir) = true
                    · rw [if_pos hneed]
                      have hstrict : pathComps p ≠ dp := by
                        intro hpd
                        have hpeq : p = clean dest := by
                          rw [clean_of_cleanAbs dest hd]
                          exact cleanAbs_eq_of_comps hpc hd (by rw [hpd, hdp])
                        have hk := hl hpd s rfl
                        apply hguard
                        simp only [hk, hpeq] at hneed ⊢
                        simp at hneed ⊢
                        exact hneed
                      exact lex_info dp (.removeAll p) ⟨hp, hstrict⟩
                    · rw [if_neg hneed]; exact lexSem_pure dp _ _ trivial
                | _ =>
                  simp only [Bool.false_and, Bool.false_eq_true, if_false]
                  apply afterRm
                  exact lexSem_pure dp _ _ trivial

/-- `archive.ApplyLayer` (plain) into an absolute destination: every call is good -/
theorem lex_applyLayer (dest : Str) (o : Opts) (es : List Entry) (oldUmask : Nat) (habs : isAbs dest = true)
    (hsym : ∀ e ∈ es, e.typ ≠ .sym) :
    LexSem (pathComps (clean dest)) (fun _ => True) (applyLayerP dest o es oldUmask) := by
  unfold applyLayerP unpackLayerP
  refine bindL _ _ _ (lex_info _ (.setUmask 0) trivial) ?_
  intro _ _
  refine bindL _ (Q := fun _ => True) _ _ ?_ ?_
  · exact lex_layerLoop _ (clean dest) o (clean_cleanAbs dest habs) rfl es {} hsym ⟨by simp, Or.inl rfl, by simp⟩
  · intro r _
    refine bindL _ _ _ (lex_info _ (.setUmask oldUmask) trivial) ?_
    intro _ _
    exact lexSem_pure _ _ _ trivial

end GA
