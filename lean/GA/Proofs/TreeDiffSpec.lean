import GA.M.TreeDiff
/-
  The per-path reference diff (`belowSpec`, `selfSpec`) and the proof that `addChanges` reports
  exactly it, for every pair of trees and every order of the children lists.
-/
namespace GA.TreeDiff
open GA

def NodupNames (l : List Info) : Prop := (l.map Info.name).Nodup

mutual
/-- sibling names are distinct at every level (children come out of a Go map keyed by name) -/
def Info.WF : Info → Prop
  | .mk _ _ ch => NodupNames ch ∧ listWF ch
def listWF : List Info → Prop
  | [] => True
  | c :: cs => c.WF ∧ listWF cs
end

/-- what is reported at the node itself -/
def selfSpec (path : List Str) (info : Info) (old : Option Info) (marked : Bool) (k : CKind) : Prop :=
  (k = .add ∧ old = none) ∨
  (k = .modify ∧ old.isSome = true ∧ dirAt path info.st = true ∧ marked = false ∧ path ≠ [] ∧
     childChanges path info.children (oldKids (dirAt path info.st) old) ≠ [])

/-- the parent's loop reports a matched child as modified when its stat or capability differs -/
def markedOf (oo : Option Info) (n : Info) : Bool :=
  match oo with
  | some o => differs o.st n.st
  | none => false

/-- what is reported strictly below a node, decided by walking the relative path `r` through both
    children lists -/
def belowSpec : List Str → List Info → List Info → List Str → CKind → Prop
  | _, _, _, [], _ => False
  | path, news, olds, c :: r, k =>
    match findChild news c with
    | some n =>
      match r with
      | [] => (k = .modify ∧ markedOf (findChild olds c) n = true) ∨
                selfSpec (path ++ [c]) n (findChild olds c) (markedOf (findChild olds c) n) k
      | _ :: _ => belowSpec (path ++ [c]) n.children (oldKids (dirAt (path ++ [c]) n.st) (findChild olds c)) r k
    | none => (findChild olds c).isSome = true ∧ r = [] ∧ k = .delete

theorem belowSpec_found {path : List Str} {news olds : List Info} {c : Str} {n : Info} (k : CKind)
    (h : findChild news c = some n) :
    belowSpec path news olds [c] k ↔
      ((k = .modify ∧ markedOf (findChild olds c) n = true) ∨
        selfSpec (path ++ [c]) n (findChild olds c) (markedOf (findChild olds c) n) k) := by
  simp only [belowSpec, h]

theorem belowSpec_deep {path : List Str} {news olds : List Info} {c : Str} {n : Info} (c2 : Str) (r2 : List Str) (k : CKind)
    (h : findChild news c = some n) :
    belowSpec path news olds (c :: c2 :: r2) k ↔
      belowSpec (path ++ [c]) n.children (oldKids (dirAt (path ++ [c]) n.st) (findChild olds c)) (c2 :: r2) k := by
  simp only [belowSpec, h]

theorem belowSpec_missing {path : List Str} {news olds : List Info} {c : Str} (r : List Str) (k : CKind)
    (h : findChild news c = none) :
    belowSpec path news olds (c :: r) k ↔ ((findChild olds c).isSome = true ∧ r = [] ∧ k = .delete) := by
  simp only [belowSpec, h]

theorem findChild_cons (c : Info) (cs : List Info) (n : Str) :
    findChild (c :: cs) n = if c.name = n then some c else findChild cs n := by
  simp only [findChild, List.find?_cons]
  by_cases h : c.name = n <;> simp [h]

theorem findChild_name {l : List Info} {n : Str} {o : Info} (h : findChild l n = some o) : o.name = n := by
  have := List.find?_some h
  simpa using this

theorem findChild_mem {l : List Info} {n : Str} {o : Info} (h : findChild l n = some o) : o ∈ l :=
  List.mem_of_find?_eq_some h

theorem findChild_none_of_not_mem {l : List Info} {n : Str} (h : n ∉ l.map Info.name) : findChild l n = none := by
  simp only [findChild, List.find?_eq_none]
  intro x hx
  simp only [decide_eq_true_eq]
  intro e
  exact h (by simp only [List.mem_map]; exact ⟨x, hx, e⟩)

theorem findChild_dropChild_ne (l : List Info) (a n : Str) (h : n ≠ a) :
    findChild (dropChild l a) n = findChild l n := by
  induction l with
  | nil => rfl
  | cons x xs ih =>
    simp only [dropChild, List.filter_cons]
    by_cases hx : x.name = a
    · simp only [hx, decide_true, Bool.not_true, Bool.false_eq_true, if_false]
      rw [findChild_cons, if_neg (by rw [hx]; exact fun e => h e.symm)]
      exact ih
    · simp only [hx, decide_false, Bool.not_false, if_true]
      rw [findChild_cons, findChild_cons]
      split
      · rfl
      · exact ih

theorem findChild_dropChild_self (l : List Info) (a : Str) : findChild (dropChild l a) a = none := by
  simp only [findChild, dropChild, List.find?_eq_none, List.mem_filter]
  intro x hx
  simpa using hx.2

/-- the path of every reported change extends the path of the call -/
theorem mem_singleton_change {q : List Str} {k : CKind} {p : List Str} {k' : CKind} :
    ({ path := q, kind := k } : Change) ∈ [({ path := p, kind := k' } : Change)] ↔ q = p ∧ k = k' := by
  simp

theorem belowSpec_cons_ne (path : List Str) (c : Info) (cs olds : List Info) (c' : Str) (r : List Str) (k : CKind)
    (h : c.name ≠ c') :
    belowSpec path (c :: cs) olds (c' :: r) k ↔ belowSpec path cs (dropChild olds c.name) (c' :: r) k := by
  simp only [belowSpec]
  rw [findChild_cons, if_neg h, findChild_dropChild_ne olds c.name c' (fun e => h e.symm)]

theorem belowSpec_cons_ne' (path : List Str) (c : Info) (cs olds : List Info) (c' : Str) (r : List Str) (k : CKind)
    (h : c.name ≠ c') :
    belowSpec path (c :: cs) olds (c' :: r) k ↔ belowSpec path cs olds (c' :: r) k := by
  simp only [belowSpec]
  rw [findChild_cons, if_neg h]

/-- a reported path in the sub-call for child `c` starts with `c` -/
theorem childHead (path : List Str) (c : Info) (cs olds : List Info) (r : List Str) (k : CKind) :
    belowSpec path (c :: cs) olds (c.name :: r) k ↔
      (match r with
       | [] => (k = .modify ∧ markedOf (findChild olds c.name) c = true) ∨
                 selfSpec (path ++ [c.name]) c (findChild olds c.name) (markedOf (findChild olds c.name) c) k
       | _ :: _ => belowSpec (path ++ [c.name]) c.children
                     (oldKids (dirAt (path ++ [c.name]) c.st) (findChild olds c.name)) r k) := by
  have h : findChild (c :: cs) c.name = some c := by rw [findChild_cons, if_pos rfl]
  cases r with
  | nil => exact belowSpec_found k h
  | cons c2 r2 => exact belowSpec_deep c2 r2 k h

def NodeOK (info : Info) : Prop :=
  ∀ (path : List Str) (old : Option Info) (marked : Bool) (q : List Str) (k : CKind),
    ({ path := q, kind := k } : Change) ∈ addChanges path info old marked ↔
      ((q = path ∧ selfSpec path info old marked k) ∨
       ∃ r, q = path ++ r ∧ belowSpec path info.children (oldKids (dirAt path info.st) old) r k)

def KidsOK (news : List Info) : Prop :=
  ∀ (path : List Str) (olds : List Info) (q : List Str) (k : CKind),
    ({ path := q, kind := k } : Change) ∈ childChanges path news olds ↔
      ∃ r, q = path ++ r ∧ belowSpec path news olds r k

theorem node_step (name : Str) (st : Stat) (ch : List Info) (ih : KidsOK ch) : NodeOK (.mk name st ch) := by
  intro path old marked q k
  have ihk := ih path (oldKids (dirAt path st) old) q k
  rw [addChanges.eq_def]
  simp only [Info.children, Info.st]
  have hseg : ({ path := q, kind := k } : Change) ∈
      ((if old.isNone = true then [({ path := path, kind := CKind.add } : Change)] else []) ++ childChanges path ch (oldKids (dirAt path st) old)) ↔
      ((q = path ∧ k = .add ∧ old = none) ∨ ∃ r, q = path ++ r ∧ belowSpec path ch (oldKids (dirAt path st) old) r k) := by
    rw [List.mem_append, ihk]
    cases old with
    | none => simp
    | some o => simp
  have hempty : ((if old.isNone = true then [({ path := path, kind := CKind.add } : Change)] else []) ++
      childChanges path ch (oldKids (dirAt path st) old)).isEmpty = true ↔
      (old.isSome = true ∧ childChanges path ch (oldKids (dirAt path st) old) = []) := by
    cases old with
    | none => simp
    | some o => simp
  generalize hS : ((if old.isNone = true then [({ path := path, kind := CKind.add } : Change)] else []) ++
      childChanges path ch (oldKids (dirAt path st) old)) = S at hseg hempty
  by_cases hc : (!S.isEmpty && dirAt path st && !(marked || old.isNone) && !path.isEmpty) = true
  · rw [if_pos hc, List.mem_cons, hseg]
    simp only [Bool.and_eq_true, Bool.not_eq_true', Bool.or_eq_false_iff] at hc
    obtain ⟨⟨⟨hne, hd⟩, hm, hon⟩, hp⟩ := hc
    have hsome : old.isSome = true := by cases old <;> simp_all
    have hold : old ≠ none := by cases old <;> simp_all
    have hpne : path ≠ [] := by intro e; simp [e] at hp
    have hchild : childChanges path ch (oldKids (dirAt path st) old) ≠ [] := by
      intro e
      have := hempty.mpr ⟨hsome, e⟩
      rw [this] at hne
      cases hne
    constructor
    · rintro (h | h | h)
      · injection h with h1 h2
        exact Or.inl ⟨h1, Or.inr ⟨h2, hsome, hd, hm, hpne, hchild⟩⟩
      · exact absurd h.2.2 hold
      · exact Or.inr h
    · rintro (⟨hq, hs⟩ | h)
      · rcases hs with ⟨_, ho⟩ | ⟨hk, _⟩
        · exact absurd ho hold
        · exact Or.inl (by rw [hq, hk])
      · exact Or.inr (Or.inr h)
  · rw [if_neg hc, hseg]
    constructor
    · rintro (⟨hq, hk, ho⟩ | h)
      · exact Or.inl ⟨hq, Or.inl ⟨hk, ho⟩⟩
      · exact Or.inr h
    · rintro (⟨hq, hs⟩ | h)
      · rcases hs with ⟨hk, ho⟩ | ⟨hk, hsome, hd, hm, hpne, hchild⟩
        · exact Or.inl ⟨hq, hk, ho⟩
        · exfalso
          apply hc
          have hne : S.isEmpty = false := by
            cases hse : S.isEmpty with
            | false => rfl
            | true => exact absurd (hempty.mp hse).2 hchild
          have hon : old.isNone = false := by cases old <;> simp_all
          have hp : path.isEmpty = false := by cases path <;> simp_all
          have hd' : dirAt path st = true := hd
          simp [hne, hd', hm, hon, hp]
      · exact Or.inr h

theorem kids_nil : KidsOK [] := by
  intro path olds q k
  rw [childChanges.eq_1]
  simp only [List.mem_map]
  constructor
  · rintro ⟨o, ho, he⟩
    injection he with h1 h2
    refine ⟨[o.name], h1.symm, ?_⟩
    rw [belowSpec_missing [] k rfl]
    refine ⟨?_, rfl, h2.symm⟩
    cases hf : findChild olds o.name with
    | some o' => rfl
    | none =>
      simp only [findChild, List.find?_eq_none] at hf
      exact absurd (by simp) (hf o ho)
  · rintro ⟨r, hq, hs⟩
    cases r with
    | nil => exact absurd hs (by simp [belowSpec])
    | cons c r =>
      rw [belowSpec_missing r k rfl] at hs
      obtain ⟨hsome, hr, hk⟩ := hs
      cases ho : findChild olds c with
      | none => rw [ho] at hsome; cases hsome
      | some o =>
        have hn : o.name = c := findChild_name ho
        exact ⟨o, findChild_mem ho, by rw [hq, hr, hk, hn]⟩

theorem kids_cons (c : Info) (cs : List Info) (hc : NodeOK c) (hcs : KidsOK cs)
    (hnew : c.name ∉ cs.map Info.name) : KidsOK (c :: cs) := by
  intro path olds q k
  have hcsnone : findChild cs c.name = none := findChild_none_of_not_mem hnew
  rw [childChanges.eq_2]
  cases ho : findChild olds c.name with
  | some o =>
    simp only
    rw [List.mem_append, List.mem_append, hc, hcs]
    have hmk : markedOf (some o) c = differs o.st c.st := rfl
    constructor
    · rintro ((h | h) | ⟨r, hq, hs⟩)
      · by_cases hd : differs o.st c.st = true
        · rw [if_pos hd, mem_singleton_change] at h
          refine ⟨[c.name], h.1, ?_⟩
          rw [childHead, ho]
          exact Or.inl ⟨h.2, by rw [hmk]; exact hd⟩
        · rw [if_neg hd] at h
          cases h
      · rcases h with ⟨hq, hs⟩ | ⟨r, hq, hs⟩
        · refine ⟨[c.name], hq, ?_⟩
          rw [childHead, ho]
          exact Or.inr (by rw [hmk]; exact hs)
        · cases r with
          | nil => exact absurd hs (by simp [belowSpec])
          | cons c2 r2 =>
            refine ⟨c.name :: c2 :: r2, by rw [hq]; simp, ?_⟩
            rw [childHead, ho]
            exact hs
      · cases r with
        | nil => exact absurd hs (by simp [belowSpec])
        | cons c' r' =>
          by_cases hcc : c.name = c'
          · exfalso
            subst hcc
            rw [belowSpec_missing r' k hcsnone, findChild_dropChild_self] at hs
            cases hs.1
          · exact ⟨c' :: r', hq, (belowSpec_cons_ne path c cs olds c' r' k hcc).mpr hs⟩
    · rintro ⟨r, hq, hs⟩
      cases r with
      | nil => exact absurd hs (by simp [belowSpec])
      | cons c' r' =>
        by_cases hcc : c.name = c'
        · subst hcc
          rw [childHead, ho] at hs
          cases r' with
          | nil =>
            simp only at hs
            rcases hs with ⟨hk, hd⟩ | hs
            · left; left
              rw [hmk] at hd
              rw [if_pos hd, mem_singleton_change]
              exact ⟨hq, hk⟩
            · left; right; left
              exact ⟨hq, by rw [hmk] at hs; exact hs⟩
          | cons c2 r2 =>
            simp only at hs
            left; right; right
            exact ⟨c2 :: r2, by rw [hq]; simp, hs⟩
        · right
          exact ⟨c' :: r', hq, (belowSpec_cons_ne path c cs olds c' r' k hcc).mp hs⟩
  | none =>
    simp only
    rw [List.mem_append, hc, hcs]
    have hmk : markedOf none c = false := rfl
    constructor
    · rintro (h | ⟨r, hq, hs⟩)
      · rcases h with ⟨hq, hs⟩ | ⟨r, hq, hs⟩
        · refine ⟨[c.name], hq, ?_⟩
          rw [childHead, ho]
          exact Or.inr (by rw [hmk]; exact hs)
        · cases r with
          | nil => exact absurd hs (by simp [belowSpec])
          | cons c2 r2 =>
            refine ⟨c.name :: c2 :: r2, by rw [hq]; simp, ?_⟩
            rw [childHead, ho]
            exact hs
      · cases r with
        | nil => exact absurd hs (by simp [belowSpec])
        | cons c' r' =>
          by_cases hcc : c.name = c'
          · exfalso
            subst hcc
            rw [belowSpec_missing r' k hcsnone, ho] at hs
            cases hs.1
          · exact ⟨c' :: r', hq, (belowSpec_cons_ne' path c cs olds c' r' k hcc).mpr hs⟩
    · rintro ⟨r, hq, hs⟩
      cases r with
      | nil => exact absurd hs (by simp [belowSpec])
      | cons c' r' =>
        by_cases hcc : c.name = c'
        · subst hcc
          rw [childHead, ho] at hs
          cases r' with
          | nil =>
            simp only at hs
            rcases hs with ⟨_, hd⟩ | hs
            · rw [hmk] at hd; cases hd
            · left; left
              exact ⟨hq, by rw [hmk] at hs; exact hs⟩
          | cons c2 r2 =>
            simp only at hs
            left; right
            exact ⟨c2 :: r2, by rw [hq]; simp, hs⟩
        · right
          exact ⟨c' :: r', hq, (belowSpec_cons_ne' path c cs olds c' r' k hcc).mp hs⟩

/-- **`addChanges` reports exactly the per-path reference diff**, for every pair of trees whose
    sibling names are distinct, every path prefix, and every order of the children lists -/
theorem main (info : Info) : info.WF → NodeOK info := by
  refine Info.rec (motive_1 := fun info => info.WF → NodeOK info)
    (motive_2 := fun news => NodupNames news → listWF news → KidsOK news) ?_ ?_ ?_ info
  · intro name st ch ihc hwf
    have hwf' : NodupNames ch ∧ listWF ch := by simpa [Info.WF] using hwf
    exact node_step name st ch (ihc hwf'.1 hwf'.2)
  · intro _ _
    exact kids_nil
  · intro c cs ihc ihcs hnd hwf
    have hnd' : c.name ∉ cs.map Info.name ∧ NodupNames cs := by
      simpa [NodupNames, List.nodup_cons] using hnd
    have hwf' : c.WF ∧ listWF cs := by simpa [listWF] using hwf
    exact kids_cons c cs (ihc hwf'.1) (ihcs hnd'.2 hwf'.2) hnd'.1

/-- the children part of the same statement -/
theorem kidsOK_of_WF (n : Info) (h : n.WF) : KidsOK n.children := by
  have key : ∀ news : List Info, NodupNames news → listWF news → KidsOK news := by
    intro news
    induction news with
    | nil => intro _ _; exact kids_nil
    | cons c cs ih =>
      intro hnd hwf
      have hnd' : c.name ∉ cs.map Info.name ∧ NodupNames cs := by
        simpa [NodupNames, List.nodup_cons] using hnd
      have hwf' : c.WF ∧ listWF cs := by simpa [listWF] using hwf
      exact kids_cons c cs (main c hwf'.1) (ih hnd'.2 hwf'.2) hnd'.1
  cases n with
  | mk name st ch =>
    have hw : NodupNames ch ∧ listWF ch := by simpa [Info.WF] using h
    exact key ch hw.1 hw.2

end GA.TreeDiff
