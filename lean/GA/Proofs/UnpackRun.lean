import GA.Proofs.UnpackIter
import GA.Proofs.FrameUnpack
/-
  The loop of `Unpack` as a fold of single iterations over worlds (`loopRun`), with the two invariants every
  iteration keeps: the lexical invariant `LW` and the frame of what the iteration's entry names.
-/
namespace GA

/-- the deferred directory list only ever holds names that passed the guard -/
def DirsOK (dp : Path) (dest : Str) (dirs : List Entry) : Prop := ∀ x ∈ dirs, LexArg dp (join dest x.name)

/-- one iteration issues only good calls (default whiteout format, no symbolic-link entry) -/
theorem lex_iter (dp : Path) (dest : Str) (o : Opts) (hd : CleanAbs dest) (hdp : pathComps dest = dp)
    (hov : o.overlay = false) (e : Entry) (dirs : List Entry) (hes : e.typ ≠ .sym) (hdirs : DirsOK dp dest dirs) :
    LexSem dp (fun r => ∀ d', r = .ok d' → DirsOK dp dest d') (unpackIterP dest o e dirs) := by
  have hsame : ∀ d', (Except.ok dirs : Except Out (List Entry)) = .ok d' → DirsOK dp dest d' := by
    intro d' h; cases h; exact hdirs
  have herr : ∀ (out : Out) d', (Except.error out : Except Out (List Entry)) = .ok d' → DirsOK dp dest d' := by
    intro _ d' h; cases h
  simp only [unpackIterP]
  split
  · exact lexSem_pure dp _ _ hsame
  · split
    · exact lexSem_pure dp _ _ hsame
    · split
      · exact lexSem_pure dp _ _ (herr _)
      · rename_i p hg
        obtain ⟨hpe, hpc, hpin⟩ := guardName_ok dest (clean e.name) p hd hg
        rw [hdp] at hpin
        have hp : LexArg dp p := lexArg_of hpc hpin
        have hin' : dp <+: pathComps (join dest (clean e.name)) := by rw [← hpe]; exact hpin
        refine bindL dp _ _ (lex_impliedDirs dp dest e.name o hd hdp hin') ?_
        intro i _
        split
        · exact lexSem_pure dp _ _ (herr _)
        · refine bindL dp (Q := fun l => pathComps p = dp → ∀ s, l = .stat s → s.kind = .dir) _ _ ?_ ?_
          · exact lexSem_sys dp (.lstat p) (good_lex (s := .lstat p) trivial) _ (fun w hw hpd s hs => by
              simp only [step] at hs
              exact (stat_above dp w hw p false hpc.ne_nil hpc.no_dotdot (by rw [hpd]; exact List.prefix_refl _)).1 s hs)
          · intro l hl
            split
            · exact lexSem_pure dp _ _ (herr _)
            · split
              · exact lexSem_pure dp _ _ hsame
              · refine bindL dp (Q := fun _ => True) _ _ ?_ ?_
                · split
                  · rename_i hact
                    have hstrict : pathComps p ≠ dp := by
                      intro hpd
                      have hpeq : p = dest := cleanAbs_eq_of_comps hpc hd (by rw [hpd, hdp])
                      have hself : (p == clean dest) = true := by
                        rw [clean_of_cleanAbs dest hd, hpeq]; simp
                      unfold actOf at hact
                      cases l with
                      | stat s =>
                        have hk := hl hpd s rfl
                        simp only [hk, hself] at hact
                        simp at hact
                        split at hact <;> simp at hact
                      | _ => simp at hact
                    exact lex_info dp (.removeAll p) ⟨hp, hstrict⟩
                  · exact lexSem_pure dp _ _ trivial
                · intro rm _
                  split
                  · exact lexSem_pure dp _ _ (herr _)
                  · split
                    · exact lexSem_pure dp _ _ (herr _)
                    · rename_i e' he'
                      have hty : e'.typ = e.typ := remapE_typ o e e' he'
                      simp only [hov, Bool.false_eq_true, if_false]
                      refine bindL dp (Q := fun c => c = some true) _ _ (lexSem_pure dp _ _ rfl) ?_
                      intro conv hconv
                      subst hconv
                      simp only
                      refine bindL dp _ _ (lex_createTarFile dp p dest e' o hp hd hdp (by rw [hty]; exact hes)) ?_
                      intro out _
                      split
                      · exact lexSem_pure dp _ _ (herr _)
                      · apply lexSem_pure
                        intro d' hd'
                        cases hd'
                        intro x hx
                        split at hx
                        · rcases List.mem_cons.mp hx with rfl | hx
                          · simp only; rw [← hpe]; exact hp
                          · exact hdirs x hx
                        · exact hdirs x hx

/-- one iteration touches only what its entry names -/
theorem fr_iter (dp : Path) (T : List Path) (fs0 : FS) (dest : Str) (o : Opts) (hd : CleanAbs dest)
    (hov : o.overlay = false) (e : Entry) (dirs : List Entry) (hes : e.typ ≠ .sym)
    (hTe : pathComps (join dest (clean e.name)) ∈ T ∧ (e.typ = .link → pathComps (join dest e.linkname) ∈ T)) :
    FrSem dp T fs0 (fun _ => True) (unpackIterP dest o e dirs) := by
  simp only [unpackIterP]
  split
  · exact frSem_pure dp T fs0 _ _ trivial
  · split
    · exact frSem_pure dp T fs0 _ _ trivial
    · split
      · exact frSem_pure dp T fs0 _ _ trivial
      · rename_i p hg
        obtain ⟨hpe, hpc, _⟩ := guardName_ok dest (clean e.name) p hd hg
        have hp : FArg T p := ⟨by rw [hpe]; exact cov_self hTe.1, hpc.no_dotdot⟩
        refine bindF dp T fs0 _ _ (fr_impliedDirs dp T fs0 dest e.name o hd hTe.1) ?_
        intro i _
        split
        · exact frSem_pure dp T fs0 _ _ trivial
        · refine bindF dp T fs0 _ _ (fr_info dp T fs0 (.lstat p) trivial) ?_
          intro l _
          split
          · exact frSem_pure dp T fs0 _ _ trivial
          · split
            · exact frSem_pure dp T fs0 _ _ trivial
            · refine bindF dp T fs0 (Q := fun _ => True) _ _ ?_ ?_
              · split
                · exact fr_info dp T fs0 (.removeAll p) hp
                · exact frSem_pure dp T fs0 _ _ trivial
              · intro rm _
                split
                · exact frSem_pure dp T fs0 _ _ trivial
                · split
                  · exact frSem_pure dp T fs0 _ _ trivial
                  · rename_i e' he'
                    have hty : e'.typ = e.typ := remapE_typ o e e' he'
                    have hln : e'.linkname = e.linkname := by
                      unfold remapE at he'
                      cases hh : toHostPair o e.uid e.gid with
                      | none => rw [hh] at he'; cases he'
                      | some pr => rw [hh] at he'; simp at he'; rw [← he']
                    simp only [hov, Bool.false_eq_true, if_false]
                    refine bindF dp T fs0 (Q := fun c => c = some true) _ _ (frSem_pure dp T fs0 _ _ rfl) ?_
                    intro conv hconv
                    subst hconv
                    simp only
                    refine bindF dp T fs0 _ _ (fr_createTarFile dp T fs0 p dest e' o hp hd
                      (by rw [hty, hln]; exact hTe.2) (by rw [hty]; exact hes)) ?_
                    intro out _
                    split
                    · exact frSem_pure dp T fs0 _ _ trivial
                    · exact frSem_pure dp T fs0 _ _ trivial

/-- the loop as a fold of iterations over worlds: `.error out` = `Unpack` returned `out` at some entry,
    `.ok dirs` = every entry was processed and `dirs` is the deferred directory list (newest first) -/
def loopRun (dest : Str) (o : Opts) : List Entry → List Entry → World → Except Out (List Entry) × World
  | [], dirs, w => (.ok dirs, w)
  | e :: es, dirs, w =>
    match (unpackIterP dest o e dirs).run w with
    | (.error out, w') => (.error out, w')
    | (.ok d, w') => loopRun dest o es d w'

/-- `Unpack` = the fold of its iterations, then the deferred directory times -/
theorem unpackLoop_run (dest : Str) (o : Opts) : ∀ (es dirs : List Entry) (w : World),
    (unpackLoop dest o es dirs).run w =
      match loopRun dest o es dirs w with
      | (.error out, w') => (out, w')
      | (.ok d, w') => (dirTimesP dest d.reverse).run w'
  | [], dirs, w => by simp only [unpackLoop, loopRun]
  | e :: es, dirs, w => by
    rw [unpackLoop_cons, Prog.run_bind]
    simp only [loopRun]
    cases h : (unpackIterP dest o e dirs).run w with
    | mk r w' =>
      cases r with
      | error out => simp only [iterK]; rfl
      | ok d => simp only [iterK]; exact unpackLoop_run dest o es d w'

theorem touched_cons (dest : Str) (e : Entry) (es : List Entry) :
    touched dest (e :: es) = touched dest [e] ++ touched dest es := by
  simp [touched]

/-- the fold keeps the lexical invariant and the frame of everything the entries name -/
theorem loopRun_frame (dp : Path) (dest : Str) (o : Opts) (hd : CleanAbs dest) (hdp : pathComps dest = dp)
    (hov : o.overlay = false) : ∀ (es dirs : List Entry) (w : World), (∀ e ∈ es, e.typ ≠ .sym) → LW dp w →
    DirsOK dp dest dirs →
    Framed (touched dest es) w.fs (loopRun dest o es dirs w).2.fs ∧ LW dp (loopRun dest o es dirs w).2 ∧
      ∀ d', (loopRun dest o es dirs w).1 = .ok d' → DirsOK dp dest d'
  | [], dirs, w, _, hw, hdirs => ⟨Framed.refl _ _, hw, fun d' h => by simp only [loopRun] at h; cases h; exact hdirs⟩
  | e :: es, dirs, w, hsym, hw, hdirs => by
    have hes : e.typ ≠ .sym := hsym e (by simp)
    have hl := lex_iter dp dest o hd hdp hov e dirs hes hdirs
    have hf := fr_iter dp (touched dest [e]) w.fs dest o hd hov e dirs hes
      ⟨touched_name (by simp), fun ht => touched_link (by simp) ht⟩
    have h1 := FrSem.run dp (touched dest [e]) w.fs hw.inv.fresh _ _ _ w hl hf hw (Framed.refl _ _)
    have h2 := LexSem.run dp _ _ w hl hw
    simp only [loopRun]
    cases h : (unpackIterP dest o e dirs).run w with
    | mk r w' =>
      rw [h] at h1 h2
      cases r with
      | error out =>
        simp only
        rw [touched_cons]
        have := Framed.comp h1.1 (Framed.refl (touched dest es) w'.fs)
        exact ⟨this, h2.2.1, fun d' h => by cases h⟩
      | ok d =>
        simp only
        have ih := loopRun_frame dp dest o hd hdp hov es d w' (fun x hx => hsym x (by simp [hx])) h2.2.1 (h2.2.2 d rfl)
        rw [touched_cons]
        exact ⟨Framed.comp h1.1 ih.1, ih.2⟩

end GA
