import GA.Proofs.LexMkdirAll
/-
  Programs whose every mutating call is lexically beneath the destination, judged along the runs from
  worlds that satisfy the invariant: such a program changes nothing outside the destination.
-/
namespace GA

/-- the destination's proper ancestors are directories that have no second name inside the destination -/
def Chain (dp : Path) (fs : FS) : Prop :=
  ∀ pre, pre <+: dp → pre ≠ dp → ∃ i n, fs.lookup pre = some i ∧ fs.inode i = some n ∧ n.kind = .dir ∧ OutsideOnly dp fs i

theorem not_under_of_proper_prefix {dp pre : Path} (h : pre <+: dp) (hne : pre ≠ dp) : under dp pre = false := by
  cases hu : under dp pre with
  | false => rfl
  | true =>
    exfalso
    simp only [under, List.isPrefixOf_iff_prefix] at hu
    exact hne (prefix_antisymm h hu)

theorem chain_step {dp : Path} {fs fs' : FS} (hc : Chain dp fs) (h : Confined dp fs fs') : Chain dp fs' := by
  intro pre hpre hne
  obtain ⟨i, n, hl, hi, hk, ho⟩ := hc pre hpre hne
  refine ⟨i, n, ?_, ?_, hk, OutsideOnly.step h ho⟩
  · rw [h.names_out pre (not_under_of_proper_prefix hpre hne)]; exact hl
  · rw [h.inode_out i ho]; exact hi

structure LW (dp : Path) (w : World) : Prop where
  inv : LInv dp w
  chain : Chain dp w.fs

theorem LW.chainNames {dp : Path} {w : World} (h : LW dp w) : ChainNames dp w.fs := by
  intro pre hpre
  by_cases he : pre = dp
  · rw [he]; exact h.inv.dest_some
  · obtain ⟨i, _, hl, _⟩ := h.chain pre hpre he
    rw [hl]; rfl

theorem LW.isDir_prefix {dp : Path} {w : World} (h : LW dp w) {pre : Path} (hpre : pre <+: dp) :
    w.fs.isDir pre = true := by
  by_cases he : pre = dp
  · rw [he]; exact h.inv.dest
  · obtain ⟨i, n, hl, hi, hk, _⟩ := h.chain pre hpre he
    rw [isDir_iff]
    exact ⟨n, by rw [get_def, hl]; exact hi, hk⟩

/-- a call is good: lexically confined, or an `os.MkdirAll` on a path at, above or beneath the destination -/
def SysGood (dp : Path) (s : Sys) : Prop :=
  SysLex dp s ∨ ∃ p perm, s = .mkdirAll p perm ∧ dotdot ∉ pathComps p ∧ (dp <+: pathComps p ∨ pathComps p <+: dp)

theorem step_good (dp : Path) (w : World) (s : Sys) (h : LW dp w) (hs : SysGood dp s) :
    Confined dp w.fs (step w s).2.fs ∧ LW dp (step w s).2 := by
  rcases hs with hs | ⟨p, perm, rfl, hdd, hcmp⟩
  · have := step_lex dp w s h.inv hs
    exact ⟨this.1, ⟨this.2, chain_step h.chain this.1⟩⟩
  · have := mkdirAllK_lex dp (p.length + 1) w p perm h.inv h.chainNames hdd hcmp
    simp only [step]
    exact ⟨this.1.1, ⟨this.1.2, chain_step h.chain this.1.1⟩⟩

/-- every call the program makes from a world satisfying the invariant is good, and every result
    it can return satisfies `Q` -/
def LexSem (dp : Path) {α : Type} (Q : α → Prop) : Prog α → Prop
  | .ret a => Q a
  | .call s k => SysGood dp s ∧ ∀ w, LW dp w → LexSem dp Q (k (step w s).1)

theorem LexSem.run {α : Type} (dp : Path) (Q : α → Prop) : ∀ (p : Prog α) (w : World), LexSem dp Q p → LW dp w →
    Confined dp w.fs (p.run w).2.fs ∧ LW dp (p.run w).2 ∧ Q (p.run w).1
  | .ret a, w, h, hw => ⟨Confined.refl _ _, hw, h⟩
  | .call s k, w, h, hw => by
    have hs := step_good dp w s hw h.1
    have := LexSem.run dp Q (k (step w s).1) (step w s).2 (h.2 w hw) hs.2
    exact ⟨Confined.trans hs.1 this.1, this.2⟩

theorem LexSem.bind {α β : Type} (dp : Path) {Q : α → Prop} {R : β → Prop} :
    ∀ (m : Prog α) (f : α → Prog β), LexSem dp Q m → (∀ a, Q a → LexSem dp R (f a)) → LexSem dp R (m.bind f)
  | .ret a, f, hm, hf => hf a hm
  | .call s k, f, hm, hf => ⟨hm.1, fun w hw => LexSem.bind dp (k (step w s).1) f (hm.2 w hw) hf⟩

theorem LexSem.mono {α : Type} (dp : Path) {Q R : α → Prop} (h : ∀ a, Q a → R a) :
    ∀ (p : Prog α), LexSem dp Q p → LexSem dp R p
  | .ret a, hp => h a hp
  | .call s k, hp => ⟨hp.1, fun w hw => LexSem.mono dp h (k (step w s).1) (hp.2 w hw)⟩

theorem lexSem_pure {α : Type} (dp : Path) (Q : α → Prop) (a : α) (h : Q a) : LexSem dp Q (pure a : Prog α) := h

theorem bindL {α β : Type} (dp : Path) {Q : α → Prop} {R : β → Prop} (m : Prog α) (f : α → Prog β)
    (hm : LexSem dp Q m) (hf : ∀ a, Q a → LexSem dp R (f a)) : LexSem dp R (m >>= f) := LexSem.bind dp m f hm hf

/-- a single good call; the continuation may use that the result comes from a world with the invariant -/
theorem lexSem_sys (dp : Path) (s : Sys) (hs : SysGood dp s) (Q : Res → Prop)
    (hq : ∀ w, LW dp w → Q (step w s).1) : LexSem dp Q (sys s) :=
  ⟨hs, fun w hw => hq w hw⟩

end GA
