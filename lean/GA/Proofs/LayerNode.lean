import GA.Proofs.LayerReg
import GA.Proofs.UnpackNode
/-
  One iteration of `UnpackLayer` for a device or fifo entry (outside a user namespace).
-/
namespace GA

theorem iterL_node_post (dp : Path) (dest : Str) (o : Opts) (hd : CleanAbs dest) (hdp : pathComps dest = dp)
    (huns : o.inUserNS = false) (e : Entry) (st : LState) (w : World) (hw : LW dp w)
    (hnode : e.typ = .chr ∨ e.typ = .blk ∨ e.typ = .fifo)
    (hmeta : hasPrefix (clean e.name) whMetaPrefix = false)
    (hnwh : hasPrefix (base (join dest (clean e.name))) whPrefix = false)
    (hne : pathComps (join dest (clean e.name)) ≠ dp)
    (st' : LState) (w' : World) (hrun : (layerIterP dest o e st).run w = (.ok st', w')) :
    st'.dirs = st.dirs ∧ LW dp w' ∧ ∃ e' i n, remapE o e = some e' ∧
      w'.fs.lookup (pathComps (join dest (clean e.name))) = some i ∧
      (∀ q, w'.fs.lookup q = some i → q = pathComps (join dest (clean e.name))) ∧
      w'.fs.inode i = some n ∧ NodeFinal e' o n := by
  have hnx' : (e.typ == .xglobal) = false := by rcases hnode with h | h | h <;> rw [h] <;> rfl
  have hnd : (e.typ == .dir) = false := by rcases hnode with h | h | h <;> rw [h] <;> rfl
  have hnl : (e.typ == .link) = false := by rcases hnode with h | h | h <;> rw [h] <;> rfl
  have hnr : (e.typ == .reg) = false := by rcases hnode with h | h | h <;> rw [h] <;> rfl
  simp only [layerIterP, hnx', stageP, hmeta, Bool.false_and, Bool.false_eq_true, if_false] at hrun
  rw [Prog.bind_eq, Prog.run_bind] at hrun
  simp only [Prog.run, pure] at hrun
  cases hg : guardName dest (clean e.name) with
  | error out => rw [hg] at hrun; simp only [Prog.run, pure] at hrun; cases hrun
  | ok p =>
    rw [hg] at hrun
    simp only at hrun
    obtain ⟨hpe, hpc, hpin⟩ := guardName_ok dest (clean e.name) p hd hg
    rw [hdp] at hpin
    have hp : LexArg dp p := lexArg_of hpc hpin
    have hin' : dp <+: pathComps (join dest (clean e.name)) := by rw [← hpe]; exact hpin
    have hpne : pathComps p ≠ dp := by rw [hpe]; exact hne
    have hpnd : p ≠ clean dest := by
      intro h; apply hpne; rw [h, clean_of_cleanAbs dest hd, hdp]
    rw [← hpe]
    rw [← hpe] at hnwh
    rw [Prog.bind_eq, Prog.run_bind] at hrun
    have hI := LexSem.run dp _ _ w (lex_impliedDirs dp dest e.name o hd hdp hin') hw
    generalize hi1 : (impliedDirsP dest (clean e.name) o).run w = r1 at hrun hI
    obtain ⟨i1, w1⟩ := r1
    simp only at hrun hI
    have hw1 : LW dp w1 := hI.2.1
    by_cases hie : isErr i1 = true
    · simp only [hie, if_true, Prog.run, pure] at hrun; cases hrun
    · simp only [hie, Bool.false_eq_true, if_false, hnwh] at hrun
      rw [run_sys_bind, lstat_world] at hrun
      generalize hL : (step w1 (Sys.lstat p)).1 = L at hrun
      simp only [hpnd, decide_false, Bool.and_false, Bool.false_and, Bool.false_eq_true, if_false] at hrun
      rw [Prog.bind_eq, Prog.run_bind] at hrun
      have hmid : ∃ rm w2, (if needRmL L e = true then sys (Sys.removeAll p) else Prog.ret Res.ok).run w1 = (rm, w2) ∧
          LW dp w2 := by
        by_cases ha3 : needRmL L e = true
        · simp only [ha3, if_true]
          exact ⟨_, _, rfl, (step_good dp w1 (.removeAll p) hw1 (good_lex (s := .removeAll p) ⟨hp, hpne⟩)).2⟩
        · simp only [ha3, Bool.false_eq_true, if_false]
          exact ⟨.ok, w1, rfl, hw1⟩
      obtain ⟨rm, w2, hrm, hw2⟩ := hmid
      rw [hrm] at hrun
      simp only at hrun
      by_cases hre : isErr rm = true
      · simp only [hre, if_true, Prog.run, pure] at hrun; cases hrun
      · simp only [hre, Bool.false_eq_true, if_false] at hrun
        simp only [layerTailP, resolveSrcP, hnl, Bool.false_and, Bool.false_eq_true, if_false] at hrun
        rw [Prog.bind_eq, Prog.run_bind] at hrun
        simp only [Prog.run, pure] at hrun
        cases hrem : remapE o e with
        | none => rw [hrem] at hrun; simp only [Prog.run, pure] at hrun; cases hrun
        | some e' =>
          rw [hrem] at hrun
          simp only at hrun
          have hty : e'.typ = e.typ := remapE_typ o e e' hrem
          rw [Prog.bind_eq, Prog.run_bind] at hrun
          simp only [hnd, Bool.false_eq_true, if_false] at hrun
          by_cases hout : ((createTarFileP p dest e' o).run w2).1 = .ok
          · simp only [hout, show (Out.ok != Out.ok) = false from rfl, Bool.false_eq_true, if_false, Prog.run, pure] at hrun
            injection hrun with h1 h2
            injection h1 with h1
            subst h2
            obtain ⟨hw3, hnames, n, hi, hfin⟩ := createTarFile_node_any dp p dest e' o hp (by rw [hty]; exact hnode) huns w2 hw2 hout
            refine ⟨by rw [← h1], hw3, e', w2.fs.next, n, rfl, by rw [hnames, if_pos rfl], ?_, hi, hfin⟩
            intro q hq
            rw [hnames q] at hq
            by_cases hqp : q = pathComps p
            · exact hqp
            · rw [if_neg hqp] at hq
              exact absurd (hw2.inv.fresh q _ hq) (Nat.lt_irrefl _)
          · exfalso
            cases hout' : ((createTarFileP p dest e' o).run w2).1 with
            | ok => exact hout hout'
            | err => simp only [hout', show (Out.err != Out.ok) = true from rfl, if_true, Prog.run, pure] at hrun; cases hrun
            | breakout => simp only [hout', show (Out.breakout != Out.ok) = true from rfl, if_true, Prog.run, pure] at hrun; cases hrun

end GA
