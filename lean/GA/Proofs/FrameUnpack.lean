import GA.Proofs.FrameProg
import GA.Proofs.LexUnpack
/-
  The plain extractor and the frame: every mutating call of `unpackP` names the path of an entry (or the
  source of a hard-link entry), a directory on the way to it that it found missing, or something beneath.
-/
namespace GA

theorem fr_true {α : Type} (dp : Path) (T : List Path) (fs0 : FS) {Q : α → Prop} (p : Prog α)
    (h : FrSem dp T fs0 Q p) : FrSem dp T fs0 (fun _ => True) p := FrSem.mono dp T fs0 (fun _ _ => trivial) p h

theorem fr_setPermissions (dp : Path) (T : List Path) (fs0 : FS) (p : Str) (mode : Nat) (owner : Option (Nat × Nat))
    (hp : MArg T fs0 p) : FrSem dp T fs0 (fun _ => True) (setPermissionsP p mode owner) := by
  unfold setPermissionsP
  refine bindF dp T fs0 _ _ (fr_info dp T fs0 (.stat p) trivial) ?_
  intro r _
  split
  · refine bindF dp T fs0 (Q := fun _ => True) _ _ ?_ ?_
    · split
      · exact fr_info dp T fs0 _ hp
      · exact frSem_pure dp T fs0 _ _ trivial
    · intro c _
      split
      · exact frSem_pure dp T fs0 _ _ trivial
      · split
        · exact frSem_pure dp T fs0 _ _ trivial
        · split
          · exact frSem_pure dp T fs0 _ _ trivial
          · exact fr_info dp T fs0 _ hp
  · exact frSem_pure dp T fs0 _ _ trivial

theorem fr_setAll (dp : Path) (T : List Path) (fs0 : FS) (mode : Nat) (owner : Option (Nat × Nat)) : ∀ (ps : List Str),
    (∀ p ∈ ps, MArg T fs0 p) → FrSem dp T fs0 (fun _ => True) (setAll mode owner ps)
  | [], _ => frSem_pure dp T fs0 _ _ trivial
  | p :: ps, h => by
    simp only [setAll]
    refine bindF dp T fs0 _ _ (fr_setPermissions dp T fs0 p mode owner (h p (by simp))) ?_
    intro r _
    split
    · exact frSem_pure dp T fs0 _ _ trivial
    · exact fr_setAll dp T fs0 mode owner ps (fun q hq => h q (by simp [hq]))

theorem fr_missingOf (dp : Path) (T : List Path) (fs0 : FS) : ∀ (ds : List Str), (∀ d ∈ ds, CleanAbs d) →
    FrSem dp T fs0 (fun ms => ∀ m ∈ ms, MArg T fs0 m) (missingOf ds)
  | [], _ => frSem_pure dp T fs0 _ _ (by simp)
  | d :: ds, h => by
    simp only [missingOf]
    refine bindF dp T fs0 (Q := fun r => isENOENT r = true → MArg T fs0 d) _ _ ?_ ?_
    · exact frSem_sys dp T fs0 (.stat d) trivial _ (fun w hw hf => by
        simp only [step]; exact stat_enoent_marg dp T fs0 w hw hf d true (h d (by simp)))
    · intro r hr
      refine bindF dp T fs0 _ _ (fr_missingOf dp T fs0 ds (fun x hx => h x (by simp [hx]))) ?_
      intro rest hrest
      apply frSem_pure
      intro m hm
      split at hm
      · rcases List.mem_cons.mp hm with rfl | hm
        · exact hr (by assumption)
        · exact hrest m hm
      · exact hrest m hm

theorem fr_mkdirAllAndChown (dp : Path) (T : List Path) (fs0 : FS) (path0 : Str) (mode : Nat) (owner : Option (Nat × Nat))
    (hp : CleanAbs path0) (hca : CovAnc T (pathComps path0)) :
    FrSem dp T fs0 (fun _ => True) (mkdirAllAndChownP path0 mode owner) := by
  unfold mkdirAllAndChownP
  have hcl : clean path0 = path0 := clean_of_cleanAbs _ hp
  simp only [hcl]
  refine bindF dp T fs0 (Q := fun r => isENOENT r = true → MArg T fs0 path0) _ _ ?_ ?_
  · exact frSem_sys dp T fs0 (.stat path0) trivial _ (fun w hw hf => by
      simp only [step]; exact stat_enoent_marg dp T fs0 w hw hf path0 true hp)
  · intro r hr
    split
    · split <;> exact frSem_pure dp T fs0 _ _ trivial
    · have hanc : ∀ d ∈ ancestorsOf path0.length path0, CleanAbs d :=
        fun d hd => (ancestorsOf_spec _ _ hp d hd).1
      refine bindF dp T fs0 _ _ (fr_missingOf dp T fs0 _ hanc) ?_
      intro missing hmiss
      refine bindF dp T fs0 (Q := fun _ => True) _ _ ?_ ?_
      · exact fr_info dp T fs0 (.mkdirAll path0 mode) ⟨hca, hp.no_dotdot⟩
      · intro m _
        split
        · exact frSem_pure dp T fs0 _ _ trivial
        · apply fr_setAll
          intro p hpm
          rcases List.mem_append.mp hpm with h1 | h1
          · split at h1
            · rw [List.mem_singleton] at h1; rw [h1]; exact hr (by assumption)
            · cases h1
          · exact hmiss p h1

theorem cov_self {T : List Path} {p : Path} (h : p ∈ T) : Cov T p := ⟨p, h, List.prefix_refl _⟩

theorem fr_impliedDirs (dp : Path) (T : List Path) (fs0 : FS) (dest x : Str) (o : Opts) (hd : CleanAbs dest)
    (hin : pathComps (join dest (clean x)) ∈ T) :
    FrSem dp T fs0 (fun _ => True) (impliedDirsP dest (clean x) o) := by
  unfold impliedDirsP
  split
  · exact frSem_pure dp T fs0 _ _ trivial
  · have hc := implied_parent_comparable dest x hd
    have hca : CovAnc T (pathComps (join dest (dir (clean x)))) := by
      rcases hc.2.2 with h | h
      · exact Or.inr ⟨_, hin, h⟩
      · exact Or.inl ⟨_, hin, h⟩
    refine bindF dp T fs0 _ _ (fr_info dp T fs0 (.lstat _) trivial) ?_
    intro r _
    split
    · exact fr_mkdirAllAndChown dp T fs0 _ _ _ hc.1 hca
    · exact frSem_pure dp T fs0 _ _ trivial

theorem fr_setXattrs (dp : Path) (T : List Path) (fs0 : FS) (path : Str) (best : Bool) (hp : FArg T path) :
    ∀ (xs : List (Str × List UInt8)), FrSem dp T fs0 (fun _ => True) (setXattrsP path best xs)
  | [] => frSem_pure dp T fs0 _ _ trivial
  | (k, v) :: rest => by
    simp only [setXattrsP]
    refine bindF dp T fs0 _ _ (fr_info dp T fs0 (.setxattr path k v false) hp.toM) ?_
    intro r _
    split
    · exact frSem_pure dp T fs0 _ _ trivial
    · exact fr_setXattrs dp T fs0 path best hp rest

theorem fr_applyMeta (dp : Path) (T : List Path) (fs0 : FS) (path : Str) (e : Entry) (o : Opts) (hp : FArg T path) :
    FrSem dp T fs0 (fun _ => True) (applyMetaP path e o) := by
  unfold applyMetaP
  refine bindF dp T fs0 (Q := fun _ => True) _ _ ?_ ?_
  · split
    · exact frSem_pure dp T fs0 _ _ trivial
    · exact fr_info dp T fs0 (.chown path _ _ false) hp.toM
  · intro c _
    split
    · exact frSem_pure dp T fs0 _ _ trivial
    · refine bindF dp T fs0 _ _ (fr_setXattrs dp T fs0 path _ hp _) ?_
      intro x _
      split
      · exact frSem_pure dp T fs0 _ _ trivial
      · refine bindF dp T fs0 (Q := fun _ => True) _ _ ?_ ?_
        · split
          · refine bindF dp T fs0 _ _ (fr_info dp T fs0 (.lstat path) trivial) ?_
            intro l _
            split
            · exact fr_info dp T fs0 (.chmod path _) hp.toM
            · exact frSem_pure dp T fs0 _ _ trivial
          · split
            · exact fr_info dp T fs0 (.chmod path _) hp.toM
            · exact frSem_pure dp T fs0 _ _ trivial
        · intro m _
          split
          · exact frSem_pure dp T fs0 _ _ trivial
          · refine bindF dp T fs0 (Q := fun _ => True) _ _ ?_ ?_
            · split
              · refine bindF dp T fs0 _ _ (fr_info dp T fs0 (.lstat path) trivial) ?_
                intro l _
                split
                · exact fr_info dp T fs0 (.utimes path _ true) hp.toM
                · exact frSem_pure dp T fs0 _ _ trivial
              · split
                · exact fr_info dp T fs0 (.utimes path _ true) hp.toM
                · exact fr_info dp T fs0 (.utimes path _ false) hp.toM
            · intro u _
              split
              · exact frSem_pure dp T fs0 _ _ trivial
              · exact frSem_pure dp T fs0 _ _ trivial

theorem fr_createTarFile (dp : Path) (T : List Path) (fs0 : FS) (path xd : Str) (e : Entry) (o : Opts) (hp : FArg T path)
    (hxd : CleanAbs xd) (hlink : e.typ = .link → pathComps (join xd e.linkname) ∈ T) (hsym : e.typ ≠ .sym) :
    FrSem dp T fs0 (fun _ => True) (createTarFileP path xd e o) := by
  unfold createTarFileP
  split
  · refine bindF dp T fs0 _ _ (fr_info dp T fs0 (.lstat path) trivial) ?_
    intro l _
    split
    · exact fr_applyMeta dp T fs0 path e o hp
    · refine bindF dp T fs0 _ _ (fr_info dp T fs0 (.mkdir path _) hp.toC) ?_
      intro r _
      split
      · exact frSem_pure dp T fs0 _ _ trivial
      · exact fr_applyMeta dp T fs0 path e o hp
  · refine bindF dp T fs0 _ _ (fr_info dp T fs0 (.createWrite path _ _) hp) ?_
    intro r _
    split
    · exact frSem_pure dp T fs0 _ _ trivial
    · split
      · exact frSem_pure dp T fs0 _ _ trivial
      · exact fr_applyMeta dp T fs0 path e o hp
  · split
    · exact frSem_pure dp T fs0 _ _ trivial
    · refine bindF dp T fs0 _ _ (fr_info dp T fs0 (.mknod path _ _ _) hp.toC) ?_
      intro r _
      split
      · exact frSem_pure dp T fs0 _ _ trivial
      · exact fr_applyMeta dp T fs0 path e o hp
  · split
    · exact frSem_pure dp T fs0 _ _ trivial
    · refine bindF dp T fs0 _ _ (fr_info dp T fs0 (.mknod path _ _ _) hp.toC) ?_
      intro r _
      split
      · exact frSem_pure dp T fs0 _ _ trivial
      · exact fr_applyMeta dp T fs0 path e o hp
  · refine bindF dp T fs0 _ _ (fr_info dp T fs0 (.mknod path .fifo _ _) hp.toC) ?_
    intro r _
    split
    · split <;> exact frSem_pure dp T fs0 _ _ trivial
    · exact fr_applyMeta dp T fs0 path e o hp
  · rename_i hty
    simp only
    split
    · exact frSem_pure dp T fs0 _ _ trivial
    · have ht : CleanAbs (join xd e.linkname) := join_cleanAbs xd _ hxd
      have hsrc : FArg T (join xd e.linkname) := ⟨cov_self (hlink hty), ht.no_dotdot⟩
      refine bindF dp T fs0 _ _ (fr_info dp T fs0 (.link _ path) ⟨hsrc.toM, hp.toC⟩) ?_
      intro r _
      split
      · exact frSem_pure dp T fs0 _ _ trivial
      · exact fr_applyMeta dp T fs0 path e o hp
  · rename_i hs
    exact absurd hs hsym
  · exact frSem_pure dp T fs0 _ _ trivial
  · exact frSem_pure dp T fs0 _ _ trivial

theorem fr_dirTimes (dp : Path) (T : List Path) (fs0 : FS) (dest : Str) : ∀ (es : List Entry),
    (∀ e ∈ es, FArg T (join dest e.name)) → FrSem dp T fs0 (fun _ => True) (dirTimesP dest es)
  | [], _ => frSem_pure dp T fs0 _ _ trivial
  | e :: es, h => by
    simp only [dirTimesP]
    refine bindF dp T fs0 _ _ (fr_info dp T fs0 (.lstat _) trivial) ?_
    intro l _
    split
    · exact fr_dirTimes dp T fs0 dest es (fun x hx => h x (by simp [hx]))
    · refine bindF dp T fs0 _ _ (fr_info dp T fs0 (.utimes _ _ true) (h e (by simp)).toM) ?_
      intro r _
      split
      · exact frSem_pure dp T fs0 _ _ trivial
      · exact fr_dirTimes dp T fs0 dest es (fun x hx => h x (by simp [hx]))

/-- the paths an archive names: the path of every entry and the source of every hard-link entry -/
def touched (dest : Str) (es : List Entry) : List Path :=
  es.flatMap (fun e => pathComps (join dest (clean e.name)) ::
    (if e.typ = .link then [pathComps (join dest e.linkname)] else []))

theorem touched_name {dest : Str} {es : List Entry} {e : Entry} (h : e ∈ es) :
    pathComps (join dest (clean e.name)) ∈ touched dest es := by
  unfold touched
  exact List.mem_flatMap.mpr ⟨e, h, by simp⟩

theorem touched_link {dest : Str} {es : List Entry} {e : Entry} (h : e ∈ es) (ht : e.typ = .link) :
    pathComps (join dest e.linkname) ∈ touched dest es := by
  unfold touched
  exact List.mem_flatMap.mpr ⟨e, h, by simp [ht]⟩

/-- **the loop of `Unpack` touches only what the archive names** (default whiteout format, no
    symbolic-link entries) -/
theorem fr_unpackLoop (dp : Path) (T : List Path) (fs0 : FS) (dest : Str) (o : Opts) (hd : CleanAbs dest)
    (hov : o.overlay = false) : ∀ (es dirs : List Entry), (∀ e ∈ es, e.typ ≠ .sym) →
    (∀ e ∈ es, pathComps (join dest (clean e.name)) ∈ T ∧ (e.typ = .link → pathComps (join dest e.linkname) ∈ T)) →
    (∀ e ∈ dirs, FArg T (join dest e.name)) → FrSem dp T fs0 (fun _ => True) (unpackLoop dest o es dirs)
  | [], dirs, _, _, hdirs => by
    simp only [unpackLoop]
    exact fr_dirTimes dp T fs0 dest _ (fun e he => hdirs e (by simpa using he))
  | e :: es, dirs, hsym, hT, hdirs => by
    have hrec : ∀ dirs', (∀ x ∈ dirs', FArg T (join dest x.name)) →
        FrSem dp T fs0 (fun _ => True) (unpackLoop dest o es dirs') :=
      fun dirs' h' => fr_unpackLoop dp T fs0 dest o hd hov es dirs' (fun x hx => hsym x (by simp [hx]))
        (fun x hx => hT x (by simp [hx])) h'
    have hes : e.typ ≠ .sym := hsym e (by simp)
    have hTe := hT e (by simp)
    simp only [unpackLoop]
    split
    · exact hrec dirs hdirs
    · split
      · exact hrec dirs hdirs
      · split
        · exact frSem_pure dp T fs0 _ _ trivial
        · rename_i p hg
          obtain ⟨hpe, hpc, _⟩ := guardName_ok dest (clean e.name) p hd hg
          have hp : FArg T p := ⟨by rw [hpe]; exact cov_self hTe.1, hpc.no_dotdot⟩
          refine bindF dp T fs0 _ _ (fr_impliedDirs dp T fs0 dest e.name o hd hTe.1) ?_
          intro i _
          split
          · exact frSem_pure dp T fs0 _ _ trivial
          · refine bindF dp T fs0 _ _ (fr_info dp T fs0 (.lstat p) trivial) ?_
            intro l _
            split
            · exact frSem_pure dp T fs0 _ _ trivial
            · split
              · exact hrec dirs hdirs
              · refine bindF dp T fs0 (Q := fun _ => True) _ _ ?_ ?_
                · split
                  · exact fr_info dp T fs0 (.removeAll p) hp
                  · exact frSem_pure dp T fs0 _ _ trivial
                · intro rm _
                  split
                  · exact frSem_pure dp T fs0 _ _ trivial
                  · split
                    · exact frSem_pure dp T fs0 _ _ trivial
                    · rename_i e' he'
                      have hty : e'.typ = e.typ := remapE_typ o e e' he'
                      have hln : e'.linkname = e.linkname := by
                        unfold remapE at he'
                        cases hh : toHostPair o e.uid e.gid with
                        | none => rw [hh] at he'; cases he'
                        | some pr => rw [hh] at he'; simp at he'; rw [← he']
                      simp only [hov, Bool.false_eq_true, if_false]
                      refine bindF dp T fs0 (Q := fun c => c = some true) _ _ (frSem_pure dp T fs0 _ _ rfl) ?_
                      intro conv hconv
                      subst hconv
                      simp only
                      refine bindF dp T fs0 _ _ (fr_createTarFile dp T fs0 p dest e' o hp hd
                        (by rw [hty, hln]; exact hTe.2) (by rw [hty]; exact hes)) ?_
                      intro out _
                      split
                      · exact frSem_pure dp T fs0 _ _ trivial
                      · apply hrec
                        intro x hx
                        split at hx
                        · rcases List.mem_cons.mp hx with rfl | hx
                          · simp only; rw [← hpe]; exact hp
                          · exact hdirs x hx
                        · exact hdirs x hx

theorem fr_untar (fs0 : FS) (dest : Str) (o : Opts) (es : List Entry) (habs : isAbs dest = true) (hov : o.overlay = false)
    (hsym : ∀ e ∈ es, e.typ ≠ .sym) :
    FrSem (pathComps (clean dest)) (touched (clean dest) es) fs0 (fun _ => True) (untarP dest o es) := by
  unfold untarP unpackP
  exact fr_unpackLoop _ _ fs0 (clean dest) o (clean_cleanAbs dest habs) hov es [] hsym
    (fun e he => ⟨touched_name he, touched_link he⟩) (by simp)

end GA
