import GA.Proofs.FrameStep
import GA.Proofs.WhiteoutPost
/-
  Programs and the frame: `FrSem` — along the runs from worlds that satisfy the lexical invariant and the
  frame, every call the program makes is covered.  Together with `LexSem` (every call is lexically beneath
  the destination) the run keeps the frame.
-/
namespace GA

def FrSem (dp : Path) (T : List Path) (fs0 : FS) {α : Type} (Q : α → Prop) : Prog α → Prop
  | .ret a => Q a
  | .call s k => SysFr T fs0 s ∧ ∀ w, LW dp w → Framed T fs0 w.fs → FrSem dp T fs0 Q (k (step w s).1)

theorem FrSem.run {α : Type} (dp : Path) (T : List Path) (fs0 : FS) (h0 : NextFresh fs0) (Q R : α → Prop) :
    ∀ (p : Prog α) (w : World), LexSem dp Q p → FrSem dp T fs0 R p → LW dp w → Framed T fs0 w.fs →
    Framed T fs0 (p.run w).2.fs ∧ R (p.run w).1
  | .ret a, w, _, hr, _, hf => ⟨hf, hr⟩
  | .call s k, w, hl, hr, hw, hf => by
    have hs := step_good dp w s hw hl.1
    have hf' := step_good_frame dp T fs0 h0 w s hw hl.1 hf hr.1
    exact FrSem.run dp T fs0 h0 Q R (k (step w s).1) (step w s).2 (hl.2 w hw) (hr.2 w hw hf) hs.2 hf'

theorem FrSem.bind {α β : Type} (dp : Path) (T : List Path) (fs0 : FS) {Q : α → Prop} {R : β → Prop} :
    ∀ (m : Prog α) (f : α → Prog β), FrSem dp T fs0 Q m → (∀ a, Q a → FrSem dp T fs0 R (f a)) →
      FrSem dp T fs0 R (m.bind f)
  | .ret a, f, hm, hf => hf a hm
  | .call s k, f, hm, hf => ⟨hm.1, fun w hw hfr => FrSem.bind dp T fs0 (k (step w s).1) f (hm.2 w hw hfr) hf⟩

theorem FrSem.mono {α : Type} (dp : Path) (T : List Path) (fs0 : FS) {Q R : α → Prop} (h : ∀ a, Q a → R a) :
    ∀ (p : Prog α), FrSem dp T fs0 Q p → FrSem dp T fs0 R p
  | .ret a, hp => h a hp
  | .call s k, hp => ⟨hp.1, fun w hw hf => FrSem.mono dp T fs0 h (k (step w s).1) (hp.2 w hw hf)⟩

theorem frSem_pure {α : Type} (dp : Path) (T : List Path) (fs0 : FS) (Q : α → Prop) (a : α) (h : Q a) :
    FrSem dp T fs0 Q (pure a : Prog α) := h

theorem bindF {α β : Type} (dp : Path) (T : List Path) (fs0 : FS) {Q : α → Prop} {R : β → Prop} (m : Prog α)
    (f : α → Prog β) (hm : FrSem dp T fs0 Q m) (hf : ∀ a, Q a → FrSem dp T fs0 R (f a)) :
    FrSem dp T fs0 R (m >>= f) := FrSem.bind dp T fs0 m f hm hf

theorem frSem_sys (dp : Path) (T : List Path) (fs0 : FS) (s : Sys) (hs : SysFr T fs0 s) (Q : Res → Prop)
    (hq : ∀ w, LW dp w → Framed T fs0 w.fs → Q (step w s).1) : FrSem dp T fs0 Q (sys s) :=
  ⟨hs, fun w hw hf => hq w hw hf⟩

theorem fr_info (dp : Path) (T : List Path) (fs0 : FS) (s : Sys) (hs : SysFr T fs0 s) :
    FrSem dp T fs0 (fun _ => True) (sys s) := frSem_sys dp T fs0 s hs _ (fun _ _ _ => trivial)

/-- without symbolic links, "no such file" from `stat` means the lexical path has no name -/
theorem stat_enoent_absent (dp : Path) (w : World) (hw : LW dp w) (d : Str) (fl : Bool) (hne : d ≠ [])
    (hdd : dotdot ∉ pathComps d) (he : isENOENT (statRes w d fl) = true) : w.fs.lookup (pathComps d) = none := by
  unfold statRes at he
  cases hres : resolve w d fl with
  | err e =>
    rw [hres] at he
    have : e = .ENOENT := by cases e <;> simp [isENOENT] at he ⊢
    subst this
    unfold resolve at hres
    rw [if_neg hne, hw.inv.root] at hres
    simp only at hres
    cases hwk : walk w.fs [] walkFuel 40 [] (pathComps d) (fl || mustDir d) with
    | err e' =>
      rw [hwk] at hres
      simp only at hres
      injection hres with hres
      subst hres
      obtain ⟨pre, hpre, hg⟩ := walk_enoent w.fs [] hw.inv.nosym walkFuel 40 [] (pathComps d) _ hdd hwk
      simp only [List.nil_append] at hg
      have hl := get_none_lookup_none hw.inv.tree hg
      obtain ⟨ext, hext⟩ := hpre
      rw [← hext]
      exact hw.inv.tree.absent_below pre hl ext.length ext rfl
    | ok q =>
      rw [hwk] at hres
      simp only at hres
      exfalso
      split at hres
      · split at hres
        · split at hres <;> cases hres
        · cases hres
      · cases hres
  | ok q =>
    rw [hres] at he
    have e := resolve_lexical w hw.inv.root hw.inv.nosym d fl q hdd hres
    subst e
    simp only at he
    cases hl : w.fs.lookup (pathComps d) with
    | none => rfl
    | some i =>
      exfalso
      rw [hl] at he
      simp only at he
      have := hw.inv.tree.has_inode _ i hl
      cases hi : w.fs.inode i with
      | none => rw [hi] at this; cases this
      | some n => rw [hi] at he; simp [isENOENT] at he

/-- a name reported missing during the extraction did not exist when it started, unless it is covered -/
theorem stat_enoent_marg (dp : Path) (T : List Path) (fs0 : FS) (w : World) (hw : LW dp w) (hf : Framed T fs0 w.fs)
    (d : Str) (fl : Bool) (hd : CleanAbs d) (he : isENOENT (statRes w d fl) = true) : MArg T fs0 d := by
  have hab := stat_enoent_absent dp w hw d fl hd.ne_nil hd.no_dotdot he
  refine ⟨?_, hd.no_dotdot⟩
  by_cases hc : Cov T (pathComps d)
  · exact Or.inl hc
  · right
    cases h0 : fs0.lookup (pathComps d) with
    | none => rfl
    | some i =>
      have := hf.names_keep _ i h0 hc
      rw [hab] at this; cases this

end GA
