import GA.Proofs.LayerNode
import GA.Props.C05g
/-
  One iteration of `UnpackLayer` for a hard-link entry whose source is not in the staging area, and the end of
  the loop seen from one name.
-/
namespace GA

theorem iterL_link_post (dp : Path) (dest : Str) (o : Opts) (hd : CleanAbs dest) (hdp : pathComps dest = dp)
    (e : Entry) (st : LState) (w : World) (hw : LW dp w) (hlink : e.typ = .link)
    (hnst : hasPrefix (clean e.linkname) whLinkDir = false)
    (hmeta : hasPrefix (clean e.name) whMetaPrefix = false)
    (hnwh : hasPrefix (base (join dest (clean e.name))) whPrefix = false)
    (hne : pathComps (join dest (clean e.name)) ≠ dp)
    (st' : LState) (w' : World) (hrun : (layerIterP dest o e st).run w = (.ok st', w')) :
    LW dp w' ∧ ∃ i,
      w'.fs.lookup (pathComps (join dest (clean e.name))) = some i ∧
      w'.fs.lookup (pathComps (join dest e.linkname)) = some i := by
  simp only [layerIterP, hlink, stageP, hmeta, Bool.false_and, show (Typ.link == Typ.xglobal) = false from rfl,
    Bool.false_eq_true, if_false] at hrun
  rw [Prog.bind_eq, Prog.run_bind] at hrun
  simp only [Prog.run, pure] at hrun
  cases hg : guardName dest (clean e.name) with
  | error out => rw [hg] at hrun; simp only [Prog.run, pure] at hrun; cases hrun
  | ok p =>
    rw [hg] at hrun
    simp only at hrun
    obtain ⟨hpe, hpc, hpin⟩ := guardName_ok dest (clean e.name) p hd hg
    rw [hdp] at hpin
    have hp : LexArg dp p := lexArg_of hpc hpin
    have hin' : dp <+: pathComps (join dest (clean e.name)) := by rw [← hpe]; exact hpin
    have hpne : pathComps p ≠ dp := by rw [hpe]; exact hne
    have hpnd : p ≠ clean dest := by
      intro h; apply hpne; rw [h, clean_of_cleanAbs dest hd, hdp]
    rw [← hpe]
    rw [← hpe] at hnwh
    rw [Prog.bind_eq, Prog.run_bind] at hrun
    have hI := LexSem.run dp _ _ w (lex_impliedDirs dp dest e.name o hd hdp hin') hw
    generalize hi1 : (impliedDirsP dest (clean e.name) o).run w = r1 at hrun hI
    obtain ⟨i1, w1⟩ := r1
    simp only at hrun hI
    have hw1 : LW dp w1 := hI.2.1
    by_cases hie : isErr i1 = true
    · simp only [hie, if_true, Prog.run, pure] at hrun; cases hrun
    · simp only [hie, Bool.false_eq_true, if_false, hnwh] at hrun
      rw [run_sys_bind, lstat_world] at hrun
      generalize hL : (step w1 (Sys.lstat p)).1 = L at hrun
      simp only [hpnd, decide_false, Bool.and_false, Bool.false_and, Bool.false_eq_true, if_false] at hrun
      rw [Prog.bind_eq, Prog.run_bind] at hrun
      have hmid : ∃ rm w2, (if needRmL L e = true then sys (Sys.removeAll p) else Prog.ret Res.ok).run w1 = (rm, w2) ∧
          LW dp w2 := by
        by_cases ha3 : needRmL L e = true
        · simp only [ha3, if_true]
          exact ⟨_, _, rfl, (step_good dp w1 (.removeAll p) hw1 (good_lex (s := .removeAll p) ⟨hp, hpne⟩)).2⟩
        · simp only [ha3, Bool.false_eq_true, if_false]
          exact ⟨.ok, w1, rfl, hw1⟩
      obtain ⟨rm, w2, hrm, hw2⟩ := hmid
      rw [hrm] at hrun
      simp only at hrun
      by_cases hre : isErr rm = true
      · simp only [hre, if_true, Prog.run, pure] at hrun; cases hrun
      · simp only [hre, Bool.false_eq_true, if_false] at hrun
        simp only [layerTailP, resolveSrcP, hnst, Bool.and_false, Bool.false_eq_true, if_false] at hrun
        rw [Prog.bind_eq, Prog.run_bind] at hrun
        simp only [Prog.run, pure] at hrun
        cases hrem : remapE o e with
        | none => rw [hrem] at hrun; simp only [Prog.run, pure] at hrun; cases hrun
        | some e' =>
          rw [hrem] at hrun
          simp only at hrun
          have hty : e'.typ = .link := by rw [remapE_typ o e e' hrem]; exact hlink
          have hln : e'.linkname = e.linkname := by
            unfold remapE at hrem
            cases hh : toHostPair o e.uid e.gid with
            | none => rw [hh] at hrem; cases hrem
            | some pr => rw [hh] at hrem; simp at hrem; rw [← hrem]
          rw [Prog.bind_eq, Prog.run_bind] at hrun
          have hdd : (e.typ == Typ.dir) = false := by rw [hlink]; rfl
          simp only [hdd, Bool.false_eq_true, if_false] at hrun
          by_cases hout : ((createTarFileP p dest e' o).run w2).1 = .ok
          · simp only [hout, show (Out.ok != Out.ok) = false from rfl, Bool.false_eq_true, if_false, Prog.run, pure] at hrun
            injection hrun with h1 h2
            subst h2
            obtain ⟨hw3, i, hl1, hl2⟩ := createTarFile_link_shares dp p dest e' o hp hd hdp hty w2 hw2 hout
            rw [hln] at hl2
            exact ⟨hw3, i, hl1, hl2⟩
          · exfalso
            cases hout' : ((createTarFileP p dest e' o).run w2).1 with
            | ok => exact hout hout'
            | err => simp only [hout', show (Out.err != Out.ok) = true from rfl, if_true, Prog.run, pure] at hrun; cases hrun
            | breakout => simp only [hout', show (Out.breakout != Out.ok) = true from rfl, if_true, Prog.run, pure] at hrun; cases hrun

/-- the end of the loop keeps a name that is not at or beneath the staging directory -/
theorem layerEnd_name_kept (dp : Path) (dest : Str) (o : Opts) (hd : CleanAbs dest)
    (st : LState) (w : World) (hw : LW dp w) (hl : LStOK dp dest st) (hf : FSt0 dest st)
    (P : Path) (i : Ino) (hlk : w.fs.lookup P = some i) (hc : ¬ Cov [pathComps (join dest tmpName)] P) :
    ((layerLoop dest o [] st).run w).2.fs.lookup P = some i := by
  simp only [layerLoop]
  rw [Prog.bind_eq, Prog.run_bind]
  have hds : DirsOK dp dest st.dirs.reverse := fun e he => hl.dirs e (by simpa using he)
  have hdt := dirTimes_erase dp dest st.dirs.reverse w hw hds
  have hk1 := KeepsNames.run _ w (keeps_dirTimes dest st.dirs.reverse)
  generalize (dirTimesP dest st.dirs.reverse).run w = r1 at hdt hk1 ⊢
  obtain ⟨r, w1⟩ := r1
  simp only at hdt hk1 ⊢
  have hfr := (FrSem.run dp [pathComps (join dest tmpName)] w1.fs hdt.1.inv.fresh _ _ _ w1
    (lex_layerFinish dp dest st r hl) (fr_layerFinish0 dp _ w1.fs dest st r hd (by simp) hf) hdt.1 (Framed.refl _ _)).1
  exact hfr.names_keep P i (by rw [hk1]; exact hlk) hc

end GA
