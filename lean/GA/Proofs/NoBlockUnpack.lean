import GA.Proofs.NoBlock
/-
  The plain extractor never reaches a blocking open in a world without symbolic links: `os.RemoveAll` is
  only called on a path `lstat` has just resolved, and the open-for-write of a regular-file entry only on
  a path that is absent (or cannot be resolved at all).
-/
namespace GA

theorem nb_setPermissions (p : Str) (mode : Nat) (owner : Option (Nat × Nat)) : NB (setPermissionsP p mode owner) := by
  unfold setPermissionsP
  refine nbB _ _ (nb_sys _ trivial) ?_
  intro r
  split
  · refine nbB _ _ ?_ ?_
    · split
      · exact nb_sys _ trivial
      · exact nb_pure _
    · intro c
      split
      · exact nb_pure _
      · split
        · exact nb_pure _
        · split
          · exact nb_pure _
          · exact nb_sys _ trivial
  · exact nb_pure _

theorem nb_setAll (mode : Nat) (owner : Option (Nat × Nat)) : ∀ (ps : List Str), NB (setAll mode owner ps)
  | [] => nb_pure _
  | p :: ps => by
    simp only [setAll]
    refine nbB _ _ (nb_setPermissions p mode owner) ?_
    intro r
    split
    · exact nb_pure _
    · exact nb_setAll mode owner ps

theorem nb_missingOf : ∀ (ds : List Str), NB (missingOf ds)
  | [] => nb_pure _
  | d :: ds => by
    simp only [missingOf]
    refine nbB _ _ (nb_sys _ trivial) ?_
    intro r
    refine nbB _ _ (nb_missingOf ds) ?_
    intro rest
    exact nb_pure _

theorem nb_mkdirAllAndChown (path : Str) (mode : Nat) (owner : Option (Nat × Nat)) : NB (mkdirAllAndChownP path mode owner) := by
  unfold mkdirAllAndChownP
  refine nbB _ _ (nb_sys _ trivial) ?_
  intro r
  split
  · split <;> exact nb_pure _
  · refine nbB _ _ (nb_missingOf _) ?_
    intro missing
    refine nbB _ _ (nb_sys _ trivial) ?_
    intro m
    split
    · exact nb_pure _
    · exact nb_setAll _ _ _

theorem nb_impliedDirs (dest n : Str) (o : Opts) : NB (impliedDirsP dest n o) := by
  unfold impliedDirsP
  split
  · exact nb_pure _
  · refine nbB _ _ (nb_sys _ trivial) ?_
    intro r
    split
    · exact nb_mkdirAllAndChown _ _ _
    · exact nb_pure _

theorem nb_setXattrs (path : Str) (best : Bool) : ∀ (xs : List (Str × List UInt8)), NB (setXattrsP path best xs)
  | [] => nb_pure _
  | (k, v) :: rest => by
    simp only [setXattrsP]
    refine nbB _ _ (nb_sys _ trivial) ?_
    intro r
    split
    · exact nb_pure _
    · exact nb_setXattrs path best rest

theorem nb_applyMeta (path : Str) (e : Entry) (o : Opts) : NB (applyMetaP path e o) := by
  unfold applyMetaP
  refine nbB _ _ ?_ ?_
  · split
    · exact nb_pure _
    · exact nb_sys _ trivial
  · intro c
    split
    · exact nb_pure _
    · refine nbB _ _ (nb_setXattrs path _ _) ?_
      intro x
      split
      · exact nb_pure _
      · refine nbB _ _ ?_ ?_
        · split
          · refine nbB _ _ (nb_sys _ trivial) ?_
            intro l
            split
            · exact nb_sys _ trivial
            · exact nb_pure _
          · split
            · exact nb_sys _ trivial
            · exact nb_pure _
        · intro m
          split
          · exact nb_pure _
          · refine nbB _ _ ?_ ?_
            · split
              · refine nbB _ _ (nb_sys _ trivial) ?_
                intro l
                split
                · exact nb_sys _ trivial
                · exact nb_pure _
              · split
                · exact nb_sys _ trivial
                · exact nb_sys _ trivial
            · intro u
              split
              · exact nb_pure _
              · exact nb_pure _

theorem nb_dirTimes (dest : Str) : ∀ (ds : List Entry), NB (dirTimesP dest ds)
  | [] => nb_pure _
  | d :: ds => by
    simp only [dirTimesP]
    refine nbB _ _ (nb_sys _ trivial) ?_
    intro l
    split
    · exact nb_dirTimes dest ds
    · refine nbB _ _ (nb_sys _ trivial) ?_
      intro r
      split
      · exact nb_pure _
      · exact nb_dirTimes dest ds

/-- every entry type but the regular file is created by calls that cannot block -/
theorem nb_createTarFile (path xd : Str) (e : Entry) (o : Opts) (h : e.typ ≠ .reg) : NB (createTarFileP path xd e o) := by
  unfold createTarFileP
  split
  · refine nbB _ _ (nb_sys _ trivial) ?_
    intro l
    split
    · exact nb_applyMeta _ _ _
    · refine nbB _ _ (nb_sys _ trivial) ?_
      intro r
      split
      · exact nb_pure _
      · exact nb_applyMeta _ _ _
  · rename_i hr; exact absurd hr h
  · split
    · exact nb_pure _
    · refine nbB _ _ (nb_sys _ trivial) ?_
      intro r
      split
      · exact nb_pure _
      · exact nb_applyMeta _ _ _
  · split
    · exact nb_pure _
    · refine nbB _ _ (nb_sys _ trivial) ?_
      intro r
      split
      · exact nb_pure _
      · exact nb_applyMeta _ _ _
  · refine nbB _ _ (nb_sys _ trivial) ?_
    intro r
    split
    · split <;> exact nb_pure _
    · exact nb_applyMeta _ _ _
  · simp only
    split
    · exact nb_pure _
    · refine nbB _ _ (nb_sys _ trivial) ?_
      intro r
      split
      · exact nb_pure _
      · exact nb_applyMeta _ _ _
  · simp only
    split
    · exact nb_pure _
    · refine nbB _ _ (nb_sys _ trivial) ?_
      intro r
      split
      · exact nb_pure _
      · exact nb_applyMeta _ _ _
  · exact nb_pure _
  · exact nb_pure _

/-- `os.RemoveAll` of a path `lstat` has just found does not reach the open of the parent -/
theorem removeAll_nb_of_lstat (dp : Path) (w : World) (hw : LW dp w) (p : Str) (hp : LexArg dp p) (s : StatInfo)
    (hl : (step w (.lstat p)).1 = .stat s) : isBlockedR (step w (.removeAll p)).1 = false := by
  simp only [step] at hl ⊢
  unfold statRes at hl
  by_cases hp0 : p = []
  · simp [hp0, isBlockedR]
  · simp only [hp0, if_false]
    cases hr : resolve w p false with
    | err e => rw [hr] at hl; cases hl
    | ok q =>
      simp only
      split
      · rfl
      · split <;> rfl

/-- the open-for-write of a path that is absent, or cannot be resolved, does not block -/
theorem createWrite_nb (dp : Path) (w : World) (hw : LW dp w) (p : Str) (hp : LexArg dp p) (mode : Nat) (d : List UInt8)
    (h : w.fs.lookup (pathComps p) = none ∨ ∃ e, resolve w p true = .err e) :
    isBlockedR (step w (.createWrite p mode d)).1 = false := by
  simp only [step]
  cases hr : resolve w p true with
  | err e => rfl
  | ok q =>
    have hq := resolve_lexical w hw.inv.root hw.inv.nosym p true q hp.2 hr
    subst hq
    rcases h with h | ⟨e, he⟩
    · simp only [h]
      split <;> rfl
    · rw [hr] at he; cases he

theorem createTarFile_reg_noblock (dp : Path) (path xd : Str) (e : Entry) (o : Opts) (hp : LexArg dp path)
    (hreg : e.typ = .reg) (w : World) (hw : LW dp w)
    (h : w.fs.lookup (pathComps path) = none ∨ ∃ er, resolve w path true = .err er) :
    (createTarFileP path xd e o).blocks w = false := by
  unfold createTarFileP
  simp only [hreg]
  rw [blocks_sys_bind, createWrite_nb dp w hw path hp e.mode e.body h, Bool.false_or]
  split
  · rfl
  · split
    · rfl
    · exact NB.blocks _ _ (nb_applyMeta path e o)

theorem actOf_three_stat (o : Opts) (l : Res) (e : Entry) (self : Bool) (h : actOf o l e self = 3) : ∃ s, l = .stat s := by
  unfold actOf at h
  split at h
  · exact ⟨_, rfl⟩
  · cases h

/-- **one iteration never blocks** -/
theorem iter_noblock (dp : Path) (dest : Str) (o : Opts) (hd : CleanAbs dest) (hdp : pathComps dest = dp)
    (hov : o.overlay = false) (e : Entry) (dirs : List Entry) (w : World) (hw : LW dp w) (hes : e.typ ≠ .sym) :
    (unpackIterP dest o e dirs).blocks w = false := by
  simp only [unpackIterP]
  split
  · rfl
  · split
    · rfl
    · cases hg : guardName dest (clean e.name) with
      | error out => rfl
      | ok p =>
        simp only
        obtain ⟨hpe, hpc, hpin⟩ := guardName_ok dest (clean e.name) p hd hg
        rw [hdp] at hpin
        have hp : LexArg dp p := lexArg_of hpc hpin
        have hin' : dp <+: pathComps (join dest (clean e.name)) := by rw [← hpe]; exact hpin
        rw [Prog.bind_eq, blocks_bind, NB.blocks _ _ (nb_impliedDirs dest (clean e.name) o), Bool.false_or]
        have hI := LexSem.run dp _ _ w (lex_impliedDirs dp dest e.name o hd hdp hin') hw
        generalize (impliedDirsP dest (clean e.name) o).run w = r1 at hI ⊢
        obtain ⟨i1, w1⟩ := r1
        simp only at hI ⊢
        have hw1 : LW dp w1 := hI.2.1
        split
        · rfl
        · rw [blocks_sys_bind, isBlockedR_false_of_ne (step_nb w1 (.lstat p) trivial), Bool.false_or, lstat_world]
          generalize hL : (step w1 (Sys.lstat p)).1 = L
          split
          · rfl
          · split
            · rfl
            · rename_i ha1 ha2
              rw [Prog.bind_eq, blocks_bind]
              -- the removal stage
              have hrmb : (if actOf o L e (p == clean dest) = 3 then sys (Sys.removeAll p) else pure Res.ok).blocks w1 = false := by
                split
                · rename_i ha3
                  obtain ⟨s, hs⟩ := actOf_three_stat o L e _ ha3
                  rw [hs] at hL
                  show (Prog.call (Sys.removeAll p) Prog.ret).blocks w1 = false
                  rw [blocks_call, removeAll_nb_of_lstat dp w1 hw1 p hp s hL]
                  rfl
                · rfl
              rw [hrmb, Bool.false_or]
              have hpne_or : pathComps p ≠ dp ∨ actOf o L e (p == clean dest) ≠ 3 := by
                by_cases h3 : actOf o L e (p == clean dest) = 3
                · left
                  -- at the destination itself `lstat` reports a directory, and the decision is then never "remove"
                  intro hpd
                  obtain ⟨s, hs⟩ := actOf_three_stat o L e _ h3
                  have hk := (stat_above dp w1 hw1 p false hpc.ne_nil hpc.no_dotdot (by rw [hpd]; exact List.prefix_refl _)).1 s
                    (by rw [← hs, ← hL]; simp only [step])
                  have hpeq : p = dest := cleanAbs_eq_of_comps hpc hd (by rw [hpd, hdp])
                  have hself : (p == clean dest) = true := by rw [clean_of_cleanAbs dest hd, hpeq]; simp
                  rw [hs, hself] at h3
                  unfold actOf at h3
                  simp only [hk] at h3
                  simp at h3
                  split at h3 <;> simp at h3
                · right; exact h3
              -- the world after the removal stage
              have hmid : ∃ rm w2, (if actOf o L e (p == clean dest) = 3 then sys (Sys.removeAll p) else pure Res.ok).run w1 = (rm, w2) ∧
                  LW dp w2 ∧ (e.typ = .reg → isErr rm = false →
                    w2.fs.lookup (pathComps p) = none ∨ ∃ er, resolve w2 p true = .err er) := by
                by_cases ha3 : actOf o L e (p == clean dest) = 3
                · have hpne : pathComps p ≠ dp := hpne_or.resolve_right (fun h => h ha3)
                  simp only [ha3, if_true]
                  refine ⟨(step w1 (.removeAll p)).1, (step w1 (.removeAll p)).2, rfl, ?_, ?_⟩
                  · exact (step_good dp w1 (.removeAll p) hw1 (good_lex (s := .removeAll p) ⟨hp, hpne⟩)).2
                  · intro _ hok
                    left
                    exact (removeAll_post dp w1 hw1 p hp hpne).1 hok _ (under_self _)
                · simp only [ha3, if_false]
                  refine ⟨.ok, w1, rfl, hw1, fun hreg _ => ?_⟩
                  apply lstat_nostat dp w1 hw1 p hp
                  intro st hst
                  rw [hL] at hst
                  subst hst
                  rcases actOf_reg_stat o st e (p == clean dest) hreg with h | h | h
                  · exact ha1 h
                  · exact ha2 h
                  · exact ha3 h
              obtain ⟨rm, w2, hrm, hw2, hnone⟩ := hmid
              rw [hrm]
              simp only
              split
              · rfl
              · rename_i hre
                cases hrem : remapE o e with
                | none => rfl
                | some e' =>
                  simp only [hov, Bool.false_eq_true, if_false]
                  have hty : e'.typ = e.typ := remapE_typ o e e' hrem
                  rw [Prog.bind_eq, blocks_bind]
                  simp only [Prog.blocks, Prog.run, pure, Bool.false_or]
                  rw [Prog.bind_eq, blocks_bind]
                  have hcb : (createTarFileP p dest e' o).blocks w2 = false := by
                    by_cases hreg : e.typ = .reg
                    · exact createTarFile_reg_noblock dp p dest e' o hp (by rw [hty]; exact hreg) w2 hw2
                        (hnone hreg (by simpa using hre))
                    · exact NB.blocks _ _ (nb_createTarFile p dest e' o (by rw [hty]; exact hreg))
                  rw [hcb, Bool.false_or]
                  split <;> rfl

end GA
