import GA.K.Prog
/-
  "For every possible outcome of every system call": a predicate transformer on read-only
  programs.  `RProg.All P p` says P holds at every leaf of `p`, whatever the system calls return —
  so it holds in particular for the run on any concrete filesystem.
-/
namespace GA

def RProg.All {α : Type} (P : α → Prop) : RProg α → Prop
  | .ret a => P a
  | .call _ k => ∀ r, RProg.All P (k r)

theorem RProg.All.run {α : Type} {P : α → Prop} : ∀ (p : RProg α) (w : World), p.All P → P (p.toProg.run w).1
  | .ret _, _, h => h
  | .call s k, w, h => RProg.All.run (k _) _ (h _)

theorem RProg.All.bind {α β : Type} {P : α → Prop} {Q : β → Prop} : ∀ (m : RProg α) (f : α → RProg β),
    m.All P → (∀ a, P a → (f a).All Q) → (m.bind f).All Q
  | .ret a, f, hm, hf => hf a hm
  | .call s k, f, hm, hf => fun r => RProg.All.bind (k r) f (hm r) hf

theorem RProg.All.mono {α : Type} {P Q : α → Prop} (hpq : ∀ a, P a → Q a) : ∀ (p : RProg α), p.All P → p.All Q
  | .ret a, h => hpq a h
  | .call s k, h => fun r => RProg.All.mono hpq (k r) (h r)

theorem RProg.All.pure {α : Type} {P : α → Prop} (a : α) (h : P a) : (Pure.pure a : RProg α).All P := h

theorem RProg.All.rsys {P : Res → Prop} (s : RSys) (h : ∀ r, P r) : (rsys s).All P := fun r => h r

/-- bind in do-notation is `RProg.bind` -/
theorem RProg.bind_eq {α β : Type} (m : RProg α) (f : α → RProg β) : (m >>= f) = m.bind f := rfl


/-- the same for general programs -/
def Prog.All {α : Type} (P : α → Prop) : Prog α → Prop
  | .ret a => P a
  | .call _ k => ∀ r, Prog.All P (k r)

theorem Prog.All.run {α : Type} {P : α → Prop} : ∀ (p : Prog α) (w : World), p.All P → P (p.run w).1
  | .ret _, _, h => h
  | .call s k, w, h => Prog.All.run (k _) _ (h _)

theorem Prog.All.runF {α : Type} {P : α → Prop} (faults : Nat → Option Errno) :
    ∀ (p : Prog α) (n : Nat) (w : World), p.All P → P (p.runF faults n w).1
  | .ret _, _, _, h => h
  | .call s k, n, w, h => by
    simp only [Prog.runF]
    split
    · exact Prog.All.runF faults (k _) _ _ (h _)
    · exact Prog.All.runF faults (k _) _ _ (h _)

theorem Prog.All.bind {α β : Type} {P : α → Prop} {Q : β → Prop} : ∀ (m : Prog α) (f : α → Prog β),
    m.All P → (∀ a, P a → (f a).All Q) → (m.bind f).All Q
  | .ret a, f, hm, hf => hf a hm
  | .call s k, f, hm, hf => fun r => Prog.All.bind (k r) f (hm r) hf

theorem Prog.All.mono {α : Type} {P Q : α → Prop} (hpq : ∀ a, P a → Q a) : ∀ (p : Prog α), p.All P → p.All Q
  | .ret a, h => hpq a h
  | .call s k, h => fun r => Prog.All.mono hpq (k r) (h r)

theorem Prog.All.trivial {α : Type} : ∀ (p : Prog α), p.All (fun _ => True)
  | .ret _ => True.intro
  | .call _ k => fun r => Prog.All.trivial (k r)

end GA
