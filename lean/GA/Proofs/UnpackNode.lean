import GA.Proofs.UnpackDir
import GA.Proofs.EntryNode
/-
  Device and fifo entries in whole archives (outside a user namespace): `mknod` refuses an existing name, so a
  successful creation is always at a fresh path under a fresh inode with that one name.
-/
namespace GA

/-- a successful `mknod`: the path was absent and now names the inode number that was next; every other name
    is what it was -/
theorem mknod_fresh (dp : Path) (path : Str) (hp : LexArg dp path) (k : Kind) (mode : Nat) (rdev : Nat × Nat)
    (w : World) (hw : LW dp w) (hr : isErr (step w (.mknod path k mode rdev)).1 = false) :
    w.fs.lookup (pathComps path) = none ∧
    ∀ r, (step w (.mknod path k mode rdev)).2.fs.lookup r = if r = pathComps path then some w.fs.next else w.fs.lookup r := by
  cases hres : resolveC w path with
  | err e =>
    have : step w (.mknod path k mode rdev) = (.err e, w) := by simp only [step, hres]
    rw [this] at hr; simp [isErr] at hr
  | ok q =>
    have hq := resolveC_lexical w hw.inv.root hw.inv.nosym path q hp.2 hres
    subst hq
    by_cases hex : (w.fs.lookup (pathComps path)).isSome = true
    · have : step w (.mknod path k mode rdev) = (.err .EEXIST, w) := by simp only [step, hres, hex, if_true]
      rw [this] at hr; simp [isErr] at hr
    · have hex' : (w.fs.lookup (pathComps path)).isSome = false := by simpa using hex
      have hnone : w.fs.lookup (pathComps path) = none := by
        cases h : w.fs.lookup (pathComps path) with
        | none => rfl
        | some j => rw [h] at hex'; simp at hex'
      by_cases hdir : (!w.fs.isDir (pathComps path).dropLast) = true
      · have : step w (.mknod path k mode rdev) = (.err .ENOENT, w) := by
          simp only [step, hres, hex', hdir, Bool.false_eq_true, if_false, if_true]
        rw [this] at hr; simp [isErr] at hr
      · have hst : ∃ n0 : Inode, step w (.mknod path k mode rdev) = (.ok, { w with fs := w.fs.create (pathComps path) n0 }) := by
          simp only [step, hres, hex', hdir, Bool.false_eq_true, if_false]
          exact ⟨_, rfl⟩
        obtain ⟨n0, hst⟩ := hst
        refine ⟨hnone, fun r => ?_⟩
        rw [hst]
        exact create_lookup w.fs (pathComps path) n0 hnone r

/-- what a node entry leaves: type, device number (for devices), mode, time, owner -/
def NodeFinal (e : Entry) (o : Opts) (n : Inode) : Prop :=
  n.kind = kindOfTyp e.typ ∧ (e.typ ≠ .fifo → n.rdev = (e.devmajor, e.devminor)) ∧
  n.perm = e.mode &&& 0o7777 ∧ n.mtime = some (boundTime e.mtime) ∧
  (o.noLchown = false → (n.uid, n.gid) = o.chownOpts.getD (e.uid, e.gid))

/-- a fifo entry written to a fresh path -/
theorem createTarFile_fifo_exact (dp : Path) (path xd : Str) (e : Entry) (o : Opts) (hp : LexArg dp path)
    (hf : e.typ = .fifo) (huns : o.inUserNS = false) :
    Triple (fun w => LW dp w ∧ w.fs.lookup (pathComps path) = none) (createTarFileP path xd e o)
      (fun out w' => out = .ok → Obj dp path (PlainFinal (fun n => n.kind = .fifo) e o) w') := by
  have hnl : (e.typ == .link) = false := by rw [hf]; rfl
  have hns : (e.typ != .sym) = true := by rw [hf]; rfl
  unfold createTarFileP
  simp only [hf]
  refine Triple.bind _ _ (mknod_new dp path hp .fifo (by intro h; cases h) e.mode (0, 0)) ?_
  intro r
  by_cases hr : isErr r = true
  · simp only [hr, if_true, huns, Bool.and_false, Bool.false_eq_true, if_false]
    exact Triple.pure _ (fun _ _ h => by cases h)
  · have hr' : isErr r = false := by simpa using hr
    simp only [hr', Bool.false_eq_true, if_false]
    refine Triple.conseq _ (applyMeta_plain dp path e o hp hnl hns (fun n => n.kind = .fifo)
      (fun n u g h => by rw [(chownInode_keeps n u g).1]; exact h) (fun n p h => h) (fun n t h => h) (fun n xs h => h))
      (fun w h => (h trivial).mono (fun n hn => hn.1)) (fun _ _ h => h)

/-- **a device or fifo entry, outside a user namespace**: when `createTarFile` reports success the path was
    absent, and it now names a fresh inode — with that one name — of the entry's type, device number, mode,
    time and owner -/
theorem createTarFile_node_any (dp : Path) (path xd : Str) (e : Entry) (o : Opts) (hp : LexArg dp path)
    (hnode : e.typ = .chr ∨ e.typ = .blk ∨ e.typ = .fifo) (huns : o.inUserNS = false)
    (w : World) (hw : LW dp w) (hok : ((createTarFileP path xd e o).run w).1 = .ok) :
    LW dp ((createTarFileP path xd e o).run w).2 ∧
    (∀ r, ((createTarFileP path xd e o).run w).2.fs.lookup r = if r = pathComps path then some w.fs.next else w.fs.lookup r) ∧
    ∃ n, ((createTarFileP path xd e o).run w).2.fs.inode w.fs.next = some n ∧ NodeFinal e o n := by
  -- the creating call succeeded, so the path was absent
  have hfresh : ∃ rd, isErr (step w (.mknod path (kindOfTyp e.typ) e.mode rd)).1 = false ∧
      (createTarFileP path xd e o).run w = (applyMetaP path e o).run (step w (.mknod path (kindOfTyp e.typ) e.mode rd)).2 := by
    unfold createTarFileP at hok ⊢
    rcases hnode with h | h | h
    · simp only [h, huns, Bool.false_eq_true, if_false] at hok ⊢
      rw [run_sys_bind] at hok ⊢
      refine ⟨(e.devmajor, e.devminor), ?_, ?_⟩
      · cases hh : isErr (step w (Sys.mknod path (kindOfTyp Typ.chr) e.mode (e.devmajor, e.devminor))).1 with
        | false => rfl
        | true => simp only [hh, if_true] at hok; cases hok
      · cases hh : isErr (step w (Sys.mknod path (kindOfTyp Typ.chr) e.mode (e.devmajor, e.devminor))).1 with
        | false => simp only [Bool.false_eq_true, if_false]
        | true => simp only [hh, if_true] at hok; cases hok
    · simp only [h, huns, Bool.false_eq_true, if_false] at hok ⊢
      rw [run_sys_bind] at hok ⊢
      refine ⟨(e.devmajor, e.devminor), ?_, ?_⟩
      · cases hh : isErr (step w (Sys.mknod path (kindOfTyp Typ.blk) e.mode (e.devmajor, e.devminor))).1 with
        | false => rfl
        | true => simp only [hh, if_true] at hok; cases hok
      · cases hh : isErr (step w (Sys.mknod path (kindOfTyp Typ.blk) e.mode (e.devmajor, e.devminor))).1 with
        | false => simp only [Bool.false_eq_true, if_false]
        | true => simp only [hh, if_true] at hok; cases hok
    · simp only [h] at hok ⊢
      rw [run_sys_bind] at hok ⊢
      refine ⟨(0, 0), ?_, ?_⟩
      · cases hh : isErr (step w (Sys.mknod path Kind.fifo e.mode (0, 0))).1 with
        | false => exact hh
        | true => simp only [hh, if_true, huns, Bool.and_false, Bool.false_eq_true, if_false] at hok; cases hok
      · cases hh : isErr (step w (Sys.mknod path Kind.fifo e.mode (0, 0))).1 with
        | false => simp only [Bool.false_eq_true, if_false, kindOfTyp]
        | true => simp only [hh, if_true, huns, Bool.and_false, Bool.false_eq_true, if_false] at hok; cases hok
  obtain ⟨rd, hmk, hrun⟩ := hfresh
  obtain ⟨hnone, hnames⟩ := mknod_fresh dp path hp _ e.mode rd w hw hmk
  have hlook : ∀ r, ((createTarFileP path xd e o).run w).2.fs.lookup r =
      if r = pathComps path then some w.fs.next else w.fs.lookup r := by
    intro r
    rw [hrun, KeepsNames.run _ _ (keeps_applyMeta path e o) r]
    exact hnames r
  have hobj : Obj dp path (NodeFinal e o) ((createTarFileP path xd e o).run w).2 := by
    rcases hnode with h | h | h
    · have := createTarFile_dev_exact dp path xd e o hp (Or.inl h) huns w ⟨hw, hnone⟩ hok
      exact this.mono (fun n hn => ⟨hn.1.1, fun _ => hn.1.2, hn.2.1, hn.2.2.1, hn.2.2.2⟩)
    · have := createTarFile_dev_exact dp path xd e o hp (Or.inr h) huns w ⟨hw, hnone⟩ hok
      exact this.mono (fun n hn => ⟨hn.1.1, fun _ => hn.1.2, hn.2.1, hn.2.2.1, hn.2.2.2⟩)
    · have := createTarFile_fifo_exact dp path xd e o hp h huns w ⟨hw, hnone⟩ hok
      exact this.mono (fun n hn => ⟨by rw [hn.1, h]; rfl, fun hne => absurd h hne, hn.2.1, hn.2.2.1, hn.2.2.2⟩)
  obtain ⟨hw', i, n, hl, hi, hfin⟩ := hobj
  have hi' : i = w.fs.next := by
    have := hlook (pathComps path)
    rw [if_pos rfl, hl] at this
    exact Option.some.inj this
  subst hi'
  exact ⟨hw', hlook, n, hi, hfin⟩

/-- **one device or fifo iteration** (outside a user namespace) -/
theorem iter_node_post (dp : Path) (dest : Str) (o : Opts) (hd : CleanAbs dest) (hdp : pathComps dest = dp)
    (hov : o.overlay = false) (huns : o.inUserNS = false) (e : Entry) (dirs : List Entry) (w : World) (hw : LW dp w)
    (hnode : e.typ = .chr ∨ e.typ = .blk ∨ e.typ = .fifo)
    (hnx : o.excludes.any (fun x => hasPrefix (clean e.name) x) = false)
    (hne : pathComps (join dest (clean e.name)) ≠ dp)
    (d' : List Entry) (w' : World) (hrun : (unpackIterP dest o e dirs).run w = (.ok d', w')) :
    d' = dirs ∧ LW dp w' ∧ ∃ e' i n, remapE o e = some e' ∧
      w'.fs.lookup (pathComps (join dest (clean e.name))) = some i ∧
      (∀ q, w'.fs.lookup q = some i → q = pathComps (join dest (clean e.name))) ∧
      w'.fs.inode i = some n ∧ NodeFinal e' o n := by
  have hnx' : (e.typ == .xglobal) = false := by rcases hnode with h | h | h <;> rw [h] <;> rfl
  have hnd : (e.typ == .dir) = false := by rcases hnode with h | h | h <;> rw [h] <;> rfl
  simp only [unpackIterP, hnx', hnx, Bool.false_eq_true, if_false] at hrun
  cases hg : guardName dest (clean e.name) with
  | error out => rw [hg] at hrun; simp only [Prog.run, pure] at hrun; cases hrun
  | ok p =>
    rw [hg] at hrun
    simp only at hrun
    obtain ⟨hpe, hpc, hpin⟩ := guardName_ok dest (clean e.name) p hd hg
    rw [hdp] at hpin
    have hp : LexArg dp p := lexArg_of hpc hpin
    have hin' : dp <+: pathComps (join dest (clean e.name)) := by rw [← hpe]; exact hpin
    have hpne : pathComps p ≠ dp := by rw [hpe]; exact hne
    rw [← hpe]
    rw [Prog.bind_eq, Prog.run_bind] at hrun
    have hI := LexSem.run dp _ _ w (lex_impliedDirs dp dest e.name o hd hdp hin') hw
    generalize hi1 : (impliedDirsP dest (clean e.name) o).run w = r1 at hrun hI
    obtain ⟨i1, w1⟩ := r1
    simp only at hrun hI
    have hw1 : LW dp w1 := hI.2.1
    by_cases hie : isErr i1 = true
    · simp only [hie, if_true, Prog.run, pure] at hrun; cases hrun
    · simp only [hie, Bool.false_eq_true, if_false] at hrun
      rw [run_sys_bind, lstat_world] at hrun
      generalize hL : (step w1 (Sys.lstat p)).1 = L at hrun
      by_cases ha1 : actOf o L e (p == clean dest) = 1
      · simp only [ha1, if_true, Prog.run, pure] at hrun; cases hrun
      · simp only [ha1, if_false] at hrun
        by_cases ha2 : actOf o L e (p == clean dest) = 2
        · exfalso
          have hself := actOf_two o L e _ ha2
          have hpeq : p = dest := by
            rw [clean_of_cleanAbs dest hd] at hself
            simpa using hself
          exact hpne (by rw [hpeq, hdp])
        · simp only [ha2, if_false] at hrun
          rw [Prog.bind_eq, Prog.run_bind] at hrun
          have hmid : ∃ rm w2, (if actOf o L e (p == clean dest) = 3 then sys (Sys.removeAll p) else pure Res.ok).run w1 = (rm, w2) ∧
              LW dp w2 := by
            by_cases ha3 : actOf o L e (p == clean dest) = 3
            · simp only [ha3, if_true]
              exact ⟨_, _, rfl, (step_good dp w1 (.removeAll p) hw1 (good_lex (s := .removeAll p) ⟨hp, hpne⟩)).2⟩
            · simp only [ha3, if_false]
              exact ⟨.ok, w1, rfl, hw1⟩
          obtain ⟨rm, w2, hrm, hw2⟩ := hmid
          rw [hrm] at hrun
          simp only at hrun
          by_cases hre : isErr rm = true
          · simp only [hre, if_true, Prog.run, pure] at hrun; cases hrun
          · simp only [hre, Bool.false_eq_true, if_false] at hrun
            cases hrem : remapE o e with
            | none => rw [hrem] at hrun; simp only [Prog.run, pure] at hrun; cases hrun
            | some e' =>
              rw [hrem] at hrun
              simp only [hov, Bool.false_eq_true, if_false] at hrun
              have hty : e'.typ = e.typ := remapE_typ o e e' hrem
              rw [Prog.bind_eq, Prog.run_bind] at hrun
              simp only [Prog.run, pure] at hrun
              rw [Prog.bind_eq, Prog.run_bind] at hrun
              simp only [hnd, Bool.false_eq_true, if_false] at hrun
              by_cases hout : ((createTarFileP p dest e' o).run w2).1 = .ok
              · simp only [hout, show (Out.ok != Out.ok) = false from rfl, Bool.false_eq_true, if_false, Prog.run] at hrun
                injection hrun with h1 h2
                injection h1 with h1
                subst h2
                obtain ⟨hw3, hnames, n, hi, hfin⟩ := createTarFile_node_any dp p dest e' o hp (by rw [hty]; exact hnode) huns w2 hw2 hout
                refine ⟨h1.symm, hw3, e', w2.fs.next, n, rfl, by rw [hnames, if_pos rfl], ?_, hi, hfin⟩
                intro q hq
                rw [hnames q] at hq
                by_cases hqp : q = pathComps p
                · exact hqp
                · rw [if_neg hqp] at hq
                  exact absurd (hw2.inv.fresh q _ hq) (Nat.lt_irrefl _)
              · exfalso
                cases hout' : ((createTarFileP p dest e' o).run w2).1 with
                | ok => exact hout hout'
                | err => simp only [hout', show (Out.err != Out.ok) = true from rfl, if_true, Prog.run] at hrun; cases hrun
                | breakout => simp only [hout', show (Out.breakout != Out.ok) = true from rfl, if_true, Prog.run] at hrun; cases hrun

end GA
