import GA.M.Unpack
import GA.Proofs.Hoare
/-
  One iteration of the loop of `Unpack` as a program of its own, and the loop as "one iteration, then
  the rest": the decomposition that lets per-entry postconditions and the frame of the remaining entries
  be combined into statements about whole archives.
-/
namespace GA

/-- the body of the loop for one entry: `.error out` = `Unpack` returns `out` now; `.ok dirs'` = it goes on
    with the next entry and the deferred directory list `dirs'` -/
def unpackIterP (dest : Str) (o : Opts) (e : Entry) (dirs : List Entry) : Prog (Except Out (List Entry)) := do
    if e.typ == .xglobal then return .ok dirs
    else
      let n := clean e.name
      if o.excludes.any (fun x => hasPrefix n x) then return .ok dirs
      else match guardName dest n with
      | .error out => return .error out
      | .ok p =>
        let i ← impliedDirsP dest n o
        if isErr i then return .error .err
        let l ← sys (.lstat p)
        let act := actOf o l e (p == clean dest)
        if act = 1 then return .error .err
        if act = 2 then return .ok dirs
        else
          let rm ← (if act = 3 then sys (.removeAll p) else pure .ok)
          if isErr rm then return .error .err
          match remapE o e with
          | none => return .error .err
          | some e' =>
            let conv ← (if o.overlay then convertReadP p e' else pure (some true))
            match conv with
            | none => return .error .err
            | some false => return .ok dirs
            | some true =>
            let out ← createTarFileP p dest e' o
            if out != .ok then return .error out
            return .ok (if e.typ == .dir then { e' with name := n } :: dirs else dirs)

/-- what the loop does with the outcome of one iteration -/
def iterK (dest : Str) (o : Opts) (es : List Entry) : Except Out (List Entry) → Prog Out
  | .error out => pure out
  | .ok d => unpackLoop dest o es d

theorem Prog.bind_assoc {α β γ : Type} (m : Prog α) (f : α → Prog β) (g : β → Prog γ) :
    (m.bind f).bind g = m.bind (fun a => (f a).bind g) := by
  induction m with
  | ret a => rfl
  | call s k ih => simp only [Prog.bind]; congr 1; funext r; exact ih r

theorem Prog.bind_eq {α β : Type} (m : Prog α) (f : α → Prog β) : m >>= f = m.bind f := rfl
theorem Prog.pure_eq {α : Type} (a : α) : (pure a : Prog α) = .ret a := rfl
theorem Prog.ret_bind {α β : Type} (a : α) (f : α → Prog β) : (Prog.ret a).bind f = f a := rfl

theorem unpackLoop_cons (dest : Str) (o : Opts) (e : Entry) (es dirs : List Entry) :
    unpackLoop dest o (e :: es) dirs = (unpackIterP dest o e dirs).bind (iterK dest o es) := by
  simp only [unpackLoop, unpackIterP, Prog.bind_eq, Prog.pure_eq]
  split
  · rfl
  · split
    · rfl
    · cases hg : guardName dest (clean e.name) with
      | error out => rfl
      | ok p =>
        simp only [Prog.bind_assoc]
        congr 1; funext i
        split
        · rfl
        · simp only [Prog.bind_assoc]
          congr 1; funext l
          split
          · rfl
          · split
            · rfl
            · simp only [Prog.bind_assoc]
              congr 1; funext rm
              split
              · rfl
              · cases hr : remapE o e with
                | none => rfl
                | some e' =>
                  simp only [Prog.bind_assoc]
                  congr 1; funext conv
                  cases conv with
                  | none => rfl
                  | some b =>
                    cases b with
                    | false => rfl
                    | true =>
                      simp only [Prog.bind_assoc]
                      congr 1; funext out
                      split
                      · rfl
                      · rfl

end GA
