import GA.Proofs.UnpackLast
/-
  What `user.MkdirAllAndChown(path, mode, uid, gid, WithOnlyNew)` leaves on the directories it made: every
  path it hands to `setPermissions` ends with the mode's permission bits and, when an owner is given, that
  owner — whatever the later `setPermissions` calls on the other paths do.
-/
namespace GA

/-- the part of a directory's metadata that `setPermissions` establishes -/
def ModeOwner (mode : Nat) (owner : Option (Nat × Nat)) (n : Inode) : Prop :=
  n.perm &&& 0o777 = mode &&& 0o777 ∧ ∀ u g, owner = some (u, g) → n.uid = u ∧ n.gid = g

/-- inode `j` exists and carries mode and owner -/
def Has (mode : Nat) (owner : Option (Nat × Nat)) (j : Ino) (w : World) : Prop :=
  ∃ n, w.fs.inode j = some n ∧ ModeOwner mode owner n

theorem and777_chmod (m : Nat) : ((m &&& 0o777) &&& 0o7777) &&& 0o777 = m &&& 0o777 := by
  rw [Nat.and_assoc, Nat.and_assoc]
  rfl

theorem chownInode_perm777 (n : Inode) (u g : Nat) : (chownInode n u g).perm &&& 0o777 = n.perm &&& 0o777 := by
  unfold chownInode
  split
  · rfl
  · simp only
    split
    · rw [Nat.and_assoc, Nat.and_assoc]; rfl
    · rw [Nat.and_assoc]; rfl

theorem chownInode_ids (n : Inode) (u g : Nat) : (chownInode n u g).uid = u ∧ (chownInode n u g).gid = g := by
  unfold chownInode
  split <;> exact ⟨rfl, rfl⟩

theorem inode_modInode (fs : FS) (i j : Ino) (f : Inode → Inode) :
    (fs.modInode i f).inode j = if j = i then (fs.inode i).map f else fs.inode j := by
  by_cases h : j = i
  · subst h
    rw [if_pos rfl]
    cases hn : fs.inode j with
    | none => unfold FS.modInode; rw [hn]; simp [hn]
    | some n => rw [inode_modInode_self fs j f n hn]; rfl
  · rw [if_neg h, inode_modInode_ne fs i j f h]

/-- `chmod(p', mode & 0777)` on any path keeps "`j` carries mode and owner" -/
theorem has_chmod (mode : Nat) (owner : Option (Nat × Nat)) (w : World) (p' : Str) (j : Ino)
    (h : Has mode owner j w) : Has mode owner j (step w (.chmod p' (mode &&& 0o777))).2 := by
  simp only [step]
  split
  · exact h
  · split
    · exact h
    · rename_i i _
      obtain ⟨n, hn, hq⟩ := h
      unfold Has
      simp only
      rw [inode_modInode]
      by_cases hji : j = i
      · subst hji
        rw [if_pos rfl, hn]
        exact ⟨_, rfl, by simp only; exact and777_chmod mode, hq.2⟩
      · rw [if_neg hji]; exact ⟨n, hn, hq⟩

/-- `chown(p', u, g)` with the owner in question keeps it too -/
theorem has_chown (mode : Nat) (u g : Nat) (w : World) (p' : Str) (fl : Bool) (j : Ino)
    (h : Has mode (some (u, g)) j w) : Has mode (some (u, g)) j (step w (.chown p' u g fl)).2 := by
  simp only [step]
  split
  · exact h
  · split
    · exact h
    · rename_i i _
      obtain ⟨n, hn, hq⟩ := h
      unfold Has
      simp only
      rw [inode_modInode]
      by_cases hji : j = i
      · subst hji
        rw [if_pos rfl, hn]
        refine ⟨_, rfl, ?_, ?_⟩
        · rw [chownInode_perm777]; exact hq.1
        · intro u' g' he
          injection he with he
          injection he with h1 h2
          subst h1; subst h2
          exact chownInode_ids n u g
      · rw [if_neg hji]; exact ⟨n, hn, hq⟩

theorem stat_world' (w : World) (p : Str) : (step w (.stat p)).2 = w := by simp only [step]

/-- `setPermissions(p')` on any path keeps "`j` carries mode and owner" -/
theorem has_setPermissions (mode : Nat) (owner : Option (Nat × Nat)) (p' : Str) (j : Ino) (w : World)
    (h : Has mode owner j w) : Has mode owner j ((setPermissionsP p' mode owner).run w).2 := by
  unfold setPermissionsP
  rw [run_sys_bind, stat_world']
  cases hr : (step w (Sys.stat p')).1 with
  | stat s =>
    simp only
    rw [Prog.bind_eq, Prog.run_bind]
    have h1 : Has mode owner j ((if s.perm &&& 0o777 ≠ mode &&& 0o777 then sys (Sys.chmod p' (mode &&& 0o777)) else pure Res.ok).run w).2 := by
      split
      · exact has_chmod mode owner w p' j h
      · exact h
    generalize (if s.perm &&& 0o777 ≠ mode &&& 0o777 then sys (Sys.chmod p' (mode &&& 0o777)) else pure Res.ok).run w = r1 at h1
    obtain ⟨c, w1⟩ := r1
    simp only at h1 ⊢
    split
    · exact h1
    · cases owner with
      | none => exact h1
      | some ug =>
        obtain ⟨u, g⟩ := ug
        simp only
        split
        · exact h1
        · exact has_chown mode u g w1 p' true j h1
  | _ => exact h

/-- names are untouched by `setPermissions` -/
theorem keeps_setPermissions (p : Str) (mode : Nat) (owner : Option (Nat × Nat)) : KeepsNames (setPermissionsP p mode owner) := by
  unfold setPermissionsP
  refine keepsB _ _ (keeps_sys _ (fun w q => by simp only [step])) ?_
  intro r
  split
  · refine keepsB _ _ ?_ ?_
    · split
      · exact keeps_sys _ (fun w q => by
          simp only [step]; repeat' split
          all_goals first | rfl | exact lookup_modInode _ _ _ _)
      · exact keeps_pure _
    · intro c
      split
      · exact keeps_pure _
      · split
        · exact keeps_pure _
        · split
          · exact keeps_pure _
          · exact keeps_sys _ (fun w q => by
              simp only [step]; repeat' split
              all_goals first | rfl | exact lookup_modInode _ _ _ _)
  · exact keeps_pure _

/-- `stat` reports what the path's inode holds -/
theorem stat_obj (dp : Path) (w : World) (hw : LW dp w) (p : Str) (hp : LexArg dp p) (s : StatInfo)
    (h : (step w (.stat p)).1 = .stat s) :
    ∃ i n, w.fs.lookup (pathComps p) = some i ∧ w.fs.inode i = some n ∧ s.perm = n.perm ∧ s.uid = n.uid ∧ s.gid = n.gid ∧
      s.kind = n.kind := by
  simp only [step] at h
  unfold statRes at h
  cases hr : resolve w p true with
  | err e => rw [hr] at h; cases h
  | ok q =>
    have hq := resolve_lexical w hw.inv.root hw.inv.nosym p true q hp.2 hr
    subst hq
    rw [hr] at h
    simp only at h
    cases hl : w.fs.lookup (pathComps p) with
    | none => rw [hl] at h; cases h
    | some i =>
      rw [hl] at h
      simp only at h
      cases hi : w.fs.inode i with
      | none => rw [hi] at h; cases h
      | some n =>
        rw [hi] at h
        injection h with h
        subst h
        exact ⟨i, n, rfl, hi, rfl, rfl, rfl, rfl⟩

/-- **`setPermissions(p)` that does not fail leaves mode and owner on the object at `p`** -/
theorem setPermissions_sets (dp : Path) (mode : Nat) (owner : Option (Nat × Nat)) (p : Str) (hp : LexArg dp p)
    (w : World) (hw : LW dp w) (hok : isErr ((setPermissionsP p mode owner).run w).1 = false) :
    LW dp ((setPermissionsP p mode owner).run w).2 ∧
    ∃ i, ((setPermissionsP p mode owner).run w).2.fs.lookup (pathComps p) = some i ∧
      Has mode owner i ((setPermissionsP p mode owner).run w).2 := by
  unfold setPermissionsP at hok ⊢
  rw [run_sys_bind, stat_world'] at hok ⊢
  cases hr : (step w (Sys.stat p)).1 with
  | stat s =>
    rw [hr] at hok
    simp only at hok ⊢
    obtain ⟨i, n, hl, hi, hsp, hsu, hsg, _⟩ := stat_obj dp w hw p hp s hr
    rw [Prog.bind_eq, Prog.run_bind] at hok ⊢
    -- after the (conditional) chmod: the permission bits are the mode's, the ids are what they were
    have h1 : (isErr ((if s.perm &&& 0o777 ≠ mode &&& 0o777 then sys (Sys.chmod p (mode &&& 0o777)) else pure Res.ok).run w).1 = false →
        Obj dp p (fun n' => n'.perm &&& 0o777 = mode &&& 0o777 ∧ n'.uid = n.uid ∧ n'.gid = n.gid)
          ((if s.perm &&& 0o777 ≠ mode &&& 0o777 then sys (Sys.chmod p (mode &&& 0o777)) else pure Res.ok).run w).2) := by
      have hobj : Obj dp p (fun n' => n' = n) w := ⟨hw, i, n, hl, hi, rfl⟩
      split
      · intro hne
        have := (chmod_effect dp p hp (mode &&& 0o777) (fun n' => n' = n) w hobj).2 hne
        exact this.mono (fun n' ⟨n0, h0, hn'⟩ => by subst h0; subst hn'; exact ⟨and777_chmod mode, rfl, rfl⟩)
      · rename_i heq
        intro _
        exact hobj.mono (fun n' hn' => by
          subst hn'
          have : n'.perm &&& 0o777 = mode &&& 0o777 := by rw [← hsp]; exact Classical.not_not.mp heq
          exact ⟨this, rfl, rfl⟩)
    generalize (if s.perm &&& 0o777 ≠ mode &&& 0o777 then sys (Sys.chmod p (mode &&& 0o777)) else pure Res.ok).run w = r1 at h1 hok
    obtain ⟨c, w1⟩ := r1
    simp only at h1 hok ⊢
    by_cases hc : isErr c = true
    · simp only [hc, if_true, Prog.run, pure] at hok
      cases hok
    · have hc' : isErr c = false := by simpa using hc
      simp only [hc, Bool.false_eq_true, if_false] at hok ⊢
      have hobj1 := h1 hc'
      cases owner with
      | none =>
        simp only [Prog.run, pure]
        obtain ⟨hw1, i1, n1, hl1, hi1, hq1⟩ := hobj1
        exact ⟨hw1, i1, hl1, n1, hi1, hq1.1, fun u g h => by cases h⟩
      | some ug =>
        obtain ⟨u, g⟩ := ug
        simp only at hok ⊢
        by_cases hsame : s.uid = u ∧ s.gid = g
        · simp only [hsame, and_self, if_true, Prog.run, pure]
          obtain ⟨hw1, i1, n1, hl1, hi1, hq1⟩ := hobj1
          refine ⟨hw1, i1, hl1, n1, hi1, hq1.1, ?_⟩
          intro u' g' he
          injection he with he
          injection he with e1 e2
          subst e1; subst e2
          exact ⟨by rw [hq1.2.1, ← hsu]; exact hsame.1, by rw [hq1.2.2, ← hsg]; exact hsame.2⟩
        · simp only [hsame, if_false] at hok ⊢
          have := (chown_effect dp p hp u g true _ w1 hobj1).2 hok
          obtain ⟨hw2, i2, n2, hl2, hi2, n1, hq1, hn2⟩ := this
          refine ⟨hw2, i2, hl2, n2, hi2, ?_, ?_⟩
          · rw [hn2, chownInode_perm777]; exact hq1.1
          · intro u' g' he
            injection he with he
            injection he with e1 e2
            subst e1; subst e2
            rw [hn2]; exact chownInode_ids n1 _ _
  | err e => rw [hr] at hok; simp only [Prog.run, pure, isErr] at hok; cases hok
  | _ =>
    exfalso
    simp only [step] at hr
    unfold statRes at hr
    repeat' split at hr
    all_goals cases hr

/-- **`setPermissions` over a list**: when none of the calls fails, every listed path ends with mode and owner;
    names are untouched, and every inode that carried mode and owner before still does -/
theorem setAll_post (dp : Path) (mode : Nat) (owner : Option (Nat × Nat)) : ∀ (L : List Str) (w : World),
    LW dp w → (∀ p ∈ L, LexArg dp p) → isErr ((setAll mode owner L).run w).1 = false →
    LW dp ((setAll mode owner L).run w).2 ∧
    (∀ q, ((setAll mode owner L).run w).2.fs.lookup q = w.fs.lookup q) ∧
    (∀ j, Has mode owner j w → Has mode owner j ((setAll mode owner L).run w).2) ∧
    ∀ p ∈ L, ∃ i, w.fs.lookup (pathComps p) = some i ∧ Has mode owner i ((setAll mode owner L).run w).2
  | [], w, hw, _, _ => ⟨hw, fun _ => rfl, fun _ h => h, fun _ h => by cases h⟩
  | p :: ps, w, hw, hL, hok => by
    simp only [setAll] at hok ⊢
    rw [Prog.bind_eq, Prog.run_bind] at hok ⊢
    have hkeep := KeepsNames.run _ w (keeps_setPermissions p mode owner)
    have hpres := fun j => has_setPermissions mode owner p j w
    have hsets := setPermissions_sets dp mode owner p (hL p (by simp)) w hw
    generalize (setPermissionsP p mode owner).run w = r1 at hok hkeep hpres hsets
    obtain ⟨r, w1⟩ := r1
    simp only at hok hkeep hpres hsets ⊢
    by_cases hr : isErr r = true
    · simp only [hr, if_true, Prog.run, pure] at hok
      cases hok
    · have hr' : isErr r = false := by simpa using hr
      simp only [hr, Bool.false_eq_true, if_false] at hok ⊢
      obtain ⟨hw1, i, hl1, hi1⟩ := hsets hr'
      obtain ⟨hwf, hnames, hhas, hrest⟩ := setAll_post dp mode owner ps w1 hw1 (fun q hq => hL q (by simp [hq])) hok
      refine ⟨hwf, fun q => by rw [hnames q, hkeep q], fun j hj => hhas j (hpres j hj), ?_⟩
      intro q hq
      rcases List.mem_cons.mp hq with rfl | hq
      · exact ⟨i, by rw [← hkeep]; exact hl1, hhas i hi1⟩
      · obtain ⟨i', hl', hh'⟩ := hrest q hq
        exact ⟨i', by rw [← hkeep]; exact hl', hh'⟩

/-- `missingOf` is a filter: the listed paths whose `stat` says "no such file" (nothing changes) -/
theorem missingOf_run : ∀ (L : List Str) (w : World),
    (missingOf L).run w = (L.filter (fun d => isENOENT (step w (.stat d)).1), w)
  | [], w => rfl
  | d :: ds, w => by
    simp only [missingOf]
    rw [run_sys_bind, stat_world', Prog.bind_eq, Prog.run_bind, missingOf_run ds w]
    simp only [Prog.run, pure, List.filter_cons]

/-- the ancestors of a cleaned absolute path are cleaned absolute paths above it -/
theorem ancestorsOf_props : ∀ (fuel : Nat) (p : Str), CleanAbs p →
    ∀ d ∈ ancestorsOf fuel p, CleanAbs d ∧ pathComps d <+: pathComps p
  | 0, _, _, d, h => by simp [ancestorsOf] at h
  | fuel + 1, p, hp, d, h => by
    simp only [ancestorsOf] at h
    split at h
    · cases h
    · have hdir := dir_cleanAbs hp
      rcases List.mem_cons.mp h with rfl | h
      · exact ⟨hdir.1, by rw [hdir.2]; exact List.dropLast_prefix _⟩
      · have := ancestorsOf_props fuel (dir p) hdir.1 d h
        exact ⟨this.1, this.2.trans (by rw [hdir.2]; exact List.dropLast_prefix _)⟩

/-- a path at or above the entry's parent whose `stat` says "no such file" lies beneath the destination -/
theorem enoent_lexArg (dp : Path) (w : World) (hw : LW dp w) (d : Str) (hd : CleanAbs d) (P : Path)
    (hdp : pathComps d <+: P) (hP : dp <+: P) (he : isENOENT (step w (.stat d)).1 = true) : LexArg dp d := by
  refine ⟨?_, hd.no_dotdot⟩
  rcases List.prefix_or_prefix_of_prefix hP hdp with h | h
  · exact h
  · exfalso
    have := (stat_above dp w hw d true hd.ne_nil hd.no_dotdot h).2
    simp only [step] at he
    rw [he] at this; cases this

/-- **`MkdirAllAndChown(path, mode, owner, WithOnlyNew)`**: when it does not fail (and the path was not there as a
    directory already), every directory it found missing — the path itself and each missing ancestor — ends with the
    mode's permission bits and the given owner -/
theorem mkdirAllAndChown_post (dp : Path) (path0 : Str) (mode : Nat) (owner : Option (Nat × Nat))
    (hc : CleanAbs (clean path0)) (hin : dp <+: pathComps (clean path0))
    (w : World) (hw : LW dp w) (hnd : ∀ s, (step w (.stat (clean path0))).1 ≠ .stat s)
    (hok : isErr ((mkdirAllAndChownP path0 mode owner).run w).1 = false) :
    LW dp ((mkdirAllAndChownP path0 mode owner).run w).2 ∧
    ∀ d, (d = clean path0 ∨ d ∈ ancestorsOf (clean path0).length (clean path0)) →
      isENOENT (step w (.stat d)).1 = true →
      ∃ i, ((mkdirAllAndChownP path0 mode owner).run w).2.fs.lookup (pathComps d) = some i ∧
        Has mode owner i ((mkdirAllAndChownP path0 mode owner).run w).2 := by
  unfold mkdirAllAndChownP at hok ⊢
  simp only at hok ⊢
  rw [run_sys_bind, stat_world'] at hok ⊢
  cases hr : (step w (Sys.stat (clean path0))).1 with
  | stat s => exact absurd hr (hnd s)
  | _ =>
    all_goals
      rw [hr] at hok
      simp only at hok ⊢
      rw [Prog.bind_eq, Prog.run_bind, missingOf_run] at hok ⊢
      simp only at hok ⊢
      rw [run_sys_bind] at hok ⊢
      have hg : SysGood dp (.mkdirAll (clean path0) mode) := Or.inr ⟨_, _, rfl, hc.no_dotdot, Or.inl hin⟩
      have hw2 := (step_good dp w _ hw hg).2
      by_cases hm : isErr (step w (Sys.mkdirAll (clean path0) mode)).1 = true
      · simp only [hm, if_true, Prog.run, pure] at hok
        cases hok
      · simp only [hm, Bool.false_eq_true, if_false] at hok ⊢
        have hanc := ancestorsOf_props (clean path0).length (clean path0) hc
        have hL : ∀ p ∈ (if isENOENT (step w (Sys.stat (clean path0))).1 = true then [clean path0] else []) ++
            List.filter (fun d => isENOENT (step w (Sys.stat d)).1) (ancestorsOf (clean path0).length (clean path0)),
            LexArg dp p := by
          intro p hp
          rcases List.mem_append.mp hp with hp | hp
          · split at hp
            · simp only [List.mem_singleton] at hp; subst hp; exact ⟨hin, hc.no_dotdot⟩
            · cases hp
          · obtain ⟨hpa, hpe⟩ := List.mem_filter.mp hp
            obtain ⟨hpc, hpp⟩ := hanc p hpa
            exact enoent_lexArg dp w hw p hpc _ hpp hin hpe
        rw [← hr] at hok ⊢
        obtain ⟨hwf, hnames, _, hall⟩ := setAll_post dp mode owner _ _ hw2 hL hok
        refine ⟨hwf, ?_⟩
        intro d hd he
        have hmem : d ∈ (if isENOENT (step w (Sys.stat (clean path0))).1 = true then [clean path0] else []) ++
            List.filter (fun d => isENOENT (step w (Sys.stat d)).1) (ancestorsOf (clean path0).length (clean path0)) := by
          rcases hd with rfl | hd
          · rw [if_pos he]; simp
          · exact List.mem_append_right _ (List.mem_filter.mpr ⟨hd, he⟩)
        obtain ⟨i, hl, hh⟩ := hall d hmem
        exact ⟨i, by rw [hnames]; exact hl, hh⟩

end GA
