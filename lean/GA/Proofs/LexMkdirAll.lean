import GA.Proofs.LexConfine
import GA.Proofs.PathLemmas
/-
  `os.MkdirAll` on a path lexically beneath the destination: the recursion towards the parents stops
  at the destination (which exists), so nothing outside it is created.
-/
namespace GA

/-- every prefix of `dp` (the destination and its ancestors) has a name -/
def ChainNames (dp : Path) (fs : FS) : Prop := ∀ pre, pre <+: dp → (fs.lookup pre).isSome = true

theorem chainNames_step {dp : Path} {w w' : World} (hc : ChainNames dp w.fs) (hs : LStepOK dp w w') :
    ChainNames dp w'.fs := by
  intro pre hpre
  by_cases he : pre = dp
  · rw [he]; exact hs.2.dest_some
  · have hnu : under dp pre = false := by
      cases hu : under dp pre with
      | false => rfl
      | true =>
        exfalso
        simp only [under, List.isPrefixOf_iff_prefix] at hu
        exact he (prefix_antisymm hpre hu)
    rw [hs.1.names_out pre hnu]
    exact hc pre hpre

/-! ### the parent string of `os.MkdirAll` -/

theorem pathComps_nil : pathComps [] = [] := by simp [pathComps, splitSlash]

theorem pathComps_append_slash (a b : Str) : pathComps (a ++ 47 :: b) = pathComps a ++ pathComps b := by
  simp only [pathComps, splitSlash_append_slash, List.filter_append]

theorem pathComps_snoc_slash (a : Str) : pathComps (a ++ [47]) = pathComps a := by
  rw [pathComps_append_slash, pathComps_nil, List.append_nil]

/-- a string that is empty or ends in "/" -/
def DirForm (a : Str) : Prop := a = [] ∨ ∃ a', a = a' ++ [47]

theorem pathComps_prefix_of_dirForm (a rest : Str) (h : DirForm a) : pathComps a <+: pathComps (a ++ rest) := by
  rcases h with rfl | ⟨a', rfl⟩
  · rw [pathComps_nil]; exact List.nil_prefix
  · rw [pathComps_snoc_slash, List.append_assoc, List.singleton_append, pathComps_append_slash]
    exact List.prefix_append _ _

theorem reverse_dropWhile_dirForm (s : Str) : DirForm ((s.dropWhile (· ≠ 47)).reverse) := by
  cases h : s.dropWhile (· ≠ 47) with
  | nil => left; rfl
  | cons x xs =>
    right
    have := List.head?_dropWhile_not (· ≠ 47) s
    rw [h] at this
    simp only [List.head?_cons, decide_eq_false_iff_not, ne_eq, Decidable.not_not] at this
    exact ⟨xs.reverse, by rw [List.reverse_cons, this]⟩

theorem splitLast_fst_dirForm (t : Str) : DirForm (splitLast t).1 := reverse_dropWhile_dirForm t.reverse

theorem splitLast_append (t : Str) : (splitLast t).1 ++ (splitLast t).2 = t := by
  simp only [splitLast]
  rw [← List.reverse_append, List.takeWhile_append_dropWhile, List.reverse_reverse]

theorem stripTrailingSlashes_append (p : Str) : ∃ k, stripTrailingSlashes p ++ k = p := by
  refine ⟨(p.reverse.takeWhile (· = 47)).reverse, ?_⟩
  simp only [stripTrailingSlashes]
  rw [← List.reverse_append, List.takeWhile_append_dropWhile, List.reverse_reverse]

/-- the parent string `os.MkdirAll` recurses on names an ancestor (or the same components) -/
theorem parent_comps_prefix (p : Str) :
    pathComps (splitLast (stripTrailingSlashes p)).1 <+: pathComps p := by
  obtain ⟨k, hk⟩ := stripTrailingSlashes_append p
  have h1 := splitLast_append (stripTrailingSlashes p)
  have : p = (splitLast (stripTrailingSlashes p)).1 ++ ((splitLast (stripTrailingSlashes p)).2 ++ k) := by
    rw [← List.append_assoc, h1, hk]
  conv => rhs; rw [this]
  exact pathComps_prefix_of_dirForm _ _ (splitLast_fst_dirForm _)

theorem not_mem_of_prefix {a b : List Str} (h : a <+: b) (x : Str) (hx : x ∉ b) : x ∉ a :=
  fun hm => hx (h.subset hm)

/-- `mkdir` of a path that names the destination or one of its ancestors changes nothing -/
theorem mkdirOne_above (dp : Path) (w : World) (p : Str) (perm : Nat) (h : LInv dp w) (hc : ChainNames dp w.fs)
    (hdd : dotdot ∉ pathComps p) (hab : pathComps p <+: dp) : (mkdirOne w p perm).2 = w := by
  unfold mkdirOne
  split
  · rfl
  · rename_i q hq
    have e := resolveC_lexical w h.root h.nosym p q hdd hq
    have hs := hc q (by rw [e]; exact hab)
    rw [if_pos hs]

theorem mkdirAllK_lex (dp : Path) : ∀ (fuel : Nat) (w : World) (p : Str) (perm : Nat),
    LInv dp w → ChainNames dp w.fs → dotdot ∉ pathComps p → (dp <+: pathComps p ∨ pathComps p <+: dp) →
    LStepOK dp w (mkdirAllK fuel w p perm).2 ∧ ChainNames dp (mkdirAllK fuel w p perm).2.fs := by
  intro fuel
  induction fuel with
  | zero => intro w p perm h hc _ _; exact ⟨LStepOK.same dp w h, hc⟩
  | succ n ih =>
    intro w p perm h hc hdd hcmp
    simp only [mkdirAllK]
    split
    · split <;> exact ⟨LStepOK.same dp w h, hc⟩
    · -- parent first
      have hpp := parent_comps_prefix p
      have hpdd : dotdot ∉ pathComps (splitLast (stripTrailingSlashes p)).1 := not_mem_of_prefix hpp _ hdd
      have hpcmp : dp <+: pathComps (splitLast (stripTrailingSlashes p)).1 ∨
          pathComps (splitLast (stripTrailingSlashes p)).1 <+: dp := by
        rcases hcmp with hcmp | hcmp
        · exact List.prefix_or_prefix_of_prefix hcmp hpp
        · exact Or.inr (hpp.trans hcmp)
      have hpar : LStepOK dp w (if (splitLast (stripTrailingSlashes p)).1.length > 0 ∧ (splitLast (stripTrailingSlashes p)).1 ≠ p
          then mkdirAllK n w (splitLast (stripTrailingSlashes p)).1 perm else (Res.ok, w)).2 ∧
          ChainNames dp (if (splitLast (stripTrailingSlashes p)).1.length > 0 ∧ (splitLast (stripTrailingSlashes p)).1 ≠ p
          then mkdirAllK n w (splitLast (stripTrailingSlashes p)).1 perm else (Res.ok, w)).2.fs := by
        split
        · exact ih w _ perm h hc hpdd hpcmp
        · exact ⟨LStepOK.same dp w h, hc⟩
      generalize (if (splitLast (stripTrailingSlashes p)).1.length > 0 ∧ (splitLast (stripTrailingSlashes p)).1 ≠ p
          then mkdirAllK n w (splitLast (stripTrailingSlashes p)).1 perm else (Res.ok, w)) = pr at hpar ⊢
      split
      · exact hpar
      · have hm : LStepOK dp pr.2 (mkdirOne pr.2 p perm).2 := by
          rcases hcmp with hcmp | hcmp
          · exact mkdirOne_lex dp pr.2 p perm hpar.1.2 ⟨hcmp, hdd⟩
          · rw [mkdirOne_above dp pr.2 p perm hpar.1.2 hpar.2 hdd hcmp]
            exact LStepOK.same dp pr.2 hpar.1.2
        have hall := LStepOK.trans hpar.1 hm
        have hcn := chainNames_step hpar.2 hm
        split
        · split
          · split <;> exact ⟨hall, hcn⟩
          · exact ⟨hall, hcn⟩
        · exact ⟨hall, hcn⟩

end GA
