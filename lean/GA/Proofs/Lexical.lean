import GA.Proofs.ConfineStep
/-
  Plain (non-jailed) extraction in a world without symbolic links: path resolution follows the
  components literally, so a call whose path arguments lie lexically beneath the destination can only
  touch what lies physically beneath it.  This is the bridge from the lexical guards of C02 to the
  clause "nothing outside the destination is created, modified, deleted, re-owned, re-timed or
  hard-linked".
-/
namespace GA

/-- no name of the file system is a symbolic link -/
def NoSym (fs : FS) : Prop := ∀ p n, fs.get p = some n → n.kind ≠ .sym

/-- without symbolic links and without ".." the walk ends exactly where the components say -/
theorem walk_lexical (fs : FS) (root : Path) (hns : NoSym fs) :
    ∀ (fuel links : Nat) (cur : Path) (cs : List Str) (fl : Bool) (q : Path),
      dotdot ∉ cs → walk fs root fuel links cur cs fl = .ok q → q = cur ++ cs := by
  intro fuel
  induction fuel with
  | zero =>
    intro links cur cs fl q _ h
    cases cs with
    | nil => simp only [walk] at h; cases h; simp
    | cons c rest => simp [walk] at h
  | succ fuel ih =>
    intro links cur cs fl q hdd h
    cases cs with
    | nil => simp only [walk] at h; cases h; simp
    | cons c rest =>
      simp only [walk] at h
      have hc : c ≠ dotdot := fun e => hdd (by simp [e])
      have hrest : dotdot ∉ rest := fun e => hdd (by simp [e])
      by_cases hd : (!fs.isDir cur) = true
      · rw [if_pos hd] at h
        split at h <;> cases h
      · rw [if_neg hd, if_neg hc] at h
        split at h
        · split at h
          · cases h; rename_i he; simp at he; simp [he]
          · cases h
        · rename_i n hn
          have hk : n.kind ≠ .sym := hns _ n hn
          have hk' : (n.kind == Kind.sym) = false := by simpa using hk
          simp only [hk', Bool.false_and, Bool.false_eq_true, if_false] at h
          have := ih links (cur ++ [c]) rest fl q hrest h
          rw [this]; simp

/-- a path string without ".." components resolves, if at all, to its own components -/
theorem resolve_lexical (w : World) (hroot : w.root = []) (hns : NoSym w.fs) (s : Str) (fl : Bool) (q : Path)
    (hdd : dotdot ∉ pathComps s) (h : resolve w s fl = .ok q) : q = pathComps s := by
  unfold resolve at h
  split at h
  · cases h
  · simp only at h
    split at h
    · cases h
    · rename_i p hp
      have hq : p = pathComps s := by
        have := walk_lexical w.fs w.root hns _ _ _ _ _ _ hdd hp
        rw [hroot] at this; simpa using this
      split at h
      · split at h
        · split at h
          · cases h; exact hq
          · cases h
        · cases h; exact hq
      · cases h; exact hq

theorem resolveC_lexical (w : World) (hroot : w.root = []) (hns : NoSym w.fs) (s : Str) (q : Path)
    (hdd : dotdot ∉ pathComps s) (h : resolveC w s = .ok q) : q = pathComps s := by
  unfold resolveC at h
  split at h
  · cases h
  · have := walk_lexical w.fs w.root hns _ _ _ _ _ _ hdd h
    rw [hroot] at this; simpa using this

end GA
