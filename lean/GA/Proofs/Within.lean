import GA.Proofs.PathLemmas
/-
  `isWithin d p` (filepath.Rel + the two string tests) ⇔ component-wise containment,
  for cleaned absolute paths.  Also the negative result for the pinned guard.
-/
namespace GA

theorem dropCommon_fst_nil_iff : ∀ (a b : List Str), (dropCommon a b).1 = [] ↔ a <+: b
  | [], b => by simp [dropCommon]
  | a :: as, [] => by simp [dropCommon]
  | a :: as, b :: bs => by
    simp only [dropCommon]
    split
    · rename_i h; subst h
      rw [dropCommon_fst_nil_iff as bs]
      simp [List.cons_prefix_cons]
    · rename_i h
      simp [List.cons_prefix_cons, h]

theorem dropCommon_fst_mem : ∀ (a b : List Str) (x : Str), x ∈ (dropCommon a b).1 → x ∈ a
  | [], b, x, h => by simp [dropCommon] at h
  | a :: as, [], x, h => by simpa [dropCommon] using h
  | a :: as, b :: bs, x, h => by
    simp only [dropCommon] at h
    split at h
    · exact List.mem_cons_of_mem _ (dropCommon_fst_mem as bs x h)
    · exact h

theorem dropCommon_snd_mem : ∀ (a b : List Str) (x : Str), x ∈ (dropCommon a b).2 → x ∈ b
  | [], b, x, h => by simpa [dropCommon] using h
  | a :: as, [], x, h => by simp [dropCommon] at h
  | a :: as, b :: bs, x, h => by
    simp only [dropCommon] at h
    split at h
    · exact List.mem_cons_of_mem _ (dropCommon_snd_mem as bs x h)
    · exact h

theorem dropCommon_both_nil : ∀ (a b : List Str), (dropCommon a b).1 = [] → (dropCommon a b).2 = [] → a = b
  | [], b, _, h => by simp [dropCommon] at h; exact h.symm
  | a :: as, [], h, _ => by simp [dropCommon] at h
  | a :: as, b :: bs, h1, h2 => by
    simp only [dropCommon] at h1 h2
    split at h1
    · rename_i h; subst h
      rw [dropCommon_both_nil as bs h1 (by simpa using h2)]
    · simp at h1

/-- joined normal components never look like an upward path -/
theorem joinSlash_norm_not_up : ∀ (rt : List Str), (∀ c ∈ rt, Norm c) →
    joinSlash rt ≠ dotdot ∧ hasPrefix (joinSlash rt) dotdotSlash = false
  | [], _ => by simp [joinSlash, dotdot, hasPrefix, dotdotSlash]
  | [x], h => by
    have hx := h x (by simp)
    simp only [joinSlash]
    refine ⟨hx.2.2.1, ?_⟩
    simp only [hasPrefix, dotdotSlash]
    cases hp : List.isPrefixOf [46, 46, 47] x with
    | false => rfl
    | true =>
      exfalso
      rw [List.isPrefixOf_iff_prefix] at hp
      obtain ⟨t, ht⟩ := hp
      exact hx.2.2.2 (by rw [← ht]; simp)
  | x :: y :: ys, h => by
    have hx := h x (by simp)
    simp only [joinSlash]
    constructor
    · intro e
      have : (47 : UInt8) ∈ dotdot := by rw [← e]; simp
      simp [dotdot] at this
    · simp only [hasPrefix, dotdotSlash]
      cases hp : List.isPrefixOf [46, 46, 47] (x ++ 47 :: joinSlash (y :: ys)) with
      | false => rfl
      | true =>
        exfalso
        rw [List.isPrefixOf_iff_prefix] at hp
        obtain ⟨t, ht⟩ := hp
        -- x has no slash, so x = ".."
        match x, hx with
        | [], hx => exact hx.1 rfl
        | [a], hx => simp at ht
        | [a, b], hx => simp at ht; exact hx.2.2.1 (by simp [dotdot, ← ht.1, ← ht.2.1])
        | a :: b :: c :: r, hx =>
          simp at ht
          exact hx.2.2.2 (by simp [← ht.2.2.1])

theorem joinSlash_eq_nil : ∀ (cs : List Str), (∀ c ∈ cs, c ≠ []) → joinSlash cs = [] → cs = []
  | [], _, _ => rfl
  | [x], h, e => by simp [joinSlash] at e; exact absurd e (h x (by simp))
  | x :: y :: ys, _, e => by simp [joinSlash] at e

theorem relElems_cleanAbs (cs : List Str) (h : ∀ c ∈ cs, Norm c) :
    relElems (47 :: joinSlash cs) = [] :: cs := by
  unfold relElems
  simp only [List.cons_ne_nil, if_false, reduceCtorEq]
  by_cases hcs : cs = []
  · subst hcs; simp [joinSlash, slashStr]
  · have : (47 :: joinSlash cs) ≠ slashStr := by
      intro e
      simp [slashStr] at e
      exact hcs (joinSlash_eq_nil cs (fun c hc => (h c hc).1) e)
    simp only [this, if_false]
    rw [splitSlash_cleanAbs cs h]; simp [hcs]

theorem joinSlash_ups (rb : List Str) (hrb : rb ≠ []) :
    let ups := joinSlash (rb.map fun _ => dotdot)
    ups = dotdot ∨ hasPrefix ups dotdotSlash = true := by
  match rb, hrb with
  | [x], _ => left; simp [joinSlash]
  | x :: y :: r, _ => right; simp [joinSlash, hasPrefix, dotdot, dotdotSlash]

theorem joinSlash_injective_norm : ∀ (a b : List Str), (∀ c ∈ a, Norm c) → (∀ c ∈ b, Norm c) →
    joinSlash a = joinSlash b → a = b := by
  intro a b ha hb e
  by_cases ha0 : a = []
  · subst ha0
    simp [joinSlash] at e
    exact (joinSlash_eq_nil b (fun c hc => (hb c hc).1) e).symm
  · by_cases hb0 : b = []
    · subst hb0
      simp [joinSlash] at e
      exact joinSlash_eq_nil a (fun c hc => (ha c hc).1) e
    · rw [← splitSlash_joinSlash a ha0 (fun c hc => (ha c hc).noSlash),
        ← splitSlash_joinSlash b hb0 (fun c hc => (hb c hc).noSlash), e]

/-- **the guard lemma**: for cleaned absolute paths, `isWithin` is component-wise containment -/
theorem isWithin_iff (cd cp : List Str) (hd : ∀ c ∈ cd, Norm c) (hp : ∀ c ∈ cp, Norm c) :
    isWithin (47 :: joinSlash cd) (47 :: joinSlash cp) = true ↔ cd <+: cp := by
  have cd' := clean_of_cleanAbs _ ⟨cd, hd, rfl⟩
  have cp' := clean_of_cleanAbs _ ⟨cp, hp, rfl⟩
  unfold isWithin rel
  simp only [cd', cp']
  by_cases heq : (47 :: joinSlash cp) = (47 :: joinSlash cd)
  · simp only [heq, if_true]
    have : cp = cd := joinSlash_injective_norm cp cd hp hd (by simpa using heq)
    subst this
    simp [dot, dotdot, hasPrefix, dotdotSlash]
  · simp only [heq, if_false]
    have hnd : (47 :: joinSlash cd) ≠ dot := by simp [dot]
    simp only [hnd, if_false, isAbs_cons, ne_eq, not_true_eq_false]
    rw [relElems_cleanAbs cd hd, relElems_cleanAbs cp hp]
    simp only [dropCommon, if_true]
    have hrb : ∀ x ∈ (dropCommon cd cp).1, Norm x := fun x hx => hd x (dropCommon_fst_mem cd cp x hx)
    have hrt : ∀ x ∈ (dropCommon cd cp).2, Norm x := fun x hx => hp x (dropCommon_snd_mem cd cp x hx)
    have hhead : (dropCommon cd cp).1.head? ≠ some dotdot := by
      intro e
      cases h1 : (dropCommon cd cp).1 with
      | nil => simp [h1] at e
      | cons x xs =>
        simp [h1] at e
        exact (hrb x (by simp [h1])).2.2.1 e
    rw [← dropCommon_fst_nil_iff cd cp]
    generalize hdc : dropCommon cd cp = dc at *
    obtain ⟨rb, rt⟩ := dc
    simp only at hrb hrt hhead ⊢
    simp only [hhead, if_false]
    by_cases hrb0 : rb = []
    · subst hrb0
      simp only [if_true]
      have := joinSlash_norm_not_up rt hrt
      simp [this.1, this.2]
    · simp only [hrb0, if_false]
      have hu := joinSlash_ups rb hrb0
      simp only at hu
      constructor
      · intro hw
        exfalso
        by_cases hrt0 : rt = []
        · simp only [hrt0, if_true] at hw
          rcases hu with hu | hu
          · simp [hu] at hw
          · simp [hu] at hw
        · simp only [hrt0, if_false] at hw
          match rb, hrb0 with
          | [x], _ => simp [joinSlash, hasPrefix, dotdot, dotdotSlash] at hw
          | x :: y :: r, _ => simp [joinSlash, hasPrefix, dotdot, dotdotSlash] at hw
      · intro h; exact absurd h (by simpa using hrb0)

end GA
