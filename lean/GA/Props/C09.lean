import GA.M.Pack
import GA.M.Export
import GA.Proofs.RAll
import GA.Proofs.NonInterf
/-
  C09 — produced archives are canonical, self-consistent and reproducible (structure of the
  entry list the walker emits; the byte encoding is archive/tar's).
  The theorems hold for every filesystem and every outcome of every system call (`RProg.All`).
-/
namespace GA.C09
open GA

/-- in an emitted list (latest first) every link entry names an earlier entry that is not a link -/
def LinksOK : List Entry → Prop
  | [] => True
  | e :: older => (e.typ = .link → ∃ t ∈ older, t.name = e.linkname ∧ t.typ ≠ .link) ∧ LinksOK older

structure StInv (st : PackState) : Prop where
  dirSlash : ∀ e ∈ st.out, e.typ = .dir → hasSuffix e.name slashStr = true
  links : LinksOK st.out
  seen : ∀ x ∈ st.seenInodes, ∃ t ∈ st.out, t.name = x.2 ∧ t.typ ≠ .link

theorem canonical_dir (name : Str) : hasSuffix (canonicalTarName name true) slashStr = true := by
  unfold canonicalTarName
  by_cases h : hasSuffix name slashStr = true
  · simp [h]
  · have h' : hasSuffix name slashStr = false := by simpa using h
    simp only [h', Bool.not_false, Bool.and_true, if_true]
    simp [hasSuffix, slashStr]

theorem canonical_nondir (name : Str) : canonicalTarName name false = name := by simp [canonicalTarName]

theorem typOfKind_ne_link (k : Kind) : typOfKind k ≠ .link := by cases k <;> simp [typOfKind]

theorem typOfKind_dir (k : Kind) : typOfKind k = .dir ↔ k = .dir := by cases k <;> simp [typOfKind]

/-- pushing a non-link entry, or a link entry whose target is already there, keeps the invariant -/
theorem StInv.push {st : PackState} (h : StInv st) (e : Entry)
    (hd : e.typ = .dir → hasSuffix e.name slashStr = true)
    (hl : e.typ = .link → ∃ t ∈ st.out, t.name = e.linkname ∧ t.typ ≠ .link) :
    StInv { st with out := e :: st.out } :=
  ⟨fun x hx => by simp at hx; rcases hx with rfl | hx; exact hd; exact h.dirSlash x hx,
   ⟨hl, h.links⟩,
   fun x hx => by obtain ⟨t, ht, h1, h2⟩ := h.seen x hx; exact ⟨t, by simp [ht], h1, h2⟩⟩

/-- what `emitP` appends: one entry with the header's name, type and link name -/
theorem emit_all (st : PackState) (path : Str) (hdr : Entry) :
    (emitP st path hdr).All (fun st' => ∃ e, st' = { st with out := e :: st.out } ∧ e.name = hdr.name ∧
      e.typ = hdr.typ ∧ e.linkname = hdr.linkname) := by
  unfold emitP
  split
  · intro r
    cases r <;> exact ⟨_, rfl, rfl, rfl, rfl⟩
  · exact ⟨_, rfl, rfl, rfl, rfl⟩

theorem buildHeader_typ (name : Str) (s : StatInfo) (link : Str) (capR : Res) :
    (buildHeader name s link capR).typ = typOfKind s.kind ∧
    (buildHeader name s link capR).name = canonicalTarName name (s.kind == .dir) := ⟨rfl, rfl⟩

/-- **one `addTarFile` keeps the archive self-consistent** (default whiteout format): directory
    names end in "/", every hard-link entry follows, and names, an earlier non-link entry, and
    every remembered inode has such an entry — for every ID mapping (an entry left out for an
    untranslatable owner is forgotten again: fix D22) -/
theorem addTarFile_inv (o : PackOpts) (st : PackState) (path name : Str) (h : StInv st) (hov : o.overlay = false) :
    (addTarFileP o st path name).All StInv := by
  have after : ∀ (s : StatInfo) (link : Str) (capR : Res), (afterStatP o st path name s link capR).All StInv := by
    intro s link capR
    unfold afterStatP
    simp only
    split
    · exact h
    rename_i u g _
    simp only [hov, Bool.false_eq_true, if_false]
    -- the state and header after the hard-link stage
    unfold linkStage
    by_cases hl : (s.kind != .dir && decide (s.nlink > 1)) = true
    · simp only [hl, if_true]
      cases hf : st.seenInodes.find? (fun x => x.1 = s.ino) with
      | some x =>
        obtain ⟨ino, old⟩ := x
        simp only
        have hmem := List.mem_of_find?_eq_some hf
        obtain ⟨t, ht, htn, htl⟩ := h.seen (ino, old) hmem
        refine RProg.All.mono ?_ _ (emit_all st path _)
        rintro st' ⟨e, rfl, hn, hty, hln⟩
        refine h.push e ?_ ?_
        · intro hd; rw [hty] at hd; cases hd
        · intro _; rw [hln]; exact ⟨t, ht, htn, htl⟩
      | none =>
        simp only
        have hnd : s.kind ≠ .dir := by
          intro e; rw [e] at hl; simp at hl
        have hst : StInv { st with seenInodes := (s.ino, name) :: st.seenInodes } → True := fun _ => trivial
        refine RProg.All.mono ?_ _ (emit_all _ path _)
        rintro st' ⟨e, rfl, hn, hty, hln⟩
        have hname : e.name = name := by
          rw [hn]; simp only [buildHeader]
          have : (s.kind == Kind.dir) = false := by simpa using hnd
          rw [this, canonical_nondir]
        have htyp : e.typ = typOfKind s.kind := by rw [hty]; rfl
        refine ⟨?_, ?_, ?_⟩
        · intro x hx
          simp at hx
          rcases hx with rfl | hx
          · intro hd; rw [htyp, typOfKind_dir] at hd; exact absurd hd hnd
          · exact h.dirSlash x hx
        · exact ⟨fun hlk => by rw [htyp] at hlk; exact absurd hlk (typOfKind_ne_link _), h.links⟩
        · intro x hx
          simp at hx
          rcases hx with rfl | hx
          · exact ⟨e, by simp, hname, by rw [htyp]; exact typOfKind_ne_link _⟩
          · obtain ⟨t, ht, h1, h2⟩ := h.seen x hx
            exact ⟨t, by simp [ht], h1, h2⟩
    · have hl' : (s.kind != .dir && decide (s.nlink > 1)) = false := by simpa using hl
      simp only [hl', Bool.false_eq_true, if_false]
      refine RProg.All.mono ?_ _ (emit_all st path _)
      rintro st' ⟨e, rfl, hn, hty, hln⟩
      refine h.push e ?_ ?_
      · intro hd
        rw [hn]
        have : typOfKind s.kind = .dir := by rw [← hd, hty]; rfl
        have hk := (typOfKind_dir s.kind).mp this
        simp only [buildHeader, hk, beq_self_eq_true]
        exact canonical_dir name
      · intro hlk
        have : e.typ = typOfKind s.kind := by rw [hty]; rfl
        rw [this] at hlk; exact absurd hlk (typOfKind_ne_link _)
  unfold addTarFileP
  intro r
  cases r with
  | stat s =>
    simp only
    split
    · intro lr
      cases lr <;> first | exact h | (intro capR; exact after s _ capR)
    · intro capR; exact after s [] capR
  | _ => exact h

theorem rbind_all {α β : Type} {P : α → Prop} {Q : β → Prop} (m : RProg α) (f : α → RProg β)
    (hm : m.All P) (hf : ∀ a, P a → (f a).All Q) : (m.bind f).All Q := RProg.All.bind m f hm hf

/-- the invariant survives the walk of one include -/
theorem walk_inv (o : PackOpts) (src inc : Str) (hov : o.overlay = false) :
    ∀ (items : List (Str × Kind × Nat)) (ws : WalkSt) (st : PackState), StInv st →
      (walkP o src inc items ws st).All StInv := by
  intro items
  induction items with
  | nil => intro ws st h; exact h
  | cons it rest ih =>
    intro ws st h
    obtain ⟨filePath, kind, depth⟩ := it
    simp only [walkP]
    split
    · exact ih _ _ h
    · exact rbind_all _ _ (addTarFile_inv o _ _ _ ⟨h.dirSlash, h.links, h.seen⟩ hov) (fun st2 h2 => ih _ st2 h2)

theorem includes_inv (o : PackOpts) (src : Str) (hov : o.overlay = false) :
    ∀ (incs : List Str) (st : PackState), StInv st → (includesP o src incs st).All StInv := by
  intro incs
  induction incs with
  | nil => intro st h; exact h
  | cons inc incs ih =>
    intro st h
    simp only [includesP]
    intro t
    cases t with
    | tree items =>
      exact rbind_all _ _ (walk_inv o src inc hov items {} st h) (fun st1 h1 => ih st1 h1)
    | _ => exact ih st h

theorem linksOK_reverse_spec : ∀ (out : List Entry), LinksOK out →
    ∀ (i : Nat) (e : Entry), out.reverse[i]? = some e → e.typ = .link →
      ∃ j t, j < i ∧ out.reverse[j]? = some t ∧ t.name = e.linkname ∧ t.typ ≠ .link := by
  intro out
  induction out with
  | nil => intro _ i e h; simp at h
  | cons x xs ih =>
    intro hl i e hi hty
    simp only [List.reverse_cons] at hi ⊢
    by_cases hlt : i < xs.reverse.length
    · rw [List.getElem?_append_left hlt] at hi
      obtain ⟨j, t, hj, ht, h1, h2⟩ := ih hl.2 i e hi hty
      exact ⟨j, t, hj, by rw [List.getElem?_append_left (by omega)]; exact ht, h1, h2⟩
    · have hi' : i = xs.reverse.length := by
        have := List.getElem?_eq_some_iff.mp hi
        obtain ⟨hlen, _⟩ := this
        simp only [List.length_append, List.length_reverse, List.length_cons, List.length_nil] at hlen hlt ⊢
        omega
      subst hi'
      simp at hi
      subst hi
      obtain ⟨t, ht, h1, h2⟩ := hl.1 hty
      have htr : t ∈ xs.reverse := by simpa using ht
      obtain ⟨j, hj⟩ := List.getElem?_of_mem htr
      have hjl : j < xs.reverse.length := by
        have := List.getElem?_eq_some_iff.mp hj; exact this.1
      exact ⟨j, t, hjl, by rw [List.getElem?_append_left hjl]; exact hj, h1, h2⟩

/-- **every archive `TarWithOptions` produces, on any filesystem**: a directory's name ends in "/",
    and every hard-link entry follows, and names, an earlier entry that is not itself a link -/
theorem tar_self_consistent (src : Str) (o : PackOpts) (w : World) (hov : o.overlay = false) :
    let es := ((tarP src o).run w).1
    (∀ e ∈ es, e.typ = .dir → hasSuffix e.name slashStr = true) ∧
    (∀ (i : Nat) (e : Entry), es[i]? = some e → e.typ = .link →
      ∃ j t, j < i ∧ es[j]? = some t ∧ t.name = e.linkname ∧ t.typ ≠ .link) := by
  have hall : (tarR src o).All (fun es => ∃ st : PackState, StInv st ∧ es = st.out.reverse) := by
    unfold tarR
    intro r
    cases r with
    | stat s =>
      simp only
      have h0 : StInv ({} : PackState) := ⟨by simp, trivial, by simp⟩
      exact rbind_all _ _ (includes_inv o _ hov _ {} h0) (fun st hst => ⟨st, hst, rfl⟩)
    | _ =>
      have h0 : StInv ({} : PackState) := ⟨by simp, trivial, by simp⟩
      exact ⟨{}, h0, rfl⟩
  obtain ⟨st, hst, hes⟩ := RProg.All.run (tarR src o) w hall
  unfold tarP
  simp only
  rw [hes]
  exact ⟨fun e he => hst.dirSlash e (by simpa using he), linksOK_reverse_spec st.out hst.links⟩

/-! ### exported layers (`ExportChanges`) -/

theorem export_inv (o : PackOpts) (dirS : Str) (now : Int) (hov : o.overlay = false) :
    ∀ (cs : List Change) (st : PackState), StInv st → (exportLoop o dirS now cs st).All StInv := by
  intro cs
  induction cs with
  | nil => intro st h; exact h
  | cons c cs ih =>
    intro st h
    simp only [exportLoop]
    split
    · refine ih _ (h.push _ ?_ ?_)
      · intro hd; simp [whiteoutHdr] at hd
      · intro hl; simp [whiteoutHdr] at hl
    · exact rbind_all _ _ (addTarFile_inv o st _ _ h hov) (fun st2 h2 => ih st2 h2)

/-- **every layer `ExportChanges` produces, for every change list, ID map, clock value and filesystem**:
    directory names end in "/", and every hard-link entry follows, and names, an earlier non-link
    entry of the same archive -/
theorem export_self_consistent (dirS : Str) (changes : List Change) (um gm : List IDRange) (now : Int) (w : World) :
    let es := ((exportP dirS changes um gm now).run w).1
    (∀ e ∈ es, e.typ = .dir → hasSuffix e.name slashStr = true) ∧
    (∀ (i : Nat) (e : Entry), es[i]? = some e → e.typ = .link →
      ∃ j t, j < i ∧ es[j]? = some t ∧ t.name = e.linkname ∧ t.typ ≠ .link) := by
  have hall : (exportR dirS changes um gm now).All (fun es => ∃ st : PackState, StInv st ∧ es = st.out.reverse) := by
    unfold exportR
    have h0 : StInv ({} : PackState) := ⟨by simp, trivial, by simp⟩
    exact rbind_all _ _ (export_inv _ dirS now rfl _ {} h0) (fun st hst => ⟨st, hst, rfl⟩)
  obtain ⟨st, hst, hes⟩ := RProg.All.run (exportR dirS changes um gm now) w hall
  unfold exportP
  simp only
  rw [hes]
  exact ⟨fun e he => hst.dirSlash e (by simpa using he), linksOK_reverse_spec st.out hst.links⟩

/-- a deletion marker is a plain empty file named by the whiteout prefix; it never carries data -/
theorem whiteoutHdr_shape (path : Str) (now : Int) :
    (whiteoutHdr path now).typ = .reg ∧ (whiteoutHdr path now).size = 0 ∧ (whiteoutHdr path now).body = [] ∧
    (whiteoutHdr path now).mtime = now := ⟨rfl, rfl, rfl, rfl⟩

/-! ### reproducibility: the producers consult no clock, no random source and no map order -/

theorem pack_deterministic_sources :
    Facts.packRangeExprs = ["t.options.IncludeFiles", "t.pm.Patterns()"] ∧ Facts.packClockCalls = 0 ∧
    Facts.exportRangeExprs = ["changes"] ∧ Facts.exportClockCalls = 1 := ⟨rfl, rfl, rfl, rfl⟩

/-- in the model the archive is a function of the options and the filesystem — nothing else -/
theorem tar_reproducible (src : Str) (o : PackOpts) (w : World) :
    ((tarP src o).run w).1 = ((tarP src o).run ((tarP src o).run w).2).1 := by
  have hw : WorldEq [] w w :=
    ⟨⟨rfl, fun _ _ _ _ => rfl, fun _ _ _ _ => rfl⟩, rfl, rfl, by simp [under]⟩
  unfold tarP
  rw [(rprog_inside_determined (tarR src o) w w hw).2.1]

end GA.C09
