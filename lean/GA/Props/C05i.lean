import GA.Proofs.ImpliedPost
import GA.Props.C05c
/-
  C05, "missing parents exist with the documented implied-directory mode and root-pair owner": what
  `createImpliedDirectories` leaves behind, on the kernel model in a symlink-free world, for every destination,
  every entry name that passed the breakout check, every ID map and every prior tree, with no bound on how many
  levels are missing.  When the entry's parent directory is missing and the call does not fail, the parent and
  every ancestor of it that was missing too (each path whose `stat` said "no such file") now exist with the
  permission bits of `ImpliedDirectoryMode` (0755, whatever the umask) and — when the ID map translates container
  root — the root pair as owner.  Directories that existed are not in the list: `WithOnlyNew`.

  (The proof follows `MkdirAllAndChown`: the list of missing paths is collected before `MkdirAll`, then
  `setPermissions` runs over it; a later `setPermissions` on another path cannot undo an earlier one because it
  sets the same bits and the same owner — `has_setPermissions`.)
-/
namespace GA.C05
open GA

theorem implied_parents_mode_owner (dp : Path) (dest x : Str) (o : Opts) (hd : CleanAbs dest) (hdp : pathComps dest = dp)
    (hin : dp <+: pathComps (join dest (clean x)))
    (w : World) (hw : LW dp w)
    (hns : hasSuffix (clean x) slashStr = false)
    (hmiss : isENOENT (step w (.lstat (join dest (dir (clean x))))).1 = true)
    (hok : isErr ((impliedDirsP dest (clean x) o).run w).1 = false) :
    LW dp ((impliedDirsP dest (clean x) o).run w).2 ∧
    ∀ d, (d = join dest (dir (clean x)) ∨
          d ∈ ancestorsOf (join dest (dir (clean x))).length (join dest (dir (clean x)))) →
      isENOENT (step w (.stat d)).1 = true →
      ∃ i n, ((impliedDirsP dest (clean x) o).run w).2.fs.lookup (pathComps d) = some i ∧
        ((impliedDirsP dest (clean x) o).run w).2.fs.inode i = some n ∧
        n.perm &&& 0o777 = 0o755 ∧ (∀ u g, rootPair o = some (u, g) → n.uid = u ∧ n.gid = g) := by
  obtain ⟨hpc, hPc, hcmp⟩ := implied_parent_comparable dest x hd
  have hclean : clean (join dest (dir (clean x))) = join dest (dir (clean x)) := clean_of_cleanAbs _ hpc
  -- the parent is missing, so it is not at or above the destination
  have hnab : ¬ pathComps (join dest (dir (clean x))) <+: dp := by
    intro h
    have := (stat_above dp w hw _ false hpc.ne_nil hpc.no_dotdot h).2
    simp only [step] at hmiss
    rw [hmiss] at this; cases this
  have hpin : dp <+: pathComps (join dest (dir (clean x))) := by
    rcases hcmp with h | h
    · rcases List.prefix_or_prefix_of_prefix hin h with h' | h'
      · exact h'
      · exact absurd h' hnab
    · exact hin.trans h
  have hnd : ∀ s, (step w (.stat (clean (join dest (dir (clean x)))))).1 ≠ .stat s := by
    intro s hs
    rw [hclean] at hs
    simp only [step] at hs hmiss
    unfold statRes at hs hmiss
    rw [resolve_flag_irrelevant w hw.inv.nosym _ true false] at hs
    rw [hs] at hmiss
    cases hmiss
  unfold impliedDirsP at hok ⊢
  simp only [hns, Bool.false_eq_true, if_false] at hok ⊢
  rw [run_sys_bind, lstat_world] at hok ⊢
  simp only [hmiss, if_true] at hok ⊢
  have hpost := mkdirAllAndChown_post dp (join dest (dir (clean x))) impliedMode (rootPair o)
    (by rw [hclean]; exact hpc) (by rw [hclean]; exact hpin) w hw hnd hok
  refine ⟨hpost.1, ?_⟩
  intro d hdm he
  rw [hclean] at hpost
  obtain ⟨i, hl, n, hi, hq⟩ := hpost.2 d hdm he
  exact ⟨i, n, hl, hi, by rw [hq.1]; decide, hq.2⟩

/-! ### non-vacuity: `p/q/f` into a destination that has neither `p` nor `p/q` -/

example : ∃ i1 n1 i2 n2,
    ((impliedDirsP (clean b!"/w/dest") (clean b!"p/q/f") {}).run { fs := exFS2 }).2.fs.lookup [b!"w", b!"dest", b!"p"] = some i1 ∧
    ((impliedDirsP (clean b!"/w/dest") (clean b!"p/q/f") {}).run { fs := exFS2 }).2.fs.inode i1 = some n1 ∧
    n1.perm &&& 0o777 = 0o755 ∧
    ((impliedDirsP (clean b!"/w/dest") (clean b!"p/q/f") {}).run { fs := exFS2 }).2.fs.lookup [b!"w", b!"dest", b!"p", b!"q"] = some i2 ∧
    ((impliedDirsP (clean b!"/w/dest") (clean b!"p/q/f") {}).run { fs := exFS2 }).2.fs.inode i2 = some n2 ∧
    n2.perm &&& 0o777 = 0o755 := by
  have h := implied_parents_mode_owner (pathComps (clean b!"/w/dest")) (clean b!"/w/dest") b!"p/q/f" {}
    (clean_cleanAbs _ (by decide)) rfl (by decide) { fs := exFS2 } exFS2_LW (by decide) (by decide) (by decide)
  obtain ⟨i2, n2, hl2, hi2, hp2, _⟩ := h.2 (join (clean b!"/w/dest") (dir (clean b!"p/q/f"))) (Or.inl rfl) (by decide)
  obtain ⟨i1, n1, hl1, hi1, hp1, _⟩ := h.2 b!"/w/dest/p" (Or.inr (by decide)) (by decide)
  exact ⟨i1, n1, i2, n2, hl1, hi1, hp1, hl2, hi2, hp2⟩

end GA.C05
