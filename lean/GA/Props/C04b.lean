import GA.Props.C10b
import GA.M.TreeApply
/-
  C04, the heart of it at the level of trees: the list `Changes` computes carries enough to turn the old
  tree into the new one under the sequential semantics of layer apply — a deletion removes the path and
  everything beneath it; any other entry carries the new tree's metadata for its path, merges onto an
  existing directory when it is itself a directory, and otherwise replaces whatever was there together with
  everything beneath.  Applied in any order that puts a directory before its contents (the order `Changes`
  produces, and the byte-wise path order `ExportChanges` sorts into), the result is the new tree: the same
  set of paths, and at each path the new metadata — exactly where an entry was exported, and up to what the
  comparison does not track (`differs`: a directory's own mtime and size, a file rewrite that keeps size and
  mtime second) where none was.
-/
namespace GA.TreeDiff
open GA

/-- what layer apply is expected to reproduce: everything the comparison looks at, times to the second, and
    for a directory neither its size nor its time -/
def Tracked (x y : Stat) : Prop :=
  x.mode = y.mode ∧ x.isDir = y.isDir ∧ x.uid = y.uid ∧ x.gid = y.gid ∧ x.rdev = y.rdev ∧ x.cap = y.cap ∧
  (x.isDir = false → x.size = y.size ∧ x.mtimeSec = y.mtimeSec)

def Eqv : Option Stat → Option Stat → Prop
  | none, none => True
  | some x, some y => Tracked x y
  | _, _ => False

theorem Tracked.refl (x : Stat) : Tracked x x := ⟨rfl, rfl, rfl, rfl, rfl, rfl, fun _ => ⟨rfl, rfl⟩⟩

theorem Tracked.trans {x y z : Stat} (h1 : Tracked x y) (h2 : Tracked y z) : Tracked x z := by
  obtain ⟨a1, a2, a3, a4, a5, a6, a7⟩ := h1
  obtain ⟨b1, b2, b3, b4, b5, b6, b7⟩ := h2
  refine ⟨a1.trans b1, a2.trans b2, a3.trans b3, a4.trans b4, a5.trans b5, a6.trans b6, fun hd => ?_⟩
  have := a7 hd
  have := b7 (by rw [← a2]; exact hd)
  exact ⟨by omega, by omega⟩

theorem Eqv.refl (a : Option Stat) : Eqv a a := by
  cases a with
  | none => trivial
  | some x => exact Tracked.refl x

/-- what the comparison does not distinguish is tracked-equal, given that the mode word carries the type -/
theorem tracked_of_not_differs {o n : Stat} (hk : o.isDir = n.isDir) (h : differs o n = false) : Tracked o n := by
  unfold differs at h
  simp only [Bool.or_eq_false_iff, bne_eq_false_iff_eq, Bool.and_eq_false_iff, Bool.not_eq_eq_eq_not,
    Bool.not_false] at h
  obtain ⟨⟨⟨⟨⟨hm, hu⟩, hg⟩, hr⟩, ht⟩, hc⟩ := h
  refine ⟨hm, hk, hu, hg, hr, hc, fun hd => ?_⟩
  rcases ht with ht | ht
  · rw [hd] at ht; cases ht
  · refine ⟨ht.2, ?_⟩
    have := ht.1
    unfold sameFsTime at this
    simp only [Bool.or_eq_true, Bool.and_eq_true, beq_iff_eq] at this
    rcases this with h1 | h1 <;> exact h1.1

/-! ### `findIn` along prefixes -/

theorem findIn_append : ∀ (a : List Str) (s : List Str) (l : List Info), a ≠ [] → s ≠ [] →
    findIn l (a ++ s) = match findIn l a with
      | some m => findIn m.children s
      | none => none
  | [], _, _, h, _ => absurd rfl h
  | [c], s, l, _, hs => by
    cases s with
    | nil => exact absurd rfl hs
    | cons c2 r =>
      show findIn l (c :: c2 :: r) = _
      rw [findIn_cons2, findIn_single]
      cases findChild l c <;> rfl
  | c :: c2 :: a, s, l, _, hs => by
    show findIn l (c :: c2 :: (a ++ s)) = _
    rw [findIn_cons2, findIn_cons2]
    cases hc : findChild l c with
    | none => rfl
    | some n =>
      simp only
      exact findIn_append (c2 :: a) s n.children (by simp) hs

/-- a path that exists has all its non-empty proper prefixes, and they are directories -/
theorem findIn_ancestor (l : List Info) (hl : listShape l) (a s : List Str) (ha : a ≠ []) (hs : s ≠ []) (n : Info)
    (h : findIn l (a ++ s) = some n) : ∃ m, findIn l a = some m ∧ m.st.isDir = true := by
  rw [findIn_append a s l ha hs] at h
  cases hm : findIn l a with
  | none => rw [hm] at h; cases h
  | some m =>
    rw [hm] at h
    simp only at h
    refine ⟨m, rfl, ?_⟩
    have hsh := Shape_children (findIn_Shape a l m hl hm)
    cases hd : m.st.isDir with
    | true => rfl
    | false =>
      rw [hsh.1 hd] at h
      simp at h

theorem view_ancestor (t : Info) (hsh : t.Shape) (a s : List Str) (ha : a ≠ []) (hs : s ≠ []) (x : Stat)
    (h : view t (a ++ s) = some x) : ∃ y, view t a = some y ∧ y.isDir = true := by
  unfold view at h ⊢
  cases hf : findIn t.children (a ++ s) with
  | none => rw [hf] at h; cases h
  | some n =>
    obtain ⟨m, hm, hd⟩ := findIn_ancestor t.children (Shape_children hsh).2 a s ha hs n hf
    exact ⟨m.st, by rw [hm]; rfl, hd⟩

/-! ### what one change does to a path -/

theorem applyOne_other (nv v : View) (c : Change) (q : List Str) (h : ¬ c.path <+: q) : applyOne nv v c q = v q := by
  have hb : c.path.isPrefixOf q = false := by
    cases hh : c.path.isPrefixOf q with
    | false => rfl
    | true => exact absurd (List.isPrefixOf_iff_prefix.mp hh) h
  have hne : q ≠ c.path := fun e => h (e ▸ List.prefix_refl _)
  unfold applyOne
  cases c.kind <;> simp only [hb, if_false, Bool.false_eq_true]
  all_goals
    cases nv c.path with
    | none => rfl
    | some s =>
      simp only
      split <;> simp [hne, hb]

/-- a path absent from the new tree stays absent once it is gone -/
theorem applyOne_keeps_none (nv v : View) (c : Change) (q : List Str) (hq : v q = none) (hn : nv q = none) :
    applyOne nv v c q = none := by
  by_cases hp : c.path <+: q
  · have hb : c.path.isPrefixOf q = true := List.isPrefixOf_iff_prefix.mpr hp
    unfold applyOne
    cases hk : c.kind
    · simp only
      cases hs : nv c.path with
      | none => exact hq
      | some s =>
        have hne : q ≠ c.path := by intro e; rw [e] at hn; rw [hn] at hs; cases hs
        simp only
        split <;> simp [hne, hb, hq]
    · simp only
      cases hs : nv c.path with
      | none => exact hq
      | some s =>
        have hne : q ≠ c.path := by intro e; rw [e] at hn; rw [hn] at hs; cases hs
        simp only
        split <;> simp [hne, hb, hq]
    · simp [hb]
  · rw [applyOne_other nv v c q hp]; exact hq

theorem foldl_keeps_none (nv : View) (q : List Str) (hn : nv q = none) : ∀ (L : List Change) (v : View), v q = none →
    (L.foldl (applyOne nv) v) q = none
  | [], _, h => h
  | c :: L, v, h => foldl_keeps_none nv q hn L _ (applyOne_keeps_none nv v c q h hn)

/-- an entry for the path itself leaves the new metadata there -/
theorem applyOne_self (nv v : View) (c : Change) (s : Stat) (hk : c.kind ≠ .delete) (hs : nv c.path = some s) :
    applyOne nv v c c.path = some s := by
  unfold applyOne
  cases hk' : c.kind
  · simp only [hs]; split <;> simp
  · simp only [hs]; split <;> simp
  · exact absurd hk' hk

/-- the mode word carries the type: `isDir` is the directory bit of `mode` (os.ModeDir = 1<<31) -/
def Typed (t : Info) : Prop := ∀ p n, findIn t.children p = some n → n.st.isDir = n.st.mode.testBit 31

theorem differs_of_kind {o n : Stat} (ho : o.isDir = o.mode.testBit 31) (hn : n.isDir = n.mode.testBit 31)
    (h : o.isDir ≠ n.isDir) : differs o n = true := by
  have : o.mode ≠ n.mode := fun e => h (by rw [ho, hn, e])
  unfold differs
  simp [this]

theorem view_some {t : Info} {q : List Str} {x : Stat} (h : view t q = some x) :
    ∃ n, findIn t.children q = some n ∧ n.st = x := by
  unfold view at h
  cases hf : findIn t.children q with
  | none => rw [hf] at h; cases h
  | some n => rw [hf] at h; exact ⟨n, rfl, by simpa using h⟩

theorem view_none {t : Info} {q : List Str} (h : view t q = none) : findIn t.children q = none := by
  unfold view at h
  cases hf : findIn t.children q with
  | none => rfl
  | some n => rw [hf] at h; cases h

theorem view_of_find {t : Info} {q : List Str} {n : Info} (h : findIn t.children q = some n) : view t q = some n.st := by
  unfold view; rw [h]; rfl

/-- a merge: a directory entry onto a directory changes that path only -/
theorem applyOne_merge (nv v : View) (c : Change) (s : Stat) (hk : c.kind ≠ .delete) (hs : nv c.path = some s)
    (hd : s.isDir = true) (hv : isDirAt v c.path = true) :
    applyOne nv v c = fun q => if q = c.path then some s else v q := by
  unfold applyOne
  cases hk' : c.kind
  · simp [hs, hd, hv]
  · simp [hs, hd, hv]
  · exact absurd hk' hk

theorem foldl_after_self (nv : View) (p : List Str) (n : Stat) (hn : nv p = some n) : ∀ (L : List Change) (v : View),
    v p = some n → (∀ c ∈ L, c.path <+: p → c.path = p ∧ c.kind ≠ .delete) → (L.foldl (applyOne nv) v) p = some n
  | [], v, h, _ => h
  | c :: L, v, h, hall => by
    simp only [List.foldl_cons]
    apply foldl_after_self nv p n hn L _ _ (fun c' hc' => hall c' (by simp [hc']))
    by_cases hp : c.path <+: p
    · obtain ⟨he, hk⟩ := hall c (by simp) hp
      rw [← he]
      exact applyOne_self nv v c n hk (by rw [he]; exact hn)
    · rw [applyOne_other nv v c p hp]; exact h

/-- the first missing step on the way to a path the new tree does not have -/
theorem first_missing (nv : View) : ∀ (n : Nat) (p : List Str), p.length = n → p ≠ [] → nv p = none →
    ∃ a c, (a ++ [c]) <+: p ∧ nv (a ++ [c]) = none ∧ (a = [] ∨ ∃ y, nv a = some y) := by
  intro n
  induction n with
  | zero => intro p hl hp _; exact absurd (List.length_eq_zero_iff.mp hl) hp
  | succ n ih =>
    intro p hl hp hn
    rcases List.eq_nil_or_concat p with h0 | ⟨q, c, hq⟩
    · exact absurd h0 hp
    · have hq' : p = q ++ [c] := by simpa using hq
      subst hq'
      by_cases hq0 : q = []
      · exact ⟨[], c, by rw [hq0]; exact List.prefix_refl _, by rw [hq0] at hn; exact hn, Or.inl rfl⟩
      · cases hnq : nv q with
        | some y => exact ⟨q, c, List.prefix_refl _, hn, Or.inr ⟨y, hnq⟩⟩
        | none =>
          have hlq : q.length = n := by simp at hl; exact hl
          obtain ⟨a, c', hpre, hnone, hpar⟩ := ih q hlq hq0 hnq
          exact ⟨a, c', hpre.trans (List.prefix_append _ _), hnone, hpar⟩

/-- **applying the computed changes to the old tree gives the new tree** — for all pairs of trees, in every
    order that puts a directory before its contents -/
theorem apply_changes_step (new old : Info) (hwf : new.WF) (hsh : new.Shape) (hsho : old.Shape)
    (htn : Typed new) (hto : Typed old)
    (L : List Change) (hmem : ∀ c, c ∈ L ↔ c ∈ changes new old) (hord : Ordered L)
    (v0 : View) (h0 : ∀ q, q ≠ [] → Eqv (v0 q) (view old q))
    (p : List Str) (hp : p ≠ []) :
    Eqv ((L.foldl (applyOne (view new)) v0) p) (view new p) := by
  have hroot : ∀ c ∈ L, c.path ≠ [] := by
    intro c hc e
    have := (hmem c).mp hc
    cases c with
    | mk cp ck =>
      simp only at e
      subst e
      exact root_never_reported new old hwf ck this
  have hnodel : ∀ c ∈ L, c.kind = .delete → view new c.path = none := by
    intro c hc hk
    have := (hmem c).mp hc
    cases c with
    | mk cp ck =>
      simp only at hk ⊢
      subst hk
      have := (deletions_exact new old hwf hsh cp).mp this
      unfold view; rw [this.1]; rfl
  cases hnp : view new p with
  | some n =>
    by_cases hex : ∃ c ∈ L, c.path = p
    · -- an entry for the path itself: it leaves the new metadata there, and nothing later disturbs it
      obtain ⟨c, hc, hcp⟩ := hex
      have hck : c.kind ≠ .delete := by
        intro hk
        have := hnodel c hc hk
        rw [hcp, hnp] at this; cases this
      obtain ⟨L1, L2, rfl⟩ := List.append_of_mem hc
      rw [List.foldl_append, List.foldl_cons]
      have hafter : ∀ c' ∈ L2, c'.path <+: p → c'.path = p ∧ c'.kind ≠ .delete := by
        intro c' hc' hpre
        have hpw := (List.pairwise_append.mp hord).2.1
        have hcc' := (List.pairwise_cons.mp hpw).1 c' hc'
        have he : c'.path = p := by
          by_cases he : c'.path = p
          · exact he
          · exact absurd ⟨hcp ▸ hpre, hcp ▸ he⟩ hcc'
        refine ⟨he, fun hk => ?_⟩
        have := hnodel c' (by simp [hc']) hk
        rw [he, hnp] at this; cases this
      have hself : applyOne (view new) (List.foldl (applyOne (view new)) v0 L1) c p = some n := by
        rw [← hcp]; exact applyOne_self _ _ c n hck (by rw [hcp]; exact hnp)
      rw [foldl_after_self (view new) p n hnp L2 _ hself hafter]
      exact Tracked.refl n
    · -- no entry for the path: it existed, undistinguishable, and every entry above it is a merge
      have hnone : ∀ c ∈ L, c.path ≠ p := fun c hc e => hex ⟨c, hc, e⟩
      obtain ⟨nn, hfn, hnn⟩ := view_some hnp
      cases hop : view old p with
      | none =>
        exfalso
        have := (additions_exact new old hwf hsh p).mpr ⟨by rw [hfn]; rfl, view_none hop⟩
        exact hnone _ ((hmem _).mpr this) rfl
      | some o =>
        obtain ⟨on, hfo, hon⟩ := view_some hop
        have hdiff : differs o n = false := by
          cases hd : differs o n with
          | false => rfl
          | true =>
            exfalso
            have := (modifications_exact new old hwf hsh p).mpr ⟨nn, on, hfn, hfo, Or.inl (by rw [hon, hnn]; exact hd)⟩
            exact hnone _ ((hmem _).mpr this) rfl
        have hv0 : ∃ o', v0 p = some o' ∧ Tracked o' o := by
          have := h0 p hp
          rw [hop] at this
          cases hv : v0 p with
          | none => rw [hv] at this; exact absurd this (by simp [Eqv])
          | some o' => rw [hv] at this; exact ⟨o', rfl, this⟩
        obtain ⟨o', hv0p, htr⟩ := hv0
        have key : ∀ (M : List Change) (v : View), (∀ c ∈ M, c ∈ L) → v p = some o' →
            (∀ a s, p = a ++ s → a ≠ [] → s ≠ [] → isDirAt v a = true) →
            (M.foldl (applyOne (view new)) v) p = some o' := by
          intro M
          induction M with
          | nil => intro v _ h _; exact h
          | cons c M ih =>
            intro v hM hv hanc
            simp only [List.foldl_cons]
            have hcL : c ∈ L := hM c (by simp)
            by_cases hpre : c.path <+: p
            · obtain ⟨s0, hs0⟩ := hpre
              have hs0ne : s0 ≠ [] := by
                intro e; rw [e] at hs0; simp at hs0; exact hnone c hcL hs0
              have hane : c.path ≠ [] := hroot c hcL
              obtain ⟨y, hy, hyd⟩ := view_ancestor new hsh c.path s0 hane hs0ne n (by rw [hs0]; exact hnp)
              have hck : c.kind ≠ .delete := by
                intro hk
                have := hnodel c hcL hk
                rw [hy] at this; cases this
              have hm := applyOne_merge (view new) v c y hck hy hyd (hanc c.path s0 hs0.symm hane hs0ne)
              rw [hm]
              apply ih _ (fun c' hc' => hM c' (by simp [hc']))
              · have : p ≠ c.path := by
                  intro e
                  exact hnone c hcL e.symm
                simp [this, hv]
              · intro a s hpa ha hs
                by_cases hac : a = c.path
                · simp [hac, isDirAt, hyd]
                · have := hanc a s hpa ha hs
                  simp only [isDirAt, hac, if_false] at this ⊢
                  exact this
            · apply ih _ (fun c' hc' => hM c' (by simp [hc']))
              · rw [applyOne_other _ _ c p hpre]; exact hv
              · intro a s hpa ha hs
                have hna : ¬ c.path <+: a := fun h => hpre (h.trans (by rw [hpa]; exact List.prefix_append _ _))
                have := hanc a s hpa ha hs
                simp only [isDirAt] at this ⊢
                rw [applyOne_other _ _ c a hna]; exact this
        have hinit : ∀ a s, p = a ++ s → a ≠ [] → s ≠ [] → isDirAt v0 a = true := by
          intro a s hpa ha hs
          obtain ⟨y, hy, hyd⟩ := view_ancestor old hsho a s ha hs o (by rw [← hpa]; exact hop)
          have := h0 a ha
          rw [hy] at this
          cases hv : v0 a with
          | none => rw [hv] at this; exact absurd this (by simp [Eqv])
          | some y' =>
            rw [hv] at this
            have hk : y'.isDir = y.isDir := this.2.1
            simp [isDirAt, hv, hk, hyd]
        rw [key L v0 (fun _ h => h) hv0p hinit]
        have hk : o.isDir = n.isDir := by
          rw [← hon, ← hnn, hto p on hfo, htn p nn hfn]
          have hm : differs on.st nn.st = false := by rw [hon, hnn]; exact hdiff
          unfold differs at hm
          simp only [Bool.or_eq_false_iff, bne_eq_false_iff_eq] at hm
          rw [hm.1.1.1.1.1]
        exact htr.trans (tracked_of_not_differs hk hdiff)
  | none =>
    cases hop : view old p with
    | none =>
      have hv : v0 p = none := by
        have := h0 p hp
        rw [hop] at this
        cases hv : v0 p with
        | none => rfl
        | some y => rw [hv] at this; exact absurd this (by simp [Eqv])
      rw [foldl_keeps_none (view new) p hnp L v0 hv]
      trivial
    | some o =>
      -- the path has to go: a whiteout at the first missing step, or a non-directory put in its way
      obtain ⟨a, c, hpre, hmiss, hpar⟩ := first_missing (view new) p.length p rfl hp hnp
      have hold : ∃ x, view old (a ++ [c]) = some x := by
        obtain ⟨s, hs⟩ := hpre
        by_cases hs0 : s = []
        · rw [hs0] at hs; simp at hs; rw [hs]; exact ⟨o, hop⟩
        · obtain ⟨y, hy, _⟩ := view_ancestor old hsho (a ++ [c]) s (by simp) hs0 o (by rw [hs]; exact hop)
          exact ⟨y, hy⟩
      obtain ⟨x, hx⟩ := hold
      obtain ⟨xn, hfx, _⟩ := view_some hx
      have hkill : ∃ k ∈ L, ∀ v, applyOne (view new) v k p = none := by
        have hdelcase : (a = [] ∨ ∃ pn, findIn new.children a = some pn ∧ pn.st.isDir = true) →
            ∃ k ∈ L, ∀ v, applyOne (view new) v k p = none := by
          intro hcond
          have hin := (deletions_exact new old hwf hsh (a ++ [c])).mpr
            ⟨view_none hmiss, by rw [hfx]; rfl, by rw [List.dropLast_concat]; exact hcond, by simp⟩
          refine ⟨_, (hmem _).mpr hin, fun v => ?_⟩
          simp [applyOne, List.isPrefixOf_iff_prefix.mpr hpre]
        rcases hpar with ha0 | ⟨y, hy⟩
        · exact hdelcase (Or.inl ha0)
        · obtain ⟨yn, hfy, hyn⟩ := view_some hy
          by_cases hyd : y.isDir = true
          · exact hdelcase (Or.inr ⟨yn, hfy, by rw [hyn]; exact hyd⟩)
          · have hane : a ≠ [] := by
              intro e; rw [e] at hfy; simp [findIn] at hfy
            obtain ⟨oa, hoa, hoad⟩ := view_ancestor old hsho a [c] hane (by simp) x hx
            obtain ⟨oan, hfoa, hoan⟩ := view_some hoa
            have hd : differs oan.st yn.st = true := by
              apply differs_of_kind (hto a oan hfoa) (htn a yn hfy)
              rw [hoan, hyn, hoad]
              intro e; exact hyd e.symm
            have hin := (modifications_exact new old hwf hsh a).mpr ⟨yn, oan, hfy, hfoa, Or.inl hd⟩
            refine ⟨_, (hmem _).mpr hin, fun v => ?_⟩
            have hpa : p ≠ a := by
              intro e
              have := hpre.length_le
              rw [e] at this
              simp at this
              omega
            have hap : a.isPrefixOf p = true :=
              List.isPrefixOf_iff_prefix.mpr ((List.prefix_append a [c]).trans hpre)
            have hyd' : y.isDir = false := by simpa using hyd
            simp [applyOne, hy, hyd', hpa, hap]
      obtain ⟨k, hk, hkp⟩ := hkill
      obtain ⟨L1, L2, rfl⟩ := List.append_of_mem hk
      rw [List.foldl_append, List.foldl_cons]
      rw [foldl_keeps_none (view new) p hnp L2 _ (hkp _)]
      trivial

/-- **applying the computed changes to the old tree gives the new tree** — for all pairs of trees, in the
    order `Changes` produces them -/
theorem apply_changes_reproduces (new old : Info) (hwf : new.WF) (hsh : new.Shape) (hsho : old.Shape)
    (htn : Typed new) (hto : Typed old) (p : List Str) (hp : p ≠ []) :
    Eqv (((changes new old).foldl (applyOne (view new)) (view old)) p) (view new p) :=
  apply_changes_step new old hwf hsh hsho htn hto (changes new old) (fun _ => Iff.rfl)
    (ordered_main new hwf [] (some old) false) (view old) (fun _ _ => Eqv.refl _) p hp

/-- a list sorted by any order under which a path comes before everything beneath it is ordered parent-first
    (`ExportChanges` sorts by the byte order of the slash-joined path: `C04.parent_sorts_first`) -/
theorem ordered_of_sorted (le : List Str → List Str → Prop) (hle : ∀ a b, Above b a → ¬ le a b)
    (L : List Change) (hs : L.Pairwise (fun x y => le x.path y.path)) : Ordered L := by
  unfold Ordered
  exact List.Pairwise.imp (R := fun (x y : Change) => le x.path y.path) (S := fun (a b : Change) => ¬ Above b.path a.path)
    (fun {x y} h hab => hle x.path y.path hab h) hs

/-- **histories**: for any sequence of snapshots, computing the changes from each to the next and applying them
    in turn to (a tree tracked-equal to) the first one yields after every step a tree tracked-equal to that
    step's snapshot — the same paths and, at each, the same type, permissions, ownership, device numbers,
    capability and (for non-directories) size and modification second -/
theorem apply_history (hgood : Info → Prop) (hg : ∀ t, hgood t → t.WF ∧ t.Shape ∧ Typed t) :
    ∀ (snaps : List Info) (s0 : Info) (v0 : View), hgood s0 → (∀ t ∈ snaps, hgood t) →
      (∀ q, q ≠ [] → Eqv (v0 q) (view s0 q)) →
      ∀ q, q ≠ [] →
        Eqv ((snaps.foldl (fun (st : View × Info) t => ((changes t st.2).foldl (applyOne (view t)) st.1, t)) (v0, s0)).1 q)
            (view ((snaps.foldl (fun (st : View × Info) t => ((changes t st.2).foldl (applyOne (view t)) st.1, t)) (v0, s0)).2) q)
  | [], s0, v0, _, _, h0 => h0
  | t :: rest, s0, v0, hs0, hall, h0 => by
    simp only [List.foldl_cons]
    have ht := hg t (hall t (by simp))
    have h0' := hg s0 hs0
    apply apply_history hgood hg rest t _ (hall t (by simp)) (fun x hx => hall x (by simp [hx]))
    intro q hq
    exact apply_changes_step t s0 ht.1 ht.2.1 h0'.2.1 ht.2.2 h0'.2.2 (changes t s0) (fun _ => Iff.rfl)
      (ordered_main t ht.1 [] (some s0) false) v0 h0 q hq

theorem namesOf_eq : ∀ (l : List Info), namesOf l = l.map Info.name
  | [] => rfl
  | (.mk n _ _) :: cs => by simp [namesOf, Info.name, namesOf_eq cs]

theorem nodupB_nodup : ∀ (l : List Str), nodupB l = true → l.Nodup
  | [], _ => List.nodup_nil
  | x :: xs, h => by
    simp only [nodupB, Bool.and_eq_true, Bool.not_eq_true'] at h
    exact List.nodup_cons.mpr ⟨by have := h.1; simpa using this, nodupB_nodup xs h.2⟩

mutual
theorem okB_node : ∀ (t : Info), t.okB = true → t.WF ∧ t.Shape
  | .mk n st ch, h => by
    simp only [Info.okB, Bool.and_eq_true, Bool.or_eq_true, beq_iff_eq] at h
    obtain ⟨⟨⟨hnd, hsh⟩, _⟩, hl⟩ := h
    have := okB_list ch hl
    refine ⟨?_, ?_⟩
    · simp only [Info.WF]
      exact ⟨by unfold NodupNames; rw [← namesOf_eq]; exact nodupB_nodup _ hnd, this.1⟩
    · simp only [Info.Shape]
      refine ⟨fun hd => ?_, this.2⟩
      rcases hsh with hsh | hsh
      · rw [hd] at hsh; cases hsh
      · simpa using hsh
theorem okB_list : ∀ (l : List Info), listOkB l = true → listWF l ∧ listShape l
  | [], _ => by simp [listWF, listShape]
  | c :: cs, h => by
    simp only [listOkB, Bool.and_eq_true] at h
    have h1 := okB_node c h.1
    have h2 := okB_list cs h.2
    simp only [listWF, listShape]
    exact ⟨⟨h1.1, h2.1⟩, ⟨h1.2, h2.2⟩⟩
end

theorem listOkB_mem : ∀ (l : List Info) (n : Info), listOkB l = true → n ∈ l → n.okB = true
  | [], _, _, h => by cases h
  | c :: cs, n, hl, h => by
    simp only [listOkB, Bool.and_eq_true] at hl
    rcases List.mem_cons.mp h with rfl | h
    · exact hl.1
    · exact listOkB_mem cs n hl.2 h

theorem okB_children (t : Info) (h : t.okB = true) : listOkB t.children = true ∧ t.st.isDir = t.st.mode.testBit 31 := by
  cases t with
  | mk n st ch =>
    simp only [Info.okB, Bool.and_eq_true, beq_iff_eq] at h
    exact ⟨h.2, h.1.2⟩

theorem findIn_okB : ∀ (p : List Str) (l : List Info) (n : Info), listOkB l = true → findIn l p = some n → n.okB = true
  | [], _, _, _, h => by cases h
  | [c], l, n, hl, h => listOkB_mem l n hl (findChild_mem (by simpa using h))
  | c :: c2 :: r, l, n, hl, h => by
    rw [findIn_cons2] at h
    cases hc : findChild l c with
    | none => rw [hc] at h; cases h
    | some m =>
      rw [hc] at h
      exact findIn_okB (c2 :: r) m.children n (okB_children m (listOkB_mem l m hl (findChild_mem hc))).1 h

theorem rootOkB_parts (t : Info) (h : t.rootOkB = true) :
    listOkB t.children = true ∧ t.WF ∧ t.Shape := by
  cases t with
  | mk n st ch =>
    simp only [Info.rootOkB, Bool.and_eq_true, Bool.or_eq_true] at h
    obtain ⟨⟨hnd, hsh⟩, hl⟩ := h
    have := okB_list ch hl
    refine ⟨hl, ?_, ?_⟩
    · simp only [Info.WF]
      exact ⟨by unfold NodupNames; rw [← namesOf_eq]; exact nodupB_nodup _ hnd, this.1⟩
    · simp only [Info.Shape]
      refine ⟨fun hd => ?_, this.2⟩
      rcases hsh with hsh | hsh
      · rw [hd] at hsh; cases hsh
      · simpa using hsh

/-- the executable check the driver runs on the real trees implies the hypotheses of the theorems -/
theorem okB_sound (t : Info) (h : t.rootOkB = true) : t.WF ∧ t.Shape ∧ Typed t :=
  ⟨(rootOkB_parts t h).2.1, (rootOkB_parts t h).2.2,
   fun p n hf => (okB_children n (findIn_okB p t.children n (rootOkB_parts t h).1 hf)).2⟩

/-- so: for the trees on which the driver's check passes (it is run on every pair of trees the library collects
    in the `changes` stream) applying the computed changes to the old tree gives the new one -/
theorem reproduces_of_okB (new old : Info) (hn : new.rootOkB = true) (ho : old.rootOkB = true) (p : List Str) (hp : p ≠ []) :
    Eqv (((changes new old).foldl (applyOne (view new)) (view old)) p) (view new p) :=
  apply_changes_reproduces new old (okB_sound new hn).1 (okB_sound new hn).2.1 (okB_sound old ho).2.1
    (okB_sound new hn).2.2 (okB_sound old ho).2.2 p hp

/-! ### concrete trees meet the hypotheses, and the fold really produces the new view -/

def tFile : Stat := { mode := 0o644, isDir := false, uid := 0, gid := 0, rdev := 0, size := 1, mtimeSec := 5, mtimeNsec := 0, cap := [] }
def tDir : Stat := { tFile with mode := 2 ^ 31 + 0o755, isDir := true }
/-- new: a/x, f (rewritten), d turned from a directory into a file;  old: a/y, f, g, d/z -/
def tNew : Info := .mk [] tDir [.mk b!"a" tDir [.mk b!"x" tFile []], .mk b!"f" { tFile with size := 2 } [], .mk b!"d" tFile []]
def tOld : Info := .mk [] tDir [.mk b!"a" tDir [.mk b!"y" tFile []], .mk b!"f" tFile [], .mk b!"g" tFile [],
  .mk b!"d" tDir [.mk b!"z" tFile []]]

example : tNew.rootOkB = true ∧ tOld.rootOkB = true := by decide

example : changes tNew tOld =
    [⟨[b!"a"], .modify⟩, ⟨[b!"a", b!"x"], .add⟩, ⟨[b!"a", b!"y"], .delete⟩, ⟨[b!"f"], .modify⟩, ⟨[b!"d"], .modify⟩,
     ⟨[b!"g"], .delete⟩] := by decide

/-- `d/z` is not reported deleted (the replacement of `d` by a file is recursive), and it is gone all the same -/
example : ((changes tNew tOld).foldl (applyOne (view tNew)) (view tOld)) [b!"a", b!"y"] = none ∧
    ((changes tNew tOld).foldl (applyOne (view tNew)) (view tOld)) [b!"a", b!"x"] = some tFile ∧
    ((changes tNew tOld).foldl (applyOne (view tNew)) (view tOld)) [b!"g"] = none ∧
    ((changes tNew tOld).foldl (applyOne (view tNew)) (view tOld)) [b!"d"] = some tFile ∧
    ((changes tNew tOld).foldl (applyOne (view tNew)) (view tOld)) [b!"d", b!"z"] = none ∧
    ((changes tNew tOld).foldl (applyOne (view tNew)) (view tOld)) [b!"f"] = some { tFile with size := 2 } ∧
    reproducesB tNew tOld = true := by
  decide

end GA.TreeDiff
