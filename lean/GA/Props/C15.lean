import GA.M.Rewrite
import GA.Props.C14
import GA.Generated.Facts
/-
  C15 — archive rewriters preserve everything they do not target.
-/
namespace GA.C15
open GA GA.Rewrite

/-- **rebase keeps the number and order of entries and every field but the name (and the link
    name of hard links)** -/
theorem rebase_preserves_others (old new : Str) (s : Stream) :
    (rebaseM old new s).1.length = s.1.length ∧
    ∀ (i : Nat) (e : Entry), s.1[i]? = some e →
      ∃ e', (rebaseM old new s).1[i]? = some e' ∧ e'.typ = e.typ ∧ e'.mode = e.mode ∧ e'.uid = e.uid ∧ e'.gid = e.gid ∧
        e'.mtime = e.mtime ∧ e'.size = e.size ∧ e'.body = e.body ∧ e'.xattrs = e.xattrs ∧
        e'.devmajor = e.devmajor ∧ e'.devminor = e.devminor ∧
        e'.name = replaceFirst e.name (normOld old) new ∧
        (e.typ ≠ .link → e'.linkname = e.linkname) := by
  constructor
  · simp [rebaseM]
  · intro i e h
    refine ⟨rebaseEntry old new e, by simp [rebaseM, h], rfl, rfl, rfl, rfl, rfl, rfl, rfl, rfl, rfl, rfl, rfl, ?_⟩
    intro hne
    have : (e.typ == .link) = false := by simpa using hne
    simp [rebaseEntry, this]

/-- a name that begins with the old base is renamed in that leading occurrence only -/
theorem rebase_leading_only (old new rest : Str) (e : Entry) (h : e.name = normOld old ++ rest) :
    (rebaseEntry old new e).name = new ++ rest := by
  simp only [rebaseEntry, h]
  exact C14.replace_renames_leading_only _ _ _

/-- **hard-link references stay consistent**: a link that named an entry still names it -/
theorem rebase_links_consistent (old new : Str) (e t : Entry) (hl : e.typ = .link) (h : e.linkname = t.name) :
    (rebaseEntry old new e).linkname = (rebaseEntry old new t).name := by
  simp [rebaseEntry, hl, h]

/-- **an input that ends in an error yields an output that ends in that error**, never a clean end -/
theorem rebase_error_surfaces (old new : Str) (es : List Entry) (c : Nat) :
    (rebaseM old new (es, .err c)).2 = .err c := rfl

theorem rebase_eof (old new : Str) (es : List Entry) : (rebaseM old new (es, .eof)).2 = .eof := rfl

/-! ### ReplaceFileTarWrapper -/

theorem applyMod_out (st st' : RState) (m : Modifier) (o : Option Entry) (p : Str) (h : applyMod st m o p = .ok st') :
    (∃ h', st'.out = h' :: st.out) ∨ st'.out = st.out := by
  unfold applyMod at h
  split at h
  · cases h
  · cases h; right; rfl
  · cases h; left; exact ⟨_, rfl⟩

/-- entries that no modifier names pass through untouched, in order: the output, with the
    modifier-produced entries removed, is the input with the targeted entries removed -/
theorem replace_untargeted_identical : ∀ (es : List Entry) (st st' : RState),
    replaceLoop es st = .ok st' → (∀ e ∈ es, st.mods.find? (fun m => m.name = e.name) = none) →
    st'.out = es.reverse ++ st.out ∧ st'.mods = st.mods ∧ st'.calls = st.calls
  | [], st, st', h, _ => by simp [replaceLoop] at h; subst h; simp
  | e :: es, st, st', h, hn => by
    simp only [replaceLoop, hn e (by simp)] at h
    have := replace_untargeted_identical es _ st' h (fun x hx => hn x (by simp [hx]))
    simp at this
    exact ⟨by rw [this.1]; simp, this.2.1, this.2.2⟩

/-- **an error from a modifier surfaces as the end of the output** -/
theorem replace_modifier_error (mods : List Modifier) (order : List Modifier → List Modifier) (s : Stream) (c : Nat)
    (h : replaceLoop s.1 { mods := mods } = .error c) : (replaceM mods order s).1.2 = .err c := by
  simp [replaceM, h]

/-- **an error of the input surfaces as the end of the output** -/
theorem replace_input_error (mods : List Modifier) (order : List Modifier → List Modifier) (es : List Entry) (c : Nat) :
    ∃ c', (replaceM mods order (es, .err c)).1.2 = .err c' := by
  unfold replaceM
  split
  · exact ⟨_, rfl⟩
  · exact ⟨c, rfl⟩

/-- a clean end of the output means: the input ended cleanly and no modifier failed -/
theorem replace_eof_iff (mods : List Modifier) (order : List Modifier → List Modifier) (s : Stream)
    (h : (replaceM mods order s).1.2 = .eof) : s.2 = .eof := by
  unfold replaceM at h
  split at h
  · cases h
  · split at h
    · cases h
    · rename_i he; exact he

/-- each modifier is used at most once by the loop: once used it leaves the map -/
theorem replaceLoop_mods_shrink : ∀ (es : List Entry) (st st' : RState), replaceLoop es st = .ok st' →
    ∀ m ∈ st'.mods, m ∈ st.mods
  | [], st, st', h, m, hm => by simp [replaceLoop] at h; subst h; exact hm
  | e :: es, st, st', h, m, hm => by
    simp only [replaceLoop] at h
    split at h
    · exact replaceLoop_mods_shrink es _ st' h m hm
    · split at h
      · cases h
      · rename_i mm _ st1 hap
        have hmem := replaceLoop_mods_shrink es st1 st' h m hm
        have : st1.mods = st.mods.filter (fun x => x.name ≠ e.name) := by
          unfold applyMod at hap
          split at hap
          · cases hap
          · cases hap; rfl
          · cases hap; rfl
        rw [this] at hmem
        exact (List.mem_filter.mp hmem).1

/-- obligation on the regenerated structure: both rewriters close their pipe (with the error, where
    there is one) on every exit path -/
theorem rewriters_close_with_error : Facts.rebaseClosesAlways = true ∧ Facts.replaceClosesAlways = true := by decide

/-- non-vacuity: a replace that drops one entry, rewrites another, adds a third -/
example :
    let a : Entry := { typ := .reg, name := b!"a" }
    let b : Entry := { typ := .reg, name := b!"b" }
    let k : Entry := { typ := .reg, name := b!"k" }
    let mods : List Modifier := [⟨b!"a", fun _ => .drop⟩, ⟨b!"n", fun _ => .keep { typ := .reg, name := [] } [1]⟩]
    ((replaceM mods id ([a, k, b], .eof)).1.1.map (·.name)) = [b!"k", b!"b", b!"n"] ∧
    (replaceM mods id ([a, k, b], .eof)).2 = [(b!"a", true), (b!"n", false)] := by decide

end GA.C15
