import GA.M.Pack
import GA.Proofs.NonInterf
import GA.Props.C01
/-
  C07 — chrooted tar never reads anything outside the root.
  Stated as noninterference: the archive produced through `chrootarchive.Tar` is a function of the
  part of the filesystem under the root only — for every source path, include list, pattern list,
  rebase map and arrangement of symlinks.  Two worlds that agree under the root (same names, same
  inodes, same link counts) yield the same result, whatever lies outside.
-/
namespace GA.C07
open GA

theorem nlink_modInode (fs : FS) (i j : Ino) (f : Inode → Inode) : (fs.modInode i f).nlink j = fs.nlink j := by
  unfold FS.modInode FS.nlink; split <;> rfl

theorem insideEq_modInode {r : Path} {fs1 fs2 : FS} (h : InsideEq r fs1 fs2) (q : Path) (i : Ino)
    (f : Inode → Inode) (hq : under r q = true) (h1 : fs1.lookup q = some i) :
    InsideEq r (fs1.modInode i f) (fs2.modInode i f) := by
  have hi := h.inode q i hq h1
  refine ⟨?_, ?_, ?_⟩
  · have e1 : (fs1.modInode i f).names = fs1.names := by unfold FS.modInode; split <;> rfl
    have e2 : (fs2.modInode i f).names = fs2.names := by unfold FS.modInode; split <;> rfl
    unfold insideNames; rw [e1, e2]; exact h.names
  · intro p j hp hl
    rw [lookup_modInode] at hl
    have hj := h.inode p j hp hl
    unfold FS.modInode
    rw [← hi]
    cases hn : fs1.inode i with
    | none => simp only; exact hj
    | some n =>
      simp only [FS.setInode]
      by_cases hji : j = i
      · simp [hji]
      · simp [hji, hj]
  · intro p j hp hl
    rw [lookup_modInode] at hl
    rw [nlink_modInode, nlink_modInode]
    exact h.nlink p j hp hl

/-- **noninterference of chrooted tar** -/
theorem chrootTar_noninterference (src root : Str) (o : PackOpts) (w1 w2 : World) (rp : Path)
    (h1 : resolve w1 root true = .ok rp) (h2 : resolve w2 root true = .ok rp)
    (heq : InsideEq rp w1.fs w2.fs) (hum : w1.umask = w2.umask) :
    ((chrootTarP src root o).run w1).1 = ((chrootTarP src root o).run w2).1 := by
  unfold chrootTarP
  split
  · rfl
  · rename_i relSrc _
    unfold jailedP
    simp only [Prog.run]
    have hl := heq.lookup_eq rp (under_refl rp)
    have hd := heq.isDir_eq rp (under_refl rp)
    have hs1 : step w1 (.chroot root) =
        (match w1.fs.lookup rp with
          | none => (Res.err .ENOENT, w1)
          | some i => if !w1.fs.isDir rp then (Res.err .ENOTDIR, w1)
              else (Res.ok, { w1 with root := rp, fs := w1.fs.modInode i (fun n => { n with mtime := none }) })) := by
      cases hh : w1.fs.lookup rp <;> simp [step, h1, hh]
    have hs2 : step w2 (.chroot root) =
        (match w2.fs.lookup rp with
          | none => (Res.err .ENOENT, w2)
          | some i => if !w2.fs.isDir rp then (Res.err .ENOTDIR, w2)
              else (Res.ok, { w2 with root := rp, fs := w2.fs.modInode i (fun n => { n with mtime := none }) })) := by
      cases hh : w2.fs.lookup rp <;> simp [step, h2, hh]
    rw [hs1, hs2, ← hl, ← hd]
    cases hlk : w1.fs.lookup rp with
    | none => simp [isErr, Prog.run]
    | some i =>
      simp only
      split
      · simp [isErr, Prog.run]
      · simp only [isErr, Bool.false_eq_true, if_false]
        have hw : WorldEq rp { w1 with root := rp, fs := w1.fs.modInode i (fun n => { n with mtime := none }) }
            { w2 with root := rp, fs := w2.fs.modInode i (fun n => { n with mtime := none }) } :=
          ⟨insideEq_modInode heq rp i _ (under_refl rp) hlk, rfl, hum, under_refl rp⟩
        rw [C01.run_bind, C01.run_bind]
        unfold tarP
        generalize (if (hasSuffix src slashStr && !hasSuffix relSrc slashStr) = true then relSrc ++ slashStr else relSrc) = rs
        have := rprog_inside_determined (tarR rs o) _ _ hw
        simp only [Prog.run]
        rw [this.1]

/-- the plain producer is a read-only program: it never modifies the filesystem -/
theorem tar_reads_only (src : Str) (o : PackOpts) (w : World) : ((tarP src o).run w).2 = w := by
  have hw : WorldEq [] w w :=
    ⟨⟨rfl, fun _ _ _ _ => rfl, fun _ _ _ _ => rfl⟩, rfl, rfl, by simp [under]⟩
  exact (rprog_inside_determined (tarR src o) w w hw).2.1

/-- non-vacuity: adding any object outside the root yields a world that agrees with the old one inside -/
theorem insideEq_add_outside (r : Path) (fs : FS) (q : Path) (j : Ino) (n : Inode)
    (hq : under r q = false) (hj : ∀ p, fs.lookup p ≠ some j) :
    InsideEq r fs { names := fs.names ++ [(q, j)], inode := fun k => if k = j then some n else fs.inode k, next := fs.next } := by
  refine ⟨?_, ?_, ?_⟩
  · unfold insideNames; simp [List.filter_append, hq]
  · intro p i _ hl
    have : i ≠ j := by intro e; subst e; exact hj p hl
    simp [this]
  · intro p i _ hl
    have : i ≠ j := by intro e; subst e; exact hj p hl
    unfold FS.nlink
    simp [List.filter_append, Ne.symm this]

/-- the packer that runs inside the jail (`Tarballer.Do` and what it reaches) is reached only through
    `goInChroot` and starts no goroutine of its own: every read it makes is made on the jailed thread -/
theorem packer_inside_jail_single_threaded :
    Facts.extractorUses = (3, 0) ∧ Facts.switchRootInSetup = true ∧
    Facts.jailBodyRootsFound = true ∧ Facts.jailBodyGoStmts = [] := by decide

end GA.C07
