import GA.Proofs.FrameUnpack
import GA.Props.C02b
/-
  C05, the frame clause: "every pre-existing path that is neither named by the archive nor beneath a
  replaced object is unchanged in content and metadata (apart from the mtime of a directory that gained or
  lost an entry)" — for the plain `Untar`, for every archive without symbolic-link entries, every option
  set of the default whiteout format, every prior symlink-free world, whatever the outcome.

  `touched dest es` is what the archive names: the path of every entry and the source of every hard-link
  entry.  A path is *covered* (`Cov`) when it is one of these or lies beneath one — the theorem claims
  nothing about covered paths (that is the other half of C05: `C05b`); it is an *ancestor* (`Anc`) when one
  of them lies at or beneath it.
-/
namespace GA.C05
open GA

/-- **the frame of a plain extraction** -/
theorem untar_frame (dest : Str) (o : Opts) (es : List Entry) (w : World)
    (habs : isAbs dest = true) (hov : o.overlay = false) (hsym : ∀ e ∈ es, e.typ ≠ .sym)
    (hw : LW (pathComps (clean dest)) w) :
    Framed (touched (clean dest) es) w.fs ((untarP dest o es).run w).2.fs :=
  (FrSem.run _ _ w.fs hw.inv.fresh _ _ (untarP dest o es) w (lex_untar dest o es habs hov hsym)
    (fr_untar w.fs dest o es habs hov hsym) hw (Framed.refl _ _)).1

/-- what it says about one pre-existing path `q` that the archive neither names nor has beneath a named
    path: `q` still names the same object; if that object has no covered second name (no hard link to a
    named path) it has exactly the names it had, and its record — kind, mode, owner, group, content, link
    target, device numbers, extended attributes — is what it was, the modification time included unless `q`
    is a directory on the way to a named path -/
theorem untar_preexisting_untouched (dest : Str) (o : Opts) (es : List Entry) (w : World)
    (habs : isAbs dest = true) (hov : o.overlay = false) (hsym : ∀ e ∈ es, e.typ ≠ .sym)
    (hw : LW (pathComps (clean dest)) w) (q : Path) (i : Ino)
    (hq : w.fs.lookup q = some i) (hnc : ¬ Cov (touched (clean dest) es) q) :
    let fs' := ((untarP dest o es).run w).2.fs
    fs'.lookup q = some i ∧
    ((∀ p, w.fs.lookup p = some i → ¬ Cov (touched (clean dest) es) p) →
      (∀ p, fs'.lookup p = some i ↔ w.fs.lookup p = some i) ∧
      (fs'.inode i).map eraseM = (w.fs.inode i).map eraseM ∧
      ((∀ p, w.fs.lookup p = some i → ¬ Anc (touched (clean dest) es) p) → fs'.inode i = w.fs.inode i)) := by
  intro fs'
  have h := untar_frame dest o es w habs hov hsym hw
  refine ⟨h.names_keep q i hq hnc, fun hall => ?_⟩
  have ho : OutI (touched (clean dest) es) w.fs i := ⟨⟨q, hq⟩, hall⟩
  exact ⟨fun p => ⟨h.no_capture i ho p, fun hp => h.names_keep p i hp (hall p hp)⟩, h.inode_out i ho,
    fun hanc => h.inode_quiet i ⟨ho, hanc⟩⟩

/-- **nothing appears out of nowhere**: a name that exists after the extraction and did not exist before is a
    path the archive names, lies beneath one, or is a directory on the way to one (an implied parent) — no
    stray file, no temporary left behind, whatever the outcome -/
theorem untar_creates_only_named (dest : Str) (o : Opts) (es : List Entry) (w : World)
    (habs : isAbs dest = true) (hov : o.overlay = false) (hsym : ∀ e ∈ es, e.typ ≠ .sym)
    (hw : LW (pathComps (clean dest)) w) (q : Path) (i : Ino)
    (hq : ((untarP dest o es).run w).2.fs.lookup q = some i) (h0 : w.fs.lookup q = none) :
    CovAnc (touched (clean dest) es) q := by
  have h := untar_frame dest o es w habs hov hsym hw
  cases Classical.em (CovAnc (touched (clean dest) es) q) with
  | inl hc => exact hc
  | inr hc => rw [h.absent_keep q h0 hc] at hq; cases hq

/-- an implied parent that already existed keeps its mode, owner and attributes: a directory on the way to
    a named path is changed in nothing but its modification time -/
theorem untar_existing_parent_kept (dest : Str) (o : Opts) (es : List Entry) (w : World)
    (habs : isAbs dest = true) (hov : o.overlay = false) (hsym : ∀ e ∈ es, e.typ ≠ .sym)
    (hw : LW (pathComps (clean dest)) w) (q : Path) (i : Ino) (n : Inode)
    (hq : w.fs.lookup q = some i) (hn : w.fs.inode i = some n) (hnc : ¬ Cov (touched (clean dest) es) q)
    (hone : ∀ p, w.fs.lookup p = some i → p = q) :
    ∃ n', ((untarP dest o es).run w).2.fs.inode i = some n' ∧ n' = { n with mtime := n'.mtime } := by
  have h := untar_frame dest o es w habs hov hsym hw
  have ho : OutI (touched (clean dest) es) w.fs i := ⟨⟨q, hq⟩, fun p hp => by rw [hone p hp]; exact hnc⟩
  have := h.inode_out i ho
  rw [hn] at this
  cases hi : ((untarP dest o es).run w).2.fs.inode i with
  | none => rw [hi] at this; simp at this
  | some n' =>
    rw [hi] at this
    simp only [Option.map_some, Option.some.injEq, eraseM] at this
    refine ⟨n', rfl, ?_⟩
    cases n; cases n'
    simp only [Inode.mk.injEq] at this ⊢
    simp [this]

/-! ### non-vacuity: a destination with a file in it, and an archive that names something else -/

def exFS2 : FS :=
  { names := [([], 0), ([b!"w"], 1), ([b!"w", b!"dest"], 2), ([b!"w", b!"dest", b!"keep"], 3)],
    inode := fun j => if j ≤ 2 then some C02.exDir else if j = 3 then some { C02.exDir with kind := .reg, data := b!"s" } else none,
    next := 4 }

theorem exFS2_mem (p : Path) (i : Ino) (h : exFS2.lookup p = some i) : (p, i) ∈ exFS2.names := by
  simp only [FS.lookup] at h
  cases hf : List.find? (fun e => e.1 == p) exFS2.names with
  | none => rw [hf] at h; simp at h
  | some x =>
    rw [hf] at h
    have hm := List.mem_of_find?_eq_some hf
    have hp := List.find?_some hf
    simp at h hp
    obtain ⟨a, b⟩ := x
    simp at h hp
    subst h; subst hp
    exact hm

theorem exFS2_LW : LW (pathComps (clean b!"/w/dest")) ({ fs := exFS2 } : World) := by
  have hdp : pathComps (clean b!"/w/dest") = [b!"w", b!"dest"] := by decide
  rw [hdp]
  have hcases : ∀ p i, exFS2.lookup p = some i →
      (p = [] ∧ i = 0) ∨ (p = [b!"w"] ∧ i = 1) ∨ (p = [b!"w", b!"dest"] ∧ i = 2) ∨ (p = [b!"w", b!"dest", b!"keep"] ∧ i = 3) := by
    intro p i h
    have hm := exFS2_mem p i h
    simpa [exFS2] using hm
  have hns : NoSym exFS2 := by
    intro p n h
    rw [get_def] at h
    cases hl : exFS2.lookup p with
    | none => rw [hl] at h; cases h
    | some i =>
      rw [hl] at h
      rcases hcases p i hl with ⟨_, rfl⟩ | ⟨_, rfl⟩ | ⟨_, rfl⟩ | ⟨_, rfl⟩ <;> simp [exFS2, C02.exDir] at h <;> rw [← h] <;> simp
  have hfresh : NextFresh exFS2 := by
    intro p i h
    rcases hcases p i h with ⟨_, rfl⟩ | ⟨_, rfl⟩ | ⟨_, rfl⟩ | ⟨_, rfl⟩ <;> decide
  have hnames : NameWF exFS2 := by
    intro p i h c hc
    rcases hcases p i h with ⟨rfl, _⟩ | ⟨rfl, _⟩ | ⟨rfl, _⟩ | ⟨rfl, _⟩ <;> simp at hc
    · subst hc; simp [Norm, dot, dotdot]
    · rcases hc with rfl | rfl <;> simp [Norm, dot, dotdot]
    · rcases hc with rfl | rfl | rfl <;> simp [Norm, dot, dotdot]
  have htree : TreeWF exFS2 := by
    constructor
    · intro p i h
      rcases hcases p i h with ⟨_, rfl⟩ | ⟨_, rfl⟩ | ⟨_, rfl⟩ | ⟨_, rfl⟩ <;> simp [exFS2]
    · intro p i h hne
      rcases hcases p i h with ⟨rfl, _⟩ | ⟨rfl, _⟩ | ⟨rfl, _⟩ | ⟨rfl, _⟩
      · exact absurd rfl hne
      · decide
      · decide
      · decide
  have hchain : Chain [b!"w", b!"dest"] exFS2 := by
    intro pre hpre hne
    have hc2 : pre = [] ∨ pre = [b!"w"] := by
      rcases hpre with ⟨t, ht⟩
      match pre, ht with
      | [], _ => exact Or.inl rfl
      | [a], ht => simp at ht; exact Or.inr (by rw [ht.1])
      | [a, b], ht => simp at ht; exact absurd (by rw [ht.1, ht.2.1]) hne
      | a :: b :: c :: r, ht => simp at ht
    rcases hc2 with rfl | rfl
    · refine ⟨0, C02.exDir, by decide, by simp [exFS2], rfl, ⟨⟨[], by decide⟩, ?_⟩⟩
      intro p hp
      rcases hcases p 0 hp with ⟨rfl, _⟩ | ⟨_, h⟩ | ⟨_, h⟩ | ⟨_, h⟩
      · decide
      · cases h
      · cases h
      · cases h
    · refine ⟨1, C02.exDir, by decide, by simp [exFS2], rfl, ⟨⟨[b!"w"], by decide⟩, ?_⟩⟩
      intro p hp
      rcases hcases p 1 hp with ⟨_, h⟩ | ⟨rfl, _⟩ | ⟨_, h⟩ | ⟨_, h⟩
      · cases h
      · decide
      · cases h
      · cases h
  have hdirone : DirOne exFS2 := by
    intro p q i n hp hq _ _
    rcases hcases p i hp with ⟨rfl, rfl⟩ | ⟨rfl, rfl⟩ | ⟨rfl, rfl⟩ | ⟨rfl, rfl⟩ <;>
      rcases hcases q _ hq with ⟨rfl, h⟩ | ⟨rfl, h⟩ | ⟨rfl, h⟩ | ⟨rfl, h⟩ <;>
      first | rfl | exact absurd h (by decide)
  exact ⟨⟨rfl, hns, hfresh, by decide, hnames, htree, hdirone⟩, hchain⟩

def exArchive : List Entry := [{ name := b!"new/x", typ := .reg, body := b!"hello", size := 5 }]

/-- the archive names `/w/dest/new/x`; the pre-existing `/w/dest/keep` is neither covered nor on the way -/
example : touched (clean b!"/w/dest") exArchive = [[b!"w", b!"dest", b!"new", b!"x"]] ∧
    ¬ Cov (touched (clean b!"/w/dest") exArchive) [b!"w", b!"dest", b!"keep"] ∧
    ¬ Anc (touched (clean b!"/w/dest") exArchive) [b!"w", b!"dest", b!"keep"] ∧
    Anc (touched (clean b!"/w/dest") exArchive) [b!"w", b!"dest"] := by
  have ht : touched (clean b!"/w/dest") exArchive = [[b!"w", b!"dest", b!"new", b!"x"]] := by decide
  rw [ht]
  refine ⟨rfl, ?_, ?_, ?_⟩
  · rintro ⟨t, ht, hp⟩
    simp only [List.mem_singleton] at ht
    subst ht
    exact absurd hp (by decide)
  · rintro ⟨t, ht, hp⟩
    simp only [List.mem_singleton] at ht
    subst ht
    exact absurd hp (by decide)
  · exact ⟨_, List.mem_singleton.mpr rfl, by decide⟩

/-- so the theorem applies to it: after the extraction `/w/dest/keep` is the same file with the same bytes -/
example : (((untarP b!"/w/dest" {} exArchive).run { fs := exFS2 }).2.fs.get [b!"w", b!"dest", b!"keep"]) =
    some { C02.exDir with kind := .reg, data := b!"s" } := by
  have hT : touched (clean b!"/w/dest") exArchive = [[b!"w", b!"dest", b!"new", b!"x"]] := by decide
  have hq : exFS2.lookup [b!"w", b!"dest", b!"keep"] = some 3 := by decide
  have hone : ∀ p, exFS2.lookup p = some 3 → p = [b!"w", b!"dest", b!"keep"] := by
    intro p hp
    have hm := exFS2_mem p 3 hp
    simp [exFS2] at hm
    exact hm
  have hnc : ∀ p, exFS2.lookup p = some 3 → ¬ Cov (touched (clean b!"/w/dest") exArchive) p := by
    intro p hp
    rw [hone p hp, hT]
    rintro ⟨t, ht, hpre⟩
    simp only [List.mem_singleton] at ht
    subst ht
    exact absurd hpre (by decide)
  have hna : ∀ p, exFS2.lookup p = some 3 → ¬ Anc (touched (clean b!"/w/dest") exArchive) p := by
    intro p hp
    rw [hone p hp, hT]
    rintro ⟨t, ht, hpre⟩
    simp only [List.mem_singleton] at ht
    subst ht
    exact absurd hpre (by decide)
  have h := untar_preexisting_untouched b!"/w/dest" {} exArchive { fs := exFS2 } (by decide) rfl
    (by intro e he; simp [exArchive] at he; subst he; simp) exFS2_LW _ 3 hq (hnc _ hq)
  simp only at h
  rw [get_def, h.1]
  simp only [Option.bind_some]
  rw [(h.2 hnc).2.2 hna]
  simp [exFS2]

end GA.C05
