import GA.M.Pack
import GA.M.Unpack
import GA.Proofs.RAll
import GA.Proofs.DirBase
import GA.Props.C04
/-
  C11 — overlay whiteouts convert to the standard form and back losslessly.
-/
namespace GA.C11
open GA

/-- an entry is an overlay whiteout device when it is a 0/0 character device -/
def IsWhiteoutDev (e : Entry) : Prop := e.typ = .chr ∧ e.devmajor = 0 ∧ e.devminor = 0

theorem emit_all' (st : PackState) (path : Str) (hdr : Entry) :
    (emitP st path hdr).All (fun st' => ∃ e, st' = { st with out := e :: st.out } ∧ e.typ = hdr.typ ∧
      e.devmajor = hdr.devmajor ∧ e.devminor = hdr.devminor ∧ e.name = hdr.name ∧ e.uid = hdr.uid ∧ e.gid = hdr.gid) := by
  unfold emitP
  split
  · intro r
    cases r <;> exact ⟨_, rfl, rfl, rfl, rfl, rfl, rfl, rfl⟩
  · exact ⟨_, rfl, rfl, rfl, rfl, rfl, rfl, rfl⟩

theorem buildHeader_chr (name : Str) (s : StatInfo) (link : Str) (capR : Res)
    (h : (buildHeader name s link capR).typ = .chr) : s.kind = .chr := by
  simp only [buildHeader] at h; cases hk : s.kind <;> simp_all [typOfKind]

theorem linkStage_chr (st : PackState) (name : Str) (s : StatInfo) (hdr0 : Entry)
    (h0 : hdr0.typ = .chr → s.kind = .chr) : (linkStage st name s hdr0).1.typ = .chr → s.kind = .chr := by
  unfold linkStage
  split
  · split
    · intro h; simp at h
    · exact h0
  · exact h0

theorem linkStage_out (st : PackState) (name : Str) (s : StatInfo) (hdr0 : Entry) :
    (linkStage st name s hdr0).2.out = st.out := by
  unfold linkStage; split
  · split <;> rfl
  · rfl

/-- the header the converter hands on is never a 0/0 character device -/
theorem converted_not_whiteout (s : StatInfo) (hdr2 : Entry) (h : hdr2.typ = .chr → s.kind = .chr) (nm : Str) :
    ¬ IsWhiteoutDev (if isOverlayWhiteout s hdr2 = true then
        { hdr2 with name := nm, mode := 0o600, typ := .reg, size := 0 } else hdr2) := by
  intro hw
  by_cases hiw : isOverlayWhiteout s hdr2 = true
  · simp only [hiw, if_true] at hw; exact absurd hw.1 (by simp)
  · simp only [hiw, Bool.false_eq_true, if_false] at hw
    apply hiw
    obtain ⟨h1, h2, h3⟩ := hw
    simp [isOverlayWhiteout, h h1, h2, h3]

/-- **no whiteout device reaches the stream**: with the overlay format every entry `addTarFile` emits
    is either not a character device or has a non-zero device number — for every file, every
    outcome of every system call -/
theorem convertWrite_no_leak (o : PackOpts) (st : PackState) (path name : Str) (s : StatInfo) (link : Str) (capR : Res)
    (hov : o.overlay = true) (hst : ∀ e ∈ st.out, ¬ IsWhiteoutDev e) :
    (afterStatP o st path name s link capR).All (fun st' => ∀ e ∈ st'.out, ¬ IsWhiteoutDev e) := by
  unfold afterStatP
  simp only
  have hchr := linkStage_chr st name s _ (buildHeader_chr name s link capR)
  have hout := linkStage_out st name s (buildHeader name s link capR)
  generalize linkStage st name s (buildHeader name s link capR) = ls at hchr hout
  have hst' : ∀ e ∈ ls.2.out, ¬ IsWhiteoutDev e := by rw [hout]; exact hst
  split
  · exact hst
  · rename_i u g _
    simp only [hov, if_true]
    unfold overlayP
    simp only
    have hc := converted_not_whiteout s { ls.1 with uid := u, gid := g } hchr
      (join (splitLast ls.1.name).1 (whPrefix ++ (splitLast ls.1.name).2))
    generalize (if isOverlayWhiteout s { ls.1 with uid := u, gid := g } = true then
        ({ ({ ls.1 with uid := u, gid := g } : Entry) with
            name := join (splitLast ls.1.name).1 (whPrefix ++ (splitLast ls.1.name).2), mode := 0o600, typ := .reg, size := 0 } : Entry)
      else { ls.1 with uid := u, gid := g }) = hdr3 at hc
    have pushOK : (emitP ls.2 path hdr3).All (fun st' => ∀ e ∈ st'.out, ¬ IsWhiteoutDev e) := by
      refine RProg.All.mono ?_ _ (emit_all' ls.2 path hdr3)
      rintro st' ⟨e, rfl, ht, hma, hmi, _, _, _⟩ x hx
      simp at hx
      rcases hx with rfl | hx
      · intro hw; exact hc ⟨by rw [← ht]; exact hw.1, by rw [← hma]; exact hw.2.1, by rw [← hmi]; exact hw.2.2⟩
      · exact hst' x hx
    split
    · exact pushOK
    · intro oq
      simp only
      split
      · split
        · intro x hx
          simp at hx
          rcases hx with rfl | rfl | hx
          · intro hw; exact absurd hw.1 (by simp)
          · intro hw; exact hc ⟨hw.1, hw.2.1, hw.2.2⟩
          · exact hst' x hx
        · exact pushOK
      · exact pushOK
      · exact hst

/-- **ordinary device nodes are left alone**: the converter changes nothing unless the file is a
    character device with number 0/0 -/
theorem ordinary_devices_untouched (s : StatInfo) (hdr : Entry)
    (h : ¬ (s.kind = .chr ∧ hdr.devmajor = 0 ∧ hdr.devminor = 0)) : isOverlayWhiteout s hdr = false := by
  unfold isOverlayWhiteout
  cases hk : (s.kind == Kind.chr) <;> cases h1 : (hdr.devmajor == 0) <;> cases h2 : (hdr.devminor == 0) <;> simp_all

/-- **the default format leaves the standard whiteout files alone on extraction**: without the
    overlay option no conversion step runs -/
theorem aufs_side_no_conversion (dest : Str) (o : Opts) (e : Entry) (es dirs : List Entry) (h : o.overlay = false) :
    ∀ p e', (if o.overlay then convertReadP p e' else (pure (some true) : Prog (Option Bool))) = pure (some true) := by
  intro p e'; simp [h]

/-- **extraction recreates the whiteout under the original name**: for the archived name
    `dir/.wh.x` (as `ConvertWrite` builds it from `dir/x`) `ConvertRead` makes the 0/0 character device at
    `dir/x` and gives it the entry's owner -/
theorem convertRead_recreates (cs : List Str) (c : Str) (h : ∀ x ∈ cs, Norm x) (hc : Norm c) (e : Entry)
    (hne : whPrefix ++ c ≠ whOpaqueDir) :
    convertReadP (47 :: joinSlash (cs ++ [whPrefix ++ c])) e =
      .call (.mknod (47 :: joinSlash (cs ++ [c])) .chr 0 (0, 0)) (fun r =>
        if isErr r then .ret none
        else .call (.chown (47 :: joinSlash (cs ++ [c])) e.uid e.gid true) (fun r2 => if isErr r2 then .ret none else .ret (some false))) := by
  obtain ⟨hd, hb⟩ := dir_base_snoc cs (whPrefix ++ c) h (C04.norm_wh c hc)
  unfold convertReadP
  simp only [hd, hb, hne, if_false]
  have hp : hasPrefix (whPrefix ++ c) whPrefix = true := by simp [hasPrefix]
  simp only [hp, if_true]
  have : (whPrefix ++ c).drop whPrefix.length = c := by simp
  rw [this, join_snoc cs c h hc]

/-- the opaque marker sets the attribute on its directory and writes no file -/
theorem convertRead_opaque (cs : List Str) (h : ∀ x ∈ cs, Norm x) (e : Entry) :
    convertReadP (47 :: joinSlash (cs ++ [whOpaqueDir])) e =
      .call (.setxattr (47 :: joinSlash cs) opaqueKey [121] true) (fun r => if isErr r then .ret none else .ret (some false)) := by
  have hn : Norm whOpaqueDir := by
    refine ⟨by decide, by decide, by decide, by decide⟩
  obtain ⟨hd, hb⟩ := dir_base_snoc cs whOpaqueDir h hn
  unfold convertReadP
  simp only [hd, hb, if_true]

end GA.C11
