import GA.Proofs.WhiteoutPost
/-
  C06, first clause: "a whiteout for X removes X and everything beneath it and creates nothing" — for the
  removal step `UnpackLayer` performs for a whiteout entry (`os.Stat` of the parent, `os.RemoveAll` of the
  target), run on the kernel model in a symlink-free tree.  (The implied parents of the whiteout entry's own
  name are created before this step: known finding D9.)
-/
namespace GA.C06
open GA

theorem stat_world (w : World) (p : Str) : (step w (.stat p)).2 = w := by simp only [step]

/-- **the removal for a whiteout**: if it reports success, the target and everything beneath it are gone;
    and whatever it reports, no name exists afterwards that did not exist before — for every tree, every
    target lexically beneath the destination (and not the destination itself) -/
theorem whiteout_removes_and_creates_nothing (dp : Path) (w : World) (orig : Str)
    (hw : LW dp w) (hl : LexArg dp orig) (hs : pathComps orig ≠ dp) :
    (∀ r, ((whiteoutRemoveP orig).run w).1 = some r → isErr r = false →
      ∀ q, under (pathComps orig) q = true → ((whiteoutRemoveP orig).run w).2.fs.lookup q = none) ∧
    (∀ q i, ((whiteoutRemoveP orig).run w).2.fs.lookup q = some i → w.fs.lookup q = some i) := by
  unfold whiteoutRemoveP
  simp only [Prog.run, stat_world]
  by_cases hn : notDirRes (step w (Sys.stat (dir orig))).1 = true
  · simp only [hn, if_true, Prog.run]
    exact ⟨fun r h => (by cases h), fun _ _ h => h⟩
  · simp only [hn, Bool.false_eq_true, if_false, Prog.run]
    have hpost := removeAll_post dp w hw orig hl hs
    refine ⟨fun r hr herr q hq => ?_, hpost.2⟩
    injection hr with hr
    exact hpost.1 (by rw [hr]; exact herr) q hq

end GA.C06
