import GA.Proofs.LayerLink
import GA.Props.C06e
/-
  C06, hard links in whole layers ("all other entries behave as in plain extraction"): for every layer
  `pre ++ e :: post` without symbolic-link entries: if `ApplyLayer` reports success, `e` is a hard-link entry whose
  source is not in the staging area, whose name is neither reserved, a whiteout nor the destination itself, and
  nothing after `e` names the link's path or the link's source (or a path above either, or a whiteout for either),
  then afterwards the two paths name one and the same object.
-/
namespace GA.C06
open GA

theorem layer_link_shares (dest : Str) (o : Opts) (pre post : List Entry) (e : Entry) (um : Nat) (w : World)
    (habs : isAbs dest = true)
    (hsym : ∀ x ∈ pre ++ e :: post, x.typ ≠ .sym)
    (hw : LW (pathComps (clean dest)) w)
    (hlink : e.typ = .link)
    (hnst : hasPrefix (clean e.linkname) whLinkDir = false)
    (hmeta : hasPrefix (clean e.name) whMetaPrefix = false)
    (hnwh : hasPrefix (base (join (clean dest) (clean e.name))) whPrefix = false)
    (hne : pathComps (join (clean dest) (clean e.name)) ≠ pathComps (clean dest))
    (hcov : ¬ Cov (touchedL (clean dest) post) (pathComps (join (clean dest) (clean e.name))))
    (hcovS : ¬ Cov (touchedL (clean dest) post) (pathComps (join (clean dest) e.linkname)))
    (hok : ((applyLayerP dest o (pre ++ e :: post) um).run w).1.1 = .ok) :
    ∃ i,
      ((applyLayerP dest o (pre ++ e :: post) um).run w).2.fs.lookup (pathComps (join (clean dest) (clean e.name))) = some i ∧
      ((applyLayerP dest o (pre ++ e :: post) um).run w).2.fs.lookup (pathComps (join (clean dest) e.linkname)) = some i := by
  have hd : CleanAbs (clean dest) := clean_cleanAbs dest habs
  obtain ⟨hr1, hr2⟩ := applyLayer_run dest o (pre ++ e :: post) um w
  rw [hr1] at hok
  rw [hr2]
  have hw0 : LW (pathComps (clean dest)) (step w (.setUmask 0)).2 :=
    (step_good _ w (.setUmask 0) hw (good_lex (s := .setUmask 0) trivial)).2
  generalize (step w (.setUmask 0)).2 = w0 at hok hw0 ⊢
  unfold unpackLayerP at hok ⊢
  rw [layerLoop_run] at hok ⊢
  rw [layerRun_append] at hok ⊢
  have hsymPre : ∀ x ∈ pre, x.typ ≠ .sym := fun x hx => hsym x (by simp [hx])
  have hsymPost : ∀ x ∈ post, x.typ ≠ .sym := fun x hx => hsym x (by simp [hx])
  have hL0 : LStOK (pathComps (clean dest)) (clean dest) {} := ⟨by simp, Or.inl rfl, by simp⟩
  have hF0 : FSt0 (clean dest) {} := ⟨Or.inl rfl, by simp⟩
  have hpreF := layerRun_frame _ (clean dest) o hd rfl pre {} w0 hsymPre hw0 hL0 hF0
  cases hpre : layerRun (clean dest) o pre {} w0 with
  | mk r1 w1 =>
    rw [hpre] at hok hpreF
    cases r1 with
    | error x =>
      exfalso
      obtain ⟨out, st'⟩ := x
      simp only at hok
      rw [layerFinish_out] at hok
      exact layerRun_error_ne_ok _ _ _ _ _ _ _ _ hpre hok
    | ok s1 =>
      simp only [resSt] at hok hpreF ⊢
      have hw1 : LW _ w1 := hpreF.2.1
      simp only [layerRun] at hok ⊢
      have hlI := lex_iterL _ (clean dest) o hd rfl e s1 (hsym e (by simp)) hpreF.2.2.1
      have hfI := fr_iterL (pathComps (clean dest)) (touchedI (clean dest) e) w1.fs (clean dest) o hd e s1
        (hsym e (by simp)) (by simp [touchedI]) (fun x hx => by simp [touchedI, hx]) hpreF.2.2.2
      have h1 := FrSem.run _ (touchedI (clean dest) e) w1.fs hw1.inv.fresh _ _ _ w1 hlI hfI hw1 (Framed.refl _ _)
      have h2 := LexSem.run _ _ _ w1 hlI hw1
      cases hit : (layerIterP (clean dest) o e s1).run w1 with
      | mk r2 w2 =>
        rw [hit] at hok h1 h2
        cases r2 with
        | error x =>
          exfalso
          obtain ⟨out, st'⟩ := x
          simp only at hok
          rw [layerFinish_out] at hok
          have := Prog.All.run _ w1 (layerIter_error_ne_ok (clean dest) o e s1)
          rw [hit] at this
          exact this out st' rfl hok
        | ok s2 =>
          simp only [resSt] at hok h1 h2 ⊢
          obtain ⟨hw2, i, hl2, hs2⟩ :=
            iterL_link_post _ (clean dest) o hd rfl e s1 w1 hw1 hlink hnst hmeta hnwh hne s2 w2 hit
          have hpostF := layerRun_frame _ (clean dest) o hd rfl post s2 w2 hsymPost hw2 h2.2.2 h1.2
          have hsub : ∀ t ∈ touchedIs (clean dest) post, t ∈ touchedL (clean dest) post := touchedIs_sub _ _
          have htmpsub : ∀ t ∈ [pathComps (join (clean dest) tmpName)], t ∈ touchedL (clean dest) post := by
            intro t ht; simp only [List.mem_singleton] at ht; subst ht; simp [touchedL]
          cases hpo : layerRun (clean dest) o post s2 w2 with
          | mk r3 w3 =>
            rw [hpo] at hok hpostF
            cases r3 with
            | error x =>
              exfalso
              obtain ⟨out, st'⟩ := x
              simp only at hok
              rw [layerFinish_out] at hok
              exact layerRun_error_ne_ok _ _ _ _ _ _ _ _ hpo hok
            | ok s3 =>
              simp only [resSt] at hpostF ⊢
              have hl3 := hpostF.1.names_keep _ i hl2 (fun h => hcov (cov_mono hsub h))
              have hs3 := hpostF.1.names_keep _ i hs2 (fun h => hcovS (cov_mono hsub h))
              exact ⟨i,
                layerEnd_name_kept _ (clean dest) o hd s3 w3 hpostF.2.1 hpostF.2.2.1 hpostF.2.2.2 _ i hl3
                  (fun h => hcov (cov_mono htmpsub h)),
                layerEnd_name_kept _ (clean dest) o hd s3 w3 hpostF.2.1 hpostF.2.2.1 hpostF.2.2.2 _ i hs3
                  (fun h => hcovS (cov_mono htmpsub h))⟩

/-! ### non-vacuity: a file and a hard link to it -/

def exLF : Entry := { name := b!"a", typ := .reg, mode := 0o644, body := b!"1", size := 1 }
def exLL : Entry := { name := b!"b", typ := .link, linkname := b!"a" }

theorem exLL_ok : ((applyLayerP b!"/w/dest" {} ([exLF] ++ exLL :: []) 0o022).run { fs := C05.exFS2 }).1.1 = .ok := by decide

example : ∃ i, ((applyLayerP b!"/w/dest" {} ([exLF] ++ exLL :: []) 0o022).run { fs := C05.exFS2 }).2.fs.lookup [b!"w", b!"dest", b!"b"] = some i ∧
    ((applyLayerP b!"/w/dest" {} ([exLF] ++ exLL :: []) 0o022).run { fs := C05.exFS2 }).2.fs.lookup [b!"w", b!"dest", b!"a"] = some i := by
  have hP : pathComps (join (clean b!"/w/dest") (clean exLL.name)) = [b!"w", b!"dest", b!"b"] := by decide
  have hS : pathComps (join (clean b!"/w/dest") exLL.linkname) = [b!"w", b!"dest", b!"a"] := by decide
  have hT : touchedL (clean b!"/w/dest") [] = [[b!"w", b!"dest", tmpName]] := by decide
  obtain ⟨i, h1, h2⟩ := layer_link_shares b!"/w/dest" {} [exLF] [] exLL 0o022 { fs := C05.exFS2 } (by decide)
    (by intro x hx; simp [exLF, exLL] at hx; rcases hx with rfl | rfl <;> simp)
    C05.exFS2_LW rfl (by decide) (by decide) (by decide) (by rw [hP]; decide)
    (by rw [hP, hT]; rintro ⟨t, ht, hp⟩; simp only [List.mem_singleton] at ht; subst ht; exact absurd hp (by decide))
    (by rw [hS, hT]; rintro ⟨t, ht, hp⟩; simp only [List.mem_singleton] at ht; subst ht; exact absurd hp (by decide))
    exLL_ok
  rw [hP] at h1; rw [hS] at h2
  exact ⟨i, h1, h2⟩

end GA.C06
