import GA.Proofs.LayerDir
import GA.Props.C05e
import GA.Props.C06e
/-
  C06, "all other entries behave as in plain extraction", for whole layers and directories: **a directory entry
  merges, and the last one wins**.  For every layer `pre ++ e :: post` without symbolic-link entries: if
  `ApplyLayer` reports success, `e` is a directory entry whose name is neither reserved, a whiteout nor the
  destination itself, and nothing after `e` names the same path, a path above it, a whiteout for it or for a path
  above it (later entries *beneath* it are welcome, and so are whiteouts and opaque markers beneath it), then
  afterwards the path names a directory with `e`'s mode bits, `e`'s (clamped) modification time — although
  creating or removing the later entries beneath it changed that time on the way — and the translated or
  overriding owner.
-/
namespace GA.C06
open GA

theorem layer_dir_last_wins (dest : Str) (o : Opts) (pre post : List Entry) (e : Entry) (um : Nat) (w : World)
    (habs : isAbs dest = true)
    (hsym : ∀ x ∈ pre ++ e :: post, x.typ ≠ .sym)
    (hw : LW (pathComps (clean dest)) w)
    (hdir : e.typ = .dir)
    (hmeta : hasPrefix (clean e.name) whMetaPrefix = false)
    (hnwh : hasPrefix (base (join (clean dest) (clean e.name))) whPrefix = false)
    (hne : pathComps (join (clean dest) (clean e.name)) ≠ pathComps (clean dest))
    (hcov : ¬ Cov (touchedL (clean dest) post) (pathComps (join (clean dest) (clean e.name))))
    (hok : ((applyLayerP dest o (pre ++ e :: post) um).run w).1.1 = .ok) :
    ∃ e' i n, remapE o e = some e' ∧
      ((applyLayerP dest o (pre ++ e :: post) um).run w).2.fs.lookup (pathComps (join (clean dest) (clean e.name))) = some i ∧
      ((applyLayerP dest o (pre ++ e :: post) um).run w).2.fs.inode i = some n ∧
      n.kind = .dir ∧ n.perm = e.mode &&& 0o7777 ∧ n.mtime = some (boundTime e.mtime) ∧
      (o.noLchown = false → (n.uid, n.gid) = o.chownOpts.getD (e'.uid, e'.gid)) := by
  have hd : CleanAbs (clean dest) := clean_cleanAbs dest habs
  obtain ⟨hr1, hr2⟩ := applyLayer_run dest o (pre ++ e :: post) um w
  rw [hr1] at hok
  rw [hr2]
  have hw0 : LW (pathComps (clean dest)) (step w (.setUmask 0)).2 :=
    (step_good _ w (.setUmask 0) hw (good_lex (s := .setUmask 0) trivial)).2
  generalize (step w (.setUmask 0)).2 = w0 at hok hw0 ⊢
  unfold unpackLayerP at hok ⊢
  rw [layerLoop_run] at hok ⊢
  rw [layerRun_append] at hok ⊢
  have hsymPre : ∀ x ∈ pre, x.typ ≠ .sym := fun x hx => hsym x (by simp [hx])
  have hsymPost : ∀ x ∈ post, x.typ ≠ .sym := fun x hx => hsym x (by simp [hx])
  have hL0 : LStOK (pathComps (clean dest)) (clean dest) {} := ⟨by simp, Or.inl rfl, by simp⟩
  have hF0 : FSt0 (clean dest) {} := ⟨Or.inl rfl, by simp⟩
  have hpreF := layerRun_frame _ (clean dest) o hd rfl pre {} w0 hsymPre hw0 hL0 hF0
  cases hpre : layerRun (clean dest) o pre {} w0 with
  | mk r1 w1 =>
    rw [hpre] at hok hpreF
    cases r1 with
    | error x =>
      exfalso
      obtain ⟨out, st'⟩ := x
      simp only at hok
      rw [layerFinish_out] at hok
      exact layerRun_error_ne_ok _ _ _ _ _ _ _ _ hpre hok
    | ok s1 =>
      simp only [resSt] at hok hpreF ⊢
      have hw1 : LW _ w1 := hpreF.2.1
      simp only [layerRun] at hok ⊢
      have hlI := lex_iterL _ (clean dest) o hd rfl e s1 (hsym e (by simp)) hpreF.2.2.1
      have hfI := fr_iterL (pathComps (clean dest)) (touchedI (clean dest) e) w1.fs (clean dest) o hd e s1
        (hsym e (by simp)) (by simp [touchedI]) (fun x hx => by simp [touchedI, hx]) hpreF.2.2.2
      have h1 := FrSem.run _ (touchedI (clean dest) e) w1.fs hw1.inv.fresh _ _ _ w1 hlI hfI hw1 (Framed.refl _ _)
      have h2 := LexSem.run _ _ _ w1 hlI hw1
      cases hit : (layerIterP (clean dest) o e s1).run w1 with
      | mk r2 w2 =>
        rw [hit] at hok h1 h2
        cases r2 with
        | error x =>
          exfalso
          obtain ⟨out, st'⟩ := x
          simp only at hok
          rw [layerFinish_out] at hok
          have := Prog.All.run _ w1 (layerIter_error_ne_ok (clean dest) o e s1)
          rw [hit] at this
          exact this out st' rfl hok
        | ok s2 =>
          simp only [resSt] at hok h1 h2 ⊢
          obtain ⟨hPin, hw2, hd2, e', i, n2, hrem, hl2, hi2, hfin⟩ :=
            iterL_dir_post _ (clean dest) o hd rfl e s1 w1 hw1 hdir hmeta hnwh hne s2 w2 hit
          obtain ⟨_, hmode, hmt, _, _⟩ := remapE_fields o e e' hrem
          have hpostF := layerRun_frame _ (clean dest) o hd rfl post s2 w2 hsymPost hw2 h2.2.2 h1.2
          have hsub : ∀ t ∈ touchedIs (clean dest) post, t ∈ touchedL (clean dest) post := touchedIs_sub _ _
          have hcovI : ¬ Cov (touchedIs (clean dest) post) (pathComps (join (clean dest) (clean e.name))) :=
            fun h => hcov (cov_mono hsub h)
          have htmpsub : ∀ t ∈ [pathComps (join (clean dest) tmpName)], t ∈ touchedL (clean dest) post := by
            intro t ht; simp only [List.mem_singleton] at ht; subst ht; simp [touchedL]
          have hcovT : ¬ Cov [pathComps (join (clean dest) tmpName)] (pathComps (join (clean dest) (clean e.name))) :=
            fun h => hcov (cov_mono htmpsub h)
          have hancT := not_anc_tmp (clean dest) hd _ hPin hne hcovT
          cases hpo : layerRun (clean dest) o post s2 w2 with
          | mk r3 w3 =>
            rw [hpo] at hok hpostF
            cases r3 with
            | error x =>
              exfalso
              obtain ⟨out, st'⟩ := x
              simp only at hok
              rw [layerFinish_out] at hok
              exact layerRun_error_ne_ok _ _ _ _ _ _ _ _ hpo hok
            | ok s3 =>
              simp only [resSt] at hok hpostF ⊢
              -- the directory has one name; the remaining entries change at most its time
              have hone : ∀ p, w2.fs.lookup p = some i → p = pathComps (join (clean dest) (clean e.name)) :=
                fun p hp => hw2.inv.dirone _ _ i n2 hp hl2 hi2 hfin.1
              have hout : OutI (touchedIs (clean dest) post) w2.fs i :=
                ⟨⟨_, hl2⟩, fun p hp => by rw [hone p hp]; exact hcovI⟩
              have hl3 : w3.fs.lookup (pathComps (join (clean dest) (clean e.name))) = some i :=
                hpostF.1.names_keep _ i hl2 hcovI
              have he3 := hpostF.1.inode_out i hout
              rw [hi2] at he3
              obtain ⟨n3, hi3, hen3⟩ : ∃ n3, w3.fs.inode i = some n3 ∧ eraseM n3 = eraseM n2 := by
                cases h : w3.fs.inode i with
                | none => rw [h] at he3; simp at he3
                | some n3 => rw [h] at he3; simp at he3; exact ⟨n3, rfl, he3⟩
              -- the deferred list: what the remaining entries added, then this entry, then the older ones
              obtain ⟨news, hshape, hnews⟩ := layerRun_dirs_shape (clean dest) o post s2 w2 s3 w3 hpo
              have hd3ok : DirsOK (pathComps (clean dest)) (clean dest) s3.dirs := hpostF.2.2.1.dirs
              have hd1ok : DirsOK (pathComps (clean dest)) (clean dest) s1.dirs := hpreF.2.2.1.dirs
              have hrev : s3.dirs.reverse = s1.dirs.reverse ++ ({ e with name := clean e.name } :: news.reverse) := by
                rw [hshape, hd2]; simp
              simp only [layerLoop] at hok ⊢
              rw [Prog.bind_eq, Prog.run_bind] at hok ⊢
              rw [layerFinish_out] at hok
              rw [hrev] at hok ⊢
              obtain ⟨hoka, hsplit⟩ := dirTimes_append (clean dest) s1.dirs.reverse _ w3 hok
              rw [hsplit] at hok ⊢
              have hda : DirsOK (pathComps (clean dest)) (clean dest) s1.dirs.reverse := fun x hx => hd1ok x (by simpa using hx)
              have hea := dirTimes_erase (pathComps (clean dest)) (clean dest) s1.dirs.reverse w3 hpostF.2.1 hda
              have hla : ((dirTimesP (clean dest) s1.dirs.reverse).run w3).2.fs.lookup (pathComps (join (clean dest) (clean e.name))) = some i := by
                rw [KeepsNames.run _ _ (keeps_dirTimes (clean dest) s1.dirs.reverse)]; exact hl3
              have hia := hea.2 i
              rw [hi3] at hia
              obtain ⟨na, hina, hena⟩ : ∃ na, ((dirTimesP (clean dest) s1.dirs.reverse).run w3).2.fs.inode i = some na ∧
                  eraseM na = eraseM n3 := by
                cases h : ((dirTimesP (clean dest) s1.dirs.reverse).run w3).2.fs.inode i with
                | none => rw [h] at hia; simp at hia
                | some na => rw [h] at hia; simp at hia; exact ⟨na, rfl, hia⟩
              have hfa := C05.erase_fields (hena.trans hen3)
              have hka : na.kind = .dir := by rw [hfa.1]; exact hfin.1
              have hdb : DirsOK (pathComps (clean dest)) (clean dest) ({ e with name := clean e.name } :: news.reverse) := by
                intro x hx
                apply hd3ok x
                rw [hshape, hd2]
                rcases List.mem_cons.mp hx with rfl | hx
                · simp
                · simp [List.mem_reverse.mp hx]
              have hav : ∀ x ∈ news.reverse, pathComps (join (clean dest) x.name) ≠ pathComps (join (clean dest) (clean e.name)) := by
                intro x hx heq
                obtain ⟨ex, hex, hxn⟩ := hnews x (List.mem_reverse.mp hx)
                apply hcov
                refine ⟨_, touchedOf_sub hex (show pathComps (join (clean dest) (clean ex.name)) ∈ touchedOf (clean dest) ex by
                  simp [touchedOf]), ?_⟩
                rw [← hxn, heq]
                exact List.prefix_refl _
              have hhit := dirTimes_hit (pathComps (clean dest)) (clean dest) (pathComps (join (clean dest) (clean e.name))) i na hka
                { e with name := clean e.name } news.reverse _ hea.1 hdb rfl hav hla hina hok
              -- the clean-up of the staging directory does not reach this directory
              have hlb : ((dirTimesP (clean dest) ({ e with name := clean e.name } :: news.reverse)).run
                  ((dirTimesP (clean dest) s1.dirs.reverse).run w3).2).2.fs.lookup (pathComps (join (clean dest) (clean e.name))) = some i := by
                rw [KeepsNames.run _ _ (keeps_dirTimes (clean dest) _)]; exact hla
              have hwb := (dirTimes_erase (pathComps (clean dest)) (clean dest) _ _ hea.1 hdb).1
              have honeb : ∀ q, ((dirTimesP (clean dest) ({ e with name := clean e.name } :: news.reverse)).run
                  ((dirTimesP (clean dest) s1.dirs.reverse).run w3).2).2.fs.lookup q = some i →
                  q = pathComps (join (clean dest) (clean e.name)) :=
                fun q hq => hwb.inv.dirone _ _ i _ hq hlb hhit (by simpa using hka)
              obtain ⟨hlz, hiz⟩ := layerFinish_quiet _ (clean dest) hd s3 _ _ hwb hpostF.2.2.1 hpostF.2.2.2 i _ _ hlb hhit honeb hcovT hancT
              refine ⟨e', i, _, hrem, hlz, hiz, ?_, ?_, ?_, ?_⟩
              · exact hka
              · show na.perm = _
                rw [hfa.2.1, hfin.2.1, hmode]
              · rfl
              · intro hno
                show (na.uid, na.gid) = _
                rw [hfa.2.2.1, hfa.2.2.2]
                exact hfin.2.2.2 hno

/-! ### non-vacuity: a directory entry, a file beneath it, and a whiteout beneath it -/

def exLDir : Entry := { name := b!"d/", typ := .dir, mode := 0o711, mtime := 1000 }
def exLChild : Entry := { name := b!"d/x", typ := .reg, mode := 0o644, mtime := 2000, body := b!"hi", size := 2 }
def exLWh : Entry := { name := b!"d/.wh.y", typ := .reg }

theorem exLDir_ok : ((applyLayerP b!"/w/dest" {} ([] ++ exLDir :: [exLChild, exLWh]) 0o022).run { fs := C05.exFS2 }).1.1 = .ok := by
  decide

example : ∃ i n, ((applyLayerP b!"/w/dest" {} ([] ++ exLDir :: [exLChild, exLWh]) 0o022).run { fs := C05.exFS2 }).2.fs.lookup
      [b!"w", b!"dest", b!"d"] = some i ∧
    ((applyLayerP b!"/w/dest" {} ([] ++ exLDir :: [exLChild, exLWh]) 0o022).run { fs := C05.exFS2 }).2.fs.inode i = some n ∧
    n.kind = .dir ∧ n.perm = 0o711 ∧ n.mtime = some 1000 := by
  have hP : pathComps (join (clean b!"/w/dest") (clean exLDir.name)) = [b!"w", b!"dest", b!"d"] := by decide
  have hT : touchedL (clean b!"/w/dest") [exLChild, exLWh] =
      [[b!"w", b!"dest", tmpName], [b!"w", b!"dest", b!"d", b!"x"], [b!"w", b!"dest", b!"d", b!".wh.y"],
       [b!"w", b!"dest", b!"d", b!"y"]] := by decide
  obtain ⟨e', i, n, _, hl, hi, hk, hpm, hmt, _⟩ := layer_dir_last_wins b!"/w/dest" {} [] [exLChild, exLWh] exLDir 0o022
    { fs := C05.exFS2 } (by decide)
    (by intro x hx; simp [exLDir, exLChild, exLWh] at hx; rcases hx with rfl | rfl | rfl <;> simp)
    C05.exFS2_LW rfl (by decide) (by decide) (by rw [hP]; decide)
    (by
      rw [hP, hT]; rintro ⟨t, ht, hp⟩
      simp only [List.mem_cons, List.mem_nil_iff, or_false] at ht
      rcases ht with rfl | rfl | rfl | rfl <;> exact absurd hp (by decide))
    exLDir_ok
  rw [hP] at hl
  exact ⟨i, n, hl, hi, hk, by rw [hpm]; decide, by rw [hmt]; decide⟩

end GA.C06
