import GA.M.Unpack
import GA.Proofs.RAll
/-
  C06 — layer apply removes exactly what its whiteouts name (mechanism-level theorems that hold
  for every filesystem and every outcome of every system call).
  The refinement of `unpackLayerP` to a sequential whiteout specification is not proved; the
  mechanism model itself is the reference the extract stream compares the real code with.
-/
namespace GA.C06
open GA

theorem All_bind_any {α β : Type} {Q : β → Prop} (m : Prog α) (f : α → Prog β) (h : ∀ a, (f a).All Q) :
    (m >>= f).All Q := Prog.All.bind m f (Prog.All.trivial m) (fun a _ => h a)

theorem All_bind {α β : Type} {P : α → Prop} {Q : β → Prop} (m : Prog α) (f : α → Prog β) (hm : m.All P)
    (h : ∀ a, P a → (f a).All Q) : (m >>= f).All Q := Prog.All.bind m f hm h

theorem All_pure {α : Type} {Q : α → Prop} (a : α) (h : Q a) : (pure a : Prog α).All Q := h

def sumSizes (es : List Entry) : Nat := (es.map (·.size)).sum

/-- returned size: the declared total on success, zero with any error -/
def Good (base : Nat) (r : Out × Nat) : Prop := (r.1 = .ok → r.2 = base) ∧ (r.1 ≠ .ok → r.2 = 0)

theorem layerFinish_good (dest : Str) (st : LState) (out : Out) (base : Nat) (h : out = .ok → st.size = base) :
    (layerFinish dest st out).All (Good base) := by
  unfold layerFinish
  apply All_bind_any
  intro _
  apply All_pure
  constructor
  · intro ho
    have ho' : out = .ok := ho
    simp [ho', h ho']
  · intro ho
    have : (out == Out.ok) = false := by simpa using ho
    simp [this]

theorem guardName_error_ne_ok (dest n : Str) (out : Out) (h : guardName dest n = .error out) : out ≠ .ok := by
  simp only [guardName] at h
  split at h
  · cases h; simp
  · split at h
    · cases h; simp
    · cases h

/-- staging keeps the running size and fails only with a non-ok outcome -/
theorem stageP_all (dest : Str) (o : Opts) (e : Entry) (st : LState) (n : Str) :
    (stageP dest o e st n).All (fun r => match r with
      | .error out => out ≠ .ok
      | .ok st2 => st2.size = st.size) := by
  unfold stageP
  split
  · apply All_bind_any; intro mk
    split
    · apply All_bind_any; intro out
      split
      · rename_i hne
        split
        · apply All_bind_any; intro _; apply All_pure; simpa using hne
        · apply All_pure; simpa using hne
      · apply All_pure; rfl
    · apply All_pure; simp
  · apply All_pure; rfl

theorem resolveSrcP_all (st : LState) (e : Entry) :
    (resolveSrcP st e).All (fun r => match r with
      | .error out => out ≠ .ok
      | .ok _ => True) := by
  unfold resolveSrcP
  split
  · simp only
    split
    · apply All_pure; simp
    · apply All_bind_any; intro d
      split
      · apply All_pure; trivial
      · apply All_pure; simp
  · apply All_pure; trivial

set_option maxHeartbeats 1600000 in
/-- **the returned size is the sum of the entries' declared sizes** (on success; 0 with any error),
    whatever the filesystem does -/
theorem layerLoop_size (dest : Str) (o : Opts) : ∀ (es : List Entry) (st : LState),
    (layerLoop dest o es st).All (Good (st.size + sumSizes es)) := by
  intro es
  induction es with
  | nil =>
    intro st
    simp only [layerLoop]
    apply All_bind_any; intro r
    exact layerFinish_good dest st r _ (fun _ => by simp [sumSizes])
  | cons e es ih =>
    intro st0
    have hbase : ∀ (stY : LState), stY.size = st0.size + e.size →
        stY.size + sumSizes es = st0.size + sumSizes (e :: es) := by
      intro stY h; simp [sumSizes, h]; omega
    -- every error exit: out ≠ ok
    have fin : ∀ (stX : LState) (out : Out), out ≠ .ok → (layerFinish dest stX out).All (Good (st0.size + sumSizes (e :: es))) :=
      fun stX out hne => layerFinish_good dest stX out _ (fun h => absurd h hne)
    have recur : ∀ (stY : LState), stY.size = st0.size + e.size →
        (layerLoop dest o es stY).All (Good (st0.size + sumSizes (e :: es))) := by
      intro stY h; rw [← hbase stY h]; exact ih stY
    simp only [layerLoop]
    split
    · exact recur _ rfl
    refine All_bind _ _ (stageP_all dest o e _ (clean e.name)) ?_
    intro stR hstR
    cases stR with
    | error out => exact fin _ out hstR
    | ok st =>
      simp only at hstR
      simp only
      repeat' first
        | exact recur _ hstR
        | (apply recur; simpa using hstR)
        | exact fin _ .err (by decide)
        | exact fin _ .breakout (by decide)
        | exact fin _ _ (guardName_error_ne_ok _ _ _ ‹guardName _ _ = Except.error _›)
        | exact fin _ _ (by have h := ‹(_ != Out.ok) = true›; simpa using h)
        | exact fin _ _ hsrc
        | (refine All_bind _ _ (resolveSrcP_all _ e) ?_; intro srcR hsrc; cases srcR <;> simp only)
        | cases ‹Except.ok _ = Except.error _›
        | cases ‹Except.error _ = Except.ok _›
        | (apply All_bind_any; intro _)
        | split

/-- `UnpackLayer` returns the sum of the declared sizes on success and 0 on any failure -/
theorem size_is_sum (dest : Str) (o : Opts) (es : List Entry) (w : World) :
    let r := ((unpackLayerP dest o es).run w).1
    (r.1 = .ok → r.2 = sumSizes es) ∧ (r.1 ≠ .ok → r.2 = 0) := by
  have := Prog.All.run _ w (layerLoop_size dest o es {})
  simpa [unpackLayerP, Good] using this

/-- … also when any system calls are refused -/
theorem size_is_sum_faults (dest : Str) (o : Opts) (es : List Entry) (w : World) (faults : Nat → Option Errno) :
    let r := ((unpackLayerP dest o es).runF faults 0 w).1
    (r.1 = .ok → r.2 = sumSizes es) ∧ (r.1 ≠ .ok → r.2 = 0) := by
  have := Prog.All.runF faults _ 0 w (layerLoop_size dest o es {})
  simpa [unpackLayerP, Good] using this

/-- **reserved-prefix metadata entries never materialise**: an entry whose cleaned name starts with
    `.wh..wh.` — other than the opaque marker and regular files of the staging area — is skipped
    without a single system call -/
theorem reserved_skipped (dest : Str) (o : Opts) (e : Entry) (es : List Entry) (st : LState)
    (h1 : hasPrefix (clean e.name) whMetaPrefix = true) (h2 : clean e.name ≠ whOpaqueDir)
    (h3 : ¬ (hasPrefix (clean e.name) whLinkDir = true ∧ e.typ = .reg)) :
    layerLoop dest o (e :: es) st = layerLoop dest o es { st with size := st.size + e.size } := by
  have h3' : (hasPrefix (clean e.name) whMetaPrefix && hasPrefix (clean e.name) whLinkDir && e.typ == Typ.reg) = false := by
    cases hl : hasPrefix (clean e.name) whLinkDir <;> cases ht : (e.typ == Typ.reg) <;> simp_all
  simp only [layerLoop]
  split
  · rfl
  simp only [stageP, h3', Bool.false_eq_true, if_false]
  show Prog.bind (Prog.ret _) _ = _
  simp only [Prog.bind, h1, h2, ne_eq, not_false_eq_true, decide_true, Bool.and_self, if_true]

/-- the constants the filter uses (regenerated) -/
theorem whiteout_constants :
    whPrefix = b!".wh." ∧ whMetaPrefix = b!".wh..wh." ∧ whLinkDir = b!".wh..wh.plnk" ∧ whOpaqueDir = b!".wh..wh..opq" := by
  decide

end GA.C06
