import GA.Proofs.LexUnpack
import GA.Proofs.LexLayer
/-
  C02, second sentence: "for archives that contain no symlink entries, extracted into a destination
  that contains no symlinks, nothing outside the destination is created, modified, deleted, re-owned,
  re-timed or hard-linked, on success or on failure" — for the plain `Untar`.

  `LW dp w` is the hypothesis on the world: the thread root is "/", no name of the file system is a
  symbolic link, the destination `dp` is a directory, its ancestors are directories that have no second
  name inside the destination, and inode numbers are allocated freshly.  `Confined dp fs fs'` is the
  conclusion: every name outside `dp` resolves to the same inode, every inode reachable only from
  outside `dp` is unchanged (kind, mode, owner, times, content, attributes), and none of them has
  acquired a name inside `dp`.
-/
namespace GA.C02
open GA

/-- **plain untar of an archive without symbolic-link entries into a symlink-free world changes
    nothing outside the destination** — for every archive (names of any shape, duplicates, hard links,
    devices, any order), every option set of the default whiteout format, every prior tree, and
    whatever the outcome (success, refusal, error half-way) -/
theorem untar_symlink_free_confined (dest : Str) (o : Opts) (es : List Entry) (w : World)
    (habs : isAbs dest = true) (hov : o.overlay = false) (hsym : ∀ e ∈ es, e.typ ≠ .sym)
    (hw : LW (pathComps (clean dest)) w) :
    Confined (pathComps (clean dest)) w.fs ((untarP dest o es).run w).2.fs ∧
    LW (pathComps (clean dest)) ((untarP dest o es).run w).2 := by
  have := LexSem.run _ _ (untarP dest o es) w (lex_untar dest o es habs hov hsym) hw
  exact ⟨this.1, this.2.1⟩

/-- what the conclusion says about a single outside path: it still resolves to the same object, and
    if that object has no name inside the destination it is bit-for-bit what it was -/
theorem untar_outside_untouched (dest : Str) (o : Opts) (es : List Entry) (w : World)
    (habs : isAbs dest = true) (hov : o.overlay = false) (hsym : ∀ e ∈ es, e.typ ≠ .sym)
    (hw : LW (pathComps (clean dest)) w) (p : Path) (hp : under (pathComps (clean dest)) p = false) :
    ((untarP dest o es).run w).2.fs.lookup p = w.fs.lookup p ∧
    ∀ i, w.fs.lookup p = some i → OutsideOnly (pathComps (clean dest)) w.fs i →
      ((untarP dest o es).run w).2.fs.inode i = w.fs.inode i := by
  have h := (untar_symlink_free_confined dest o es w habs hov hsym hw).1
  exact ⟨h.names_out p hp, fun i _ ho => h.inode_out i ho⟩

/-- the extraction can be repeated: the invariant holds again afterwards (so the statement covers
    any sequence of such extractions into the same destination) -/
theorem untar_twice_confined (dest : Str) (o1 o2 : Opts) (es1 es2 : List Entry) (w : World)
    (habs : isAbs dest = true) (hov1 : o1.overlay = false) (hov2 : o2.overlay = false)
    (hs1 : ∀ e ∈ es1, e.typ ≠ .sym) (hs2 : ∀ e ∈ es2, e.typ ≠ .sym) (hw : LW (pathComps (clean dest)) w) :
    Confined (pathComps (clean dest)) w.fs
      ((untarP dest o2 es2).run ((untarP dest o1 es1).run w).2).2.fs := by
  have h1 := untar_symlink_free_confined dest o1 es1 w habs hov1 hs1 hw
  have h2 := untar_symlink_free_confined dest o2 es2 _ habs hov2 hs2 h1.2
  exact Confined.trans h1.1 h2.1

/-- **plain layer apply of a layer without symbolic-link entries into a symlink-free world changes
    nothing outside the destination** — whiteouts at any depth, opaque markers with their walk, the
    hard-link staging area, reserved names, any order, whatever the outcome -/
theorem applyLayer_symlink_free_confined (dest : Str) (o : Opts) (es : List Entry) (oldUmask : Nat) (w : World)
    (habs : isAbs dest = true) (hsym : ∀ e ∈ es, e.typ ≠ .sym) (hw : LW (pathComps (clean dest)) w) :
    Confined (pathComps (clean dest)) w.fs ((applyLayerP dest o es oldUmask).run w).2.fs ∧
    LW (pathComps (clean dest)) ((applyLayerP dest o es oldUmask).run w).2 := by
  have := LexSem.run _ _ (applyLayerP dest o es oldUmask) w (lex_applyLayer dest o es oldUmask habs hsym) hw
  exact ⟨this.1, this.2.1⟩

/-- a sequence of layers applied one after the other (each without symbolic-link entries) -/
theorem applyLayers_confined (dest : Str) (o : Opts) (um : Nat) (habs : isAbs dest = true) :
    ∀ (layers : List (List Entry)) (w : World), (∀ es ∈ layers, ∀ e ∈ es, e.typ ≠ .sym) →
      LW (pathComps (clean dest)) w →
      Confined (pathComps (clean dest)) w.fs
        (layers.foldl (fun w' es => ((applyLayerP dest o es um).run w').2) w).fs
  | [], w, _, _ => Confined.refl _ _
  | es :: rest, w, hs, hw => by
    simp only [List.foldl_cons]
    have h1 := applyLayer_symlink_free_confined dest o es um w habs (hs es (by simp)) hw
    have h2 := applyLayers_confined dest o um habs rest _ (fun x hx => hs x (by simp [hx])) h1.2
    exact Confined.trans h1.1 h2

/-! ### the hypotheses are satisfiable: a world with a destination and something beside it -/

def exDir : Inode := { kind := .dir, perm := 0o755, uid := 0, gid := 0, mtime := some 0 }
def exFS : FS :=
  { names := [([], 0), ([b!"w"], 1), ([b!"w", b!"dest"], 2), ([b!"w", b!"secret"], 3)],
    inode := fun j => if j ≤ 2 then some exDir else if j = 3 then some { exDir with kind := .reg, data := b!"s" } else none,
    next := 4 }

theorem exFS_mem (p : Path) (i : Ino) (h : exFS.lookup p = some i) : (p, i) ∈ exFS.names := by
  simp only [FS.lookup] at h
  cases hf : List.find? (fun e => e.1 == p) exFS.names with
  | none => rw [hf] at h; simp at h
  | some x =>
    rw [hf] at h
    have hm := List.mem_of_find?_eq_some hf
    have hp := List.find?_some hf
    simp at h hp
    obtain ⟨a, b⟩ := x
    simp at h hp
    subst h; subst hp
    exact hm

example : LW (pathComps (clean b!"/w/dest")) ({ fs := exFS } : World) := by
  have hdp : pathComps (clean b!"/w/dest") = [b!"w", b!"dest"] := by decide
  rw [hdp]
  have hcases : ∀ p i, exFS.lookup p = some i →
      (p = [] ∧ i = 0) ∨ (p = [b!"w"] ∧ i = 1) ∨ (p = [b!"w", b!"dest"] ∧ i = 2) ∨ (p = [b!"w", b!"secret"] ∧ i = 3) := by
    intro p i h
    have hm := exFS_mem p i h
    simpa [exFS] using hm
  have hns : NoSym exFS := by
    intro p n h
    rw [get_def] at h
    cases hl : exFS.lookup p with
    | none => rw [hl] at h; cases h
    | some i =>
      rw [hl] at h
      rcases hcases p i hl with ⟨_, rfl⟩ | ⟨_, rfl⟩ | ⟨_, rfl⟩ | ⟨_, rfl⟩ <;> simp [exFS, exDir] at h <;> rw [← h] <;> simp
  have hfresh : NextFresh exFS := by
    intro p i h
    rcases hcases p i h with ⟨_, rfl⟩ | ⟨_, rfl⟩ | ⟨_, rfl⟩ | ⟨_, rfl⟩ <;> decide
  have hnames : NameWF exFS := by
    intro p i h c hc
    rcases hcases p i h with ⟨rfl, _⟩ | ⟨rfl, _⟩ | ⟨rfl, _⟩ | ⟨rfl, _⟩ <;> simp at hc
    · subst hc; simp [Norm, dot, dotdot]
    · rcases hc with rfl | rfl <;> simp [Norm, dot, dotdot]
    · rcases hc with rfl | rfl <;> simp [Norm, dot, dotdot]
  have htree : TreeWF exFS := by
    constructor
    · intro p i h
      rcases hcases p i h with ⟨_, rfl⟩ | ⟨_, rfl⟩ | ⟨_, rfl⟩ | ⟨_, rfl⟩ <;> simp [exFS]
    · intro p i h hne
      rcases hcases p i h with ⟨rfl, _⟩ | ⟨rfl, _⟩ | ⟨rfl, _⟩ | ⟨rfl, _⟩
      · exact absurd rfl hne
      · decide
      · decide
      · decide
  have hchain : Chain [b!"w", b!"dest"] exFS := by
    intro pre hpre hne
    have hc2 : pre = [] ∨ pre = [b!"w"] := by
      rcases hpre with ⟨t, ht⟩
      match pre, ht with
      | [], _ => exact Or.inl rfl
      | [a], ht => simp at ht; exact Or.inr (by rw [ht.1])
      | [a, b], ht => simp at ht; exact absurd (by rw [ht.1, ht.2.1]) hne
      | a :: b :: c :: r, ht => simp at ht
    rcases hc2 with rfl | rfl
    · refine ⟨0, exDir, by decide, by simp [exFS], rfl, ⟨⟨[], by decide⟩, ?_⟩⟩
      intro p hp
      rcases hcases p 0 hp with ⟨rfl, _⟩ | ⟨_, h⟩ | ⟨_, h⟩ | ⟨_, h⟩
      · decide
      · cases h
      · cases h
      · cases h
    · refine ⟨1, exDir, by decide, by simp [exFS], rfl, ⟨⟨[b!"w"], by decide⟩, ?_⟩⟩
      intro p hp
      rcases hcases p 1 hp with ⟨_, h⟩ | ⟨rfl, _⟩ | ⟨_, h⟩ | ⟨_, h⟩
      · cases h
      · decide
      · cases h
      · cases h
  have hdirone : DirOne exFS := by
    intro p q i n hp hq _ _
    rcases hcases p i hp with ⟨rfl, rfl⟩ | ⟨rfl, rfl⟩ | ⟨rfl, rfl⟩ | ⟨rfl, rfl⟩ <;>
      rcases hcases q _ hq with ⟨rfl, h⟩ | ⟨rfl, h⟩ | ⟨rfl, h⟩ | ⟨rfl, h⟩ <;>
      first | rfl | exact absurd h (by decide)
  exact ⟨⟨rfl, hns, hfresh, by decide, hnames, htree, hdirone⟩, hchain⟩

end GA.C02
