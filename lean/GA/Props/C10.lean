import GA.M.Changes
import GA.Generated.Facts
/-
  C10 — directory diff equals the reference diff (the parsing and merging core).
-/
namespace GA.C10
open GA GA.Changes

theorem leNat_leBytes : ∀ (k n : Nat), leNat (leBytes k n) = n % 256 ^ k
  | 0, n => by simp [leBytes, leNat, Nat.mod_one]
  | k+1, n => by
    simp only [leBytes, leNat, leNat_leBytes k (n / 256)]
    have h1 : (UInt8.ofNat (n % 256)).toNat = n % 256 := by
      simp [UInt8.toNat_ofNat, Nat.mod_mod]
    rw [h1, Nat.pow_succ, Nat.mul_comm (256 ^ k) 256, Nat.mod_mul]

theorem leBytes_length : ∀ (k n : Nat), (leBytes k n).length = k
  | 0, _ => rfl
  | k+1, n => by simp [leBytes, leBytes_length k]

theorem encodeRec_length (ino : Nat) (name : Str) (pad : Nat) :
    (encodeRec ino name pad).length = 19 + name.length + 1 + pad := by
  simp [encodeRec, leBytes_length]; omega

theorem takeWhile_all {α} (p : α → Bool) : ∀ (l : List α), (∀ x ∈ l, p x = true) → l.takeWhile p = l
  | [], _ => rfl
  | a :: l, h => by
    simp [List.takeWhile, h a (by simp), takeWhile_all p l (fun x hx => h x (by simp [hx]))]

theorem take_append_of_length {α} (a b : List α) (n : Nat) (h : a.length = n) : (a ++ b).take n = a := by
  subst h; simp

theorem drop_append_of_length {α} (a b : List α) (n : Nat) (h : a.length = n) : (a ++ b).drop n = b := by
  subst h; simp

/-- the three header fields read back from an encoded record followed by anything -/
theorem fields_of_encode (ino : Nat) (name : Str) (pad : Nat) (rest : List UInt8)
    (hi : ino < 256 ^ 8) (hr : 19 + name.length + 1 + pad < 256 ^ 2) (hn : (0 : UInt8) ∉ name) :
    direntIno (encodeRec ino name pad ++ rest) = ino ∧
    direntReclen (encodeRec ino name pad ++ rest) = 19 + name.length + 1 + pad ∧
    direntName (encodeRec ino name pad ++ rest) = name := by
  refine ⟨?_, ?_, ?_⟩
  · unfold direntIno encodeRec
    simp only [List.append_assoc]
    rw [take_append_of_length _ _ 8 (leBytes_length 8 ino), leNat_leBytes, Nat.mod_eq_of_lt hi]
  · unfold direntReclen encodeRec
    simp only [List.append_assoc]
    rw [← List.append_assoc (leBytes 8 ino), drop_append_of_length _ _ 16 (by simp [leBytes_length]),
      take_append_of_length _ _ 2 (leBytes_length 2 _), leNat_leBytes, Nat.mod_eq_of_lt hr]
  · unfold direntName encodeRec cstr
    simp only [List.append_assoc]
    rw [← List.append_assoc (leBytes 8 ino), ← List.append_assoc (leBytes 8 ino ++ leBytes 8 0),
      ← List.append_assoc ((leBytes 8 ino ++ leBytes 8 0) ++ leBytes 2 _),
      drop_append_of_length _ _ 19 (by simp [leBytes_length])]
    rw [List.takeWhile_append]
    have : name.takeWhile (fun x => decide (x ≠ 0)) = name := by
      apply takeWhile_all
      intro x hx; simp; intro e; exact hn (e ▸ hx)
    rw [this]
    simp

theorem parseDirent_step (n : Nat) (buf rest : List UInt8) (acc : List (Str × Nat)) (ino rl : Nat) (name : Str)
    (hne : buf ≠ []) (h2 : direntReclen buf = rl) (hrl0 : rl ≠ 0) (hrl : rl ≤ buf.length)
    (hd : buf.drop rl = rest) (h1 : direntIno buf = ino) (h3 : direntName buf = name) :
    parseDirent (n + 1) buf acc =
      (rl + (parseDirent n rest (if ino = 0 ∨ name = dot ∨ name = dotdot then acc else acc ++ [(name, ino)])).1,
       (parseDirent n rest (if ino = 0 ∨ name = dot ∨ name = dotdot then acc else acc ++ [(name, ino)])).2) := by
  simp only [parseDirent, hne, if_false, h2, h1, h3, hd]
  have : ¬ (rl = 0 ∨ rl > buf.length) := by omega
  simp [this]

structure Rec where
  ino : Nat
  name : Str
  pad : Nat

def Rec.ok (r : Rec) : Prop := r.ino < 256 ^ 8 ∧ 19 + r.name.length + 1 + r.pad < 256 ^ 2 ∧ (0 : UInt8) ∉ r.name

def Rec.enc (r : Rec) : List UInt8 := encodeRec r.ino r.name r.pad

/-- what the directory listing should contain for these records -/
def wanted (rs : List Rec) : List (Str × Nat) :=
  (rs.filter (fun r => !(r.ino = 0 ∨ r.name = dot ∨ r.name = dotdot))).map (fun r => (r.name, r.ino))

/-- **parseDirent is exact on well-formed buffers**: it consumes every byte and returns exactly
    the (name, inode) pairs of the records whose inode is non-zero and whose name is not "." or ".." -/
theorem parseDirent_exact : ∀ (rs : List Rec) (acc : List (Str × Nat)) (fuel : Nat),
    (∀ r ∈ rs, r.ok) → fuel ≥ (rs.flatMap Rec.enc).length →
    parseDirent fuel (rs.flatMap Rec.enc) acc = ((rs.flatMap Rec.enc).length, acc ++ wanted rs)
  | [], acc, fuel, _, _ => by
    cases fuel <;> simp [parseDirent, wanted]
  | r :: rs, acc, fuel, hok, hf => by
    have hr := hok r (by simp)
    obtain ⟨h1, h2, h3⟩ := fields_of_encode r.ino r.name r.pad (rs.flatMap Rec.enc) hr.1 hr.2.1 hr.2.2
    have hlen := encodeRec_length r.ino r.name r.pad
    have hbuf : (r :: rs).flatMap Rec.enc = encodeRec r.ino r.name r.pad ++ rs.flatMap Rec.enc := by
      simp [List.flatMap_cons, Rec.enc]
    rw [hbuf] at hf ⊢
    simp only [List.length_append, hlen] at hf
    cases fuel with
    | zero => omega
    | succ n =>
      have hne : encodeRec r.ino r.name r.pad ++ rs.flatMap Rec.enc ≠ [] := by
        intro e; have := congrArg List.length e; simp [hlen] at this
      have hdrop := drop_append_of_length (encodeRec r.ino r.name r.pad) (rs.flatMap Rec.enc) _ hlen
      have hle : 19 + r.name.length + 1 + r.pad ≤ (encodeRec r.ino r.name r.pad ++ rs.flatMap Rec.enc).length := by
        simp [hlen]
      have hbl : (encodeRec r.ino r.name r.pad ++ rs.flatMap Rec.enc).length =
          19 + r.name.length + 1 + r.pad + (rs.flatMap Rec.enc).length := by simp [hlen]
      generalize encodeRec r.ino r.name r.pad ++ rs.flatMap Rec.enc = buf at *
      rw [parseDirent_step n buf (rs.flatMap Rec.enc) acc r.ino (19 + r.name.length + 1 + r.pad) r.name hne h2
        (by omega) hle hdrop h1 h3]
      have ih := parseDirent_exact rs
        (if r.ino = 0 ∨ r.name = dot ∨ r.name = dotdot then acc else acc ++ [(r.name, r.ino)]) n
        (fun x hx => hok x (by simp [hx])) (by omega)
      rw [ih]
      refine Prod.ext (by simp only; omega) ?_
      simp only
      unfold wanted
      by_cases hskip : r.ino = 0 ∨ r.name = dot ∨ r.name = dotdot
      · simp [hskip, List.filter]
      · simp [hskip, List.filter]

/-- **the listing does not depend on how the kernel cuts the record stream into buffers** -/
theorem readdir_chunk_independent (rs1 rs2 : List Rec) (acc : List (Str × Nat))
    (h1 : ∀ r ∈ rs1, r.ok) (h2 : ∀ r ∈ rs2, r.ok) :
    (parseDirent (rs2.flatMap Rec.enc).length (rs2.flatMap Rec.enc)
      (parseDirent (rs1.flatMap Rec.enc).length (rs1.flatMap Rec.enc) acc).2).2 =
    (parseDirent ((rs1 ++ rs2).flatMap Rec.enc).length ((rs1 ++ rs2).flatMap Rec.enc) acc).2 := by
  rw [parseDirent_exact rs1 acc _ h1 (Nat.le_refl _), parseDirent_exact rs2 _ _ h2 (Nat.le_refl _),
    parseDirent_exact (rs1 ++ rs2) acc _ (fun r hr => by
      simp at hr; rcases hr with hr | hr; exact h1 r hr; exact h2 r hr) (Nat.le_refl _)]
  simp [wanted, List.filter_append, List.append_assoc]

/-! ### the merge -/

theorem mergeNames_sound (sd : Bool) : ∀ (fuel : Nat) (a b : List (Str × Nat)) (n : Str),
    n ∈ mergeNames sd fuel a b → n ∈ a.map (·.1) ∨ n ∈ b.map (·.1) := by
  intro fuel
  induction fuel with
  | zero => intro a b n h; simp [mergeNames] at h
  | succ k ih =>
    intro a b n h
    cases a with
    | nil => simp [mergeNames] at h; right; simpa using h
    | cons x xs =>
      cases b with
      | nil => simp [mergeNames] at h; left; simpa using h
      | cons y ys =>
        simp only [mergeNames] at h
        split at h
        · simp at h; rcases h with rfl | h
          · left; simp
          · rcases ih _ _ _ h with h | h
            · left; simp at h ⊢; right; exact h
            · right; exact h
        · split at h
          · simp at h; rcases h with rfl | h
            · right; simp
            · rcases ih _ _ _ h with h | h
              · left; exact h
              · right; simp at h ⊢; right; exact h
          · split at h
            · simp at h; rcases h with rfl | h
              · left; simp
              · rcases ih _ _ _ h with h | h
                · left; simp at h ⊢; right; exact h
                · right; simp at h ⊢; right; exact h
            · rcases ih _ _ _ h with h | h
              · left; simp at h ⊢; right; exact h
              · right; simp at h ⊢; right; exact h

theorem strLt_trichotomy : ∀ (a b : Str), strLt a b = false → strLt b a = false → a = b
  | [], [], _, _ => rfl
  | [], _ :: _, h, _ => by simp [strLt] at h
  | _ :: _, [], _, h => by simp [strLt] at h
  | x :: xs, y :: ys, h1, h2 => by
    simp only [strLt] at h1 h2
    by_cases hxy : x < y
    · simp [hxy] at h1
    · by_cases hyx : y < x
      · simp [hyx] at h2
      · simp [hxy, hyx] at h1 h2
        have : x = y := by
          have := UInt8.le_antisymm (UInt8.not_lt.mp hyx) (UInt8.not_lt.mp hxy)
          exact this
        subst this
        rw [strLt_trichotomy xs ys h1 h2]

/-- **nothing is lost by the merge** except a name that both sides hold with the same inode on the
    same device (the pruning the walker is designed to do) -/
theorem mergeNames_complete (sd : Bool) : ∀ (fuel : Nat) (a b : List (Str × Nat)), fuel ≥ a.length + b.length + 1 →
    ∀ n, (n ∈ a.map (·.1) ∨ n ∈ b.map (·.1)) →
      n ∈ mergeNames sd fuel a b ∨ (sd = true ∧ ∃ i, (n, i) ∈ a ∧ (n, i) ∈ b) := by
  intro fuel
  induction fuel with
  | zero => intro a b h; omega
  | succ k ih =>
    intro a b hf n hn
    cases a with
    | nil =>
      left
      have hb : n ∈ b.map (·.1) := by simpa using hn
      cases b with
      | nil => simp at hb
      | cons y ys => simpa [mergeNames] using hb
    | cons x xs =>
      cases b with
      | nil =>
        left
        have ha : n ∈ (x :: xs).map (·.1) := by simpa using hn
        simpa [mergeNames] using ha
      | cons y ys =>
        simp only [mergeNames]
        simp only [List.length_cons] at hf
        split
        · -- x < y
          simp at hn
          rcases hn with (rfl | hn) | hn
          · left; simp
          · rcases ih xs (y :: ys) (by simp; omega) n (Or.inl (by simpa using hn)) with h | ⟨h1, i, h2, h3⟩
            · left; simp [h]
            · right; exact ⟨h1, i, by simp [h2], h3⟩
          · rcases ih xs (y :: ys) (by simp; omega) n (Or.inr (by simpa using hn)) with h | ⟨h1, i, h2, h3⟩
            · left; simp [h]
            · right; exact ⟨h1, i, by simp [h2], h3⟩
        · split
          · simp at hn
            rcases hn with hn | (rfl | hn)
            · rcases ih (x :: xs) ys (by simp; omega) n (Or.inl (by simpa using hn)) with h | ⟨h1, i, h2, h3⟩
              · left; simp [h]
              · right; exact ⟨h1, i, h2, by simp [h3]⟩
            · left; simp
            · rcases ih (x :: xs) ys (by simp; omega) n (Or.inr (by simpa using hn)) with h | ⟨h1, i, h2, h3⟩
              · left; simp [h]
              · right; exact ⟨h1, i, h2, by simp [h3]⟩
          · rename_i hlt hgt
            have hxy : x.1 = y.1 := strLt_trichotomy x.1 y.1 (by simpa using hlt) (by simpa using hgt)
            have recur := fun (hn' : n ∈ xs.map (·.1) ∨ n ∈ ys.map (·.1)) => ih xs ys (by omega) n hn'
            split
            · simp at hn
              rcases hn with (rfl | hn) | (rfl | hn)
              · left; simp
              · rcases recur (Or.inl (by simpa using hn)) with h | ⟨h1, i, h2, h3⟩
                · left; simp [h]
                · right; exact ⟨h1, i, by simp [h2], by simp [h3]⟩
              · left; simp [hxy]
              · rcases recur (Or.inr (by simpa using hn)) with h | ⟨h1, i, h2, h3⟩
                · left; simp [h]
                · right; exact ⟨h1, i, by simp [h2], by simp [h3]⟩
            · rename_i hpr
              have hpr' : x.2 = y.2 ∧ sd = true := by
                simp at hpr; exact hpr
              simp at hn
              have pruned : sd = true ∧ ∃ i, (x.1, i) ∈ x :: xs ∧ (x.1, i) ∈ y :: ys :=
                ⟨hpr'.2, x.2, by simp, by rw [hxy, hpr'.1]; simp⟩
              rcases hn with (rfl | hn) | (rfl | hn)
              · right; exact pruned
              · rcases recur (Or.inl (by simpa using hn)) with h | ⟨h1, i, h2, h3⟩
                · left; exact h
                · right; exact ⟨h1, i, by simp [h2], by simp [h3]⟩
              · right; rw [← hxy]; exact pruned
              · rcases recur (Or.inr (by simpa using hn)) with h | ⟨h1, i, h2, h3⟩
                · left; exact h
                · right; exact ⟨h1, i, by simp [h2], by simp [h3]⟩

/-- obligation on the regenerated fact: the fields `statDifferent` compares -/
theorem statDifferent_fields : Facts.statDifferentFields = ["Gid", "ModTime", "Mode", "Rdev", "Size", "Uid"] := rfl

end GA.C10
