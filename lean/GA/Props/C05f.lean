import GA.Proofs.UnpackNode
import GA.Props.C05e
/-
  C05, the named half for device and fifo entries (outside a user namespace): the last entry wins — same
  statement and same proof architecture as `untar_reg_last_wins`; the per-iteration fact is `iter_node_post`
  (`mknod` refuses an existing name, so success means a fresh inode with one name).
-/
namespace GA.C05
open GA

theorem untar_node_last_wins (dest : Str) (o : Opts) (pre post : List Entry) (e : Entry) (w : World)
    (habs : isAbs dest = true) (hov : o.overlay = false)
    (hsym : ∀ x ∈ pre ++ e :: post, x.typ ≠ .sym)
    (hw : LW (pathComps (clean dest)) w)
    (hnode : e.typ = .chr ∨ e.typ = .blk ∨ e.typ = .fifo) (huns : o.inUserNS = false)
    (hnx : o.excludes.any (fun x => hasPrefix (clean e.name) x) = false)
    (hne : pathComps (join (clean dest) (clean e.name)) ≠ pathComps (clean dest))
    (hcov : ¬ Cov (touched (clean dest) post) (pathComps (join (clean dest) (clean e.name))))
    (hanc : ¬ Anc (touched (clean dest) post) (pathComps (join (clean dest) (clean e.name))))
    (hok : ((untarP dest o (pre ++ e :: post)).run w).1 = .ok) :
    ∃ e' i n, remapE o e = some e' ∧
      ((untarP dest o (pre ++ e :: post)).run w).2.fs.lookup (pathComps (join (clean dest) (clean e.name))) = some i ∧
      ((untarP dest o (pre ++ e :: post)).run w).2.fs.inode i = some n ∧
      n.kind = kindOfTyp e.typ ∧ (e.typ ≠ .fifo → n.rdev = (e.devmajor, e.devminor)) ∧
      n.perm = e.mode &&& 0o7777 ∧ n.mtime = some (boundTime e.mtime) ∧
      (o.noLchown = false → (n.uid, n.gid) = o.chownOpts.getD (e'.uid, e'.gid)) := by
  have hd : CleanAbs (clean dest) := clean_cleanAbs dest habs
  unfold untarP unpackP at hok ⊢
  rw [unpackLoop_run] at hok ⊢
  rw [loopRun_append] at hok ⊢
  have hsymPre : ∀ x ∈ pre, x.typ ≠ .sym := fun x hx => hsym x (by simp [hx])
  have hsymPost : ∀ x ∈ post, x.typ ≠ .sym := fun x hx => hsym x (by simp [hx])
  have hpreF := loopRun_frame _ (clean dest) o hd rfl hov pre [] w hsymPre hw (fun _ h => by cases h)
  cases hpre : loopRun (clean dest) o pre [] w with
  | mk r1 w1 =>
    rw [hpre] at hok hpreF
    cases r1 with
    | error out =>
      exfalso
      simp only at hok
      exact loopRun_error_ne_ok _ _ _ _ _ _ _ hpre hok
    | ok d1 =>
      simp only at hok hpreF ⊢
      have hw1 : LW _ w1 := hpreF.2.1
      have hd1 : DirsOK _ (clean dest) d1 := hpreF.2.2 d1 rfl
      simp only [loopRun] at hok ⊢
      cases hit : (unpackIterP (clean dest) o e d1).run w1 with
      | mk r2 w2 =>
        rw [hit] at hok
        cases r2 with
        | error out =>
          exfalso
          simp only at hok
          have := Prog.All.run _ w1 (iter_error_ne_ok (clean dest) o e d1)
          rw [hit] at this
          exact this out rfl hok
        | ok d2 =>
          simp only at hok ⊢
          obtain ⟨hd2, hw2, e', i, n, hrem, hl2, huniq, hi2, hfin⟩ :=
            iter_node_post _ (clean dest) o hd rfl hov huns e d1 w1 hw1 hnode hnx hne d2 w2 hit
          subst hd2
          have hpostF := loopRun_frame _ (clean dest) o hd rfl hov post d2 w2 hsymPost hw2 hd1
          cases hpo : loopRun (clean dest) o post d2 w2 with
          | mk r3 w3 =>
            rw [hpo] at hok hpostF
            cases r3 with
            | error out =>
              exfalso
              simp only at hok
              exact loopRun_error_ne_ok _ _ _ _ _ _ _ hpo hok
            | ok d3 =>
              simp only at hok hpostF ⊢
              -- the remaining entries leave the file alone
              have hquiet : QuietI (touched (clean dest) post) w2.fs i :=
                ⟨⟨⟨_, hl2⟩, fun p hp => by rw [huniq p hp]; exact hcov⟩, fun p hp => by rw [huniq p hp]; exact hanc⟩
              have hi3 : w3.fs.inode i = some n := by rw [hpostF.1.inode_quiet i hquiet]; exact hi2
              have hl3 : w3.fs.lookup _ = some i := hpostF.1.names_keep _ i hl2 hcov
              -- and so does the deferred directory-time pass
              have hd3 : DirsOK _ (clean dest) d3.reverse := fun x hx => hpostF.2.2 d3 rfl x (by simpa using hx)
              have hdt := dirTimes_nondir _ (clean dest) d3.reverse w3 hpostF.2.1 hd3
              have hty : e'.typ = e.typ := remapE_typ o e e' hrem
              have hk : n.kind ≠ .dir := by
                rw [hfin.1, hty]
                rcases hnode with h | h | h <;> rw [h] <;> intro h' <;> cases h'
              have hfld : e'.mode = e.mode ∧ e'.mtime = e.mtime ∧ e'.devmajor = e.devmajor ∧ e'.devminor = e.devminor := by
                unfold remapE at hrem
                cases hh : toHostPair o e.uid e.gid with
                | none => rw [hh] at hrem; cases hrem
                | some pr => rw [hh] at hrem; simp at hrem; rw [← hrem]; exact ⟨rfl, rfl, rfl, rfl⟩
              refine ⟨e', i, n, hrem, ?_, hdt.2 i n hi3 hk, ?_, ?_, ?_, ?_, hfin.2.2.2.2⟩
              · rw [KeepsNames.run _ _ (keeps_dirTimes (clean dest) d3.reverse)]; exact hl3
              · rw [hfin.1, hty]
              · intro hne'
                rw [hfin.2.1 (by rw [hty]; exact hne'), hfld.2.2.1, hfld.2.2.2]
              · rw [hfin.2.2.1, hfld.1]
              · rw [hfin.2.2.2.1, hfld.2.1]

end GA.C05
