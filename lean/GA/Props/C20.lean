import GA.M.Unpack
import GA.Proofs.RAll
/-
  C20 — extraction never reports success for an archive it did not fully write.
  Decided here, for the plain and the jailed extractor alike (they run the same `unpackP`): along
  every execution, for every outcome of every system call, once a MUTATING call has been refused
  with an error that is not one of the documented tolerances, the result is not success.  Since
  the fault oracle of `runF` refuses calls exactly by handing back an error, this covers "no inode
  for the k-th object, no space for the k-th block, for every k" and every other refusal.
  Partial: close(2) is modelled as infallible; faults other than ENOSPC exist only in the model
  (the `faults` stream enumerates tmpfs inode/block limits and failing readers on the real code).
-/
namespace GA.C20
open GA

/-- calls that change the filesystem -/
def isMut : Sys → Bool
  | .mkdir _ _ | .mkdirAll _ _ | .createWrite _ _ _ | .link _ _ | .symlink _ _ | .mknod _ _ _ _
  | .chown _ _ _ _ | .chmod _ _ | .setxattr _ _ _ _ | .utimes _ _ _ | .removeAll _ | .mkdtemp _ _ => true
  | _ => false

/-- the documented tolerances: attribute-setting refused with EPERM (ENOTSUP only with
    BestEffortXattrs); fifo creation refused with EPERM inside a user namespace -/
def tolerated (o : Opts) : Sys → Errno → Bool
  | .setxattr _ _ _ _, .EPERM => true
  | .setxattr _ _ _ _, .ENOTSUP => o.bestEffortXattrs
  | .mknod _ .fifo _ _, .EPERM => o.inUserNS
  | _, _ => false

/-- `Strict o fail p`: on every path through `p`, once a mutating call returned a non-tolerated
    error (or never returned), every leaf still reachable satisfies `fail` -/
def Strict {α : Type} (o : Opts) (fail : α → Prop) : Prog α → Prop
  | .ret _ => True
  | .call s k => ∀ r, Strict o fail (k r) ∧
      (isMut s = true → (match r with
        | .err e => tolerated o s e = false
        | .blocked => True
        | _ => False) → (k r).All fail)

theorem Strict.bind {α β : Type} (o : Opts) {failA : α → Prop} {failB : β → Prop} :
    ∀ (m : Prog α) (f : α → Prog β), Strict o failA m → (∀ a, failA a → (f a).All failB) →
      (∀ a, Strict o failB (f a)) → Strict o failB (m.bind f)
  | .ret a, f, _, _, hf => hf a
  | .call s k, f, hm, hfail, hf => fun r =>
    ⟨Strict.bind o (k r) f (hm r).1 hfail hf,
     fun hmut hr => Prog.All.bind (k r) f ((hm r).2 hmut hr) hfail⟩

theorem Strict.mono {α : Type} (o : Opts) {f g : α → Prop} (hfg : ∀ a, f a → g a) :
    ∀ (p : Prog α), Strict o f p → Strict o g p
  | .ret _, _ => True.intro
  | .call s k, h => fun r => ⟨Strict.mono o hfg (k r) (h r).1, fun hm hr => Prog.All.mono hfg _ ((h r).2 hm hr)⟩

/-- a single mutating call whose result is handed on: an error result is a "failed" result -/
theorem strict_sys (o : Opts) (s : Sys) :
    Strict o (fun r => isErr r = true) (sys s) := by
  intro r
  refine ⟨True.intro, fun _ hr => ?_⟩
  cases r <;> simp_all [Prog.All, isErr]

/-- an informational call (lstat, stat, readlink, …) never obliges anything -/
theorem strict_info (o : Opts) (s : Sys) (h : isMut s = false) (fail : Res → Prop) :
    Strict o fail (sys s) := by
  intro r
  exact ⟨True.intro, fun hm => by rw [h] at hm; cases hm⟩

theorem bindS {α β : Type} (o : Opts) {failA : α → Prop} {failB : β → Prop} (m : Prog α) (f : α → Prog β)
    (hm : Strict o failA m) (hfail : ∀ a, failA a → (f a).All failB) (hf : ∀ a, Strict o failB (f a)) :
    Strict o failB (m >>= f) := Strict.bind o m f hm hfail hf

theorem strict_pure {α : Type} (o : Opts) (fail : α → Prop) (a : α) : Strict o fail (pure a : Prog α) := True.intro

theorem All_pure {α : Type} {Q : α → Prop} (a : α) (h : Q a) : (pure a : Prog α).All Q := h

/-- `setPermissions`: a refused chmod or chown is reported -/
theorem strict_setPermissions (o : Opts) (p : Str) (mode : Nat) (owner : Option (Nat × Nat)) :
    Strict o (fun r => isErr r = true) (setPermissionsP p mode owner) := by
  unfold setPermissionsP
  refine bindS o _ _ (strict_info o _ rfl (fun _ => False)) (fun _ h => h.elim) ?_
  intro r
  split
  · refine bindS o (failA := fun r => isErr r = true) _ _ ?_ ?_ ?_
    · split
      · exact strict_sys o _
      · exact strict_pure o _ _
    · intro c hc; simp only [hc, if_true]; exact All_pure _ hc
    · intro c
      split
      · exact strict_pure o _ _
      · split
        · exact strict_pure o _ _
        · split
          · exact strict_pure o _ _
          · exact strict_sys o _
  · exact strict_pure o _ _

theorem strict_setAll (o : Opts) (mode : Nat) (owner : Option (Nat × Nat)) : ∀ (ps : List Str),
    Strict o (fun r => isErr r = true) (setAll mode owner ps)
  | [] => strict_pure o _ _
  | p :: ps => by
    simp only [setAll]
    refine bindS o _ _ (strict_setPermissions o p mode owner) ?_ ?_
    · intro r hr; simp only [hr, if_true]; exact All_pure _ hr
    · intro r
      split
      · exact strict_pure o _ _
      · exact strict_setAll o mode owner ps

theorem strict_missingOf (o : Opts) (fail : List Str → Prop) : ∀ (ds : List Str), Strict o fail (missingOf ds)
  | [] => strict_pure o _ _
  | d :: ds => by
    simp only [missingOf]
    refine bindS o _ _ (strict_info o _ rfl (fun _ => False)) (fun _ h => h.elim) ?_
    intro r
    refine bindS o (failA := fun _ => False) _ _ (strict_missingOf o _ ds) (fun _ h => h.elim) ?_
    intro rest
    exact strict_pure o _ _

theorem strict_mkdirAllAndChown (o : Opts) (path : Str) (mode : Nat) (owner : Option (Nat × Nat)) :
    Strict o (fun r => isErr r = true) (mkdirAllAndChownP path mode owner) := by
  unfold mkdirAllAndChownP
  refine bindS o _ _ (strict_info o _ rfl (fun _ => False)) (fun _ h => h.elim) ?_
  intro r
  split
  · split <;> exact strict_pure o _ _
  · refine bindS o (failA := fun _ => False) _ _ (strict_missingOf o _ _) (fun _ h => h.elim) ?_
    intro missing
    refine bindS o _ _ (strict_sys o _) ?_ ?_
    · intro m hm; simp only [hm, if_true]; exact All_pure _ hm
    · intro m
      split
      · exact strict_pure o _ _
      · exact strict_setAll o _ _ _

theorem strict_impliedDirs (o : Opts) (dest n : Str) : Strict o (fun r => isErr r = true) (impliedDirsP dest n o) := by
  unfold impliedDirsP
  split
  · exact strict_pure o _ _
  · refine bindS o _ _ (strict_info o _ rfl (fun _ => False)) (fun _ h => h.elim) ?_
    intro r
    split
    · exact strict_mkdirAllAndChown o _ _ _
    · exact strict_pure o _ _

/-- the result of a mutating call, classified: "refused for a reason that is not tolerated" -/
def Refused (o : Opts) (s : Sys) (r : Res) : Prop :=
  match r with
  | .err e => tolerated o s e = false
  | .blocked => True
  | _ => False

theorem strict_sys_refused (o : Opts) (s : Sys) : Strict o (Refused o s) (sys s) := by
  intro r
  exact ⟨True.intro, fun _ hr => hr⟩

/-- xattrs: EPERM (and ENOTSUP with BestEffortXattrs) is tolerated, anything else is reported -/
theorem strict_setXattrs (o : Opts) (path : Str) : ∀ (xs : List (Str × List UInt8)),
    Strict o (fun r => isErr r = true) (setXattrsP path o.bestEffortXattrs xs)
  | [] => strict_pure o _ _
  | (k, v) :: rest => by
    simp only [setXattrsP]
    refine bindS o _ _ (strict_sys_refused o (.setxattr path k v false)) ?_ ?_
    · intro r hr
      have : (isErr r && !xattrTolerated o.bestEffortXattrs r) = true := by
        cases r with
        | err e => cases e <;> simp_all [Refused, tolerated, isErr, xattrTolerated]
        | blocked => simp [isErr, xattrTolerated]
        | _ => exact hr.elim
      simp only [this, if_true]
      have he : isErr r = true := by simp at this; exact this.1
      exact All_pure _ he
    · intro r
      split
      · exact strict_pure o _ _
      · exact strict_setXattrs o path rest


theorem strict_ret {α : Type} (o : Opts) (fail : α → Prop) (a : α) : Strict o fail (Prog.ret a) := True.intro

/-- a Res-valued sub-program followed by `if isErr r then return .err` -/
theorem bindErr (o : Opts) (m : Prog Res) (f : Res → Prog Out) (hm : Strict o (fun r => isErr r = true) m)
    (hfail : ∀ r, isErr r = true → (f r).All (· ≠ .ok)) (hf : ∀ r, Strict o (· ≠ .ok) (f r)) :
    Strict o (· ≠ .ok) (m >>= f) := bindS o m f hm hfail hf

theorem ne_ok_err : Out.err ≠ Out.ok := by decide

/-- owner, xattrs, mode, times: every refusal other than the tolerated xattr errors is fatal -/
theorem strict_applyMeta (o : Opts) (path : Str) (e : Entry) : Strict o (· ≠ .ok) (applyMetaP path e o) := by
  unfold applyMetaP
  refine bindErr o _ _ ?_ ?_ ?_
  · split
    · exact strict_pure o _ _
    · exact strict_sys o _
  · intro c hc; simp only [hc, if_true]; exact All_pure _ ne_ok_err
  · intro c
    split
    · exact strict_pure o _ _
    · refine bindErr o _ _ (strict_setXattrs o path e.xattrs) ?_ ?_
      · intro x hx; simp only [hx, if_true]; exact All_pure _ ne_ok_err
      · intro x
        split
        · exact strict_pure o _ _
        · refine bindErr o _ _ ?_ ?_ ?_
          · split
            · refine bindS o _ _ (strict_info o _ rfl (fun _ => False)) (fun _ h => h.elim) ?_
              intro l
              split
              · exact strict_sys o _
              · exact strict_pure o _ _
            · split
              · exact strict_sys o _
              · exact strict_pure o _ _
          · intro m hm; simp only [hm, if_true]; exact All_pure _ ne_ok_err
          · intro m
            split
            · exact strict_pure o _ _
            · refine bindErr o _ _ ?_ ?_ ?_
              · split
                · refine bindS o _ _ (strict_info o _ rfl (fun _ => False)) (fun _ h => h.elim) ?_
                  intro l
                  split
                  · exact strict_sys o _
                  · exact strict_pure o _ _
                · split
                  · exact strict_sys o _
                  · exact strict_sys o _
              · intro u hu; simp only [hu, if_true]; exact All_pure _ ne_ok_err
              · intro u
                split <;> exact strict_pure o _ _

/-- `createTarFile`: a refused creation is fatal (device nodes are skipped, and fifo creation EPERM
    is tolerated, only inside a user namespace) -/
theorem strict_createTarFile (o : Opts) (path xd : Str) (e : Entry) : Strict o (· ≠ .ok) (createTarFileP path xd e o) := by
  unfold createTarFileP
  split
  · -- dir
    refine bindS o _ _ (strict_info o _ rfl (fun _ => False)) (fun _ h => h.elim) ?_
    intro l
    split
    · exact strict_applyMeta o path e
    · refine bindErr o _ _ (strict_sys o _) ?_ ?_
      · intro r hr; simp only [hr, if_true]; exact All_pure _ ne_ok_err
      · intro r
        split
        · exact strict_pure o _ _
        · exact strict_applyMeta o path e
  · -- reg
    refine bindErr o _ _ (strict_sys o _) ?_ ?_
    · intro r hr; simp only [hr, if_true]; exact All_pure _ ne_ok_err
    · intro r
      split
      · exact strict_pure o _ _
      · split
        · exact strict_pure o _ _
        · exact strict_applyMeta o path e
  · -- blk
    split
    · exact strict_pure o _ _
    · refine bindErr o _ _ (strict_sys o _) ?_ ?_
      · intro r hr; simp only [hr, if_true]; exact All_pure _ ne_ok_err
      · intro r
        split
        · exact strict_pure o _ _
        · exact strict_applyMeta o path e
  · -- chr
    split
    · exact strict_pure o _ _
    · refine bindErr o _ _ (strict_sys o _) ?_ ?_
      · intro r hr; simp only [hr, if_true]; exact All_pure _ ne_ok_err
      · intro r
        split
        · exact strict_pure o _ _
        · exact strict_applyMeta o path e
  · -- fifo
    refine bindS o _ _ (strict_sys_refused o (.mknod path .fifo e.mode (0, 0))) ?_ ?_
    · intro r hr
      have hre : isErr r = true := by
        cases r <;> simp_all [Refused, isErr]
      have hnt : (isEPERM r && o.inUserNS) = false := by
        cases r with
        | err er => cases er <;> simp_all [Refused, tolerated, isEPERM]
        | _ => simp [isEPERM]
      simp only [hre, hnt, if_true, Bool.false_eq_true, if_false]
      exact All_pure _ ne_ok_err
    · intro r
      split
      · split <;> exact strict_pure o _ _
      · exact strict_applyMeta o path e
  · -- link
    simp only
    split
    · exact strict_pure o _ _
    · refine bindErr o _ _ (strict_sys o _) ?_ ?_
      · intro r hr; simp only [hr, if_true]; exact All_pure _ ne_ok_err
      · intro r
        split
        · exact strict_pure o _ _
        · exact strict_applyMeta o path e
  · -- sym
    simp only
    split
    · exact strict_pure o _ _
    · refine bindErr o _ _ (strict_sys o _) ?_ ?_
      · intro r hr; simp only [hr, if_true]; exact All_pure _ ne_ok_err
      · intro r
        split
        · exact strict_pure o _ _
        · exact strict_applyMeta o path e
  · exact strict_pure o _ _
  · exact strict_pure o _ _

theorem strict_dirTimes (o : Opts) (dest : Str) : ∀ (es : List Entry), Strict o (· ≠ .ok) (dirTimesP dest es)
  | [] => strict_pure o _ _
  | e :: es => by
    simp only [dirTimesP]
    refine bindS o _ _ (strict_info o _ rfl (fun _ => False)) (fun _ h => h.elim) ?_
    intro l
    split
    · exact strict_dirTimes o dest es
    · refine bindErr o _ _ (strict_sys o _) ?_ ?_
      · intro r hr; simp only [hr, if_true]; exact All_pure _ ne_ok_err
      · intro r
        split
        · exact strict_pure o _ _
        · exact strict_dirTimes o dest es


/-- overlay conversion on extraction: a refused setxattr / mknod / chown is reported -/
theorem strict_convertRead (o : Opts) (p : Str) (e : Entry) : Strict o (fun r => r = none) (convertReadP p e) := by
  unfold convertReadP
  simp only
  split
  · intro r
    refine ⟨by simp only; split <;> exact True.intro, fun _ hr => ?_⟩
    have : isErr r = true := by cases r <;> simp_all [isErr]
    simp only [this, if_true]; rfl
  · split
    · intro r
      refine ⟨?_, fun _ hr => ?_⟩
      · simp only
        split
        · exact True.intro
        · intro c
          refine ⟨by simp only; split <;> exact True.intro, fun _ hc => ?_⟩
          have : isErr c = true := by cases c <;> simp_all [isErr]
          simp only [this, if_true]; rfl
      · have : isErr r = true := by cases r <;> simp_all [isErr]
        simp only [this, if_true]; rfl
    · exact True.intro

set_option maxHeartbeats 1000000 in
/-- **the whole extraction loop is strict**: a refused mutating call, at any entry, at any step,
    makes the result an error -/
theorem strict_unpackLoop (o : Opts) (dest : Str) : ∀ (es dirs : List Entry), Strict o (· ≠ .ok) (unpackLoop dest o es dirs) := by
  intro es
  induction es with
  | nil => intro dirs; simp only [unpackLoop]; exact strict_dirTimes o dest _
  | cons e es ih =>
    intro dirs
    simp only [unpackLoop]
    split
    · exact ih dirs
    · split
      · exact ih dirs
      · split
        · exact strict_pure o _ _
        · refine bindErr o _ _ (strict_impliedDirs o dest _) ?_ ?_
          · intro i hi; simp only [hi, if_true]; exact All_pure _ ne_ok_err
          · intro i
            split
            · exact strict_pure o _ _
            · refine bindS o _ _ (strict_info o _ rfl (fun _ => False)) (fun _ h => h.elim) ?_
              intro l
              generalize actOf o l e (_ == clean dest) = act
              split
              · exact strict_pure o _ _
              · split
                · exact ih dirs
                · refine bindErr o _ _ ?_ ?_ ?_
                  · split
                    · exact strict_sys o _
                    · exact strict_pure o _ _
                  · intro rm hrm; simp only [hrm, if_true]; exact All_pure _ ne_ok_err
                  · intro rm
                    split
                    · exact strict_pure o _ _
                    · split
                      · exact strict_pure o _ _
                      · refine bindS o (failA := fun (r : Option Bool) => r = none) _ _ ?_ ?_ ?_
                        · split
                          · exact strict_convertRead o _ _
                          · exact strict_pure o _ _
                        · intro conv hconv; subst hconv; exact All_pure _ ne_ok_err
                        · intro conv
                          split
                          · exact strict_pure o _ _
                          · exact ih dirs
                          · refine bindS o (failA := fun out => out ≠ .ok) _ _ (strict_createTarFile o _ _ _) ?_ ?_
                            · intro out hout
                              have : (out != Out.ok) = true := by simpa using hout
                              simp only [this, if_true]
                              exact All_pure _ hout
                            · intro out
                              split
                              · exact strict_pure o _ _
                              · exact ih _

/-! ### from "every outcome" to the fault oracle -/

/-- run with a fault oracle and record whether a mutating call was refused with a non-tolerated error -/
def runW {α : Type} (o : Opts) (faults : Nat → Option Errno) : Nat → Prog α → World → α × Bool
  | _, .ret a, _ => (a, false)
  | i, .call s k, w =>
    match faults i with
    | some e =>
      let r := runW o faults (i + 1) (k (.err e)) w
      (r.1, r.2 || (isMut s && !tolerated o s e))
    | none =>
      let r := runW o faults (i + 1) (k (step w s).1) (step w s).2
      (r.1, r.2 || (isMut s && (match (step w s).1 with
        | .err e => !tolerated o s e
        | .blocked => true
        | _ => false)))

theorem all_runW {α : Type} (o : Opts) (faults : Nat → Option Errno) {P : α → Prop} :
    ∀ (p : Prog α) (i : Nat) (w : World), p.All P → P (runW o faults i p w).1
  | .ret _, _, _, h => h
  | .call s k, i, w, h => by
    simp only [runW]
    split
    · exact all_runW o faults (k _) _ _ (h _)
    · exact all_runW o faults (k _) _ _ (h _)

theorem strict_runW {α : Type} (o : Opts) (faults : Nat → Option Errno) {fail : α → Prop} :
    ∀ (p : Prog α) (i : Nat) (w : World), Strict o fail p → (runW o faults i p w).2 = true → fail (runW o faults i p w).1
  | .ret _, _, _, _, h => by simp [runW] at h
  | .call s k, i, w, hs, h => by
    simp only [runW] at h ⊢
    split at h
    · rename_i e _
      simp only at h ⊢
      simp only [Bool.or_eq_true, Bool.and_eq_true, Bool.not_eq_true'] at h
      rcases h with h | ⟨hm, ht⟩
      · exact strict_runW o faults (k _) _ _ (hs _).1 h
      · exact all_runW o faults (k _) _ _ ((hs (.err e)).2 hm ht)
    · simp only at h ⊢
      simp only [Bool.or_eq_true, Bool.and_eq_true] at h
      rcases h with h | ⟨hm, ht⟩
      · exact strict_runW o faults (k _) _ _ (hs _).1 h
      · refine all_runW o faults (k _) _ _ ((hs _).2 hm ?_)
        cases hr : (step w s).1 <;> simp_all

/-- **success ⇒ no untolerated refusal**: if extraction (plain `Untar`, or the body of the chrooted
    one) returns success under ANY fault schedule, then no mutating system call was refused — neither
    by the injected faults (no inode for the k-th object, no space for the k-th block, for every k)
    nor by the filesystem itself — other than the documented tolerances -/
theorem ok_implies_no_untolerated_fault (o : Opts) (dest : Str) (es : List Entry) (w : World)
    (faults : Nat → Option Errno) (h : (runW o faults 0 (unpackP dest o es) w).1 = .ok) :
    (runW o faults 0 (unpackP dest o es) w).2 = false := by
  cases hb : (runW o faults 0 (unpackP dest o es) w).2 with
  | false => rfl
  | true =>
    have := strict_runW o faults (unpackP dest o es) 0 w (strict_unpackLoop o dest es []) hb
    exact absurd h this

/-- non-vacuity: a refused `mkdir` for the only entry makes extraction fail -/
example :
    let e : Entry := { typ := .dir, name := b!"d", mode := 0o755 }
    let w : World := { fs := FS.empty.create [b!"x"] { kind := .dir, perm := 0o755, uid := 0, gid := 0, mtime := some 0 } }
    (runW {} (fun i => if i = 3 then some .ENOSPC else none) 0 (unpackP b!"/x" {} [e]) w) = (.err, true) ∧
    (runW {} (fun _ => none) 0 (unpackP b!"/x" {} [e]) w) = (.ok, false) := by decide

end GA.C20
