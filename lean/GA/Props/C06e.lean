import GA.Proofs.LayerReg
import GA.Proofs.LayerNode
import GA.Proofs.UnpackDir
import GA.Props.C06d
/-
  C06, "all other entries behave as in plain extraction", for whole layers and regular files: **the last entry
  wins**.  For every layer `pre ++ e :: post` without symbolic-link entries, every option set and every prior
  symlink-free world: if `ApplyLayer` reports success, `e` is a regular-file entry whose name is neither
  reserved, a whiteout nor the destination itself, and nothing after `e` in the layer names the same path, a
  path above or beneath it, a whiteout for it, or a hard link to it (and the path is not at, beneath or above the
  staging directory), then afterwards the path names a regular file with exactly `e`'s content, all twelve
  mode bits, the clamped modification time and — unless `NoLchown` — the translated or overriding owner.
  Whatever `pre` did there — created it, whited it out, put a directory there — does not matter.
-/
namespace GA.C06
open GA

theorem cov_mono {T1 T2 : List Path} (h : ∀ t ∈ T1, t ∈ T2) {p : Path} (hc : Cov T1 p) : Cov T2 p := by
  obtain ⟨t, ht, hp⟩ := hc; exact ⟨t, h t ht, hp⟩

theorem anc_mono {T1 T2 : List Path} (h : ∀ t ∈ T1, t ∈ T2) {p : Path} (hc : Anc T1 p) : Anc T2 p := by
  obtain ⟨t, ht, hp⟩ := hc; exact ⟨t, h t ht, hp⟩

/-- the skeleton shared by the non-directory cases: what the iteration of `e` leaves at its path — a fresh object
    with that one name, not a directory, satisfying `R` — is what `ApplyLayer` leaves there, when nothing after
    `e` names the path, a path above or beneath it, a whiteout for it or a hard link to it -/
theorem layer_entry_kept (R : Inode → Prop) (dest : Str) (o : Opts) (pre post : List Entry) (e : Entry) (um : Nat) (w : World)
    (habs : isAbs dest = true)
    (hsym : ∀ x ∈ pre ++ e :: post, x.typ ≠ .sym)
    (hw : LW (pathComps (clean dest)) w)
    (hcov : ¬ Cov (touchedL (clean dest) post) (pathComps (join (clean dest) (clean e.name))))
    (hanc : ¬ Anc (touchedL (clean dest) post) (pathComps (join (clean dest) (clean e.name))))
    (hpost : ∀ s1 w1 s2 w2, LW (pathComps (clean dest)) w1 → (layerIterP (clean dest) o e s1).run w1 = (.ok s2, w2) →
      LW (pathComps (clean dest)) w2 ∧ ∃ i n, w2.fs.lookup (pathComps (join (clean dest) (clean e.name))) = some i ∧
        (∀ q, w2.fs.lookup q = some i → q = pathComps (join (clean dest) (clean e.name))) ∧
        w2.fs.inode i = some n ∧ n.kind ≠ .dir ∧ R n)
    (hok : ((applyLayerP dest o (pre ++ e :: post) um).run w).1.1 = .ok) :
    ∃ i n,
      ((applyLayerP dest o (pre ++ e :: post) um).run w).2.fs.lookup (pathComps (join (clean dest) (clean e.name))) = some i ∧
      ((applyLayerP dest o (pre ++ e :: post) um).run w).2.fs.inode i = some n ∧ R n := by
  have hd : CleanAbs (clean dest) := clean_cleanAbs dest habs
  obtain ⟨hr1, hr2⟩ := applyLayer_run dest o (pre ++ e :: post) um w
  rw [hr1] at hok
  rw [hr2]
  have hw0 : LW (pathComps (clean dest)) (step w (.setUmask 0)).2 :=
    (step_good _ w (.setUmask 0) hw (good_lex (s := .setUmask 0) trivial)).2
  generalize (step w (.setUmask 0)).2 = w0 at hok hw0 ⊢
  unfold unpackLayerP at hok ⊢
  rw [layerLoop_run] at hok ⊢
  rw [layerRun_append] at hok ⊢
  have hsymPre : ∀ x ∈ pre, x.typ ≠ .sym := fun x hx => hsym x (by simp [hx])
  have hsymPost : ∀ x ∈ post, x.typ ≠ .sym := fun x hx => hsym x (by simp [hx])
  have hL0 : LStOK (pathComps (clean dest)) (clean dest) {} := ⟨by simp, Or.inl rfl, by simp⟩
  have hF0 : FSt0 (clean dest) {} := ⟨Or.inl rfl, by simp⟩
  have hpreF := layerRun_frame _ (clean dest) o hd rfl pre {} w0 hsymPre hw0 hL0 hF0
  cases hpre : layerRun (clean dest) o pre {} w0 with
  | mk r1 w1 =>
    rw [hpre] at hok hpreF
    cases r1 with
    | error x =>
      exfalso
      obtain ⟨out, st'⟩ := x
      simp only at hok
      rw [layerFinish_out] at hok
      exact layerRun_error_ne_ok _ _ _ _ _ _ _ _ hpre hok
    | ok s1 =>
      simp only [resSt] at hok hpreF ⊢
      have hw1 : LW _ w1 := hpreF.2.1
      simp only [layerRun] at hok ⊢
      have hlI := lex_iterL _ (clean dest) o hd rfl e s1 (hsym e (by simp)) hpreF.2.2.1
      have hfI := fr_iterL (pathComps (clean dest)) (touchedI (clean dest) e) w1.fs (clean dest) o hd e s1
        (hsym e (by simp)) (by simp [touchedI]) (fun x hx => by simp [touchedI, hx]) hpreF.2.2.2
      have h1 := FrSem.run _ (touchedI (clean dest) e) w1.fs hw1.inv.fresh _ _ _ w1 hlI hfI hw1 (Framed.refl _ _)
      have h2 := LexSem.run _ _ _ w1 hlI hw1
      cases hit : (layerIterP (clean dest) o e s1).run w1 with
      | mk r2 w2 =>
        rw [hit] at hok h1 h2
        cases r2 with
        | error x =>
          exfalso
          obtain ⟨out, st'⟩ := x
          simp only at hok
          rw [layerFinish_out] at hok
          have := Prog.All.run _ w1 (layerIter_error_ne_ok (clean dest) o e s1)
          rw [hit] at this
          exact this out st' rfl hok
        | ok s2 =>
          simp only [resSt] at hok h1 h2 ⊢
          obtain ⟨hw2, i, n, hl2, huniq, hi2, hk, hR⟩ := hpost s1 w1 s2 w2 hw1 hit
          have hpostF := layerRun_frame _ (clean dest) o hd rfl post s2 w2 hsymPost hw2 h2.2.2 h1.2
          have hsub : ∀ t ∈ touchedIs (clean dest) post, t ∈ touchedL (clean dest) post := touchedIs_sub _ _
          have hcovI : ¬ Cov (touchedIs (clean dest) post) (pathComps (join (clean dest) (clean e.name))) :=
            fun h => hcov (cov_mono hsub h)
          have hancI : ¬ Anc (touchedIs (clean dest) post) (pathComps (join (clean dest) (clean e.name))) :=
            fun h => hanc (anc_mono hsub h)
          have htmpsub : ∀ t ∈ [pathComps (join (clean dest) tmpName)], t ∈ touchedL (clean dest) post := by
            intro t ht; simp only [List.mem_singleton] at ht; subst ht; simp [touchedL]
          cases hpo : layerRun (clean dest) o post s2 w2 with
          | mk r3 w3 =>
            rw [hpo] at hok hpostF
            cases r3 with
            | error x =>
              exfalso
              obtain ⟨out, st'⟩ := x
              simp only at hok
              rw [layerFinish_out] at hok
              exact layerRun_error_ne_ok _ _ _ _ _ _ _ _ hpo hok
            | ok s3 =>
              simp only [resSt] at hpostF ⊢
              have hout : OutI (touchedIs (clean dest) post) w2.fs i :=
                ⟨⟨_, hl2⟩, fun p hp => by rw [huniq p hp]; exact hcovI⟩
              have hquiet : QuietI (touchedIs (clean dest) post) w2.fs i :=
                ⟨hout, fun p hp => by rw [huniq p hp]; exact hancI⟩
              have hi3 : w3.fs.inode i = some n := by rw [hpostF.1.inode_quiet i hquiet]; exact hi2
              have hl3 : w3.fs.lookup _ = some i := hpostF.1.names_keep _ i hl2 hcovI
              have huniq3 : ∀ q, w3.fs.lookup q = some i → q = pathComps (join (clean dest) (clean e.name)) :=
                fun q hq => huniq q (hpostF.1.no_capture i hout q hq)
              obtain ⟨hl4, hi4⟩ := layerEnd_quiet _ (clean dest) o hd rfl s3 w3 hpostF.2.1 hpostF.2.2.1 hpostF.2.2.2
                i n _ hl3 hi3 hk huniq3 (fun h => hcov (cov_mono htmpsub h)) (fun h => hanc (anc_mono htmpsub h))
              exact ⟨i, n, hl4, hi4, hR⟩

theorem layer_reg_last_wins (dest : Str) (o : Opts) (pre post : List Entry) (e : Entry) (um : Nat) (w : World)
    (habs : isAbs dest = true)
    (hsym : ∀ x ∈ pre ++ e :: post, x.typ ≠ .sym)
    (hw : LW (pathComps (clean dest)) w)
    (hreg : e.typ = .reg)
    (hmeta : hasPrefix (clean e.name) whMetaPrefix = false)
    (hnwh : hasPrefix (base (join (clean dest) (clean e.name))) whPrefix = false)
    (hne : pathComps (join (clean dest) (clean e.name)) ≠ pathComps (clean dest))
    (hcov : ¬ Cov (touchedL (clean dest) post) (pathComps (join (clean dest) (clean e.name))))
    (hanc : ¬ Anc (touchedL (clean dest) post) (pathComps (join (clean dest) (clean e.name))))
    (hok : ((applyLayerP dest o (pre ++ e :: post) um).run w).1.1 = .ok) :
    ∃ e' i n, remapE o e = some e' ∧
      ((applyLayerP dest o (pre ++ e :: post) um).run w).2.fs.lookup (pathComps (join (clean dest) (clean e.name))) = some i ∧
      ((applyLayerP dest o (pre ++ e :: post) um).run w).2.fs.inode i = some n ∧
      n.kind = .reg ∧ n.data = e.body ∧ n.perm = e.mode &&& 0o7777 ∧ n.mtime = some (boundTime e.mtime) ∧
      (o.noLchown = false → (n.uid, n.gid) = o.chownOpts.getD (e'.uid, e'.gid)) := by
  have hd : CleanAbs (clean dest) := clean_cleanAbs dest habs
  have := layer_entry_kept (fun n => ∃ e', remapE o e = some e' ∧ RegFinal e' o n) dest o pre post e um w habs hsym hw hcov hanc
    (fun s1 w1 s2 w2 hw1 hit => by
      obtain ⟨_, hw2, e', i, n, hrem, hl2, huniq, hi2, hfin⟩ :=
        iterL_reg_post _ (clean dest) o hd rfl e s1 w1 hw1 hreg hmeta hnwh hne s2 w2 hit
      exact ⟨hw2, i, n, hl2, huniq, hi2, (by rw [hfin.1]; intro h; cases h), e', hrem, hfin⟩) hok
  obtain ⟨i, n, hl, hi, e', hrem, hfin⟩ := this
  obtain ⟨_, hmode, hmt, hbody, _⟩ := remapE_fields o e e' hrem
  refine ⟨e', i, n, hrem, hl, hi, hfin.1, ?_, ?_, ?_, hfin.2.2.2.2⟩
  · rw [hfin.2.1, hbody]
  · rw [hfin.2.2.1, hmode]
  · rw [hfin.2.2.2.1, hmt]

/-- the same for device and fifo entries (outside a user namespace) -/
theorem layer_node_last_wins (dest : Str) (o : Opts) (pre post : List Entry) (e : Entry) (um : Nat) (w : World)
    (habs : isAbs dest = true)
    (hsym : ∀ x ∈ pre ++ e :: post, x.typ ≠ .sym)
    (hw : LW (pathComps (clean dest)) w)
    (hnode : e.typ = .chr ∨ e.typ = .blk ∨ e.typ = .fifo) (huns : o.inUserNS = false)
    (hmeta : hasPrefix (clean e.name) whMetaPrefix = false)
    (hnwh : hasPrefix (base (join (clean dest) (clean e.name))) whPrefix = false)
    (hne : pathComps (join (clean dest) (clean e.name)) ≠ pathComps (clean dest))
    (hcov : ¬ Cov (touchedL (clean dest) post) (pathComps (join (clean dest) (clean e.name))))
    (hanc : ¬ Anc (touchedL (clean dest) post) (pathComps (join (clean dest) (clean e.name))))
    (hok : ((applyLayerP dest o (pre ++ e :: post) um).run w).1.1 = .ok) :
    ∃ e' i n, remapE o e = some e' ∧
      ((applyLayerP dest o (pre ++ e :: post) um).run w).2.fs.lookup (pathComps (join (clean dest) (clean e.name))) = some i ∧
      ((applyLayerP dest o (pre ++ e :: post) um).run w).2.fs.inode i = some n ∧
      n.kind = kindOfTyp e.typ ∧ (e.typ ≠ .fifo → n.rdev = (e.devmajor, e.devminor)) ∧
      n.perm = e.mode &&& 0o7777 ∧ n.mtime = some (boundTime e.mtime) ∧
      (o.noLchown = false → (n.uid, n.gid) = o.chownOpts.getD (e'.uid, e'.gid)) := by
  have hd : CleanAbs (clean dest) := clean_cleanAbs dest habs
  have := layer_entry_kept (fun n => ∃ e', remapE o e = some e' ∧ NodeFinal e' o n) dest o pre post e um w habs hsym hw hcov hanc
    (fun s1 w1 s2 w2 hw1 hit => by
      obtain ⟨_, hw2, e', i, n, hrem, hl2, huniq, hi2, hfin⟩ :=
        iterL_node_post _ (clean dest) o hd rfl huns e s1 w1 hw1 hnode hmeta hnwh hne s2 w2 hit
      have hty : e'.typ = e.typ := remapE_typ o e e' hrem
      refine ⟨hw2, i, n, hl2, huniq, hi2, ?_, e', hrem, hfin⟩
      rw [hfin.1, hty]
      rcases hnode with h | h | h <;> rw [h] <;> intro h' <;> cases h') hok
  obtain ⟨i, n, hl, hi, e', hrem, hfin⟩ := this
  have hty : e'.typ = e.typ := remapE_typ o e e' hrem
  have hfld : e'.mode = e.mode ∧ e'.mtime = e.mtime ∧ e'.devmajor = e.devmajor ∧ e'.devminor = e.devminor := by
    unfold remapE at hrem
    cases hh : toHostPair o e.uid e.gid with
    | none => rw [hh] at hrem; cases hrem
    | some pr => rw [hh] at hrem; simp at hrem; rw [← hrem]; exact ⟨rfl, rfl, rfl, rfl⟩
  refine ⟨e', i, n, hrem, hl, hi, ?_, ?_, ?_, ?_, hfin.2.2.2.2⟩
  · rw [hfin.1, hty]
  · intro hne'
    rw [hfin.2.1 (by rw [hty]; exact hne'), hfld.2.2.1, hfld.2.2.2]
  · rw [hfin.2.2.1, hfld.1]
  · rw [hfin.2.2.2.1, hfld.2.1]

/-! ### non-vacuity: whiteout for `keep`, then a new regular file `keep` in the same layer -/

def exReadd : Entry := { name := b!"keep", typ := .reg, mode := 0o4711, mtime := 3000, body := b!"new", size := 3 }

theorem exReadd_ok : ((applyLayerP b!"/w/dest" {} ([exWh] ++ exReadd :: []) 0o022).run { fs := C05.exFS2 }).1.1 = .ok := by
  decide

/-- whiteout + re-add in this order: the path holds the new file, with all twelve mode bits -/
example : ∃ i n, ((applyLayerP b!"/w/dest" {} ([exWh] ++ exReadd :: []) 0o022).run { fs := C05.exFS2 }).2.fs.lookup
      [b!"w", b!"dest", b!"keep"] = some i ∧
    ((applyLayerP b!"/w/dest" {} ([exWh] ++ exReadd :: []) 0o022).run { fs := C05.exFS2 }).2.fs.inode i = some n ∧
    n.kind = .reg ∧ n.data = b!"new" ∧ n.perm = 0o4711 ∧ n.mtime = some 3000 := by
  have hP : pathComps (join (clean b!"/w/dest") (clean exReadd.name)) = [b!"w", b!"dest", b!"keep"] := by decide
  have hT : touchedL (clean b!"/w/dest") [] = [[b!"w", b!"dest", tmpName]] := by decide
  obtain ⟨e', i, n, _, hl, hi, hk, hdt, hpm, hmt, _⟩ := layer_reg_last_wins b!"/w/dest" {} [exWh] [] exReadd 0o022
    { fs := C05.exFS2 } (by decide)
    (by intro x hx; simp [exWh, exReadd] at hx; rcases hx with rfl | rfl <;> simp)
    C05.exFS2_LW rfl (by decide) (by decide) (by rw [hP]; decide)
    (by rw [hP, hT]; rintro ⟨t, ht, hp⟩; simp only [List.mem_singleton] at ht; subst ht; exact absurd hp (by decide))
    (by rw [hP, hT]; rintro ⟨t, ht, hp⟩; simp only [List.mem_singleton] at ht; subst ht; exact absurd hp (by decide))
    exReadd_ok
  rw [hP] at hl
  exact ⟨i, n, hl, hi, hk, hdt, by rw [hpm]; decide, by rw [hmt]; decide⟩

end GA.C06
