import GA.Props.C05d
import GA.Props.C05e
import GA.Props.C05f
import GA.Props.C05g
/-
  C05 / C20, the statement for a whole archive at once: **after a successful `Untar`, every entry that has the
  last word on its path is fully present** — for every archive without symbolic-link entries, every option set
  of the default whiteout format (outside a user namespace), every prior symlink-free world, and *every* entry of
  the archive of type regular file, directory, character or block device or fifo that is not excluded and does
  not name the destination itself: if no later entry names the same path or a path above it and — unless the
  entry is a directory — no later entry names a path beneath it or links to it, then the path holds an object of
  the entry's type with the entry's content (device numbers), all twelve mode bits, the clamped modification
  time and the translated or overriding owner.  One statement, quantified over the position of the entry in the
  archive; it packages `untar_reg_last_wins`, `untar_dir_last_wins` and `untar_node_last_wins`.
-/
namespace GA.C05
open GA

/-- the path an entry names -/
def pathOf (dest : Str) (e : Entry) : Path := pathComps (join (clean dest) (clean e.name))

/-- `e` has the last word on its path: nothing after it names the path or a path above it, and — unless `e` is
    a directory — nothing after it names a path beneath it or is a hard link to it -/
def Final (dest : Str) (e : Entry) (post : List Entry) : Prop :=
  ¬ Cov (touched (clean dest) post) (pathOf dest e) ∧
  (e.typ ≠ .dir → ¬ Anc (touched (clean dest) post) (pathOf dest e))

/-- the path holds the entry -/
def Holds (o : Opts) (e : Entry) (fs : FS) (P : Path) : Prop :=
  ∃ e' i n, remapE o e = some e' ∧ fs.lookup P = some i ∧ fs.inode i = some n ∧
    n.perm = e.mode &&& 0o7777 ∧ n.mtime = some (boundTime e.mtime) ∧
    (o.noLchown = false → (n.uid, n.gid) = o.chownOpts.getD (e'.uid, e'.gid)) ∧
    (match e.typ with
     | .reg => n.kind = .reg ∧ n.data = e.body
     | .dir => n.kind = .dir
     | .chr => n.kind = .chr ∧ n.rdev = (e.devmajor, e.devminor)
     | .blk => n.kind = .blk ∧ n.rdev = (e.devmajor, e.devminor)
     | .fifo => n.kind = .fifo
     | _ => True)

theorem untar_success_all_present (dest : Str) (o : Opts) (es : List Entry) (w : World)
    (habs : isAbs dest = true) (hov : o.overlay = false) (huns : o.inUserNS = false)
    (hsym : ∀ x ∈ es, x.typ ≠ .sym)
    (hw : LW (pathComps (clean dest)) w)
    (hok : ((untarP dest o es).run w).1 = .ok) :
    ∀ (pre post : List Entry) (e : Entry), es = pre ++ e :: post →
      (e.typ = .reg ∨ e.typ = .dir ∨ e.typ = .chr ∨ e.typ = .blk ∨ e.typ = .fifo) →
      o.excludes.any (fun x => hasPrefix (clean e.name) x) = false →
      pathOf dest e ≠ pathComps (clean dest) →
      Final dest e post →
      Holds o e ((untarP dest o es).run w).2.fs (pathOf dest e) := by
  intro pre post e hes htyp hnx hne hfin
  subst hes
  rcases htyp with h | h | h | h | h
  · obtain ⟨e', i, n, hrem, hl, hi, hk, hdat, hpm, hmt, hown⟩ :=
      untar_reg_last_wins dest o pre post e w habs hov hsym hw h hnx hne hfin.1 (hfin.2 (by rw [h]; decide)) hok
    exact ⟨e', i, n, hrem, hl, hi, hpm, hmt, hown, by rw [h]; exact ⟨hk, hdat⟩⟩
  · obtain ⟨e', i, n, hrem, hl, hi, hk, hpm, hmt, hown⟩ :=
      untar_dir_last_wins dest o pre post e w habs hov hsym hw h hnx hne hfin.1 hok
    exact ⟨e', i, n, hrem, hl, hi, hpm, hmt, hown, by rw [h]; exact hk⟩
  · obtain ⟨e', i, n, hrem, hl, hi, hk, hrd, hpm, hmt, hown⟩ :=
      untar_node_last_wins dest o pre post e w habs hov hsym hw (Or.inl h) huns hnx hne hfin.1 (hfin.2 (by rw [h]; decide)) hok
    exact ⟨e', i, n, hrem, hl, hi, hpm, hmt, hown, by rw [h] at hk hrd ⊢; exact ⟨hk, hrd (by decide)⟩⟩
  · obtain ⟨e', i, n, hrem, hl, hi, hk, hrd, hpm, hmt, hown⟩ :=
      untar_node_last_wins dest o pre post e w habs hov hsym hw (Or.inr (Or.inl h)) huns hnx hne hfin.1 (hfin.2 (by rw [h]; decide)) hok
    exact ⟨e', i, n, hrem, hl, hi, hpm, hmt, hown, by rw [h] at hk hrd ⊢; exact ⟨hk, hrd (by decide)⟩⟩
  · obtain ⟨e', i, n, hrem, hl, hi, hk, hrd, hpm, hmt, hown⟩ :=
      untar_node_last_wins dest o pre post e w habs hov hsym hw (Or.inr (Or.inr h)) huns hnx hne hfin.1 (hfin.2 (by rw [h]; decide)) hok
    exact ⟨e', i, n, hrem, hl, hi, hpm, hmt, hown, by rw [h] at hk ⊢; exact hk⟩

/-- … and every hard-link entry whose own path and whose source nothing later names (or names a path above) shares
    its source's object -/
theorem untar_success_links_shared (dest : Str) (o : Opts) (es : List Entry) (w : World)
    (habs : isAbs dest = true) (hov : o.overlay = false)
    (hsym : ∀ x ∈ es, x.typ ≠ .sym)
    (hw : LW (pathComps (clean dest)) w)
    (hok : ((untarP dest o es).run w).1 = .ok) :
    ∀ (pre post : List Entry) (e : Entry), es = pre ++ e :: post → e.typ = .link →
      o.excludes.any (fun x => hasPrefix (clean e.name) x) = false →
      pathOf dest e ≠ pathComps (clean dest) →
      ¬ Cov (touched (clean dest) post) (pathOf dest e) →
      ¬ Cov (touched (clean dest) post) (pathComps (join (clean dest) e.linkname)) →
      ∃ i, ((untarP dest o es).run w).2.fs.lookup (pathOf dest e) = some i ∧
        ((untarP dest o es).run w).2.fs.lookup (pathComps (join (clean dest) e.linkname)) = some i := by
  intro pre post e hes hl hnx hne hc hcs
  subst hes
  exact untar_link_shares dest o pre post e w habs hov hsym hw hl hnx hne hc hcs hok

/-- non-vacuity: in the archive `d/`, `d/x` of C05e both entries have the last word on their paths -/
example : Final b!"/w/dest" exDirEntry [exChild] ∧ Final b!"/w/dest" exChild [] := by
  have hP : pathOf b!"/w/dest" exDirEntry = [b!"w", b!"dest", b!"d"] := by decide
  have hT : touched (clean b!"/w/dest") [exChild] = [[b!"w", b!"dest", b!"d", b!"x"]] := by decide
  refine ⟨⟨?_, fun h => absurd rfl h⟩, ⟨?_, fun _ => ?_⟩⟩
  · rw [hP, hT]; rintro ⟨t, ht, hpre⟩; simp only [List.mem_singleton] at ht; subst ht; exact absurd hpre (by decide)
  · rintro ⟨t, ht, _⟩; simp [touched] at ht
  · rintro ⟨t, ht, _⟩; simp [touched] at ht

end GA.C05
