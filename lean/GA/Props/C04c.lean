import GA.Props.C04
import GA.M.Export
/-
  C04/C09: the order `ExportChanges` sorts the change list into.  `sortChanges` (insertion by the byte order
  of the path, `changesByPath.Less`) returns a permutation of its input in which no entry is preceded by an
  entry for a path beneath it — a directory's entry, or the whiteout that removes it, comes before
  everything inside.  This is the order hypothesis of `C04b.apply_changes_step`.
-/
namespace GA.C04
open GA

theorem strLt_irrefl : ∀ (a : Str), strLt a a = false
  | [] => rfl
  | x :: xs => by simp [strLt, strLt_irrefl xs]

theorem strLt_trans : ∀ (a b c : Str), strLt a b = true → strLt b c = true → strLt a c = true
  | [], [], _, h, _ => by simp [strLt] at h
  | [], _ :: _, [], _, h => by simp [strLt] at h
  | [], _ :: _, _ :: _, _, _ => by simp [strLt]
  | _ :: _, [], _, h, _ => by simp [strLt] at h
  | _ :: _, _ :: _, [], _, h => by simp [strLt] at h
  | x :: xs, y :: ys, z :: zs, h1, h2 => by
    simp only [strLt] at h1 h2 ⊢
    have hxy := @UInt8.lt_iff_toNat_lt x y
    have hyx := @UInt8.lt_iff_toNat_lt y x
    have hyz := @UInt8.lt_iff_toNat_lt y z
    have hzy := @UInt8.lt_iff_toNat_lt z y
    have hxz := @UInt8.lt_iff_toNat_lt x z
    have hzx := @UInt8.lt_iff_toNat_lt z x
    by_cases c1 : x < y
    · by_cases c2 : y < z
      · have : x < z := hxz.mpr (by have := hxy.mp c1; have := hyz.mp c2; omega)
        simp [this]
      · simp only [c2, if_false] at h2
        by_cases c3 : z < y
        · simp [c3] at h2
        · have hyz' : y = z := UInt8.le_antisymm (UInt8.not_lt.mp c3) (UInt8.not_lt.mp c2)
          subst hyz'
          simp [c1]
    · simp only [c1, if_false] at h1
      by_cases c1' : y < x
      · simp [c1'] at h1
      · have hxy' : x = y := UInt8.le_antisymm (UInt8.not_lt.mp c1') (UInt8.not_lt.mp c1)
        subst hxy'
        simp only [c1', if_false] at h1
        by_cases c2 : x < z
        · simp [c2]
        · simp only [c2, if_false] at h2 ⊢
          by_cases c3 : z < x
          · simp [c3] at h2
          · simp only [c3, if_false] at h2 ⊢
            exact strLt_trans xs ys zs h1 h2

theorem strLt_asymm (a b : Str) (h : strLt a b = true) : strLt b a = false := by
  cases hb : strLt b a with
  | false => rfl
  | true =>
    have := strLt_trans a b a h hb
    rw [strLt_irrefl] at this; cases this

/-- `¬ (y < x)` -/
def pathLe (x y : Change) : Prop := strLt y.path x.path = false

theorem pathLe_trans (x y z : Change) (h1 : pathLe x y) (h2 : pathLe y z) : pathLe x z := by
  unfold pathLe at *
  cases hzx : strLt z.path x.path with
  | false => rfl
  | true =>
    exfalso
    cases hxy : strLt x.path y.path with
    | true =>
      have := strLt_trans _ _ _ hzx hxy
      rw [h2] at this; cases this
    | false =>
      have := C10.strLt_trichotomy _ _ hxy h1
      rw [this] at hzx
      rw [h2] at hzx; cases hzx

theorem mem_insertChange (c : Change) : ∀ (l : List Change) (x : Change), x ∈ insertChange c l ↔ x = c ∨ x ∈ l
  | [], x => by simp [insertChange]
  | d :: ds, x => by
    simp only [insertChange]
    split
    · simp
    · simp only [List.mem_cons, mem_insertChange c ds x]
      constructor
      · rintro (h | h | h)
        · exact Or.inr (Or.inl h)
        · exact Or.inl h
        · exact Or.inr (Or.inr h)
      · rintro (h | h | h)
        · exact Or.inr (Or.inl h)
        · exact Or.inl h
        · exact Or.inr (Or.inr h)

/-- **the export order is a rearrangement of the change list** -/
theorem mem_sortChanges : ∀ (l : List Change) (x : Change), x ∈ sortChanges l ↔ x ∈ l
  | [], x => by simp [sortChanges]
  | c :: cs, x => by
    have ih := mem_sortChanges cs x
    simp only [sortChanges, List.foldr_cons] at ih ⊢
    rw [mem_insertChange, ih]
    simp

theorem sorted_insertChange (c : Change) : ∀ (l : List Change), l.Pairwise pathLe → (insertChange c l).Pairwise pathLe
  | [], _ => by simp [insertChange]
  | d :: ds, h => by
    have hd := List.pairwise_cons.mp h
    simp only [insertChange]
    split
    · rename_i hlt
      refine List.pairwise_cons.mpr ⟨?_, h⟩
      intro x hx
      have hcd : pathLe c d := strLt_asymm _ _ hlt
      rcases List.mem_cons.mp hx with rfl | hx
      · exact hcd
      · exact pathLe_trans c d x hcd (hd.1 x hx)
    · rename_i hnlt
      refine List.pairwise_cons.mpr ⟨?_, sorted_insertChange c ds hd.2⟩
      intro x hx
      rcases (mem_insertChange c ds x).mp hx with rfl | hx
      · unfold pathLe; simpa using hnlt
      · exact hd.1 x hx

theorem sorted_sortChanges : ∀ (l : List Change), (sortChanges l).Pairwise pathLe
  | [] => by simp [sortChanges]
  | c :: cs => by
    have ih := sorted_sortChanges cs
    simp only [sortChanges, List.foldr_cons] at ih ⊢
    exact sorted_insertChange c _ ih

/-- **in the export order nothing precedes an entry for a path above it**: a directory's entry, or the whiteout
    that removes it, is written before every entry beneath -/
theorem export_order_parent_first (l : List Change) :
    (sortChanges l).Pairwise (fun x y => ¬ ∃ rest, x.path = y.path ++ 47 :: rest) := by
  refine (sorted_sortChanges l).imp ?_
  intro x y hle
  rintro ⟨rest, hx⟩
  unfold pathLe at hle
  rw [hx, parent_sorts_first] at hle
  cases hle

end GA.C04
