import GA.M.Export
import GA.Props.C04
import GA.Props.C06d
import GA.Proofs.LexJoin
import GA.Proofs.LexStrings
/-
  C04, the link between the two halves of a deletion: **the entry `ExportChanges` writes for a deleted path is, for
  `ApplyLayer` into any destination, a whiteout whose target is that path under the destination** — for every
  destination, every deleted path (any depth) and every point in time.  With `C06.layer_whiteout_removes` (and
  `applyLayers_whiteout_stays` for later layers) this is the deletion clause of C04 across the export → apply
  boundary: what the differ reports deleted is gone after the exported layer has been applied.
-/
namespace GA.C04
open GA

theorem foldl_push : ∀ (xs S : List Str), (∀ x ∈ xs, Norm x) → xs.foldl (cleanStep true) S = xs.reverse ++ S
  | [], S, _ => by simp
  | x :: xs, S, h => by
    have hx := h x (by simp)
    rw [List.foldl_cons, cleanStep_live_push true S x ⟨hx.1, hx.2.1⟩ hx.2.2.1,
      foldl_push xs (x :: S) (fun y hy => h y (by simp [hy]))]
    simp

/-- `Join(dest, Clean(rel))` for a relative path of normal components is `dest` followed by those components -/
theorem join_abs_rel (ds xs : List Str) (hds : ∀ d ∈ ds, Norm d) (hxs : ∀ x ∈ xs, Norm x) (hne : xs ≠ []) :
    join (47 :: joinSlash ds) (clean (joinSlash xs)) = 47 :: joinSlash (ds ++ xs) := by
  have hrel : isAbs (joinSlash xs) = false := by
    cases xs with
    | nil => exact absurd rfl hne
    | cons x rest =>
      have hx := hxs x (by simp)
      cases x with
      | nil => exact absurd rfl hx.1
      | cons ch chs =>
        have : ch ≠ 47 := fun e => hx.2.2.2 (by simp [e])
        cases rest <;> simp [joinSlash, isAbs, this]
  obtain ⟨hc, hcomps, _⟩ := pathComps_join ds hds (clean (joinSlash xs))
  rw [fold_clean_rel _ _ hrel, splitSlash_joinSlash xs hne (fun x hx => (hxs x hx).2.2.2),
    foldl_push xs ds.reverse hxs] at hcomps
  have hall : ∀ x ∈ ds ++ xs, Norm x := by
    intro x hx
    rcases List.mem_append.mp hx with h | h
    · exact hds x h
    · exact hxs x h
  apply cleanAbs_eq_of_comps hc ⟨_, hall, rfl⟩
  rw [hcomps, pathComps_cleanAbs _ hall]
  simp

theorem exported_whiteout_applies (ds cs : List Str) (c : Str) (now : Int)
    (hds : ∀ d ∈ ds, Norm d) (hcs : ∀ x ∈ cs, Norm x) (hc : Norm c)
    (hnopq : whPrefix ++ c ≠ whOpaqueDir)
    (hmeta : hasPrefix (clean (whiteoutHdr (47 :: joinSlash (cs ++ [c])) now).name) whMetaPrefix = false) :
    C06.IsWhiteout (47 :: joinSlash ds) (whiteoutHdr (47 :: joinSlash (cs ++ [c])) now) ∧
    pathComps (C06.whTarget (47 :: joinSlash ds) (whiteoutHdr (47 :: joinSlash (cs ++ [c])) now)) = ds ++ cs ++ [c] := by
  obtain ⟨hdir, hbase⟩ := dir_base_snoc cs c hcs hc
  have hwc := norm_wh c hc
  have hname : (whiteoutHdr (47 :: joinSlash (cs ++ [c])) now).name = joinSlash (cs ++ [whPrefix ++ c]) := by
    simp only [whiteoutHdr]
    rw [hdir, hbase, join_snoc cs (whPrefix ++ c) hcs hwc]
    rfl
  have hxs : ∀ x ∈ cs ++ [whPrefix ++ c], Norm x := by
    intro x hx
    rcases List.mem_append.mp hx with h | h
    · exact hcs x h
    · simp only [List.mem_singleton] at h; subst h; exact hwc
  have hjoin : join (47 :: joinSlash ds) (clean (whiteoutHdr (47 :: joinSlash (cs ++ [c])) now).name) =
      47 :: joinSlash ((ds ++ cs) ++ [whPrefix ++ c]) := by
    rw [hname, join_abs_rel ds (cs ++ [whPrefix ++ c]) hds hxs (by simp), List.append_assoc]
  have hdcs : ∀ x ∈ ds ++ cs, Norm x := by
    intro x hx
    rcases List.mem_append.mp hx with h | h
    · exact hds x h
    · exact hcs x h
  obtain ⟨hd2, hb2⟩ := dir_base_snoc (ds ++ cs) (whPrefix ++ c) hdcs hwc
  refine ⟨⟨by simp [whiteoutHdr], hmeta, ?_, ?_⟩, ?_⟩
  · rw [hjoin, hb2]; simp [hasPrefix]
  · rw [hjoin, hb2]; exact hnopq
  · unfold C06.whTarget
    rw [hjoin, hd2, hb2]
    have : (whPrefix ++ c).drop whPrefix.length = c := by simp
    rw [this, join_snoc (ds ++ cs) c hdcs hc, pathComps_cleanAbs]
    intro x hx
    rcases List.mem_append.mp hx with h | h
    · exact hdcs x h
    · simp only [List.mem_singleton] at h; subst h; exact hc

/-- **a reported deletion is applied**: in any layer in which the exporter's whiteout for `/cs…/c` has the last word on
    that path, a successful `ApplyLayer` into `dest` leaves nothing at or beneath `dest/cs…/c` — whatever the layer
    did before the whiteout and whatever the tree held -/
theorem exported_deletion_is_applied (ds cs : List Str) (c : Str) (now : Int) (o : Opts) (pre post : List Entry)
    (um : Nat) (w : World)
    (hds : ∀ d ∈ ds, Norm d) (hcs : ∀ x ∈ cs, Norm x) (hc : Norm c)
    (hnopq : whPrefix ++ c ≠ whOpaqueDir)
    (hmeta : hasPrefix (clean (whiteoutHdr (47 :: joinSlash (cs ++ [c])) now).name) whMetaPrefix = false)
    (hsym : ∀ x ∈ pre ++ whiteoutHdr (47 :: joinSlash (cs ++ [c])) now :: post, x.typ ≠ .sym)
    (hw : LW ds w)
    (hfree : ∀ t ∈ touchedL (47 :: joinSlash ds) post, ¬ t <+: ds ++ cs ++ [c] ∧ ¬ ds ++ cs ++ [c] <+: t)
    (hok : ((applyLayerP (47 :: joinSlash ds) o (pre ++ whiteoutHdr (47 :: joinSlash (cs ++ [c])) now :: post) um).run w).1.1 = .ok) :
    ∀ q, under (ds ++ cs ++ [c]) q = true →
      ((applyLayerP (47 :: joinSlash ds) o (pre ++ whiteoutHdr (47 :: joinSlash (cs ++ [c])) now :: post) um).run w).2.fs.lookup q = none := by
  have hdc : CleanAbs (47 :: joinSlash ds) := ⟨ds, hds, rfl⟩
  have hcl : clean (47 :: joinSlash ds) = 47 :: joinSlash ds := clean_of_cleanAbs _ hdc
  have hpc : pathComps (47 :: joinSlash ds) = ds := pathComps_cleanAbs ds hds
  obtain ⟨hwh, htgt⟩ := exported_whiteout_applies ds cs c now hds hcs hc hnopq hmeta
  have := C06.layer_whiteout_removes (47 :: joinSlash ds) o pre post (whiteoutHdr (47 :: joinSlash (cs ++ [c])) now) um w
    (by simp [isAbs]) hsym (by rw [hcl, hpc]; exact hw) (by rw [hcl]; exact hwh)
    (by rw [hcl, htgt]; exact hfree) hok
  rw [hcl, htgt] at this
  exact this

/-- non-vacuity: `/a/old` deleted, applied into `/w/dest` -/
example : pathComps (C06.whTarget b!"/w/dest" (whiteoutHdr b!"/a/old" 0)) = [b!"w", b!"dest", b!"a", b!"old"] := by
  have h := exported_whiteout_applies [b!"w", b!"dest"] [b!"a"] b!"old" 0
    (by intro d hd; simp at hd; rcases hd with rfl | rfl <;> simp [Norm, dot, dotdot])
    (by intro d hd; simp at hd; subst hd; simp [Norm, dot, dotdot])
    (by simp [Norm, dot, dotdot]) (by decide) (by decide)
  exact h.2

end GA.C04
