import GA.Props.C20
import GA.Proofs.LexLayer
/-
  C20 for the layer entry point.  `UnpackLayer` has one call whose failure it deliberately ignores: the
  deferred `os.RemoveAll` of its staging directory.  Everything else is strict.  Because the staging
  directory's name is whatever `mkdtemp` really returned, the statement is made along real runs with
  injected faults (`StrictSem`), not for arbitrary call results.
-/
namespace GA.C20
open GA

/-- the one tolerated refusal of the layer loop: removal of its own staging directory -/
def isCleanup (dest : Str) : Sys → Bool
  | .removeAll p => p == join dest tmpName
  | _ => false

/-- along every run from any world, with any result replaced by an injected error: once a mutating call
    that is not the staging clean-up was refused with a non-tolerated error, every reachable leaf fails -/
def StrictSem {α : Type} (o : Opts) (dest : Str) (fail : α → Prop) : Prog α → Prop
  | .ret _ => True
  | .call s k =>
    (∀ w, StrictSem o dest fail (k (step w s).1)) ∧ (∀ e, StrictSem o dest fail (k (.err e))) ∧
    (isMut s = true → isCleanup dest s = false → ∀ r, (match r with
        | .err e => tolerated o s e = false
        | .blocked => True
        | _ => False) → (k r).All fail)

theorem Strict.toSem {α : Type} (o : Opts) (dest : Str) {fail : α → Prop} :
    ∀ (p : Prog α), Strict o fail p → StrictSem o dest fail p
  | .ret _, _ => True.intro
  | .call s k, h =>
    ⟨fun w => Strict.toSem o dest (k _) (h _).1, fun e => Strict.toSem o dest (k _) (h _).1,
     fun hm _ r hr => (h r).2 hm hr⟩

theorem StrictSem.bind {α β : Type} (o : Opts) (dest : Str) {failA : α → Prop} {failB : β → Prop} :
    ∀ (m : Prog α) (f : α → Prog β), StrictSem o dest failA m → (∀ a, failA a → (f a).All failB) →
      (∀ a, StrictSem o dest failB (f a)) → StrictSem o dest failB (m.bind f)
  | .ret a, f, _, _, hf => hf a
  | .call s k, f, hm, hfail, hf =>
    ⟨fun w => StrictSem.bind o dest (k _) f (hm.1 w) hfail hf,
     fun e => StrictSem.bind o dest (k _) f (hm.2.1 e) hfail hf,
     fun hmut hc r hr => Prog.All.bind (k r) f (hm.2.2 hmut hc r hr) hfail⟩

theorem bindSem {α β : Type} (o : Opts) (dest : Str) {failA : α → Prop} {failB : β → Prop} (m : Prog α) (f : α → Prog β)
    (hm : StrictSem o dest failA m) (hfail : ∀ a, failA a → (f a).All failB) (hf : ∀ a, StrictSem o dest failB (f a)) :
    StrictSem o dest failB (m >>= f) := StrictSem.bind o dest m f hm hfail hf

theorem sem_pure {α : Type} (o : Opts) (dest : Str) (fail : α → Prop) (a : α) : StrictSem o dest fail (pure a : Prog α) :=
  True.intro

/-- run with a fault oracle, recording whether a mutating call other than the staging clean-up was refused -/
def runWL {α : Type} (o : Opts) (dest : Str) (faults : Nat → Option Errno) : Nat → Prog α → World → α × Bool
  | _, .ret a, _ => (a, false)
  | i, .call s k, w =>
    match faults i with
    | some e =>
      let r := runWL o dest faults (i + 1) (k (.err e)) w
      (r.1, r.2 || (isMut s && !isCleanup dest s && !tolerated o s e))
    | none =>
      let r := runWL o dest faults (i + 1) (k (step w s).1) (step w s).2
      (r.1, r.2 || (isMut s && !isCleanup dest s && (match (step w s).1 with
        | .err e => !tolerated o s e
        | .blocked => true
        | _ => false)))

theorem all_runWL {α : Type} (o : Opts) (dest : Str) (faults : Nat → Option Errno) {P : α → Prop} :
    ∀ (p : Prog α) (i : Nat) (w : World), p.All P → P (runWL o dest faults i p w).1
  | .ret _, _, _, h => h
  | .call s k, i, w, h => by
    simp only [runWL]
    split
    · exact all_runWL o dest faults (k _) _ _ (h _)
    · exact all_runWL o dest faults (k _) _ _ (h _)

theorem sem_runWL {α : Type} (o : Opts) (dest : Str) (faults : Nat → Option Errno) {fail : α → Prop} :
    ∀ (p : Prog α) (i : Nat) (w : World), StrictSem o dest fail p → (runWL o dest faults i p w).2 = true →
      fail (runWL o dest faults i p w).1
  | .ret _, _, _, _, h => by simp [runWL] at h
  | .call s k, i, w, hs, h => by
    simp only [runWL] at h ⊢
    split at h
    · rename_i e _
      simp only at h ⊢
      simp only [Bool.or_eq_true, Bool.and_eq_true, Bool.not_eq_true'] at h
      rcases h with h | ⟨⟨hm, hc⟩, ht⟩
      · exact sem_runWL o dest faults (k _) _ _ (hs.2.1 e) h
      · exact all_runWL o dest faults (k _) _ _ (hs.2.2 hm hc (.err e) ht)
    · simp only at h ⊢
      simp only [Bool.or_eq_true, Bool.and_eq_true, Bool.not_eq_true'] at h
      rcases h with h | ⟨⟨hm, hc⟩, ht⟩
      · exact sem_runWL o dest faults (k _) _ _ (hs.1 w) h
      · refine all_runWL o dest faults (k _) _ _ (hs.2.2 hm hc _ ?_)
        cases hr : (step w s).1 <;> simp_all

/-- every leaf reachable along real runs with injected errors satisfies `Q` -/
def SemAll {α : Type} (Q : α → Prop) : Prog α → Prop
  | .ret a => Q a
  | .call s k => (∀ w, SemAll Q (k (step w s).1)) ∧ (∀ e, SemAll Q (k (.err e)))

theorem SemAll.ofAll {α : Type} {Q : α → Prop} : ∀ (p : Prog α), p.All Q → SemAll Q p
  | .ret _, h => h
  | .call s k, h => ⟨fun w => SemAll.ofAll (k _) (h _), fun e => SemAll.ofAll (k _) (h _)⟩

theorem SemAll.bind {α β : Type} {Q : α → Prop} {R : β → Prop} :
    ∀ (m : Prog α) (f : α → Prog β), SemAll Q m → (∀ a, Q a → SemAll R (f a)) → SemAll R (m.bind f)
  | .ret a, f, hm, hf => hf a hm
  | .call s k, f, hm, hf => ⟨fun w => SemAll.bind (k _) f (hm.1 w) hf, fun e => SemAll.bind (k _) f (hm.2 e) hf⟩

theorem StrictSem.bindQ {α β : Type} (o : Opts) (dest : Str) {failA Q : α → Prop} {failB : β → Prop} :
    ∀ (m : Prog α) (f : α → Prog β), StrictSem o dest failA m → SemAll Q m → (∀ a, failA a → (f a).All failB) →
      (∀ a, Q a → StrictSem o dest failB (f a)) → StrictSem o dest failB (m.bind f)
  | .ret a, f, _, hq, _, hf => hf a hq
  | .call s k, f, hm, hq, hfail, hf =>
    ⟨fun w => StrictSem.bindQ o dest (k _) f (hm.1 w) (hq.1 w) hfail hf,
     fun e => StrictSem.bindQ o dest (k _) f (hm.2.1 e) (hq.2 e) hfail hf,
     fun hmut hc r hr => Prog.All.bind (k r) f (hm.2.2 hmut hc r hr) hfail⟩

/-- the staging directory the state remembers is the one `mkdtemp` makes in this destination (or none yet) -/
def TmpOK (dest : Str) (st : LState) : Prop := st.tmp = [] ∨ st.tmp = join dest tmpName

def failL (r : Out × Nat) : Prop := r.1 ≠ .ok

theorem finish_fails (dest : Str) (st : LState) (out : Out) (h : out ≠ .ok) : (layerFinish dest st out).All failL := by
  unfold layerFinish
  have hp : ∀ (r : Res), (pure (out, if (out == Out.ok) = true then st.size else 0) : Prog (Out × Nat)).All failL :=
    fun _ => h
  show Prog.All failL (Prog.bind _ _)
  split
  · intro r; exact hp r
  · exact hp .ok

theorem sem_finish (o : Opts) (dest : Str) (st : LState) (out : Out) (ht : TmpOK dest st) :
    StrictSem o dest failL (layerFinish dest st out) := by
  unfold layerFinish
  show StrictSem o dest failL (Prog.bind _ _)
  split
  · rename_i hne
    rcases ht with h | h
    · exact absurd h hne
    · refine ⟨fun _ => True.intro, fun _ => True.intro, fun _ hc => ?_⟩
      exfalso
      simp [isCleanup, h] at hc
  · exact True.intro

def failStage (r : Except Out LState) : Prop := ∃ out, r = .error out ∧ out ≠ .ok

theorem semAll_sys {Q : Res → Prop} (s : Sys) (h : ∀ w, Q (step w s).1) (he : ∀ e, Q (.err e)) : SemAll Q (sys s) :=
  ⟨fun w => h w, fun e => he e⟩

/-- staging: a refused `mkdtemp` or any refusal while writing the staged file is reported (the clean-up of the
    directory made just before is the tolerated call) -/
theorem sem_stage (o : Opts) (dest : Str) (e : Entry) (st : LState) (n : Str) (ht : TmpOK dest st) :
    StrictSem o dest failStage (stageP dest o e st n) := by
  unfold stageP
  split
  · simp only
    refine StrictSem.bindQ o dest (failA := fun r => isErr r = true)
      (Q := fun mk => ∀ t, mk = .str t → t = join dest tmpName) _ _ ?_ ?_ ?_ ?_
    · split
      · exact Strict.toSem o dest _ (strict_sys o _)
      · exact sem_pure o dest _ _
    · split
      · exact semAll_sys _ (fun w t ht' => mkdtemp_result w dest _ t ht') (fun e t h => by cases h)
      · rename_i hne
        intro t h
        injection h with h
        rcases ht with h0 | h0
        · exact absurd h0 hne
        · rw [← h]; exact h0
    · intro mk hmk
      cases mk <;> first | exact ⟨_, rfl, ne_ok_err⟩ | simp [isErr] at hmk
    · intro mk hmk
      split
      · rename_i t
        have htt := hmk t rfl
        refine bindSem o dest (failA := fun out => out ≠ .ok) _ _ (Strict.toSem o dest _ (strict_createTarFile o _ _ _)) ?_ ?_
        · intro out hout
          have : (out != Out.ok) = true := by simpa using hout
          simp only [this, if_true]
          split
          · intro _; exact ⟨out, rfl, hout⟩
          · exact ⟨out, rfl, hout⟩
        · intro out
          split
          · split
            · refine ⟨fun _ => True.intro, fun _ => True.intro, fun _ hc => ?_⟩
              exfalso
              simp [isCleanup, htt] at hc
            · exact sem_pure o dest _ _
          · exact sem_pure o dest _ _
      · exact sem_pure o dest _ _
  · exact sem_pure o dest _ _

/-- staging keeps the remembered directory the one `mkdtemp` makes here -/
theorem stage_tmp (o : Opts) (dest : Str) (e : Entry) (st : LState) (n : Str) (ht : TmpOK dest st) :
    SemAll (fun r => ∀ st', r = .ok st' → TmpOK dest st') (stageP dest o e st n) := by
  unfold stageP
  split
  · simp only
    refine SemAll.bind (Q := fun mk => ∀ t, mk = .str t → t = join dest tmpName) _ _ ?_ ?_
    · split
      · exact semAll_sys _ (fun w t ht' => mkdtemp_result w dest _ t ht') (fun e t h => by cases h)
      · rename_i hne
        intro t h
        injection h with h
        rcases ht with h0 | h0
        · exact absurd h0 hne
        · rw [← h]; exact h0
    · intro mk hmk
      split
      · rename_i t
        have htt := hmk t rfl
        refine SemAll.ofAll _ ?_
        refine Prog.All.bind _ _ (Prog.All.trivial _) ?_
        intro out _
        split
        · split
          · intro _ st' h; cases h
          · intro st' h; cases h
        · intro st' h
          injection h with h
          subst h
          exact Or.inr htt
      · intro st' h; cases h
  · intro st' h
    injection h with h
    subst h
    exact ht

theorem strict_opaqueWalk (o : Opts) (dirS : Str) (unpacked : List Str) :
    ∀ (items : List (Str × Kind × Nat)) (skip : Option Nat),
      Strict o (fun r => isErr r = true) (opaqueWalkP dirS unpacked items skip)
  | [], _ => strict_pure o _ _
  | (q, k, d) :: rest, skip => by
    have tailcase : Strict o (fun r => isErr r = true)
        (if q = dirS then opaqueWalkP dirS unpacked rest none
         else if unpacked.contains q = true then opaqueWalkP dirS unpacked rest none
         else do
           let r ← sys (Sys.removeAll q)
           if isErr r = true then pure r else opaqueWalkP dirS unpacked rest (some d)) := by
      split
      · exact strict_opaqueWalk o dirS unpacked rest _
      · split
        · exact strict_opaqueWalk o dirS unpacked rest _
        · refine bindS o _ _ (strict_sys o _) ?_ ?_
          · intro r hr; simp only [hr, if_true]; exact All_pure _ hr
          · intro r
            split
            · exact strict_pure o _ _
            · exact strict_opaqueWalk o dirS unpacked rest _
    simp only [opaqueWalkP]
    cases skip with
    | none => simp only [Bool.false_eq_true, if_false]; exact tailcase
    | some sd =>
      simp only
      split
      · exact strict_opaqueWalk o dirS unpacked rest _
      · exact tailcase

def failWh (r : Option Res) : Prop := r = none ∨ ∃ x, r = some x ∧ isErr x = true

theorem strict_whiteoutRemove (o : Opts) (orig : Str) : Strict o failWh (whiteoutRemoveP orig) := by
  unfold whiteoutRemoveP
  intro s
  refine ⟨?_, fun hm => by simp [isMut] at hm⟩
  simp only
  split
  · exact True.intro
  · intro r
    refine ⟨True.intro, fun _ hr => ?_⟩
    right
    refine ⟨r, rfl, ?_⟩
    cases r <;> simp_all [isErr]

theorem strict_resolveSrc (o : Opts) (st : LState) (e : Entry) :
    Strict o (fun (r : Except Out Entry) => ∃ out, r = .error out ∧ out ≠ .ok) (resolveSrcP st e) := by
  unfold resolveSrcP
  split
  · simp only
    split
    · exact strict_pure o _ _
    · refine bindS o _ _ (strict_info o _ rfl (fun _ => False)) (fun _ h => h.elim) ?_
      intro d
      split <;> exact strict_pure o _ _
  · exact strict_pure o _ _

theorem ne_ok_breakout : Out.breakout ≠ Out.ok := by decide

set_option maxHeartbeats 2000000 in
/-- **the layer loop is strict**: a refused mutating call other than the staging clean-up, at any entry, at any
    step — staging, implied parents, whiteout removal, opaque walk, replace, create, metadata, deferred directory
    times — makes the result an error -/
theorem sem_layerLoop (o : Opts) (dest : Str) : ∀ (es : List Entry) (st : LState), TmpOK dest st →
    StrictSem o dest failL (layerLoop dest o es st)
  | [], st, ht => by
    simp only [layerLoop]
    refine bindSem o dest (failA := fun out => out ≠ .ok) _ _ (Strict.toSem o dest _ (strict_dirTimes o dest _)) ?_ ?_
    · intro r hr; exact finish_fails dest st r hr
    · intro r; exact sem_finish o dest st r ht
  | e :: es, st0, ht0 => by
    have ht1 : TmpOK dest { st0 with size := st0.size + e.size } := ht0
    simp only [layerLoop]
    split
    · exact sem_layerLoop o dest es _ ht1
    refine StrictSem.bindQ o dest _ _ (sem_stage o dest e _ (clean e.name) ht1) (stage_tmp o dest e _ (clean e.name) ht1) ?_ ?_
    · rintro stR ⟨out, rfl, hout⟩
      exact finish_fails dest _ out hout
    · intro stR hstR
      split
      · exact sem_finish o dest _ _ ht1
      · rename_i st
        have ht : TmpOK dest st := hstR st rfl
        have hrec : ∀ st', TmpOK dest st' → StrictSem o dest failL (layerLoop dest o es st') :=
          fun st' h' => sem_layerLoop o dest es st' h'
        have hfin : ∀ out, StrictSem o dest failL (layerFinish dest st out) := fun out => sem_finish o dest st out ht
        have herr : ∀ out, out ≠ .ok → (layerFinish dest st out).All failL := fun out h => finish_fails dest st out h
        split
        · exact hrec st ht
        · split
          · exact hfin _
          · rename_i p hg
            refine bindSem o dest (failA := fun r => isErr r = true) _ _ (Strict.toSem o dest _ (strict_impliedDirs o dest _)) ?_ ?_
            · intro i hi; simp only [hi, if_true]; exact herr _ ne_ok_err
            · intro i
              split
              · exact hfin _
              · split
                · -- whiteout or opaque marker
                  split
                  · exact hfin _
                  · split
                    · refine bindSem o dest (failA := fun _ => False) _ _
                        (Strict.toSem o dest _ (strict_info o _ rfl (fun _ => False))) (fun _ h => h.elim) ?_
                      intro l
                      split
                      · exact hfin _
                      · refine bindSem o dest (failA := fun _ => False) _ _
                          (Strict.toSem o dest _ (strict_info o _ rfl (fun _ => False))) (fun _ h => h.elim) ?_
                        intro t
                        split
                        · refine bindSem o dest (failA := fun r => isErr r = true) _ _
                            (Strict.toSem o dest _ (strict_opaqueWalk o _ _ _ _)) ?_ ?_
                          · intro wr hwr; simp only [hwr, if_true]; exact herr _ ne_ok_err
                          · intro wr
                            split
                            · exact hfin _
                            · exact hrec st ht
                        · exact hrec st ht
                        · exact hfin _
                    · split
                      · exact hfin _
                      · split
                        · exact hfin _
                        · refine bindSem o dest (failA := failWh) _ _ (Strict.toSem o dest _ (strict_whiteoutRemove o _)) ?_ ?_
                          · intro r hr
                            rcases hr with rfl | ⟨x, rfl, hx⟩
                            · exact herr _ ne_ok_err
                            · simp only [hx, if_true]; exact herr _ ne_ok_err
                          · intro r
                            split
                            · exact hfin _
                            · split
                              · exact hfin _
                              · exact hrec st ht
                · -- an ordinary entry
                  refine bindSem o dest (failA := fun _ => False) _ _
                    (Strict.toSem o dest _ (strict_info o _ rfl (fun _ => False))) (fun _ h => h.elim) ?_
                  intro l
                  cases l
                  all_goals (
                  simp only
                  split
                  · exact hfin _
                  · refine bindSem o dest (failA := fun r => isErr r = true) _ _ ?_ ?_ ?_
                    · split
                      · exact Strict.toSem o dest _ (strict_sys o _)
                      · exact sem_pure o dest _ _
                    · intro rm hrm; simp only [hrm, if_true]; exact herr _ ne_ok_err
                    · intro rm
                      split
                      · exact hfin _
                      · refine bindSem o dest (failA := fun (r : Except Out Entry) => ∃ out, r = .error out ∧ out ≠ .ok) _ _
                          (Strict.toSem o dest _ (strict_resolveSrc o st e)) ?_ ?_
                        · rintro srcR ⟨out, rfl, hout⟩
                          exact herr _ hout
                        · intro srcR
                          split
                          · exact hfin _
                          · split
                            · exact hfin _
                            · refine bindSem o dest (failA := fun out => out ≠ .ok) _ _
                                (Strict.toSem o dest _ (strict_createTarFile o _ _ _)) ?_ ?_
                              · intro out hout
                                have : (out != Out.ok) = true := by simpa using hout
                                simp only [this, if_true]
                                exact herr _ hout
                              · intro out
                                split
                                · exact hfin _
                                · exact hrec _ ht)

/-- **success ⇒ no untolerated refusal, for the layer entry point**: if `UnpackLayer` returns success under ANY
    fault schedule, then no mutating system call was refused — by the injected faults or by the filesystem —
    other than the documented tolerances and the deferred removal of its own staging directory -/
theorem layer_ok_implies_no_untolerated_fault (o : Opts) (dest : Str) (es : List Entry) (w : World)
    (faults : Nat → Option Errno) (h : (runWL o dest faults 0 (unpackLayerP dest o es) w).1.1 = .ok) :
    (runWL o dest faults 0 (unpackLayerP dest o es) w).2 = false := by
  cases hb : (runWL o dest faults 0 (unpackLayerP dest o es) w).2 with
  | false => rfl
  | true =>
    have := sem_runWL o dest faults (unpackLayerP dest o es) 0 w (sem_layerLoop o dest es {} (Or.inl rfl)) hb
    exact absurd h this

/-- non-vacuity: a refused `mkdir` for the only entry of a layer makes the apply fail; without faults it succeeds -/
example :
    let e : Entry := { typ := .dir, name := b!"d", mode := 0o755 }
    let w : World := { fs := FS.empty.create [b!"x"] { kind := .dir, perm := 0o755, uid := 0, gid := 0, mtime := some 0 } }
    ((runWL {} b!"/x" (fun i => if i = 3 then some .ENOSPC else none) 0 (unpackLayerP b!"/x" {} [e]) w).1.1 ≠ .ok ∧
     (runWL {} b!"/x" (fun i => if i = 3 then some .ENOSPC else none) 0 (unpackLayerP b!"/x" {} [e]) w).2 = true) ∧
    ((runWL {} b!"/x" (fun _ => none) 0 (unpackLayerP b!"/x" {} [e]) w).1.1 = .ok ∧
     (runWL {} b!"/x" (fun _ => none) 0 (unpackLayerP b!"/x" {} [e]) w).2 = false) := by decide

end GA.C20
