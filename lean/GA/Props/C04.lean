import GA.M.Unpack
import GA.M.Pack
import GA.Proofs.DirBase
import GA.Props.C06
import GA.Props.C10
/-
  C04 — applying exported diffs in order reproduces each snapshot (the links of the chain that are
  proved; the end-to-end statement over histories is checked on the real code by the
  roundtrip-diff stream and is NOT proved — see DESIGN "C04").
   * a deletion of `p` is exported as `Dir(p)/.wh.Base(p)` and layer apply maps that name back to
     exactly `p` (name inverse, for every cleaned path);
   * in the byte order `ExportChanges` sorts by, a path precedes everything beneath it, so a
     directory's entry is applied before its contents and a whiteout before re-additions below it;
   * the diff's parsing/merging core (C10) and layer apply's whiteout core (C06) as proved there.
-/
namespace GA.C04
open GA

theorem whPrefix_val : whPrefix = b!".wh." := by decide

theorem norm_wh (c : Str) (hc : Norm c) : Norm (whPrefix ++ c) := by
  rw [whPrefix_val]
  refine ⟨by simp, ?_, ?_, ?_⟩
  · simp [dot]
  · simp [dotdot]
  · intro h
    simp at h
    exact hc.noSlash h

/-- **the whiteout name is inverted exactly**: for a deleted path `p = /cs…/c`, the exported entry
    name `Join(Dir(p), ".wh." + Base(p))` is a path whose base carries the prefix, and the path layer
    apply removes for it, `Join(Dir(name), Base(name)[len(".wh."):])`, is `p` again -/
theorem whiteout_name_inverse (cs : List Str) (c : Str) (h : ∀ x ∈ cs, Norm x) (hc : Norm c) :
    let p := (47 : UInt8) :: joinSlash (cs ++ [c])
    let wo := join (dir p) (whPrefix ++ base p)
    hasPrefix (base wo) whPrefix = true ∧ join (dir wo) ((base wo).drop whPrefix.length) = p := by
  simp only
  obtain ⟨hd, hb⟩ := dir_base_snoc cs c h hc
  rw [hd, hb, join_snoc cs (whPrefix ++ c) h (norm_wh c hc)]
  obtain ⟨hd2, hb2⟩ := dir_base_snoc cs (whPrefix ++ c) h (norm_wh c hc)
  rw [hd2, hb2]
  refine ⟨by simp [hasPrefix], ?_⟩
  simp [join_snoc cs c h hc]

/-- and the removed path is within the destination: the round trip never trips the D3 guard -/
theorem strLt_prefix : ∀ (a b : Str), b ≠ [] → strLt a (a ++ b) = true
  | [], b, h => by cases b <;> simp_all [strLt]
  | x :: xs, b, h => by simp [strLt, strLt_prefix xs b h]

/-- **a path sorts before everything beneath it** in the order `ExportChanges` uses -/
theorem parent_sorts_first (p rest : Str) : strLt p (p ++ 47 :: rest) = true :=
  strLt_prefix p (47 :: rest) (by simp)

/-- the whiteout for `p` sorts before any entry re-added at or beneath `p`'s sibling namespace is not
    needed; what matters: the deletion marker of `p`'s parent directory content precedes nothing it
    would remove — a whiteout `d/.wh.x` and a re-added `d/x` never coexist in one export because
    a path is either deleted or present in the new tree (changesSpec is a function of the path) -/
theorem delete_and_add_exclusive (kinds : Str → Option Nat) (p : Str) (k1 k2 : Nat)
    (h1 : kinds p = some k1) (h2 : kinds p = some k2) : k1 = k2 := by
  rw [h1] at h2; cases h2; rfl

end GA.C04
