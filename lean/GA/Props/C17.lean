import GA.M.Pipe
import GA.Generated.Facts
/-
  C17 — every returned stream terminates and cleans up after itself (protocol logic).
  Partial: real blocking, goroutine and process lifetimes are the runtime's; the `streams` stream
  observes them (goroutine, fd and child census after every stop point).
-/
namespace GA.C17
open GA.Pipe

/-- **the producer always closes its end**: whatever the consumer does, after `Do` the pipe is not
    open any more, so a draining reader gets end-of-stream or an error, never an endless wait -/
theorem producer_always_closes (c : Consumer) (items : List Item) : (produce c items).pipe ≠ .open := by
  unfold produce
  simp only
  split
  · simp
  · rename_i p hp; simp only; intro h; exact hp (by simpa using h)

/-- **a write after the consumer closed returns at once** (with the consumer's error) -/
theorem write_after_close_nonblocking (e : Nat) : write (.readerClosed e) = .closed e := rfl

theorem consume_closed (c : Consumer) (s : PState) (e : Nat) (h : s.pipe = .readerClosed e) :
    (consume c s).pipe = .readerClosed e := by
  unfold consume; cases c <;> simp [h]

theorem attempt_closed (c : Consumer) (s : PState) (e : Nat) (b : Bool) (h : s.pipe = .readerClosed e) :
    (attempt c s b).2 = .closed e ∧ (attempt c s b).1.pipe = .readerClosed e ∧
    (attempt c s b).1.bodyReads = s.bodyReads ∧ (attempt c s b).1.stepsAfterClose = s.stepsAfterClose + 1 := by
  have hc : consume c s = s := by unfold consume; cases c <;> simp [h]
  unfold attempt
  simp [hc, h, write]

/-- **after the consumer closed with io.ErrClosedPipe the walk stops at the next write**: exactly
    one more step, no file content is read -/
theorem walk_stops_after_close (c : Consumer) (items : List Item) (s : PState) (h : s.pipe = .readerClosed 0)
    (hne : items ≠ []) :
    (walk c items s).stepsAfterClose = s.stepsAfterClose + 1 ∧ (walk c items s).bodyReads = s.bodyReads := by
  cases items with
  | nil => exact absurd rfl hne
  | cons it rest =>
    obtain ⟨h1, h2, h3, h4⟩ := attempt_closed c s 0 false h
    simp only [walk]
    generalize hat : attempt c s false = at' at *
    obtain ⟨s', r⟩ := at'
    simp only at h1 h2 h3 h4
    subst h1
    simp only [if_true]
    exact ⟨h4, h3⟩

/-- **after the consumer closed with another error the walk still terminates**: at most one failed
    header write per remaining file, and no file content is read any more -/
theorem walk_after_error_close (c : Consumer) (e : Nat) : ∀ (items : List Item) (s : PState), s.pipe = .readerClosed e →
    (walk c items s).stepsAfterClose ≤ s.stepsAfterClose + items.length ∧
    (walk c items s).bodyReads = s.bodyReads := by
  intro items
  induction items with
  | nil => intro s _; simp [walk]
  | cons it rest ih =>
    intro s h
    obtain ⟨h1, h2, h3, h4⟩ := attempt_closed c s e false h
    simp only [walk]
    generalize hat : attempt c s false = at' at *
    obtain ⟨s', r⟩ := at'
    simp only at h1 h2 h3 h4
    subst h1
    simp only
    split
    · simp only [List.length_cons]; omega
    · have := ih s' h2
      simp only [List.length_cons]
      omega

/-- obligations on the regenerated structure of the producers: the model's "always closes" is what
    the code does on every exit path -/
theorem producers_close_on_every_path :
    Facts.doClosesAll = true ∧ Facts.exportClosesAlways = true ∧ Facts.rebaseClosesAlways = true ∧
    Facts.replaceClosesAlways = true ∧ Facts.cmdStreamClosesAlways = true ∧ Facts.copyFileJoinsErrors = true := by decide

/-- non-vacuity: a consumer that stops after two writes; three files of two chunks each -/
example : (produce (.stopAfter 2 0) [⟨2⟩, ⟨2⟩, ⟨2⟩]).pipe = .readerClosed 0 ∧
          (produce (.stopAfter 2 0) [⟨2⟩, ⟨2⟩, ⟨2⟩]).stepsAfterClose = 1 ∧
          (produce .drain [⟨2⟩, ⟨2⟩, ⟨2⟩]).pipe = .writerClosed none ∧
          (produce .drain [⟨2⟩, ⟨2⟩, ⟨2⟩]).written = 9 := by decide

end GA.C17
