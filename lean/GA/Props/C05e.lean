import GA.Proofs.UnpackDir
import GA.Props.C05d
/-
  C05, the named half for directories: **a directory entry merges, and the last one wins**.  For every archive
  `pre ++ e :: post` without symbolic-link entries, every option set of the default whiteout format and every
  prior symlink-free world: if the plain `Untar` reports success, `e` is a directory entry that is not excluded
  and does not name the destination itself, and no later entry names the same path or a path above it — later
  entries *beneath* it are welcome, that is what a directory is for — then afterwards the path names a
  directory with `e`'s mode bits, `e`'s (clamped) modification time and the translated or overriding owner.

  The time is the interesting part: creating the later entries beneath the directory changes its mtime, and
  the extractor repairs that in a deferred pass after the last entry.  The proof follows the deferred list
  through the fold (`loopRun_dirs_shape`), shows that the remaining entries leave everything but the time of
  the directory alone (`Framed.inode_out`, with "a directory has one name" from the invariant), and that the
  pass sets the time from the last entry for this path and that no other element of the list reaches this
  inode (`dirTimes_hit`, `dirTimes_avoid`).
-/
namespace GA.C05
open GA

theorem erase_fields {a b : Inode} (h : eraseM a = eraseM b) :
    a.kind = b.kind ∧ a.perm = b.perm ∧ a.uid = b.uid ∧ a.gid = b.gid := by
  have h1 := congrArg Inode.kind h
  have h2 := congrArg Inode.perm h
  have h3 := congrArg Inode.uid h
  have h4 := congrArg Inode.gid h
  exact ⟨h1, h2, h3, h4⟩

theorem untar_dir_last_wins (dest : Str) (o : Opts) (pre post : List Entry) (e : Entry) (w : World)
    (habs : isAbs dest = true) (hov : o.overlay = false)
    (hsym : ∀ x ∈ pre ++ e :: post, x.typ ≠ .sym)
    (hw : LW (pathComps (clean dest)) w)
    (hdir : e.typ = .dir)
    (hnx : o.excludes.any (fun x => hasPrefix (clean e.name) x) = false)
    (hne : pathComps (join (clean dest) (clean e.name)) ≠ pathComps (clean dest))
    (hcov : ¬ Cov (touched (clean dest) post) (pathComps (join (clean dest) (clean e.name))))
    (hok : ((untarP dest o (pre ++ e :: post)).run w).1 = .ok) :
    ∃ e' i n, remapE o e = some e' ∧
      ((untarP dest o (pre ++ e :: post)).run w).2.fs.lookup (pathComps (join (clean dest) (clean e.name))) = some i ∧
      ((untarP dest o (pre ++ e :: post)).run w).2.fs.inode i = some n ∧
      n.kind = .dir ∧ n.perm = e.mode &&& 0o7777 ∧ n.mtime = some (boundTime e.mtime) ∧
      (o.noLchown = false → (n.uid, n.gid) = o.chownOpts.getD (e'.uid, e'.gid)) := by
  have hd : CleanAbs (clean dest) := clean_cleanAbs dest habs
  unfold untarP unpackP at hok ⊢
  rw [unpackLoop_run] at hok ⊢
  rw [loopRun_append] at hok ⊢
  have hsymPre : ∀ x ∈ pre, x.typ ≠ .sym := fun x hx => hsym x (by simp [hx])
  have hsymPost : ∀ x ∈ post, x.typ ≠ .sym := fun x hx => hsym x (by simp [hx])
  have hpreF := loopRun_frame _ (clean dest) o hd rfl hov pre [] w hsymPre hw (fun _ h => by cases h)
  cases hpre : loopRun (clean dest) o pre [] w with
  | mk r1 w1 =>
    rw [hpre] at hok hpreF
    cases r1 with
    | error out =>
      exfalso
      simp only at hok
      exact loopRun_error_ne_ok _ _ _ _ _ _ _ hpre hok
    | ok d1 =>
      simp only at hok hpreF ⊢
      have hw1 : LW _ w1 := hpreF.2.1
      have hd1 : DirsOK _ (clean dest) d1 := hpreF.2.2 d1 rfl
      simp only [loopRun] at hok ⊢
      cases hit : (unpackIterP (clean dest) o e d1).run w1 with
      | mk r2 w2 =>
        rw [hit] at hok
        cases r2 with
        | error out =>
          exfalso
          simp only at hok
          have := Prog.All.run _ w1 (iter_error_ne_ok (clean dest) o e d1)
          rw [hit] at this
          exact this out rfl hok
        | ok d2 =>
          simp only at hok ⊢
          obtain ⟨hw2, e', i, n2, hrem, hd2, hl2, hi2, hfin⟩ :=
            iter_dir_post _ (clean dest) o hd rfl hov e d1 w1 hw1 hdir hnx hne d2 w2 hit
          obtain ⟨_, hmode, hmt, _, _⟩ := remapE_fields o e e' hrem
          -- the deferred list holds guarded names only
          have hd2ok : DirsOK (pathComps (clean dest)) (clean dest) d2 := by
            have hl := lex_iter (pathComps (clean dest)) (clean dest) o hd rfl hov e d1 (hsym e (by simp)) hd1
            have := LexSem.run (pathComps (clean dest)) _ _ w1 hl hw1
            rw [hit] at this
            exact this.2.2 d2 rfl
          have hpostF := loopRun_frame _ (clean dest) o hd rfl hov post d2 w2 hsymPost hw2 hd2ok
          cases hpo : loopRun (clean dest) o post d2 w2 with
          | mk r3 w3 =>
            rw [hpo] at hok hpostF
            cases r3 with
            | error out =>
              exfalso
              simp only at hok
              exact loopRun_error_ne_ok _ _ _ _ _ _ _ hpo hok
            | ok d3 =>
              simp only at hok hpostF ⊢
              -- the directory has one name; the remaining entries change at most its time
              have hone : ∀ p, w2.fs.lookup p = some i → p = pathComps (join (clean dest) (clean e.name)) :=
                fun p hp => hw2.inv.dirone _ _ i n2 hp hl2 hi2 hfin.1
              have hout : OutI (touched (clean dest) post) w2.fs i :=
                ⟨⟨_, hl2⟩, fun p hp => by rw [hone p hp]; exact hcov⟩
              have hl3 : w3.fs.lookup (pathComps (join (clean dest) (clean e.name))) = some i := hpostF.1.names_keep _ i hl2 hcov
              have he3 := hpostF.1.inode_out i hout
              rw [hi2] at he3
              obtain ⟨n3, hi3, hen3⟩ : ∃ n3, w3.fs.inode i = some n3 ∧ eraseM n3 = eraseM n2 := by
                cases h : w3.fs.inode i with
                | none => rw [h] at he3; simp at he3
                | some n3 => rw [h] at he3; simp at he3; exact ⟨n3, rfl, he3⟩
              -- the deferred list: what the remaining entries added, then this entry, then the older ones
              obtain ⟨news, hshape, hnews⟩ := loopRun_dirs_shape (clean dest) o post d2 w2 d3 w3 hpo
              have hd3ok : DirsOK (pathComps (clean dest)) (clean dest) d3 := hpostF.2.2 d3 rfl
              have hrev : d3.reverse = d1.reverse ++ ({ e' with name := clean e.name } :: news.reverse) := by
                rw [hshape, hd2]; simp
              rw [hrev] at hok ⊢
              obtain ⟨hoka, hsplit⟩ := dirTimes_append (clean dest) d1.reverse _ w3 hok
              rw [hsplit] at hok ⊢
              have hda : DirsOK (pathComps (clean dest)) (clean dest) d1.reverse := fun x hx => hd1 x (by simpa using hx)
              have hea := dirTimes_erase (pathComps (clean dest)) (clean dest) d1.reverse w3 hpostF.2.1 hda
              have hla : ((dirTimesP (clean dest) d1.reverse).run w3).2.fs.lookup (pathComps (join (clean dest) (clean e.name))) = some i := by
                rw [KeepsNames.run _ _ (keeps_dirTimes (clean dest) d1.reverse)]; exact hl3
              have hia := hea.2 i
              rw [hi3] at hia
              obtain ⟨na, hina, hena⟩ : ∃ na, ((dirTimesP (clean dest) d1.reverse).run w3).2.fs.inode i = some na ∧
                  eraseM na = eraseM n3 := by
                cases h : ((dirTimesP (clean dest) d1.reverse).run w3).2.fs.inode i with
                | none => rw [h] at hia; simp at hia
                | some na => rw [h] at hia; simp at hia; exact ⟨na, rfl, hia⟩
              have hfa := erase_fields (hena.trans hen3)
              have hka : na.kind = .dir := by rw [hfa.1]; exact hfin.1
              have hdb : DirsOK (pathComps (clean dest)) (clean dest) ({ e' with name := clean e.name } :: news.reverse) := by
                intro x hx
                apply hd3ok x
                rw [hshape, hd2]
                rcases List.mem_cons.mp hx with rfl | hx
                · simp
                · simp [List.mem_reverse.mp hx]
              have hav : ∀ x ∈ news.reverse, pathComps (join (clean dest) x.name) ≠ pathComps (join (clean dest) (clean e.name)) := by
                intro x hx heq
                obtain ⟨ex, hex, hxn⟩ := hnews x (List.mem_reverse.mp hx)
                apply hcov
                refine ⟨_, touched_name hex, ?_⟩
                rw [← hxn, heq]
                exact List.prefix_refl _
              have hhit := dirTimes_hit (pathComps (clean dest)) (clean dest) (pathComps (join (clean dest) (clean e.name))) i na hka { e' with name := clean e.name } news.reverse _
                hea.1 hdb rfl hav hla hina hok
              refine ⟨e', i, _, hrem, ?_, hhit, ?_, ?_, ?_, ?_⟩
              · rw [KeepsNames.run _ _ (keeps_dirTimes (clean dest) _)]; exact hla
              · exact hka
              · show na.perm = _
                rw [hfa.2.1, hfin.2.1, hmode]
              · show some (boundTime e'.mtime) = _
                rw [hmt]
              · intro hno
                show (na.uid, na.gid) = _
                rw [hfa.2.2.1, hfa.2.2.2]
                exact hfin.2.2.2 hno


/-! ### non-vacuity: a directory entry followed by an entry beneath it -/

def exDirEntry : Entry := { name := b!"d/", typ := .dir, mode := 0o711, mtime := 1000 }
def exChild : Entry := { name := b!"d/x", typ := .reg, mode := 0o644, mtime := 2000, body := b!"hi", size := 2 }

theorem exDir_ok : ((untarP b!"/w/dest" {} ([] ++ exDirEntry :: [exChild])).run { fs := exFS2 }).1 = .ok := by decide

/-- creating `d/x` touches `d`'s time; at the end `d` has the time and mode of its own entry all the same -/
example : ∃ i n, ((untarP b!"/w/dest" {} ([] ++ exDirEntry :: [exChild])).run { fs := exFS2 }).2.fs.lookup [b!"w", b!"dest", b!"d"] = some i ∧
    ((untarP b!"/w/dest" {} ([] ++ exDirEntry :: [exChild])).run { fs := exFS2 }).2.fs.inode i = some n ∧
    n.kind = .dir ∧ n.perm = 0o711 ∧ n.mtime = some 1000 := by
  have hP : pathComps (join (clean b!"/w/dest") (clean exDirEntry.name)) = [b!"w", b!"dest", b!"d"] := by decide
  have hT : touched (clean b!"/w/dest") [exChild] = [[b!"w", b!"dest", b!"d", b!"x"]] := by decide
  obtain ⟨e', i, n, _, hl, hi, hk, hpm, hmt, _⟩ := untar_dir_last_wins b!"/w/dest" {} [] [exChild] exDirEntry { fs := exFS2 }
    (by decide) rfl (by intro x hx; simp [exDirEntry, exChild] at hx; rcases hx with rfl | rfl <;> simp)
    exFS2_LW rfl (by decide) (by rw [hP]; decide)
    (by rw [hP, hT]; rintro ⟨t, ht, hpre⟩; simp only [List.mem_singleton] at ht; subst ht; exact absurd hpre (by decide))
    exDir_ok
  rw [hP] at hl
  exact ⟨i, n, hl, hi, hk, by rw [hpm]; decide, by rw [hmt]; decide⟩

end GA.C05
