import GA.Proofs.NoBlockUnpack
import GA.Props.C05c
/-
  C19, for the plain extractor on the kernel model: **`Untar` never reaches a blocking open** — for every
  archive without symbolic-link entries, every option set of the default whiteout format and every prior
  world without symbolic links, whatever the tree holds (fifos in the way included).  The three calls that can
  fail to return are `os.RemoveAll` (it opens the parent when the unlink fails with ENOTDIR — D16), the
  open-for-write of a regular-file entry (an existing fifo) and a read of a fifo.  `Unpack` removes only what
  `lstat` has just resolved, opens for writing only where the path is absent or unresolvable, and reads no
  file.
-/
namespace GA.C19
open GA

theorem unpackLoop_noblock (dp : Path) (dest : Str) (o : Opts) (hd : CleanAbs dest) (hdp : pathComps dest = dp)
    (hov : o.overlay = false) : ∀ (es dirs : List Entry) (w : World), LW dp w → DirsOK dp dest dirs →
    (∀ e ∈ es, e.typ ≠ .sym) → (unpackLoop dest o es dirs).blocks w = false
  | [], dirs, w, _, _, _ => by
    simp only [unpackLoop]
    exact NB.blocks _ _ (nb_dirTimes dest _)
  | e :: es, dirs, w, hw, hdirs, hsym => by
    have hes : e.typ ≠ .sym := hsym e (by simp)
    rw [unpackLoop_cons, blocks_bind, iter_noblock dp dest o hd hdp hov e dirs w hw hes, Bool.false_or]
    have hl := LexSem.run dp _ _ w (lex_iter dp dest o hd hdp hov e dirs hes hdirs) hw
    cases hr : (unpackIterP dest o e dirs).run w with
    | mk r w' =>
      rw [hr] at hl
      cases r with
      | error out => rfl
      | ok d =>
        simp only [iterK]
        exact unpackLoop_noblock dp dest o hd hdp hov es d w' hl.2.1 (hl.2.2 d rfl) (fun x hx => hsym x (by simp [hx]))

/-- **the plain `Untar` never blocks** in a world without symbolic links -/
theorem untar_never_blocks (dest : Str) (o : Opts) (es : List Entry) (w : World)
    (habs : isAbs dest = true) (hov : o.overlay = false) (hsym : ∀ e ∈ es, e.typ ≠ .sym)
    (hw : LW (pathComps (clean dest)) w) : (untarP dest o es).blocks w = false := by
  unfold untarP unpackP
  exact unpackLoop_noblock _ (clean dest) o (clean_cleanAbs dest habs) rfl hov es [] w hw (fun _ h => by cases h) hsym

end GA.C19
