import GA.M.Unpack
import GA.Proofs.RAll
import GA.Props.C06
/-
  C05 — extraction result equals the last-entry-wins merge model (mechanism-level clauses that
  hold for every filesystem).  The reference model the property names is the mechanism model
  itself (`unpackP`), which the extract stream compares with the real code on the whole world
  tree; a separate lexical `mergeSpec` with a refinement proof is not provided (see DESIGN).
-/
namespace GA.C05
open GA GA.C06

/-- **PAX global headers produce nothing** -/
theorem xglobal_produces_nothing (dest : Str) (o : Opts) (e : Entry) (es dirs : List Entry) (h : e.typ = .xglobal) :
    unpackLoop dest o (e :: es) dirs = unpackLoop dest o es dirs := by
  simp [unpackLoop, h]

/-- **excluded name prefixes produce nothing** -/
theorem excluded_produces_nothing (dest : Str) (o : Opts) (e : Entry) (es dirs : List Entry) (h : e.typ ≠ .xglobal)
    (hx : o.excludes.any (fun x => hasPrefix (clean e.name) x) = true) :
    unpackLoop dest o (e :: es) dirs = unpackLoop dest o es dirs := by
  have : (e.typ == Typ.xglobal) = false := by simpa using h
  simp [unpackLoop, this, hx]

/-- **times are clamped into the representable range** -/
theorem clamp_range (t : Int) : minT ≤ boundTime t ∧ boundTime t ≤ maxT := by
  unfold boundTime minT maxT
  split
  · omega
  · omega

theorem clamp_identity (t : Int) (h1 : 0 ≤ t) (h2 : t ≤ 9223372036) : boundTime t = t := by
  unfold boundTime minT maxT
  split
  · omega
  · rfl

/-- the regenerated constants behind implied directories -/
theorem implied_directory_mode : impliedMode = 0o755 := by decide

/-- **an escaping entry name is refused before any system call is issued for it**: the loop returns
    the breakout outcome and the world is what the previous entries left -/
theorem escaping_name_no_effect (dest : Str) (o : Opts) (e : Entry) (es dirs : List Entry) (w : World) (out : Out)
    (h : e.typ ≠ .xglobal) (hx : o.excludes.any (fun x => hasPrefix (clean e.name) x) = false)
    (hg : guardName dest (clean e.name) = .error out) :
    (unpackLoop dest o (e :: es) dirs).run w = (out, w) := by
  have : (e.typ == Typ.xglobal) = false := by simpa using h
  simp [unpackLoop, this, hx, hg, Prog.run, pure]

/-- the same in layer apply: nothing but the running size changes -/
theorem escaping_name_no_effect_layer (dest : Str) (o : Opts) (e : Entry) (es : List Entry) (st : LState) (w : World)
    (out : Out) (hx : e.typ ≠ .xglobal) (hm : hasPrefix (clean e.name) whMetaPrefix = false)
    (hg : guardName dest (clean e.name) = .error out) (ht : st.tmp = []) :
    ((layerLoop dest o (e :: es) st).run w).2 = w ∧ ((layerLoop dest o (e :: es) st).run w).1.1 = out := by
  have hs : (hasPrefix (clean e.name) whMetaPrefix && hasPrefix (clean e.name) whLinkDir && e.typ == Typ.reg) = false := by
    simp [hm]
  have hxg : (e.typ == Typ.xglobal) = false := by simpa using hx
  simp only [layerLoop, hxg, stageP, hs, Bool.false_eq_true, if_false]
  show ((Prog.bind (Prog.ret _) _).run w).2 = w ∧ _
  simp only [Prog.bind, hm, Bool.false_and, Bool.false_eq_true, if_false, hg, layerFinish, ht, ne_eq, not_true_eq_false]
  simp [Prog.run, bind, Prog.bind, pure]


/-! ### the replace-or-merge decision is the code's (regenerated from `Unpack` on every run) -/

/-- the model's decision about an object that already exists at the entry's path is, case by case, the
    if-chain the extractor reads out of `Unpack`'s source -/
theorem actOf_is_generated (o : Opts) (s : StatInfo) (e : Entry) (self : Bool) :
    ∃ f, Facts.unpackDecision? = some f ∧
      actOf o (.stat s) e self = f o.noOverwriteDirNonDir (s.kind == .dir) (e.typ == .dir) self := by
  refine ⟨_, rfl, ?_⟩
  unfold actOf
  cases o.noOverwriteDirNonDir <;> cases hk : (s.kind == Kind.dir) <;> cases ht : (e.typ == Typ.dir) <;> cases self <;>
    simp_all

/-- and nothing is removed, skipped or refused when `lstat` finds nothing -/
theorem actOf_absent (o : Opts) (e : Entry) (self : Bool) (r : Res) (h : ∀ s, r ≠ .stat s) : actOf o r e self = 0 := by
  unfold actOf
  split
  · rename_i s; exact absurd rfl (h s)
  · rfl

end GA.C05
