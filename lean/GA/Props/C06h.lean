import GA.Proofs.LayerOpaque
import GA.Proofs.LayerDir
import GA.Props.C05e
import GA.Props.C06e
/-
  C06, the opaque-marker clause for what the layer itself provides: **a file the layer put into `D` survives a
  later opaque marker for `D` in the same layer**.  For every layer `pre ++ f :: (mid ++ m :: post)` without
  symbolic-link entries, every option set and every prior symlink-free world: if `ApplyLayer` reports success, `f`
  is a regular-file entry for a direct child `D/x` of the directory `D` whose opaque marker `m` comes later, and
  nothing between or after them names `D/x` (or a path above or beneath it, or a whiteout for it, or a link to it),
  then after the apply `D/x` is a regular file with `f`'s content, mode bits and owner.

  Together with `layer_reg_last_wins` (the marker *before* the file: the marker is part of `pre`, which that
  theorem does not restrict) this is the "same final result wherever the marker appears" clause for the entries the
  layer provides directly in the marker's directory.  (Deeper paths need every directory in between to have an
  entry of its own — the hypothesis of `iter_opaque_kept`, and what finding D7 is about.)
-/
namespace GA.C06
open GA

theorem data_of_erase {a b : Inode} (h : eraseM a = eraseM b) : a.data = b.data := by
  have := congrArg Inode.data h
  exact this

theorem layer_reg_survives_opaque (dest : Str) (o : Opts) (pre mid post : List Entry) (f m : Entry) (um : Nat) (w : World)
    (habs : isAbs dest = true)
    (hsym : ∀ x ∈ pre ++ f :: (mid ++ m :: post), x.typ ≠ .sym)
    (hw : LW (pathComps (clean dest)) w)
    -- `f`: an ordinary regular-file entry
    (hreg : f.typ = .reg)
    (hmeta : hasPrefix (clean f.name) whMetaPrefix = false)
    (hnwh : hasPrefix (base (join (clean dest) (clean f.name))) whPrefix = false)
    (hne : pathComps (join (clean dest) (clean f.name)) ≠ pathComps (clean dest))
    -- `m`: an opaque marker for the directory `f`'s path is a direct child of
    (hx : m.typ ≠ .xglobal)
    (hstage : (hasPrefix (clean m.name) whMetaPrefix && hasPrefix (clean m.name) whLinkDir && m.typ == .reg) = false)
    (hskip : (hasPrefix (clean m.name) whMetaPrefix && decide (clean m.name ≠ whOpaqueDir)) = false)
    (hop : base (join (clean dest) (clean m.name)) = whOpaqueDir)
    (hchild : (pathComps (join (clean dest) (clean f.name))).dropLast = pathComps (dir (join (clean dest) (clean m.name))))
    (hself : ¬ pathComps (join (clean dest) (clean m.name)) <+: pathComps (join (clean dest) (clean f.name)))
    -- nothing in between or afterwards disturbs the file's path
    (hcovM : ¬ Cov (touchedL (clean dest) mid) (pathComps (join (clean dest) (clean f.name))))
    (hancM : ¬ Anc (touchedL (clean dest) mid) (pathComps (join (clean dest) (clean f.name))))
    (hcovP : ¬ Cov (touchedL (clean dest) post) (pathComps (join (clean dest) (clean f.name))))
    (hancP : ¬ Anc (touchedL (clean dest) post) (pathComps (join (clean dest) (clean f.name))))
    (hok : ((applyLayerP dest o (pre ++ f :: (mid ++ m :: post)) um).run w).1.1 = .ok) :
    ∃ e' i n, remapE o f = some e' ∧
      ((applyLayerP dest o (pre ++ f :: (mid ++ m :: post)) um).run w).2.fs.lookup (pathComps (join (clean dest) (clean f.name))) = some i ∧
      ((applyLayerP dest o (pre ++ f :: (mid ++ m :: post)) um).run w).2.fs.inode i = some n ∧
      n.kind = .reg ∧ n.data = f.body ∧ n.perm = f.mode &&& 0o7777 ∧
      (o.noLchown = false → (n.uid, n.gid) = o.chownOpts.getD (e'.uid, e'.gid)) := by
  have hd : CleanAbs (clean dest) := clean_cleanAbs dest habs
  obtain ⟨hr1, hr2⟩ := applyLayer_run dest o (pre ++ f :: (mid ++ m :: post)) um w
  rw [hr1] at hok
  rw [hr2]
  have hw0 : LW (pathComps (clean dest)) (step w (.setUmask 0)).2 :=
    (step_good _ w (.setUmask 0) hw (good_lex (s := .setUmask 0) trivial)).2
  generalize (step w (.setUmask 0)).2 = w0 at hok hw0 ⊢
  unfold unpackLayerP at hok ⊢
  rw [layerLoop_run] at hok ⊢
  rw [layerRun_append] at hok ⊢
  have hsymPre : ∀ x ∈ pre, x.typ ≠ .sym := fun x hx => hsym x (by simp [hx])
  have hsymMid : ∀ x ∈ mid, x.typ ≠ .sym := fun x hx => hsym x (by simp [hx])
  have hsymPost : ∀ x ∈ post, x.typ ≠ .sym := fun x hx => hsym x (by simp [hx])
  have hsymF : f.typ ≠ .sym := hsym f (by simp)
  have hsymM : m.typ ≠ .sym := hsym m (by simp)
  have hL0 : LStOK (pathComps (clean dest)) (clean dest) {} := ⟨by simp, Or.inl rfl, by simp⟩
  have hF0 : FSt0 (clean dest) {} := ⟨Or.inl rfl, by simp⟩
  have hsubM : ∀ t ∈ touchedIs (clean dest) mid, t ∈ touchedL (clean dest) mid := touchedIs_sub _ _
  have hsubP : ∀ t ∈ touchedIs (clean dest) post, t ∈ touchedL (clean dest) post := touchedIs_sub _ _
  have htmpsub : ∀ t ∈ [pathComps (join (clean dest) tmpName)], t ∈ touchedL (clean dest) post := by
    intro t ht; simp only [List.mem_singleton] at ht; subst ht; simp [touchedL]
  have hpreF := layerRun_frame _ (clean dest) o hd rfl pre {} w0 hsymPre hw0 hL0 hF0
  cases hpre : layerRun (clean dest) o pre {} w0 with
  | mk r1 w1 =>
    rw [hpre] at hok hpreF
    cases r1 with
    | error x =>
      exfalso
      obtain ⟨out, st'⟩ := x
      simp only at hok
      rw [layerFinish_out] at hok
      exact layerRun_error_ne_ok _ _ _ _ _ _ _ _ hpre hok
    | ok s1 =>
      simp only [resSt] at hok hpreF ⊢
      have hw1 : LW _ w1 := hpreF.2.1
      simp only [layerRun] at hok ⊢
      -- the iteration of `f`
      have hlI := lex_iterL _ (clean dest) o hd rfl f s1 hsymF hpreF.2.2.1
      have hfI := fr_iterL (pathComps (clean dest)) (touchedI (clean dest) f) w1.fs (clean dest) o hd f s1
        hsymF (by simp [touchedI]) (fun x hx => by simp [touchedI, hx]) hpreF.2.2.2
      have h1 := FrSem.run _ (touchedI (clean dest) f) w1.fs hw1.inv.fresh _ _ _ w1 hlI hfI hw1 (Framed.refl _ _)
      have h2 := LexSem.run _ _ _ w1 hlI hw1
      cases hit : (layerIterP (clean dest) o f s1).run w1 with
      | mk r2 w2 =>
        rw [hit] at hok h1 h2
        cases r2 with
        | error x =>
          exfalso
          obtain ⟨out, st'⟩ := x
          simp only at hok
          rw [layerFinish_out] at hok
          have := Prog.All.run _ w1 (layerIter_error_ne_ok (clean dest) o f s1)
          rw [hit] at this
          exact this out st' rfl hok
        | ok s2 =>
          simp only [resSt] at hok h1 h2 ⊢
          obtain ⟨⟨_, hunp⟩, hw2, e', i, n, hrem, hl2, huniq, hi2, hfin⟩ :=
            iterL_reg_post _ (clean dest) o hd rfl f s1 w1 hw1 hreg hmeta hnwh hne s2 w2 hit
          have hk2 : Kept (pathComps (join (clean dest) (clean f.name))) i n w2 := ⟨hl2, huniq, by rw [hi2]; rfl⟩
          -- the entries in between
          rw [layerRun_append] at hok ⊢
          have hmidF := layerRun_frame _ (clean dest) o hd rfl mid s2 w2 hsymMid hw2 h2.2.2 h1.2
          cases hmi : layerRun (clean dest) o mid s2 w2 with
          | mk r3 w3 =>
            rw [hmi] at hok hmidF
            cases r3 with
            | error x =>
              exfalso
              obtain ⟨out, st'⟩ := x
              simp only at hok
              rw [layerFinish_out] at hok
              exact layerRun_error_ne_ok _ _ _ _ _ _ _ _ hmi hok
            | ok s3 =>
              simp only [resSt] at hok hmidF ⊢
              have hk3 : Kept _ i n w3 := hk2.framed hmidF.1 (fun h => hcovM (cov_mono hsubM h))
              have hunp3 : join (clean dest) (clean f.name) ∈ s3.unpacked :=
                layerRun_unpacked_mono (clean dest) o mid s2 w2 s3 w3 hmi _ (by rw [hunp]; simp)
              -- the marker
              simp only [layerRun] at hok ⊢
              have hlM := lex_iterL _ (clean dest) o hd rfl m s3 hsymM hmidF.2.2.1
              have hfM := fr_iterL (pathComps (clean dest)) (touchedI (clean dest) m) w3.fs (clean dest) o hd m s3
                hsymM (by simp [touchedI]) (fun x hx => by simp [touchedI, hx]) hmidF.2.2.2
              have h1M := FrSem.run _ (touchedI (clean dest) m) w3.fs hmidF.2.1.inv.fresh _ _ _ w3 hlM hfM hmidF.2.1 (Framed.refl _ _)
              have h2M := LexSem.run _ _ _ w3 hlM hmidF.2.1
              cases hitM : (layerIterP (clean dest) o m s3).run w3 with
              | mk r4 w4 =>
                rw [hitM] at hok h1M h2M
                cases r4 with
                | error x =>
                  exfalso
                  obtain ⟨out, st'⟩ := x
                  simp only at hok
                  rw [layerFinish_out] at hok
                  have := Prog.All.run _ w3 (layerIter_error_ne_ok (clean dest) o m s3)
                  rw [hitM] at this
                  exact this out st' rfl hok
                | ok s4 =>
                  simp only [resSt] at hok h1M h2M ⊢
                  have hpfc : CleanAbs (join (clean dest) (clean f.name)) := join_cleanAbs _ _ hd
                  have hsafe : ∀ s, CleanAbs s → pathComps (dir (join (clean dest) (clean m.name))) <+: pathComps s →
                      s ≠ dir (join (clean dest) (clean m.name)) → pathComps s <+: pathComps (join (clean dest) (clean f.name)) →
                      s3.unpacked.contains s = true := by
                    intro s hs hDs hne' hsP
                    have hDc : CleanAbs (dir (join (clean dest) (clean m.name))) := (dir_cleanAbs (join_cleanAbs _ _ hd)).1
                    -- between `D` and its direct child there is only the child
                    have hcomps : pathComps s = pathComps (join (clean dest) (clean f.name)) := by
                      have hDlen : (pathComps (dir (join (clean dest) (clean m.name)))).length =
                          (pathComps (join (clean dest) (clean f.name))).length - 1 := by
                        rw [← hchild]; simp
                      have h1 := hDs.length_le
                      have h2 := hsP.length_le
                      by_cases hlen : (pathComps s).length = (pathComps (join (clean dest) (clean f.name))).length
                      · exact hsP.eq_of_length hlen
                      · exfalso
                        have hl' : (pathComps (dir (join (clean dest) (clean m.name)))).length = (pathComps s).length := by omega
                        apply hne'
                        exact cleanAbs_eq_of_comps hs hDc (hDs.eq_of_length hl').symm
                    have : s = join (clean dest) (clean f.name) := cleanAbs_eq_of_comps hs hpfc hcomps
                    rw [this]
                    exact List.contains_iff_mem.mpr hunp3
                  obtain ⟨hw4, hk4⟩ := iter_opaque_kept _ (clean dest) o hd rfl m s3 w3 hmidF.2.1 hx hstage hskip hop
                    _ i n hk3 hself hsafe s4 w4 hitM
                  -- the rest of the layer
                  have hpostF := layerRun_frame _ (clean dest) o hd rfl post s4 w4 hsymPost hw4 h2M.2.2 h1M.2
                  cases hpo : layerRun (clean dest) o post s4 w4 with
                  | mk r5 w5 =>
                    rw [hpo] at hok hpostF
                    cases r5 with
                    | error x =>
                      exfalso
                      obtain ⟨out, st'⟩ := x
                      simp only at hok
                      rw [layerFinish_out] at hok
                      exact layerRun_error_ne_ok _ _ _ _ _ _ _ _ hpo hok
                    | ok s5 =>
                      simp only [resSt] at hpostF ⊢
                      have hk5 : Kept _ i n w5 := hk4.framed hpostF.1 (fun h => hcovP (cov_mono hsubP h))
                      obtain ⟨n5, hi5, hen5⟩ : ∃ n5, w5.fs.inode i = some n5 ∧ eraseM n5 = eraseM n := by
                        have := hk5.2.2
                        cases h : w5.fs.inode i with
                        | none => rw [h] at this; simp at this
                        | some n5 => rw [h] at this; simp at this; exact ⟨n5, rfl, this⟩
                      have hf5 := C05.erase_fields hen5
                      have hk : n5.kind ≠ .dir := by rw [hf5.1, hfin.1]; intro h; cases h
                      obtain ⟨hl6, hi6⟩ := layerEnd_quiet _ (clean dest) o hd rfl s5 w5 hpostF.2.1 hpostF.2.2.1 hpostF.2.2.2
                        i n5 _ hk5.1 hi5 hk hk5.2.1 (fun h => hcovP (cov_mono htmpsub h)) (fun h => hancP (anc_mono htmpsub h))
                      obtain ⟨_, hmode, _, hbody, _⟩ := remapE_fields o f e' hrem
                      refine ⟨e', i, n5, hrem, hl6, hi6, by rw [hf5.1]; exact hfin.1, ?_, ?_, ?_⟩
                      · rw [data_of_erase hen5, hfin.2.1, hbody]
                      · rw [hf5.2.1, hfin.2.2.1, hmode]
                      · intro hno
                        rw [hf5.2.2.1, hf5.2.2.2]
                        exact hfin.2.2.2.2 hno

/-! ### non-vacuity: `d/`, `d/x`, then the marker `d/.wh..wh..opq` (over a tree in which `d` does not exist) -/

def exHD : Entry := { name := b!"d/", typ := .dir, mode := 0o711, mtime := 1000 }
def exHX : Entry := { name := b!"d/x", typ := .reg, mode := 0o644, mtime := 2000, body := b!"hi", size := 2 }
def exOpq : Entry := { name := b!"d/.wh..wh..opq", typ := .reg }

theorem exOpq_ok : ((applyLayerP b!"/w/dest" {} ([exHD] ++ exHX :: ([] ++ exOpq :: [])) 0o022).run { fs := C05.exFS2 }).1.1 = .ok := by
  decide

/-- the file the layer provided is still there after the marker that follows it -/
example : ∃ i n, ((applyLayerP b!"/w/dest" {} ([exHD] ++ exHX :: ([] ++ exOpq :: [])) 0o022).run { fs := C05.exFS2 }).2.fs.lookup
      [b!"w", b!"dest", b!"d", b!"x"] = some i ∧
    ((applyLayerP b!"/w/dest" {} ([exHD] ++ exHX :: ([] ++ exOpq :: [])) 0o022).run { fs := C05.exFS2 }).2.fs.inode i = some n ∧
    n.kind = .reg ∧ n.data = b!"hi" := by
  have hP : pathComps (join (clean b!"/w/dest") (clean exHX.name)) = [b!"w", b!"dest", b!"d", b!"x"] := by decide
  have hT : touchedL (clean b!"/w/dest") [] = [[b!"w", b!"dest", tmpName]] := by decide
  have hno : ¬ Cov [[b!"w", b!"dest", tmpName]] [b!"w", b!"dest", b!"d", b!"x"] := by
    rintro ⟨t, ht, hp⟩; simp only [List.mem_singleton] at ht; subst ht; exact absurd hp (by decide)
  have hna : ¬ Anc [[b!"w", b!"dest", tmpName]] [b!"w", b!"dest", b!"d", b!"x"] := by
    rintro ⟨t, ht, hp⟩; simp only [List.mem_singleton] at ht; subst ht; exact absurd hp (by decide)
  obtain ⟨e', i, n, _, hl, hi, hk, hdt, _⟩ := layer_reg_survives_opaque b!"/w/dest" {} [exHD] [] [] exHX exOpq 0o022
    { fs := C05.exFS2 } (by decide)
    (by intro x hx; simp [exHD, exHX, exOpq] at hx; rcases hx with rfl | rfl | rfl <;> simp)
    C05.exFS2_LW rfl (by decide) (by decide) (by rw [hP]; decide)
    (by decide) (by decide) (by decide) (by decide) (by decide) (by rw [hP]; decide)
    (by rw [hP, hT]; exact hno) (by rw [hP, hT]; exact hna) (by rw [hP, hT]; exact hno) (by rw [hP, hT]; exact hna)
    exOpq_ok
  rw [hP] at hl
  exact ⟨i, n, hl, hi, hk, hdt⟩

end GA.C06
