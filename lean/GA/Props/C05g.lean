import GA.Proofs.UnpackNode
import GA.Props.C05f
/-
  C05, hard links in whole archives: **hard-link entries share an inode with their target**.  For every archive
  `pre ++ e :: post` without symbolic-link entries (default whiteout format, symlink-free prior world): if the
  plain `Untar` reports success, `e` is a hard-link entry that is not excluded and does not name the destination
  itself, and no later entry names the link's path or the link's source, or a path above either, then at the
  end the two paths name one and the same inode.
-/
namespace GA

/-- **one hard-link iteration**: if the loop goes on after a hard-link entry that is not excluded and does not
    name the destination itself, the entry's path and `Join(destination, Linkname)` name one inode, and the
    deferred list is unchanged -/
theorem iter_link_post (dp : Path) (dest : Str) (o : Opts) (hd : CleanAbs dest) (hdp : pathComps dest = dp)
    (hov : o.overlay = false) (e : Entry) (dirs : List Entry) (w : World) (hw : LW dp w) (hlink : e.typ = .link)
    (hnx : o.excludes.any (fun x => hasPrefix (clean e.name) x) = false)
    (hne : pathComps (join dest (clean e.name)) ≠ dp)
    (d' : List Entry) (w' : World) (hrun : (unpackIterP dest o e dirs).run w = (.ok d', w')) :
    d' = dirs ∧ LW dp w' ∧ ∃ i,
      w'.fs.lookup (pathComps (join dest (clean e.name))) = some i ∧
      w'.fs.lookup (pathComps (join dest e.linkname)) = some i := by
  simp only [unpackIterP, hlink, hnx] at hrun
  simp only [show (Typ.link == Typ.xglobal) = false from rfl, Bool.false_eq_true, if_false] at hrun
  cases hg : guardName dest (clean e.name) with
  | error out => rw [hg] at hrun; simp only [Prog.run, pure] at hrun; cases hrun
  | ok p =>
    rw [hg] at hrun
    simp only at hrun
    obtain ⟨hpe, hpc, hpin⟩ := guardName_ok dest (clean e.name) p hd hg
    rw [hdp] at hpin
    have hp : LexArg dp p := lexArg_of hpc hpin
    have hin' : dp <+: pathComps (join dest (clean e.name)) := by rw [← hpe]; exact hpin
    have hpne : pathComps p ≠ dp := by rw [hpe]; exact hne
    rw [← hpe]
    rw [Prog.bind_eq, Prog.run_bind] at hrun
    have hI := LexSem.run dp _ _ w (lex_impliedDirs dp dest e.name o hd hdp hin') hw
    generalize hi1 : (impliedDirsP dest (clean e.name) o).run w = r1 at hrun hI
    obtain ⟨i1, w1⟩ := r1
    simp only at hrun hI
    have hw1 : LW dp w1 := hI.2.1
    by_cases hie : isErr i1 = true
    · simp only [hie, if_true, Prog.run, pure] at hrun; cases hrun
    · simp only [hie, Bool.false_eq_true, if_false] at hrun
      rw [run_sys_bind, lstat_world] at hrun
      generalize hL : (step w1 (Sys.lstat p)).1 = L at hrun
      by_cases ha1 : actOf o L e (p == clean dest) = 1
      · simp only [ha1, if_true, Prog.run, pure] at hrun; cases hrun
      · simp only [ha1, if_false] at hrun
        by_cases ha2 : actOf o L e (p == clean dest) = 2
        · exfalso
          have hself := actOf_two o L e _ ha2
          have hpeq : p = dest := by
            rw [clean_of_cleanAbs dest hd] at hself
            simpa using hself
          exact hpne (by rw [hpeq, hdp])
        · simp only [ha2, if_false] at hrun
          rw [Prog.bind_eq, Prog.run_bind] at hrun
          have hmid : ∃ rm w2, (if actOf o L e (p == clean dest) = 3 then sys (Sys.removeAll p) else pure Res.ok).run w1 = (rm, w2) ∧
              LW dp w2 := by
            by_cases ha3 : actOf o L e (p == clean dest) = 3
            · simp only [ha3, if_true]
              exact ⟨_, _, rfl, (step_good dp w1 (.removeAll p) hw1 (good_lex (s := .removeAll p) ⟨hp, hpne⟩)).2⟩
            · simp only [ha3, if_false]
              exact ⟨.ok, w1, rfl, hw1⟩
          obtain ⟨rm, w2, hrm, hw2⟩ := hmid
          rw [hrm] at hrun
          simp only at hrun
          by_cases hre : isErr rm = true
          · simp only [hre, if_true, Prog.run, pure] at hrun; cases hrun
          · simp only [hre, Bool.false_eq_true, if_false] at hrun
            cases hrem : remapE o e with
            | none => rw [hrem] at hrun; simp only [Prog.run, pure] at hrun; cases hrun
            | some e' =>
              rw [hrem] at hrun
              simp only [hov, Bool.false_eq_true, if_false] at hrun
              have hty : e'.typ = .link := by rw [remapE_typ o e e' hrem]; exact hlink
              have hln : e'.linkname = e.linkname := by
                unfold remapE at hrem
                cases hh : toHostPair o e.uid e.gid with
                | none => rw [hh] at hrem; cases hrem
                | some pr => rw [hh] at hrem; simp at hrem; rw [← hrem]
              rw [Prog.bind_eq, Prog.run_bind] at hrun
              simp only [Prog.run, pure] at hrun
              rw [Prog.bind_eq, Prog.run_bind] at hrun
              have hdd : (Typ.link == Typ.dir) = false := rfl
              simp only [hdd, Bool.false_eq_true, if_false] at hrun
              by_cases hout : ((createTarFileP p dest e' o).run w2).1 = .ok
              · simp only [hout, show (Out.ok != Out.ok) = false from rfl, Bool.false_eq_true, if_false, Prog.run] at hrun
                injection hrun with h1 h2
                injection h1 with h1
                subst h2
                obtain ⟨hw3, i, hl1, hl2⟩ := createTarFile_link_shares dp p dest e' o hp hd hdp hty w2 hw2 hout
                rw [hln] at hl2
                exact ⟨h1.symm, hw3, i, hl1, hl2⟩
              · exfalso
                cases hout' : ((createTarFileP p dest e' o).run w2).1 with
                | ok => exact hout hout'
                | err => simp only [hout', show (Out.err != Out.ok) = true from rfl, if_true, Prog.run] at hrun; cases hrun
                | breakout => simp only [hout', show (Out.breakout != Out.ok) = true from rfl, if_true, Prog.run] at hrun; cases hrun


end GA

namespace GA.C05
open GA

theorem untar_link_shares (dest : Str) (o : Opts) (pre post : List Entry) (e : Entry) (w : World)
    (habs : isAbs dest = true) (hov : o.overlay = false)
    (hsym : ∀ x ∈ pre ++ e :: post, x.typ ≠ .sym)
    (hw : LW (pathComps (clean dest)) w)
    (hlink : e.typ = .link)
    (hnx : o.excludes.any (fun x => hasPrefix (clean e.name) x) = false)
    (hne : pathComps (join (clean dest) (clean e.name)) ≠ pathComps (clean dest))
    (hcov : ¬ Cov (touched (clean dest) post) (pathComps (join (clean dest) (clean e.name))))
    (hcovS : ¬ Cov (touched (clean dest) post) (pathComps (join (clean dest) e.linkname)))
    (hok : ((untarP dest o (pre ++ e :: post)).run w).1 = .ok) :
    ∃ i,
      ((untarP dest o (pre ++ e :: post)).run w).2.fs.lookup (pathComps (join (clean dest) (clean e.name))) = some i ∧
      ((untarP dest o (pre ++ e :: post)).run w).2.fs.lookup (pathComps (join (clean dest) e.linkname)) = some i := by
  have hd : CleanAbs (clean dest) := clean_cleanAbs dest habs
  unfold untarP unpackP at hok ⊢
  rw [unpackLoop_run] at hok ⊢
  rw [loopRun_append] at hok ⊢
  have hsymPre : ∀ x ∈ pre, x.typ ≠ .sym := fun x hx => hsym x (by simp [hx])
  have hsymPost : ∀ x ∈ post, x.typ ≠ .sym := fun x hx => hsym x (by simp [hx])
  have hpreF := loopRun_frame _ (clean dest) o hd rfl hov pre [] w hsymPre hw (fun _ h => by cases h)
  cases hpre : loopRun (clean dest) o pre [] w with
  | mk r1 w1 =>
    rw [hpre] at hok hpreF
    cases r1 with
    | error out =>
      exfalso
      simp only at hok
      exact loopRun_error_ne_ok _ _ _ _ _ _ _ hpre hok
    | ok d1 =>
      simp only at hok hpreF ⊢
      have hw1 : LW _ w1 := hpreF.2.1
      have hd1 : DirsOK (pathComps (clean dest)) (clean dest) d1 := hpreF.2.2 d1 rfl
      simp only [loopRun] at hok ⊢
      cases hit : (unpackIterP (clean dest) o e d1).run w1 with
      | mk r2 w2 =>
        rw [hit] at hok
        cases r2 with
        | error out =>
          exfalso
          simp only at hok
          have := Prog.All.run _ w1 (iter_error_ne_ok (clean dest) o e d1)
          rw [hit] at this
          exact this out rfl hok
        | ok d2 =>
          simp only at hok ⊢
          obtain ⟨hd2, hw2, i, hl2, hs2⟩ :=
            iter_link_post _ (clean dest) o hd rfl hov e d1 w1 hw1 hlink hnx hne d2 w2 hit
          subst hd2
          have hpostF := loopRun_frame _ (clean dest) o hd rfl hov post d2 w2 hsymPost hw2 hd1
          cases hpo : loopRun (clean dest) o post d2 w2 with
          | mk r3 w3 =>
            rw [hpo] at hok hpostF
            cases r3 with
            | error out =>
              exfalso
              simp only at hok
              exact loopRun_error_ne_ok _ _ _ _ _ _ _ hpo hok
            | ok d3 =>
              simp only at hok hpostF ⊢
              refine ⟨i, ?_, ?_⟩
              · rw [KeepsNames.run _ _ (keeps_dirTimes (clean dest) d3.reverse)]
                exact hpostF.1.names_keep _ i hl2 hcov
              · rw [KeepsNames.run _ _ (keeps_dirTimes (clean dest) d3.reverse)]
                exact hpostF.1.names_keep _ i hs2 hcovS

end GA.C05
