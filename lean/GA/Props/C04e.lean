import GA.Props.C03d
import GA.Props.C06e
import GA.Props.C06f
/-
  C04, additions and modifications across the export → apply boundary: **any set of directories and regular files
  whose headers `ExportChanges` builds (the packer's `buildHeader`), applied as a layer, is what the destination
  holds afterwards** — each file's content, and for files and directories alike the twelve mode bits, owner,
  group and modification second — for any number of entries in the exporter's order (a directory before what lies
  beneath it), into any symlink-free tree, whatever it held at those paths before.  The layer-side twin of
  `C03.tree_roundtrip`: `buildHeader` composed with `layer_reg_last_wins` and `layer_dir_last_wins`.
-/
namespace GA.C04
open GA GA.C03

/-- an exported entry that is neither a whiteout nor reserved names just its own path -/
theorem touchedOf_plain (dest : Str) (f : FileDesc) (hk : f.st.kind = .reg ∨ f.st.kind = .dir)
    (hmeta : hasPrefix (clean f.entry.name) whMetaPrefix = false)
    (hnwh : hasPrefix (base (join (clean dest) (clean f.entry.name))) whPrefix = false) :
    touchedOf (clean dest) f.entry = [f.path dest] := by
  have hkf : f.entry.typ ≠ .link := by
    rcases hk with h | h <;> simp [FileDesc.entry, buildHeader, h, typOfKind]
  have hopq : base (join (clean dest) (clean f.entry.name)) ≠ whOpaqueDir := by
    intro h
    rw [h] at hnwh
    exact absurd hnwh (by decide)
  unfold touchedOf
  simp only [hkf, if_false, hmeta, Bool.false_and, Bool.false_eq_true, hopq, hnwh, List.append_nil]
  rfl

theorem touchedL_plain (dest : Str) (fs : List FileDesc)
    (h : ∀ f ∈ fs, (f.st.kind = .reg ∨ f.st.kind = .dir) ∧ hasPrefix (clean f.entry.name) whMetaPrefix = false ∧
      hasPrefix (base (join (clean dest) (clean f.entry.name))) whPrefix = false) :
    touchedL (clean dest) (fs.map FileDesc.entry) = pathComps (join (clean dest) tmpName) :: fs.map (FileDesc.path dest) := by
  unfold touchedL
  congr 1
  induction fs with
  | nil => rfl
  | cons f fs ih =>
    obtain ⟨hk, hm, hw⟩ := h f (by simp)
    rw [List.map_cons, List.flatMap_cons, touchedOf_plain dest f hk hm hw, ih (fun x hx => h x (by simp [hx]))]
    rfl

theorem layer_tree_roundtrip (dest : Str) (fs : List FileDesc) (um : Nat) (w : World)
    (habs : isAbs dest = true) (hw : LW (pathComps (clean dest)) w)
    (hnode : ∀ f ∈ fs, (f.st.kind = .reg ∨ f.st.kind = .dir) ∧ f.st.perm < 4096 ∧
      (f.st.kind = .reg → f.st.size = f.data.length) ∧ ∃ t, f.st.mtime = some t ∧ 0 ≤ t ∧ t ≤ 9223372036)
    -- none of the names is reserved or a whiteout, none is the destination or the staging directory (or above it)
    (hplain : ∀ f ∈ fs, hasPrefix (clean f.entry.name) whMetaPrefix = false ∧
      hasPrefix (base (join (clean dest) (clean f.entry.name))) whPrefix = false ∧
      f.path dest ≠ pathComps (clean dest) ∧
      ¬ pathComps (join (clean dest) tmpName) <+: f.path dest ∧ ¬ f.path dest <+: pathComps (join (clean dest) tmpName))
    (hord : fs.Pairwise (fun a b => ¬ b.path dest <+: a.path dest ∧ (a.st.kind = .reg → ¬ a.path dest <+: b.path dest)))
    (hok : ((applyLayerP dest {} (fs.map FileDesc.entry) um).run w).1.1 = .ok) :
    ∀ f ∈ fs, ∃ i n, ((applyLayerP dest {} (fs.map FileDesc.entry) um).run w).2.fs.lookup (f.path dest) = some i ∧
      ((applyLayerP dest {} (fs.map FileDesc.entry) um).run w).2.fs.inode i = some n ∧
      n.kind = f.st.kind ∧ (f.st.kind = .reg → n.data = f.data) ∧ n.perm = f.st.perm ∧ n.uid = f.st.uid ∧
      n.gid = f.st.gid ∧ n.mtime = f.st.mtime := by
  intro f hf
  obtain ⟨pre, post, hsplit⟩ := List.append_of_mem hf
  have hes : fs.map FileDesc.entry = pre.map FileDesc.entry ++ f.entry :: post.map FileDesc.entry := by
    rw [hsplit]; simp
  rw [hes] at hok ⊢
  have hkinds : ∀ x ∈ fs, x.st.kind = .reg ∨ x.st.kind = .dir := fun x hx => (hnode x hx).1
  have hsym : ∀ x ∈ pre.map FileDesc.entry ++ f.entry :: post.map FileDesc.entry, x.typ ≠ .sym := by
    intro x hx
    rw [← hes] at hx
    obtain ⟨g, hg, rfl⟩ := List.mem_map.mp hx
    rcases hkinds g hg with h | h <;> simp [FileDesc.entry, buildHeader, h, typOfKind]
  have hpostT : touchedL (clean dest) (post.map FileDesc.entry) =
      pathComps (join (clean dest) tmpName) :: post.map (FileDesc.path dest) :=
    touchedL_plain dest post (fun x hx => by
      have hx' : x ∈ fs := by rw [hsplit]; simp [hx]
      exact ⟨hkinds x hx', (hplain x hx').1, (hplain x hx').2.1⟩)
  rw [hsplit] at hord
  have hpair : ∀ g ∈ post, ¬ g.path dest <+: f.path dest ∧ (f.st.kind = .reg → ¬ f.path dest <+: g.path dest) := by
    have := (List.pairwise_append.mp hord).2.1
    exact fun g hg => (List.pairwise_cons.mp this).1 g hg
  obtain ⟨hmeta, hnwh, hself, htmp1, htmp2⟩ := hplain f hf
  have hcov : ¬ Cov (touchedL (clean dest) (post.map FileDesc.entry)) (f.path dest) := by
    rw [hpostT]
    rintro ⟨t, ht, hpre⟩
    rcases List.mem_cons.mp ht with rfl | ht
    · exact htmp1 hpre
    · obtain ⟨g, hg, rfl⟩ := List.mem_map.mp ht
      exact (hpair g hg).1 hpre
  obtain ⟨hk, hperm, hsz, t, hmtime, ht0, ht1⟩ := hnode f hf
  have hfields : ∀ (n : Inode), n.perm = f.entry.mode &&& 0o7777 → n.mtime = some (boundTime f.entry.mtime) →
      ((({} : Opts).noLchown = false) → (n.uid, n.gid) = (({} : Opts).chownOpts).getD (f.entry.uid, f.entry.gid)) →
      n.perm = f.st.perm ∧ n.uid = f.st.uid ∧ n.gid = f.st.gid ∧ n.mtime = f.st.mtime := by
    intro n hpm hmt hown
    refine ⟨?_, ?_, ?_, ?_⟩
    · rw [hpm]; simp only [FileDesc.entry, buildHeader]; exact and_4095_of_lt _ hperm
    · have := hown rfl
      simp only [Option.getD_none, FileDesc.entry, buildHeader] at this
      exact (Prod.mk.inj this).1
    · have := hown rfl
      simp only [Option.getD_none, FileDesc.entry, buildHeader] at this
      exact (Prod.mk.inj this).2
    · rw [hmt, hmtime]
      simp only [FileDesc.entry, buildHeader, hmtime, Option.getD_some]
      rw [C05.clamp_identity t ht0 ht1]
  rcases hk with hreg | hdir
  · have hfreg : f.entry.typ = .reg := by simp [FileDesc.entry, buildHeader, hreg, typOfKind]
    have hanc : ¬ Anc (touchedL (clean dest) (post.map FileDesc.entry)) (f.path dest) := by
      rw [hpostT]
      rintro ⟨t, ht, hpre⟩
      rcases List.mem_cons.mp ht with rfl | ht
      · exact htmp2 hpre
      · obtain ⟨g, hg, rfl⟩ := List.mem_map.mp ht
        exact (hpair g hg).2 hreg hpre
    obtain ⟨e', i, n, hrem, hl, hi, hkd, hd, hpm, hmt, hown⟩ :=
      C06.layer_reg_last_wins dest {} (pre.map FileDesc.entry) (post.map FileDesc.entry) f.entry um w habs hsym hw
        hfreg hmeta hnwh hself hcov hanc hok
    rw [remapE_default] at hrem
    cases hrem
    exact ⟨i, n, hl, hi, by rw [hkd, hreg], fun _ => hd, hfields n hpm hmt hown⟩
  · have hfdir : f.entry.typ = .dir := by simp [FileDesc.entry, buildHeader, hdir, typOfKind]
    obtain ⟨e', i, n, hrem, hl, hi, hkd, hpm, hmt, hown⟩ :=
      C06.layer_dir_last_wins dest {} (pre.map FileDesc.entry) (post.map FileDesc.entry) f.entry um w habs hsym hw
        hfdir hmeta hnwh hself hcov hok
    rw [remapE_default] at hrem
    cases hrem
    exact ⟨i, n, hl, hi, by rw [hkd, hdir], (fun h => by rw [hdir] at h; cases h), hfields n hpm hmt hown⟩

/-- non-vacuity: the tree of `C03.exTree` applied as a layer -/
theorem exTree_layer_ok : ((applyLayerP b!"/w/dest" {} (exTree.map FileDesc.entry) 0o022).run { fs := C05.exFS2 }).1.1 = .ok := by
  decide

example : ∃ i n, ((applyLayerP b!"/w/dest" {} (exTree.map FileDesc.entry) 0o022).run { fs := C05.exFS2 }).2.fs.lookup
      [b!"w", b!"dest", b!"srv"] = some i ∧
    ((applyLayerP b!"/w/dest" {} (exTree.map FileDesc.entry) 0o022).run { fs := C05.exFS2 }).2.fs.inode i = some n ∧
    n.kind = .dir ∧ n.perm = 0o2775 ∧ n.mtime = some 500 := by
  have hp : (exTree[0]).path b!"/w/dest" = [b!"w", b!"dest", b!"srv"] := by decide
  obtain ⟨i, n, hl, hi, hk, _, hpm, _, _, hmt⟩ := layer_tree_roundtrip b!"/w/dest" exTree 0o022 { fs := C05.exFS2 } (by decide) C05.exFS2_LW
    (by
      intro f hf; simp [exTree] at hf
      rcases hf with rfl | rfl
      · exact ⟨Or.inr rfl, by decide, (fun h => by cases h), 500, rfl, by decide, by decide⟩
      · exact ⟨Or.inl rfl, by decide, (fun _ => rfl), 1000, rfl, by decide, by decide⟩)
    (by intro f hf; simp [exTree] at hf; rcases hf with rfl | rfl <;> exact ⟨by decide, by decide, by decide, by decide, by decide⟩)
    (by simp only [exTree, List.pairwise_cons]; refine ⟨fun b hb => ?_, ?_⟩
        · simp at hb; subst hb; exact ⟨by decide, (fun h => by cases h)⟩
        · simp)
    exTree_layer_ok (exTree[0]) (List.getElem_mem _)
  rw [hp] at hl
  exact ⟨i, n, hl, hi, hk, hpm, hmt⟩

end GA.C04
