import GA.Proofs.EntryPost
import GA.Proofs.EntryMerge
import GA.Proofs.EntryLink
import GA.Proofs.EntryNode
/-
  C05 / C03 — what one regular-file entry leaves behind.  The statement is about the real sequence of
  system calls `createTarFile` issues (open+write, lchown, lsetxattr…, chmod, utimes) run on the kernel
  model, in a world without symbolic links: whatever the prior tree, the umask, the set-gid bit of the
  parent directory (which decides the group a new file gets) and the attribute list, and whichever of
  the attribute calls are refused with a tolerated error — if the call reports success, the path holds
  exactly the entry.
-/
namespace GA.C05
open GA

/-- **a regular-file entry is reproduced exactly**: content, permission bits (all twelve, including
    set-uid/set-gid/sticky — the chmod comes after the chown that clears them), clamped modification
    time, and owner (header's, or `ChownOpts`) unless `NoLchown` -/
theorem reg_entry_exact (dp : Path) (path xd : Str) (e : Entry) (o : Opts) (w : World)
    (hw : LW dp w) (hp : LexArg dp path) (hreg : e.typ = .reg) (hnew : w.fs.lookup (pathComps path) = none)
    (hok : ((createTarFileP path xd e o).run w).1 = .ok) :
    ∃ i n, ((createTarFileP path xd e o).run w).2.fs.lookup (pathComps path) = some i ∧
      ((createTarFileP path xd e o).run w).2.fs.inode i = some n ∧
      n.kind = .reg ∧ n.data = e.body ∧ n.perm = e.mode &&& 0o7777 ∧ n.mtime = some (boundTime e.mtime) ∧
      (o.noLchown = false → (n.uid, n.gid) = o.chownOpts.getD (e.uid, e.gid)) ∧ e.size ≤ e.body.length := by
  have h := createTarFile_reg_exact dp path xd e o hp hreg w ⟨hw, hnew⟩ hok
  obtain ⟨⟨_, i, n, hl, hi, hk, hd, hpm, hmt, hown⟩, hsz⟩ := h
  exact ⟨i, n, hl, hi, hk, hd, hpm, hmt, hown, hsz⟩

/-- a set-uid, set-gid, sticky mode survives although the ownership change in between clears the
    set-id bits (instance of the theorem above, stated for the reader) -/
theorem reg_entry_keeps_setid (dp : Path) (path xd : Str) (e : Entry) (o : Opts) (w : World)
    (hw : LW dp w) (hp : LexArg dp path) (hreg : e.typ = .reg) (hnew : w.fs.lookup (pathComps path) = none)
    (hmode : e.mode = 0o7755) (hok : ((createTarFileP path xd e o).run w).1 = .ok) :
    ∃ i n, ((createTarFileP path xd e o).run w).2.fs.lookup (pathComps path) = some i ∧
      ((createTarFileP path xd e o).run w).2.fs.inode i = some n ∧ n.perm = 0o7755 := by
  obtain ⟨i, n, hl, hi, _, _, hpm, _⟩ := reg_entry_exact dp path xd e o w hw hp hreg hnew hok
  exact ⟨i, n, hl, hi, by rw [hpm, hmode]; decide⟩

/-- **a directory entry merges onto an existing directory**: if the path names a directory, then after a
    successful `createTarFile` for a directory entry every path resolves to the same inode as before
    (nothing beneath or beside it was created or removed), every other inode is unchanged, and the
    directory itself has the entry's permission bits, clamped time and owner -/
theorem dir_entry_merges (dp : Path) (path xd : Str) (e : Entry) (o : Opts) (w : World)
    (hw : LW dp w) (hp : LexArg dp path) (hdir : e.typ = .dir) (i : Ino) (n0 : Inode)
    (hl : w.fs.lookup (pathComps path) = some i) (hi : w.fs.inode i = some n0) (hk : n0.kind = .dir)
    (hok : ((createTarFileP path xd e o).run w).1 = .ok) :
    (∀ p, ((createTarFileP path xd e o).run w).2.fs.lookup p = w.fs.lookup p) ∧
    (∀ j, j ≠ i → ((createTarFileP path xd e o).run w).2.fs.inode j = w.fs.inode j) ∧
    ∃ n, ((createTarFileP path xd e o).run w).2.fs.inode i = some n ∧ n.kind = .dir ∧
      n.perm = e.mode &&& 0o7777 ∧ n.mtime = some (boundTime e.mtime) ∧
      (o.noLchown = false → (n.uid, n.gid) = o.chownOpts.getD (e.uid, e.gid)) := by
  have h := createTarFile_dir_merges dp path xd e o hp hdir i w w
    ⟨hw, hl, ⟨n0, hi, hk⟩, Frame.refl i w⟩ hok
  obtain ⟨_, _, ⟨n, hn, hf⟩, hfr⟩ := h
  exact ⟨hfr.1, hfr.2, n, hn, hf.1, hf.2.1, hf.2.2.1, hf.2.2.2⟩

/-- **hard-link entries share an inode with their target**: after a successful `createTarFile` for a
    `TypeLink` entry the entry's path and `Join(destination, Linkname)` resolve to one and the same inode -/
theorem link_entry_shares_inode (dp : Path) (path xd : Str) (e : Entry) (o : Opts) (w : World)
    (hw : LW dp w) (hp : LexArg dp path) (hxd : CleanAbs xd) (hdp : pathComps xd = dp) (hlink : e.typ = .link)
    (hok : ((createTarFileP path xd e o).run w).1 = .ok) :
    ∃ i, ((createTarFileP path xd e o).run w).2.fs.lookup (pathComps path) = some i ∧
      ((createTarFileP path xd e o).run w).2.fs.lookup (pathComps (join xd e.linkname)) = some i := by
  obtain ⟨_, i, h1, h2⟩ := createTarFile_link_shares dp path xd e o hp hxd hdp hlink w hw hok
  exact ⟨i, h1, h2⟩

/-- **a device entry is reproduced exactly** (outside a user namespace): node type, device number, all
    twelve permission bits, clamped time and owner -/
theorem dev_entry_exact (dp : Path) (path xd : Str) (e : Entry) (o : Opts) (w : World)
    (hw : LW dp w) (hp : LexArg dp path) (hdev : e.typ = .chr ∨ e.typ = .blk) (huns : o.inUserNS = false)
    (hnew : w.fs.lookup (pathComps path) = none)
    (hok : ((createTarFileP path xd e o).run w).1 = .ok) :
    ∃ i n, ((createTarFileP path xd e o).run w).2.fs.lookup (pathComps path) = some i ∧
      ((createTarFileP path xd e o).run w).2.fs.inode i = some n ∧
      n.kind = kindOfTyp e.typ ∧ n.rdev = (e.devmajor, e.devminor) ∧ n.perm = e.mode &&& 0o7777 ∧
      n.mtime = some (boundTime e.mtime) ∧ (o.noLchown = false → (n.uid, n.gid) = o.chownOpts.getD (e.uid, e.gid)) := by
  obtain ⟨_, i, n, hl, hi, ⟨hk, hr⟩, hpm, hmt, hown⟩ :=
    createTarFile_dev_exact dp path xd e o hp hdev huns w ⟨hw, hnew⟩ hok
  exact ⟨i, n, hl, hi, hk, hr, hpm, hmt, hown⟩

end GA.C05
