import GA.Proofs.EntryPost
/-
  C05 / C03 — what one regular-file entry leaves behind.  The statement is about the real sequence of
  system calls `createTarFile` issues (open+write, lchown, lsetxattr…, chmod, utimes) run on the kernel
  model, in a world without symbolic links: whatever the prior tree, the umask, the set-gid bit of the
  parent directory (which decides the group a new file gets) and the attribute list, and whichever of
  the attribute calls are refused with a tolerated error — if the call reports success, the path holds
  exactly the entry.
-/
namespace GA.C05
open GA

/-- **a regular-file entry is reproduced exactly**: content, permission bits (all twelve, including
    set-uid/set-gid/sticky — the chmod comes after the chown that clears them), clamped modification
    time, and owner (header's, or `ChownOpts`) unless `NoLchown` -/
theorem reg_entry_exact (dp : Path) (path xd : Str) (e : Entry) (o : Opts) (w : World)
    (hw : LW dp w) (hp : LexArg dp path) (hreg : e.typ = .reg) (hnew : w.fs.lookup (pathComps path) = none)
    (hok : ((createTarFileP path xd e o).run w).1 = .ok) :
    ∃ i n, ((createTarFileP path xd e o).run w).2.fs.lookup (pathComps path) = some i ∧
      ((createTarFileP path xd e o).run w).2.fs.inode i = some n ∧
      n.kind = .reg ∧ n.data = e.body ∧ n.perm = e.mode &&& 0o7777 ∧ n.mtime = some (boundTime e.mtime) ∧
      (o.noLchown = false → (n.uid, n.gid) = o.chownOpts.getD (e.uid, e.gid)) ∧ e.size ≤ e.body.length := by
  have h := createTarFile_reg_exact dp path xd e o hp hreg w ⟨hw, hnew⟩ hok
  obtain ⟨⟨_, i, n, hl, hi, hk, hd, hpm, hmt, hown⟩, hsz⟩ := h
  exact ⟨i, n, hl, hi, hk, hd, hpm, hmt, hown, hsz⟩

/-- a set-uid, set-gid, sticky mode survives although the ownership change in between clears the
    set-id bits (instance of the theorem above, stated for the reader) -/
theorem reg_entry_keeps_setid (dp : Path) (path xd : Str) (e : Entry) (o : Opts) (w : World)
    (hw : LW dp w) (hp : LexArg dp path) (hreg : e.typ = .reg) (hnew : w.fs.lookup (pathComps path) = none)
    (hmode : e.mode = 0o7755) (hok : ((createTarFileP path xd e o).run w).1 = .ok) :
    ∃ i n, ((createTarFileP path xd e o).run w).2.fs.lookup (pathComps path) = some i ∧
      ((createTarFileP path xd e o).run w).2.fs.inode i = some n ∧ n.perm = 0o7755 := by
  obtain ⟨i, n, hl, hi, _, _, hpm, _⟩ := reg_entry_exact dp path xd e o w hw hp hreg hnew hok
  exact ⟨i, n, hl, hi, by rw [hpm, hmode]; decide⟩

end GA.C05
