import GA.Props.C10b
/-
  C10 / C09 — "consists of exactly": every path is reported at most once.  `Changes` returns a list, and
  `ExportChanges` writes one tar entry per element, so a path reported twice would appear twice in the
  exported layer (C09: "each path appears at most once").  Proved for the model of `addChanges` for all
  trees whose sibling names are distinct (old and new) and every order of the children lists; the flag
  `marked` (Go: `info.added`) is what keeps a directory that changed itself *and* has a change beneath it
  from being reported twice.
-/
namespace GA.TreeDiff
open GA

/-- no two entries of the list carry the same path -/
def PathsNodup (l : List Change) : Prop := l.Pairwise (fun a b => a.path ≠ b.path)

theorem nodupNames_dropChild (l : List Info) (a : Str) (h : NodupNames l) : NodupNames (dropChild l a) := by
  unfold NodupNames dropChild at *
  exact List.Nodup.sublist (List.Sublist.map _ List.filter_sublist) h

theorem listWF_dropChild : ∀ (l : List Info) (a : Str), listWF l → listWF (dropChild l a)
  | [], _, _ => by simp [dropChild, listWF]
  | c :: cs, a, h => by
    have h' : c.WF ∧ listWF cs := by simpa [listWF] using h
    unfold dropChild
    rw [List.filter_cons]
    split
    · simp only [listWF]; exact ⟨h'.1, listWF_dropChild cs a h'.2⟩
    · exact listWF_dropChild cs a h'.2

theorem kidsOK_of (news : List Info) : NodupNames news → listWF news → KidsOK news := by
  induction news with
  | nil => intro _ _; exact kids_nil
  | cons d ds ih =>
    intro h1 h2
    have h1' : d.name ∉ ds.map Info.name ∧ NodupNames ds := by
      simpa [NodupNames, List.nodup_cons] using h1
    have h2' : d.WF ∧ listWF ds := by simpa [listWF] using h2
    exact kids_cons d ds (main d h2'.1) (ih h1'.2 h2'.2) h1'.1

/-- a node the caller has already reported (`marked`), or a new one: everything else it reports is strictly beneath it -/
theorem addChanges_rest_below (name : Str) (st : Stat) (ch : List Info) (hwf : (Info.mk name st ch).WF) (path : List Str)
    (old : Option Info) (x : Change)
    (hx : x ∈ childChanges path ch (oldKids (dirAt path st) old)) : ∃ c r, x.path = path ++ c :: r := by
  have hkids : KidsOK ch := kidsOK_of_WF (.mk name st ch) hwf
  obtain ⟨c, r, hp, _⟩ := kids_paths ch hkids path _ x hx
  exact ⟨c, r, hp⟩

theorem ne_of_below {path : List Str} {c : Str} {r : List Str} : path ++ c :: r ≠ path := by
  intro e
  have := congrArg List.length e
  simp at this

theorem nodup_main (info : Info) : info.WF → ∀ (path : List Str) (old : Option Info) (m : Bool),
    (∀ o, old = some o → o.WF) → PathsNodup (addChanges path info old m) := by
  refine Info.rec (motive_1 := fun info => info.WF → ∀ (path : List Str) (old : Option Info) (m : Bool),
      (∀ o, old = some o → o.WF) → PathsNodup (addChanges path info old m))
    (motive_2 := fun news => NodupNames news → listWF news → ∀ (path : List Str) (olds : List Info),
      NodupNames olds → listWF olds → PathsNodup (childChanges path news olds)) ?_ ?_ ?_ info
  · intro name st ch ih hwf path old m hold
    have hw : NodupNames ch ∧ listWF ch := by simpa [Info.WF] using hwf
    have holds : NodupNames (oldKids (dirAt path st) old) ∧ listWF (oldKids (dirAt path st) old) := by
      unfold oldKids
      cases old with
      | none => simp [NodupNames, listWF]
      | some o =>
        simp only
        split
        · exact WF_children (hold o rfl)
        · simp [NodupNames, listWF]
    have hcc := ih hw.1 hw.2 path _ holds.1 holds.2
    have hbelow : ∀ x ∈ childChanges path ch (oldKids (dirAt path st) old), x.path ≠ path := by
      intro x hx
      obtain ⟨c, r, hp⟩ := addChanges_rest_below name st ch hwf path old x hx
      rw [hp]; exact ne_of_below
    have hseg : PathsNodup ((if old.isNone = true then [({ path := path, kind := CKind.add } : Change)] else []) ++
        childChanges path ch (oldKids (dirAt path st) old)) := by
      unfold PathsNodup
      rw [List.pairwise_append]
      refine ⟨?_, hcc, ?_⟩
      · split <;> simp
      · intro a ha b hb
        split at ha
        · rw [List.mem_singleton] at ha
          rw [ha]; exact fun e => hbelow b hb e.symm
        · cases ha
    rw [addChanges.eq_def]
    simp only
    generalize hS : ((if old.isNone = true then [({ path := path, kind := CKind.add } : Change)] else []) ++
        childChanges path ch (oldKids (dirAt path st) old)) = S at hseg
    split
    · rename_i hcond
      -- the node's own "modified" entry is added only when it has not been reported yet and is not new
      have hsome : old.isNone = false := by
        cases ho : old.isNone
        · rfl
        · simp [ho] at hcond
      unfold PathsNodup
      rw [List.pairwise_cons]
      refine ⟨?_, hseg⟩
      intro b hb
      rw [← hS, hsome] at hb
      simp only [Bool.false_eq_true, if_false, List.nil_append] at hb
      exact fun e => hbelow b hb e.symm
    · exact hseg
  · intro _ _ path olds hnd _
    rw [childChanges.eq_1]
    unfold PathsNodup
    rw [List.pairwise_map]
    have : List.Pairwise (fun a b : Info => a.name ≠ b.name) olds := by
      unfold NodupNames at hnd
      rw [List.nodup_iff_pairwise_ne, List.pairwise_map] at hnd
      exact hnd
    refine List.Pairwise.imp ?_ this
    intro a b hab e
    simp only at e
    have := List.append_cancel_left e
    simp at this
    exact hab this
  · intro c cs ihc ihcs hnd hwf path olds holdsN holdsW
    have hnd' : c.name ∉ cs.map Info.name ∧ NodupNames cs := by
      simpa [NodupNames, List.nodup_cons] using hnd
    have hwf' : c.WF ∧ listWF cs := by simpa [listWF] using hwf
    have hcsnone : findChild cs c.name = none := findChild_none_of_not_mem hnd'.1
    have hkcs : KidsOK cs := kidsOK_of cs hnd'.2 hwf'.2
    have hnode : NodeOK c := main c hwf'.1
    have cross : ∀ (olds' : List Info), (findChild olds' c.name = none) → ∀ (o' : Option Info) (mk : Bool),
        ∀ a ∈ addChanges (path ++ [c.name]) c o' mk, ∀ b ∈ childChanges path cs olds', a.path ≠ b.path := by
      intro olds' hnone o' mk a ha b hb
      obtain ⟨r, hpa⟩ := node_paths c hnode _ _ _ a ha
      obtain ⟨c', r', hpb, hsb⟩ := kids_paths cs hkcs path olds' b hb
      have hc' : c' ≠ c.name := by
        intro e
        rw [e, belowSpec_missing r' _ hcsnone, hnone] at hsb
        cases hsb.1
      rw [hpa, hpb]
      intro e
      have e1 : path ++ [c.name] ++ r = path ++ (c.name :: r) := by simp
      rw [e1] at e
      have := List.append_cancel_left e
      simp at this
      exact hc' this.1.symm
    have crossHead : ∀ (olds' : List Info), (findChild olds' c.name = none) →
        ∀ b ∈ childChanges path cs olds', path ++ [c.name] ≠ b.path := by
      intro olds' hnone b hb
      obtain ⟨c', r', hpb, hsb⟩ := kids_paths cs hkcs path olds' b hb
      have hc' : c' ≠ c.name := by
        intro e
        rw [e, belowSpec_missing r' _ hcsnone, hnone] at hsb
        cases hsb.1
      rw [hpb]
      intro e
      have := List.append_cancel_left e
      simp at this
      exact hc' this.1.symm
    rw [childChanges.eq_2]
    cases ho : findChild olds c.name with
    | some o =>
      have howf : o.WF := listWF_mem holdsW (findChild_mem ho)
      simp only
      unfold PathsNodup
      rw [List.pairwise_append, List.pairwise_append]
      refine ⟨⟨?_, ihc hwf'.1 _ _ _ (fun o' ho' => by cases ho'; exact howf), ?_⟩,
        ihcs hnd'.2 hwf'.2 _ _ (nodupNames_dropChild olds _ holdsN) (listWF_dropChild olds _ holdsW), ?_⟩
      · split <;> simp
      · -- the parent's "modified" entry for the child, then the child's own: reported already, so only beneath
        intro a ha b hb
        split at ha
        · rename_i hd
          rw [List.mem_singleton] at ha
          rw [ha]
          obtain ⟨cname, cst, cch⟩ := c
          rw [addChanges.eq_def] at hb
          simp only [hd, Bool.true_or, Bool.not_true, Bool.and_false, Bool.false_and, Bool.false_eq_true, if_false,
            Option.isNone_some, List.nil_append] at hb
          obtain ⟨c', r', hp⟩ := addChanges_rest_below cname cst cch hwf'.1 _ _ b hb
          rw [hp]
          exact fun e => ne_of_below e.symm
        · cases ha
      · intro a ha b hb
        rw [List.mem_append] at ha
        rcases ha with ha | ha
        · split at ha
          · rw [List.mem_singleton] at ha
            rw [ha]
            exact crossHead _ (findChild_dropChild_self olds c.name) b hb
          · cases ha
        · exact cross _ (findChild_dropChild_self olds c.name) _ _ a ha b hb
    | none =>
      simp only
      unfold PathsNodup
      rw [List.pairwise_append]
      exact ⟨ihc hwf'.1 _ _ _ (fun o' ho' => by cases ho'), ihcs hnd'.2 hwf'.2 _ _ holdsN holdsW,
        fun a ha b hb => cross olds ho _ _ a ha b hb⟩

/-- **every path is reported at most once** -/
theorem changes_paths_nodup (new old : Info) (hn : new.WF) (ho : old.WF) :
    ((changes new old).map Change.path).Nodup := by
  have h := nodup_main new hn [] (some old) false (fun o e => by cases e; exact ho)
  unfold PathsNodup at h
  rw [List.nodup_iff_pairwise_ne, List.pairwise_map]
  exact h

/-- the defect the flag prevents, on the model: without it a directory that changed itself and has a change
    beneath it would be reported twice (here: it is reported once) -/
example : ((changes exNew exOld).map Change.path).Nodup := by decide

end GA.TreeDiff
