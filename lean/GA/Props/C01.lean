import GA.M.Unpack
import GA.Proofs.ConfineStep
/-
  C01 — chrooted extraction never touches anything outside the root.
  The theorems are instances of `run_confined` (every program under a thread root is confined),
  so they hold for every archive, every destination string, every prior tree and every set of
  refused system calls.
-/
namespace GA.C01
open GA

theorem run_bind {α β : Type} (m : Prog α) (f : α → Prog β) (w : World) :
    (m.bind f).run w = (f (m.run w).1).run (m.run w).2 := by
  induction m generalizing w with
  | ret a => rfl
  | call s k ih => simp only [Prog.bind, Prog.run]; exact ih _ _

theorem runF_jailed_aux : True := trivial

/-- a jailed body leaves everything outside the jail directory untouched, whatever the body is -/
theorem jailed_confined {α : Type} (root : Str) (body : Prog α) (e : α) (w : World)
    (hn : NextFresh w.fs) (rp : Path) (hrp : resolve w root true = .ok rp) :
    Confined rp w.fs ((jailedP root body e).run w).2.fs := by
  unfold jailedP
  simp only [Prog.run]
  have hstep : (step w (.chroot root)) =
      (match w.fs.lookup rp with
        | none => (Res.err .ENOENT, w)
        | some i =>
          if !w.fs.isDir rp then (Res.err .ENOTDIR, w)
          else (Res.ok, { w with root := rp, fs := w.fs.modInode i (fun n => { n with mtime := none }) })) := by
    cases hl : w.fs.lookup rp <;> simp [step, hrp, hl]
  rw [hstep]
  split
  · simp [isErr, Prog.run]; exact Confined.refl _ _
  · rename_i i hi
    split
    · simp [isErr, Prog.run]; exact Confined.refl _ _
    · simp only [isErr]
      have hc : Confined rp w.fs (w.fs.modInode i (fun n => { n with mtime := none })) :=
        modInode_confined rp w.fs i _ rp hi (under_refl rp)
      have hinv : Inv rp { w with root := rp, fs := w.fs.modInode i (fun n => { n with mtime := none }) } :=
        ⟨under_refl rp, by show ((w.fs.modInode i _).lookup rp).isSome = true; rw [lookup_modInode, hi]; rfl,
          hn.modInode i _⟩
      exact Confined.trans hc (run_confined rp body _ hinv).1

/-- the same with an arbitrary set of refused system calls inside the jail -/
theorem jailed_confined_faults {α : Type} (root : Str) (body : Prog α) (w : World)
    (faults : Nat → Option Errno) (k : Nat)
    (hn : NextFresh w.fs) (rp : Path) (hroot : w.root = rp) (hex : (w.fs.lookup rp).isSome = true) :
    Confined rp w.fs (body.runF faults k w).2.fs :=
  (runF_confined rp faults body k w ⟨by rw [hroot]; exact under_refl rp, by rw [hroot]; exact hex, hn⟩).1

theorem stat_pure (w : World) (p : Str) : (step w (.stat p)).2 = w := by
  simp only [step]
  repeat' split
  all_goals rfl

/-- **chrooted layer apply** -/
theorem chrootApplyLayer_confined (dest : Str) (o : Opts) (es : List Entry) (w : World)
    (hn : NextFresh w.fs) (rp : Path) (hrp : resolve w (clean dest) true = .ok rp) :
    Confined rp w.fs ((chrootApplyLayerP dest o es).run w).2.fs :=
  jailed_confined (clean dest) _ _ w hn rp hrp

/-- **chrooted untar with a separate root** (`UntarWithRoot`, `dest ≠ root`) and
    **chrooted untar** (`Untar`, `dest = root`) into a pre-existing destination -/
theorem chrootUntar_confined (dest root : Str) (o : Opts) (es : List Entry) (w : World)
    (hn : NextFresh w.fs) (rp : Path) (hrp : resolve w root true = .ok rp)
    (hex : dest = root → isENOENT (step w (.stat (clean dest))).1 = false) :
    Confined rp w.fs ((chrootUntarP dest root o es).run w).2.fs := by
  unfold chrootUntarP
  rw [run_bind]
  have hpre : ((preJailDestP dest root o).run w).2 = w ∧
      ∃ d, ((preJailDestP dest root o).run w).1 = Except.ok d := by
    unfold preJailDestP
    split
    · rename_i heq
      simp [Prog.run, hex heq, stat_pure]
    · simp [Prog.run]
  obtain ⟨hw, d, hd⟩ := hpre
  rw [hw, hd]
  simp only
  unfold jailedUnpackP
  split
  · exact Confined.refl _ _
  · exact jailed_confined root _ _ w hn rp hrp

/-! ### obligations that depend on the regenerated facts -/

/-- the extractor, the packer and the umask change are only ever reached through `goInChroot` -/
theorem extractor_only_inside_jail :
    Facts.extractorUses = (3, 0) ∧ Facts.umaskUses = (1, 0) ∧ Facts.switchRootInSetup = true ∧
    Facts.goFailureReturns = true := by decide

/-- `goInChroot` unshares the filesystem attributes and the mount namespace -/
theorem goInChroot_unshares_fs_and_mounts :
    ∃ fl fs ns, Facts.goInChrootFlags? = some fl ∧ Facts.clonefs? = some fs ∧ Facts.clonenewns? = some ns ∧
      fl &&& fs = fs ∧ fl &&& ns = ns ∧ fs ≠ 0 ∧ ns ≠ 0 := ⟨_, _, _, rfl, rfl, rfl, by decide, by decide, by decide, by decide⟩

/-- the jail is a property of one OS thread: nothing that runs inside it (`Unpack`, `UnpackLayer`,
    `Tarballer.Do` and every function of the package they reach) starts a goroutine, which would run on a
    thread that still has the host's root -/
theorem jail_body_single_threaded :
    Facts.jailBodyRootsFound = true ∧ Facts.jailBodyGoStmts = [] := by decide

/-- how `SwitchRoot` makes the new root a jail (regenerated from `internal/mounttree` on every run): exactly one
    `pivot_root`, of the root and a directory inside it; the old root is remounted private *recursively*
    before it is detached, so the detach does not propagate to the mounts of the host; pivot, then chdir,
    then private -/
theorem switchRoot_structure :
    Facts.switchRootPivots = ["path, pivotDir"] ∧ Facts.switchRootPrivateRec = true ∧
    Facts.switchRootOrder.filter (fun x => x = "pivot" ∨ x = "chdir" ∨ x = "private") = ["pivot", "chdir", "private"] := by
  decide

/-- non-vacuity: a world where `/w/root` exists and resolves -/
example : ∃ w : World, NextFresh w.fs ∧ resolve w b!"/w" true = .ok [b!"w"] := by
  refine ⟨{ fs := FS.empty.create [b!"w"] { kind := .dir, perm := 0o755, uid := 0, gid := 0, mtime := some 0 } }, ?_, ?_⟩
  · exact NextFresh.create (fun p i hp => by
      simp [FS.empty, FS.lookup] at hp
      obtain ⟨_, rfl⟩ := hp
      decide) _ _ (by decide)
  · decide

end GA.C01
