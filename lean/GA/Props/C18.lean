import GA.M.Pipe
import GA.Generated.Facts
/-
  C18 — independent operations are race-free and do not influence each other (shared state and the
  pool protocol).  Partial: data-race freedom of the real memory accesses is the race detector's
  to observe (the `race` stream, built with -race).
-/
namespace GA.C18
open GA GA.Pipe

/-- **the package-level variables are exactly these** (regenerated): two pools, error values,
    time bounds, magic tables, the reversible-flag table, the noattr sentinel.  Anything new fails
    this obligation and has to be classified. -/
theorem shared_state :
    Facts.packageVars =
      [".:ErrCannotCopyDir", ".:ErrDirNotExists", ".:ErrInvalidCopySource", ".:ErrNotDirectory", ".:copyPool",
       ".:maxTime", ".:minTime", ".:noattr", "compression:bufioReader32KPool", "compression:bzip2Magic",
       "compression:gzipMagic", "compression:xzMagic", "compression:zstdMagic",
       "internal/unshare:reversibleSetnsFlags"] := rfl

/-- a schedule respects the protocol when no event was refused -/
def Legal (own : Nat → Owner) (sched : List PoolEv) : Prop := (poolRun own sched).isSome

/-- **linear ownership**: in every legal schedule a buffer is used only by the operation that holds it -/
theorem use_only_by_owner (own : Nat → Owner) (o b : Nat) (rest : List PoolEv)
    (h : Legal own (.use o b :: rest)) : own b = .op o := by
  unfold Legal poolRun at h
  simp only [poolStep] at h
  split at h
  · rename_i own' hs
    split at hs
    · assumption
    · cases hs
  · simp at h

/-- **no operation can get a buffer another operation still holds** -/
theorem get_only_from_pool (own : Nat → Owner) (o b : Nat) (rest : List PoolEv)
    (h : Legal own (.get o b :: rest)) : own b = .pool := by
  unfold Legal poolRun at h
  simp only [poolStep] at h
  split at h
  · rename_i own' hs
    split at hs
    · assumption
    · cases hs
  · simp at h

/-- one operation following Get; use*; Put on a buffer the pool owns is legal and gives it back -/
theorem op_legal (own : Nat → Owner) (o b : Nat) (uses : Nat) (h : own b = .pool) :
    ∃ own', poolRun own (opEvents o b uses) = some own' ∧ own' b = .pool ∧ ∀ x, x ≠ b → own' x = own x := by
  unfold opEvents
  simp only [List.singleton_append, List.cons_append, poolRun, poolStep, h, if_true]
  have key : ∀ (n : Nat) (ow : Nat → Owner), ow b = .op o →
      ∃ own', poolRun ow (List.replicate n (.use o b) ++ [.put o b]) = some own' ∧ own' b = .pool ∧
        ∀ x, x ≠ b → own' x = ow x := by
    intro n
    induction n with
    | zero =>
      intro ow hb
      simp only [List.replicate, List.nil_append, poolRun, poolStep, hb, if_true]
      exact ⟨_, rfl, by simp, fun x hx => by simp [hx]⟩
    | succ k ih =>
      intro ow hb
      simp only [List.replicate, List.cons_append, poolRun, poolStep, hb, if_true]
      exact ih ow hb
  obtain ⟨own', h1, h2, h3⟩ := key uses (fun x => if x = b then .op o else own x) (by simp)
  exact ⟨own', h1, h2, fun x hx => by rw [h3 x hx]; simp [hx]⟩

/-- **use after put is refused**: the model of `bufferedReader` never touches the buffer after EOF
    because such a schedule is not legal -/
theorem use_after_put_illegal (own : Nat → Owner) (o b : Nat) (h : own b = .op o) :
    poolRun own [.put o b, .use o b] = none := by
  simp [poolRun, poolStep, h]

/-- a double put is refused as well -/
theorem double_put_illegal (own : Nat → Owner) (o b : Nat) (h : own b = .op o) :
    poolRun own [.put o b, .put o b] = none := by
  simp [poolRun, poolStep, h]

/-- the pool events of one control-flow path of a function, as operation 0 on buffer 0; an event the
    extractor could not classify maps to a use by a stranger, which no legal schedule contains -/
def evOf : String → PoolEv
  | "get" => .get 0 0
  | "use" => .use 0 0
  | "put" => .put 0 0
  | _ => .use 1 0

/-- a path keeps the protocol: starting with the buffer in the pool the schedule is legal and ends with the
    buffer back in the pool — taken once, used only while held, given back exactly once -/
def pathOK (p : List String) : Bool :=
  match poolRun (fun _ => .pool) (p.map evOf) with
  | some own => decide (own 0 = .pool) && p.contains "get"
  | none => false

/-- **every control-flow path of every function that takes a buffer from a package-level pool keeps the
    protocol** (regenerated from copy.go: `copyWithBuffer`, deferred calls included), and there is such a
    function -/
theorem pool_paths_legal :
    Facts.poolPaths ≠ [] ∧ ∀ f ∈ Facts.poolPaths, f.2 ≠ [] ∧ ∀ p ∈ f.2, pathOK p = true := by decide

/-- a path that gives the buffer back twice (an explicit Put on the error branch under a deferred Put) is
    refused, as is one that returns without giving it back -/
example : pathOK ["get", "use", "put", "put"] = false ∧ pathOK ["get", "use"] = false ∧
    pathOK ["get", "put", "use"] = false := by decide

end GA.C18
