import GA.Props.C03b
import GA.Props.C05d
/-
  C03 for whole archives of regular files: **whatever set of regular files the packer's header construction
  describes, the extractor recreates** — each file's content, twelve mode bits, owner, group and (whole-second)
  modification time — for any number of files, in any order, into any symlink-free destination, whatever the
  destination held at those paths before.  The composition of the pack-side header construction (`buildHeader` =
  `FileInfoHeader`) with C05's whole-archive statement `untar_reg_last_wins`.

  What is not in it: that `Tarballer.Do` emits exactly one such header per file of the tree (the walk; checked by
  the `pack` and `roundtrip-tar` streams), directories and links (C05e, C05g on the extraction side).
-/
namespace GA.C03
open GA

/-- a regular file as the packer sees it: its name in the archive, `lstat`, the capability lookup, its bytes -/
structure FileDesc where
  name : Str
  st : StatInfo
  cap : Res
  data : List UInt8

/-- the entry the packer writes for it -/
def FileDesc.entry (f : FileDesc) : Entry := { (buildHeader f.name f.st [] f.cap) with body := f.data }

/-- where the extractor puts it -/
def FileDesc.path (dest : Str) (f : FileDesc) : Path := pathComps (join (clean dest) (clean f.entry.name))

/-- with no ID map the translation of owners is the identity -/
theorem remapE_default (e : Entry) : remapE {} e = some e := by
  unfold remapE toHostPair rootPair toHostRaw
  simp

theorem touched_regs (dest : Str) (fs : List FileDesc) (hreg : ∀ f ∈ fs, f.st.kind = .reg) :
    touched (clean dest) (fs.map FileDesc.entry) = fs.map (FileDesc.path dest) := by
  induction fs with
  | nil => rfl
  | cons f fs ih =>
    have hk : f.entry.typ ≠ .link := by
      simp [FileDesc.entry, buildHeader, hreg f (by simp), typOfKind]
    rw [List.map_cons, touched_cons, ih (fun x hx => hreg x (by simp [hx]))]
    simp [touched, hk, FileDesc.path]

/-- **any set of regular files survives tar → untar** -/
theorem files_roundtrip (dest : Str) (fs : List FileDesc) (w : World)
    (habs : isAbs dest = true) (hw : LW (pathComps (clean dest)) w)
    (hreg : ∀ f ∈ fs, f.st.kind = .reg ∧ f.st.perm < 4096 ∧ f.st.size = f.data.length ∧
      ∃ t, f.st.mtime = some t ∧ 0 ≤ t ∧ t ≤ 9223372036)
    (hself : ∀ f ∈ fs, f.path dest ≠ pathComps (clean dest))
    (hinc : fs.Pairwise (fun a b => ¬ a.path dest <+: b.path dest ∧ ¬ b.path dest <+: a.path dest))
    (hok : ((untarP dest {} (fs.map FileDesc.entry)).run w).1 = .ok) :
    ∀ f ∈ fs, ∃ i n, ((untarP dest {} (fs.map FileDesc.entry)).run w).2.fs.lookup (f.path dest) = some i ∧
      ((untarP dest {} (fs.map FileDesc.entry)).run w).2.fs.inode i = some n ∧
      n.kind = .reg ∧ n.data = f.data ∧ n.perm = f.st.perm ∧ n.uid = f.st.uid ∧ n.gid = f.st.gid ∧
      n.mtime = f.st.mtime := by
  intro f hf
  obtain ⟨pre, post, hsplit⟩ := List.append_of_mem hf
  have hes : fs.map FileDesc.entry = pre.map FileDesc.entry ++ f.entry :: post.map FileDesc.entry := by
    rw [hsplit]; simp
  rw [hes] at hok ⊢
  have hregs : ∀ x ∈ fs, x.st.kind = .reg := fun x hx => (hreg x hx).1
  have hfreg : f.entry.typ = .reg := by simp [FileDesc.entry, buildHeader, hregs f hf, typOfKind]
  have hsym : ∀ x ∈ pre.map FileDesc.entry ++ f.entry :: post.map FileDesc.entry, x.typ ≠ .sym := by
    intro x hx
    rw [← hes] at hx
    obtain ⟨g, hg, rfl⟩ := List.mem_map.mp hx
    simp [FileDesc.entry, buildHeader, hregs g hg, typOfKind]
  have hpostT : touched (clean dest) (post.map FileDesc.entry) = post.map (FileDesc.path dest) :=
    touched_regs dest post (fun x hx => hregs x (by rw [hsplit]; simp [hx]))
  rw [hsplit] at hinc
  have hpair : ∀ g ∈ post, ¬ f.path dest <+: g.path dest ∧ ¬ g.path dest <+: f.path dest := by
    have := (List.pairwise_append.mp hinc).2.1
    exact fun g hg => (List.pairwise_cons.mp this).1 g hg
  have hcov : ¬ Cov (touched (clean dest) (post.map FileDesc.entry)) (f.path dest) := by
    rw [hpostT]
    rintro ⟨t, ht, hpre⟩
    obtain ⟨g, hg, rfl⟩ := List.mem_map.mp ht
    exact (hpair g hg).2 hpre
  have hanc : ¬ Anc (touched (clean dest) (post.map FileDesc.entry)) (f.path dest) := by
    rw [hpostT]
    rintro ⟨t, ht, hpre⟩
    obtain ⟨g, hg, rfl⟩ := List.mem_map.mp ht
    exact (hpair g hg).1 hpre
  obtain ⟨e', i, n, hrem, hl, hi, hk, hd, hpm, hmt, hown⟩ :=
    C05.untar_reg_last_wins dest {} (pre.map FileDesc.entry) (post.map FileDesc.entry) f.entry w habs rfl hsym hw
      hfreg (by simp) (hself f hf) hcov hanc hok
  rw [remapE_default] at hrem
  cases hrem
  obtain ⟨_, hperm, _, t, hmtime, ht0, ht1⟩ := hreg f hf
  refine ⟨i, n, hl, hi, hk, hd, ?_, ?_, ?_, ?_⟩
  · rw [hpm]; simp only [FileDesc.entry, buildHeader]; exact and_4095_of_lt _ hperm
  · have := hown rfl
    simp only [Option.getD_none, FileDesc.entry, buildHeader] at this
    exact (Prod.mk.inj this).1
  · have := hown rfl
    simp only [Option.getD_none, FileDesc.entry, buildHeader] at this
    exact (Prod.mk.inj this).2
  · rw [hmt, hmtime]
    simp only [FileDesc.entry, buildHeader, hmtime, Option.getD_some]
    rw [C05.clamp_identity t ht0 ht1]


/-! ### non-vacuity: two files, one of them set-uid, into a destination that already holds a file -/

def exSt (perm uid gid sz : Nat) : StatInfo :=
  { kind := .reg, perm := perm, uid := uid, gid := gid, ino := 0, nlink := 1, size := sz, rdev := (0, 0), mtime := some 1000 }

def exFiles : List FileDesc :=
  [{ name := b!"b", st := exSt 0o644 5 6 2, cap := .err .ENODATA, data := b!"hi" },
   { name := b!"bin/su", st := exSt 0o4755 0 0 3, cap := .err .ENODATA, data := b!"elf" }]

theorem exFiles_ok : ((untarP b!"/w/dest" {} (exFiles.map FileDesc.entry)).run { fs := C05.exFS2 }).1 = .ok := by decide

example : ∃ i n, ((untarP b!"/w/dest" {} (exFiles.map FileDesc.entry)).run { fs := C05.exFS2 }).2.fs.lookup
      [b!"w", b!"dest", b!"bin", b!"su"] = some i ∧
    ((untarP b!"/w/dest" {} (exFiles.map FileDesc.entry)).run { fs := C05.exFS2 }).2.fs.inode i = some n ∧
    n.data = b!"elf" ∧ n.perm = 0o4755 ∧ n.mtime = some 1000 := by
  have hp : (exFiles[1]).path b!"/w/dest" = [b!"w", b!"dest", b!"bin", b!"su"] := by decide
  obtain ⟨i, n, hl, hi, _, hd, hpm, _, _, hmt⟩ := files_roundtrip b!"/w/dest" exFiles { fs := C05.exFS2 } (by decide) C05.exFS2_LW
    (by intro f hf; simp [exFiles] at hf; rcases hf with rfl | rfl <;> exact ⟨rfl, by decide, rfl, 1000, rfl, by decide, by decide⟩)
    (by intro f hf; simp [exFiles] at hf; rcases hf with rfl | rfl <;> decide)
    (by simp only [exFiles, List.pairwise_cons]; refine ⟨fun b hb => ?_, ?_⟩
        · simp at hb; subst hb; decide
        · simp)
    exFiles_ok (exFiles[1]) (List.getElem_mem _)
  rw [hp] at hl
  exact ⟨i, n, hl, hi, hd, hpm, hmt⟩

end GA.C03
