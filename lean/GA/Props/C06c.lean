import GA.Proofs.FrameLayer
import GA.Props.C05c
/-
  C06, "removes exactly what its whiteouts name": the frame of a layer apply.  `touchedL dest es` is what the
  layer names — the path of every entry, the source of every hard-link entry, the target of every whiteout,
  the directory of every opaque marker, the staging directory (and the staged copies in it).  Whatever is
  neither one of these nor beneath one is left exactly as it was: same names, same objects, same content and
  metadata (a directory on the way to a named path may have had its modification time set by the kernel) —
  for every layer without symbolic-link entries, every option set, every prior symlink-free world, whatever
  the outcome.
-/
namespace GA.C06
open GA

/-- **the frame of a plain layer apply** -/
theorem applyLayer_frame (dest : Str) (o : Opts) (es : List Entry) (oldUmask : Nat) (w : World)
    (habs : isAbs dest = true) (hsym : ∀ e ∈ es, e.typ ≠ .sym) (hw : LW (pathComps (clean dest)) w) :
    Framed (touchedL (clean dest) es) w.fs ((applyLayerP dest o es oldUmask).run w).2.fs :=
  (FrSem.run _ _ w.fs hw.inv.fresh _ _ (applyLayerP dest o es oldUmask) w (lex_applyLayer dest o es oldUmask habs hsym)
    (fr_applyLayer w.fs dest o es oldUmask habs hsym) hw (Framed.refl _ _)).1

/-- a pre-existing path that no whiteout, opaque marker or entry of the layer names or has beneath it is still
    there, bound to the same object; when that object has no covered second name its names, content and
    metadata are what they were (the modification time too unless it is a directory on the way to a named
    path) -/
theorem applyLayer_removes_only_named (dest : Str) (o : Opts) (es : List Entry) (oldUmask : Nat) (w : World)
    (habs : isAbs dest = true) (hsym : ∀ e ∈ es, e.typ ≠ .sym) (hw : LW (pathComps (clean dest)) w)
    (q : Path) (i : Ino) (hq : w.fs.lookup q = some i) (hnc : ¬ Cov (touchedL (clean dest) es) q) :
    let fs' := ((applyLayerP dest o es oldUmask).run w).2.fs
    fs'.lookup q = some i ∧
    ((∀ p, w.fs.lookup p = some i → ¬ Cov (touchedL (clean dest) es) p) →
      (∀ p, fs'.lookup p = some i ↔ w.fs.lookup p = some i) ∧
      (fs'.inode i).map eraseM = (w.fs.inode i).map eraseM ∧
      ((∀ p, w.fs.lookup p = some i → ¬ Anc (touchedL (clean dest) es) p) → fs'.inode i = w.fs.inode i)) := by
  intro fs'
  have h := applyLayer_frame dest o es oldUmask w habs hsym hw
  refine ⟨h.names_keep q i hq hnc, fun hall => ?_⟩
  have ho : OutI (touchedL (clean dest) es) w.fs i := ⟨⟨q, hq⟩, hall⟩
  exact ⟨fun p => ⟨h.no_capture i ho p, fun hp => h.names_keep p i hp (hall p hp)⟩, h.inode_out i ho,
    fun hanc => h.inode_quiet i ⟨ho, hanc⟩⟩

/-- **a layer creates nothing it does not name**: a name that exists after the layer was applied and did not
    exist before is the path of an entry, the staging directory, lies beneath one of these, or is a directory on
    the way to one — in particular a whiteout or an opaque marker creates nothing anywhere else -/
theorem applyLayer_creates_only_named (dest : Str) (o : Opts) (es : List Entry) (oldUmask : Nat) (w : World)
    (habs : isAbs dest = true) (hsym : ∀ e ∈ es, e.typ ≠ .sym) (hw : LW (pathComps (clean dest)) w)
    (q : Path) (i : Ino) (hq : ((applyLayerP dest o es oldUmask).run w).2.fs.lookup q = some i)
    (h0 : w.fs.lookup q = none) : CovAnc (touchedL (clean dest) es) q := by
  have h := applyLayer_frame dest o es oldUmask w habs hsym hw
  cases Classical.em (CovAnc (touchedL (clean dest) es) q) with
  | inl hc => exact hc
  | inr hc => rw [h.absent_keep q h0 hc] at hq; cases hq

/-- **a sequence of layers** applied one after the other leaves alone whatever none of them names -/
theorem applyLayers_frame (dest : Str) (o : Opts) (um : Nat) (habs : isAbs dest = true) :
    ∀ (layers : List (List Entry)) (w : World), (∀ es ∈ layers, ∀ e ∈ es, e.typ ≠ .sym) →
      LW (pathComps (clean dest)) w →
      Framed (layers.flatMap (touchedL (clean dest))) w.fs
        (layers.foldl (fun w' es => ((applyLayerP dest o es um).run w').2) w).fs
  | [], w, _, _ => Framed.refl _ _
  | es :: rest, w, hs, hw => by
    simp only [List.foldl_cons, List.flatMap_cons]
    have h1 := applyLayer_frame dest o es um w habs (hs es (by simp)) hw
    have hw1 := (C02.applyLayer_symlink_free_confined dest o es um w habs (hs es (by simp)) hw).2
    have h2 := applyLayers_frame dest o um habs rest _ (fun x hx => hs x (by simp [hx])) hw1
    exact h1.comp h2

/-- non-vacuity: a layer with a whiteout for `gone` and an opaque marker in `d` names neither `/w/dest/keep`
    nor anything above it except as an ancestor -/
example : ¬ Cov (touchedL (clean b!"/w/dest")
      [{ name := b!".wh.gone", typ := .reg }, { name := b!"d/.wh..wh..opq", typ := .reg }])
    [b!"w", b!"dest", b!"keep"] := by
  have ht : touchedL (clean b!"/w/dest") [{ name := b!".wh.gone", typ := .reg }, { name := b!"d/.wh..wh..opq", typ := .reg }] =
      [[b!"w", b!"dest", tmpName], [b!"w", b!"dest", b!".wh.gone"], [b!"w", b!"dest", b!"gone"],
       [b!"w", b!"dest", b!"d", b!".wh..wh..opq"], [b!"w", b!"dest", b!"d"]] := by decide
  rw [ht]
  rintro ⟨t, ht, hp⟩
  simp only [List.mem_cons, List.mem_nil_iff, or_false] at ht
  rcases ht with rfl | rfl | rfl | rfl | rfl <;> exact absurd hp (by decide)

end GA.C06
