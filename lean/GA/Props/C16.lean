import GA.M.Compress
/-
  C16 — compression is transparent and never silently corrupts.
  Decided here: the logic the repository contributes (detection tables and order, the sniffing
  window, pass-through, the pooled buffer protocol).  Partial: the codecs and their checksums
  (compress/gzip, bzip2, klauspost zstd, xz, unpigz) are assumed and exercised by the harness.
-/
namespace GA.C16
open GA GA.Compress

/-- the regenerated tables are what the theorems below are about -/
theorem tables_present :
    table.Perm [(1, some [66, 90, 104]), (2, some [31, 139, 8]), (3, some [253, 55, 122, 88, 90, 0]), (4, none)] ∧
    order.Perm [1, 2, 3, 4] ∧ Facts.zstdMagic? = some [40, 181, 47, 253] ∧
    Facts.zstdMagicSkippableStart? = some 0x184D2A50 ∧ Facts.zstdMagicSkippableMask? = some 0xFFFFFFF0 ∧
    Facts.compressionNone? = some 0 := by decide

/-- the format a first byte can announce -/
def cls (b : UInt8) : Nat := if b = 66 then 1 else if b = 31 then 2 else if b = 253 then 3 else 4

theorem skippable_first_byte (b c d e : UInt8)
    (h : (b.toNat + 256 * c.toNat + 65536 * d.toNat + 16777216 * e.toNat) &&& 4294967280 = 407710288) :
    b.toNat &&& 0xF0 = 0x50 := by
  have hb := b.toNat_lt
  have h2 := congrArg (· % 2^8) h
  simp only [Nat.and_mod_two_pow] at h2
  have : (b.toNat + 256 * c.toNat + 65536 * d.toNat + 16777216 * e.toNat) % 2^8 = b.toNat := by omega
  rw [this] at h2
  simpa using h2

theorem matcher_cls (b : UInt8) (rest : List UInt8) (e : Nat × Option (List UInt8)) (he : e ∈ table)
    (h : matcher e.2 (b :: rest) = true) : e.1 = cls b := by
  simp [table, Facts.detectTable?] at he
  rcases he with rfl | rfl | rfl | rfl
  · simp [matcher] at h; simp [cls, ← h.1]
  · simp [matcher] at h; simp [cls, ← h.1]
  · simp [matcher] at h; simp [cls, ← h.1]
  · simp only [matcher, zstdMatch, zstdMagic, Facts.zstdMagic?, Option.getD_some, Bool.or_eq_true,
      Bool.and_eq_true, decide_eq_true_eq, beq_iff_eq] at h
    have hb : b = 40 ∨ b.toNat &&& 0xF0 = 0x50 := by
      rcases h with h | h
      · left; simp at h; exact h.1.symm
      · right
        obtain ⟨hlen, h2⟩ := h
        match rest, hlen, h2 with
        | c :: d :: e :: _, _, h2 =>
          simp only [le32, skipMask, skipStart, Facts.zstdMagicSkippableMask?, Facts.zstdMagicSkippableStart?,
            Option.getD_some] at h2
          exact skippable_first_byte b c d e h2
        | [], hlen, _ => simp at hlen
        | [_], hlen, _ => simp at hlen
        | [_, _], hlen, _ => simp at hlen
    have n1 : b ≠ 66 := by rintro rfl; rcases hb with hb | hb <;> revert hb <;> decide
    have n2 : b ≠ 31 := by rintro rfl; rcases hb with hb | hb <;> revert hb <;> decide
    have n3 : b ≠ 253 := by rintro rfl; rcases hb with hb | hb <;> revert hb <;> decide
    simp [cls, n1, n2, n3]

theorem matcher_nil (e : Nat × Option (List UInt8)) (he : e ∈ table) : matcher e.2 [] = false := by
  simp [table, Facts.detectTable?] at he
  rcases he with rfl | rfl | rfl | rfl <;> simp [matcher, zstdMatch, zstdMagic, Facts.zstdMagic?]

/-- **the magics are pairwise exclusive**: no input matches two formats, so the order in which
    `Detect` tries them is immaterial -/
theorem magics_exclusive (src : List UInt8) (e1 e2 : Nat × Option (List UInt8))
    (h1 : e1 ∈ table) (h2 : e2 ∈ table)
    (m1 : matcher e1.2 src = true) (m2 : matcher e2.2 src = true) : e1.1 = e2.1 := by
  cases src with
  | nil => rw [matcher_nil e1 h1] at m1; cases m1
  | cons b rest => rw [matcher_cls b rest e1 h1 m1, matcher_cls b rest e2 h2 m2]


theorem find_unique {α} (p : α → Bool) : ∀ (l : List α) (x : α), x ∈ l → p x = true →
    (∀ y ∈ l, p y = true → y = x) → l.find? p = some x
  | [], x, hx, _, _ => by simp at hx
  | a :: l, x, hx, hp, hu => by
    by_cases ha : p a = true
    · have := hu a (by simp) ha
      subst this; simp [List.find?, ha]
    · have ha' : p a = false := by simpa using ha
      simp only [List.find?, ha']
      have hx' : x ∈ l := by
        simp at hx; rcases hx with rfl | hx
        · rw [hp] at ha'; cases ha'
        · exact hx
      exact find_unique p l x hx' hp (fun y hy => hu y (by simp [hy]))

/-- the predicate `Detect` evaluates per format code -/
def hits (src : List UInt8) (c : Nat) : Bool :=
  match table.find? (fun e => e.1 = c) with
  | some e => matcher e.2 src
  | none => false

theorem hits_unique (src : List UInt8) (c1 c2 : Nat) (h1 : hits src c1 = true) (h2 : hits src c2 = true) :
    c1 = c2 := by
  unfold hits at h1 h2
  split at h1
  · rename_i e1 he1
    split at h2
    · rename_i e2 he2
      have m1 := List.mem_of_find?_eq_some he1
      have m2 := List.mem_of_find?_eq_some he2
      have p1 := List.find?_some he1
      have p2 := List.find?_some he2
      simp at p1 p2
      rw [← p1, ← p2]
      exact magics_exclusive src e1 e2 m1 m2 h1 h2
    · cases h2
  · cases h1

/-- **`Detect` does not depend on the order in which the formats are tried** -/
theorem detect_order_irrelevant (src : List UInt8) (ord : List Nat) (h : ∀ c, c ∈ ord ↔ c ∈ order) :
    detectWith ord src = detect src := by
  have key : ∀ o : List Nat, detectWith o src = match o.find? (hits src) with | some c => c | none => cNone := by
    intro o; rfl
  unfold detect
  rw [key ord, key order]
  cases h1 : order.find? (hits src) with
  | some c =>
    have hc := List.mem_of_find?_eq_some h1
    have hp := List.find?_some h1
    rw [find_unique (hits src) ord c ((h c).mpr hc) hp (fun y _ hy => hits_unique src y c hy hp)]
  | none =>
    have : ord.find? (hits src) = none := by
      rw [List.find?_eq_none] at h1 ⊢
      intro x hx; exact h1 x ((h x).mp hx)
    rw [this]

/-- the order in the source is some order of the four formats; by `detect_order_irrelevant` the
    theorems below may therefore fix one -/
theorem detect_eq_canon (src : List UInt8) : detect src = detectWith [1, 2, 3, 4] src := by
  have hp : order.Perm [1, 2, 3, 4] := by decide
  exact (detect_order_irrelevant src [1, 2, 3, 4] (fun c => (hp.mem_iff).symm)).symm

/-- every stream that starts with a format's magic is detected as that format -/
theorem detect_bzip2 (rest : List UInt8) : detect ([66, 90, 104] ++ rest) = 1 := by
  rw [detect_eq_canon]; simp [detectWith, table, Facts.detectTable?, matcher]
theorem detect_gzip (rest : List UInt8) : detect ([31, 139, 8] ++ rest) = 2 := by
  rw [detect_eq_canon]; simp [detectWith, table, Facts.detectTable?, matcher]
theorem detect_xz (rest : List UInt8) : detect ([253, 55, 122, 88, 90, 0] ++ rest) = 3 := by
  rw [detect_eq_canon]; simp [detectWith, table, Facts.detectTable?, matcher]
theorem detect_zstd (rest : List UInt8) : detect ([40, 181, 47, 253] ++ rest) = 4 := by
  rw [detect_eq_canon]; simp [detectWith, table, Facts.detectTable?, matcher, zstdMatch, zstdMagic,
    Facts.zstdMagic?]

/-- a stream of at least 8 bytes that starts with a skippable-frame magic (0x184D2A50–5F) is zstd -/
theorem detect_skippable (src : List UInt8) (hlen : 8 ≤ src.length)
    (hm : le32 src &&& 0xFFFFFFF0 = 0x184D2A50) : detect src = 4 := by
  match src, hlen, hm with
  | b :: c :: d :: e :: rest, hlen, hm =>
    have hb : b.toNat &&& 0xF0 = 0x50 := skippable_first_byte b c d e (by simpa [le32] using hm)
    have n1 : b ≠ 66 := by rintro rfl; revert hb; decide
    have n2 : b ≠ 31 := by rintro rfl; revert hb; decide
    have n3 : b ≠ 253 := by rintro rfl; revert hb; decide
    have hz : zstdMatch (b :: c :: d :: e :: rest) = true := by
      simp only [zstdMatch, Bool.or_eq_true, Bool.and_eq_true, decide_eq_true_eq, beq_iff_eq]
      right
      exact ⟨hlen, by simpa [skipMask, skipStart, Facts.zstdMagicSkippableMask?, Facts.zstdMagicSkippableStart?] using hm⟩
    rw [detect_eq_canon]; simp [detectWith, table, Facts.detectTable?, matcher, hz,
      Ne.symm n1, Ne.symm n2, Ne.symm n3]
  | [], hlen, _ => simp at hlen
  | [_], hlen, _ => simp at hlen
  | [_, _], hlen, _ => simp at hlen
  | [_, _, _], hlen, _ => simp at hlen

/-- nothing shorter than three bytes is taken for a compressed stream -/
theorem detect_short (src : List UInt8) (h : src.length ≤ 2) : detect src = 0 := by
  match src, h with
  | [], _ => rw [detect_eq_canon]; simp [detectWith, table, Facts.detectTable?, matcher, zstdMatch, zstdMagic, Facts.zstdMagic?, cNone, Facts.compressionNone?]
  | [a], _ => rw [detect_eq_canon]; simp [detectWith, table, Facts.detectTable?, matcher, zstdMatch, zstdMagic, Facts.zstdMagic?, cNone, Facts.compressionNone?]
  | [a, b], _ => rw [detect_eq_canon]; simp [detectWith, table, Facts.detectTable?, matcher, zstdMatch, zstdMagic, Facts.zstdMagic?, cNone, Facts.compressionNone?]

/-- **pass-through is exact at every length**: what is not recognised is handed back unchanged -/
theorem passthrough_exact (codec : Nat → List UInt8 → Option (List UInt8)) (s : List UInt8)
    (h : sniff s = cNone) : decompressM codec s = some s := by simp [decompressM, h]

/-- only the first ten bytes decide -/
theorem sniff_window (s t : List UInt8) (h : s.take 10 = t.take 10) : sniff s = sniff t := by
  simp [sniff, h]

/-! ### the pooled buffer -/

def BRInv (b : BR) : Prop := (b.hasBuf = true ∧ b.puts = 0) ∨ (b.hasBuf = false ∧ b.puts = 1)

theorem br_step_inv (b : BR) (op : BROp) (h : BRInv b) : BRInv (b.step op).2 := by
  cases op <;> simp only [BR.step] <;> rcases h with ⟨h1, h2⟩ | ⟨h1, h2⟩ <;> simp [h1, h2, BRInv] <;>
    (try split) <;> simp_all [BRInv]

/-- **the pooled buffer goes back to the pool at most once**, exactly when the reader lets go of it -/
theorem br_put_once (src : List UInt8) (ops : List BROp) : BRInv ((BR.init src).run ops).2 := by
  have : ∀ (b : BR), BRInv b → BRInv (b.run ops).2 := by
    induction ops with
    | nil => intro b h; exact h
    | cons op ops ih => intro b h; simp only [BR.run]; exact ih _ (br_step_inv b op h)
  exact this _ (Or.inl ⟨rfl, rfl⟩)

/-- after the buffer was returned every further call reports end-of-stream and delivers nothing -/
theorem br_after_put (b : BR) (op : BROp) (h : b.hasBuf = false) : (b.step op).1 = ([], true) ∧ (b.step op).2 = b := by
  cases op <;> simp [BR.step, h]

/-- what the reader delivers is a prefix of the source, byte for byte -/
theorem br_reads_prefix (ops : List BROp) : ∀ (b : BR), ∃ t, (b.run ops).1 ++ t = b.rest := by
  induction ops with
  | nil => intro b; exact ⟨b.rest, by simp [BR.run]⟩
  | cons op ops ih =>
    intro b
    cases op with
    | read n =>
      simp only [BR.run, BR.step]
      split
      · obtain ⟨t, ht⟩ := ih b; exact ⟨t, by simpa using ht⟩
      · split
        · rename_i hr
          obtain ⟨t, ht⟩ := ih { b with hasBuf := false, puts := b.puts + 1 }
          exact ⟨t, by simpa using ht⟩
        · obtain ⟨t, ht⟩ := ih { b with rest := b.rest.drop (max n 1) }
          refine ⟨t, ?_⟩
          simp only at ht
          rw [List.append_assoc, ht, List.take_append_drop]
    | peek n =>
      simp only [BR.run, BR.step]
      split
      · obtain ⟨t, ht⟩ := ih b; exact ⟨t, by simpa using ht⟩
      · obtain ⟨t, ht⟩ := ih b; exact ⟨t, by simpa using ht⟩

end GA.C16
