import GA.Props.C06d
import GA.Props.C06e
/-
  C06 / C04 over **sequences of layers**: what one layer establishes at a path stays established through all later
  layers that do not name the path.

  * `applyLayers_whiteout_stays`: layers `L1 ++ [pre ++ e :: post] ++ L2`, `e` a whiteout for `X` that has the last
    word in its own layer (and that layer's apply reports success): if no later layer names `X`, a path beneath it
    or a path above it, nothing exists at or beneath `X` after the whole sequence.
  * `applyLayers_reg_stays`: the same for a regular-file entry: if no later layer names its path, a path above or
    beneath it, a whiteout for it or a hard link to it, the path holds the entry's file after the whole sequence.

  The results of the individual applies are not part of the fold (a caller stops at the first error); the
  hypothesis is stated for the layer in question on the world the earlier layers leave.
-/
namespace GA.C06
open GA

/-- the world after applying a sequence of layers -/
def applyAll (dest : Str) (o : Opts) (um : Nat) (layers : List (List Entry)) (w : World) : World :=
  layers.foldl (fun w' es => ((applyLayerP dest o es um).run w').2) w

theorem applyAll_append (dest : Str) (o : Opts) (um : Nat) (a b : List (List Entry)) (w : World) :
    applyAll dest o um (a ++ b) w = applyAll dest o um b (applyAll dest o um a w) := by
  simp [applyAll, List.foldl_append]

theorem applyAll_LW (dest : Str) (o : Opts) (um : Nat) (habs : isAbs dest = true) :
    ∀ (layers : List (List Entry)) (w : World), (∀ es ∈ layers, ∀ e ∈ es, e.typ ≠ .sym) →
      LW (pathComps (clean dest)) w → LW (pathComps (clean dest)) (applyAll dest o um layers w)
  | [], w, _, hw => hw
  | es :: rest, w, hs, hw => by
    simp only [applyAll, List.foldl_cons]
    exact applyAll_LW dest o um habs rest _ (fun x hx => hs x (by simp [hx]))
      (C02.applyLayer_symlink_free_confined dest o es um w habs (hs es (by simp)) hw).2

theorem applyAll_frame (dest : Str) (o : Opts) (um : Nat) (habs : isAbs dest = true)
    (layers : List (List Entry)) (w : World) (hs : ∀ es ∈ layers, ∀ e ∈ es, e.typ ≠ .sym)
    (hw : LW (pathComps (clean dest)) w) :
    Framed (layers.flatMap (touchedL (clean dest))) w.fs (applyAll dest o um layers w).fs :=
  applyLayers_frame dest o um habs layers w hs hw

theorem applyLayers_whiteout_stays (dest : Str) (o : Opts) (um : Nat) (L1 L2 : List (List Entry))
    (pre post : List Entry) (e : Entry) (w : World)
    (habs : isAbs dest = true)
    (hsym : ∀ es ∈ L1 ++ [pre ++ e :: post] ++ L2, ∀ x ∈ es, x.typ ≠ .sym)
    (hw : LW (pathComps (clean dest)) w)
    (hwh : IsWhiteout (clean dest) e)
    (hfree : ∀ t ∈ touchedL (clean dest) post,
      ¬ t <+: pathComps (whTarget (clean dest) e) ∧ ¬ pathComps (whTarget (clean dest) e) <+: t)
    (hlater : ∀ t ∈ L2.flatMap (touchedL (clean dest)),
      ¬ t <+: pathComps (whTarget (clean dest) e) ∧ ¬ pathComps (whTarget (clean dest) e) <+: t)
    (hok : ((applyLayerP dest o (pre ++ e :: post) um).run (applyAll dest o um L1 w)).1.1 = .ok) :
    ∀ q, under (pathComps (whTarget (clean dest) e)) q = true →
      (applyAll dest o um (L1 ++ [pre ++ e :: post] ++ L2) w).fs.lookup q = none := by
  intro q hq
  rw [applyAll_append, applyAll_append]
  have hs1 : ∀ es ∈ L1, ∀ x ∈ es, x.typ ≠ .sym := fun es h => hsym es (by simp [h])
  have hsk : ∀ x ∈ pre ++ e :: post, x.typ ≠ .sym := hsym _ (by simp)
  have hs2 : ∀ es ∈ L2, ∀ x ∈ es, x.typ ≠ .sym := fun es h => hsym es (by simp [h])
  have hw1 := applyAll_LW dest o um habs L1 w hs1 hw
  have hgone := layer_whiteout_removes dest o pre post e um _ habs hsk hw1 hwh hfree hok q hq
  have hwk : LW (pathComps (clean dest)) (applyAll dest o um [pre ++ e :: post] (applyAll dest o um L1 w)) :=
    applyAll_LW dest o um habs [_] _ (fun es h x hx => by simp only [List.mem_singleton] at h; subst h; exact hsk x hx) hw1
  have hfr := applyAll_frame dest o um habs L2 _ hs2 hwk
  exact hfr.absent_keep q (by simpa [applyAll] using hgone) (not_covAnc_of_free _ _ q hlater hq)

theorem applyLayers_reg_stays (dest : Str) (o : Opts) (um : Nat) (L1 L2 : List (List Entry))
    (pre post : List Entry) (e : Entry) (w : World)
    (habs : isAbs dest = true)
    (hsym : ∀ es ∈ L1 ++ [pre ++ e :: post] ++ L2, ∀ x ∈ es, x.typ ≠ .sym)
    (hw : LW (pathComps (clean dest)) w)
    (hreg : e.typ = .reg)
    (hmeta : hasPrefix (clean e.name) whMetaPrefix = false)
    (hnwh : hasPrefix (base (join (clean dest) (clean e.name))) whPrefix = false)
    (hne : pathComps (join (clean dest) (clean e.name)) ≠ pathComps (clean dest))
    (hcov : ¬ Cov (touchedL (clean dest) post) (pathComps (join (clean dest) (clean e.name))))
    (hanc : ¬ Anc (touchedL (clean dest) post) (pathComps (join (clean dest) (clean e.name))))
    (hcovL : ¬ Cov (L2.flatMap (touchedL (clean dest))) (pathComps (join (clean dest) (clean e.name))))
    (hancL : ¬ Anc (L2.flatMap (touchedL (clean dest))) (pathComps (join (clean dest) (clean e.name))))
    (hlinks : ∀ i, (applyAll dest o um (L1 ++ [pre ++ e :: post]) w).fs.lookup (pathComps (join (clean dest) (clean e.name))) = some i →
      ∀ p, (applyAll dest o um (L1 ++ [pre ++ e :: post]) w).fs.lookup p = some i → p = pathComps (join (clean dest) (clean e.name)))
    (hok : ((applyLayerP dest o (pre ++ e :: post) um).run (applyAll dest o um L1 w)).1.1 = .ok) :
    ∃ e' i n, remapE o e = some e' ∧
      (applyAll dest o um (L1 ++ [pre ++ e :: post] ++ L2) w).fs.lookup (pathComps (join (clean dest) (clean e.name))) = some i ∧
      (applyAll dest o um (L1 ++ [pre ++ e :: post] ++ L2) w).fs.inode i = some n ∧
      n.kind = .reg ∧ n.data = e.body ∧ n.perm = e.mode &&& 0o7777 ∧ n.mtime = some (boundTime e.mtime) ∧
      (o.noLchown = false → (n.uid, n.gid) = o.chownOpts.getD (e'.uid, e'.gid)) := by
  have hs1 : ∀ es ∈ L1, ∀ x ∈ es, x.typ ≠ .sym := fun es h => hsym es (by simp [h])
  have hsk : ∀ x ∈ pre ++ e :: post, x.typ ≠ .sym := hsym _ (by simp)
  have hs2 : ∀ es ∈ L2, ∀ x ∈ es, x.typ ≠ .sym := fun es h => hsym es (by simp [h])
  have hw1 := applyAll_LW dest o um habs L1 w hs1 hw
  obtain ⟨e', i, n, hrem, hl, hi, hrest⟩ :=
    layer_reg_last_wins dest o pre post e um _ habs hsk hw1 hreg hmeta hnwh hne hcov hanc hok
  have hwk : LW (pathComps (clean dest)) (applyAll dest o um [pre ++ e :: post] (applyAll dest o um L1 w)) :=
    applyAll_LW dest o um habs [_] _ (fun es h x hx => by simp only [List.mem_singleton] at h; subst h; exact hsk x hx) hw1
  have hfr := applyAll_frame dest o um habs L2 _ hs2 hwk
  have hl' : (applyAll dest o um [pre ++ e :: post] (applyAll dest o um L1 w)).fs.lookup
      (pathComps (join (clean dest) (clean e.name))) = some i := by simpa [applyAll] using hl
  have hi' : (applyAll dest o um [pre ++ e :: post] (applyAll dest o um L1 w)).fs.inode i = some n := by
    simpa [applyAll] using hi
  have huniq : ∀ p, (applyAll dest o um [pre ++ e :: post] (applyAll dest o um L1 w)).fs.lookup p = some i →
      p = pathComps (join (clean dest) (clean e.name)) := by
    intro p hp
    rw [← applyAll_append] at hp hl'
    exact hlinks i hl' p hp
  have hq : QuietI (L2.flatMap (touchedL (clean dest))) (applyAll dest o um [pre ++ e :: post] (applyAll dest o um L1 w)).fs i :=
    ⟨⟨⟨_, hl'⟩, fun p hp => by rw [huniq p hp]; exact hcovL⟩, fun p hp => by rw [huniq p hp]; exact hancL⟩
  rw [applyAll_append, applyAll_append]
  exact ⟨e', i, n, hrem, hfr.names_keep _ i hl' hcovL, by rw [hfr.inode_quiet i hq]; exact hi', hrest⟩

end GA.C06
