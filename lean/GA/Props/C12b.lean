import GA.M.Pack
import GA.M.Unpack
import GA.Proofs.RAll
/-
  C12 — the decision logic of ownership on both sides, stated outright over the mechanism models
  (`tarAppender.addTarFile`'s owner stage, `createTarFile`'s chown):
  an explicit override always wins; whiteout files keep their on-disk owner; an owner the mapping cannot
  translate leaves the entry out of the archive (it is never archived under another owner) and stops an
  extraction with an error before anything is created for the entry.
-/
namespace GA.C12
open GA

/-- archiving: with `ChownOpts` set, whatever is archived carries exactly that owner — for every file,
    owner, mapping and name (whiteout or not) -/
theorem pack_override_wins (o : PackOpts) (s : StatInfo) (hdr : Entry) (c ug : Nat × Nat)
    (hc : o.chownOpts = some c) (h : ownerOf o s hdr = some ug) : ug = c := by
  unfold ownerOf at h
  simp only [hc, Option.getD_some] at h
  cases h' : (if (!isOverlayWhiteout s hdr && !hasPrefix (base hdr.name) whPrefix &&
      !idMapEmpty { uidMaps := o.uidMaps, gidMaps := o.gidMaps }) = true
      then toContainerPair { uidMaps := o.uidMaps, gidMaps := o.gidMaps } s.uid s.gid else some (hdr.uid, hdr.gid)) with
  | none => rw [h'] at h; cases h
  | some x => rw [h'] at h; simp at h; exact h.symm

/-- archiving without an override: an ordinary file is recorded with its owner translated host → container -/
theorem pack_translates (o : PackOpts) (s : StatInfo) (hdr : Entry) (hc : o.chownOpts = none)
    (hw : isOverlayWhiteout s hdr = false) (hn : hasPrefix (base hdr.name) whPrefix = false)
    (hm : idMapEmpty { uidMaps := o.uidMaps, gidMaps := o.gidMaps } = false) :
    ownerOf o s hdr = toContainerPair { uidMaps := o.uidMaps, gidMaps := o.gidMaps } s.uid s.gid := by
  unfold ownerOf
  simp only [hw, hn, hm, hc, Bool.not_false, Bool.and_self, if_true, Option.getD_none]
  cases toContainerPair { uidMaps := o.uidMaps, gidMaps := o.gidMaps } s.uid s.gid <;> simp

/-- archiving: a whiteout file (name with the reserved prefix, or an overlay whiteout device) keeps the
    owner the header already has — the on-disk owner — whatever the mapping says -/
theorem pack_whiteout_untranslated (o : PackOpts) (s : StatInfo) (hdr : Entry) (hc : o.chownOpts = none)
    (hwh : hasPrefix (base hdr.name) whPrefix = true ∨ isOverlayWhiteout s hdr = true) :
    ownerOf o s hdr = some (hdr.uid, hdr.gid) := by
  unfold ownerOf
  rcases hwh with h | h <;> simp [h, hc]

/-- archiving: an owner the mapping cannot translate makes the owner stage refuse the entry … -/
theorem pack_untranslatable_refused (o : PackOpts) (s : StatInfo) (hdr : Entry)
    (hw : isOverlayWhiteout s hdr = false) (hn : hasPrefix (base hdr.name) whPrefix = false)
    (hm : idMapEmpty { uidMaps := o.uidMaps, gidMaps := o.gidMaps } = false)
    (hu : toContainerPair { uidMaps := o.uidMaps, gidMaps := o.gidMaps } s.uid s.gid = none) :
    ownerOf o s hdr = none := by
  unfold ownerOf
  simp [hw, hn, hm, hu]

/-- … and a refused entry is left out: the archive and the hard-link bookkeeping are what they were, for
    every outcome of every later system call (there is none) -/
theorem pack_refused_left_out (o : PackOpts) (st : PackState) (path name : Str) (s : StatInfo) (link : Str) (capR : Res)
    (h : ownerOf o s (linkStage st name s (buildHeader name s link capR)).1 = none) :
    afterStatP o st path name s link capR = .ret st := by
  unfold afterStatP
  simp only [h]

/-- extracting: the owner `createTarFile` asks the kernel for is the override when there is one, the
    (already translated) header owner otherwise, and nothing at all with `NoLchown` -/
theorem extract_chown_choice (path : Str) (e : Entry) (o : Opts) :
    ∃ k, applyMetaP path e o =
      (if o.noLchown then (pure Res.ok : Prog Res)
       else sys (.chown path (o.chownOpts.getD (e.uid, e.gid)).1 (o.chownOpts.getD (e.uid, e.gid)).2 false)) >>= k := by
  unfold applyMetaP
  exact ⟨_, rfl⟩

/-- extracting: an owner the mapping cannot translate is an error — `remapIDs` fails before `createTarFile`
    runs, so the entry is never created under another owner -/
theorem extract_untranslatable_is_error (o : Opts) (e : Entry) (h : toHostPair o e.uid e.gid = none) :
    remapE o e = none := by
  unfold remapE
  rw [h]; rfl

/-- non-vacuity: a mapping that covers 0..65535 translates host 100005 to container 5 and refuses host 7 -/
example : toContainerPair { uidMaps := [⟨0, 100000, 65536⟩], gidMaps := [⟨0, 100000, 65536⟩] } 100005 100005 = some (5, 5) ∧
    toContainerPair { uidMaps := [⟨0, 100000, 65536⟩], gidMaps := [⟨0, 100000, 65536⟩] } 7 7 = none := by decide

end GA.C12
