import GA.M.IDMap
/-
  C12 — ownership mapping and override are applied consistently (arithmetic core).
  The mapping functions are `moby/sys/user`'s (outside /repo): modelled from its source and tied
  by the idmap and extract/pack correspondence streams.
-/
namespace GA.C12
open GA

def inHost (r : IDRange) (h : Nat) : Prop := r.hid ≤ h ∧ h < r.hid + r.count
def inCont (r : IDRange) (c : Nat) : Prop := r.cid ≤ c ∧ c < r.cid + r.count

/-- container ranges do not overlap -/
def DisjointC (m : List IDRange) : Prop :=
  m.Pairwise (fun a b => ∀ c, ¬ (inCont a c ∧ inCont b c))

theorem find_first {α} (p : α → Bool) : ∀ (l : List α) (x : α), l.find? p = some x → x ∈ l ∧ p x = true
  | [], x, h => by simp at h
  | a :: l, x, h => by
    simp only [List.find?] at h
    split at h
    · cases h; rename_i hp; exact ⟨by simp, hp⟩
    · have := find_first p l x h; exact ⟨by simp [this.1], this.2⟩

theorem find_unique_of (p : α → Bool) : ∀ (l : List α) (x : α), x ∈ l → p x = true →
    (∀ y ∈ l, p y = true → y = x) → l.find? p = some x
  | [], x, hx, _, _ => by simp at hx
  | a :: l, x, hx, hp, hu => by
    by_cases ha : p a = true
    · have := hu a (by simp) ha
      subst this; simp [List.find?, ha]
    · have ha' : p a = false := by simpa using ha
      simp only [List.find?, ha']
      have hx' : x ∈ l := by
        simp at hx; rcases hx with rfl | hx
        · rw [hp] at ha'; cases ha'
        · exact hx
      exact find_unique_of p l x hx' hp (fun y hy => hu y (by simp [hy]))

theorem pairwise_unique {m : List IDRange} (hd : DisjointC m) {a b : IDRange} (ha : a ∈ m) (hb : b ∈ m)
    {c : Nat} (hca : inCont a c) (hcb : inCont b c) : a = b := by
  induction m with
  | nil => simp at ha
  | cons x xs ih =>
    rw [DisjointC, List.pairwise_cons] at hd
    simp at ha hb
    rcases ha with rfl | ha <;> rcases hb with rfl | hb
    · rfl
    · exact absurd ⟨hca, hcb⟩ (hd.1 b hb c)
    · exact absurd ⟨hcb, hca⟩ (hd.1 a ha c)
    · exact ih hd.2 ha hb

/-- **host → container → host is the identity on every id inside the mapped ranges** -/
theorem raw_inverse (m : List IDRange) (hd : DisjointC m) (h : Nat) (c : Nat)
    (hc : toContainerRaw m h = some c) : toHostRaw m c = some h := by
  unfold toContainerRaw at hc
  unfold toHostRaw
  split at hc
  · rename_i hm; simp [hm] at hc ⊢; exact hc.symm
  · rename_i hm
    simp only [hm, if_false]
    split at hc
    · rename_i r hr
      cases hc
      have ⟨hrm, hrp⟩ := find_first _ _ _ hr
      simp at hrp
      have hin : inCont r (r.cid + (h - r.hid)) := ⟨Nat.le_add_right _ _, by omega⟩
      have : m.find? (fun r' => decide (r'.cid ≤ r.cid + (h - r.hid) ∧ r.cid + (h - r.hid) < r'.cid + r'.count)) = some r := by
        apply find_unique_of _ m r hrm
        · simp; have := hin.2; omega
        · intro y hy hp
          simp at hp
          exact pairwise_unique hd hy hrm hp hin
      rw [this]
      simp; omega
    · cases hc

/-- an id outside every host range is reported, never replaced -/
theorem unmapped_is_error (m : List IDRange) (hm : m ≠ []) (h : Nat)
    (hout : ∀ r ∈ m, ¬ inHost r h) : toContainerRaw m h = none := by
  unfold toContainerRaw
  simp only [hm, if_false]
  have : m.find? (fun r => decide (r.hid ≤ h ∧ h < r.hid + r.count)) = none := by
    rw [List.find?_eq_none]
    intro r hr; have := hout r hr; simp only [inHost] at this; simp; omega
  rw [this]

theorem unmapped_is_error_toHost (m : List IDRange) (hm : m ≠ []) (c : Nat)
    (hout : ∀ r ∈ m, ¬ inCont r c) : toHostRaw m c = none := by
  unfold toHostRaw
  simp only [hm, if_false]
  have : m.find? (fun r => decide (r.cid ≤ c ∧ c < r.cid + r.count)) = none := by
    rw [List.find?_eq_none]
    intro r hr; have := hout r hr; simp only [inCont] at this; simp; omega
  rw [this]

/-- the pair-level round trip holds whenever the container id is not the mapped root's *host* id -/
theorem toHost_roundtrip_partial (o : Opts) (hu : DisjointC o.uidMaps) (hg : DisjointC o.gidMaps)
    (uid gid cu cg : Nat) (hc : toContainerPair o uid gid = some (cu, cg))
    (h1 : (rootPair o).map (·.1) ≠ some cu) (h2 : (rootPair o).map (·.2) ≠ some cg) :
    toHostPair o cu cg = some (uid, gid) := by
  unfold toContainerPair at hc
  split at hc
  · rename_i u g hcu hcg
    cases hc
    unfold toHostPair
    simp only [h1, h2, if_false]
    rw [raw_inverse _ hu uid cu hcu]
    simp only
    rw [raw_inverse _ hg gid cg hcg]
    rfl
  · cases hc

/-- D5 (known finding, in the dependency): with {0→1000 ×1, 1→100000 ×65536} host uid 100999 archives
    as container uid 1000, which `ToHost` leaves alone because it equals the mapped root's host id -/
theorem toHost_roundtrip_counterexample :
    let o : Opts := { uidMaps := [⟨0, 1000, 1⟩, ⟨1, 100000, 65536⟩], gidMaps := [⟨0, 1000, 1⟩, ⟨1, 100000, 65536⟩] }
    toContainerPair o 100999 100999 = some (1000, 1000) ∧ toHostPair o 1000 1000 = some (1000, 1000) := by decide

/-- the override always wins on extraction: the ids handed to lchown ignore header and mapping -/
theorem rootPair_identity : rootPair {} = some (0, 0) := by decide

/-- non-vacuity of `DisjointC` -/
example : DisjointC [⟨0, 100000, 65536⟩] := by simp [DisjointC]

end GA.C12
