import GA.M.Copy
/-
  C14 — copy follows the documented cp-style table (decision logic and renaming).
-/
namespace GA.C14
open GA GA.Copy

/-- **the regenerated decision function of PrepareArchiveCopy equals the documented table on all inputs** -/
theorem prepare_matches_table :
    ∃ f, Facts.prepareDecision? = some f ∧ ∀ a b c d, f a b c d = cpTable a b c d :=
  ⟨_, rfl, by decide⟩

theorem splitAtFirst_prefix (old : Str) : ∀ (s : Str), old.isPrefixOf s = true →
    splitAtFirst old s = some ([], s.drop old.length) := by
  intro s h
  cases s with
  | nil =>
    have : old = [] := by cases old <;> simp_all
    subst this; simp [splitAtFirst]
  | cons c cs => simp [splitAtFirst, h]

/-- `strings.Replace(s, old, new, 1)` on a string that starts with `old` rewrites exactly that leading occurrence -/
theorem replaceFirst_prefix (s old new : Str) (h : old.isPrefixOf s = true) :
    replaceFirst s old new = new ++ s.drop old.length := by
  simp [replaceFirst, splitAtFirst_prefix old s h]

/-- hence every later occurrence of the old base inside the name survives -/
theorem replace_renames_leading_only (old new rest : Str) :
    replaceFirst (old ++ rest) old new = new ++ rest := by
  rw [replaceFirst_prefix _ _ _ (by simp)]
  simp

/-- the walker's rebase (after the fix) touches nothing but a leading include element -/
theorem rebaseLeading_exact (inc repl rest : Str) :
    rebaseLeading (inc ++ slashStr ++ rest) inc repl = repl ++ slashStr ++ rest ∧
    rebaseLeading inc inc repl = repl := by
  constructor
  · unfold rebaseLeading
    have : hasPrefix (inc ++ slashStr ++ rest) (inc ++ slashStr) = true := by simp [hasPrefix]
    simp only [this, or_true, if_true]
    simp [slashStr]
  · simp [rebaseLeading]

theorem rebaseLeading_other (rel inc repl : Str) (h1 : rel ≠ inc)
    (h2 : hasPrefix rel (inc ++ slashStr) = false) : rebaseLeading rel inc repl = rel := by
  simp [rebaseLeading, h1, h2]

/-- D12 witness: the pinned `strings.Replace(rel, include, repl, 1)` rewrites the middle of a name -/
theorem pinned_rebase_rewrites_inside :
    replaceFirst b!"file.txt" b!"." b!"r" = b!"filertxt" ∧ rebaseLeading b!"file.txt" b!"." b!"r" = b!"file.txt" := by
  decide

/-- **the destination symlink chase issues at most 11 readlinks on any filesystem** (cycles included) -/
theorem chase_bounded (w : World) : ∀ (fuel cnt : Nat) (q : Str), fuel ≤ 12 →
    (chase w fuel cnt q).1 ≤ cnt + (fuel - 1) := by
  intro fuel
  induction fuel with
  | zero => intro cnt q _; simp [chase]
  | succ n ih =>
    intro cnt q hle
    simp only [chase]
    split
    · split
      · split
        · omega
        · rename_i hlim
          split
          · rename_i t _
            have h1 := ih (cnt + 1) (if isAbs t = true then t else join (dir q) t) (by omega)
            have : n ≥ 1 := by omega
            omega
          · omega
      · omega
    · omega

theorem chase_at_most_11 (w : World) (p : Str) : (chase w 12 0 p).1 ≤ 11 := by
  have := chase_bounded w 12 0 p (by omega)
  omega

/-- non-vacuity: a self-referential link is chased 11 times and then refused -/
example :
    let fs := (FS.empty.create [b!"l"] { kind := .sym, perm := 0o777, uid := 0, gid := 0, mtime := none, target := b!"l" })
    chase { fs := fs } 12 0 b!"/l" = (11, none) := by decide

end GA.C14
