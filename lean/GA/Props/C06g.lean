import GA.Props.C05h
import GA.Props.C06d
import GA.Props.C06e
import GA.Props.C06f
import GA.Props.C06i
/-
  C06 / C20 / C04, one statement for a whole layer: **after a successful `ApplyLayer`, every entry that has the
  last word on its path has had its effect** — for every layer without symbolic-link entries, every option set
  (outside a user namespace), every prior symlink-free world and every position in the layer:

  * a whiteout entry whose target nothing later names, covers or lies beneath: nothing exists at or beneath the
    target;
  * a regular-file, device, fifo or directory entry whose name is not reserved, that does not name the
    destination itself and that has the last word on its path (directories: later entries beneath it are
    welcome): the path holds the entry (`C05.Holds`: type, content or device numbers, mode, time, owner).

  It packages `layer_whiteout_removes`, `layer_reg_last_wins`, `layer_node_last_wins`, `layer_dir_last_wins`.
-/
namespace GA.C06
open GA

/-- the path a layer entry names -/
def pathOfL (dest : Str) (e : Entry) : Path := pathComps (join (clean dest) (clean e.name))

/-- `e` has the last word on its path within the layer -/
def FinalL (dest : Str) (e : Entry) (post : List Entry) : Prop :=
  ¬ Cov (touchedL (clean dest) post) (pathOfL dest e) ∧
  (e.typ ≠ .dir → ¬ Anc (touchedL (clean dest) post) (pathOfL dest e))

/-- an ordinary entry: not reserved, not a whiteout, not the destination itself -/
structure Ordinary (dest : Str) (e : Entry) : Prop where
  typ : e.typ = .reg ∨ e.typ = .dir ∨ e.typ = .chr ∨ e.typ = .blk ∨ e.typ = .fifo
  notMeta : hasPrefix (clean e.name) whMetaPrefix = false
  notWh : hasPrefix (base (join (clean dest) (clean e.name))) whPrefix = false
  notDest : pathOfL dest e ≠ pathComps (clean dest)

theorem applyLayer_success_all_present (dest : Str) (o : Opts) (es : List Entry) (um : Nat) (w : World)
    (habs : isAbs dest = true) (huns : o.inUserNS = false)
    (hsym : ∀ x ∈ es, x.typ ≠ .sym)
    (hw : LW (pathComps (clean dest)) w)
    (hok : ((applyLayerP dest o es um).run w).1.1 = .ok) :
    ∀ (pre post : List Entry) (e : Entry), es = pre ++ e :: post →
      (IsWhiteout (clean dest) e →
        (∀ t ∈ touchedL (clean dest) post,
          ¬ t <+: pathComps (whTarget (clean dest) e) ∧ ¬ pathComps (whTarget (clean dest) e) <+: t) →
        ∀ q, under (pathComps (whTarget (clean dest) e)) q = true → ((applyLayerP dest o es um).run w).2.fs.lookup q = none) ∧
      (Ordinary dest e → FinalL dest e post →
        C05.Holds o e ((applyLayerP dest o es um).run w).2.fs (pathOfL dest e)) := by
  intro pre post e hes
  subst hes
  refine ⟨fun hwh hfree => layer_whiteout_removes dest o pre post e um w habs hsym hw hwh hfree hok, ?_⟩
  intro hord hfin
  rcases hord.typ with h | h | h | h | h
  · obtain ⟨e', i, n, hrem, hl, hi, hk, hdat, hpm, hmt, hown⟩ :=
      layer_reg_last_wins dest o pre post e um w habs hsym hw h hord.notMeta hord.notWh hord.notDest hfin.1
        (hfin.2 (by rw [h]; decide)) hok
    exact ⟨e', i, n, hrem, hl, hi, hpm, hmt, hown, by rw [h]; exact ⟨hk, hdat⟩⟩
  · obtain ⟨e', i, n, hrem, hl, hi, hk, hpm, hmt, hown⟩ :=
      layer_dir_last_wins dest o pre post e um w habs hsym hw h hord.notMeta hord.notWh hord.notDest hfin.1 hok
    exact ⟨e', i, n, hrem, hl, hi, hpm, hmt, hown, by rw [h]; exact hk⟩
  · obtain ⟨e', i, n, hrem, hl, hi, hk, hrd, hpm, hmt, hown⟩ :=
      layer_node_last_wins dest o pre post e um w habs hsym hw (Or.inl h) huns hord.notMeta hord.notWh hord.notDest hfin.1
        (hfin.2 (by rw [h]; decide)) hok
    exact ⟨e', i, n, hrem, hl, hi, hpm, hmt, hown, by rw [h] at hk hrd ⊢; exact ⟨hk, hrd (by decide)⟩⟩
  · obtain ⟨e', i, n, hrem, hl, hi, hk, hrd, hpm, hmt, hown⟩ :=
      layer_node_last_wins dest o pre post e um w habs hsym hw (Or.inr (Or.inl h)) huns hord.notMeta hord.notWh hord.notDest hfin.1
        (hfin.2 (by rw [h]; decide)) hok
    exact ⟨e', i, n, hrem, hl, hi, hpm, hmt, hown, by rw [h] at hk hrd ⊢; exact ⟨hk, hrd (by decide)⟩⟩
  · obtain ⟨e', i, n, hrem, hl, hi, hk, hrd, hpm, hmt, hown⟩ :=
      layer_node_last_wins dest o pre post e um w habs hsym hw (Or.inr (Or.inr h)) huns hord.notMeta hord.notWh hord.notDest hfin.1
        (hfin.2 (by rw [h]; decide)) hok
    exact ⟨e', i, n, hrem, hl, hi, hpm, hmt, hown, by rw [h] at hk ⊢; exact hk⟩

/-- … and every hard-link entry whose source is not in the staging area, and whose own path and source nothing
    later names, shares its source's object -/
theorem applyLayer_success_links_shared (dest : Str) (o : Opts) (es : List Entry) (um : Nat) (w : World)
    (habs : isAbs dest = true)
    (hsym : ∀ x ∈ es, x.typ ≠ .sym)
    (hw : LW (pathComps (clean dest)) w)
    (hok : ((applyLayerP dest o es um).run w).1.1 = .ok) :
    ∀ (pre post : List Entry) (e : Entry), es = pre ++ e :: post → e.typ = .link →
      hasPrefix (clean e.linkname) whLinkDir = false →
      hasPrefix (clean e.name) whMetaPrefix = false →
      hasPrefix (base (join (clean dest) (clean e.name))) whPrefix = false →
      pathOfL dest e ≠ pathComps (clean dest) →
      ¬ Cov (touchedL (clean dest) post) (pathOfL dest e) →
      ¬ Cov (touchedL (clean dest) post) (pathComps (join (clean dest) e.linkname)) →
      ∃ i, ((applyLayerP dest o es um).run w).2.fs.lookup (pathOfL dest e) = some i ∧
        ((applyLayerP dest o es um).run w).2.fs.lookup (pathComps (join (clean dest) e.linkname)) = some i := by
  intro pre post e hes hl hnst hmeta hnwh hne hc hcs
  subst hes
  exact layer_link_shares dest o pre post e um w habs hsym hw hl hnst hmeta hnwh hne hc hcs hok

/-- non-vacuity: the re-added `keep` of C06e is an ordinary entry with the last word on its path -/
example : Ordinary b!"/w/dest" exReadd ∧ FinalL b!"/w/dest" exReadd [] := by
  have hP : pathOfL b!"/w/dest" exReadd = [b!"w", b!"dest", b!"keep"] := by decide
  have hT : touchedL (clean b!"/w/dest") [] = [[b!"w", b!"dest", tmpName]] := by decide
  refine ⟨⟨Or.inl rfl, by decide, by decide, by rw [hP]; decide⟩, ?_, fun _ => ?_⟩
  · rw [hP, hT]; rintro ⟨t, ht, hp⟩; simp only [List.mem_singleton] at ht; subst ht; exact absurd hp (by decide)
  · rw [hP, hT]; rintro ⟨t, ht, hp⟩; simp only [List.mem_singleton] at ht; subst ht; exact absurd hp (by decide)

end GA.C06
