import GA.Props.C03d
import GA.Props.C05f
/-
  C03 for whole archives of directories, regular files, devices and fifos: the statement of `tree_roundtrip` with
  character devices, block devices and named pipes among the entries — each comes back with its type and, for
  devices, its major and minor numbers (the clause "device numbers" of the property), and like everything else with
  the twelve mode bits, owner, group and modification second.  Pack side: `buildHeader`; extraction side:
  `untar_reg_last_wins`, `untar_dir_last_wins`, `untar_node_last_wins` (outside a user namespace).
-/
namespace GA.C03
open GA

/-- the kinds this statement covers -/
def PlainKind (k : Kind) : Prop := k = .reg ∨ k = .dir ∨ k = .chr ∨ k = .blk ∨ k = .fifo

theorem entry_typ_of_kind (f : FileDesc) : f.entry.typ = typOfKind f.st.kind := by
  simp [FileDesc.entry, buildHeader]

theorem touched_plain (dest : Str) (fs : List FileDesc) (hk : ∀ f ∈ fs, PlainKind f.st.kind) :
    touched (clean dest) (fs.map FileDesc.entry) = fs.map (FileDesc.path dest) := by
  induction fs with
  | nil => rfl
  | cons f fs ih =>
    have hkf : f.entry.typ ≠ .link := by
      rw [entry_typ_of_kind]
      rcases hk f (by simp) with h | h | h | h | h <;> rw [h] <;> simp [typOfKind]
    rw [List.map_cons, touched_cons, ih (fun x hx => hk x (by simp [hx]))]
    simp [touched, hkf, FileDesc.path]

/-- **any tree of directories, regular files, devices and fifos survives tar → untar** -/
theorem tree_roundtrip_nodes (dest : Str) (fs : List FileDesc) (w : World)
    (habs : isAbs dest = true) (hw : LW (pathComps (clean dest)) w)
    (hnode : ∀ f ∈ fs, PlainKind f.st.kind ∧ f.st.perm < 4096 ∧
      (f.st.kind = .reg → f.st.size = f.data.length) ∧ ∃ t, f.st.mtime = some t ∧ 0 ≤ t ∧ t ≤ 9223372036)
    (hself : ∀ f ∈ fs, f.path dest ≠ pathComps (clean dest))
    -- each path once, a directory before what lies beneath it, nothing beneath anything that is not a directory
    (hord : fs.Pairwise (fun a b => ¬ b.path dest <+: a.path dest ∧ (a.st.kind ≠ .dir → ¬ a.path dest <+: b.path dest)))
    (hok : ((untarP dest {} (fs.map FileDesc.entry)).run w).1 = .ok) :
    ∀ f ∈ fs, ∃ i n, ((untarP dest {} (fs.map FileDesc.entry)).run w).2.fs.lookup (f.path dest) = some i ∧
      ((untarP dest {} (fs.map FileDesc.entry)).run w).2.fs.inode i = some n ∧
      n.kind = f.st.kind ∧ (f.st.kind = .reg → n.data = f.data) ∧
      ((f.st.kind = .chr ∨ f.st.kind = .blk) → n.rdev = f.st.rdev) ∧
      n.perm = f.st.perm ∧ n.uid = f.st.uid ∧ n.gid = f.st.gid ∧ n.mtime = f.st.mtime := by
  intro f hf
  obtain ⟨pre, post, hsplit⟩ := List.append_of_mem hf
  have hes : fs.map FileDesc.entry = pre.map FileDesc.entry ++ f.entry :: post.map FileDesc.entry := by
    rw [hsplit]; simp
  rw [hes] at hok ⊢
  have hkinds : ∀ x ∈ fs, PlainKind x.st.kind := fun x hx => (hnode x hx).1
  have hsym : ∀ x ∈ pre.map FileDesc.entry ++ f.entry :: post.map FileDesc.entry, x.typ ≠ .sym := by
    intro x hx
    rw [← hes] at hx
    obtain ⟨g, hg, rfl⟩ := List.mem_map.mp hx
    rw [entry_typ_of_kind]
    rcases hkinds g hg with h | h | h | h | h <;> rw [h] <;> simp [typOfKind]
  have hpostT : touched (clean dest) (post.map FileDesc.entry) = post.map (FileDesc.path dest) :=
    touched_plain dest post (fun x hx => hkinds x (by rw [hsplit]; simp [hx]))
  rw [hsplit] at hord
  have hpair : ∀ g ∈ post, ¬ g.path dest <+: f.path dest ∧ (f.st.kind ≠ .dir → ¬ f.path dest <+: g.path dest) := by
    have := (List.pairwise_append.mp hord).2.1
    exact fun g hg => (List.pairwise_cons.mp this).1 g hg
  have hcov : ¬ Cov (touched (clean dest) (post.map FileDesc.entry)) (f.path dest) := by
    rw [hpostT]
    rintro ⟨t, ht, hpre⟩
    obtain ⟨g, hg, rfl⟩ := List.mem_map.mp ht
    exact (hpair g hg).1 hpre
  have hancOf : f.st.kind ≠ .dir → ¬ Anc (touched (clean dest) (post.map FileDesc.entry)) (f.path dest) := by
    intro hnd
    rw [hpostT]
    rintro ⟨t, ht, hpre⟩
    obtain ⟨g, hg, rfl⟩ := List.mem_map.mp ht
    exact (hpair g hg).2 hnd hpre
  obtain ⟨hk, hperm, hsz, t, hmtime, ht0, ht1⟩ := hnode f hf
  -- the fields every case ends with
  have hfields : ∀ (n : Inode), n.perm = f.entry.mode &&& 0o7777 → n.mtime = some (boundTime f.entry.mtime) →
      ((({} : Opts).noLchown = false) → (n.uid, n.gid) = (({} : Opts).chownOpts).getD (f.entry.uid, f.entry.gid)) →
      n.perm = f.st.perm ∧ n.uid = f.st.uid ∧ n.gid = f.st.gid ∧ n.mtime = f.st.mtime := by
    intro n hpm hmt hown
    refine ⟨?_, ?_, ?_, ?_⟩
    · rw [hpm]; simp only [FileDesc.entry, buildHeader]; exact and_4095_of_lt _ hperm
    · have := hown rfl
      simp only [Option.getD_none, FileDesc.entry, buildHeader] at this
      exact (Prod.mk.inj this).1
    · have := hown rfl
      simp only [Option.getD_none, FileDesc.entry, buildHeader] at this
      exact (Prod.mk.inj this).2
    · rw [hmt, hmtime]
      simp only [FileDesc.entry, buildHeader, hmtime, Option.getD_some]
      rw [C05.clamp_identity t ht0 ht1]
  rcases hk with hreg | hdir | hdev
  · have hfreg : f.entry.typ = .reg := by rw [entry_typ_of_kind, hreg]; rfl
    obtain ⟨e', i, n, hrem, hl, hi, hkd, hd, hpm, hmt, hown⟩ :=
      C05.untar_reg_last_wins dest {} (pre.map FileDesc.entry) (post.map FileDesc.entry) f.entry w habs rfl hsym hw
        hfreg (by simp) (hself f hf) hcov (hancOf (by rw [hreg]; decide)) hok
    rw [remapE_default] at hrem
    cases hrem
    exact ⟨i, n, hl, hi, by rw [hkd, hreg], fun _ => hd, (fun h => by rcases h with h | h <;> rw [hreg] at h <;> cases h),
      hfields n hpm hmt hown⟩
  · have hfdir : f.entry.typ = .dir := by rw [entry_typ_of_kind, hdir]; rfl
    obtain ⟨e', i, n, hrem, hl, hi, hkd, hpm, hmt, hown⟩ :=
      C05.untar_dir_last_wins dest {} (pre.map FileDesc.entry) (post.map FileDesc.entry) f.entry w habs rfl hsym hw
        hfdir (by simp) (hself f hf) hcov hok
    rw [remapE_default] at hrem
    cases hrem
    exact ⟨i, n, hl, hi, by rw [hkd, hdir], (fun h => by rw [hdir] at h; cases h),
      (fun h => by rcases h with h | h <;> rw [hdir] at h <;> cases h), hfields n hpm hmt hown⟩
  · have hnd : f.st.kind ≠ .dir := by rcases hdev with h | h | h <;> rw [h] <;> decide
    have hnode' : f.entry.typ = .chr ∨ f.entry.typ = .blk ∨ f.entry.typ = .fifo := by
      rw [entry_typ_of_kind]
      rcases hdev with h | h | h <;> rw [h] <;> simp [typOfKind]
    obtain ⟨e', i, n, hrem, hl, hi, hkd, hrd, hpm, hmt, hown⟩ :=
      C05.untar_node_last_wins dest {} (pre.map FileDesc.entry) (post.map FileDesc.entry) f.entry w habs rfl hsym hw
        hnode' rfl (by simp) (hself f hf) hcov (hancOf hnd) hok
    rw [remapE_default] at hrem
    cases hrem
    refine ⟨i, n, hl, hi, ?_, (fun h => by rcases hdev with h' | h' | h' <;> rw [h'] at h <;> cases h), ?_, hfields n hpm hmt hown⟩
    · rw [hkd, entry_typ_of_kind]
      rcases hdev with h | h | h <;> rw [h] <;> rfl
    · intro hcb
      have hne' : f.entry.typ ≠ .fifo := by
        rw [entry_typ_of_kind]
        rcases hcb with h | h <;> rw [h] <;> simp [typOfKind]
      rw [hrd hne']
      rcases hcb with h | h <;> simp [FileDesc.entry, buildHeader, h]

/-! ### non-vacuity: a directory with a character device 1/65536+3 and a fifo in it -/

def exNodeSt (k : Kind) (perm : Nat) (rdev : Nat × Nat) : StatInfo :=
  { kind := k, perm := perm, uid := 0, gid := 5, ino := 0, nlink := 1, size := 0, rdev := rdev, mtime := some 700 }

def exDevTree : List FileDesc :=
  [{ name := b!"dev", st := exDSt 0o755 0 0 600, cap := .err .ENODATA, data := [] },
   { name := b!"dev/tty9", st := exNodeSt .chr 0o620 (1, 65539), cap := .err .ENODATA, data := [] },
   { name := b!"dev/pipe", st := exNodeSt .fifo 0o600 (0, 0), cap := .err .ENODATA, data := [] }]

theorem exDevTree_ok : ((untarP b!"/w/dest" {} (exDevTree.map FileDesc.entry)).run { fs := C05.exFS2 }).1 = .ok := by decide

/-- the device comes back with both numbers, the minor beyond 16 bits included -/
example : ∃ i n, ((untarP b!"/w/dest" {} (exDevTree.map FileDesc.entry)).run { fs := C05.exFS2 }).2.fs.lookup
      [b!"w", b!"dest", b!"dev", b!"tty9"] = some i ∧
    ((untarP b!"/w/dest" {} (exDevTree.map FileDesc.entry)).run { fs := C05.exFS2 }).2.fs.inode i = some n ∧
    n.kind = .chr ∧ n.rdev = (1, 65539) ∧ n.perm = 0o620 := by
  have hp : (exDevTree[1]).path b!"/w/dest" = [b!"w", b!"dest", b!"dev", b!"tty9"] := by decide
  obtain ⟨i, n, hl, hi, hk, _, hrd, hpm, _⟩ := tree_roundtrip_nodes b!"/w/dest" exDevTree { fs := C05.exFS2 } (by decide) C05.exFS2_LW
    (by
      intro f hf; simp [exDevTree] at hf
      rcases hf with rfl | rfl | rfl
      · exact ⟨Or.inr (Or.inl rfl), by decide, (fun h => by cases h), 600, rfl, by decide, by decide⟩
      · exact ⟨Or.inr (Or.inr (Or.inl rfl)), by decide, (fun h => by cases h), 700, rfl, by decide, by decide⟩
      · exact ⟨Or.inr (Or.inr (Or.inr (Or.inr rfl))), by decide, (fun h => by cases h), 700, rfl, by decide, by decide⟩)
    (by intro f hf; simp [exDevTree] at hf; rcases hf with rfl | rfl | rfl <;> decide)
    (by
      simp only [exDevTree, List.pairwise_cons]
      refine ⟨fun b hb => ?_, fun b hb => ?_, ?_, ?_⟩
      · simp at hb; rcases hb with rfl | rfl <;> exact ⟨by decide, (fun h => absurd rfl h)⟩
      · simp at hb; subst hb; exact ⟨by decide, (fun _ => by decide)⟩
      · intro b hb; simp at hb
      · simp)
    exDevTree_ok (exDevTree[1]) (List.getElem_mem _)
  rw [hp] at hl
  exact ⟨i, n, hl, hi, hk, hrd (Or.inl rfl), hpm⟩

end GA.C03
