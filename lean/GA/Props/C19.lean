import GA.M.Unpack
import GA.M.Pack
import GA.Props.C01
/-
  C19 — arbitrary input never crashes or hangs the readers.
  Decided here: (1) every reader-side model function is total — Lean accepted `unpackLoop`,
  `layerLoop`, `opaqueWalkP`, `walkP`, `mur`, `parseDirent`, `rebaseM`, `replaceM`, `detect`, `chase`
  by structural recursion, with no `partial` and no fuel that can run out on finite input — and has
  no partial operation (slicing behind a prefix test is `List.drop`); (2) the one place where the
  library can block forever — `os.RemoveAll` opening the parent of its argument when that parent is
  a fifo — is never reached by the whiteout step (D16, D16b) and the destination itself is never
  traded for a fifo (D17); (3) whatever a failing extraction created lies inside the jail, for every
  prefix of the run and every set of refused calls.
  Partial: archive/tar, the codecs and helper processes on crafted bytes are outside the model and
  are searched by the `fuzz` stream.
-/
namespace GA.C19
open GA

/-- in K, `os.RemoveAll p` can only fail to return when `Dir(p)` resolves to a fifo -/
theorem removeAll_blocked_only_if (w : World) (p : Str) (h : (step w (.removeAll p)).1 = .blocked) :
    ∃ q n, resolve w (dir p) true = .ok q ∧ w.fs.get q = some n ∧ n.kind = .fifo := by
  simp only [step] at h
  split at h
  · cases h
  · split at h
    · cases h
    · rename_i hres
      unfold removeAllNotDir at h
      split at h
      · rename_i q hq
        split at h
        · rename_i n hn
          split at h
          · rename_i hk; exact ⟨q, n, hq, hn, by simpa using hk⟩
          · cases h
        · cases h
      · cases h
    · cases h
    · split at h
      · cases h
      · split at h <;> cases h

/-- `stat` of a path that resolves to a fifo says so -/
theorem stat_of_fifo (w : World) (s : Str) (q : Path) (n : Inode)
    (hq : resolve w s true = .ok q) (hn : w.fs.get q = some n) (hk : n.kind = .fifo) :
    notDirRes (step w (.stat s)).1 = true := by
  simp only [step, statRes, hq]
  unfold FS.get at hn
  cases hl : w.fs.lookup q with
  | none => simp [hl] at hn
  | some i =>
    simp only [hl, Option.bind_some] at hn
    simp [hn, notDirRes, statOf, hk]

/-- **the whiteout removal never blocks**: the guard refuses exactly the situation in which
    `os.RemoveAll` would open a fifo -/
theorem whiteout_remove_never_blocks (orig : Str) (w : World) : (whiteoutRemoveP orig).blocks w = false := by
  unfold whiteoutRemoveP
  simp only [Prog.blocks]
  have hst : (step w (.stat (dir orig))).2 = w := C01.stat_pure w _
  cases hs : (step w (.stat (dir orig))).1 with
  | blocked =>
    exfalso
    simp only [step, statRes] at hs
    repeat' split at hs
    all_goals cases hs
  | _ =>
    all_goals simp only [hst]
    all_goals split
    all_goals try rfl
    all_goals simp only [Prog.blocks]
    all_goals
      cases hr : (step w (.removeAll orig)).1 with
      | blocked =>
        exfalso
        obtain ⟨q, n, hq, hn, hk⟩ := removeAll_blocked_only_if w orig hr
        have := stat_of_fifo w (dir orig) q n hq hn hk
        simp_all
      | _ => rfl

/-- **partial effects stay inside**: whatever a jailed extraction — successful, failing, or with any
    set of refused system calls — did to the filesystem lies under the jail root -/
theorem partial_effects_inside {α : Type} (body : Prog α) (w : World) (faults : Nat → Option Errno) (k : Nat)
    (hn : NextFresh w.fs) (rp : Path) (hroot : w.root = rp) (hex : (w.fs.lookup rp).isSome = true) :
    Confined rp w.fs (body.runF faults k w).2.fs :=
  C01.jailed_confined_faults [] body w faults k hn rp hroot hex

/-- the staged-header lookup is total: a link into the staging area whose file was never staged is
    an error, not a nil dereference -/
theorem missing_staged_is_error (st : LState) (e : Entry) (w : World)
    (h1 : (e.typ == .link && hasPrefix (clean e.linkname) whLinkDir) = true)
    (h2 : st.staged.find? (fun x => x.1 = base e.linkname) = none) :
    ((resolveSrcP st e).run w).1 = .error .err := by
  simp [resolveSrcP, h1, h2, Prog.run, pure]

end GA.C19
