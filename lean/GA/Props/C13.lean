import GA.M.Unshare
/-
  C13 — chrooted operations never leak their root into the rest of the process.
  Decided here: the bookkeeping of `unshare.Go` (which threads are ever handed back), for every
  flag word, every combination of failures and every schedule of any number of calls.
  Partial: that the Go runtime terminates a thread whose goroutine exits locked, and that
  unshare(CLONE_FS) gives a private root/cwd/umask, are assumed; the harness observes real runs.
-/
namespace GA.C13
open GA GA.Unshare

/-- invariant of one call in flight -/
def CallInv (c : CallState) : Prop :=
  (c.hadDefer = isReversibleFlags c.flags) ∧ (c.isRev = true → c.hadDefer = true) ∧
  (c.thread.taintIrrev = true → isReversibleFlags c.flags = false) ∧
  (c.released = true → c.thread.tainted = false) ∧
  (c.released = true → c.hadDefer = true) ∧
  match c.pc with
  | .opening rest => c.thread = {} ∧ c.released = false ∧ c.hadDefer = true ∧
      ∀ f ∈ reversible, has c.flags f = true → f ∈ c.opened ∨ f ∈ rest
  | .unshare => c.thread = {} ∧ c.released = false ∧
      (c.hadDefer = true → ∀ f ∈ reversible, has c.flags f = true → f ∈ c.opened)
  | .setup => c.released = false ∧ (c.hadDefer = true → ∀ f ∈ c.thread.taintRev, f ∈ c.opened)
  | .fn => c.released = false ∧ (c.hadDefer = true → ∀ f ∈ c.thread.taintRev, f ∈ c.opened)
  | .restoring rest => c.released = false ∧ c.hadDefer = true ∧ (c.isRev = true → ∀ f ∈ c.thread.taintRev, f ∈ rest)
  | .unlock => c.released = false ∧ c.hadDefer = true ∧ (c.isRev = true → c.thread.taintRev = [])
  | .exit => True
  | .done => True

theorem init_inv (flags : Nat) (o : Outcomes) : CallInv (CallState.init flags o) := by
  unfold CallState.init CallInv
  simp only
  cases h : isReversibleFlags flags
  · simp [Thread.tainted]
  · simp only [if_true]
    refine ⟨trivial, fun _ => trivial, by simp, by simp [Thread.tainted], by simp, trivial, trivial, trivial, ?_⟩
    intro f hf _; right; exact hf

theorem tainted_false_iff (t : Thread) : t.tainted = false ↔ t.taintIrrev = false ∧ t.taintRev = [] := by
  unfold Thread.tainted; cases t.taintIrrev <;> cases t.taintRev <;> simp

theorem ret_inv (c : CallState) (h1 : c.hadDefer = isReversibleFlags c.flags) (h2 : c.isRev = true → c.hadDefer = true)
    (h3 : c.thread.taintIrrev = true → isReversibleFlags c.flags = false)
    (h4 : c.released = false)
    (h5 : c.hadDefer = true → ∀ f ∈ c.thread.taintRev, f ∈ c.opened) : CallInv c.ret := by
  unfold CallState.ret CallInv
  simp only
  refine ⟨h1, h2, h3, by simp [h4], by simp [h4], ?_⟩
  by_cases hd : c.hadDefer = true
  · simp only [hd, if_true]
    exact ⟨h4, trivial, fun _ => h5 hd⟩
  · simp [hd]

/-- **one step of a call preserves the invariant** -/
theorem step_inv (c : CallState) (h : CallInv c) : CallInv (stepCall c) := by
  obtain ⟨h1, h2, h3, h4, h4', hpc⟩ := h
  unfold stepCall
  split
  · -- opening []
    rename_i hp; rw [hp] at hpc
    obtain ⟨ht, hr, hd, hall⟩ := hpc
    refine ⟨h1, h2, h3, h4, h4', ?_⟩
    simp only
    exact ⟨ht, hr, fun _ f hf hh => (hall f hf hh).resolve_right (by simp)⟩
  · -- opening (f :: fs)
    rename_i f fs hp; rw [hp] at hpc
    obtain ⟨ht, hr, hd, hall⟩ := hpc
    split
    · rename_i hhas
      split
      · refine ⟨h1, h2, h3, h4, h4', ?_⟩
        simp only
        refine ⟨ht, hr, hd, fun g hg hh => ?_⟩
        rcases hall g hg hh with h' | h'
        · left; simp [h']
        · simp at h'; rcases h' with rfl | h'
          · left; simp
          · right; exact h'
      · apply ret_inv
        · exact h1
        · exact h2
        · exact h3
        · exact hr
        · intro _ g hg; simp only at hg; rw [ht] at hg; simp at hg
    · rename_i hhas
      refine ⟨h1, h2, h3, h4, h4', ?_⟩
      simp only
      refine ⟨ht, hr, hd, fun g hg hh => ?_⟩
      rcases hall g hg hh with h' | h'
      · left; exact h'
      · simp at h'; rcases h' with rfl | h'
        · exact absurd hh hhas
        · right; exact h'
  · -- unshare
    rename_i hp; rw [hp] at hpc
    obtain ⟨ht, hr, hall⟩ := hpc
    split
    · refine ⟨h1, h2, ?_, ?_, ?_, ?_⟩
      · simp only
        intro hti
        cases hrv : isReversibleFlags c.flags <;> simp_all
      · simp [hr]
      · simp [hr]
      · simp only
        refine ⟨hr, fun hd g hg => ?_⟩
        simp at hg
        exact hall hd g hg.1 hg.2
    · apply ret_inv
      · exact h1
      · exact h2
      · exact h3
      · exact hr
      · intro _ g hg; simp only at hg; rw [ht] at hg; simp at hg
  · -- setup
    rename_i hp; rw [hp] at hpc
    obtain ⟨hr, hall⟩ := hpc
    split
    · exact ⟨h1, h2, h3, h4, h4', hr, hall⟩
    · exact ret_inv _ h1 h2 h3 hr hall
  · -- fn
    rename_i hp; rw [hp] at hpc
    obtain ⟨hr, hall⟩ := hpc
    exact ret_inv _ h1 h2 h3 hr hall
  · -- restoring []
    rename_i hp; rw [hp] at hpc
    obtain ⟨hr, hd, hall⟩ := hpc
    refine ⟨h1, h2, h3, h4, h4', ?_⟩
    simp only
    refine ⟨hr, hd, fun hrev => ?_⟩
    cases htr : c.thread.taintRev with
    | nil => rfl
    | cons x xs => have := hall hrev x (by simp [htr]); simp at this
  · -- restoring (f :: fs)
    rename_i f fs hp; rw [hp] at hpc
    obtain ⟨hr, hd, hall⟩ := hpc
    split
    · rename_i hrev
      split
      · refine ⟨h1, h2, h3, ?_, h4', ?_⟩
        · simp [hr]
        · simp only
          refine ⟨hr, hd, fun _ g hg => ?_⟩
          simp at hg
          have := hall hrev g hg.1
          simp at this
          rcases this with rfl | this
          · exact absurd rfl hg.2
          · exact this
      · refine ⟨h1, by simp, h3, h4, h4', ?_⟩
        simp only
        exact ⟨hr, hd, by simp⟩
    · rename_i hrev
      refine ⟨h1, h2, h3, h4, h4', ?_⟩
      simp only
      exact ⟨hr, hd, fun h' => absurd h' hrev⟩
  · -- unlock
    rename_i hp; rw [hp] at hpc
    obtain ⟨hr, hd, hall⟩ := hpc
    refine ⟨h1, h2, h3, ?_, ?_, trivial⟩
    · simp only
      intro hrev
      rw [tainted_false_iff]
      refine ⟨?_, hall hrev⟩
      cases hti : c.thread.taintIrrev with
      | false => rfl
      | true => have := h3 hti; rw [← h1, hd] at this; cases this
    · simp only; intro _; exact hd
  · -- exit
    exact ⟨h1, h2, h3, h4, h4', trivial⟩
  · -- done
    rename_i hp
    refine ⟨h1, h2, h3, h4, h4', ?_⟩
    rw [hp]; trivial

theorem runCall_inv : ∀ (n : Nat) (c : CallState), CallInv c → CallInv (runCall n c)
  | 0, c, h => h
  | n+1, c, h => by
    simp only [runCall]
    split
    · exact h
    · exact runCall_inv n _ (step_inv c h)

/-- **no tainted thread is ever released** — for all flags and all failure combinations -/
theorem released_implies_clean (flags : Nat) (o : Outcomes) :
    (goM flags o).released = true → (goM flags o).thread.tainted = false :=
  (runCall_inv _ _ (init_inv flags o)).2.2.2.1

/-- a released thread belonged to a call whose flags were all reversible -/
theorem released_only_if_reversible (flags : Nat) (o : Outcomes) :
    (goM flags o).released = true → isReversibleFlags flags = true := by
  intro h
  have inv := runCall_inv (2 * reversible.length + 10) _ (init_inv flags o)
  have hd := inv.2.2.2.2.1 h
  have hfl : (goM flags o).flags = flags := by
    have : ∀ (n : Nat) (c : CallState), (runCall n c).flags = c.flags := by
      intro n
      induction n with
      | zero => intro c; rfl
      | succ n ih =>
        intro c
        simp only [runCall]
        split
        · rfl
        · rw [ih]
          unfold stepCall
          repeat' split
          all_goals simp [CallState.ret]
    exact this _ _
  have := inv.1
  unfold goM at hfl hd
  rw [hfl] at this
  rw [← this]; exact hd

/-- **irreversible flags: the thread is never handed back**, whatever fails -/
theorem irreversible_never_released (flags : Nat) (o : Outcomes) (h : isReversibleFlags flags = false) :
    (goM flags o).released = false := by
  cases hr : (goM flags o).released with
  | false => rfl
  | true => have := released_only_if_reversible flags o hr; rw [h] at this; cases this

/-- `goInChroot`'s flag word (regenerated) is irreversible: its thread always dies -/
theorem goInChroot_thread_dies (o : Outcomes) :
    ∃ fl, Facts.goInChrootFlags? = some fl ∧ (goM fl o).released = false :=
  ⟨_, rfl, irreversible_never_released _ o (by decide)⟩

/-- the reversible table holds exactly the five namespaces whose unshare implies nothing else
    (CLONE_NEWCGROUP, NEWNET, NEWUTS, NEWPID, NEWTIME); CLONE_FS and CLONE_NEWNS are not in it -/
theorem reversible_table :
    Facts.reversibleFlags? = some [0x02000000, 0x40000000, 0x04000000, 0x20000000, 0x00000080] ∧
    Facts.clonefs? = some 0x200 ∧ Facts.clonenewns? = some 0x20000 := by decide

/-! ### every schedule of any number of calls -/

def ProcInv (p : Proc) : Prop := (∀ t ∈ p.pool, t.tainted = false) ∧ ∀ c ∈ p.calls, CallInv c

theorem proc_step_inv (p : Proc) (i : Nat) (h : ProcInv p) : ProcInv (p.step i) := by
  unfold Proc.step
  split
  · exact h
  · rename_i c hc
    have hcm : c ∈ p.calls := List.mem_of_getElem? hc
    have hci := h.2 c hcm
    constructor
    · intro t ht
      simp only at ht
      split at ht
      · rename_i hrel
        simp at ht
        rcases ht with rfl | ht
        · exact hci.2.2.2.1 hrel.2
        · exact h.1 t ht
      · exact h.1 t ht
    · intro d hd
      simp only at hd
      rcases List.mem_or_eq_of_mem_set hd with hd | rfl
      · exact h.2 d hd
      · exact step_inv c hci

/-- **the fungible pool never holds a tainted thread**, for every schedule -/
theorem pool_never_tainted (pool : List Thread) (calls : List (Nat × Outcomes)) (sched : List Nat)
    (hpool : ∀ t ∈ pool, t.tainted = false) :
    ∀ t ∈ (Proc.run { pool := pool, calls := calls.map (fun c => CallState.init c.1 c.2) } sched).pool,
      t.tainted = false := by
  have : ∀ (s : List Nat) (p : Proc), ProcInv p → ProcInv (p.run s) := by
    intro s
    induction s with
    | nil => intro p h; exact h
    | cons i is ih => intro p h; exact ih _ (proc_step_inv p i h)
  refine (this sched _ ⟨hpool, ?_⟩).1
  intro c hc
  simp at hc
  obtain ⟨a, b, _, rfl⟩ := hc
  exact init_inv a b

/-! ### obligations on the regenerated structure of the code -/

theorem go_structure :
    Facts.goLocksFirst = true ∧ Facts.unlockOnlyIfReversible = true ∧ Facts.isReversibleMonotone = true ∧
    Facts.startupThreadLocked = true ∧ Facts.goFailureReturns = true ∧ Facts.umaskUses = (1, 0) := by decide

/-- what makes the jailed thread's mounts and root private: `goInChroot` asks for `CLONE_FS | CLONE_NEWNS`,
    its set-up function makes the whole mount tree a recursive slave before switching the root (so nothing it
    mounts propagates back to the namespace the other goroutines see), the body is run unchanged, and
    nothing inside the body starts a goroutine -/
theorem jail_setup_structure :
    Facts.switchRootInSetup = true ∧ Facts.extractorUses = (3, 0) ∧
    Facts.jailBodyRootsFound = true ∧ Facts.jailBodyGoStmts = [] ∧
    (∃ fl fs ns, Facts.goInChrootFlags? = some fl ∧ Facts.clonefs? = some fs ∧ Facts.clonenewns? = some ns ∧
      fl &&& fs = fs ∧ fl &&& ns = ns ∧ fs ≠ 0 ∧ ns ≠ 0) :=
  ⟨by decide, by decide, by decide, by decide, _, _, _, rfl, rfl, rfl, by decide, by decide, by decide, by decide⟩

/-- in package chrootarchive no call changes a root or working directory except inside the set-up function handed
    to `unshare.Go` — on a thread that has unshared its file-system attributes; there is no second way into a jail
    (a fallback for when `unshare` is refused would change them for the whole process) — regenerated on every run -/
theorem no_jail_call_outside_unshare : Facts.jailCallsOutsideUnshare = 0 := by decide

/-- non-vacuity: a reversible call that is released, and an irreversible one that is not -/
example : (goM 0x04000000 ⟨fun _ => true, true, true, fun _ => true⟩).released = true ∧
          (goM 0x20200 ⟨fun _ => true, true, true, fun _ => true⟩).released = false ∧
          (goM 0x04000000 ⟨fun _ => true, true, true, fun _ => false⟩).released = false := by decide

end GA.C13
