import GA.Proofs.LayerPost
import GA.Generated.Facts
import GA.Props.C06c
/-
  C06, first clause, for whole layers: **a whiteout for X removes X and everything beneath it** — not just in
  the step that performs the removal (`C06.whiteout_removes_and_creates_nothing`) but as a statement about
  `ApplyLayer`: for every layer `pre ++ e :: post` without symbolic-link entries, every option set and every
  prior symlink-free world, if the apply reports success, `e` is a whiteout entry for `X`, and nothing that
  comes after `e` in the layer names `X`, a path beneath it or a path above it, then after the apply nothing
  exists at `X` or beneath it — whatever `pre` did, whatever was there before.

  The proof runs the loop as a fold of iterations (`layerLoop_run`): the iteration of `e` ends with nothing at
  or beneath `X` (`iter_whiteout_post`); the remaining iterations create names only where their entries name
  something (`layerRun_frame` with the `absent_keep` clause of the frame); the deferred directory times change
  no name and the final clean-up only removes.
-/
namespace GA.C06
open GA

/-- the path a whiteout entry removes: the entry's directory joined with its base name minus `.wh.` -/
def whTarget (dest : Str) (e : Entry) : Str :=
  join (dir (join dest (clean e.name))) ((base (join dest (clean e.name))).drop whPrefix.length)

/-- `e` is a whiteout entry: its base name starts with `.wh.`, it is not the opaque marker, and its name does
    not start with the reserved `.wh..wh.` (those entries are skipped) -/
structure IsWhiteout (dest : Str) (e : Entry) : Prop where
  notGlobal : e.typ ≠ .xglobal
  notMeta : hasPrefix (clean e.name) whMetaPrefix = false
  isWh : hasPrefix (base (join dest (clean e.name))) whPrefix = true
  notOpaque : base (join dest (clean e.name)) ≠ whOpaqueDir

theorem touchedIs_sub (dest : Str) (es : List Entry) (t : Path) (h : t ∈ touchedIs dest es) : t ∈ touchedL dest es := by
  unfold touchedIs at h
  obtain ⟨e, he, ht⟩ := List.mem_flatMap.mp h
  unfold touchedI at ht
  rcases List.mem_cons.mp ht with rfl | ht
  · simp [touchedL]
  · exact touchedOf_sub he ht

/-- a path at or beneath `X` is neither covered by nor on the way to a name that is incomparable with `X` -/
theorem not_covAnc_of_free (T : List Path) (X q : Path) (hfree : ∀ t ∈ T, ¬ t <+: X ∧ ¬ X <+: t)
    (hq : under X q = true) : ¬ CovAnc T q := by
  simp only [under, List.isPrefixOf_iff_prefix] at hq
  rintro (⟨t, ht, hp⟩ | ⟨t, ht, hp⟩)
  · rcases List.prefix_or_prefix_of_prefix hp hq with h | h
    · exact (hfree t ht).1 h
    · exact (hfree t ht).2 h
  · exact (hfree t ht).2 (hq.trans hp)

/-- **a whiteout for X removes X and everything beneath it** (whole layer, see the header) -/
theorem layer_whiteout_removes (dest : Str) (o : Opts) (pre post : List Entry) (e : Entry) (um : Nat) (w : World)
    (habs : isAbs dest = true)
    (hsym : ∀ x ∈ pre ++ e :: post, x.typ ≠ .sym)
    (hw : LW (pathComps (clean dest)) w)
    (hwh : IsWhiteout (clean dest) e)
    (hfree : ∀ t ∈ touchedL (clean dest) post,
      ¬ t <+: pathComps (whTarget (clean dest) e) ∧ ¬ pathComps (whTarget (clean dest) e) <+: t)
    (hok : ((applyLayerP dest o (pre ++ e :: post) um).run w).1.1 = .ok) :
    ∀ q, under (pathComps (whTarget (clean dest) e)) q = true →
      ((applyLayerP dest o (pre ++ e :: post) um).run w).2.fs.lookup q = none := by
  intro q hq
  have hd : CleanAbs (clean dest) := clean_cleanAbs dest habs
  obtain ⟨hr1, hr2⟩ := applyLayer_run dest o (pre ++ e :: post) um w
  rw [hr1] at hok
  rw [hr2]
  have hw0 : LW (pathComps (clean dest)) (step w (.setUmask 0)).2 :=
    (step_good _ w (.setUmask 0) hw (good_lex (s := .setUmask 0) trivial)).2
  generalize (step w (.setUmask 0)).2 = w0 at hok hw0 ⊢
  unfold unpackLayerP at hok ⊢
  rw [layerLoop_run] at hok ⊢
  rw [layerRun_append] at hok ⊢
  have hsymPre : ∀ x ∈ pre, x.typ ≠ .sym := fun x hx => hsym x (by simp [hx])
  have hsymPost : ∀ x ∈ post, x.typ ≠ .sym := fun x hx => hsym x (by simp [hx])
  have hL0 : LStOK (pathComps (clean dest)) (clean dest) {} := ⟨by simp, Or.inl rfl, by simp⟩
  have hF0 : FSt0 (clean dest) {} := ⟨Or.inl rfl, by simp⟩
  have hpreF := layerRun_frame _ (clean dest) o hd rfl pre {} w0 hsymPre hw0 hL0 hF0
  cases hpre : layerRun (clean dest) o pre {} w0 with
  | mk r1 w1 =>
    rw [hpre] at hok hpreF
    cases r1 with
    | error x =>
      exfalso
      obtain ⟨out, st'⟩ := x
      simp only at hok
      rw [layerFinish_out] at hok
      exact layerRun_error_ne_ok _ _ _ _ _ _ _ _ hpre hok
    | ok s1 =>
      simp only [resSt] at hok hpreF ⊢
      have hw1 : LW _ w1 := hpreF.2.1
      simp only [layerRun] at hok ⊢
      have hlI := lex_iterL _ (clean dest) o hd rfl e s1 (hsym e (by simp)) hpreF.2.2.1
      have hfI := fr_iterL (pathComps (clean dest)) (touchedI (clean dest) e) w1.fs (clean dest) o hd e s1
        (hsym e (by simp)) (by simp [touchedI]) (fun x hx => by simp [touchedI, hx]) hpreF.2.2.2
      have h1 := FrSem.run _ (touchedI (clean dest) e) w1.fs hw1.inv.fresh _ _ _ w1 hlI hfI hw1 (Framed.refl _ _)
      have h2 := LexSem.run _ _ _ w1 hlI hw1
      cases hit : (layerIterP (clean dest) o e s1).run w1 with
      | mk r2 w2 =>
        rw [hit] at hok h1 h2
        cases r2 with
        | error x =>
          exfalso
          obtain ⟨out, st'⟩ := x
          simp only at hok
          rw [layerFinish_out] at hok
          have := Prog.All.run _ w1 (layerIter_error_ne_ok (clean dest) o e s1)
          rw [hit] at this
          exact this out st' rfl hok
        | ok s2 =>
          simp only [resSt] at hok h1 h2 ⊢
          -- nothing at or beneath the target after the whiteout's own iteration
          have habsent := iter_whiteout_post _ (clean dest) o hd rfl e s1 w1 hw1 hwh.notGlobal hwh.notMeta
            hwh.isWh hwh.notOpaque s2 w2 hit q hq
          have hpostF := layerRun_frame _ (clean dest) o hd rfl post s2 w2 hsymPost h2.2.1 h2.2.2 h1.2
          have hnc : ¬ CovAnc (touchedIs (clean dest) post) q :=
            not_covAnc_of_free _ _ q (fun t ht => hfree t (touchedIs_sub _ _ t ht)) hq
          cases hpo : layerRun (clean dest) o post s2 w2 with
          | mk r3 w3 =>
            rw [hpo] at hok hpostF
            have h3 : w3.fs.lookup q = none := hpostF.1.absent_keep q habsent hnc
            cases r3 with
            | error x =>
              exfalso
              obtain ⟨out, st'⟩ := x
              simp only at hok
              rw [layerFinish_out] at hok
              exact layerRun_error_ne_ok _ _ _ _ _ _ _ _ hpo hok
            | ok s3 =>
              simp only [resSt] at hpostF ⊢
              exact layerEnd_names _ (clean dest) o hd rfl s3 w3 hpostF.2.1 hpostF.2.2.1 q h3

/-- what one iteration of `UnpackLayer` decides about an object that already exists at an ordinary entry's path:
    1 = refuse (the destination itself would be traded for a non-directory), 3 = remove it first, 0 = merge -/
def layerDecision (l : Res) (e : Entry) (self : Bool) : Nat :=
  if needRmL l e && self && e.typ != .dir then 1 else if needRmL l e then 3 else 0

/-- that decision is, case by case, the nested `if` the extractor reads out of `UnpackLayer`'s source — regenerated
    on every run; `layerIterP` branches on exactly these two tests (`needRmL`, and `p = Clean(dest)` for `self`) -/
theorem layerDecision_is_generated (s : StatInfo) (e : Entry) (self : Bool) :
    ∃ f, Facts.unpackLayerDecision? = some f ∧
      layerDecision (.stat s) e self = f (s.kind == .dir) (e.typ == .dir) self := by
  refine ⟨_, rfl, ?_⟩
  unfold layerDecision needRmL
  cases hk : (s.kind == Kind.dir) <;> cases ht : (e.typ == Typ.dir) <;> cases self <;> simp_all

/-- and nothing is refused or removed when `lstat` finds nothing -/
theorem layerDecision_absent (e : Entry) (self : Bool) (r : Res) (h : ∀ s, r ≠ .stat s) : layerDecision r e self = 0 := by
  unfold layerDecision needRmL
  cases r <;> simp_all

/-! ### non-vacuity: a layer that adds a file, whites out `keep`, and adds another file -/

def exAdd1 : Entry := { name := b!"a", typ := .reg, mode := 0o644, body := b!"1", size := 1 }
def exWh : Entry := { name := b!".wh.keep", typ := .reg }
def exAdd2 : Entry := { name := b!"b", typ := .reg, mode := 0o644, body := b!"2", size := 1 }

theorem exWh_ok : ((applyLayerP b!"/w/dest" {} ([exAdd1] ++ exWh :: [exAdd2]) 0o022).run { fs := C05.exFS2 }).1.1 = .ok := by
  decide

theorem exWh_isWhiteout : IsWhiteout (clean b!"/w/dest") exWh :=
  ⟨by decide, by decide, by decide, by decide⟩

/-- the pre-existing `/w/dest/keep` (which the plain-extraction example leaves alone) is gone after the layer -/
example : ((applyLayerP b!"/w/dest" {} ([exAdd1] ++ exWh :: [exAdd2]) 0o022).run { fs := C05.exFS2 }).2.fs.lookup
    [b!"w", b!"dest", b!"keep"] = none := by
  have hX : pathComps (whTarget (clean b!"/w/dest") exWh) = [b!"w", b!"dest", b!"keep"] := by decide
  have hT : touchedL (clean b!"/w/dest") [exAdd2] = [[b!"w", b!"dest", tmpName], [b!"w", b!"dest", b!"b"]] := by decide
  have := layer_whiteout_removes b!"/w/dest" {} [exAdd1] [exAdd2] exWh 0o022 { fs := C05.exFS2 } (by decide)
    (by intro x hx; simp [exAdd1, exAdd2, exWh] at hx; rcases hx with rfl | rfl | rfl <;> simp)
    C05.exFS2_LW exWh_isWhiteout
    (by
      rw [hX, hT]
      intro t ht
      simp only [List.mem_cons, List.mem_nil_iff, or_false] at ht
      rcases ht with rfl | rfl <;> exact ⟨by decide, by decide⟩)
    exWh_ok [b!"w", b!"dest", b!"keep"] (by rw [hX]; decide)
  exact this

/-- … and it was there before -/
example : (C05.exFS2.lookup [b!"w", b!"dest", b!"keep"]).isSome = true := by decide

end GA.C06
