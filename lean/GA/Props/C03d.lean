import GA.Props.C03c
import GA.Props.C05e
/-
  C03 for whole archives of directories and regular files: **any tree of directories and regular files that the
  packer's header construction describes, parents before children, is recreated by the extractor** — each file's
  content, and for files and directories alike the twelve mode bits, owner, group and whole-second modification
  time (directories included: creating the children changes a directory's time on the way, the deferred pass puts
  it back) — for any number of entries, into any symlink-free destination, whatever it held before.  The
  composition of `buildHeader` (= `FileInfoHeader` + canonical names) with `untar_reg_last_wins` and
  `untar_dir_last_wins`.

  The order hypothesis is what the walk of `Tarballer.Do` gives (a directory is visited before its content, each
  path once); that the walk emits exactly these headers is checked by the `pack` and `roundtrip-tar` streams, not
  proved.
-/
namespace GA.C03
open GA

theorem touched_nodes (dest : Str) (fs : List FileDesc) (hk : ∀ f ∈ fs, f.st.kind = .reg ∨ f.st.kind = .dir) :
    touched (clean dest) (fs.map FileDesc.entry) = fs.map (FileDesc.path dest) := by
  induction fs with
  | nil => rfl
  | cons f fs ih =>
    have hkf : f.entry.typ ≠ .link := by
      rcases hk f (by simp) with h | h <;> simp [FileDesc.entry, buildHeader, h, typOfKind]
    rw [List.map_cons, touched_cons, ih (fun x hx => hk x (by simp [hx]))]
    simp [touched, hkf, FileDesc.path]

/-- **any tree of directories and regular files survives tar → untar** -/
theorem tree_roundtrip (dest : Str) (fs : List FileDesc) (w : World)
    (habs : isAbs dest = true) (hw : LW (pathComps (clean dest)) w)
    (hnode : ∀ f ∈ fs, (f.st.kind = .reg ∨ f.st.kind = .dir) ∧ f.st.perm < 4096 ∧
      (f.st.kind = .reg → f.st.size = f.data.length) ∧ ∃ t, f.st.mtime = some t ∧ 0 ≤ t ∧ t ≤ 9223372036)
    (hself : ∀ f ∈ fs, f.path dest ≠ pathComps (clean dest))
    -- each path once, a directory before what lies beneath it, nothing beneath a file
    (hord : fs.Pairwise (fun a b => ¬ b.path dest <+: a.path dest ∧ (a.st.kind = .reg → ¬ a.path dest <+: b.path dest)))
    (hok : ((untarP dest {} (fs.map FileDesc.entry)).run w).1 = .ok) :
    ∀ f ∈ fs, ∃ i n, ((untarP dest {} (fs.map FileDesc.entry)).run w).2.fs.lookup (f.path dest) = some i ∧
      ((untarP dest {} (fs.map FileDesc.entry)).run w).2.fs.inode i = some n ∧
      n.kind = f.st.kind ∧ (f.st.kind = .reg → n.data = f.data) ∧ n.perm = f.st.perm ∧ n.uid = f.st.uid ∧
      n.gid = f.st.gid ∧ n.mtime = f.st.mtime := by
  intro f hf
  obtain ⟨pre, post, hsplit⟩ := List.append_of_mem hf
  have hes : fs.map FileDesc.entry = pre.map FileDesc.entry ++ f.entry :: post.map FileDesc.entry := by
    rw [hsplit]; simp
  rw [hes] at hok ⊢
  have hkinds : ∀ x ∈ fs, x.st.kind = .reg ∨ x.st.kind = .dir := fun x hx => (hnode x hx).1
  have hsym : ∀ x ∈ pre.map FileDesc.entry ++ f.entry :: post.map FileDesc.entry, x.typ ≠ .sym := by
    intro x hx
    rw [← hes] at hx
    obtain ⟨g, hg, rfl⟩ := List.mem_map.mp hx
    rcases hkinds g hg with h | h <;> simp [FileDesc.entry, buildHeader, h, typOfKind]
  have hpostT : touched (clean dest) (post.map FileDesc.entry) = post.map (FileDesc.path dest) :=
    touched_nodes dest post (fun x hx => hkinds x (by rw [hsplit]; simp [hx]))
  rw [hsplit] at hord
  have hpair : ∀ g ∈ post, ¬ g.path dest <+: f.path dest ∧ (f.st.kind = .reg → ¬ f.path dest <+: g.path dest) := by
    have := (List.pairwise_append.mp hord).2.1
    exact fun g hg => (List.pairwise_cons.mp this).1 g hg
  have hcov : ¬ Cov (touched (clean dest) (post.map FileDesc.entry)) (f.path dest) := by
    rw [hpostT]
    rintro ⟨t, ht, hpre⟩
    obtain ⟨g, hg, rfl⟩ := List.mem_map.mp ht
    exact (hpair g hg).1 hpre
  obtain ⟨hk, hperm, hsz, t, hmtime, ht0, ht1⟩ := hnode f hf
  rcases hk with hreg | hdir
  · have hfreg : f.entry.typ = .reg := by simp [FileDesc.entry, buildHeader, hreg, typOfKind]
    have hanc : ¬ Anc (touched (clean dest) (post.map FileDesc.entry)) (f.path dest) := by
      rw [hpostT]
      rintro ⟨t, ht, hpre⟩
      obtain ⟨g, hg, rfl⟩ := List.mem_map.mp ht
      exact (hpair g hg).2 hreg hpre
    obtain ⟨e', i, n, hrem, hl, hi, hkd, hd, hpm, hmt, hown⟩ :=
      C05.untar_reg_last_wins dest {} (pre.map FileDesc.entry) (post.map FileDesc.entry) f.entry w habs rfl hsym hw
        hfreg (by simp) (hself f hf) hcov hanc hok
    rw [remapE_default] at hrem
    cases hrem
    refine ⟨i, n, hl, hi, by rw [hkd, hreg], fun _ => hd, ?_, ?_, ?_, ?_⟩
    · rw [hpm]; simp only [FileDesc.entry, buildHeader]; exact and_4095_of_lt _ hperm
    · have := hown rfl
      simp only [Option.getD_none, FileDesc.entry, buildHeader] at this
      exact (Prod.mk.inj this).1
    · have := hown rfl
      simp only [Option.getD_none, FileDesc.entry, buildHeader] at this
      exact (Prod.mk.inj this).2
    · rw [hmt, hmtime]
      simp only [FileDesc.entry, buildHeader, hmtime, Option.getD_some]
      rw [C05.clamp_identity t ht0 ht1]
  · have hfdir : f.entry.typ = .dir := by simp [FileDesc.entry, buildHeader, hdir, typOfKind]
    obtain ⟨e', i, n, hrem, hl, hi, hkd, hpm, hmt, hown⟩ :=
      C05.untar_dir_last_wins dest {} (pre.map FileDesc.entry) (post.map FileDesc.entry) f.entry w habs rfl hsym hw
        hfdir (by simp) (hself f hf) hcov hok
    rw [remapE_default] at hrem
    cases hrem
    refine ⟨i, n, hl, hi, by rw [hkd, hdir], (fun h => by rw [hdir] at h; cases h), ?_, ?_, ?_, ?_⟩
    · rw [hpm]; simp only [FileDesc.entry, buildHeader]; exact and_4095_of_lt _ hperm
    · have := hown rfl
      simp only [Option.getD_none, FileDesc.entry, buildHeader] at this
      exact (Prod.mk.inj this).1
    · have := hown rfl
      simp only [Option.getD_none, FileDesc.entry, buildHeader] at this
      exact (Prod.mk.inj this).2
    · rw [hmt, hmtime]
      simp only [FileDesc.entry, buildHeader, hmtime, Option.getD_some]
      rw [C05.clamp_identity t ht0 ht1]

/-! ### non-vacuity: a set-gid directory with an old time, and a file in it -/

def exDSt (perm uid gid : Nat) (t : Int) : StatInfo :=
  { kind := .dir, perm := perm, uid := uid, gid := gid, ino := 0, nlink := 2, size := 0, rdev := (0, 0), mtime := some t }

def exTree : List FileDesc :=
  [{ name := b!"srv", st := exDSt 0o2775 7 8 500, cap := .err .ENODATA, data := [] },
   { name := b!"srv/f", st := exSt 0o640 7 8 2, cap := .err .ENODATA, data := b!"hi" }]

theorem exTree_ok : ((untarP b!"/w/dest" {} (exTree.map FileDesc.entry)).run { fs := C05.exFS2 }).1 = .ok := by decide

/-- the directory comes back with its set-gid bit and its old time although a file was created in it afterwards -/
example : ∃ i n, ((untarP b!"/w/dest" {} (exTree.map FileDesc.entry)).run { fs := C05.exFS2 }).2.fs.lookup
      [b!"w", b!"dest", b!"srv"] = some i ∧
    ((untarP b!"/w/dest" {} (exTree.map FileDesc.entry)).run { fs := C05.exFS2 }).2.fs.inode i = some n ∧
    n.kind = .dir ∧ n.perm = 0o2775 ∧ n.mtime = some 500 := by
  have hp : (exTree[0]).path b!"/w/dest" = [b!"w", b!"dest", b!"srv"] := by decide
  obtain ⟨i, n, hl, hi, hk, _, hpm, _, _, hmt⟩ := tree_roundtrip b!"/w/dest" exTree { fs := C05.exFS2 } (by decide) C05.exFS2_LW
    (by
      intro f hf; simp [exTree] at hf
      rcases hf with rfl | rfl
      · exact ⟨Or.inr rfl, by decide, (fun h => by cases h), 500, rfl, by decide, by decide⟩
      · exact ⟨Or.inl rfl, by decide, fun _ => rfl, 1000, rfl, by decide, by decide⟩)
    (by intro f hf; simp [exTree] at hf; rcases hf with rfl | rfl <;> decide)
    (by simp only [exTree, List.pairwise_cons]; refine ⟨fun b hb => ?_, ?_⟩
        · simp at hb; subst hb; exact ⟨by decide, (fun h => by cases h)⟩
        · simp)
    exTree_ok (exTree[0]) (List.getElem_mem _)
  rw [hp] at hl
  exact ⟨i, n, hl, hi, hk, hpm, hmt⟩

end GA.C03
