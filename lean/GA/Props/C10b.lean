import GA.Proofs.TreeDiffSpec
/-
  C10, the recursive diff: `FileInfo.Changes` reports exactly
    an addition      for every path present only in the new tree,
    a deletion       for every path present only in the old tree whose parent is a directory in both,
    a modification   for every path present in both whose compared fields differ, and for every
                     directory that has a reported change beneath it,
  and never the root — for all trees and every order of the children (Go's map iteration order).
-/
namespace GA.TreeDiff
open GA

mutual
/-- only directories have children (what `collectFileInfoForChanges` builds) -/
def Info.Shape : Info → Prop
  | .mk _ st ch => (st.isDir = false → ch = []) ∧ listShape ch
def listShape : List Info → Prop
  | [] => True
  | c :: cs => c.Shape ∧ listShape cs
end

theorem listShape_mem : ∀ {l : List Info} {n : Info}, listShape l → n ∈ l → n.Shape
  | [], _, _, h => by cases h
  | c :: cs, n, hs, h => by
    have hs' : c.Shape ∧ listShape cs := by simpa [listShape] using hs
    rcases List.mem_cons.mp h with rfl | h
    · exact hs'.1
    · exact listShape_mem hs'.2 h

theorem Shape_children {n : Info} (h : n.Shape) : (n.st.isDir = false → n.children = []) ∧ listShape n.children := by
  cases n with
  | mk name st ch => simpa [Info.Shape, Info.st, Info.children] using h

@[simp] theorem findChild_nil (c : Str) : findChild [] c = none := rfl

@[simp] theorem findIn_single (l : List Info) (c : Str) : findIn l [c] = findChild l c := rfl

theorem findIn_cons2 (l : List Info) (c c2 : Str) (r : List Str) :
    findIn l (c :: c2 :: r) = match findChild l c with
      | some n => findIn n.children (c2 :: r)
      | none => none := rfl

@[simp] theorem findIn_nil (r : List Str) : findIn [] r = none := by
  cases r with
  | nil => rfl
  | cons c r => cases r <;> rfl

theorem dirAt_snoc (path : List Str) (c : Str) (st : Stat) : dirAt (path ++ [c]) st = st.isDir := by
  simp [dirAt]

/-- additions below a node: the path exists on the new side and not on the old side -/
theorem below_add : ∀ (r : List Str) (path : List Str) (news olds : List Info), listShape news →
    (belowSpec path news olds r .add ↔ ((findIn news r).isSome = true ∧ findIn olds r = none))
  | [], path, news, olds, _ => by simp [belowSpec, findIn]
  | [c], path, news, olds, _ => by
    cases hn : findChild news c with
    | none => rw [belowSpec_missing [] _ hn]; simp [hn]
    | some n =>
      rw [belowSpec_found _ hn, findIn_single, findIn_single, hn]
      simp [selfSpec]
  | c :: c2 :: r, path, news, olds, hs => by
    cases hn : findChild news c with
    | none => rw [belowSpec_missing _ _ hn]; simp [findIn, hn]
    | some n =>
      rw [belowSpec_deep c2 r _ hn]
      have hsh := Shape_children (listShape_mem hs (findChild_mem hn))
      rw [below_add (c2 :: r) (path ++ [c]) n.children _ hsh.2, dirAt_snoc]
      simp only [findIn, hn]
      cases ho : findChild olds c with
      | none => simp [oldKids, findIn_nil]
      | some o =>
        simp only [oldKids]
        by_cases hd : n.st.isDir = true
        · simp [hd]
        · have hd' : n.st.isDir = false := by simpa using hd
          rw [hsh.1 hd']
          simp [findIn_nil]

/-- deletions below a node -/
theorem below_delete : ∀ (r : List Str) (path : List Str) (news olds : List Info), listShape news →
    (belowSpec path news olds r .delete ↔
      (findIn news r = none ∧ (findIn olds r).isSome = true ∧
        (r.dropLast = [] ∨ ∃ pn, findIn news r.dropLast = some pn ∧ pn.st.isDir = true) ∧ r ≠ []))
  | [], path, news, olds, _ => by simp [belowSpec, findIn]
  | [c], path, news, olds, _ => by
    cases hn : findChild news c with
    | none => rw [belowSpec_missing [] _ hn]; simp [findIn, hn]
    | some n =>
      rw [belowSpec_found _ hn]
      simp only [findIn, hn, selfSpec]
      constructor
      · rintro (⟨h, _⟩ | ⟨h, _⟩ | ⟨h, _⟩) <;> cases h
      · rintro ⟨h, _⟩; cases h
  | [c, c2], path, news, olds, hs => by
    cases hn : findChild news c with
    | none => rw [belowSpec_missing _ _ hn]; simp [findIn, hn]
    | some n =>
      rw [belowSpec_deep c2 [] _ hn]
      have hsh := Shape_children (listShape_mem hs (findChild_mem hn))
      rw [below_delete [c2] (path ++ [c]) n.children _ hsh.2, dirAt_snoc]
      simp only [findIn, hn, List.dropLast]
      cases ho : findChild olds c with
      | none => simp [oldKids, findIn]
      | some o =>
        simp only [oldKids]
        by_cases hd : n.st.isDir = true
        · simp [hd]
        · have hd' : n.st.isDir = false := by simpa using hd
          simp [hd', findIn, findChild]
  | c :: c2 :: c3 :: r, path, news, olds, hs => by
    cases hn : findChild news c with
    | none => rw [belowSpec_missing _ _ hn]; simp [findIn, hn]
    | some n =>
      rw [belowSpec_deep c2 (c3 :: r) _ hn]
      have hsh := Shape_children (listShape_mem hs (findChild_mem hn))
      rw [below_delete (c2 :: c3 :: r) (path ++ [c]) n.children _ hsh.2, dirAt_snoc]
      simp only [findIn, hn, List.dropLast]
      cases ho : findChild olds c with
      | none => simp [oldKids, findIn_nil]
      | some o =>
        simp only [oldKids]
        by_cases hd : n.st.isDir = true
        · simp [hd]
        · have hd' : n.st.isDir = false := by simpa using hd
          rw [hsh.1 hd']
          simp [findIn_nil]

theorem listWF_mem : ∀ {l : List Info} {n : Info}, listWF l → n ∈ l → n.WF
  | [], _, _, h => by cases h
  | c :: cs, n, hs, h => by
    have hs' : c.WF ∧ listWF cs := by simpa [listWF] using hs
    rcases List.mem_cons.mp h with rfl | h
    · exact hs'.1
    · exact listWF_mem hs'.2 h

theorem WF_children {n : Info} (h : n.WF) : NodupNames n.children ∧ listWF n.children := by
  cases n with
  | mk name st ch => simpa [Info.WF, Info.children] using h

theorem findIn_WF : ∀ (p : List Str) (l : List Info) (n : Info), listWF l → findIn l p = some n → n.WF
  | [], _, _, _, h => by cases h
  | [c], l, n, hl, h => listWF_mem hl (findChild_mem (by simpa using h))
  | c :: c2 :: r, l, n, hl, h => by
    rw [findIn_cons2] at h
    cases hc : findChild l c with
    | none => rw [hc] at h; cases h
    | some m =>
      rw [hc] at h
      exact findIn_WF (c2 :: r) m.children n (WF_children (listWF_mem hl (findChild_mem hc))).2 h

theorem findIn_Shape : ∀ (p : List Str) (l : List Info) (n : Info), listShape l → findIn l p = some n → n.Shape
  | [], _, _, _, h => by cases h
  | [c], l, n, hl, h => listShape_mem hl (findChild_mem (by simpa using h))
  | c :: c2 :: r, l, n, hl, h => by
    rw [findIn_cons2] at h
    cases hc : findChild l c with
    | none => rw [hc] at h; cases h
    | some m =>
      rw [hc] at h
      exact findIn_Shape (c2 :: r) m.children n (Shape_children (listShape_mem hl (findChild_mem hc))).2 h

/-- the specification below a node that both trees may reach is the specification of that node's children -/
theorem below_descend (k : CKind) (r : List Str) (hr : r ≠ []) : ∀ (p : List Str) (path : List Str) (news olds : List Info) (n : Info),
    listShape news → findIn news p = some n →
    (belowSpec path news olds (p ++ r) k ↔
      belowSpec (path ++ p) n.children (oldKids n.st.isDir (findIn olds p)) r k)
  | [], _, _, _, _, _, h => by cases h
  | [c], path, news, olds, n, _, h => by
    have hn : findChild news c = some n := by simpa using h
    obtain ⟨c2, r2, rfl⟩ : ∃ c2 r2, r = c2 :: r2 := by
      cases r with
      | nil => exact absurd rfl hr
      | cons a b => exact ⟨a, b, rfl⟩
    show belowSpec path news olds (c :: c2 :: r2) k ↔ _
    rw [belowSpec_deep c2 r2 k hn, dirAt_snoc, findIn_single]
  | c :: c2 :: p, path, news, olds, n, hs, h => by
    rw [findIn_cons2] at h
    cases hc : findChild news c with
    | none => rw [hc] at h; cases h
    | some m =>
      rw [hc] at h
      dsimp only at h
      have hsh := Shape_children (listShape_mem hs (findChild_mem hc))
      have hmdir : m.st.isDir = true := by
        cases hd : m.st.isDir with
        | true => rfl
        | false => rw [hsh.1 hd] at h; simp at h
      obtain ⟨c3, r3, hcr⟩ : ∃ c3 r3, (c2 :: p) ++ r = c3 :: r3 := ⟨c2, p ++ r, rfl⟩
      show belowSpec path news olds (c :: ((c2 :: p) ++ r)) k ↔ _
      rw [hcr, belowSpec_deep c3 r3 k hc, ← hcr, dirAt_snoc, hmdir,
        below_descend k r hr (c2 :: p) (path ++ [c]) m.children _ n hsh.2 h, findIn_cons2]
      have e : path ++ [c] ++ c2 :: p = path ++ c :: c2 :: p := by simp
      rw [e]
      cases ho : findChild olds c with
      | none => simp [oldKids]
      | some o => simp [oldKids]

/-- modifications below a node -/
theorem below_modify : ∀ (r : List Str) (path : List Str) (news olds : List Info), listShape news →
    (belowSpec path news olds r .modify ↔
      ∃ n o, findIn news r = some n ∧ findIn olds r = some o ∧
        (differs o.st n.st = true ∨ (n.st.isDir = true ∧ childChanges (path ++ r) n.children o.children ≠ [])))
  | [], path, news, olds, _ => by simp [belowSpec, findIn]
  | [c], path, news, olds, _ => by
    cases hn : findChild news c with
    | none => rw [belowSpec_missing [] _ hn]; simp [hn]
    | some n =>
      rw [belowSpec_found _ hn, findIn_single, findIn_single, hn]
      cases ho : findChild olds c with
      | none => simp [selfSpec, markedOf]
      | some o =>
        have hm : markedOf (some o) n = differs o.st n.st := rfl
        rw [hm]
        by_cases hdf : differs o.st n.st = true
        · simp [hdf]
        · have hdf' : differs o.st n.st = false := by simpa using hdf
          by_cases hd : n.st.isDir = true
          · simp [selfSpec, hdf', dirAt_snoc, oldKids, hd]
          · have hd' : n.st.isDir = false := by simpa using hd
            simp [selfSpec, hdf', dirAt_snoc, oldKids, hd']
  | c :: c2 :: r, path, news, olds, hs => by
    cases hn : findChild news c with
    | none => rw [belowSpec_missing _ _ hn]; simp [findIn_cons2, hn]
    | some m =>
      rw [belowSpec_deep c2 r _ hn]
      have hsh := Shape_children (listShape_mem hs (findChild_mem hn))
      rw [below_modify (c2 :: r) (path ++ [c]) m.children _ hsh.2, dirAt_snoc, findIn_cons2, findIn_cons2, hn]
      have e : path ++ [c] ++ c2 :: r = path ++ c :: c2 :: r := by simp
      rw [e]
      cases ho : findChild olds c with
      | none => simp [oldKids]
      | some o =>
        simp only [oldKids]
        by_cases hd : m.st.isDir = true
        · simp [hd]
        · have hd' : m.st.isDir = false := by simpa using hd
          rw [hsh.1 hd']
          simp

/-- the root call: what `Changes` returns, as a statement about `belowSpec` -/
theorem changes_iff (new old : Info) (hwf : new.WF) (q : List Str) (k : CKind) :
    ({ path := q, kind := k } : Change) ∈ changes new old ↔ belowSpec [] new.children old.children q k := by
  unfold changes
  rw [main new hwf [] (some old) false q k]
  simp only [dirAt, List.isEmpty_nil, Bool.or_true, oldKids, if_true, List.nil_append]
  constructor
  · rintro (⟨_, hs⟩ | ⟨r, hq, hs⟩)
    · rcases hs with ⟨_, h⟩ | ⟨_, _, _, _, h, _⟩
      · cases h
      · exact absurd rfl h
    · rw [hq]; exact hs
  · intro hs; exact Or.inr ⟨q, rfl, hs⟩

/-- **the root itself is never reported** -/
theorem root_never_reported (new old : Info) (hwf : new.WF) (k : CKind) :
    ({ path := [], kind := k } : Change) ∉ changes new old := by
  rw [changes_iff new old hwf]
  simp [belowSpec]

/-- **additions**: exactly the paths present only in the new tree -/
theorem additions_exact (new old : Info) (hwf : new.WF) (hsh : new.Shape) (p : List Str) :
    ({ path := p, kind := .add } : Change) ∈ changes new old ↔
      ((findIn new.children p).isSome = true ∧ findIn old.children p = none) := by
  rw [changes_iff new old hwf, below_add p [] _ _ (Shape_children hsh).2]

/-- **deletions**: exactly the paths present only in the old tree whose parent is a directory on the new side too -/
theorem deletions_exact (new old : Info) (hwf : new.WF) (hsh : new.Shape) (p : List Str) :
    ({ path := p, kind := .delete } : Change) ∈ changes new old ↔
      (findIn new.children p = none ∧ (findIn old.children p).isSome = true ∧
        (p.dropLast = [] ∨ ∃ pn, findIn new.children p.dropLast = some pn ∧ pn.st.isDir = true) ∧ p ≠ []) := by
  rw [changes_iff new old hwf, below_delete p [] _ _ (Shape_children hsh).2]

/-- **modifications**: exactly the paths present in both trees whose compared fields differ, and the
    directories present in both that have a reported change beneath them -/
theorem modifications_exact (new old : Info) (hwf : new.WF) (hsh : new.Shape) (p : List Str) :
    ({ path := p, kind := .modify } : Change) ∈ changes new old ↔
      ∃ n o, findIn new.children p = some n ∧ findIn old.children p = some o ∧
        (differs o.st n.st = true ∨
          (n.st.isDir = true ∧ ∃ r k, r ≠ [] ∧ ({ path := p ++ r, kind := k } : Change) ∈ changes new old)) := by
  rw [changes_iff new old hwf, below_modify p [] _ _ (Shape_children hsh).2]
  simp only [List.nil_append]
  constructor
  · rintro ⟨n, o, hn, ho, h⟩
    refine ⟨n, o, hn, ho, ?_⟩
    rcases h with h | ⟨hd, hcc⟩
    · exact Or.inl h
    · right
      refine ⟨hd, ?_⟩
      -- a non-empty segment has a member; locate it in the overall result
      obtain ⟨x, hx⟩ := List.exists_mem_of_ne_nil _ hcc
      have hnwf : n.WF := findIn_WF p _ n (WF_children hwf).2 hn
      have hk := (main n hnwf)
      obtain ⟨q, k⟩ := x
      have hkids : KidsOK n.children := by
        intro path olds q k
        have := kidsOK_of_WF n hnwf
        exact this path olds q k
      obtain ⟨r, hq, hs⟩ := (hkids p o.children q k).mp hx
      have hrne : r ≠ [] := by intro e; rw [e] at hs; simp [belowSpec] at hs
      refine ⟨r, k, hrne, ?_⟩
      rw [changes_iff new old hwf, below_descend k r hrne p [] _ _ n (Shape_children hsh).2 hn, ho]
      simpa [oldKids, hd] using hs
  · rintro ⟨n, o, hn, ho, h⟩
    refine ⟨n, o, hn, ho, ?_⟩
    rcases h with h | ⟨hd, r, k, hrne, hmem⟩
    · exact Or.inl h
    · right
      refine ⟨hd, ?_⟩
      have hnwf : n.WF := findIn_WF p _ n (WF_children hwf).2 hn
      have hkids := kidsOK_of_WF n hnwf
      rw [changes_iff new old hwf, below_descend k r hrne p [] _ _ n (Shape_children hsh).2 hn, ho] at hmem
      have hmem' : belowSpec p n.children o.children r k := by simpa [oldKids, hd] using hmem
      intro e
      have := (hkids p o.children (p ++ r) k).mpr ⟨r, rfl, hmem'⟩
      rw [e] at this
      cases this

/-! ### order: a directory's own entry precedes the entries inside it -/

/-- `b` is a proper ancestor of `a` -/
def Above (b a : List Str) : Prop := b <+: a ∧ b ≠ a

/-- no entry is preceded by an entry for something beneath it -/
def Ordered (l : List Change) : Prop := l.Pairwise (fun a b => ¬ Above b.path a.path)

theorem above_append_iff (p a b : List Str) : Above (p ++ a) (p ++ b) ↔ Above a b := by
  unfold Above
  rw [List.prefix_append_right_inj]
  constructor
  · rintro ⟨h1, h2⟩; exact ⟨h1, fun e => h2 (by rw [e])⟩
  · rintro ⟨h1, h2⟩; exact ⟨h1, fun e => h2 (List.append_cancel_left e)⟩

theorem kids_paths (n : List Info) (hk : KidsOK n) (path : List Str) (olds : List Info) (x : Change)
    (hx : x ∈ childChanges path n olds) : ∃ c r, x.path = path ++ c :: r ∧ belowSpec path n olds (c :: r) x.kind := by
  obtain ⟨q, k⟩ := x
  obtain ⟨r, hq, hs⟩ := (hk path olds q k).mp hx
  cases r with
  | nil => simp [belowSpec] at hs
  | cons c r => exact ⟨c, r, hq, hs⟩

theorem node_paths (n : Info) (hk : NodeOK n) (path : List Str) (old : Option Info) (m : Bool) (x : Change)
    (hx : x ∈ addChanges path n old m) : ∃ r, x.path = path ++ r := by
  obtain ⟨q, k⟩ := x
  rcases (hk path old m q k).mp hx with ⟨hq, _⟩ | ⟨r, hq, _⟩
  · exact ⟨[], by simp [hq]⟩
  · exact ⟨r, hq⟩

theorem ordered_main (info : Info) : info.WF → ∀ (path : List Str) (old : Option Info) (m : Bool),
    Ordered (addChanges path info old m) := by
  refine Info.rec (motive_1 := fun info => info.WF → ∀ (path : List Str) (old : Option Info) (m : Bool),
      Ordered (addChanges path info old m))
    (motive_2 := fun news => NodupNames news → listWF news → ∀ (path : List Str) (olds : List Info),
      Ordered (childChanges path news olds)) ?_ ?_ ?_ info
  · -- a node: its own entries come first, everything else is strictly beneath
    intro name st ch ih hwf path old m
    have hw : NodupNames ch ∧ listWF ch := by simpa [Info.WF] using hwf
    have hkids : KidsOK ch := kidsOK_of_WF (.mk name st ch) hwf
    have hcc := ih hw.1 hw.2 path (oldKids (dirAt path st) old)
    have hbelow : ∀ x ∈ childChanges path ch (oldKids (dirAt path st) old), ¬ Above x.path path := by
      intro x hx
      obtain ⟨c, r, hp, _⟩ := kids_paths ch hkids path _ x hx
      rw [hp]
      rintro ⟨hpre, _⟩
      have := List.IsPrefix.length_le hpre
      simp at this
      omega
    have hseg : Ordered ((if old.isNone = true then [({ path := path, kind := CKind.add } : Change)] else []) ++
        childChanges path ch (oldKids (dirAt path st) old)) := by
      unfold Ordered
      rw [List.pairwise_append]
      refine ⟨?_, hcc, ?_⟩
      · split <;> simp
      · intro a ha b hb
        split at ha
        · rw [List.mem_singleton] at ha
          rw [ha]; exact hbelow b hb
        · cases ha
    rw [addChanges.eq_def]
    simp only
    generalize hS : ((if old.isNone = true then [({ path := path, kind := CKind.add } : Change)] else []) ++
        childChanges path ch (oldKids (dirAt path st) old)) = S at hseg
    have hSbelow : ∀ x ∈ S, ¬ Above x.path path := by
      intro x hx
      rw [← hS, List.mem_append] at hx
      rcases hx with hx | hx
      · split at hx
        · rw [List.mem_singleton] at hx
          rw [hx]; exact fun h => h.2 rfl
        · cases hx
      · exact hbelow x hx
    split
    · unfold Ordered
      rw [List.pairwise_cons]
      exact ⟨fun b hb => hSbelow b hb, hseg⟩
    · exact hseg
  · -- deletions only: all at the same depth
    intro _ _ path olds
    rw [childChanges.eq_1]
    unfold Ordered
    rw [List.pairwise_map]
    refine List.Pairwise.imp ?_ (List.pairwise_of_forall (R := fun _ _ => True) (fun _ _ => trivial))
    intro a b _
    simp only
    rw [above_append_iff]
    rintro ⟨hpre, hne⟩
    have hl := List.IsPrefix.length_le hpre
    have : [b.name] = [a.name] := by
      have := List.IsPrefix.eq_of_length hpre (by simp)
      exact this
    exact hne this
  · -- one more new child: its entries, then the entries of the other names
    intro c cs ihc ihcs hnd hwf path olds
    have hnd' : c.name ∉ cs.map Info.name ∧ NodupNames cs := by
      simpa [NodupNames, List.nodup_cons] using hnd
    have hwf' : c.WF ∧ listWF cs := by simpa [listWF] using hwf
    have hcsnone : findChild cs c.name = none := findChild_none_of_not_mem hnd'.1
    have hkcs : KidsOK cs := by
      have key : ∀ news : List Info, NodupNames news → listWF news → KidsOK news := by
        intro news
        induction news with
        | nil => intro _ _; exact kids_nil
        | cons d ds ih =>
          intro h1 h2
          have h1' : d.name ∉ ds.map Info.name ∧ NodupNames ds := by
            simpa [NodupNames, List.nodup_cons] using h1
          have h2' : d.WF ∧ listWF ds := by simpa [listWF] using h2
          exact kids_cons d ds (main d h2'.1) (ih h1'.2 h2'.2) h1'.1
      exact key cs hnd'.2 hwf'.2
    have hnode : NodeOK c := main c hwf'.1
    -- entries of the remaining children never sit above (or at) the entries of `c`
    have cross : ∀ (olds' : List Info), (findChild olds' c.name = none) → ∀ (o' : Option Info) (mk : Bool),
        ∀ a ∈ addChanges (path ++ [c.name]) c o' mk, ∀ b ∈ childChanges path cs olds', ¬ Above b.path a.path := by
      intro olds' hnone o' mk a ha b hb
      obtain ⟨r, hpa⟩ := node_paths c hnode _ _ _ a ha
      obtain ⟨c', r', hpb, hsb⟩ := kids_paths cs hkcs path olds' b hb
      have hc' : c' ≠ c.name := by
        intro e
        rw [e, belowSpec_missing r' _ hcsnone, hnone] at hsb
        cases hsb.1
      rw [hpa, hpb]
      rintro ⟨hpre, _⟩
      have e1 : path ++ [c.name] ++ r = path ++ (c.name :: r) := by simp
      rw [e1, List.prefix_append_right_inj, List.cons_prefix_cons] at hpre
      exact hc' hpre.1
    have crossHead : ∀ (olds' : List Info), (findChild olds' c.name = none) →
        ∀ b ∈ childChanges path cs olds', ¬ Above b.path (path ++ [c.name]) := by
      intro olds' hnone b hb
      obtain ⟨c', r', hpb, hsb⟩ := kids_paths cs hkcs path olds' b hb
      have hc' : c' ≠ c.name := by
        intro e
        rw [e, belowSpec_missing r' _ hcsnone, hnone] at hsb
        cases hsb.1
      rw [hpb]
      rintro ⟨hpre, _⟩
      rw [List.prefix_append_right_inj, List.cons_prefix_cons] at hpre
      exact hc' hpre.1
    rw [childChanges.eq_2]
    cases ho : findChild olds c.name with
    | some o =>
      simp only
      unfold Ordered
      rw [List.pairwise_append, List.pairwise_append]
      refine ⟨⟨?_, ihc hwf'.1 _ _ _, ?_⟩, ihcs hnd'.2 hwf'.2 _ _, ?_⟩
      · split <;> simp
      · intro a ha b hb
        split at ha
        · rw [List.mem_singleton] at ha
          obtain ⟨r, hpb⟩ := node_paths c hnode _ _ _ b hb
          rw [ha, hpb]
          rintro ⟨hpre, hne⟩
          have hl := List.IsPrefix.length_le hpre
          have : r = [] := by
            cases r with
            | nil => rfl
            | cons x xs => simp at hl
          exact hne (by rw [this]; simp)
        · cases ha
      · intro a ha b hb
        rw [List.mem_append] at ha
        rcases ha with ha | ha
        · split at ha
          · rw [List.mem_singleton] at ha
            rw [ha]
            exact crossHead _ (findChild_dropChild_self olds c.name) b hb
          · cases ha
        · exact cross _ (findChild_dropChild_self olds c.name) _ _ a ha b hb
    | none =>
      simp only
      unfold Ordered
      rw [List.pairwise_append]
      exact ⟨ihc hwf'.1 _ _ _, ihcs hnd'.2 hwf'.2 _ _, fun a ha b hb => cross olds ho _ _ a ha b hb⟩

/-- **a directory's own entry precedes the entries inside it**: in the list `Changes` returns no entry
    is preceded by an entry for a path beneath it -/
theorem parent_first (new old : Info) (hwf : new.WF) (i j : Nat) (a b : Change)
    (hi : (changes new old)[i]? = some a) (hj : (changes new old)[j]? = some b) (hab : Above a.path b.path) :
    i < j := by
  have hord : Ordered (changes new old) := ordered_main new hwf [] (some old) false
  rcases Nat.lt_trichotomy i j with h | h | h
  · exact h
  · subst h
    rw [hi] at hj
    cases hj
    exact absurd rfl hab.2
  · exfalso
    unfold Ordered at hord
    rw [List.pairwise_iff_getElem] at hord
    have hjl : j < (changes new old).length := (List.getElem?_eq_some_iff.mp hj).1
    have hil : i < (changes new old).length := (List.getElem?_eq_some_iff.mp hi).1
    have := hord j i hjl hil h
    rw [(List.getElem?_eq_some_iff.mp hj).2, (List.getElem?_eq_some_iff.mp hi).2] at this
    exact this hab

/-! ### the hypotheses are satisfiable, and the statements say something on a concrete pair of trees -/

def exFile : Stat := { mode := 0o644, isDir := false, uid := 0, gid := 0, rdev := 0, size := 1, mtimeSec := 5, mtimeNsec := 0, cap := [] }
def exDir : Stat := { exFile with mode := 0o755, isDir := true }
def exNew : Info := .mk [] exDir [.mk b!"a" exDir [.mk b!"x" exFile []], .mk b!"f" { exFile with size := 2 } []]
def exOld : Info := .mk [] exDir [.mk b!"a" exDir [.mk b!"y" exFile []], .mk b!"f" exFile [], .mk b!"g" exFile []]

example : exNew.WF ∧ exNew.Shape := by
  simp [exNew, Info.WF, listWF, Info.Shape, listShape, NodupNames, Info.name, exDir, exFile]

example : changes exNew exOld =
    [⟨[b!"a"], .modify⟩, ⟨[b!"a", b!"x"], .add⟩, ⟨[b!"a", b!"y"], .delete⟩, ⟨[b!"f"], .modify⟩, ⟨[b!"g"], .delete⟩] := by
  decide

end GA.TreeDiff
