import GA.M.Pack
import GA.M.Unpack
import GA.Props.C09
import GA.Props.C05
/-
  C03 — tar then untar reproduces the tree (the per-entry laws that are proved; the end-to-end
  statement `untar ∘ tar = id` over whole trees is checked on the real code by the roundtrip-tar
  stream and is NOT proved — see DESIGN "C03").
   * what is archived: the header carries type, 12 mode bits, owner, whole-second mtime, size, device
     numbers, link target and capability of the lstat'ed object;
   * how it is restored: owner first, then attributes, then mode, then times — an order the kernel
     model makes load-bearing (chown clears set-id bits and capabilities of non-directories);
   * every hard-link entry names an earlier non-link entry (C09), so its `link(2)` target exists;
   * times inside the representable range are restored unchanged (C05 clamp).
-/
namespace GA.C03
open GA

/-- **what is archived** -/
theorem header_carries_metadata (name : Str) (s : StatInfo) (link : Str) (capR : Res) :
    (buildHeader name s link capR).typ = typOfKind s.kind ∧ (buildHeader name s link capR).mode = s.perm ∧
    (buildHeader name s link capR).uid = s.uid ∧ (buildHeader name s link capR).gid = s.gid ∧
    (buildHeader name s link capR).mtime = s.mtime.getD implicitT ∧ (buildHeader name s link capR).linkname = link ∧
    (s.kind = .reg → (buildHeader name s link capR).size = s.size) ∧
    (s.kind ≠ .reg → (buildHeader name s link capR).size = 0) ∧
    ((s.kind = .chr ∨ s.kind = .blk) →
      (buildHeader name s link capR).devmajor = s.rdev.1 ∧ (buildHeader name s link capR).devminor = s.rdev.2) := by
  refine ⟨rfl, rfl, rfl, rfl, rfl, rfl, ?_, ?_, ?_⟩
  · intro h; simp [buildHeader, h]
  · intro h; cases hk : s.kind <;> simp_all [buildHeader]
  · rintro (h | h) <;> simp [buildHeader, h]

/-- the capability attribute travels as a SCHILY.xattr record; revision 3 is rewritten to revision 2 -/
theorem capability_archived (name : Str) (s : StatInfo) (link : Str) (c : List UInt8) :
    (buildHeader name s link (.data c)).xattrs = [(capKey, capForHeader c)] := rfl

theorem cap_rev2_unchanged (c : List UInt8) (h : c.getD 3 0 ≠ 3) : capForHeader c = c := by
  unfold capForHeader; rw [if_neg h]

theorem cap_rev3_becomes_rev2 :
    capForHeader [1, 0, 0, 3, 5, 0, 0, 0, 0, 0, 0, 0, 0, 0, 0, 0, 0, 0, 0, 0, 232, 3, 0, 0] =
      [1, 0, 0, 2, 5, 0, 0, 0, 0, 0, 0, 0, 0, 0, 0, 0, 0, 0, 0, 0] := by decide

/-- the calls issued when every call succeeds -/
def okTrace {α : Type} : Nat → Prog α → List Sys
  | 0, _ => []
  | _, .ret _ => []
  | n+1, .call s k => s :: okTrace n (k .ok)

/-- **how a regular file's metadata is restored**: owner, then mode, then times — in this order -/
theorem restore_order (path : Str) (e : Entry) (o : Opts) (ht : e.typ = .reg) (hx : e.xattrs = [])
    (hl : o.noLchown = false) :
    okTrace 10 (applyMetaP path e o) =
      [.chown path (o.chownOpts.getD (e.uid, e.gid)).1 (o.chownOpts.getD (e.uid, e.gid)).2 false,
       .chmod path e.mode, .utimes path (some (boundTime e.mtime)) true] := by
  simp [applyMetaP, hl, hx, ht, setXattrsP, okTrace, bind, Prog.bind, sys, pure, isErr]

/-- with one capability record: owner, attribute, mode, times -/
theorem restore_order_with_cap (path : Str) (e : Entry) (o : Opts) (v : List UInt8) (ht : e.typ = .reg)
    (hx : e.xattrs = [(capKey, v)]) (hl : o.noLchown = false) :
    okTrace 10 (applyMetaP path e o) =
      [.chown path (o.chownOpts.getD (e.uid, e.gid)).1 (o.chownOpts.getD (e.uid, e.gid)).2 false,
       .setxattr path capKey v false,
       .chmod path e.mode, .utimes path (some (boundTime e.mtime)) true] := by
  simp [applyMetaP, hl, hx, ht, setXattrsP, okTrace, bind, Prog.bind, sys, pure, isErr, xattrTolerated]

/-- **why the order matters** (kernel rule in K): chown on a non-directory clears the set-uid bit, the
    set-gid bit of group-executable files, and security.capability — so mode and capability must be
    set afterwards -/
theorem and_2047_2048 (x : Nat) : (x &&& 2047) &&& 2048 = 0 := by
  rw [Nat.and_assoc]; simp
theorem and_1023_2048 (x : Nat) : (x &&& 2047 &&& 3071) &&& 2048 = 0 := by
  rw [Nat.and_assoc, Nat.and_assoc]; simp

theorem chown_clears (n : Inode) (u g : Nat) (hk : n.kind ≠ .dir) :
    (chownInode n u g).perm &&& 0o4000 = 0 ∧
    (∀ v, (capKey, v) ∉ (chownInode n u g).xattrs) := by
  have hk' : (n.kind == Kind.dir) = false := by simpa using hk
  unfold chownInode
  simp only [hk', Bool.false_eq_true, if_false]
  constructor
  · split
    · exact and_1023_2048 n.perm
    · exact and_2047_2048 n.perm
  · intro v hv
    simp [dropCap] at hv

/-- chmod after chown gives exactly the archived mode, set-id bits included -/
theorem chmod_after_chown_restores (n : Inode) (u g m : Nat) :
    ({ chownInode n u g with perm := m &&& 0o7777 } : Inode).perm = m &&& 0o7777 := rfl

/-- a mode with the set-uid bit does not survive the opposite order -/
theorem chmod_before_chown_loses_setuid :
    (chownInode { kind := .reg, perm := 0o4755, uid := 0, gid := 0, mtime := none } 1 1).perm = 0o755 := by decide

/-- **hard links**: every link entry of a produced archive names an earlier non-link entry (C09),
    restated here because the round trip depends on it -/
theorem hardlinks_follow_targets (src : Str) (o : PackOpts) (w : World) (hov : o.overlay = false) :
    let es := ((tarP src o).run w).1
    ∀ (i : Nat) (e : Entry), es[i]? = some e → e.typ = .link →
      ∃ j t, j < i ∧ es[j]? = some t ∧ t.name = e.linkname ∧ t.typ ≠ .link :=
  (C09.tar_self_consistent src o w hov).2

/-- times inside the representable range come back unchanged -/
theorem mtime_restored (t : Int) (h1 : 0 ≤ t) (h2 : t ≤ 9223372036) : boundTime t = t := C05.clamp_identity t h1 h2


/-- the order of the metadata phase is the code's: `createTarFile` asks for the owner first, then the
    extended attributes, then the mode, then the times (regenerated from its source on every run) — the order
    `applyMetaP` follows and `restore_order` needs: the chown clears set-id bits and capabilities, the calls
    after it put them back -/
theorem meta_order_is_generated : Facts.createMetaOrder = ["chown", "xattr", "chmod", "times"] := by decide

end GA.C03
